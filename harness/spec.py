"""Spec-side oracles, written from the standards (Annex 10 vol IV, DO-260B, Doc 9871),
independent of the pyModeS decoders and of the Lean model's decoders.

Frames are built from fixed-width fields; `Frame` is a mutable bit list.
"""
from __future__ import annotations

from fractions import Fraction

GEN = 0x1FFF409  # Mode S generator, 25 bits


# ------------------------------------------------------------------ bits / frames

def bits_of(v, w):
    return [(v >> (w - 1 - i)) & 1 for i in range(w)]


def val_of(bits):
    n = 0
    for b in bits:
        n = (n << 1) | b
    return n


def rand_bits(rng, n):
    v = rng.getrandbits(n) if n else 0
    return bits_of(v, n)


def hex_of(bits, case="upper"):
    assert len(bits) % 4 == 0
    s = "%0*X" % (len(bits) // 4, val_of(bits))
    if case == "lower":
        return s.lower()
    return s


def mixcase(rng, s):
    return "".join(c.lower() if rng.random() < 0.5 else c.upper() for c in s)


def put(bits, pos, w, v):
    """set bits[pos:pos+w] (0-based) to value v"""
    bits[pos:pos + w] = bits_of(v, w)


def background(rng, n, style=None):
    style = style if style is not None else rng.choice(["rand", "rand", "zero", "one"])
    if style == "zero":
        return [0] * n
    if style == "one":
        return [1] * n
    return rand_bits(rng, n)


# ------------------------------------------------------------------ CRC (polynomial arithmetic on ints)

def polymod(n, nbits):
    """remainder of the nbits-bit polynomial n modulo GEN"""
    for i in range(nbits - 1, 23, -1):
        if (n >> i) & 1:
            n ^= GEN << (i - 24)
    return n


def parity_of_data(data_bits):
    """24 parity bits for the data bits (frame = data ++ parity)"""
    n = val_of(data_bits) << 24
    return polymod(n, len(data_bits) + 24)


def with_parity(data_bits, overlay=0):
    p = parity_of_data(data_bits) ^ overlay
    return data_bits + bits_of(p, 24)


# ------------------------------------------------------------------ Gillham / altitude (Annex 10 3.1.2.6.5.4)

def gray(n):
    return n ^ (n >> 1)


def gillham_fields(h):
    """h in -1200..126700 step 100 -> (D2 D4 A1 A2 A4 B1 B2 B4, C1 C2 C4)"""
    k = (h + 1300) // 100            # 1 .. 1280
    n500, n100 = divmod(k - 1, 5)    # n100 0..4 -> increments 1..5
    n100 += 1
    if n500 % 2:
        n100 = 6 - n100
    c = {1: 0b001, 2: 0b011, 3: 0b010, 4: 0b110, 5: 0b100}[n100]
    return gray(n500), c


def ac13_from_gillham(g8, c3):
    D2, D4, A1, A2, A4, B1, B2, B4 = bits_of(g8, 8)
    C1, C2, C4 = bits_of(c3, 3)
    #       C1 A1 C2 A2 C4 A4 M  B1 Q  B2 D2 B4 D4
    return [C1, A1, C2, A2, C4, A4, 0, B1, 0, B2, D2, B4, D4]


_GILLHAM = None


def gillham_table():
    """13-bit code (M=0,Q=0) -> altitude, for every legal value"""
    global _GILLHAM
    if _GILLHAM is None:
        t = {}
        for h in range(-1200, 126701, 100):
            code = val_of(ac13_from_gillham(*gillham_fields(h)))
            assert code not in t
            t[code] = h
        _GILLHAM = t
    return _GILLHAM


def alt13_spec(code):
    """Annex 10 altitude for a 13-bit AC field value, None if no/invalid altitude"""
    if code == 0:
        return None
    b = bits_of(code, 13)
    M, Q = b[6], b[8]
    if M == 1:
        n = val_of(b[:6] + b[7:])
        return n * 328084 // 100000
    if Q == 1:
        n = val_of(b[:6] + [b[7]] + b[9:])
        return n * 25 - 1000
    return gillham_table().get(code)


# ------------------------------------------------------------------ downlink frame builders

def df_frame(rng, df, nbits, fields=(), overlay_addr=None, bg=None):
    """downlink frame with the DF field and given (pos, width, value) fields; other bits from
    the background; if overlay_addr is given the last 24 bits are parity XOR address"""
    b = background(rng, nbits, bg)
    put(b, 0, 5, df)
    for pos, w, v in fields:
        put(b, pos, w, v)
    if overlay_addr is not None:
        b = with_parity(b[:-24], overlay_addr)
    return b


def adsb_frame(rng, tc, me_fields=(), df=17, icao=None, bg=None, ca=None, good_parity=False):
    """112-bit DF17/18 frame; me_fields are (pos, width, value) relative to the ME field (bit 32)"""
    b = background(rng, 112, bg)
    put(b, 0, 5, df)
    if ca is not None:
        put(b, 5, 3, ca)
    if icao is not None:
        put(b, 8, 24, icao)
    put(b, 32, 5, tc)
    for pos, w, v in me_fields:
        put(b, 32 + pos, w, v)
    if good_parity:
        b = with_parity(b[:-24])
    return b


def commb_frame(rng, df, mb_fields=(), bg=None, mb_bg=None, addr=None):
    """112-bit DF20/21 frame; mb_fields relative to the MB field (bit 32)"""
    b = background(rng, 112, bg)
    if mb_bg is not None:
        b[32:88] = background(rng, 56, mb_bg)
    put(b, 0, 5, df)
    for pos, w, v in mb_fields:
        put(b, 32 + pos, w, v)
    if addr is not None:
        b = with_parity(b[:-24], addr)
    return b


# ------------------------------------------------------------------ CPR (DO-260B A.1.7), exact rationals

def nl_table():
    """transition latitudes computed with mpmath when available, else the DO-260B printed table"""
    return NL_LATS


# DO-260B Table A-21 style transition latitudes (degrees): NL(lat) = n for lat < NL_LATS[n] ...
# filled in by cpr_nl() below from a 40-digit computation stored as rationals (see harness/nl_table.py)
NL_LATS = None
