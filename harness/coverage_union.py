#!/usr/bin/env python3
"""Development report: union of the code coverage that the 20 checks' generators reach in the anchored files
(reads evidence/*.json written with VERIF_COVERAGE=1 or by the thorough tier)."""
import glob
import json
import os

VERIF = os.path.normpath(os.path.join(os.path.dirname(os.path.abspath(__file__)), ".."))
REPO = os.environ.get("PYMODES_REPO", "/repo")
miss, stm = {}, {}
for p in sorted(glob.glob(os.path.join(VERIF, "evidence", "C*.json"))):
    cc = json.load(open(p))["coverage"].get("anchor_code_coverage") or {}
    for f, d in cc.items():
        if "missing_lines" not in d:
            continue
        m = set(d["missing_lines"])
        miss[f] = m if f not in miss else (miss[f] & m)
        stm[f] = d["statements"]
tot = cov = 0
for f in sorted(miss):
    tot += stm[f]
    cov += stm[f] - len(miss[f])
    print("%-45s %4d statements, never executed by any check anchored there: %s" % (f, stm[f], sorted(miss[f]) or "-"))
print("union: %d / %d statements of the anchored files executed (%.1f%%)" % (cov, tot, 100.0 * cov / max(tot, 1)))
