#!/usr/bin/env python3
"""./check <Cxx> --tier quick|thorough   |   ./check --replay <file>"""
from __future__ import annotations

import argparse
import re
import importlib
import json
import os
import sys
import time
import traceback

sys.path.insert(0, os.path.dirname(os.path.abspath(__file__)))
import core  # noqa: E402
from core import VERIF, Ctx, outputs_equal  # noqa: E402
import gentie  # noqa: E402
from gentie import GenTie  # noqa: E402


_RES = {}


def resolve(path):
    """'pyModeS.adsb.altitude' or 'h:props.C16.feed' -> callable"""
    f = _RES.get(path)
    if f is None:
        f = _RES[path] = _resolve(path)
    return f


def _resolve(path):
    if path.startswith("h:"):
        modname, _, attr = path[2:].rpartition(".")
        return getattr(importlib.import_module(modname), attr)
    parts = path.split(".")
    obj = importlib.import_module(parts[0])
    for i, p in enumerate(parts[1:], 1):
        try:
            obj = getattr(obj, p)
        except AttributeError:
            obj = importlib.import_module(".".join(parts[: i + 1]))
    return obj


_AT = None


def post_model(line):
    """evaluate the trusted transcendental tokens the model leaves symbolic"""
    global _AT
    if line.startswith("f:"):
        import struct
        v = struct.unpack(">d", bytes.fromhex(line[2:]))[0]
        return "nan" if v != v else repr(v)
    if "atan2deg(" in line:
        import re
        import adapters
        if _AT is None:
            _AT = re.compile(r"atan2deg\((-?\d+),(-?\d+)\)")
        line = _AT.sub(lambda mo: repr(adapters.atan2deg(int(mo.group(1)), int(mo.group(2)))), line)
    return line


def eval_real(real):
    path, args = real[0], real[1]
    kwargs = real[2] if len(real) > 2 else {}
    try:
        fn = resolve(path)
    except Exception:
        return "EXC"
    return core.call(fn, *args, **kwargs)


def check_spec(mod, c, real_out):
    """-> (ok, expected_text) ; (True, None) when the property pins nothing for this case"""
    if c.get("expect") is not None:
        return outputs_equal(real_out, c["expect"]), c["expect"]
    if c.get("pred") is not None:
        name, args = c["pred"][0], c["pred"][1:]
        return getattr(mod, name)(real_out, *args)
    return True, None


def run_cases(mod, ctx, driver_ok):
    """evaluate the stream; returns stats"""
    st = dict(evaluations=0, distinct=set(), tags={}, mismatches=[], specfails=[], samples=[], model_lines=0,
              purity_replays=0, gen_lines=0, gen_mismatches=[], gen_functions=set())
    batch = []
    hist = []          # sample of (real call, first outcome) for the purity replay at the end
    recent = []        # the last few calls, kept as context for a history-dependent failure
    gen = GenTie(ctx)
    MP = getattr(mod, "MODEL_POST", None)
    EQ = getattr(mod, "outputs_match", None) or outputs_equal

    amp = getattr(ctx, "amplify_ns", None)
    amp_batch = []
    import adapters

    def flush(depth=0):
        if not batch:
            return
        ops = [c["op"] for c in batch if c.get("op")]
        outs = iter(core.run_driver(ops)) if (driver_ok and ops) else iter([])
        gen.prepare(batch)
        for c in batch:
            r = eval_real(c["real"])
            st["evaluations"] += 1
            if not c.get("stateful") and (len(hist) < 4000 or ctx.rng.random() < 0.01):
                if len(hist) < 4000:
                    hist.append((c["real"], r, c.get("tag", "")))
                else:
                    hist[ctx.rng.randrange(len(hist))] = (c["real"], r, c.get("tag", ""))
            gen.compare(c, r, st, EQ)
            tag = c.get("tag", "")
            st["tags"][tag] = st["tags"].get(tag, 0) + 1
            if not c.get("trivial"):
                st["distinct"].add(core.hash_str(json.dumps([c.get("op"), c["real"]], sort_keys=True, default=str)))
            m = None
            if c.get("op") and driver_ok:
                m = post_model(next(outs))
                if MP is not None:
                    m = MP(m)
                st["model_lines"] += 1
            ok, exp = check_spec(mod, c, r)
            rec = None
            if m is not None and not EQ(r, m) and c.get("amplified") and float_boundary(c["real"], m, EQ):
                # an amplified neighbour that sits on a rounding boundary of the real (floating-point) code: the code
                # itself gives the model's exact-arithmetic answer when a float argument moves by one part in 10^12
                st["amplified_float_boundary"] = st.get("amplified_float_boundary", 0) + 1
            elif m is not None and not EQ(r, m):
                rec = dict(kind="correspondence", op=c.get("op"), real=c["real"], got=r, model=m, expected=exp,
                           spec_ok=ok, tag=tag, info=c.get("info"))
                st["mismatches"].append(rec)
            if not ok:
                rec = dict(kind="spec", op=c.get("op"), real=c["real"], got=r, model=m, expected=exp,
                           spec_ok=False, tag=tag, info=c.get("info"), pred=c.get("pred"), expect=c.get("expect"))
                st["specfails"].append(rec)
            if len(st["samples"]) < 6 and (st["evaluations"] in (1, 2) or ctx.rng.random() < 0.0005):
                st["samples"].append(dict(op=c.get("op"), real=c["real"], got=r, model=m, expected=exp, tag=tag))
            # the tie of this function is open: the same call on frames that differ in one or two hex digits (model
            # against code; the property's oracle is not available for them).  Only cases whose own outcome is a value
            # on which model and code agree are amplified: that agreement shows that the model operation and the real
            # call are paired in the same output format.
            real = c["real"]
            if (amp and not c.get("amplified") and m is not None and r not in ("RE", "EXC", "None") and EQ(r, m)
                    and real[0].startswith("pyModeS.") and len(real) == 2 and real[1] and isinstance(real[1][0], str)
                    and len(real[1][0]) in (14, 28) and real[1][0] in c["op"]):
                t = gen.target(real) if gen.ok else None
                if t is not None and t[0].split(".")[0] in amp:
                    m0 = real[1][0]
                    # budget: a dozen neighbours per call at first, fewer once the run has spent its amplification budget
                    # (a harmless refactoring that opens a tie must not turn a quick check into a half-hour run)
                    cap = 1500000 if ctx.thorough else 400000
                    used = st.get("amplified", 0)
                    kk = 12 if used < cap // 2 else (3 if used < cap else (1 if ctx.rng.random() < 0.05 else 0))
                    st["amplified"] = used + kk
                    for _k in range(kk):
                        m1 = adapters.neighbour(ctx.rng, m0)
                        if ctx.rng.random() < 0.4:
                            m1 = adapters.neighbour(ctx.rng, m1)
                        amp_batch.append(dict(op=c["op"].replace(m0, m1), real=(real[0], [m1] + list(real[1][1:])),
                                              tag="amplified:" + tag, stateful=True, amplified=True))
        batch.clear()
        if amp_batch and depth == 0:
            batch.extend(amp_batch)
            amp_batch.clear()
            flush(1)

    import adapters
    rate = getattr(mod, "INTERFERENCE_RATE", 0.03) * (3 if (ctx.thorough or ctx.escalate) else 1)
    for c in mod.cases(ctx):
        batch.append(c)
        real = c["real"]
        if (rate and real[0].startswith("pyModeS.") and len(real) == 2 and len(real[1]) >= 1 and isinstance(real[1][0], str)
                and len(real[1][0]) in (14, 28) and (c.get("expect") is not None or c.get("pred") is not None or c.get("op"))
                and ctx.rng.random() < rate):
            # interference: the same decoder call after two unrelated library calls on this frame or a one-digit neighbour
            c2 = dict(c)
            c2["real"] = ("h:adapters.after", [adapters.make_prelude(ctx.rng, real[1][0]), real[0], list(real[1])])
            c2["tag"] = "interference:" + c.get("tag", "")
            c2["stateful"] = True
            batch.append(c2)
        if len(batch) >= 20000:
            flush()
    flush()
    # ---- purity replay: the same call, made again later in a different order, must give the same outcome
    # (every property pins the value as a function of the input alone: caches keyed too coarsely, tables filled
    # lazily in call order, results aliased with internal state all show up here)
    n = min(len(hist), 3000 if ctx.thorough or ctx.escalate else 600)
    if n and not getattr(mod, "NO_PURITY_REPLAY", False):
        sample = ctx.rng.sample(hist, n)
        for i, (real, first, tag) in enumerate(sample):
            r = eval_real(real)
            st["purity_replays"] += 1
            if not EQ(r, first) and not outputs_equal(r, first):
                st["specfails"].append(dict(
                    kind="spec", op=None, real=real, got=r, model=None, expected=first, spec_ok=False,
                    tag="purity-replay:" + tag, expect=first,
                    info="history-dependent: this very call returned %r earlier in this run and %r when repeated later; "
                         "re-run `./check %s --tier %s` with VERIF_SEED=%d to reproduce; calls just before: %s" % (
                             first, r, ctx.prop, ctx.tier, ctx.seed,
                             json.dumps([x[0] for x in sample[max(0, i - 5):i]], default=str)[:1500])))
    gen.finish(st)
    return st


def float_boundary(real, m, EQ):
    """is the model's answer what the real call returns when its float arguments are moved by a relative 1e-12?"""
    args = list(real[1])
    idx = [i for i, a in enumerate(args) if isinstance(a, float)]
    if not idx or len(idx) > 3:
        return False
    import itertools
    for signs in itertools.product((0, -1, 1), repeat=len(idx)):
        if not any(signs):
            continue
        a2 = list(args)
        for i, sg in zip(idx, signs):
            a2[i] = args[i] + sg * max(abs(args[i]), 1.0) * 1e-12
        r2 = eval_real((real[0], a2))
        if EQ(r2, m) or outputs_equal(r2, m):
            return True
    return False


def main():
    ap = argparse.ArgumentParser()
    ap.add_argument("prop", nargs="?")
    ap.add_argument("--tier", default=os.environ.get("VERIF_TIER", "quick"))
    ap.add_argument("--replay")
    ap.add_argument("--no-build", action="store_true")
    a = ap.parse_args()
    if a.replay:
        return replay(a.replay)
    prop = a.prop
    tier = a.tier if a.tier in ("quick", "thorough") else "quick"
    seed = int(os.environ.get("VERIF_SEED", "0") or 0)
    t0 = time.time()
    try:
        return check(prop, tier, seed, t0, a.no_build)
    except Exception:
        traceback.print_exc()
        print("TOOL-FAILURE property=%s" % prop)
        return 2


def check(prop, tier, seed, t0, no_build=False):
    mod = importlib.import_module("props." + prop)
    ctx = Ctx(prop, tier, seed)
    broken = []  # broken proof obligations / translator steps (strings)
    modules = list(mod.OBLIGATION_MODULES)
    driver_ok = True
    nthm = nok = 0
    names = []
    with core.Lock():
        ok_tab, msg, fallbacks = core.regenerate_tables()
        if not ok_tab:
            broken.append("translator: " + msg)
        if fallbacks:
            # not a broken obligation: the model keeps the pinned literal and the (escalated) correspondence is the tie
            ctx.escalate = True
            ctx.notes.append("literal tables no longer extractable, pinned values used, generators escalated: " + "; ".join(fallbacks))
        if not no_build:
            ok_drv, out = core.lake_build(["driver"])
            if not ok_drv:
                driver_ok = False
                broken.append("model/driver build failed: " + tail(out))
            ok_thm, out = core.lake_build(modules)
            if not ok_thm:
                broken.append("theorem modules failed to build: " + tail(out))
        else:
            ok_thm = True
        # ---- source-generated model: regenerate from the working tree, rebuild its driver and the tie theorems
        tie_modules = list(getattr(mod, "TIE_MODULES", []))
        tie = dict(regenerated=False, driver=False, modules=tie_modules, theorems=[], checked=0, broken=[])
        if not no_build:
            ok_gen, gmsg, gstatus = gentie.regenerate()
            tie["regenerated"] = ok_gen
            tie["translator"] = gmsg
            if ok_gen:
                tie["functions_translated"] = len(gstatus.get("translated", []))
                tie["functions_skipped"] = gstatus.get("skipped", {})
                ok_gd, out = core.lake_build(["gendriver"])
                tie["driver"] = ok_gd
                if not ok_gd:
                    tie["broken"].append("generated model does not compile: " + tail(out, 300))
                if tie_modules:
                    ok_tie, out = core.lake_build(tie_modules)
                    if ok_tie:
                        hits_t = core.grep_forbidden(tie_modules)
                        n_t, ok_t, problems_t, names_t = core.audit_axioms(tie_modules, suffix="_tie")
                        tie["theorems"], tie["checked"] = names_t, ok_t
                        tie["broken"] += problems_t + (["forbidden construct: " + "; ".join(hits_t[:3])] if hits_t else [])
                    else:
                        failed = sorted(set(re.findall(r"^- (PyModeS\.Tie\.\w+)", out, flags=re.M))) or tie_modules
                        tie["failed_modules"] = failed
                        tie["broken"].append("tie theorems (generated definition = hand model) no longer check in %s: %s" % (
                            ", ".join(failed), tail(out, 300)))
                        # the theorems of the modules that still build keep their standing
                        good = [m for m in tie_modules if m not in failed and not any(
                            f.split(".")[-1] in open(os.path.join(core.LEAN, m.replace(".", "/") + ".lean")).read() for f in failed)]
                        if good:
                            ok_g, _o = core.lake_build(good)
                            if ok_g:
                                n_t, ok_t, problems_t, names_t = core.audit_axioms(good, suffix="_tie")
                                tie["theorems"], tie["checked"] = names_t, ok_t
            else:
                tie["broken"].append("translator failed: " + gmsg)
        else:
            tie["driver"] = os.path.exists(gentie.GENDRIVER)
            tie["regenerated"] = True
        ctx.gen_ok = tie["driver"] and tie["regenerated"]
        ctx.tie = tie
        # python modules whose tie is open: calls into them are amplified (neighbouring frames, model vs code)
        NS = {"Common": ["py_common"], "Basic": ["py_common"], "Surv": ["surv", "allcall"], "Bds05b": ["bds05", "bds06"],
              "Callsign": ["bds08"], "Cpr": ["bds05", "bds06"], "Adsb": ["adsb", "uncertainty"], "Uplink": ["uplink"],
              "Crc": ["py_common"], "Is60": ["bds60"], "Infer": ["bds"], "Source": ["source"], "RawReader": ["tcpclient"],
              "C11Gen": [], "C12Gen": []}
        ctx.amplify_ns = set()
        for fm in tie.get("failed_modules", []):
            short = fm.split(".")[-1]
            ctx.amplify_ns |= set(NS.get(short, [short.lower()]))
        if tie["broken"]:
            # not a broken obligation of the property: the hand-written model stays tied by the correspondence check,
            # which is escalated; the evidence says which generated-model obligations are open
            ctx.soft = True
            ctx.notes.append("generated-model tie degraded (generator budgets tripled): " + " | ".join(tie["broken"])[:600])
        hits = core.grep_forbidden(modules)
        if hits:
            broken.append("forbidden construct: " + "; ".join(hits[:5]))
        if ok_thm:
            nthm, nok, problems, names = core.audit_axioms(modules)
            broken += problems
            if tier == "thorough" and not no_build:
                rc, out = core.sh(["lake", "env", "leanchecker"] + modules, cwd=core.LEAN, timeout=3000)
                if rc != 0:
                    broken.append("leanchecker: " + tail(out))
                else:
                    ctx.notes.append("leanchecker re-checked " + " ".join(modules))
                tmods = [m for m in tie.get("modules", []) if m not in tie.get("failed_modules", [])]
                if tmods and not tie["broken"]:
                    rc, out = core.sh(["lake", "env", "leanchecker"] + tmods, cwd=core.LEAN, timeout=3000)
                    if rc != 0:
                        tie["broken"].append("leanchecker (tie modules): " + tail(out, 300))
                    else:
                        ctx.notes.append("leanchecker re-checked " + " ".join(tmods))
        else:
            names = sum((core.theorem_names(m) for m in modules), [])
            nthm = len(names)
    pre = getattr(mod, "PRECHECK", None)
    if pre is not None:
        broken += list(pre(ctx) or [])
    if broken:
        ctx.escalate = True

    cov = start_coverage(tier)
    core.import_real()
    st = run_cases(mod, ctx, driver_ok)
    code_cov = stop_coverage(cov, prop)

    # ---- classification
    known = [k for k in core.load_known() if k["property"] == prop and k.get("status") == "open"]
    matchers = getattr(mod, "KNOWN", {})
    known_hits = {}
    violations = []
    for rec in st["specfails"]:
        for k in known:
            f = matchers.get(k["matcher"])
            # matchers read rec["info"] as a dict; history-dependent failures carry a text there and are never "known"
            if f is not None and isinstance(rec.get("info") or {}, dict) and f(rec):
                known_hits.setdefault(k["id"], (k, rec))
                break
        else:
            violations.append(rec)
    # correspondence disagreements that are not explained by a spec failure at the same input
    spec_ops = set(json.dumps(r["real"], default=str) for r in violations)
    corr_only = [r for r in st["mismatches"] if json.dumps(r["real"], default=str) not in spec_ops]
    # a disagreement at an input where a *known* finding applies is still a disagreement of the tie,
    # unless the property module says the model is not expected to mirror the code there
    wall = time.time() - t0
    exit_code = 0
    lines = []
    for kid, (k, rec) in sorted(known_hits.items()):
        lines.append("KNOWN-FINDING: property=%s %s %s" % (prop, kid, k["what"]))
    replay_path = None
    if violations:
        v = violations[0]
        v = shrink(mod, v)
        replay_path = write_replay(prop, seed, dict(v, property=prop, theorem=getattr(mod, "MAIN_THEOREM", None),
                                                    broken_obligations=broken, n_failing=len(violations)))
        lines.append("VIOLATION property=%s replay=%s" % (prop, replay_path))
        exit_code = 1
    elif broken or corr_only:
        rec = dict(property=prop, kind="obligation", broken_obligations=broken,
                   correspondence_disagreements=corr_only[:20], n_disagreements=len(corr_only),
                   theorem=getattr(mod, "MAIN_THEOREM", None),
                   note="no input was found on which the real code violates the property; the named theorem / "
                        "correspondence no longer checks")
        replay_path = write_replay(prop, seed, rec)
        lines.append("VIOLATION property=%s replay=%s no-failing-input-found" % (prop, replay_path))
        exit_code = 1

    n_tie = len(ctx.tie.get("theorems", []))
    obligations = nthm + n_tie + len(getattr(mod, "EXTRA_OBLIGATIONS", []))
    discharged = (nok if not broken else min(nok, max(0, nthm - 1))) + int(ctx.tie.get("checked", 0))
    if st.get("gen_mismatch_count"):
        ctx.notes.append("generated model and Python disagree on %d calls (translator / primitive semantics, see "
                         "generated_model.disagreement_samples)" % st["gen_mismatch_count"])
    ev = dict(
        property_id=prop, tier=tier, seed=seed, level="proof",
        coverage=dict(
            obligations=max(obligations, 1), discharged=discharged,
            checker_cmd="cd lean && lake build %s && lake env lean <#print axioms for every theorem>%s" % (
                " ".join(modules), " && lake env leanchecker " + " ".join(modules) if tier == "thorough" else ""),
            trusted_base=core.TRUSTED_BASE + list(getattr(mod, "TRUSTED_EXTRA", [])),
            theorems=names + ["tie: " + t for t in ctx.tie.get("theorems", [])],
            evaluations=st["evaluations"], distinct_nontrivial=len(st["distinct"]),
            model_lines_compared=st["model_lines"],
            rule=getattr(mod, "RULE", "cases generated by props/%s.py; non-trivial = not marked trivial (reject branch); distinct by (op, real call)" % prop),
            samples=st["samples"][:6], distribution=dict(sorted(st["tags"].items())),
            exhaustive=bool(getattr(mod, "EXHAUSTIVE", False)),
            correspondence_disagreements=len(st["mismatches"]), spec_failures=len(st["specfails"]),
            known_findings_seen=sorted(known_hits.keys()), broken_obligations=broken, escalated=ctx.escalate,
            purity_replays=st["purity_replays"],
            amplified_cases_on_float_rounding_boundary=st.get("amplified_float_boundary", 0),
            amplified_neighbour_cases=st.get("amplified", 0),
            generated_model=dict(
                translator="harness/py2lean.py (regenerated from the working tree on this run: %s)" % ctx.tie.get("regenerated"),
                translator_summary=ctx.tie.get("translator"),
                tie_modules=ctx.tie.get("modules"), tie_theorems=ctx.tie.get("theorems"),
                tie_theorems_checked=ctx.tie.get("checked"), tie_open=ctx.tie.get("broken"),
                functions_compared=st["gen_functions"], lines_compared=st["gen_lines"],
                disagreements=st.get("gen_mismatch_count", 0), disagreement_samples=st["gen_mismatches"][:5],
                float_rounding_differences=st.get("gen_float_differences", 0)),
            notes=ctx.notes,
            **({"anchor_code_coverage": code_cov} if code_cov else {}),
        ),
        assumptions=list(getattr(mod, "ASSUMPTIONS", [])),
        wall_s=round(wall, 2), violations=len(violations) + (1 if (exit_code == 1 and not violations) else 0),
    )
    core.write_json(os.path.join(VERIF, "evidence", prop + ".json"), ev)
    for ln in lines:
        print(ln)
    print("%s %s tier=%s seed=%d theorems=%d/%d cases=%d distinct=%d mismatches=%d specfails=%d known=%d wall=%.1fs" % (
        "OK" if exit_code == 0 else "FAIL", prop, tier, seed, discharged, obligations, st["evaluations"],
        len(st["distinct"]), len(st["mismatches"]), len(st["specfails"]), len(known_hits), wall))
    return exit_code


def start_coverage(tier):
    """line / branch coverage of /repo's code by the real side of the correspondence (thorough tier, or VERIF_COVERAGE=1):
    reported in the evidence so that a reader can see which parts of the anchored files the generators reach"""
    want = os.environ.get("VERIF_COVERAGE")
    if want == "0" or (want is None and tier != "thorough"):
        return None
    try:
        import coverage
        cov = coverage.Coverage(branch=True, data_file=None, include=[os.path.join(core.REPO, "src", "pyModeS", "*")])
        cov.start()
        return cov
    except Exception:
        return None


def stop_coverage(cov, prop):
    if cov is None:
        return None
    try:
        cov.stop()
        files = []
        for line in open(os.path.join(VERIF, "properties.jsonl")):
            p = json.loads(line)
            if p["id"] == prop:
                files = [f for f in p["anchors"]["files"] if f.endswith(".py")]
        out = {}
        for f in files:
            path = os.path.join(core.REPO, f)
            if not os.path.exists(path):
                continue
            try:
                an = cov._analyze(path)
                nums = an.numbers
                out[f] = dict(statements=nums.n_statements, executed=nums.n_executed, branches=nums.n_branches,
                              executed_branches=nums.n_executed_branches, missing_lines=sorted(an.missing)[:400])
            except Exception as e:  # file never imported
                out[f] = dict(error=str(e)[:100])
        return out
    except Exception:
        return None


def tail(s, n=600):
    s = s.strip()
    return s[-n:]


def shrink(mod, rec):
    f = getattr(mod, "shrink", None)
    if f is None:
        return rec
    try:
        return f(rec) or rec
    except Exception:
        return rec


def write_replay(prop, seed, rec):
    d = os.path.join(VERIF, "replays")
    os.makedirs(d, exist_ok=True)
    i = 0
    while True:
        p = os.path.join(d, "%s-%d-%d.json" % (prop, seed, i))
        if not os.path.exists(p):
            break
        i += 1
    core.write_json(p, rec)
    return os.path.relpath(p, VERIF)


def replay(path):
    rec = json.load(open(path if os.path.isabs(path) else os.path.join(VERIF, path)))
    prop = rec["property"]
    mod = importlib.import_module("props." + prop)
    core.import_real()
    if rec.get("kind") == "obligation":
        print("replay: broken obligations (no failing input):")
        for b in rec.get("broken_obligations", []):
            print("  -", b)
        for r in rec.get("correspondence_disagreements", [])[:5]:
            got = eval_real(r["real"])
            print("  disagreement: %s real=%s model(then)=%s" % (r["real"], got, r["model"]))
        return 1
    got = eval_real(rec["real"])
    c = dict(expect=rec.get("expect"), pred=rec.get("pred"))
    ok, exp = check_spec(mod, c, got)
    print("replay %s: real=%s expected=%s -> %s" % (rec["real"], got, exp, "holds" if ok else "FAILS"))
    if not ok:
        print("VIOLATION property=%s replay=%s" % (prop, path))
        return 1
    return 0


if __name__ == "__main__":
    sys.exit(main())
