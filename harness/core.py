"""Harness core: build, audit, driver I/O, comparison, verdict, evidence.

One property = one module `props/Cxx.py` exposing

    OBLIGATION_MODULES : list[str]     lean modules holding this property's theorems
    def cases(ctx) -> iterable[Case]   the correspondence / spec stream
    KNOWN : dict[str, callable]        matcher name -> predicate(case_record) (optional)

A Case carries
    op      : the protocol line sent to the Lean driver (model side), or None
    real    : zero-arg callable evaluating the real pyModeS code -> canonical string
    spec    : None or callable(real_out:str) -> (ok:bool, expected:str)   (property predicate
              through the spec path, independent of the model)
    tag     : short string naming the generator / branch (for the distribution)
    trivial : bool, counted out of distinct_nontrivial
"""
from __future__ import annotations

import fcntl
import hashlib
import json
import os
import random
import re
import subprocess
import sys
import time
from fractions import Fraction

VERIF = os.path.normpath(os.path.join(os.path.dirname(os.path.abspath(__file__)), ".."))
LEAN = os.environ.get("VERIF_LEAN_DIR") or os.path.join(VERIF, "lean")
REPO = os.environ.get("PYMODES_REPO", "/repo")
DRIVER = os.path.join(LEAN, ".lake", "build", "bin", "driver")
ALLOWED_AXIOMS = {"propext", "Classical.choice", "Quot.sound"}
FORBIDDEN = re.compile(r"\b(sorry|admit|native_decide|bv_decide|implemented_by|unsafe)\b|^axiom |maxHeartbeats 0")

TRUSTED_BASE = [
    "Lean 4.33 kernel; axioms allowed: propext, Classical.choice, Quot.sound (audited by #print axioms on every run)",
    "Mathlib v4.33 modules imported by Proofs/ files only",
    "Spec transcriptions of Annex 10 / DO-260B / Doc 9871 in lean/PyModeS/Spec and harness/spec.py, and the reading of the property statement",
    "the tie: harness/gen_tables.py (literal tables), the correspondence harness and canonicaliser, the compiled driver (Lean compiler + leanc)",
    "second tie (where tie_modules are listed): harness/py2lean.py (Python AST -> Lean `do` notation over lean/PyModeS/Py/Val.lean: one numeric "
    "type for int and float with exact rationals, lists/tuples/arrays as one sequence type, objects as attribute dictionaries threaded "
    "through methods, values without identity), the externals of Py/Ext.lean (cprNL, floor bound to the hand model; libm calls in double "
    "precision); validated on every run by executing the generated definitions against the real code (gendriver, harness/gentie.py)",
    "modelled, not verified: CPython/numpy primitive semantics (int(), slicing, %, np.floor, textwrap.wrap), IEEE double rounding and libm, time.time(), ZeroMQ / rtl-sdr I/O",
]


class Case:
    __slots__ = ("op", "real", "spec", "tag", "trivial", "info")

    def __init__(self, op, real, spec=None, tag="", trivial=False, info=None):
        self.op, self.real, self.spec, self.tag, self.trivial, self.info = op, real, spec, tag, trivial, info


# ----------------------------------------------------------------- canonicalisation

def canon(v) -> str:
    """canonical token(s) for a Python value"""
    import numpy as np
    if v is None:
        return "None"
    if isinstance(v, (bool, np.bool_)):
        return "True" if v else "False"
    if isinstance(v, (int, np.integer)):
        return str(int(v))
    if isinstance(v, (float, np.floating)):
        f = float(v)
        if f != f:
            return "nan"
        if f in (float("inf"), float("-inf")):
            return "inf" if f > 0 else "-inf"
        return repr(f)
    if isinstance(v, str):
        return v if v != "" else "''"
    if isinstance(v, (tuple, list)):
        return "|".join(canon(x) for x in v)
    return "<%s>" % type(v).__name__


def call(fn, *a, **k) -> str:
    """canonical outcome of calling real code: value / RE / EXC"""
    try:
        r = fn(*a, **k)
        out = canon(r)
        if isinstance(r, (list, dict, set, tuple)):
            import adapters
            adapters.poison(r)
        return out
    except RuntimeError:
        return "RE"
    except Exception:  # noqa
        return "EXC"


_num = re.compile(r"^-?(\d+)(/\d+)?$|^-?\d+\.\d*(e[-+]?\d+)?$|^-?\d+e[-+]?\d+$")


def _tofrac(tok):
    if not _num.match(tok):
        return None
    try:
        if "/" in tok:
            return Fraction(tok)
        if "." in tok or "e" in tok:
            return Fraction(float(tok))
        return Fraction(int(tok))
    except Exception:
        return None


def tokens_equal(a: str, b: str, rel=1e-9) -> bool:
    if a == b:
        return True
    fa, fb = _tofrac(a), _tofrac(b)
    if fa is None or fb is None:
        return False
    exact_a = not ("." in a or "e" in a)
    exact_b = not ("." in b or "e" in b)
    if exact_a and exact_b:
        return fa == fb
    return abs(fa - fb) <= Fraction(rel) * max(1, abs(fa), abs(fb))


def outputs_equal(a: str, b: str) -> bool:
    if a == b:
        return True
    ta, tb = a.split("|"), b.split("|")
    return len(ta) == len(tb) and all(tokens_equal(x, y) for x, y in zip(ta, tb))


# ----------------------------------------------------------------- build / audit

def sh(cmd, cwd=None, timeout=3600):
    p = subprocess.run(cmd, cwd=cwd, stdout=subprocess.PIPE, stderr=subprocess.STDOUT, text=True, timeout=timeout)
    return p.returncode, p.stdout


class Lock:
    def __enter__(self):
        self.f = open(os.path.join(LEAN, ".verif.lock"), "w")
        fcntl.flock(self.f, fcntl.LOCK_EX)
        return self

    def __exit__(self, *a):
        fcntl.flock(self.f, fcntl.LOCK_UN)
        self.f.close()


def regenerate_tables():
    """-> (ok, message, fallbacks): `fallbacks` lists literal tables that could no longer be extracted from the
    source (renamed / computed): the pinned literal is used for them and the tie is the correspondence alone"""
    rc, out = sh([sys.executable, os.path.join(VERIF, "harness", "gen_tables.py")])
    fb = [l[len("FALLBACK "):] for l in out.split("\n") if l.startswith("FALLBACK ")]
    return rc == 0, out.strip(), fb


def lake_build(targets):
    rc, out = sh(["lake", "build"] + targets, cwd=LEAN)
    return rc == 0, out


def import_closure(modules):
    """Lean files of this project reachable from the given modules through `import PyModeS…` / `import Driver…`"""
    seen, todo = set(), list(modules)
    while todo:
        m = todo.pop()
        if m in seen:
            continue
        p = os.path.join(LEAN, m.replace(".", "/") + ".lean")
        if not os.path.exists(p):
            continue
        seen.add(m)
        for line in open(p):
            mo = re.match(r"^\s*import\s+((?:PyModeS|Driver)[\w.]*)", line)
            if mo:
                todo.append(mo.group(1))
    return sorted(seen)


def grep_forbidden(modules):
    """source-level audit of every project file the property modules (and the driver) depend on"""
    hits = []
    for m in import_closure(list(modules) + ["Driver.Main"]):
        p = os.path.join(LEAN, m.replace(".", "/") + ".lean")
        if True:
            incomment = 0
            for ln, line in enumerate(open(p), 1):
                s = line
                # strip block comments (nesting-aware, line-granular) and line comments
                txt = ""
                i = 0
                while i < len(s):
                    if s.startswith("/-", i):
                        incomment += 1
                        i += 2
                    elif s.startswith("-/", i) and incomment:
                        incomment -= 1
                        i += 2
                    elif incomment:
                        i += 1
                    elif s.startswith("--", i):
                        break
                    else:
                        txt += s[i]
                        i += 1
                if FORBIDDEN.search(txt):
                    hits.append("%s:%d: %s" % (os.path.relpath(p, LEAN), ln, line.strip()))
    return hits


def theorem_names(module):
    path = os.path.join(LEAN, module.replace(".", "/") + ".lean")
    names = []
    ns = []
    for line in open(path):
        m = re.match(r"^namespace\s+(\S+)", line)
        if m:
            ns.append(m.group(1))
        m = re.match(r"^end\s+(\S+)", line)
        if m and ns and ns[-1] == m.group(1):
            ns.pop()
        m = re.match(r"^(?:@\[[^\]]*\]\s*)?theorem\s+(\S+)", line)
        if m:
            n = m.group(1)
            names.append(n[len("_root_."):] if n.startswith("_root_.") else ".".join(ns + [n]))
    return names


def audit_axioms(modules, suffix=None):
    """#print axioms on every theorem of the property modules (only those whose name ends in `suffix`, if given).
    -> (n_theorems, n_ok, problems:list[str], names)"""
    names = []
    for m in modules:
        names += [n for n in theorem_names(m) if suffix is None or n.endswith(suffix)]
    if not names:
        return 0, 0, ["no theorems found in %s" % modules], []
    src = "".join("import %s\n" % m for m in modules) + "".join("#print axioms %s\n" % n for n in names)
    tmp = os.path.join(LEAN, ".audit_%d.lean" % os.getpid())
    with open(tmp, "w") as f:
        f.write(src)
    try:
        rc, out = sh(["lake", "env", "lean", tmp], cwd=LEAN)
    finally:
        os.unlink(tmp)
    ok = 0
    problems = []
    # outputs: "'X' depends on axioms: [a, b]" or "'X' does not depend on any axioms"
    flat = re.sub(r"\s+", " ", out)
    for n in names:
        m = re.search(r"'%s' (does not depend on any axioms|depends on axioms: \[([^\]]*)\])" % re.escape(n), flat)
        if not m:
            problems.append("no axiom report for %s" % n)
            continue
        axs = set(a.strip() for a in (m.group(2) or "").split(",") if a.strip())
        bad = axs - ALLOWED_AXIOMS
        if bad:
            problems.append("%s depends on %s" % (n, sorted(bad)))
        else:
            ok += 1
    if rc != 0 and not problems:
        problems.append("audit file failed: " + out[-400:])
    return len(names), ok, problems, names


# ----------------------------------------------------------------- driver

def run_driver(lines):
    if not lines:
        return []
    data = "\n".join(lines) + "\n"
    p = subprocess.run([DRIVER], input=data, stdout=subprocess.PIPE, stderr=subprocess.PIPE, text=True)
    if p.returncode != 0:
        raise RuntimeError("driver failed: " + p.stderr[-400:])
    out = p.stdout.split("\n")
    if out and out[-1] == "":
        out.pop()
    if len(out) != len(lines):
        raise RuntimeError("driver returned %d lines for %d ops" % (len(out), len(lines)))
    return out


# ----------------------------------------------------------------- real code import

def import_real():
    src = os.path.join(REPO, "src")
    if src not in sys.path:
        sys.path.insert(0, src)
    os.environ.setdefault("PYMODES_VERIF", "1")
    import io
    import contextlib
    import warnings
    warnings.simplefilter("ignore")
    with contextlib.redirect_stdout(io.StringIO()):
        import pyModeS  # noqa
    assert os.path.realpath(pyModeS.__file__).startswith(os.path.realpath(src)), pyModeS.__file__
    return pyModeS


# ----------------------------------------------------------------- context / main loop

class Ctx:
    def __init__(self, prop, tier, seed):
        self.prop, self.tier, self.seed = prop, tier, seed
        self.rng = random.Random((hash_str(prop) << 32) ^ seed)
        self.thorough = tier == "thorough"
        self.escalate = False   # a proof obligation of the property is broken: thorough budgets
        self.soft = False       # only the generated-model tie is open: three times the quick budgets
        self.notes = []

    def n(self, quick, thorough):
        if self.thorough or self.escalate:
            return thorough
        if self.soft:
            return max(quick, min(thorough, 3 * quick))
        return quick


def hash_str(s):
    return int(hashlib.sha256(s.encode()).hexdigest()[:8], 16)


def load_known():
    p = os.path.join(VERIF, "known_findings.json")
    if not os.path.exists(p):
        return []
    return json.load(open(p)).get("findings", [])


def write_json(path, obj):
    os.makedirs(os.path.dirname(path), exist_ok=True)
    with open(path + ".tmp", "w") as f:
        json.dump(obj, f, indent=1, sort_keys=True)
        f.write("\n")
    os.replace(path + ".tmp", path)
