"""DO-260B A.1.7 CPR encoder over exact rationals (spec side; independent of the decoders)."""
from fractions import Fraction as F
import math

from nl_table import NL_TABLE

E12 = 10 ** 12
TWO17 = 1 << 17


def nl(x):
    """NL(lat) for an exact rational latitude; raises if lat is inside a transition enclosure"""
    a = abs(x)
    s = a * E12
    for n, lo, hi in NL_TABLE:
        if n == 2:
            break
        if s < lo:
            return n
        if s <= hi:
            raise ValueError("latitude inside NL enclosure")
    return 2 if a <= 87 else 1


def floor(x):
    return x.numerator // x.denominator


def encode(lat, lon, i, base=360):
    """-> dict(yz, xz, rlat, rlon, dlat, dlon): transmitted 17-bit fields and the carried position.
    base = 360 airborne, 90 surface (19-bit encoding reduced to 17 bits == quarter-size zones)."""
    lat, lon = F(lat), F(lon)
    dlat = F(base, 60 - i)
    k = floor(lat / dlat)
    frac = lat / dlat - k
    yz_full = floor(TWO17 * frac + F(1, 2))
    rlat = dlat * (k + F(yz_full, TWO17))
    n = nl(rlat)
    dlon = F(base, max(n - i, 1))
    m = floor(lon / dlon)
    fr = lon / dlon - m
    xz_full = floor(TWO17 * fr + F(1, 2))
    rlon = dlon * (m + F(xz_full, TWO17))
    return dict(yz=yz_full % TWO17, xz=xz_full % TWO17, rlat=rlat, rlon=rlon, dlat=dlat, dlon=dlon, nl=n, i=i)


def haversine_nm(lat1, lon1, lat2, lon2):
    p1, p2 = math.radians(lat1), math.radians(lat2)
    dphi = p2 - p1
    dl = math.radians(lon2 - lon1)
    a = math.sin(dphi / 2) ** 2 + math.cos(p1) * math.cos(p2) * math.sin(dl / 2) ** 2
    return 2 * 3440.065 * math.asin(min(1.0, math.sqrt(a)))


def displace(lat, lon, brg_deg, dist_nm):
    """destination point (floats) on the sphere"""
    d = dist_nm / 3440.065
    b = math.radians(brg_deg)
    p1 = math.radians(lat)
    l1 = math.radians(lon)
    p2 = math.asin(max(-1.0, min(1.0, math.sin(p1) * math.cos(d) + math.cos(p1) * math.sin(d) * math.cos(b))))
    l2 = l1 + math.atan2(math.sin(b) * math.sin(d) * math.cos(p1), math.cos(d) - math.sin(p1) * math.sin(p2))
    lat2, lon2 = math.degrees(p2), math.degrees(l2)
    lon2 = (lon2 + 180.0) % 360.0 - 180.0
    return max(-90.0, min(90.0, lat2)), lon2


def transition_lats():
    return [F(lo, E12) for n, lo, hi in NL_TABLE]


def angdiff(a, b):
    """signed circular difference a-b in (-180, 180]"""
    d = (F(a) - F(b)) % 360
    if d > 180:
        d -= 360
    return d


def fr(x):
    x = F(x)
    return "%d/%d" % (x.numerator, x.denominator)


def encode_str(base, i, lat_s, lon_s):
    """Python spec encoder in the driver's output format (ties Spec/CPR.lean to this file)"""
    e = encode(F(lat_s), F(lon_s), i, base)
    return "%d|%d|%s|%s" % (e["yz"], e["xz"], fr(e["rlat"]), fr(e["rlon"]))
