#!/usr/bin/env python3
"""Re-run the property checks against the kept seeded changes (seeded/<id>/patch.diff).

usage: regress_seeded.py [--harmless | --breaking | --ids C01-m1,C02-r5m1,...] [--tier quick] [--out file.json]
Each patch is applied to /repo (which must be clean), the property's check is run, and the patch is undone straight
afterwards.  Harmless refactorings (ids containing -hm / -h4m) must pass with exit 0 and no VIOLATION line; every other
kept change must be reported (exit 1 with a VIOLATION line).  Prints one line per change and a summary; exit 1 if any
expectation is not met."""
import json
import os
import re
import subprocess
import sys

VERIF = os.path.normpath(os.path.join(os.path.dirname(os.path.abspath(__file__)), ".."))


def sh(cmd, cwd=None, timeout=3600):
    p = subprocess.run(cmd, cwd=cwd, stdout=subprocess.PIPE, stderr=subprocess.STDOUT, text=True, timeout=timeout)
    return p.returncode, p.stdout


ROOT = "/tmp/reg"


def run_one(args):
    """worker: private worktree of /repo and private copy of /verif (so that /repo itself is never touched and several
    changes are evaluated at once)"""
    k, ids, tier = args
    import re as _re
    w = os.path.join(ROOT, "w%d" % k)
    repo, verif = os.path.join(w, "repo"), os.path.join(w, "verif")
    env = dict(os.environ, PYMODES_REPO=repo, PYTHONPATH=os.path.join(repo, "src"))
    out = []
    for i in ids:
        prop = i.split("-")[0]
        harmless = _re.search(r"-h\d?m\d", i) is not None
        subprocess.run(["git", "-C", repo, "checkout", "--", "."])
        subprocess.run(["git", "-C", repo, "clean", "-fdq", "src", "tests"])
        p = subprocess.run(["git", "-C", repo, "apply", os.path.join(VERIF, "seeded", i, "patch.diff")], stdout=subprocess.PIPE, stderr=subprocess.STDOUT, text=True)
        if p.returncode != 0:
            out.append(dict(id=i, applies=False, as_expected=False, lines=[p.stdout[-200:]]))
            continue
        q = subprocess.run([os.path.join(verif, "check"), prop, "--tier", tier], cwd=verif, env=env, stdout=subprocess.PIPE, stderr=subprocess.STDOUT, text=True)
        lines = [l for l in q.stdout.split("\n") if l.startswith(("VIOLATION", "OK ", "FAIL ", "TOOL"))]
        viol = any(l.startswith("VIOLATION") for l in lines)
        ok = (q.returncode == 0 and not viol) if harmless else (q.returncode == 1 and viol)
        concrete = viol and not any("no-failing-input-found" in l for l in lines)
        out.append(dict(id=i, harmless=harmless, exit=q.returncode, violation=viol, concrete=concrete, as_expected=ok, lines=lines))
        print("%s %s exit=%d %s" % ("ok  " if ok else "BAD ", i, q.returncode, "; ".join(lines)[:200]))
        sys.stdout.flush()
    subprocess.run(["git", "-C", repo, "checkout", "--", "."])
    return out


def main_parallel(ids, tier, workers, outpath):
    import shutil
    from concurrent.futures import ProcessPoolExecutor
    shutil.rmtree(ROOT, ignore_errors=True)
    os.makedirs(ROOT)
    sh(["git", "-C", "/repo", "worktree", "prune"])     # registrations left behind by an interrupted run
    for k in range(workers):
        w = os.path.join(ROOT, "w%d" % k)
        os.makedirs(w)
        sh(["git", "-C", "/repo", "worktree", "add", "--detach", os.path.join(w, "repo"), "HEAD"])
        sh(["rsync", "-a", "--exclude", ".git", "--exclude", "replays", "--exclude", "seeded", VERIF + "/", os.path.join(w, "verif") + "/"])
    res = []
    try:
        with ProcessPoolExecutor(workers) as ex:
            for r in ex.map(run_one, [(k, ids[k::workers], tier) for k in range(workers)]):
                res += r
    finally:
        for k in range(workers):
            sh(["git", "-C", "/repo", "worktree", "remove", "--force", os.path.join(ROOT, "w%d" % k, "repo")])
        sh(["git", "-C", "/repo", "worktree", "prune"])
        shutil.rmtree(ROOT, ignore_errors=True)
    bad = [r for r in res if not r.get("as_expected")]
    if outpath:
        json.dump(sorted(res, key=lambda r: r["id"]), open(outpath, "w"), indent=1)
    print("summary: %d changes, %d not as expected: %s" % (len(res), len(bad), [r["id"] for r in bad]))
    return 1 if bad else 0


def main():
    a = sys.argv[1:]
    tier = a[a.index("--tier") + 1] if "--tier" in a else "quick"
    ids = sorted(d for d in os.listdir(os.path.join(VERIF, "seeded")) if os.path.isdir(os.path.join(VERIF, "seeded", d)))
    harmless = lambda i: re.search(r"-h\d?m\d", i) is not None  # noqa
    if "--harmless" in a:
        ids = [i for i in ids if harmless(i)]
    elif "--breaking" in a:
        ids = [i for i in ids if not harmless(i)]
    if "--ids" in a:
        want = set(a[a.index("--ids") + 1].split(","))
        ids = [i for i in ids if i in want]
    if "--workers" in a:
        return main_parallel(ids, tier, int(a[a.index("--workers") + 1]), a[a.index("--out") + 1] if "--out" in a else None)
    rc, o = sh(["git", "-C", "/repo", "status", "--short"])
    if o.strip():
        print("refusing: /repo is not clean:\n" + o)
        return 2
    res, bad = [], 0
    for i in ids:
        prop = i.split("-")[0]
        patch = os.path.join(VERIF, "seeded", i, "patch.diff")
        rc, o = sh(["git", "-C", "/repo", "apply", patch])
        if rc != 0:
            print("%s: patch does not apply (%s)" % (i, o.strip()[-100:]))
            res.append(dict(id=i, applies=False))
            continue
        try:
            rc_c, o_c = sh([os.path.join(VERIF, "check"), prop, "--tier", tier], cwd=VERIF)
        finally:
            sh(["git", "-C", "/repo", "checkout", "--", "."])
            sh(["git", "-C", "/repo", "clean", "-fdq", "src", "tests"])
        lines = [l for l in o_c.split("\n") if l.startswith(("VIOLATION", "OK ", "FAIL ", "TOOL"))]
        viol = any(l.startswith("VIOLATION") for l in lines)
        ok = (rc_c == 0 and not viol) if harmless(i) else (rc_c == 1 and viol)
        bad += 0 if ok else 1
        res.append(dict(id=i, harmless=harmless(i), exit=rc_c, violation=viol, as_expected=ok, lines=lines))
        print("%s %s exit=%d %s" % ("ok  " if ok else "BAD ", i, rc_c, "; ".join(lines)[:200]))
        sys.stdout.flush()
    if "--out" in a:
        json.dump(res, open(a[a.index("--out") + 1], "w"), indent=1)
    print("summary: %d changes, %d not as expected" % (len(res), bad))
    return 1 if bad else 0


if __name__ == "__main__":
    sys.exit(main())
