"""Adapters around real pyModeS calls (projection onto what a property pins)."""
import importlib
import math


_C = {}


def _res(path):
    f = _C.get(path)
    if f is None:
        f = _C[path] = _res0(path)
    return f


def _res0(path):
    parts = path.split(".")
    obj = importlib.import_module(parts[0])
    for i, p in enumerate(parts[1:], 1):
        try:
            obj = getattr(obj, p)
        except AttributeError:
            obj = importlib.import_module(".".join(parts[: i + 1]))
    return obj


def poison(x, depth=0):
    """After a result has been read, wreck it in place if it is a mutable container.  A function that hands out
    an object it also keeps (a cached list, a shared table row, a memoised dict) is then wrong on its next call:
    the property pins the value for *every* call, whatever the caller did with an earlier result."""
    if depth > 3:
        return
    try:
        import numpy as np
        if isinstance(x, np.ndarray):
            if x.flags.writeable and x.size and x.dtype.kind in "fiu":
                x[...] = (np.nan if x.dtype.kind == "f" else -12345)
            return
    except Exception:
        pass
    if isinstance(x, list):
        for e in x:
            poison(e, depth + 1)
        del x[:]
    elif isinstance(x, dict):
        for e in list(x.values()):
            poison(e, depth + 1)
        for k in list(x.keys()):
            x[k] = "<poisoned>"
    elif isinstance(x, set):
        x.clear()
    elif isinstance(x, tuple):
        for e in x:
            poison(e, depth + 1)


def after(prelude, path, args):
    """run the prelude calls (results and exceptions ignored), then the real call: the value of a decoder must not
    depend on what was decoded before it (shared caches, memoised helpers, aliased buffers)"""
    for p, a, kw in prelude:
        try:
            r = _res(p)(*a, **kw)
            poison(r)
        except Exception:  # noqa
            pass
    return _res(path)(*args)


PRELUDE_POOL = [
    ("pyModeS.common.crc", {}), ("pyModeS.common.crc", {"encode": True}), ("pyModeS.common.icao", {}),
    ("pyModeS.common.typecode", {}), ("pyModeS.common.df", {}), ("pyModeS.common.altcode", {}),
    ("pyModeS.common.idcode", {}), ("pyModeS.common.allzeros", {}), ("pyModeS.common.hex2bin", {}),
    ("pyModeS.py_common.crc_legacy", {}), ("pyModeS.bds.infer", {}), ("pyModeS.bds.infer", {"mrar": True}),
    ("pyModeS.bds.bds20.is20", {}), ("pyModeS.bds.bds20.cs20", {}), ("pyModeS.bds.bds17.is17", {}),
    ("pyModeS.bds.bds17.cap17", {}), ("pyModeS.bds.bds40.is40", {}), ("pyModeS.bds.bds50.is50", {}),
    ("pyModeS.bds.bds60.is60", {}), ("pyModeS.adsb.icao", {}), ("pyModeS.adsb.callsign", {}),
    ("pyModeS.adsb.altitude", {}), ("pyModeS.adsb.velocity", {}), ("pyModeS.adsb.nuc_p", {}),
    ("pyModeS.adsb.emergency_squawk", {}), ("pyModeS.decoder.uplink.uplink_fields", {}),
    ("pyModeS.decoder.uplink.bds", {}), ("pyModeS.allcall.interrogator", {}), ("pyModeS.surv.identity", {}),
]


def neighbour(rng, m):
    """the same frame with one hex digit changed (never the first two: the format stays the same)"""
    i = rng.randrange(2, len(m))
    c = "0123456789ABCDEF"[rng.randrange(16)]
    if m[i].islower() or (m[i].isdigit() and m.lower() == m and m.upper() != m):
        c = c.lower()
    return m[:i] + c + m[i + 1:]


def make_prelude(rng, m, k=2):
    out = []
    for _ in range(k):
        p, kw = PRELUDE_POOL[rng.randrange(len(PRELUDE_POOL))]
        arg = m if rng.random() < 0.5 else neighbour(rng, m)
        out.append([p, [arg], kw])
    return out


def pick(path, idxs, *args, **kw):
    """call and keep the listed tuple members"""
    r = _res(path)(*args, **kw)
    if r is None:
        return None
    out = tuple(r[i] for i in idxs)
    return out


def dictvals(path, keys, *args):
    r = _res(path)(*args)
    out = tuple(r[k] for k in keys)
    poison(r)
    return out


def isinst(path, *args):
    """class of the outcome only: 'val' (None counts as a value)"""
    _res(path)(*args)
    return "val"


def atan2deg(a, b):
    t = math.degrees(math.atan2(a, b))
    return t if t >= 0 else t + 360
