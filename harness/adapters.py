"""Adapters around real pyModeS calls (projection onto what a property pins)."""
import importlib
import math


_C = {}


def _res(path):
    f = _C.get(path)
    if f is None:
        f = _C[path] = _res0(path)
    return f


def _res0(path):
    parts = path.split(".")
    obj = importlib.import_module(parts[0])
    for i, p in enumerate(parts[1:], 1):
        try:
            obj = getattr(obj, p)
        except AttributeError:
            obj = importlib.import_module(".".join(parts[: i + 1]))
    return obj


def pick(path, idxs, *args, **kw):
    """call and keep the listed tuple members"""
    r = _res(path)(*args, **kw)
    if r is None:
        return None
    return tuple(r[i] for i in idxs)


def dictvals(path, keys, *args):
    r = _res(path)(*args)
    return tuple(r[k] for k in keys)


def isinst(path, *args):
    """class of the outcome only: 'val' (None counts as a value)"""
    _res(path)(*args)
    return "val"


def atan2deg(a, b):
    t = math.degrees(math.atan2(a, b))
    return t if t >= 0 else t + 360
