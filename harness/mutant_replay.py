#!/usr/bin/env python3
"""Development tool: apply first-order mutants recorded by mutation_sweep.py (file:line 'before' -> 'after') to /repo one at
a time, run the named checks, undo.
usage: mutant_replay.py <sweep.json> <file-substring[@line[@text-in-after]]> [props...]   (all matching SURVIVORS are replayed)"""
import json
import os
import subprocess
import sys

VERIF = os.path.normpath(os.path.join(os.path.dirname(os.path.abspath(__file__)), ".."))


def main():
    d = json.load(open(sys.argv[1]))
    parts = sys.argv[2].split("@", 2)
    sel = [x for x in d["survivors"] if parts[0] in x["file"] and (len(parts) < 2 or not parts[1] or x["line"] == int(parts[1]))
           and (len(parts) < 3 or parts[2] in x["after"])]
    nk = 0
    for r in sel:
        props = sys.argv[3:] or sorted(r["verdicts"])
        assert not subprocess.run(["git", "-C", "/repo", "status", "--short"], capture_output=True, text=True).stdout.strip()
        p = os.path.join("/repo", r["file"])
        lines = open(p).read().split("\n")
        assert lines[r["line"] - 1].strip() == r["before"], (lines[r["line"] - 1], r["before"])
        ind = lines[r["line"] - 1][: len(lines[r["line"] - 1]) - len(lines[r["line"] - 1].lstrip())]
        lines[r["line"] - 1] = ind + r["after"]
        open(p, "w").write("\n".join(lines))
        res = []
        try:
            for pr in props:
                o = subprocess.run([os.path.join(VERIF, "check"), pr], cwd=VERIF, capture_output=True, text=True).stdout
                v = [l for l in o.split("\n") if l.startswith("VIOLATION")]
                res.append("%s:%s" % (pr, "KILLED" + ("(no-input)" if v and "no-failing" in v[0] else "") if v else "ok"))
        finally:
            subprocess.run(["git", "-C", "/repo", "checkout", "--", "."])
        k = any("KILLED" in x for x in res)
        nk += k
        print("%s %s:%d  %s  ->  %s   [%s]" % ("KILLED  " if k else "SURVIVED", r["file"].split("/")[-1], r["line"], r["before"][:80], r["after"][:80], " ".join(res)))
    print("%d/%d killed" % (nk, len(sel)))


if __name__ == "__main__":
    main()
