"""c_common.pyx -> executable Python with C integer semantics (Cython cannot be run here).

Handles exactly the constructs that occur in pyModeS/c_common.pyx; anything it does not know
raises `Unknown(line)` — the caller treats that as a broken correspondence, never as a pass.

Semantics reproduced:
  * typed locals (`cdef long x`, `cdef int x`, `cdef unsigned char x`, `cdef char x`, `Py_ssize_t`,
    `double`, `bint`) are re-converted on every assignment (64/32/8-bit wrap-around, ord() for
    a 1-character str assigned to a C char),
  * typed return values of `cpdef`/`cdef` functions are converted likewise (`int` -1 / -999999
    sentinels stay integers, `str` functions may return None, `bint` -> bool),
  * `unsigned char[:]` / `long[:]` memoryviews alias their bytearray / array,
  * libc.math names, `<long>` casts, `PyBytes_GET_SIZE` / `PyByteArray_GET_SIZE`.
"""
from __future__ import annotations

import math
import re


class Unknown(Exception):
    pass


def conv_long(x):
    x = int(x) & 0xFFFFFFFFFFFFFFFF
    return x - (1 << 64) if x >> 63 else x


def cast_long(x):
    """C `(long) double` on x86-64: out-of-range / NaN give LONG_MIN (cvttsd2si)"""
    x = float(x)
    if x != x or x >= 9.223372036854775807e18 or x < -9.223372036854775808e18:
        return -(1 << 63)
    return int(x)


def conv_int(x):
    x = int(x) & 0xFFFFFFFF
    return x - (1 << 32) if x >> 31 else x


def conv_uchar(x):
    if isinstance(x, str):
        if len(x) != 1:
            raise TypeError("only single character unicode strings can be converted to a C char")
        x = ord(x)
    return int(x) & 0xFF


def conv_char(x):
    if isinstance(x, str):
        if len(x) != 1:
            raise TypeError("only single character unicode strings can be converted to a C char")
        x = ord(x)
    x = int(x) & 0xFF
    return x - 256 if x >> 7 else x


def conv_ssize(x):
    return conv_long(x)


def conv_double(x):
    return float(x)


def conv_bint(x):
    return bool(x)


def conv_str(x):
    if x is not None and not isinstance(x, str):
        raise TypeError("Expected str")
    return x


def conv_obj(x):
    return x


CONV = {
    "long": "conv_long", "int": "conv_int", "unsigned char": "conv_uchar", "char": "conv_char", "Py_ssize_t": "conv_ssize",
    "double": "conv_double", "bint": "conv_bint", "str": "conv_str", "bytearray": "conv_obj", "array.array": "conv_obj",
    # Python object types (no C conversion beyond a type test that the module's own values always pass)
    "tuple": "conv_obj", "list": "conv_obj", "dict": "conv_obj", "object": "conv_obj", "bytes": "conv_obj", "frozenset": "conv_obj",
    "": "conv_obj",
}
TYPES = sorted([t for t in CONV if t], key=len, reverse=True)
TYPE_RE = "|".join(re.escape(t) for t in TYPES)

_def = re.compile(r"^(\s*)(cpdef|cdef|def)\s+(?:inline\s+)?(?:(%s)\s+)?(\w+)\((.*)\)\s*(?:noexcept\s*)?:\s*$" % TYPE_RE)
_cdef_var = re.compile(r"^(\s*)cdef\s+(%s)(\[[^\]]*\])?\s+(\w+)(\[\d+\])?\s*(?:=\s*(.*))?$" % TYPE_RE)
_cdef_untyped = re.compile(r"^(\s*)cdef\s+(\w+)\s*=\s*(.*)$")
_assign = re.compile(r"^(\s*)(\w+)\s*(\^=|\+=|-=|\*=|=)\s*(.*)$")
_return = re.compile(r"^(\s*)return\b\s*(.*)$")


def _strip_comment(line):
    q = None
    for k, ch in enumerate(line):
        if q:
            if ch == q:
                q = None
        elif ch in "'\"":
            q = ch
        elif ch == "#":
            return line[:k].rstrip()
    return line


def _expr(e):
    e = re.sub(r"<long>\s*(\w+\([^()]*\))", r"cast_long(\1)", e)      # <long> f(x)
    e = re.sub(r"<long>\s*(\([^()]*\))", r"cast_long\1", e)              # <long> (expr)
    e = re.sub(r"<long>\s*([A-Za-z_]\w*)\b(?!\s*[\(\[])", r"cast_long(\1)", e)   # <long> name
    if "<long>" in e or "<" + "int>" in e:
        raise Unknown(e)
    e = e.replace("PyBytes_GET_SIZE(", "len(").replace("PyByteArray_GET_SIZE(", "len(")
    return e


def _param(p):
    """'str msg' / 'bint encode=False' / 'unsigned char i' -> (name, default, conv)"""
    p = p.strip()
    if not p:
        return None
    m = re.match(r"^(?:(%s)\s+)?(\w+)\s*(?:=\s*(.*))?$" % TYPE_RE, p)
    if not m:
        raise Unknown("parameter " + p)
    return m.group(2), m.group(3), CONV[m.group(1) or ""]


def translit(src: str) -> str:
    out = [
        "# transliterated from c_common.pyx by harness/pyx_translit.py",
        "import array",
        "from math import cos, acos, fabs, pi",
        "from math import floor as _mfloor",
        "from pyx_translit import cast_long, conv_long, conv_int, conv_uchar, conv_char, conv_ssize, conv_double, conv_bint, conv_str, conv_obj",
        "def c_floor(x):",
        "    return float(_mfloor(x))",
        "def abs(x):",
        "    return fabs(x) if isinstance(x, float) else (-x if x < 0 else x)",
        "",
    ]
    lines = src.split("\n")
    i = 0
    fn_ret = None       # converter of the function being emitted
    fn_indent = None
    typed = {}          # local name -> converter
    in_doc = False
    while i < len(lines):
        line = lines[i]
        i += 1
        s = line.strip()
        # docstrings / comments / blank lines pass through
        if in_doc:
            out.append(line)
            if '"""' in s:
                in_doc = False
            continue
        if s.startswith('"""'):
            out.append(line)
            if s.count('"""') == 1:
                in_doc = True
            continue
        if not s or s.startswith("#"):
            out.append(line)
            continue
        if s.startswith("cimport ") or re.match(r"^from\s+\S+\s+cimport\b", s) or s.startswith("@cython."):
            continue
        # multi-line statements (open brackets): join
        line = _strip_comment(line)
        while line.count("(") + line.count("[") > line.count(")") + line.count("]") and i < len(lines):
            line = line + " " + _strip_comment(lines[i]).strip()
            i += 1
        s = line.strip()
        if not s:
            continue
        indent = re.match(r"^(\s*)", line).group(1)
        if fn_indent is not None and len(indent) <= len(fn_indent) and not _def.match(line):
            fn_ret, fn_indent, typed = None, None, {}
        m = _def.match(line)
        if m:
            ind, kind, rtype, name, params = m.groups()
            ps = [_param(p) for p in params.split(",")] if params.strip() else []
            ps = [p for p in ps if p]
            sig = ", ".join(n + ("=" + d if d is not None else "") for n, d, c in ps)
            out.append("%sdef %s(%s):" % (ind, name, sig))
            for n, d, c in ps:
                if c != "conv_obj":
                    out.append("%s    %s = %s(%s)" % (ind, n, c, n))
            fn_ret = CONV[rtype or ""] if kind != "def" else "conv_obj"
            fn_indent = ind
            typed = {n: c for n, d, c in ps if c != "conv_obj"}
            continue
        m = _cdef_var.match(line)
        if m:
            ind, ctype, view, name, arr, init = m.groups()
            if view or arr:
                # memoryview / C array: alias (views) or element copy (C array initialised from an array.array)
                if init is None:
                    raise Unknown(line)
                out.append("%s%s = %s" % (ind, name, ("list(%s)" % _expr(init)) if arr else _expr(init)))
                continue
            conv = CONV[ctype]
            if conv != "conv_obj":
                typed[name] = conv
            if init is None:
                out.append("%s%s = 0" % (ind, name) if conv not in ("conv_obj",) else "%s%s = None" % (ind, name))
            else:
                out.append("%s%s = %s(%s)" % (ind, name, conv, _expr(init)))
            continue
        mm = re.match(r"^(\s*)cdef\s+(%s)\s+(\w+(?:\s*,\s*\w+)+)\s*$" % TYPE_RE, line)
        if mm:
            ind, ctype, names = mm.groups()
            conv = CONV[ctype]
            for nm in [x.strip() for x in names.split(",")]:
                if conv != "conv_obj":
                    typed[nm] = conv
                out.append("%s%s = %s" % (ind, nm, "0" if conv != "conv_obj" else "None"))
            continue
        m = _cdef_untyped.match(line)
        if m and not _cdef_var.match(line):
            ind, name, init = m.groups()
            out.append("%s%s = %s" % (ind, name, _expr(init)))
            continue
        if s.startswith("cdef "):
            raise Unknown(line)
        m = _return.match(line)
        if m and fn_ret is not None:
            ind, e = m.groups()
            out.append("%sreturn %s(%s)" % (ind, fn_ret, _expr(e) if e else "None"))
            continue
        m = _assign.match(line)
        if m and m.group(2) in typed and not s.startswith(("if ", "elif ", "for ", "while ")):
            ind, name, op, e = m.groups()
            e = _expr(e)
            if op == "=":
                out.append("%s%s = %s(%s)" % (ind, name, typed[name], e))
            else:
                out.append("%s%s = %s(%s %s (%s))" % (ind, name, typed[name], name, op[:-1], e))
            continue
        out.append(_expr(line))
    return "\n".join(out) + "\n"


def load(src: str, name="c_common_translit"):
    """-> module object executing the transliteration"""
    import sys
    import types
    import os
    here = os.path.dirname(os.path.abspath(__file__))
    if here not in sys.path:
        sys.path.insert(0, here)
    code = translit(src)
    mod = types.ModuleType(name)
    mod.__dict__["__translit_source__"] = code
    exec(compile(code, name + ".py", "exec"), mod.__dict__)
    return mod
