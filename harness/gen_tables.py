#!/usr/bin/env python3
"""Translator: literal data in /repo/src  ->  lean/PyModeS/Generated/Tables.lean

Every table the Lean theorems talk about is re-extracted from the working tree
with `ast` on every run, so table theorems are re-checked against what the code
says now.  If a literal can no longer be extracted the translator raises
`NotExtractable(name)`; the caller treats that like a broken proof obligation.
"""
import ast
import os
import sys
from fractions import Fraction

REPO = os.environ.get("PYMODES_REPO", "/repo")
SRC = os.path.join(REPO, "src", "pyModeS")
HERE = os.path.dirname(os.path.abspath(__file__))
OUT = os.path.join(HERE, "..", "lean", "PyModeS", "Generated", "Tables.lean")


class NotExtractable(Exception):
    pass


def _parse(rel):
    with open(os.path.join(SRC, rel)) as f:
        return ast.parse(f.read())


def _ev(node, env):
    """Evaluate a literal-ish expression."""
    if isinstance(node, ast.Constant):
        return node.value
    if isinstance(node, ast.List):
        return [_ev(e, env) for e in node.elts]
    if isinstance(node, ast.Tuple):
        return tuple(_ev(e, env) for e in node.elts)
    if isinstance(node, ast.Dict):
        return {_ev(k, env): _ev(v, env) for k, v in zip(node.keys, node.values)}
    if isinstance(node, ast.UnaryOp) and isinstance(node.op, ast.USub):
        return -_ev(node.operand, env)
    if isinstance(node, ast.Name) and node.id in env:
        return env[node.id]
    if isinstance(node, ast.BinOp) and isinstance(node.op, (ast.Mult, ast.Add, ast.Sub)):
        a, b = _ev(node.left, env), _ev(node.right, env)
        if isinstance(a, (int, float)) and isinstance(b, (int, float)):
            if isinstance(node.op, ast.Mult):
                return a * b
            if isinstance(node.op, ast.Add):
                return a + b
            return a - b
        if isinstance(node.op, ast.Add) and type(a) is type(b) and isinstance(a, (str, list, tuple)):
            return a + b
        if isinstance(node.op, ast.Mult) and isinstance(a, (str, list)) and isinstance(b, int):
            return a * b
    if isinstance(node, ast.Call):
        f = node.func
        if isinstance(f, ast.Name) and f.id == "int" and len(node.args) == 2:
            return int(_ev(node.args[0], env), _ev(node.args[1], env))
        if isinstance(f, ast.Attribute) and f.attr == "array" and len(node.args) >= 1:
            return _ev(node.args[0], env)
        if isinstance(f, ast.Name) and f.id in ("list", "tuple") and len(node.args) == 1:
            return list(_ev(node.args[0], env))
    raise NotExtractable(ast.dump(node)[:80])


_MODULE = {}


def _find_func(tree, name, cls=None):
    f = _find_func0(tree, name, cls)
    _MODULE[id(f)] = tree
    return f


def _find_func0(tree, name, cls=None):
    body = tree.body
    if cls is not None:
        for n in body:
            if isinstance(n, ast.ClassDef) and n.name == cls:
                body = n.body
                break
        else:
            raise NotExtractable("class " + cls)
    for n in body:
        if isinstance(n, ast.FunctionDef) and n.name == name:
            return n
    raise NotExtractable("function " + name)


def _assign(scope, name, env=None, what=""):
    """value of the (last) assignment `name = <literal>` anywhere inside scope"""
    env = env or {}
    found = None
    for n in ast.walk(scope):
        tgt = None
        if isinstance(n, ast.Assign) and len(n.targets) == 1:
            tgt, val = n.targets[0], n.value
        elif isinstance(n, ast.AnnAssign) and n.value is not None:
            tgt, val = n.target, n.value
        if tgt is None:
            continue
        if isinstance(tgt, ast.Name) and tgt.id == name:
            found = val
        elif isinstance(tgt, ast.Attribute) and tgt.attr == name:
            found = val
    if found is None and _MODULE.get(id(scope)) is not None and _MODULE[id(scope)] is not scope:
        return _assign(_MODULE[id(scope)], name, env, what)
    if found is None:
        raise NotExtractable(what + name)
    try:
        return _ev(found, env)
    except NotExtractable as e:
        raise NotExtractable("%s%s: %s" % (what, name, e))


def extract():
    """-> dict of python values"""
    t = {}
    pc = _parse("py_common.py")
    t["crcG"] = _assign(_find_func(pc, "crc"), "G", what="py_common.crc.")
    t["crcLegacyGen"] = _assign(_find_func(pc, "crc_legacy"), "generator", what="py_common.crc_legacy.")
    b08 = _parse("decoder/bds/bds08.py")
    t["callsignChars"] = _assign(_find_func(b08, "callsign"), "chars", what="bds08.callsign.")
    b20 = _parse("decoder/bds/bds20.py")
    t["cs20Chars"] = _assign(_find_func(b20, "cs20"), "chars", what="bds20.cs20.")
    b06 = _parse("decoder/bds/bds06.py")
    sv = _find_func(b06, "surface_velocity")
    t["movLb"] = _assign(sv, "mov_lb", what="bds06.")
    t["ktsLb"] = _assign(sv, "kts_lb", what="bds06.")
    t["movStep"] = _assign(sv, "step", what="bds06.")
    b17 = _parse("decoder/bds/bds17.py")
    t["cap17All"] = _assign(_find_func(b17, "cap17"), "allbds", what="bds17.cap17.")
    un = _parse("decoder/uncertainty.py")
    env = {"NA": None}
    for k in ["TC_NUCp_lookup", "TC_NICv1_lookup", "TC_NICv2_lookup", "NUCp", "NUCv",
              "NACp", "NACv", "SIL", "NICv1", "NICv2"]:
        t[k] = _assign(un, k, env, what="uncertainty.")
    t["NA"] = _assign(un, "NA", {}, what="uncertainty.")
    rt = _parse("extra/rtlreader.py")
    for k in ["pbits", "fbits", "preamble", "th_amp_diff", "smaples_per_microsec"]:
        t["rtl_" + k] = _assign(rt, k, what="rtlreader.")
    dc = _parse("streamer/decode.py")
    t["cacheTimeout"] = _assign(_find_func(dc, "__init__", "Decode"), "cache_timeout", what="Decode.")
    return t


# ---------------------------------------------------------------- Lean emit

def frac(x):
    if isinstance(x, bool):
        raise NotExtractable("bool where number expected")
    if isinstance(x, int):
        return Fraction(x)
    if isinstance(x, float):
        return Fraction(repr(x))
    raise NotExtractable("number expected: %r" % (x,))


def lrat(x):
    f = frac(x)
    if f.denominator == 1:
        return "(%d : Rat)" % f.numerator
    return "((%d : Rat) / %d)" % (f.numerator, f.denominator)


def lorat(x):
    return "none" if x is None else "some " + lrat(x)


def lnat(x):
    if not isinstance(x, int) or isinstance(x, bool) or x < 0:
        raise NotExtractable("natural number expected: %r" % (x,))
    return str(x)


def llist(xs, f):
    return "[" + ", ".join(f(x) for x in xs) + "]"


def lstr(s):
    if not isinstance(s, str):
        raise NotExtractable("string expected: %r" % (s,))
    return '"' + s.replace("\\", "\\\\").replace('"', '\\"') + '"'


def emit(t):
    L = []
    A = L.append
    A("/- GENERATED by harness/gen_tables.py from /repo/src on every run. Do not edit. -/")
    A("namespace PyModeS.Tables")
    A("")
    A("def crcG : List Nat := " + llist(t["crcG"], lnat))
    A("def crcLegacyGen : List Bool := " + llist(t["crcLegacyGen"], lambda b: "true" if b == 1 else ("false" if b == 0 else (_ for _ in ()).throw(NotExtractable("generator bit")))))
    A("def callsignChars : List Char := " + lstr(t["callsignChars"]) + ".toList")
    A("def cs20Chars : List Char := " + lstr(t["cs20Chars"]) + ".toList")
    A("def movLb : List Nat := " + llist(t["movLb"], lnat))
    A("def ktsLb : List Rat := " + llist(t["ktsLb"], lrat))
    A("def movStep : List Rat := " + llist(t["movStep"], lrat))
    A("def cap17All : List String := " + llist(t["cap17All"], lstr))
    if t["NA"] is not None:
        raise NotExtractable("uncertainty.NA is not None")
    A("def tcNUCp : List (Nat × Nat) := " + llist(sorted(t["TC_NUCp_lookup"].items()), lambda kv: "(%s, %s)" % (lnat(kv[0]), lnat(kv[1]))))

    def nic_entry(v):
        if isinstance(v, dict):
            return llist(sorted(v.items()), lambda kv: "(some %s, %s)" % (lnat(kv[0]), lnat(kv[1])))
        return "[(none, %s)]" % lnat(v)
    for name, key in [("tcNICv1", "TC_NICv1_lookup"), ("tcNICv2", "TC_NICv2_lookup")]:
        A("def %s : List (Nat × List (Option Nat × Nat)) := " % name +
          llist(sorted(t[key].items()), lambda kv: "(%s, %s)" % (lnat(kv[0]), nic_entry(kv[1]))))

    def rows(name, key, cols):
        A("def %s : List (Nat × List (Option Rat)) := " % name +
          llist(sorted(t[key].items()), lambda kv: "(%s, %s)" % (
              lnat(kv[0]), llist([kv[1][c] for c in cols], lorat))))
        for kv in t[key].items():
            if sorted(kv[1].keys()) != sorted(cols):
                raise NotExtractable("%s[%r] keys" % (key, kv[0]))
    rows("tblNUCp", "NUCp", ["HPL", "RCu", "RCv"])
    rows("tblNUCv", "NUCv", ["HVE", "VVE"])
    rows("tblNACp", "NACp", ["EPU", "VEPU"])
    rows("tblNACv", "NACv", ["HFOMr", "VFOMr"])
    rows("tblSIL", "SIL", ["PE_RCu", "PE_VPL"])

    def rows2(name, key, cols):
        def inner(d):
            for v in d.values():
                if sorted(v.keys()) != sorted(cols):
                    raise NotExtractable(key + " inner keys")
            return llist(sorted(d.items()), lambda kv: "(%s, %s)" % (
                lnat(kv[0]), llist([kv[1][c] for c in cols], lorat)))
        A("def %s : List (Nat × List (Nat × List (Option Rat))) := " % name +
          llist(sorted(t[key].items()), lambda kv: "(%s, %s)" % (lnat(kv[0]), inner(kv[1]))))
    rows2("tblNICv1", "NICv1", ["Rc", "VPL"])
    rows2("tblNICv2", "NICv2", ["Rc"])
    A("def rtlPbits : Nat := " + lnat(t["rtl_pbits"]))
    A("def rtlFbits : Nat := " + lnat(t["rtl_fbits"]))
    A("def rtlSamplesPerMicrosec : Nat := " + lnat(t["rtl_smaples_per_microsec"]))
    A("def rtlPreamble : List Nat := " + llist(t["rtl_preamble"], lnat))
    A("def rtlThAmpDiff : Rat := " + lrat(t["rtl_th_amp_diff"]))
    A("def cacheTimeout : Int := " + lnat(t["cacheTimeout"]))
    A("")
    A("end PyModeS.Tables")
    return "\n".join(L) + "\n"


def main():
    try:
        text = emit(extract())
    except NotExtractable as e:
        print("NOT-EXTRACTABLE %s" % e)
        return 3
    out = os.path.normpath(OUT)
    old = None
    if os.path.exists(out):
        with open(out) as f:
            old = f.read()
    if old != text:
        os.makedirs(os.path.dirname(out), exist_ok=True)
        with open(out + ".tmp", "w") as f:
            f.write(text)
        os.replace(out + ".tmp", out)
        print("tables: rewritten")
    else:
        print("tables: unchanged")
    return 0


if __name__ == "__main__":
    sys.exit(main())
