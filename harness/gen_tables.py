#!/usr/bin/env python3
"""Translator: literal data in /repo/src  ->  lean/PyModeS/Generated/Tables.lean

Every table the Lean theorems talk about is re-extracted from the working tree
with `ast` on every run, so table theorems are re-checked against what the code
says now.  If a literal can no longer be extracted the translator raises
`NotExtractable(name)`; the caller treats that like a broken proof obligation.
"""
import ast
import os
import sys
from fractions import Fraction

REPO = os.environ.get("PYMODES_REPO", "/repo")
SRC = os.path.join(REPO, "src", "pyModeS")
HERE = os.path.dirname(os.path.abspath(__file__))
OUT = os.path.join(os.environ.get("VERIF_LEAN_DIR") or os.path.join(HERE, "..", "lean"), "PyModeS", "Generated", "Tables.lean")


class NotExtractable(Exception):
    pass


def _parse(rel):
    with open(os.path.join(SRC, rel)) as f:
        return ast.parse(f.read())


def _ev(node, env):
    """Evaluate a literal-ish expression."""
    if isinstance(node, ast.Constant):
        return node.value
    if isinstance(node, ast.List):
        return [_ev(e, env) for e in node.elts]
    if isinstance(node, ast.Tuple):
        return tuple(_ev(e, env) for e in node.elts)
    if isinstance(node, ast.Dict):
        return {_ev(k, env): _ev(v, env) for k, v in zip(node.keys, node.values)}
    if isinstance(node, ast.UnaryOp) and isinstance(node.op, ast.USub):
        return -_ev(node.operand, env)
    if isinstance(node, ast.Name) and node.id in env:
        return env[node.id]
    if isinstance(node, ast.BinOp) and isinstance(node.op, (ast.Mult, ast.Add, ast.Sub)):
        a, b = _ev(node.left, env), _ev(node.right, env)
        if isinstance(a, (int, float)) and isinstance(b, (int, float)):
            if isinstance(node.op, ast.Mult):
                return a * b
            if isinstance(node.op, ast.Add):
                return a + b
            return a - b
        if isinstance(node.op, ast.Add) and type(a) is type(b) and isinstance(a, (str, list, tuple)):
            return a + b
        if isinstance(node.op, ast.Mult) and isinstance(a, (str, list)) and isinstance(b, int):
            return a * b
    if isinstance(node, ast.Call):
        f = node.func
        if isinstance(f, ast.Name) and f.id == "int" and len(node.args) == 2:
            return int(_ev(node.args[0], env), _ev(node.args[1], env))
        if isinstance(f, ast.Attribute) and f.attr == "array" and len(node.args) >= 1:
            return _ev(node.args[0], env)
        if isinstance(f, ast.Name) and f.id in ("list", "tuple") and len(node.args) == 1:
            return list(_ev(node.args[0], env))
    raise NotExtractable(ast.dump(node)[:80])


_MODULE = {}


def _find_func(tree, name, cls=None):
    f = _find_func0(tree, name, cls)
    _MODULE[id(f)] = tree
    return f


def _find_func0(tree, name, cls=None):
    body = tree.body
    if cls is not None:
        for n in body:
            if isinstance(n, ast.ClassDef) and n.name == cls:
                body = n.body
                break
        else:
            raise NotExtractable("class " + cls)
    for n in body:
        if isinstance(n, ast.FunctionDef) and n.name == name:
            return n
    raise NotExtractable("function " + name)


def _assign(scope, name, env=None, what=""):
    """value of the (last) assignment `name = <literal>` anywhere inside scope"""
    env = env or {}
    found = None
    for n in ast.walk(scope):
        tgt = None
        if isinstance(n, ast.Assign) and len(n.targets) == 1:
            tgt, val = n.targets[0], n.value
        elif isinstance(n, ast.AnnAssign) and n.value is not None:
            tgt, val = n.target, n.value
        if tgt is None:
            continue
        if isinstance(tgt, ast.Name) and tgt.id == name:
            found = val
        elif isinstance(tgt, ast.Attribute) and tgt.attr == name:
            found = val
    if found is None and _MODULE.get(id(scope)) is not None and _MODULE[id(scope)] is not scope:
        return _assign(_MODULE[id(scope)], name, env, what)
    if found is None:
        raise NotExtractable(what + name)
    try:
        return _ev(found, env)
    except NotExtractable as e:
        raise NotExtractable("%s%s: %s" % (what, name, e))


PINNED = os.path.join(HERE, "pinned_tables.json")


def _jsonable(v):
    if isinstance(v, dict):
        return {"__dict__": [[_jsonable(k), _jsonable(x)] for k, x in v.items()]}
    if isinstance(v, (list, tuple)):
        return [_jsonable(x) for x in v]
    if isinstance(v, float):
        return {"__float__": repr(v)}
    return v


def _unjson(v):
    if isinstance(v, dict) and "__dict__" in v:
        return {_unjson(k): _unjson(x) for k, x in v["__dict__"]}
    if isinstance(v, dict) and "__float__" in v:
        return float(v["__float__"])
    if isinstance(v, list):
        return [_unjson(x) for x in v]
    return v


def extract(fallback=None, missing=None):
    """-> dict of python values.  A table that can no longer be extracted is taken from `fallback` (the pinned
    literals) and its name appended to `missing`; without a fallback NotExtractable propagates."""
    t = {}

    def get(key, thunk):
        try:
            t[key] = thunk()
        except NotExtractable as e:
            if fallback is None or key not in fallback:
                raise
            t[key] = fallback[key]
            if missing is not None:
                missing.append("%s (%s)" % (key, e))
        except (OSError, SyntaxError) as e:
            if fallback is None or key not in fallback:
                raise NotExtractable("%s: %s" % (key, e))
            t[key] = fallback[key]
            if missing is not None:
                missing.append("%s (%s)" % (key, e))

    def src(rel):
        try:
            return _parse(rel)
        except (OSError, SyntaxError) as e:
            raise NotExtractable("%s: %s" % (rel, e))

    get("crcG", lambda: _assign(_find_func(src("py_common.py"), "crc"), "G", what="py_common.crc."))
    get("crcLegacyGen", lambda: _assign(_find_func(src("py_common.py"), "crc_legacy"), "generator", what="py_common.crc_legacy."))
    get("callsignChars", lambda: _assign(_find_func(src("decoder/bds/bds08.py"), "callsign"), "chars", what="bds08.callsign."))
    get("cs20Chars", lambda: _assign(_find_func(src("decoder/bds/bds20.py"), "cs20"), "chars", what="bds20.cs20."))
    for key, name in (("movLb", "mov_lb"), ("ktsLb", "kts_lb"), ("movStep", "step")):
        get(key, lambda name=name: _assign(_find_func(src("decoder/bds/bds06.py"), "surface_velocity"), name, what="bds06."))
    get("cap17All", lambda: _assign(_find_func(src("decoder/bds/bds17.py"), "cap17"), "allbds", what="bds17.cap17."))
    env = {"NA": None}
    for k in ["TC_NUCp_lookup", "TC_NICv1_lookup", "TC_NICv2_lookup", "NUCp", "NUCv",
              "NACp", "NACv", "SIL", "NICv1", "NICv2"]:
        get(k, lambda k=k: _assign(src("decoder/uncertainty.py"), k, env, what="uncertainty."))
    get("NA", lambda: _assign(src("decoder/uncertainty.py"), "NA", {}, what="uncertainty."))
    for k in ["pbits", "fbits", "preamble", "th_amp_diff", "smaples_per_microsec"]:
        get("rtl_" + k, lambda k=k: _assign(src("extra/rtlreader.py"), k, what="rtlreader."))
    get("cacheTimeout", lambda: _assign(_find_func(src("streamer/decode.py"), "__init__", "Decode"), "cache_timeout", what="Decode."))
    return t


# ---------------------------------------------------------------- Lean emit

def frac(x):
    if isinstance(x, bool):
        raise NotExtractable("bool where number expected")
    if isinstance(x, int):
        return Fraction(x)
    if isinstance(x, float):
        return Fraction(repr(x))
    raise NotExtractable("number expected: %r" % (x,))


def lrat(x):
    f = frac(x)
    if f.denominator == 1:
        return "(%d : Rat)" % f.numerator
    return "((%d : Rat) / %d)" % (f.numerator, f.denominator)


def lorat(x):
    return "none" if x is None else "some " + lrat(x)


def lnat(x):
    if not isinstance(x, int) or isinstance(x, bool) or x < 0:
        raise NotExtractable("natural number expected: %r" % (x,))
    return str(x)


def llist(xs, f):
    return "[" + ", ".join(f(x) for x in xs) + "]"


def lstr(s):
    if not isinstance(s, str):
        raise NotExtractable("string expected: %r" % (s,))
    return '"' + s.replace("\\", "\\\\").replace('"', '\\"') + '"'


def emit(t):
    L = []
    A = L.append
    A("/- GENERATED by harness/gen_tables.py from /repo/src on every run. Do not edit. -/")
    A("namespace PyModeS.Tables")
    A("")
    A("def crcG : List Nat := " + llist(t["crcG"], lnat))
    A("def crcLegacyGen : List Bool := " + llist(t["crcLegacyGen"], lambda b: "true" if b == 1 else ("false" if b == 0 else (_ for _ in ()).throw(NotExtractable("generator bit")))))
    A("def callsignChars : List Char := " + lstr(t["callsignChars"]) + ".toList")
    A("def cs20Chars : List Char := " + lstr(t["cs20Chars"]) + ".toList")
    A("def movLb : List Nat := " + llist(t["movLb"], lnat))
    A("def ktsLb : List Rat := " + llist(t["ktsLb"], lrat))
    A("def movStep : List Rat := " + llist(t["movStep"], lrat))
    A("def cap17All : List String := " + llist(t["cap17All"], lstr))
    if t["NA"] is not None:
        raise NotExtractable("uncertainty.NA is not None")
    A("def tcNUCp : List (Nat × Nat) := " + llist(sorted(t["TC_NUCp_lookup"].items()), lambda kv: "(%s, %s)" % (lnat(kv[0]), lnat(kv[1]))))

    def nic_entry(v):
        if isinstance(v, dict):
            return llist(sorted(v.items()), lambda kv: "(some %s, %s)" % (lnat(kv[0]), lnat(kv[1])))
        return "[(none, %s)]" % lnat(v)
    for name, key in [("tcNICv1", "TC_NICv1_lookup"), ("tcNICv2", "TC_NICv2_lookup")]:
        A("def %s : List (Nat × List (Option Nat × Nat)) := " % name +
          llist(sorted(t[key].items()), lambda kv: "(%s, %s)" % (lnat(kv[0]), nic_entry(kv[1]))))

    def rows(name, key, cols):
        A("def %s : List (Nat × List (Option Rat)) := " % name +
          llist(sorted(t[key].items()), lambda kv: "(%s, %s)" % (
              lnat(kv[0]), llist([kv[1][c] for c in cols], lorat))))
        for kv in t[key].items():
            if sorted(kv[1].keys()) != sorted(cols):
                raise NotExtractable("%s[%r] keys" % (key, kv[0]))
    rows("tblNUCp", "NUCp", ["HPL", "RCu", "RCv"])
    rows("tblNUCv", "NUCv", ["HVE", "VVE"])
    rows("tblNACp", "NACp", ["EPU", "VEPU"])
    rows("tblNACv", "NACv", ["HFOMr", "VFOMr"])
    rows("tblSIL", "SIL", ["PE_RCu", "PE_VPL"])

    def rows2(name, key, cols):
        def inner(d):
            for v in d.values():
                if sorted(v.keys()) != sorted(cols):
                    raise NotExtractable(key + " inner keys")
            return llist(sorted(d.items()), lambda kv: "(%s, %s)" % (
                lnat(kv[0]), llist([kv[1][c] for c in cols], lorat)))
        A("def %s : List (Nat × List (Nat × List (Option Rat))) := " % name +
          llist(sorted(t[key].items()), lambda kv: "(%s, %s)" % (lnat(kv[0]), inner(kv[1]))))
    rows2("tblNICv1", "NICv1", ["Rc", "VPL"])
    rows2("tblNICv2", "NICv2", ["Rc"])
    A("def rtlPbits : Nat := " + lnat(t["rtl_pbits"]))
    A("def rtlFbits : Nat := " + lnat(t["rtl_fbits"]))
    A("def rtlSamplesPerMicrosec : Nat := " + lnat(t["rtl_smaples_per_microsec"]))
    A("def rtlPreamble : List Nat := " + llist(t["rtl_preamble"], lnat))
    A("def rtlThAmpDiff : Rat := " + lrat(t["rtl_th_amp_diff"]))
    A("def cacheTimeout : Int := " + lnat(t["cacheTimeout"]))
    A("")
    A("end PyModeS.Tables")
    return "\n".join(L) + "\n"


def main():
    """exit 0: tables written (possibly with fall-backs, listed in Generated/status.json); exit 3: not even a fall-back"""
    import json
    fallback = None
    if os.path.exists(PINNED):
        fallback = _unjson(json.load(open(PINNED)))
    if "--pin" in sys.argv:
        t = extract()
        with open(PINNED, "w") as f:
            json.dump(_jsonable(t), f, indent=0, sort_keys=True)
        print("pinned", len(t), "tables")
        return 0
    missing = []
    try:
        text = emit(extract(fallback, missing))
    except NotExtractable as e:
        print("NOT-EXTRACTABLE %s" % e)
        return 3
    out = os.path.normpath(OUT)
    old = None
    if os.path.exists(out):
        with open(out) as f:
            old = f.read()
    if old != text:
        os.makedirs(os.path.dirname(out), exist_ok=True)
        with open(out + ".tmp", "w") as f:
            f.write(text)
        os.replace(out + ".tmp", out)
        print("tables: rewritten")
    else:
        print("tables: unchanged")
    with open(os.path.join(os.path.dirname(out), "status.json"), "w") as f:
        json.dump({"fallback": missing}, f)
    for m in missing:
        print("FALLBACK %s" % m)
    return 0


if __name__ == "__main__":
    sys.exit(main())
