"""C04 — CPR decode with a reference position (airborne and surface)."""
from fractions import Fraction as F

import cpr
import spec
from spec import hex_of
from props.C03 import pred_pos, positions  # noqa: F401

OBLIGATION_MODULES = ["PyModeS.Properties.C04"]
TIE_MODULES = ['PyModeS.Tie.Cpr', 'PyModeS.Tie.Adsb', 'PyModeS.Tie.C03Gen']
MAIN_THEOREM = "PyModeS.C04.ref_lat / ref_lon / ref_stable"
RULE = ("true positions (NL transitions, poles, equator, meridians, random) x both parities x airborne/surface x reference offsets "
        "+-{0, 0.5, 0.999, 1-1e-9} of the half zone per axis; non-trivial = all")

OFFS = [F(0), F(1, 2), F(-1, 2), F(999, 1000), F(-999, 1000), 1 - F(1, 10 ** 9), -(1 - F(1, 10 ** 9))]


def frame(rng, tc, enc, i):
    f = spec.adsb_frame(rng, tc, [(21, 1, i), (22, 17, enc["yz"]), (39, 17, enc["xz"])], df=rng.choice([17, 18]))
    return hex_of(f, rng.choice(["upper", "lower"]))


def cases(ctx):
    rng = ctx.rng
    pts = positions(ctx)
    if not ctx.thorough:
        pts = pts[::2]
    for (la, lo) in pts:
        for base in (360, 90):
            i = rng.randrange(2)
            try:
                e = cpr.encode(F(la), F(lo), i, base)
            except ValueError:
                continue
            tc = rng.choice(list(range(9, 19)) + [20, 21, 22]) if base == 360 else rng.randrange(5, 9)
            # the Lean Spec encoder (the one the theorems talk about) against this Python encoder
            yield dict(op="cpr_encode %d/1 %d %s %s" % (base, i, cpr.fr(F(la)), cpr.fr(F(lo))),
                       real=("h:cpr.encode_str", [base, i, cpr.fr(F(la)), cpr.fr(F(lo))]), tag="spec-encoder")
            m = frame(rng, tc, e, i)
            combos = [(rng.choice(OFFS), rng.choice(OFFS)) for _ in range(3)] if not ctx.thorough else \
                rng.sample([(a, b) for a in OFFS for b in OFFS], 8)   # 8 of the 49 offset pairs per frame: the full product took half an hour
            for oa, ob in combos:
                rla = e["rlat"] + oa * e["dlat"] / 2
                rlo = e["rlon"] + ob * e["dlon"] / 2
                rla_f, rlo_f = float(rla), float(rlo)
                # keep the float reference strictly inside the open box
                if not (abs(F(rla_f) - e["rlat"]) < e["dlat"] / 2 and abs(F(rlo_f) - e["rlon"]) < e["dlon"] / 2):
                    continue
                shift = rng.choice([0, 0, 360, -360]) if base == 360 else 0
                rlo_f2 = rlo_f + shift
                pred = ["pred_pos", cpr.fr(e["rlat"]), cpr.fr(e["rlon"] + shift), cpr.fr(e["dlat"] / 131072), cpr.fr(e["dlon"] / 131072)]
                fn, opn = rng.choice([("pyModeS.adsb.position_with_ref", "position_with_ref"),
                                      ("pyModeS.adsb.airborne_position_with_ref", "airborne_position_with_ref") if base == 360
                                      else ("pyModeS.adsb.surface_position_with_ref", "surface_position_with_ref")])
                x, y = F(rla_f), F(rlo_f2)
                yield dict(op="%s %s %s %s" % (opn, m, cpr.fr(x), cpr.fr(y)), real=(fn, [m, rla_f, rlo_f2]), pred=["pred_pos_ref"] + pred[1:],
                           tag="air" if base == 360 else "surf", info=dict(lat=la, lon=lo, i=i, base=base))
    for tc in range(32):
        e = cpr.encode(F(10), F(20), 0)
        m = frame(rng, tc, e, 0)
        if not (5 <= tc <= 18 or 20 <= tc <= 22):
            yield dict(op="position_with_ref %s 10/1 20/1" % m, real=("pyModeS.adsb.position_with_ref", [m, 10.0, 20.0]), expect="RE",
                       tag="routing", trivial=True)


def pred_pos_ref(real_out, rlat, rlon, tlat, tlon):
    """as pred_pos but the longitude is compared modulo 360 and not range-restricted (the result follows the reference)"""
    if real_out in ("None", "RE", "EXC"):
        return False, "position near %s,%s" % (rlat, rlon)
    la, lo = real_out.split("|")
    la, lo = F(float(la)), F(float(lo))
    ok = abs(la - F(rlat)) <= F(tlat) and abs(cpr.angdiff(lo, F(rlon))) <= F(tlon)
    return ok, "%s|%s within (%s, %s)" % (float(F(rlat)), float(F(rlon)), float(F(tlat)), float(F(tlon)))
