"""C20 — standard-atmosphere and airspeed conversions are consistent (extra/aero.py)."""
import math
import struct

OBLIGATION_MODULES = ["PyModeS.Properties.C20"]
TIE_MODULES = ["PyModeS.Tie.AeroGen"]
MAIN_THEOREM = "PyModeS.C20.* (inverse pairs, monotonicity, ordering over the reals)"
RULE = ("(speed, altitude) grid [0.5,450] m/s x [-500,20000] m, Mach grid (0,1.3], scalar and numpy-array arguments, coordinate pairs incl. "
        "identical / antipodal / polar; every case compares numpy with the Lean Float instance and evaluates the property predicate; "
        "non-trivial = all")

A = "pyModeS.extra.aero."


def hx(x):
    return struct.pack(">d", float(x)).hex()


def isa(h):
    """ICAO standard atmosphere (Doc 7488) closed form: T [K], p [Pa], rho [kg/m3]"""
    g0, R, T0, p0, L = 9.80665, 287.05287, 288.15, 101325.0, -0.0065
    if h <= 11000:
        T = T0 + L * h
        p = p0 * (T / T0) ** (-g0 / (L * R))
    else:
        T11 = T0 + L * 11000
        p11 = p0 * (T11 / T0) ** (-g0 / (L * R))
        T = T11
        p = p11 * math.exp(-g0 * (h - 11000) / (R * T11))
    return T, p, p / (R * T)


def rel(a, b, tol):
    return abs(a - b) <= tol * max(abs(a), abs(b), 1e-300)


def call(name, *args):
    import run
    return run.resolve(A + name)(*args)


def p_isa(h):
    T, p, rho = isa(h)
    ok = rel(float(call("temperature", h)), T, 1e-3) and rel(float(call("pressure", h)), p, 1e-3) and rel(float(call("density", h)), rho, 1e-3)
    # continuity at the tropopause
    e = 1e-6
    ok = ok and rel(float(call("pressure", 11000.0 - e)), float(call("pressure", 11000.0 + e)), 1e-8)
    ok = ok and rel(float(call("density", 11000.0 - e)), float(call("density", 11000.0 + e)), 1e-8)
    return "ok" if ok else "isa-mismatch"


def p_speed(v, h):
    """inverse pairs, monotonicity, ordering at (v, h)"""
    f = lambda n, *a: float(call(n, *a))  # noqa
    bad = []
    if not rel(f("cas2tas", f("tas2cas", v, h), h), v, 1e-7):
        bad.append("cas2tas.tas2cas")
    if not rel(f("tas2cas", f("cas2tas", v, h), h), v, 1e-7):
        bad.append("tas2cas.cas2tas")
    if not rel(f("eas2tas", f("tas2eas", v, h), h), v, 1e-7):
        bad.append("eas")
    if not rel(f("mach2tas", f("tas2mach", v, h), h), v, 1e-7):
        bad.append("mach")
    m = f("tas2mach", v, h)
    if not rel(f("cas2mach", f("mach2cas", m, h), h), m, 1e-7):
        bad.append("mach2cas")
    dv = max(v * 1e-6, 1e-6)
    for n in ("tas2cas", "cas2tas", "tas2eas", "eas2tas", "tas2mach"):
        if not f(n, v + dv, h) > f(n, v, h):
            bad.append("mono-" + n)
    eas, cas = f("tas2eas", v, h), f("tas2cas", v, h)
    if abs(h) < 1e-9:
        if not (rel(eas, v, 3e-8) and rel(cas, v, 3e-8)):
            bad.append("sea-level")
    if h >= 0:
        if not (v >= eas * (1 - 1e-12)):
            bad.append("tas>=eas")
        if not (cas >= eas * (1 - 1e-9)):
            bad.append("cas>=eas")
    return "ok" if not bad else ",".join(bad)


def p_geo(la1, lo1, la2, lo2):
    f = lambda n, *a: float(call(n, *a))  # noqa
    d1, d2 = f("distance", la1, lo1, la2, lo2), f("distance", la2, lo2, la1, lo1)
    bad = []
    if d1 != d1 or d2 != d2:
        bad.append("nan")
    else:
        if not abs(d1 - d2) <= 1e-6 + 1e-9 * d1:
            bad.append("asym")
        p1, p2 = math.radians(la1), math.radians(la2)
        a = math.sin((p2 - p1) / 2) ** 2 + math.cos(p1) * math.cos(p2) * math.sin(math.radians(lo2 - lo1) / 2) ** 2
        hv = 2 * 6371000 * math.asin(min(1.0, math.sqrt(a)))
        if not abs(d1 - hv) <= 1.0 + 1e-9 * hv:
            bad.append("haversine")
    b = f("bearing", la1, lo1, la2, lo2)
    if not (0 <= b < 360):
        bad.append("bearing-range")
    return "ok" if not bad else ",".join(bad)


def p_array(n, v, h):
    """numpy-array arguments give the element-wise scalar results"""
    import numpy as np
    vs = np.array([v, v * 0.5, v * 1.1])
    r = call(n, vs, h)
    ok = all(rel(float(r[i]), float(call(n, float(vs[i]), h)), 1e-7 if n in ("tas2cas", "cas2tas") else 1e-12) for i in range(3))
    return "ok" if ok else "array-mismatch"


def p_sequence(v, h):
    """numpy-array altitudes and repeated calls give the scalar single-call results (no state between calls)"""
    import numpy as np

    def tol(n):
        # tas2cas / cas2tas compute (1+u)^3.5 - 1 with u ~ v^2: at a few m/s the cancellation amplifies the last-bit
        # difference between numpy's array and scalar pow to ~1e-10 relative (seen at 6.6 m/s); the exact law is the
        # theorem over the reals, the run only has to see a stateful or aliased implementation (errors of order 1)
        return 1e-7 if n in ("tas2cas", "cas2tas") else 1e-12
    hs = np.array([h, h * 0.5 + 100.0, 11000.0, h])
    vs = np.array([v, v * 0.7, v * 1.2, v + 1.0])
    want = {}
    for n in ("tas2eas", "eas2tas", "tas2cas", "cas2tas", "tas2mach"):
        want[n] = [float(call(n, float(a), float(b))) for a, b in zip(vs, hs)]
    wd = [float(call("density", float(b))) for b in hs]
    bad = []
    for rep in range(2):
        for n in ("tas2eas", "eas2tas", "tas2cas", "cas2tas", "tas2mach"):
            r = call(n, vs, hs)
            if not all(rel(float(x), y, tol(n)) for x, y in zip(r, want[n])):
                bad.append("%s#%d" % (n, rep))
        r = call("density", hs)
        if not all(rel(float(x), y, 1e-12) for x, y in zip(r, wd)):
            bad.append("density#%d" % rep)
        p_, rho, T = call("atmos", hs)
        if not all(rel(float(a), float(b * 287.05287 * c), 1e-12) for a, b, c in zip(p_, rho, T)):
            bad.append("p=rhoRT#%d" % rep)
        rt = call("eas2tas", call("tas2eas", vs, hs), hs)
        if not all(rel(float(x), float(y), 1e-9) for x, y in zip(rt, vs)):
            bad.append("roundtrip#%d" % rep)
    # the same altitude array object, changed in place between two calls (the caller's array is the caller's to change:
    # the result must follow its current contents)
    h2 = hs.copy()
    for n in ("pressure", "density", "temperature", "vsound"):
        call(n, h2)
    for step, newh in enumerate([0.0, 1000.0 + 0.3 * h, None]):
        if newh is None:
            h2 += 2000.0
        else:
            h2[:] = newh
        for n in ("pressure", "density", "temperature"):
            r = call(n, h2)
            w = [float(call(n, float(b))) for b in h2]
            if not all(rel(float(x), y, 1e-12) for x, y in zip(r, w)):
                bad.append("inplace-%s#%d" % (n, step))
        for n in ("tas2cas", "tas2eas", "tas2mach"):
            r = call(n, vs, h2)
            w = [float(call(n, float(a), float(b))) for a, b in zip(vs, h2)]
            if not all(rel(float(x), y, tol(n)) for x, y in zip(r, w)):
                bad.append("inplace-%s#%d" % (n, step))
        v2 = vs.copy()
        call("tas2cas", v2, h2)
        v2 *= 0.5
        r = call("tas2cas", v2, h2)
        w = [float(call("tas2cas", float(a), float(b))) for a, b in zip(v2, h2)]
        if not all(rel(float(x), y, tol("tas2cas")) for x, y in zip(r, w)):
            bad.append("inplace-speed#%d" % step)
    return "ok" if not bad else ",".join(bad)


def k_antipodal(rec):
    return rec["got"] == "nan" and (rec.get("info") or {}).get("antipodal")


KNOWN = {}


def cases(ctx):
    rng = ctx.rng
    hs = [-500.0, 0.0, 1.0, 5000.0, 10999.999, 11000.0, 11000.001, 15000.0, 20000.0] + [rng.uniform(-500, 20000) for _ in range(ctx.n(40, 400))]
    vs = [0.5, 1.0, 50.0, 150.0, 250.0, 340.0, 450.0] + [rng.uniform(0.5, 450) for _ in range(ctx.n(20, 200))]
    for h in hs:
        for n in ("pressure", "density", "temperature", "vsound"):
            yield dict(op="aero %s %s" % (n, hx(h)), real=(A + n, [h]), tag=n)
        yield dict(op=None, real=("h:props.C20.p_isa", [h]), expect="ok", tag="isa")
        for v in (vs if ctx.thorough else rng.sample(vs, 9)):
            for n in ("tas2mach", "mach2tas", "eas2tas", "tas2eas", "cas2tas", "tas2cas", "cas2mach"):
                x = v if n != "mach2tas" else v / 340.0
                yield dict(op="aero %s %s %s" % (n, hx(x), hx(h)), real=(A + n, [x, h]), tag=n)
            mach = rng.uniform(0.001, 1.3)
            yield dict(op="aero mach2cas %s %s" % (hx(mach), hx(h)), real=(A + "mach2cas", [mach, h]), tag="mach2cas")
            yield dict(op=None, real=("h:props.C20.p_speed", [v, h]), expect="ok", tag="laws")
        yield dict(op=None, real=("h:props.C20.p_array", [rng.choice(["tas2cas", "cas2tas", "tas2eas", "tas2mach"]), rng.uniform(1, 400), h]),
                   expect="ok", tag="array")
        yield dict(op=None, real=("h:props.C20.p_sequence", [rng.uniform(1, 400), h]), expect="ok", tag="sequence")
    # coordinates
    pairs = [(0.0, 0.0, 0.0, 0.0), (52.0, 4.0, 52.0, 4.0), (90.0, 0.0, -90.0, 0.0), (0.0, 0.0, 0.0, 180.0), (10.0, 20.0, -10.0, -160.0),
             (-71.936, -77.566, 71.936, 102.434), (45.0, 179.9, 45.0, -179.9), (89.9, 10.0, 89.9, -170.0)]
    for _ in range(ctx.n(3000, 100000)):
        la1, lo1 = rng.uniform(-90, 90), rng.uniform(-180, 180)
        k = rng.random()
        if k < 0.2:
            la2, lo2 = -la1 + rng.uniform(-1e-6, 1e-6), lo1 + 180 + rng.uniform(-1e-6, 1e-6)
            lo2 = (lo2 + 180) % 360 - 180
        elif k < 0.3:
            la2, lo2 = -la1, (lo1 + 360) % 360 - 180
        elif k < 0.5:
            la2, lo2 = la1 + rng.uniform(-1e-3, 1e-3), lo1 + rng.uniform(-1e-3, 1e-3)
            la2 = max(-90.0, min(90.0, la2))
        else:
            la2, lo2 = rng.uniform(-90, 90), rng.uniform(-180, 180)
        pairs.append((la1, lo1, la2, lo2))
    # identical points: sin^2 + cos^2 rounds above 1 for a few per cent of latitudes, the clamp must keep the distance at 0
    for _ in range(ctx.n(600, 6000)):
        la1, lo1 = rng.uniform(-90, 90), rng.uniform(-180, 180)
        pairs.append((la1, lo1, la1, lo1))
    for (la1, lo1, la2, lo2) in pairs:
        anti = abs(la1 + la2) < 1e-3 and abs(abs(lo1 - lo2) - 180) < 1e-3
        # near-identical and near-antipodal points: acos is ill-conditioned, the float instances may differ more than 1e-9
        illcond = anti or (abs(la1 - la2) < 2e-3 and abs(lo1 - lo2) < 2e-3)
        yield dict(op=None if illcond else "aero distance %s %s %s %s %s" % (hx(la1), hx(lo1), hx(la2), hx(lo2), hx(0.0)),
                   real=(A + "distance", [la1, lo1, la2, lo2]), tag="distance", info=dict(antipodal=anti))
        yield dict(op="aero bearing %s %s %s %s" % (hx(la1), hx(lo1), hx(la2), hx(lo2)) if not illcond else None,
                   real=(A + "bearing", [la1, lo1, la2, lo2]), tag="bearing")
        yield dict(op=None, real=("h:props.C20.p_geo", [la1, lo1, la2, lo2]), expect="ok", tag="geo", info=dict(antipodal=anti))
