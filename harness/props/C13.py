"""C13 — ADS-B status, intent and quality indicators (TC 19/28/29/31, uncertainty look-ups)."""
from fractions import Fraction as F

import spec
from spec import hex_of

OBLIGATION_MODULES = ["PyModeS.Properties.C13"]
TIE_MODULES = ['PyModeS.Tie.Bds61', 'PyModeS.Tie.Bds62', 'PyModeS.Tie.Adsb', 'PyModeS.Tie.C13Gen', 'PyModeS.Tie.C13GenB']
MAIN_THEOREM = "PyModeS.C13.* (field theorems, table totality / monotonicity)"
RULE = ("every value of each TC28/29/31 field x subtype with random other bits; TC 5..22 x NIC supplements x version; "
        "8 emergency states x subtypes; non-trivial = value expected")


def fr(x):
    x = F(x)
    return "%d/%d" % (x.numerator, x.denominator)


def b(x):
    return "True" if x else "False"


# DO-260B look-ups (Table 2-69/70/71/72/73, A-1...): written from the standard
NUCP = {9: (7.5, 3), 8: (25, 10), 7: (185, 93), 6: (370, 185), 5: (926, 463), 4: (1852, 926), 3: (3704, 1852), 2: (18520, 9260),
        1: (37040, 18520), 0: (None, None)}
TC_NUCP = {5: 9, 6: 8, 7: 7, 8: 6, 9: 9, 10: 8, 11: 7, 12: 6, 13: 5, 14: 4, 15: 3, 16: 2, 17: 1, 18: 0, 20: 9, 21: 8, 22: 0}
NUCV = {0: (None, None), 1: (10, 15.2), 2: (3, 4.5), 3: (1, 1.5), 4: (0.3, 0.46)}
NACP = {11: (3, 4), 10: (10, 15), 9: (30, 45), 8: (93, None), 7: (185, None), 6: (556, None), 5: (926, None), 4: (1852, None),
        3: (3704, None), 2: (7408, None), 1: (18520, None), 0: (None, None)}
SIL = {3: (1e-7, 2e-7), 2: (1e-5, 1e-5), 1: (1e-3, 1e-3), 0: (None, None)}
# (tc, NIC supplement) -> (NIC, Rc, VPL) for version 1
NICV1 = {(5, 0): (11, 7.5, 11), (6, 0): (10, 25, 37.5), (7, 1): (9, 75, 112), (7, 0): None, (8, 0): (0, None, None),
         (9, 0): (11, 7.5, 11), (10, 0): (10, 25, 37.5), (11, 1): (9, 75, 112), (11, 0): (8, 185, None), (12, 0): (7, 370, None),
         (13, 0): (6, 926, None), (13, 1): (6, 1111, None), (14, 0): (5, 1852, None), (15, 0): (4, 3702, None),
         (16, 1): (3, 7408, None), (16, 0): (2, 14008, None), (17, 0): (1, 37000, None), (18, 0): (0, None, None),
         (20, 0): (11, 7.5, 11), (21, 0): (10, 25, 37.5), (22, 0): (0, None, None)}


# DO-260B Table 2-70 / A-2x: NIC by type code and supplements (A, B) airborne or (A, C) surface; key = A*2 + B/C
NICV2 = {5: {None: 11}, 6: {None: 10}, 7: {2: 9, 0: 8}, 8: {3: 7, 2: 6, 1: 6, 0: 0}, 9: {None: 11}, 10: {None: 10}, 11: {3: 9, 0: 8},
         12: {None: 7}, 13: {0: 6, 1: 6, 3: 6}, 14: {None: 5}, 15: {None: 4}, 16: {3: 3, 0: 2}, 17: {None: 1}, 18: {None: 0},
         20: {None: 11}, 21: {None: 10}, 22: {None: 0}}


def pred_nicv2(real_out, nic):
    """a defined (TC, supplement) combination returns its DO-260B NIC (the containment radius is compared with the model only)"""
    if real_out in ("RE", "EXC"):
        return False, "NIC %d" % nic
    return real_out.split("|")[0] == str(nic), "NIC %d" % nic


def o(x):
    return "None" if x is None else fr(F(repr(x)) if isinstance(x, float) else F(x))


def k_tc19_keyerror(rec):
    return (rec.get("info") or {}).get("tc") == 19 and rec["got"] == "EXC"


KNOWN = {}


def cases(ctx):
    rng = ctx.rng
    nrep = ctx.n(2, 10)

    def fr29(st, fields):
        return hex_of(spec.adsb_frame(rng, 29, [(5, 2, st)] + fields, df=rng.choice([17, 18])), rng.choice(["upper", "lower"]))

    A = "pyModeS.adsb."
    # --- TC 28
    for st in range(8):
        for es in range(8):
            for _ in range(nrep * 3):
                m = hex_of(spec.adsb_frame(rng, 28, [(5, 3, st), (8, 3, es)], df=rng.choice([17, 18])))
                if st == 2:
                    e1 = e2 = "RE"
                else:
                    e1, e2 = str(es), b(st == 1 and es != 0)
                # the property pins subtype 1 (emergency/priority status); other subtypes: model only
                yield dict(op="emergency_state " + m, real=(A + "emergency_state", [m]), expect=e1 if st in (1, 2) else None,
                           tag="tc28-state", info=dict(st=st, es=es))
                yield dict(op="is_emergency " + m, real=(A + "is_emergency", [m]), expect=e2 if st in (0, 1, 2) else None,
                           tag="tc28-isem", info=dict(st=st, es=es))
    # TC 28: subtype x emergency state x Mode A code (is_emergency depends on the reported state only; a squawk that
    # conventionally goes with an emergency — 7500 / 7600 / 7700 — must not turn state 0 into an emergency)
    from props.C08 import id13
    squawks = [(7, 5, 0, 0), (7, 6, 0, 0), (7, 7, 0, 0), (0, 0, 0, 0), (7, 7, 7, 7), (1, 2, 0, 0), (7, 7, 0, 1)]
    for (qa, qb, qc, qd) in squawks:
        for x in (0, 1):
            for st in (0, 1):
                for es in range(8):
                    m = hex_of(spec.adsb_frame(rng, 28, [(5, 3, st), (8, 3, es), (11, 13, id13(qa, qb, qc, qd, x))], df=rng.choice([17, 18])))
                    yield dict(op="is_emergency " + m, real=(A + "is_emergency", [m]), expect=b(st == 1 and es != 0),
                               tag="tc28-isem-squawk", info=dict(st=st, es=es))
                    if st == 1:
                        yield dict(op="emergency_state " + m, real=(A + "emergency_state", [m]), expect=str(es), tag="tc28-state-squawk",
                                   info=dict(st=st, es=es))
    # TC 28: the Mode A code itself, every 12-bit code with either X bit ("emergency state and squawk ... equal the
    # values encoded"; C08 pins the same decoder from the identity-code side)
    for n in range(4096):
        qa, qb, qc, qd = n >> 9, (n >> 6) & 7, (n >> 3) & 7, n & 7
        x = n & 1 if not ctx.thorough else None
        for xx in ((0, 1) if x is None else (x,)):
            m = hex_of(spec.adsb_frame(rng, 28, [(5, 3, 1), (8, 3, rng.randrange(8)), (11, 13, id13(qa, qb, qc, qd, xx))], df=rng.choice([17, 18])),
                       rng.choice(["upper", "lower"]))
            yield dict(op="emergency_squawk " + m, real=(A + "emergency_squawk", [m]), expect="%d%d%d%d" % (qa, qb, qc, qd), tag="tc28-squawk")
    # --- TC 29 subtype 1 (DO-260B)
    for alt in range(2048):
        for src in (0, 1):
            m = fr29(1, [(8, 1, src), (9, 11, alt)])
            e = "None|N/A" if alt == 0 else "%d|%s" % ((alt - 1) * 32, "MCP/FCU" if src == 0 else "FMS")
            yield dict(op="selected_altitude " + m, real=(A + "selected_altitude", [m]), expect=e, tag="selalt", trivial=alt == 0)
    for baro in range(512):
        for _ in range(nrep):
            m = fr29(1, [(20, 9, baro)])
            e = "None" if baro == 0 else fr(800 + F(baro - 1) * F(8, 10))
            yield dict(op="baro_pressure_setting " + m, real=(A + "baro_pressure_setting", [m]), expect=e, tag="baro", trivial=baro == 0)
    for hdg in range(256):
        for sign in (0, 1):
            for status in (0, 1):
                m = fr29(1, [(29, 1, status), (30, 1, sign), (31, 8, hdg)])
                e = "None" if not status else fr(sign * 180 + F(hdg * 180, 256))
                yield dict(op="selected_heading " + m, real=(A + "selected_heading", [m]), expect=e, tag="selhdg",
                           trivial=not status, info=dict(sign=sign, hdg=hdg))
    for status in (0, 1):
        for flags in range(256):
            # mb[46] status, mb[47] autopilot, [48] vnav, [49] alt hold, [50] adsr?, [51] approach, [52] tcas, [53] lnav
            m = fr29(1, [(46, 1, status), (47, 8, flags)])
            bit = lambda k: (flags >> (7 - (k - 47))) & 1  # noqa
            for name, k in (("autopilot", 47), ("vnav_mode", 48), ("altitude_hold_mode", 49), ("approach_mode", 51), ("lnav_mode", 53)):
                e = "None" if not status else b(bit(k))
                yield dict(op="%s %s" % (name, m), real=(A + name, [m]), expect=e, tag="modes", trivial=not status)
            yield dict(op="tcas_operational " + m, real=(A + "tcas_operational", [m]), expect=b(bit(52)), tag="tcas-op1")
    # --- TC 29 subtype 0 (DO-260A)
    for avail in range(4):
        for ref in (0, 1):
            for alt in range(1024):
                if not ctx.thorough and alt % 3 and alt not in (1, 1022, 1023):
                    continue
                m = fr29(0, [(7, 2, avail), (9, 1, ref), (15, 10, alt)])
                if avail == 0:
                    e = "None|N/A|''"
                else:
                    e = "%d|%s|%s" % (-1000 + alt * 100, {1: "MCP/FCU", 2: "Holding mode", 3: "FMS/RNAV"}[avail], "FL" if ref == 0 else "MSL")
                yield dict(op="target_altitude " + m, real=(A + "target_altitude", [m]), expect=e, tag="tgtalt", trivial=avail == 0)
    for avail in range(4):
        for ty in (0, 1):
            for ang in range(512):
                m = fr29(0, [(25, 2, avail), (27, 9, ang), (36, 1, ty)])
                if avail == 0:
                    e = "None|''|N/A"
                else:
                    e = "%d|%s|%s" % (ang, "Heading" if ty else "Track", {1: "MCP/FCU", 2: "Autopilot mode", 3: "FMS/RNAV"}[avail])
                yield dict(op="target_angle " + m, real=(A + "target_angle", [m]), expect=e, tag="tgtang", trivial=avail == 0)
                if ang % 64 == 0:
                    yield dict(op="horizontal_mode " + m, real=(A + "horizontal_mode", [m]), expect="None" if avail == 0 else str(avail), tag="hmode")
    for vm in range(4):
        for tc_op in (0, 1):
            for ra in (0, 1):
                for es in range(8):
                    for _ in range(nrep):
                        m = fr29(0, [(13, 2, vm), (51, 1, tc_op), (52, 1, ra), (53, 3, es)])
                        yield dict(op="vertical_mode " + m, real=(A + "vertical_mode", [m]), expect="None" if vm == 0 else str(vm), tag="vmode")
                        yield dict(op="tcas_operational " + m, real=(A + "tcas_operational", [m]), expect=b(tc_op == 0), tag="tcas-op0")
                        yield dict(op="tcas_ra " + m, real=(A + "tcas_ra", [m]), expect=b(ra), tag="tcas-ra")
                        yield dict(op="emergency_status " + m, real=(A + "emergency_status", [m]), expect=str(es), tag="emstatus")
    # subtype guards for TC29 functions
    V1 = ["selected_altitude", "baro_pressure_setting", "selected_heading", "autopilot", "vnav_mode", "altitude_hold_mode",
          "approach_mode", "lnav_mode"]
    V0 = ["target_altitude", "vertical_mode", "horizontal_mode", "target_angle", "tcas_ra", "emergency_status"]
    for name in V1:
        m = fr29(0, [])
        yield dict(op="%s %s" % (name, m), real=(A + name, [m]), expect="RE", tag="st-guard", trivial=True)
    for name in V0:
        m = fr29(1, [])
        yield dict(op="%s %s" % (name, m), real=(A + name, [m]), expect="RE", tag="st-guard", trivial=True)
    for tc in range(32):
        if tc == 29:
            continue
        m = hex_of(spec.adsb_frame(rng, tc, []))
        for name in V0 + V1 + ["tcas_operational"]:
            yield dict(op="%s %s" % (name, m), real=(A + name, [m]), expect="RE", tag="tc-guard", trivial=True)
    # --- TC 31 / 19 / 29 quality fields
    for ver in range(8):
        for nics in (0, 1):
            for nacp in range(16):
                for sil in range(4):
                    for sup in (0, 1):
                        m = hex_of(spec.adsb_frame(rng, 31, [(40, 3, ver), (43, 1, nics), (44, 4, nacp), (50, 2, sil), (54, 1, sup)]))
                        yield dict(op="version " + m, real=(A + "version", [m]), expect=str(ver), tag="version")
                        yield dict(op="nic_s " + m, real=(A + "nic_s", [m]), expect=str(nics), tag="nic_s")
                        n = NACP.get(nacp, (None, None))
                        yield dict(op="nac_p " + m, real=(A + "nac_p", [m]), expect="%d|%s|%s" % (nacp, o(n[0]), o(n[1])), tag="nacp31")
                        s = SIL[sil]
                        for v in (None, 0, 1, 2):
                            base = ("hour" if sup == 0 else "sample") if v == 2 else "unknown"
                            yield dict(op="sil %s %s" % (m, "x" if v is None else v), real=(A + "sil", [m, v]),
                                       expect="%s|%s|%s" % (o(s[0]), o(s[1]), base), tag="sil31")
    for nacp in range(16):
        for sil in range(4):
            for sup in (0, 1):
                for _ in range(nrep):
                    m = fr29(rng.randrange(2), [(39 - 32, 1, sup), (71 - 32, 4, nacp), (76 - 32, 2, sil)])
                    n = NACP.get(nacp, (None, None))
                    yield dict(op="nac_p " + m, real=(A + "nac_p", [m]), expect="%d|%s|%s" % (nacp, o(n[0]), o(n[1])), tag="nacp29")
                    s = SIL[sil]
                    yield dict(op="sil %s 2" % m, real=(A + "sil", [m, 2]), expect="%s|%s|%s" % (o(s[0]), o(s[1]), "hour" if sup == 0 else "sample"), tag="sil29")
    for a_ in (0, 1):
        for c_ in (0, 1):
            for _ in range(20):
                m = hex_of(spec.adsb_frame(rng, 31, [(43, 1, a_), (19, 1, c_)]))
                yield dict(op="nic_a_c " + m, real=(A + "nic_a_c", [m]), expect="%d|%d" % (a_, c_), tag="nic_a_c")
    for tc in range(9, 19):
        for bb in (0, 1):
            m = hex_of(spec.adsb_frame(rng, tc, [(7, 1, bb)]))
            yield dict(op="nic_b " + m, real=(A + "nic_b", [m]), expect=str(bb), tag="nic_b")
    for v in range(8):
        for _ in range(nrep * 3):
            m = hex_of(spec.adsb_frame(rng, 19, [(10, 3, v)]))
            n = NUCV.get(v, (None, None))
            e = "%d|%s|%s" % (v, o(n[0]), o(n[1]))
            yield dict(op="nuc_v " + m, real=(A + "nuc_v", [m]), expect=e, tag="nucv")
            yield dict(op="nac_v " + m, real=(A + "nac_v", [m]), expect=e, tag="nacv")
    # --- position-message quality: TC 5..22 x supplements x version
    order = list(range(32)) + list(range(31, -1, -1)) + rng.sample(range(32), 32)
    for tc in order:
        for _ in range(nrep):
            m = hex_of(spec.adsb_frame(rng, tc, []))
            inside = 5 <= tc <= 22
            info = dict(tc=tc)
            if not inside:
                yield dict(op="nuc_p " + m, real=(A + "nuc_p", [m]), expect="RE", tag="q-guard", trivial=True)
                yield dict(op="nic_v1 %s 0" % m, real=(A + "nic_v1", [m, 0]), expect="RE", tag="q-guard", trivial=True)
                yield dict(op="nic_v2 %s 0 0" % m, real=(A + "nic_v2", [m, 0, 0]), expect="RE", tag="q-guard", trivial=True)
                continue
            if tc == 19:
                # TC19 is not a position message: the documented domain excludes it
                yield dict(op="nuc_p " + m, real=(A + "nuc_p", [m]), expect="RE", tag="q-tc19", info=info)
                yield dict(op="nic_v1 %s 0" % m, real=(A + "nic_v1", [m, 0]), expect="RE", tag="q-tc19", info=info)
                yield dict(op="nic_v2 %s 0 0" % m, real=(A + "nic_v2", [m, 0, 0]), expect="RE", tag="q-tc19", info=info)
                continue
            nucp = TC_NUCP[tc]
            hpl, rcu = NUCP[nucp]
            rcv = 4 if tc == 20 else (15 if tc == 21 else None)
            yield dict(op="nuc_p " + m, real=(A + "nuc_p", [m]), expect="%d|%s|%s|%s" % (nucp, o(hpl), o(rcu), o(rcv)), tag="nucp")
            for s in (0, 1):
                ent = NICV1.get((tc, s), NICV1.get((tc, 0)) if tc not in (7, 11, 13, 16) else None)
                e = None
                if (tc, s) in NICV1 and NICV1[(tc, s)] is not None:
                    e = "%d|%s|%s" % (NICV1[(tc, s)][0], o(NICV1[(tc, s)][1]), o(NICV1[(tc, s)][2]))
                yield dict(op="nic_v1 %s %d" % (m, s), real=(A + "nic_v1", [m, s]), expect=e, tag="nicv1", info=info)
            for a_ in (0, 1):
                for bc in (0, 1):
                    row = NICV2[tc]
                    # single-NIC type codes define only the supplement combination 0
                    nic = (row[None] if a_ * 2 + bc == 0 else None) if None in row else row.get(a_ * 2 + bc)
                    yield dict(op="nic_v2 %s %d %d" % (m, a_, bc), real=(A + "nic_v2", [m, a_, bc]),
                               pred=["pred_nicv2", nic] if nic is not None else None, tag="nicv2", info=info, trivial=nic is None)
