"""C14 — decoders are total and type-guarded on well-formed frames (outcome class only)."""
import contextlib
import io

import spec
from spec import hex_of

OBLIGATION_MODULES = ["PyModeS.Properties.C14"]
TIE_MODULES = ['PyModeS.Tie.Basic', 'PyModeS.Tie.Bds61', 'PyModeS.Tie.Bds62', 'PyModeS.Tie.Bds08', 'PyModeS.Tie.Callsign', 'PyModeS.Tie.Icao', 'PyModeS.Tie.Surv', 'PyModeS.Tie.Adsb', 'PyModeS.Tie.C13Gen', 'PyModeS.Tie.C14Gen', 'PyModeS.Tie.TellGen']
MAIN_THEOREM = "PyModeS.C14.*_guard / *_no_crash"
RULE = ("every exported decoder x DF 0..31 x TC 0..31 x subtype x {zero, ones, random, random} payload x {28, 14} hex digits; "
        "outcome class (value / RuntimeError / other exception) compared with the model and with the documented (DF, TC, subtype) "
        "domain; non-trivial = inside the documented domain")


def any_(df, tc, st3, st2):
    return True


def tcin(*ranges):
    s = set()
    for r in ranges:
        if isinstance(r, int):
            s.add(r)
        else:
            s.update(range(r[0], r[1] + 1))
    return lambda df, tc, st3, st2: df in (17, 18) and tc in s


def dfin(*dfs):
    return lambda df, tc, st3, st2: df in dfs


def tc29(sub):
    return lambda df, tc, st3, st2: df in (17, 18) and tc == 29 and st2 == sub


def tc28(df, tc, st3, st2):
    return df in (17, 18) and tc == 28 and st3 != 2


# name -> (driver op, real path, extra args, documented domain, long-frame only)
F = {}


def reg(op, path, doc, long_only=True, args=()):
    F[path + ("" if not args else str(args))] = (op, path, list(args), doc, long_only)


A = "pyModeS.adsb."
reg("df", A + "df", any_, False)
reg("icao", A + "icao", any_, False)
reg("typecode", A + "typecode", any_, False)
reg("adsb.altitude", A + "altitude", tcin((5, 18), (20, 22)))
reg("altitude05", A + "altitude05", tcin((9, 18), (20, 22)))
reg("surface_velocity", A + "surface_velocity", tcin((5, 8)))
reg("airborne_velocity", A + "airborne_velocity", tcin(19))
reg(None, A + "velocity", tcin((5, 8), 19))
reg(None, A + "speed_heading", tcin((5, 8), 19))
reg("altitude_diff", A + "altitude_diff", tcin(19))
reg("callsign", A + "callsign", tcin((1, 4)))
reg("category", A + "category", tcin((1, 4)))
reg("oe_flag", A + "oe_flag", any_)
reg("version", A + "version", tcin(31))
reg("nic_s", A + "nic_s", tcin(31))
reg("nic_a_c", A + "nic_a_c", tcin(31))
reg("nic_b", A + "nic_b", tcin((9, 18)))
reg("nuc_p", A + "nuc_p", tcin((5, 18), (20, 22)))
reg("nuc_v", A + "nuc_v", tcin(19))
reg("nac_v", A + "nac_v", tcin(19))
reg("nac_p", A + "nac_p", tcin(29, 31))
reg("nic_v1 %s 0", A + "nic_v1", tcin((5, 18), (20, 22)), args=(0,))
reg("nic_v2 %s 0 0", A + "nic_v2", tcin((5, 18), (20, 22)), args=(0, 0))
reg("nic_v2 %s 1 1", A + "nic_v2", tcin((5, 18), (20, 22)), args=(1, 1))
reg("sil %s 2", A + "sil", tcin(29, 31), args=(2,))
reg("sil %s x", A + "sil", tcin(29, 31), args=(None,))
reg("emergency_squawk", A + "emergency_squawk", tcin(28))
reg("emergency_state", A + "emergency_state", tc28)
reg("is_emergency", A + "is_emergency", tc28)
for n in ["selected_altitude", "baro_pressure_setting", "selected_heading", "autopilot", "vnav_mode", "altitude_hold_mode",
          "approach_mode", "lnav_mode"]:
    reg(n, A + n, tc29(1))
for n in ["target_altitude", "vertical_mode", "horizontal_mode", "target_angle", "tcas_ra", "emergency_status"]:
    reg(n, A + n, tc29(0))
reg("tcas_operational", A + "tcas_operational", lambda df, tc, st3, st2: df in (17, 18) and tc == 29 and st2 in (0, 1))
reg("position_with_ref %s 52/1 4/1", A + "position_with_ref", tcin((5, 18), (20, 22)), args=(52.0, 4.0))
reg("airborne_position_with_ref %s 52/1 4/1", A + "airborne_position_with_ref", any_, args=(52.0, 4.0))
reg("surface_position_with_ref %s 52/1 4/1", A + "surface_position_with_ref", any_, args=(52.0, 4.0))
C = "pyModeS.commb."
for n in ["is10", "ovc10", "is17", "is20", "cs20", "is30", "is40", "selalt40fms", "selalt40mcp", "p40baro", "is50", "roll50",
          "trk50", "gs50", "rtrk50", "tas50", "is60", "hdg60", "ias60", "mach60", "vr60baro", "vr60ins", "is44", "wind44", "temp44",
          "p44", "hum44", "turb44", "is45", "turb45", "ws45", "mb45", "ic45", "wv45", "temp45", "p45", "rh45"]:
    reg(n, C + n, any_)
reg("cap17", C + "cap17", any_)
reg(None, C + "alt40mcp", any_)
reg(None, C + "alt40fms", any_)
B = "pyModeS.decoder.bds.bds53."
for n in ["is53", "hdg53", "ias53", "mach53", "tas53", "vr53"]:
    reg(n, B + n, any_)
S = "pyModeS.surv."
reg("surv.fs", S + "fs", dfin(4, 5), False)
reg("surv.dr", S + "dr", dfin(4, 5), False)
reg("surv.um", S + "um", dfin(4, 5), False)
reg("surv.altitude", S + "altitude", dfin(4), False)
reg("surv.identity", S + "identity", dfin(5), False)
L = "pyModeS.allcall."
reg(None, L + "icao", dfin(11), False)
reg("interrogator", L + "interrogator", dfin(11), False)
reg("capability", L + "capability", dfin(11), False)
K = "pyModeS.common."
reg("df", K + "df", any_, False)
reg("icao", K + "icao", any_, False)
reg("typecode", K + "typecode", any_, False)
reg("idcode", K + "idcode", dfin(5, 21), False)
reg("altcode", K + "altcode", dfin(0, 4, 16, 20), False)
reg("allzeros", K + "allzeros", any_)
reg(None, K + "data", any_, False)
reg(None, K + "crc", any_, False)
for n in ("fs", "dr", "um", "hex2bin", "hex2int", "is_icao_assigned"):
    reg(None, K + n, any_, False)
reg("infer0", "pyModeS.bds.infer", any_)
reg("infer1", "pyModeS.bds.infer", any_, args=(True,))
reg("tell", "h:props.C14.tell_quiet", any_, False)


def tell_quiet(msg):
    import pyModeS
    with contextlib.redirect_stdout(io.StringIO()):
        pyModeS.tell(msg)
    return 0


def klass(path, args, msg):
    """outcome class of the real call"""
    import run
    fn = run.resolve(path)
    try:
        fn(msg, *args)
        return "val"
    except RuntimeError:
        return "RE"
    except Exception:  # noqa
        return "EXC"


def model_class(line):
    return line if line in ("RE", "EXC") else "val"


def pred_class(real_out, inside, n, long_only, path):
    if real_out == "EXC":
        return False, "val or RE (no other exception type)"
    if n == 112 or not long_only:
        exp = "val" if inside else "RE"
        return real_out == exp, exp
    # long-frame decoder on a 56-bit frame: value or RuntimeError are both acceptable
    return True, "val or RE"


def k_short(rec):
    """K1: 14-hex-digit frame handed to a decoder that reads beyond bit 56"""
    i = rec.get("info") or {}
    return i.get("n") == 56 and rec["got"] == "EXC" and (i.get("long_only") or (i.get("fn", "").endswith("tell_quiet") and i.get("df", 0) >= 16))


def k_st29(rec):
    """K5: TC29 decoders accept the reserved subtypes 2 and 3"""
    i = rec.get("info") or {}
    return i.get("tc") == 29 and i.get("st2") in (2, 3) and rec["got"] == "val" and i.get("df") in (17, 18)


def k_tell(rec):
    return False


KNOWN = {"C14-short-frame": k_short, "C14-tc29-reserved-subtype": k_st29}
MODEL_POST = model_class


def klass_pair(m0, m1, ref):
    import pyModeS
    try:
        if ref:
            pyModeS.adsb.position(m0, m1, 1, 2, 52.0, 4.0)
        else:
            pyModeS.adsb.position(m0, m1, 1, 2)
        return "val"
    except RuntimeError:
        return "RE"
    except Exception:  # noqa
        return "EXC"


def cases(ctx):
    rng = ctx.rng
    # position() routes a pair exactly by the two type codes
    for tc0 in range(32):
        for tc1 in range(32):
            for ref in (False, True):
                f0 = spec.adsb_frame(rng, tc0, [(21, 1, 0)], df=rng.choice([17, 18]))
                f1 = spec.adsb_frame(rng, tc1, [(21, 1, 1)], df=rng.choice([17, 18]))
                m0, m1 = hex_of(f0), hex_of(f1)
                surf = 5 <= tc0 <= 8 and 5 <= tc1 <= 8
                air = (9 <= tc0 <= 18 and 9 <= tc1 <= 18) or (20 <= tc0 <= 22 and 20 <= tc1 <= 22)
                inside = air or (surf and ref)
                yield dict(op=("position %s %s 1 2 52/1 4/1" if ref else "position %s %s 1 2") % (m0, m1), real=("h:props.C14.klass_pair", [m0, m1, ref]),
                           pred=["pred_class", inside, 112, True, "position"], tag="pair-in" if inside else "pair-out", trivial=not inside,
                           info=dict(df=17, tc=tc0, st2=None, n=112, long_only=True, fn="position"))
    # a pair in which one (or both) of the frames is not DF17/18 has no type code: must be rejected with RuntimeError
    for df0 in range(32):
        for df1 in (17, 18, 20, 0, 11, 31):
            for ref in (False, True):
                if df0 in (17, 18) and df1 in (17, 18):
                    continue
                mk = lambda df, i: (spec.adsb_frame(rng, 11, [(21, 1, i)], df=df) if df in (17, 18)  # noqa
                                    else spec.df_frame(rng, df, 112, [(37, 5, 11)]))
                m0, m1 = hex_of(mk(df0, 0)), hex_of(mk(df1, 1))
                if rng.random() < 0.5:
                    m0, m1 = m1, m0
                yield dict(op=("position %s %s 1 2 52/1 4/1" if ref else "position %s %s 1 2") % (m0, m1), real=("h:props.C14.klass_pair", [m0, m1, ref]),
                           pred=["pred_class", False, 112, True, "position"], tag="pair-nondf17", trivial=True,
                           info=dict(df=df0, tc=11, st2=None, n=112, long_only=True, fn="position"))
    # boundary payloads: every movement code / every character code through the total-function checks
    for mov in range(128):
        m = hex_of(spec.adsb_frame(rng, rng.randrange(5, 9), [(5, 7, mov)], df=17))
        for name in ("pyModeS.adsb.surface_velocity", "pyModeS.adsb.velocity", "pyModeS.adsb.speed_heading", "h:props.C14.tell_quiet"):
            op, path, args, doc, long_only = F[name]
            yield dict(op=(op + " " + m) if op else None, real=("h:props.C14.klass", [path, args, m]), pred=["pred_class", True, 112, long_only, path],
                       tag="boundary-mov", info=dict(df=17, tc=5, st2=None, n=112, long_only=long_only, fn=path))
    for code in range(64):
        for pos in range(8):
            m = hex_of(spec.adsb_frame(rng, rng.randrange(1, 5), [(8 + 6 * pos, 6, code)], df=17))
            for name in ("pyModeS.adsb.callsign", "h:props.C14.tell_quiet"):
                op, path, args, doc, long_only = F[name]
                yield dict(op=(op + " " + m) if op else None, real=("h:props.C14.klass", [path, args, m]), pred=["pred_class", True, 112, long_only, path],
                           tag="boundary-char", info=dict(df=17, tc=1, st2=None, n=112, long_only=long_only, fn=path))
            mb = hex_of(spec.commb_frame(rng, 20, [(0, 8, 0x20), (8 + 6 * pos, 6, code)]))
            for name in ("pyModeS.commb.cs20", "pyModeS.commb.is20"):
                op, path, args, doc, long_only = F[name]
                yield dict(op=op + " " + mb, real=("h:props.C14.klass", [path, args, mb]), pred=["pred_class", True, 112, long_only, path],
                           tag="boundary-char", info=dict(df=20, tc=0, st2=None, n=112, long_only=long_only, fn=path))
    for code in range(256):
        f = spec.df_frame(rng, 11, 56, [], overlay_addr=code)
        m = hex_of(f)
        for name in ("pyModeS.allcall.interrogator", "pyModeS.allcall.capability", "h:props.C14.tell_quiet"):
            op, path, args, doc, long_only = F[name]
            yield dict(op=(op + " " + m) if op else None, real=("h:props.C14.klass", [path, args, m]), pred=["pred_class", True, 56, long_only, path],
                       tag="boundary-ic", info=dict(df=11, tc=0, st2=None, n=56, long_only=long_only, fn=path))
    # Comm-B registers with every subset of their status bits cleared (value zero where the status is off), under DF20 and
    # DF21: the pretty-printer and the inference receive `None` from each getter in turn
    LAYOUT = {
        "A000029C85E42F313000007047D3": [(1, 2, 13), (14, 15, 26), (27, 28, 39), (48, 49, 51), (54, 55, 56)],          # BDS 4,0
        "A000139381951536E024D4CCF6B5": [(1, 2, 11), (12, 13, 23), (24, 25, 34), (35, 36, 45), (46, 47, 56)],          # BDS 5,0
        "A00004128F39F91A7E27C46ADC21": [(1, 2, 12), (13, 14, 23), (24, 25, 34), (35, 36, 45), (46, 47, 56)],          # BDS 6,0
        "A0001692185BD5CF400000DFC696": [(5, 6, 23), (35, 36, 46), (47, 48, 49), (50, 51, 56)],                        # BDS 4,4
    }
    for base, groups in LAYOUT.items():
        bits0 = spec.bits_of(int(base, 16), 112)
        for mask in range(1 << len(groups)):
            for df in (20, 21):
                f = list(bits0)
                spec.put(f, 0, 5, df)
                for gi, (sb, msb, lsb) in enumerate(groups):
                    if not (mask >> gi) & 1:
                        for k in range(sb, lsb + 1):
                            f[32 + k - 1] = 0
                m = hex_of(f, rng.choice(["upper", "lower"]))
                for name in ("h:props.C14.tell_quiet", "pyModeS.bds.infer"):
                    op, path, args, doc, long_only = F[name]
                    yield dict(op=((op % m) if "%s" in op else op + " " + m) if op else None, real=("h:props.C14.klass", [path, args, m]),
                               pred=["pred_class", True, 112, long_only, path], tag="status-subsets",
                               info=dict(df=df, tc=0, st2=None, n=112, long_only=long_only, fn=path))
    styles = ["zero", "one", "rand", "rand"] if not ctx.thorough else ["zero", "one"] + ["rand"] * 6
    for df in range(32):
        tcs = range(32) if df in (17, 18) else [rng.randrange(32), rng.randrange(32)]
        for tc in tcs:
            sts = range(8) if (df in (17, 18) and tc in (19, 28, 29)) else [rng.randrange(8)]
            for st3 in sts:
                for style in styles:
                    for n in (112, 56):
                        f = spec.background(rng, n, style)
                        spec.put(f, 0, 5, df)
                        spec.put(f, 32, 5, tc)
                        spec.put(f, 37, 3, st3)
                        f = f[:n]
                        st3r = spec.val_of(f[37:40]) if n > 40 else None
                        st2 = spec.val_of(f[37:39]) if n > 40 else None
                        m = hex_of(f, rng.choice(["upper", "lower"]))
                        names = list(F) if (style != "rand" or ctx.thorough) else rng.sample(list(F), 24)
                        for name in names:
                            op, path, args, doc, long_only = F[name]
                            inside = doc(df, tc, st3r, st2)
                            line = None
                            if op is not None:
                                line = (op % m) if "%s" in op else op + " " + m
                            yield dict(op=line, real=("h:props.C14.klass", [path, args, m]),
                                       pred=["pred_class", inside, n, long_only, path],
                                       tag=("in" if inside else "out") + ("-short" if n == 56 else ""), trivial=not inside,
                                       info=dict(df=df, tc=tc, st2=st2, n=n, long_only=long_only, fn=path))
