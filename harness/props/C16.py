"""C16 — stream framing is independent of how the byte stream is chunked."""
import contextlib
import io

import spec

OBLIGATION_MODULES = ["PyModeS.Properties.C16"]
TIE_MODULES = ['PyModeS.Tie.Source', 'PyModeS.Tie.RawReader', 'PyModeS.Tie.SkyReader', 'PyModeS.Tie.BeastReader', 'PyModeS.Tie.C16Gen', 'PyModeS.Tie.MiscFields']
MAIN_THEOREM = "PyModeS.C16.beast_chunk_invariant / raw_chunk_invariant / skysense_chunk_invariant / netsource_conservation"
RULE = ("streams of 1-8 frames (0x1A forced into timestamp / signal / payload, other Beast types interleaved) x every single cut, "
        "double cuts, random multi-cuts down to 1-byte pieces; non-trivial = segmentation with at least one cut inside a frame")


# ------------------------------------------------------------------ spec side: serialisers and "frames completely received"

def rand_msg(rng, long=None, force_1a=False):
    long = rng.random() < 0.6 if long is None else long
    df = rng.choice([17, 18, 20, 21, 16, 19, 24]) if long else rng.choice([0, 4, 5, 11])
    n = 112 if long else 56
    b = spec.background(rng, n, "rand")
    spec.put(b, 0, 5, df)
    by = [spec.val_of(b[i:i + 8]) for i in range(0, n, 8)]
    if force_1a:
        for _ in range(rng.randrange(1, 4)):
            by[rng.randrange(1, len(by))] = 0x1A
    return by


def beast_frame(rng, payload, force_1a=False):
    ts = [rng.randrange(256) for _ in range(6)]
    sig = rng.randrange(256)
    if force_1a:
        if rng.random() < 0.5:
            ts[rng.randrange(6)] = 0x1A
        if rng.random() < 0.3:
            sig = 0x1A
    typ = 0x33 if len(payload) == 14 else 0x32
    body = [typ] + ts + [sig] + payload
    out = [0x1A]
    for i, b in enumerate(body):
        out.append(b)
        if b == 0x1A:
            out.append(0x1A)
    return out


def beast_other(rng):
    """Mode-AC ('1') or status ('4') frames: must be skipped"""
    typ = rng.choice([0x31, 0x34])
    n = 2 if typ == 0x31 else rng.randrange(1, 4)
    body = [typ] + [rng.randrange(256) for _ in range(7 + n)]
    body = [b if b != 0x1A else 0x1B for b in body]
    return [0x1A] + body


def hexs(by):
    return "".join("%02X" % b for b in by)


def stream_beast(rng, k):
    frames, raw = [], []
    for _ in range(k):
        if rng.random() < 0.15:
            raw += beast_other(rng)
            continue
        p = rand_msg(rng, force_1a=rng.random() < 0.5)
        raw += beast_frame(rng, p, force_1a=rng.random() < 0.5)
        frames.append(hexs(p))
    return raw, frames


def stream_raw(rng, k):
    frames, raw = [], []
    for _ in range(k):
        p = hexs(rand_msg(rng))
        s = p if rng.random() < 0.5 else p.lower()
        raw += [ord(c) for c in "*" + s + ";"]
        if rng.random() < 0.6:
            raw += [10]
        frames.append(s)
    return raw, frames


def stream_sky(rng, k):
    frames, raw = [], []
    for _ in range(k):
        long = rng.random() < 0.6
        p = rand_msg(rng, long=long)
        # payload byte 0 top bit decides long/short in the decoder: DF>=16 <=> top bit set
        if rng.random() < 0.5:
            p[rng.randrange(1, len(p))] = 0x24
        body = p + [0] * (14 - len(p))
        ts = [rng.randrange(256) for _ in range(6)]
        rs = [rng.randrange(256) for _ in range(3)]
        if rng.random() < 0.3:
            ts[rng.randrange(6)] = 0x24
        raw += [0x24] + body + ts + rs
        frames.append(hexs(p))
    return raw, frames


def complete_frames(fmt, raw, frames, upto):
    """frames completely received within raw[:upto] (Beast/Skysense: followed by the next frame start)"""
    # recompute boundaries by re-serialising: positions of frame starts are recorded by the caller
    raise NotImplementedError


# ------------------------------------------------------------------ real side

_TC = None


def client(fmt):
    global _TC
    if _TC is None:
        with contextlib.redirect_stdout(io.StringIO()):
            from pyModeS.extra import tcpclient
        _TC = tcpclient
    c = object.__new__(_TC.TcpClient)
    c.buffer = []
    c.datatype = fmt
    return c


class _EndOfStream(BaseException):
    """raised by the fake socket when the pieces are used up (not an Exception: run() re-raises it untouched)"""


def feed_through_run(fmt, raw, cuts):
    """the pieces arrive through TcpClient.run() itself: a fake socket hands them to recv() one by one and the messages
    are collected where run() delivers them (handle_messages), so anything run() does to the bytes between recv() and
    the reader is part of what is observed"""
    c = client(fmt)
    pieces, pos = [], 0
    for cut in list(cuts) + [len(raw)]:
        if cut <= pos and cut != len(raw):
            continue
        pieces.append(bytes(raw[pos:cut]))
        pos = cut
    pieces = [p for p in pieces if p]

    class Sock:
        def __init__(self):
            self.i = 0

        def recv(self, n):
            if self.i >= len(pieces):
                raise _EndOfStream()
            self.i += 1
            return pieces[self.i - 1]

    out = []
    c.socket = Sock()
    c.connect = lambda: None
    c.handle_messages = lambda ms: out.extend(m[0] for m in ms)
    try:
        c.run()
    except _EndOfStream:
        pass
    return ",".join(out) if out else "-"


def feed(fmt, raw, cuts):
    """feed raw in pieces; -> list of messages handed to handle_messages, in order"""
    if fmt in ("beast", "raw", "skysense") and max((b - a for a, b in zip([0] + list(cuts), list(cuts) + [len(raw)])), default=0) <= 4096:
        return feed_through_run(fmt, raw, cuts)
    c = client(fmt)
    out = []
    pos = 0
    for cut in list(cuts) + [len(raw)]:
        if cut <= pos and cut != len(raw):
            continue
        c.buffer.extend(raw[pos:cut])
        pos = cut
        if fmt == "beast":
            ms = c.read_beast_buffer()
        elif fmt == "beast_rssi":
            ms = c.read_beast_buffer_rssi_piaware()
        elif fmt == "raw":
            ms = c.read_raw_buffer()
        else:
            ms = c.read_skysense_buffer()
        if ms:
            out += [m[0] for m in ms]
    return ",".join(out) if out else "-"


def run_feed(fmt, rawhex, cuts):
    raw = list(bytes.fromhex(rawhex))
    return feed(fmt, raw, cuts)


def run_feed_rssi(rawhex, cuts):
    """read_beast_buffer_rssi_piaware: same framing, messages are [msg, rssi, ts]; frames whose signal byte is 0 make
    log10 fail, so such streams are fed to it only for the framing (ZeroDivision/ValueError counts as 'n/a')"""
    raw = list(bytes.fromhex(rawhex))
    try:
        return feed("beast_rssi", raw, cuts)
    except (ValueError, ZeroDivisionError):
        return feed("beast", raw, cuts)


def expected(fmt, frames, terminated):
    """the frames completely received: Beast/Skysense need the next frame start, so the last one is pending"""
    fr = frames if terminated else frames[:-1]
    if fmt == "beast":
        fr = [f for f in fr]
    return ",".join(fr) if fr else "-"


class _Pipe:
    def __init__(self):
        self.sent = []

    def send(self, d):
        self.sent.append(d)


class _Flag:
    value = False


def ns_run(calls, cls="NetSource"):
    """calls: list of lists of msgs -> per call 'S:adsb/commb' or 'N', then pending buffers"""
    with contextlib.redirect_stdout(io.StringIO()):
        from pyModeS.streamer import source
    ns = object.__new__(getattr(source, cls))
    ns.stop_flag = _Flag()
    ns.raw_pipe_in = _Pipe()
    ns.reset_local_buffer()
    j = lambda l: ",".join(l) if l else "-"  # noqa
    outs = []
    t = 0.0
    for c in calls:
        n0 = len(ns.raw_pipe_in.sent)
        ns.handle_messages([[m, (t := t + 1.0)] for m in c])
        if len(ns.raw_pipe_in.sent) > n0:
            d = ns.raw_pipe_in.sent[-1]
            ok = len(d["adsb_ts"]) == len(d["adsb_msg"]) and len(d["commb_ts"]) == len(d["commb_msg"])
            outs.append("S:%s/%s" % (j(d["adsb_msg"]), j(d["commb_msg"])) + ("" if ok else "!ts"))
        else:
            outs.append("N")
    return ";".join(outs) + "|P:%s/%s" % (j(ns.local_buffer_adsb_msg), j(ns.local_buffer_commb_msg))


def ns_expected(calls):
    """conservation: forwarded ++ pending = the long DF17/18 (resp. DF20/21) messages, in order, each once;
    a batch is sent exactly when at least two ADS-B messages wait after a call"""
    adsb, commb, outs = [], [], []
    j = lambda l: ",".join(l) if l else "-"  # noqa
    for c in calls:
        for m in c:
            if len(m) < 28:
                continue
            df = min(int(m[:2], 16) >> 3, 24)
            if df in (17, 18):
                adsb.append(m)
            elif df in (20, 21):
                commb.append(m)
        if len(adsb) > 1:
            outs.append("S:%s/%s" % (j(adsb), j(commb)))
            adsb, commb = [], []
        else:
            outs.append("N")
    return ";".join(outs) + "|P:%s/%s" % (j(adsb), j(commb))


def MODEL_POST(m):
    # one empty message ('*;' alone) is the empty line on the model side and the canonical '' on the real side
    return "''" if m == "" else m


def odd_streams(rng, ctx):
    """inputs outside the property's premises (a DF that contradicts the frame length, line noise between and inside AVR
    frames, streams that end exactly at a frame boundary, junk before the first start byte): no documented expectation, the
    proved model and the code must still agree on them"""
    for k in range(ctx.n(320, 3200)):
        raw = []
        for _f in range(rng.randrange(2, 7)):
            long = rng.random() < 0.5
            p = rand_msg(rng, long=long)
            p[0] = (((k + _f) % 32) << 3) | rng.randrange(8)         # every DF with either length
            raw += beast_frame(rng, p, force_1a=rng.random() < 0.3)
        if rng.random() < 0.7:
            raw += [0x1A, 0x33]
        yield "beast-df", raw
    noise = [13, 10, 32, 47, 58, 64, 71, 96, 103, 42, 59, 0, 255]
    for _ in range(ctx.n(40, 400)):
        raw = []
        for _f in range(rng.randrange(1, 6)):
            raw += [rng.choice(noise) for _ in range(rng.randrange(0, 3))]
            body = [ord(c) for c in hexs(rand_msg(rng))]
            if rng.random() < 0.4:
                body.insert(rng.randrange(len(body) + 1), rng.choice(noise))
            if rng.random() < 0.15:
                body = body[:rng.randrange(0, 3)]                   # '*;' and one-character frames
            raw += [42] + body + [59]
        yield "raw", raw
    for _ in range(ctx.n(40, 400)):
        raw, _frames = stream_sky(rng, rng.randrange(1, 5))
        if rng.random() < 0.5:
            raw = [rng.randrange(256) for _ in range(rng.randrange(1, 30))] + raw
        tail = rng.choice([0, 0, 1, 5, 23, 24])
        raw += [0x24] * min(tail, 1) + [rng.randrange(256) for _ in range(max(tail - 1, 0))]
        yield "skysense", raw


def _cases(ctx):
    rng = ctx.rng
    for fmt, raw in odd_streams(rng, ctx):
        n = len(raw)
        rawhex = bytes(raw).hex()
        if fmt == "beast-df":
            # the DF / length filter of both Beast readers (the RSSI variant shares it); chunking is not the point here
            fmt = "beast"
            cuts = sorted(rng.sample(range(1, n), 2)) if rng.random() < 0.5 else []
            yield dict(op="feed_beast %s %s" % (rawhex, ",".join(map(str, cuts)) if cuts else "-"),
                       real=("h:props.C16.run_feed", ["beast", rawhex, cuts]), tag="beast-odd-df", trivial=True, info=dict(fmt="beast", ncuts=len(cuts)))
            yield dict(op="feed_beast %s %s" % (rawhex, ",".join(map(str, cuts)) if cuts else "-"),
                       real=("h:props.C16.run_feed_rssi", [rawhex, cuts]), tag="beast-rssi-odd-df", trivial=True, info=dict(fmt="beast_rssi", ncuts=len(cuts)))
            continue
        seglist = [[]] + [[c] for c in range(1, n, 1 if ctx.thorough else 3)] + [list(range(1, n))]
        for _ in range(3):
            if n > 4:
                seglist.append(sorted(rng.sample(range(1, n), min(rng.randrange(2, 8), n - 1))))
        for cuts in seglist:
            yield dict(op="%s %s %s" % ("feed_" + fmt, rawhex, ",".join(map(str, cuts)) if cuts else "-"),
                       real=("h:props.C16.run_feed", [fmt, rawhex, cuts]), tag=fmt + "-odd", trivial=True, info=dict(fmt=fmt, ncuts=len(cuts)))
    for _ in range(ctx.n(100, 1000)):
        # NetSource / RtlSdrSource with messages of unusual lengths
        calls = [[hexs(rand_msg(rng, long=rng.random() < 0.8))[:rng.choice([28, 28, 27, 26, 14, 13, 2, 1])] + rng.choice(["", "", "0", "8D"])
                  for _m in range(rng.randrange(0, 5))] for _c in range(rng.randrange(1, 5))]
        calls = [[m for m in c if m] for c in calls]
        op = "ns " + ";".join(",".join(c) if c else "-" for c in calls)
        yield dict(op=op, real=("h:props.C16.ns_run", [calls]), tag="netsource-odd", trivial=True)
        yield dict(op=op, real=("h:props.C16.ns_run", [calls, "RtlSdrSource"]), tag="rtlsdrsource-odd", trivial=True)
    for _ in range(ctx.n(300, 5000)):
        calls = []
        for _c in range(rng.randrange(1, 7)):
            c = []
            for _m in range(rng.randrange(0, 5)):
                h = hexs(rand_msg(rng, long=rng.random() < 0.8))
                c.append(h if rng.random() < 0.6 else (h.lower() if rng.random() < 0.7 else spec.mixcase(rng, h)))
            calls.append(c)
        op = "ns " + ";".join(",".join(c) if c else "-" for c in calls)
        yield dict(op=op, real=("h:props.C16.ns_run", [calls]), expect=ns_expected(calls), tag="netsource",
                   trivial=not any(calls))
        if rng.random() < 0.3:
            yield dict(op=op, real=("h:props.C16.ns_run", [calls, "RtlSdrSource"]), expect=ns_expected(calls), tag="rtlsdrsource",
                       trivial=not any(calls))
    for fmt, gen in (("beast", stream_beast), ("raw", stream_raw), ("skysense", stream_sky)):
        for _ in range(ctx.n(25, 150)):
            k = rng.randrange(1, 9 if not ctx.thorough else 9)
            raw, frames = gen(rng, k)
            if fmt == "beast":
                # terminate with the start of a further frame so that every listed frame is complete
                raw = raw + [0x1A, 0x33]
                exp = expected(fmt, frames, True)
            elif fmt == "skysense":
                raw = raw + [0x24]
                exp = expected(fmt, frames, True)
                # decoder needs len > 24 after the last complete frame: one extra start byte suffices
            else:
                exp = expected(fmt, frames, True)
            rawhex = bytes(raw).hex()
            n = len(raw)
            seglist = [[]]
            seglist += [[c] for c in range(1, n)]
            for _ in range(ctx.n(30, 300)):
                a, b = sorted(rng.sample(range(1, n), 2)) if n > 2 else (1, 1)
                seglist.append([a, b])
            for _ in range(ctx.n(10, 100)):
                m = rng.randrange(3, min(n - 1, 40) + 1) if n > 4 else 1
                seglist.append(sorted(rng.sample(range(1, n), min(m, n - 1))))
            seglist.append(list(range(1, n)))
            for cuts in seglist:
                if fmt == "beast" and len(cuts) <= 1 and rng.random() < 0.2:
                    # the RSSI variant of the Beast reader shares the framing loop (signal byte forced non-zero for log10)
                    raw2 = list(raw)
                    yield dict(op=None, real=("h:props.C16.run_feed_rssi", [rawhex, cuts]), expect=exp, tag="beast-rssi", trivial=not cuts,
                               info=dict(fmt="beast_rssi", ncuts=len(cuts)))
                yield dict(op="%s %s %s" % ("feed_" + fmt, rawhex, ",".join(map(str, cuts)) if cuts else "-"),
                           real=("h:props.C16.run_feed", [fmt, rawhex, cuts]), expect=exp,
                           tag=fmt + ("-whole" if not cuts else "-1cut" if len(cuts) == 1 else "-2cut" if len(cuts) == 2 else "-multi"),
                           trivial=not cuts, info=dict(fmt=fmt, ncuts=len(cuts)))


GEN_READER = {"beast": "tcpclient.TcpClient_read_beast_buffer", "raw": "tcpclient.TcpClient_read_raw_buffer",
              "skysense": "tcpclient.TcpClient_read_skysense_buffer"}


def cases(ctx):
    """the stream of _cases, with the operation of the source-generated model (gendriver) attached where the reader /
    source method is translated: the generated definition is fed the same pieces as the real object"""
    for c in _cases(ctx):
        real = c["real"]
        if real[0] == "h:props.C16.run_feed" and real[1][0] in GEN_READER:
            fmt, rawhex, cuts = real[1][0], real[1][1], real[1][2]
            c["gop"] = "!feed %s %s %s %s" % (GEN_READER[fmt], fmt, rawhex or "-", ",".join(map(str, cuts)) if cuts else "-")
        elif real[0] == "h:props.C16.ns_run" and len(real[1]) == 1 and c.get("op", "") and c["op"].startswith("ns "):
            c["gop"] = "!ns source.NetSource_handle_messages " + c["op"][3:]
        yield c
