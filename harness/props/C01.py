"""C01 — Mode S CRC-24: exact remainder, parity closure, error detection."""
import itertools

import spec
from spec import hex_of, bits_of, val_of

OBLIGATION_MODULES = ["PyModeS.Properties.C01"]
TIE_MODULES = ['PyModeS.Tie.Crc', 'PyModeS.Tie.C01Gen']
MAIN_THEOREM = "PyModeS.C01.crc_eq_remainder / parity_closure / burst_detected / weight_le5_detected"
RULE = ("all 1-bit and 2-bit frames (every byte/bit alignment, both lengths), random frames x encode on/off x hex case, "
        "crc_legacy sample; valid frames corrupted by every burst offset x fills and random weight<=5 patterns; "
        "non-trivial = non-zero frame")


def spec_crc(f, encode):
    n = len(f)
    v = val_of(f)
    if encode:
        v &= ~0xFFFFFF
    return spec.polymod(v, n)


def cases(ctx):
    rng = ctx.rng
    C = "pyModeS.common.crc"

    def one(f, encode, tag, legacy=False):
        m = hex_of(f, rng.choice(["upper", "lower"]))
        e = str(spec_crc(f, encode))
        yield dict(op="crc %s %d" % (m, encode), real=(C, [m, bool(encode)]), expect=e, tag=tag, trivial=not any(f))
        if legacy:
            yield dict(op="crc_legacy %s %d" % (m, encode), real=("pyModeS.py_common.crc_legacy", [m, bool(encode)]), expect=e, tag=tag + "-legacy")

    for n in (56, 112):
        for i in range(n):
            f = [0] * n
            f[i] = 1
            yield from one(f, 0, "1bit", legacy=True)
            yield from one(f, 1, "1bit-enc")
        for i, j in itertools.combinations(range(n), 2):
            f = [0] * n
            f[i] = f[j] = 1
            yield from one(f, 0, "2bit", legacy=(i % 16 == 0 and j % 5 == 0))
    for k in range(ctx.n(15000, 150000)):
        n = rng.choice([56, 112])
        f = spec.background(rng, n, "rand")
        yield from one(f, k % 2, "random", legacy=(k % 10 == 0))
    for k in range(ctx.n(300, 5000)):
        n = rng.choice([56, 112])
        f = spec.background(rng, n, "rand")
        m = hex_of(f)
        order = [1, 0, 0, 1] if k % 2 else [0, 1, 1, 0]
        for enc in order:
            yield dict(op="crc %s %d" % (m, enc), real=(C, [m, bool(enc)]), expect=str(spec_crc(f, enc)), tag="sequence")
    for _ in range(ctx.n(2000, 20000)):
        f = spec.background(rng, rng.choice([24, 32, 56, 112, 120]), "rand")
        yield dict(op="spec.remH " + hex_of(f), real=("h:props.C01.oracle_rem", [hex_of(f)]), tag="spec-tie", trivial=True)
    yield from one([0] * 56, 0, "zero")
    yield from one([1] * 112, 0, "ones")
    # --- the property itself on the real code: parity closure and error detection
    for k in range(ctx.n(300, 600)):
        n = rng.choice([56, 112])
        d = spec.background(rng, n - 24, "rand")
        junk = rng.getrandbits(24)
        m_any = hex_of(d + bits_of(junk, 24))
        p = spec.parity_of_data(d)
        yield dict(op="crc %s 1" % m_any, real=(C, [m_any, True]), expect=str(p), tag="encode-ignores-parity")
        valid = d + bits_of(p, 24)
        mv = hex_of(valid)
        yield dict(op="crc %s 0" % mv, real=(C, [mv]), expect="0", tag="closure")
        # bursts: every offset for this frame, one random fill each (first and last bit of the burst set)
        for ln in ([1, 2, 3, 8, 16, 23, 24] if not ctx.thorough else range(1, 25)):
            for off in range(0, n - ln + 1, 1 if (k < 40 or ctx.thorough) else 7):
                e = [0] * n
                fill = spec.rand_bits(rng, ln)
                fill[0] = fill[-1] = 1
                e[off:off + ln] = fill
                bad = hex_of([a ^ b for a, b in zip(valid, e)])
                yield dict(op="crc %s 0" % bad, real=(C, [bad]), pred=["pred_nonzero"], tag="burst")
        for _ in range(40):
            w = rng.randrange(1, 6)
            pos = rng.sample(range(n), w)
            bad = list(valid)
            for q in pos:
                bad[q] ^= 1
            bad = hex_of(bad)
            yield dict(op="crc %s 0" % bad, real=(C, [bad]), pred=["pred_nonzero"], tag="weight%d" % w)
    # the demodulator's acceptance test for DF17: valid frames pass, every single-bit corruption of the parity field
    # and random data-bit corruptions are refused
    for k in range(ctx.n(120, 600)):
        d = spec.background(rng, 88, "rand")
        spec.put(d, 0, 5, 17)
        p = spec.parity_of_data(d)
        if k % 3 == 0:
            # parity fields with leading zero nibbles (format-width slips)
            for _ in range(200):
                d2 = spec.background(rng, 88, "rand")
                spec.put(d2, 0, 5, 17)
                p2 = spec.parity_of_data(d2)
                if p2 < (1 << (20 - 4 * (k % 2))):
                    d, p = d2, p2
                    break
        good = hex_of(d + bits_of(p, 24))
        yield dict(op=None, real=("h:props.C01.check_msg", [good]), expect="True", tag="check_msg-good")
        for bit in range(24):
            bad = hex_of(d + bits_of(p ^ (1 << bit), 24))
            yield dict(op=None, real=("h:props.C01.check_msg", [bad]), expect="False", tag="check_msg-parity-flip")
        for _ in range(4):
            dd = list(d)
            for q in rng.sample(range(5, 88), rng.randrange(1, 5)):
                dd[q] ^= 1
            yield dict(op=None, real=("h:props.C01.check_msg", [hex_of(dd + bits_of(p, 24))]), expect="False", tag="check_msg-data-flip")


def oracle_rem(m):
    """remainder of the frame polynomial modulo the generator, by integer polynomial division (harness oracle)"""
    return spec.polymod(int(m, 16), len(m) * 4)


def pred_nonzero(real_out):
    return real_out not in ("0", "RE", "EXC"), "non-zero checksum"


_R = None


def check_msg(m):
    global _R
    if _R is None:
        import contextlib
        import io
        with contextlib.redirect_stdout(io.StringIO()):
            from pyModeS.extra import rtlreader
        _R = object.__new__(rtlreader.RtlReader)
    return _R._check_msg(m)
