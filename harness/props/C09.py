"""C09 — ADS-B velocity: airborne (TC19) and surface movement (TC5-8)."""
import math
from fractions import Fraction

import spec
from spec import hex_of

OBLIGATION_MODULES = ["PyModeS.Properties.C09"]
TIE_MODULES = ['PyModeS.Tie.Bds08', 'PyModeS.Tie.Bds05b', 'PyModeS.Tie.Adsb', 'PyModeS.Tie.C09Gen', 'PyModeS.Tie.Bds09']
MAIN_THEOREM = "PyModeS.C09.airborne_velocity_spec / surface_velocity_spec / altitude_diff_spec"
RULE = ("TC19: subtype x signs x boundary component values^2 x vertical-rate values, random rest; altitude_diff all 128 x sign; "
        "surface: all 128 movement codes x status x 128 track codes; non-trivial = value (not None / guard) expected")

BND = [0, 1, 2, 3, 511, 512, 1021, 1022, 1023]
VR = [0, 1, 2, 255, 256, 510, 511]


def fr(x):
    f = Fraction(x)
    return "%d/%d" % (f.numerator, f.denominator)


def vel_spec(st, s_ew, v_ew, s_ns, v_ns, vrsrc, s_vr, vr):
    """DO-260B 2.2.3.2.6: expected (spd, angle, vs, spdtype, dirtype, vrsource) or None"""
    vs = "None" if vr == 0 else str((-1 if s_vr else 1) * (vr - 1) * 64)
    src = "GNSS" if vrsrc == 0 else "BARO"
    if st in (1, 2):
        if v_ew == 0 or v_ns == 0:
            return "None"
        k = 4 if st == 2 else 1
        vx = (-1 if s_ew else 1) * (v_ew - 1) * k
        vy = (-1 if s_ns else 1) * (v_ns - 1) * k
        spd = math.isqrt(vx * vx + vy * vy)
        trk = math.degrees(math.atan2(vx, vy)) % 360.0
        return "|".join([str(spd), repr(trk), vs, "GS", "TRUE_NORTH", src])
    k = 4 if st == 4 else 1
    hdg = "None" if s_ew == 0 else fr(Fraction(v_ew * 360, 1024))
    spd = "None" if v_ns == 0 else str((v_ns - 1) * k)
    return "|".join([spd, hdg, vs, "TAS" if s_ns else "IAS", "MAGNETIC_NORTH", src])


def mov_spec(mov):
    """DO-260B Table 2-xx movement field -> ground speed (lower bound of the quantisation bin)"""
    if mov == 0 or mov > 124:
        return None
    if mov == 1:
        return Fraction(0)
    if mov <= 8:
        return Fraction(1, 8) + (mov - 2) * Fraction(1, 8)
    if mov <= 12:
        return 1 + (mov - 9) * Fraction(1, 4)
    if mov <= 38:
        return 2 + (mov - 13) * Fraction(1, 2)
    if mov <= 93:
        return Fraction(15 + (mov - 39))
    if mov <= 108:
        return Fraction(70 + (mov - 94) * 2)
    if mov <= 123:
        return Fraction(100 + (mov - 109) * 5)
    return Fraction(175)


def k_f4(rec):
    """F4 class: subtype 3/4 frame whose heading field or airspeed field is 0 -> whole result None"""
    i = rec.get("info") or {}
    return i.get("st") in (3, 4) and (i.get("v_ew") == 0 or i.get("v_ns") == 0) and rec["got"] == "None"


def k_k3(rec):
    i = rec.get("info") or {}
    return i.get("diff") == 127 and rec["got"] == "None"


KNOWN = {"C09-altdiff-127": k_k3}


def oracle_mov(mov):
    s = mov_spec(mov)
    return "None" if s is None else fr(s)


def cases(ctx):
    rng = ctx.rng
    P = "h:adapters.pick"
    for mov in range(128):
        yield dict(op="spec.mov %d" % mov, real=("h:props.C09.oracle_mov", [mov]), tag="spec-tie", trivial=True)

    def tc19(st, s_ew, v_ew, s_ns, v_ns, vrsrc, s_vr, vr, dsign=None, diff=None):
        f = [(5, 3, st), (13, 1, s_ew), (14, 10, v_ew), (24, 1, s_ns), (25, 10, v_ns), (35, 1, vrsrc), (36, 1, s_vr), (37, 9, vr)]
        if diff is not None:
            f += [(48, 1, dsign), (49, 7, diff)]
        return hex_of(spec.adsb_frame(rng, 19, f, df=rng.choice([17, 18])), rng.choice(["upper", "lower"]))

    def emit(st, s_ew, v_ew, s_ns, v_ns, vrsrc, s_vr, vr, tag):
        m = tc19(st, s_ew, v_ew, s_ns, v_ns, vrsrc, s_vr, vr)
        e = vel_spec(st, s_ew, v_ew, s_ns, v_ns, vrsrc, s_vr, vr)
        info = dict(st=st, v_ew=v_ew, v_ns=v_ns)
        yield dict(op="airborne_velocity " + m, real=("pyModeS.adsb.velocity", [m], {"source": True}), expect=e, tag=tag, info=info,
                   trivial=(e == "None"))
        e4 = e if e == "None" else "|".join(e.split("|")[:4])
        yield dict(op=None, real=("pyModeS.adsb.airborne_velocity", [m]), expect=e4, tag=tag + "-4", info=info, trivial=(e == "None"))
        e2 = e if e == "None" else "|".join(e.split("|")[:2])
        yield dict(op=None, real=("pyModeS.adsb.speed_heading", [m]), expect=e2, tag=tag + "-sh", info=info, trivial=(e == "None"))

    for st in (1, 2, 3, 4):
        for s_ew in (0, 1):
            for s_ns in (0, 1):
                for v_ew in BND:
                    for v_ns in BND:
                        vr = rng.choice(VR)
                        yield from emit(st, s_ew, v_ew, s_ns, v_ns, rng.randrange(2), rng.randrange(2), vr, "st%d-bnd" % st)
                for vr in VR:
                    for s_vr in (0, 1):
                        for vrsrc in (0, 1):
                            yield from emit(st, s_ew, rng.randrange(1, 1024), s_ns, rng.randrange(1, 1024), vrsrc, s_vr, vr, "st%d-vr" % st)
    for _ in range(ctx.n(8000, 100000)):
        st = rng.randrange(1, 5)
        yield from emit(st, rng.randrange(2), rng.randrange(1024), rng.randrange(2), rng.randrange(1024), rng.randrange(2),
                        rng.randrange(2), rng.randrange(512), "st%d-rand" % st)
    # one field at a time on a fixed background (same address, same other bits): consecutive calls on frames that differ
    # in a single field's low bits — a result cached under a key that leaves out part of the ME field shows up here
    import random as _random

    def emit_fixed(seed, st, s_ew, v_ew, s_ns, v_ns, vrsrc, s_vr, vr, tag):
        r = _random.Random(seed)
        f = [(5, 3, st), (13, 1, s_ew), (14, 10, v_ew), (24, 1, s_ns), (25, 10, v_ns), (35, 1, vrsrc), (36, 1, s_vr), (37, 9, vr)]
        m = hex_of(spec.adsb_frame(r, 19, f, df=17), "upper")
        e = vel_spec(st, s_ew, v_ew, s_ns, v_ns, vrsrc, s_vr, vr)
        info = dict(st=st, v_ew=v_ew, v_ns=v_ns)
        yield dict(op="airborne_velocity " + m, real=("pyModeS.adsb.velocity", [m], {"source": True}), expect=e, tag=tag, info=info,
                   trivial=(e == "None"))
        e4 = e if e == "None" else "|".join(e.split("|")[:4])
        yield dict(op=None, real=("pyModeS.adsb.velocity", [m]), expect=e4, tag=tag + "-4", info=info, trivial=(e == "None"))

    for k in range(ctx.n(40, 400)):
        seed = rng.getrandbits(32)
        st = rng.randrange(1, 5)
        base = dict(s_ew=rng.randrange(2), v_ew=rng.randrange(8, 1016), s_ns=rng.randrange(2), v_ns=rng.randrange(8, 1016),
                    vrsrc=rng.randrange(2), s_vr=rng.randrange(2), vr=rng.randrange(8, 504))
        for fld, width in (("vr", 9), ("v_ns", 10), ("v_ew", 10)):
            lo = base[fld] & ~7
            order = list(range(lo, lo + 8))
            rng.shuffle(order)
            for v in order + [base[fld] ^ (1 << (width - 1))]:
                yield from emit_fixed(seed, st, **dict(base, **{fld: v}), tag="sweep-" + fld)
        for fld in ("s_ew", "s_ns", "vrsrc", "s_vr"):
            for v in (0, 1, 0):
                yield from emit_fixed(seed, st, **dict(base, **{fld: v}), tag="sweep-" + fld)
    # reserved subtypes 0, 5, 6, 7: model correspondence only (the property pins subtypes 1-4)
    for st in (0, 5, 6, 7):
        for _ in range(20):
            m = tc19(st, rng.randrange(2), rng.randrange(1024), rng.randrange(2), rng.randrange(1024), 0, 0, rng.randrange(512))
            yield dict(op="airborne_velocity " + m, real=("pyModeS.adsb.velocity", [m], {"source": True}), tag="st-reserved", trivial=True)
    # GNSS-baro difference
    for diff in range(128):
        for dsign in (0, 1):
            for _ in range(ctx.n(3, 30)):
                m = tc19(rng.randrange(1, 5), 0, rng.randrange(1024), 0, rng.randrange(1024), 0, 0, rng.randrange(512), dsign, diff)
                e = "None" if diff == 0 else str((-1 if dsign else 1) * (diff - 1) * 25)
                yield dict(op="altitude_diff " + m, real=("pyModeS.adsb.altitude_diff", [m]), expect=e, tag="altdiff",
                           info=dict(diff=diff), trivial=(diff == 0))
    # surface movement: exhaustive, in a shuffled order (a decoder that builds its table lazily, in the order the codes
    # arrive, is only right for an ascending sweep)
    movs = list(range(128))
    rng.shuffle(movs)
    for mov in movs:
        for status in (0, 1):
            for trk in range(128):
                if not ctx.thorough and (trk * 7 + mov) % 4:
                    continue
                tc = rng.randrange(5, 9)
                m = hex_of(spec.adsb_frame(rng, tc, [(5, 7, mov), (12, 1, status), (13, 7, trk)], df=rng.choice([17, 18])))
                s = mov_spec(mov)
                es = "None" if s is None else fr(s)
                et = fr(Fraction(trk * 360, 128)) if status else "None"
                yield dict(op="surface_velocity " + m, real=("pyModeS.adsb.velocity", [m], {"source": True}),
                           expect="|".join([es, et, "0", "GS", "TRUE_NORTH", "None"]), tag="surface", trivial=(s is None and not status))
                if trk % 16 == 0:
                    yield dict(op=None, real=("pyModeS.adsb.surface_velocity", [m]), expect="|".join([es, et, "0", "GS"]), tag="surface-4")
                    yield dict(op=None, real=("pyModeS.adsb.speed_heading", [m]), expect="|".join([es, et]), tag="surface-sh")
    # guards / routing
    for tc in range(32):
        for df in (17, 18, 20):
            m = hex_of(spec.adsb_frame(rng, tc, [(5, 3, 1), (14, 10, 5), (25, 10, 5)], df=df))
            ok19 = df in (17, 18) and tc == 19
            oks = df in (17, 18) and 5 <= tc <= 8
            if not ok19:
                yield dict(op="airborne_velocity " + m, real=("pyModeS.adsb.airborne_velocity", [m]), expect="RE", tag="guard", trivial=True)
                yield dict(op="altitude_diff " + m, real=("pyModeS.adsb.altitude_diff", [m]), expect="RE", tag="guard", trivial=True)
            if not oks:
                yield dict(op="surface_velocity " + m, real=("pyModeS.adsb.surface_velocity", [m]), expect="RE", tag="guard", trivial=True)
            yield dict(op="velocity_route " + m, real=("h:adapters.isinst", ["pyModeS.adsb.velocity", m]),
                       expect="val" if (ok19 or oks) else "RE", tag="route", trivial=True) if False else \
                dict(op=None, real=("h:adapters.isinst", ["pyModeS.adsb.velocity", m]), expect="val" if (ok19 or oks) else "RE", tag="route", trivial=True)
