"""C07 — altitude codes (py_common.altitude/altcode, bds05.altitude, adsb.altitude, surv.altitude)."""
import spec
from spec import bits_of, hex_of

OBLIGATION_MODULES = ["PyModeS.Properties.C07"]
TIE_MODULES = ['PyModeS.Tie.Common', 'PyModeS.Tie.Surv', 'PyModeS.Tie.Bds05b', 'PyModeS.Tie.Adsb', 'PyModeS.Tie.C0278Gen', 'PyModeS.Tie.C07Gen']
MAIN_THEOREM = "PyModeS.C07.altitude13_spec / altcode_frame / adsb_altitude_frame"
EXHAUSTIVE = True
RULE = ("all 8192 13-bit codes on common.altitude; every code x DF 0/4/16/20 and every 12-bit field x TC 9-18/20-22 "
        "with random other bits; DF/TC guards over DF 0..31 and TC 0..31; non-trivial = decoder reached (not the DF/TC reject branch)")


def fmt(v):
    return "None" if v is None else str(v)


def oracle_alt13(code):
    return spec.alt13_spec(code)


def cases(ctx):
    rng = ctx.rng
    nbg = ctx.n(1, 6)
    # the Lean Spec.alt13 (what the theorems are stated against) = this harness's Annex 10 oracle, all 8192 codes
    for code in range(8192):
        yield dict(op="spec.alt13 %d" % code, real=("h:props.C07.oracle_alt13", [code]), tag="spec-tie", trivial=True)
    # 1. the 13-bit function, exhaustively
    for code in range(8192):
        b = "".join(map(str, bits_of(code, 13)))
        yield dict(op="altitude13 " + b, real=("pyModeS.common.altitude", [b]), expect=fmt(spec.alt13_spec(code)), tag="alt13")
    for b in ["", "0", "0" * 12, "0" * 14, "1" * 16]:
        yield dict(op="altitude13 " + b if b else None, real=("pyModeS.common.altitude", [b]), expect="RE", tag="alt13-len", trivial=True)
    # 2. altcode / surv.altitude on frames
    for code in range(8192):
        for df in (0, 4, 16, 20):
            for _ in range(nbg):
                n = 56 if df in (0, 4) else 112
                f = spec.df_frame(rng, df, n, [(19, 13, code)])
                m = hex_of(f, rng.choice(["upper", "lower"]))
                e = fmt(spec.alt13_spec(code))
                yield dict(op="altcode " + m, real=("pyModeS.common.altcode", [m]), expect=e, tag="altcode-df%d" % df)
                if df == 4:
                    yield dict(op="surv.altitude " + m, real=("pyModeS.surv.altitude", [m]), expect=e, tag="surv.altitude")
    for df in range(32):
        for n in (56, 112):
            f = spec.df_frame(rng, df, n, [(19, 13, rng.randrange(1, 8192))])
            m = hex_of(f)
            if df not in (0, 4, 16, 20):
                yield dict(op="altcode " + m, real=("pyModeS.common.altcode", [m]), expect="RE", tag="altcode-guard", trivial=True)
            if df != 4:
                yield dict(op="surv.altitude " + m, real=("pyModeS.surv.altitude", [m]), expect="RE", tag="surv-guard", trivial=True)
    # 3. ADS-B altitude
    for tc in list(range(9, 19)) + [20, 21, 22]:
        for fld in range(4096):
            for _ in range(nbg):
                f = spec.adsb_frame(rng, tc, [(8, 12, fld)], df=rng.choice([17, 18]))
                m = hex_of(f)
                if tc < 19:
                    code13 = ((fld >> 6) << 7) | (fld & 0x3F)  # M bit (0) re-inserted after the 6th bit
                    e = fmt(spec.alt13_spec(code13))
                else:
                    e = "%d/%d" % (fld * 328084, 100000)
                fn = rng.choice(["pyModeS.adsb.altitude", "pyModeS.adsb.altitude05"])
                op = "adsb.altitude " if fn.endswith(".altitude") else "altitude05 "
                yield dict(op=op + m, real=(fn, [m]), expect=e, tag="adsb-tc%d" % tc)
    for tc in range(32):
        for df in (17, 18, 20, 4):
            f = spec.adsb_frame(rng, tc, [(8, 12, rng.randrange(4096))], df=df)
            m = hex_of(f)
            if df in (17, 18) and 5 <= tc <= 8:
                yield dict(op="adsb.altitude " + m, real=("pyModeS.adsb.altitude", [m]), expect="0", tag="adsb-surface")
                yield dict(op="altitude05 " + m, real=("pyModeS.adsb.altitude05", [m]), expect="RE", tag="alt05-guard", trivial=True)
            elif not (df in (17, 18) and (9 <= tc <= 18 or 20 <= tc <= 22)):
                yield dict(op="adsb.altitude " + m, real=("pyModeS.adsb.altitude", [m]), expect="RE", tag="adsb-guard", trivial=True)
                yield dict(op="altitude05 " + m, real=("pyModeS.adsb.altitude05", [m]), expect="RE", tag="alt05-guard", trivial=True)
