"""C06 — cprNL equals the DO-260B longitude-zone function."""
import math
from fractions import Fraction

from nl_table import NL_TABLE

OBLIGATION_MODULES = ["PyModeS.Properties.C06"]
from props.C15 import PRECHECK, PYX_UNREADABLE  # noqa: E402  (the .pyx twin of cprNL is read through the same transliterator)
TIE_MODULES = ["PyModeS.Tie.NLGuard"]
MAIN_THEOREM = "PyModeS.C06.nlStair_* (staircase laws) / cprNL_eq_stair"
RULE = ("regular latitude grid over [-90, 90] plus every double within +-256 ulp of each signed transition latitude, 0, +-87, +-90; "
        "non-trivial = |lat| not within 1e-9 degree of a transition (single admissible value)")

E12 = 10 ** 12


def nl_exact(x):
    """DO-260B NL for |lat| = x (Fraction); None if x lies inside a threshold enclosure"""
    s = x * E12
    for n, lo, hi in NL_TABLE:  # n = 59 .. 2
        if n == 2:
            break
        if s < lo:
            return n
        if s <= hi:
            return None
    return 2 if x <= 87 else 1


def admissible(x):
    """set of values the property admits at latitude x (either neighbour within 1e-9 degree of a transition)"""
    eps = Fraction(1, 10 ** 9)
    out = set()
    for y in (x - eps, x, x + eps):
        y = abs(y)
        v = nl_exact(y)
        if v is None:
            # inside an enclosure: both neighbours
            for n, lo, hi in NL_TABLE:
                if lo <= y * E12 <= hi:
                    out.update({n, n - 1})
        else:
            out.add(v)
    return out


def pred_nl(real_out, latrepr):
    x = Fraction(float(latrepr))
    adm = admissible(x)
    return real_out in {str(v) for v in adm}, "one of %s" % sorted(adm)


def k_87(rec):
    i = rec.get("info") or {}
    return i.get("band87") and rec["got"] == "2"


KNOWN = {}


def cases(ctx):
    for c in _cases_all(ctx):
        if PYX_UNREADABLE and c["real"][0] == "h:props.C15.callm" and c["real"][1][0] == "cur":
            continue
        yield c


def _cases_all(ctx):
    rng = ctx.rng

    def one(lat, tag):
        x = Fraction(lat)
        adm = admissible(x)
        single = len(adm) == 1
        a = abs(x)
        info = dict(band87=bool(87 < a <= Fraction(8700087001, 10 ** 8)))
        op = "cprNL %d/%d" % (x.numerator, x.denominator) if single else None
        if tag.startswith("pyx-"):
            # the Cython implementation: current c_common.pyx text through the C-semantics transliteration
            return dict(op=op, real=("h:props.C15.callm", ["cur", "cprNL", lat]), pred=["pred_nl", repr(lat)], tag=tag, trivial=not single, info=info)
        return dict(op=op, real=("pyModeS.common.cprNL", [lat]), pred=["pred_nl", repr(lat)], tag=tag, trivial=not single, info=info)

    step = 2000 if not ctx.thorough else 500  # micro-degrees
    k = -90 * 10 ** 6
    while k <= 90 * 10 ** 6:
        yield one(k / 10 ** 6, "grid")
        k += step
    pts = [0.0, 87.0, -87.0, 90.0, -90.0, 87.00087, -87.00087, 86.99913, 87.0005, -87.0005]
    for n, lo, hi in NL_TABLE:
        pts += [lo / E12, -lo / E12]
    k = -90 * 10 ** 6
    while k <= 90 * 10 ** 6:
        yield one(k / 10 ** 6, "pyx-grid")
        k += step * 5
    for p in pts:
        yield one(p, "pyx-point")
        for q in (math.nextafter(p, math.inf), math.nextafter(p, -math.inf), p + 1e-4, p - 1e-4):
            if abs(q) <= 90:
                yield one(q, "pyx-near")
    for p in pts:
        yield one(p, "point")
        up = dn = p
        for _ in range(256 if ctx.thorough else 96):
            up = math.nextafter(up, math.inf)
            dn = math.nextafter(dn, -math.inf)
            if abs(up) <= 90:
                yield one(up, "ulp")
            if abs(dn) <= 90:
                yield one(dn, "ulp")
        for _ in range(40):
            q = p + rng.uniform(-2e-3, 2e-3)
            if abs(q) <= 90:
                yield one(q, "near")
    # a few nano-degrees either side of every transition (beyond the 1e-9 window a single value is admissible),
    # evaluated in both orders and repeatedly: the answer must not depend on what was asked before
    for n, lo, hi in NL_TABLE:
        t = lo / E12
        for sgn in (1, -1):
            for d in (2e-9, 5e-9, 1e-8, 1e-7, 2e-7, 4e-7):
                for seq in ((t - d, t + d, t - d), (t + d, t - d, t + d)):
                    for x in seq:
                        if abs(x) <= 90:
                            yield one(sgn * x, "fine")
                            yield one(sgn * x, "pyx-fine")
    # the neighbourhood of the equator on a logarithmic scale: the `isclose(lat, 0)` guard ends at 1e-8 degree and the
    # closed form takes over where cos(lat) still rounds to 1.0 (and the same around the guard window below 87)
    for e in range(-12, 0):
        for mant in (1.0, 1.0000001, 1.5, 2.0, 3.0, 5.0, 7.5, 9.9999999):
            for sgn in (1, -1):
                x = sgn * mant * 10.0 ** e
                yield one(x, "log-zero")
                yield one(x, "pyx-log-zero")
                y = sgn * (87.0 - mant * 10.0 ** e)
                yield one(y, "log-87")
                yield one(y, "pyx-log-87")
    for _ in range(ctx.n(400, 4000)):
        x = rng.choice([1, -1]) * 10.0 ** rng.uniform(-9, -2)
        yield one(x, "log-zero")
    for _ in range(ctx.n(20000, 300000)):
        yield one(rng.uniform(-90, 90), "random")
