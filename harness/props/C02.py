"""C02 — ICAO address recovery is exact and canonical for every downlink format."""
import spec
from spec import hex_of, bits_of

OBLIGATION_MODULES = ["PyModeS.Properties.C02"]
TIE_MODULES = ['PyModeS.Tie.Basic', 'PyModeS.Tie.Common', 'PyModeS.Tie.Icao', 'PyModeS.Tie.Surv', 'PyModeS.Tie.Crc', 'PyModeS.Tie.C0278Gen']
MAIN_THEOREM = "PyModeS.C02.icao_AA / icao_AP / icao_none_otherwise / icao_canonical"
RULE = ("DF 0..31 x {56,112} bits x {upper, lower, mixed} hex case x addresses (incl. 000000, FFFFFF, letters-only, digits-only) "
        "with random payloads; non-trivial = an address is expected (not None)")

AA = (11, 17, 18)
AP = (0, 4, 5, 16, 20, 21)


def k_case(rec):
    """F1: DF11/17/18 keep the input's letter case"""
    i = rec.get("info") or {}
    return i.get("df") in AA and i.get("case") != "upper" and rec["got"].upper() == (rec.get("expected") or "")


KNOWN = {}


def oracle_ap_frame(dhex, a):
    d = bits_of(int(dhex, 16), len(dhex) * 4)
    return hex_of(spec.with_parity(d, a))


_DEC = None


def acs_keys(seq):
    """keys of Decode.acs after a sequence of [kind, t, msg] items (one process_raw call each); also whether every
    Comm-B reply for a listed aircraft refreshed it"""
    global _DEC
    import contextlib
    import io
    if _DEC is None:
        with contextlib.redirect_stdout(io.StringIO()):
            from pyModeS.streamer import decode as _d
        _DEC = _d
    d = _DEC.Decode()
    for kind, t, m in seq:
        if kind == "adsb":
            d.process_raw([t], [m], [], [], t)
        else:
            d.process_raw([], [], [t], [m], t)
    acs = d.get_aircraft()
    return ",".join(sorted(str(k) for k in acs)) + "|" + ",".join(str(acs[k]["live"]) for k in sorted(acs, key=str))


def cases(ctx):
    rng = ctx.rng
    # the aircraft table is keyed by icao(msg): one transponder = one key, whatever the letter case of the feed and
    # whatever the downlink format of the reply (squitter in any case, then a Comm-B reply, then a squitter again)
    for _ in range(ctx.n(150, 1500)):
        a = rng.getrandbits(24) | rng.choice([0xA00000, 0x00B000, 0x00000C, 0xF0F0F0])
        seq, t = [], 100
        for k in range(rng.randrange(2, 6)):
            case = rng.choice(["upper", "lower", "mixed"])
            if k == 0 or rng.random() < 0.5:
                f = spec.adsb_frame(rng, rng.choice([1, 2, 3, 4, 19, 28, 29, 31]), [], df=rng.choice([17, 18]), icao=a)
                kind = "adsb"
            else:
                f = spec.df_frame(rng, rng.choice([20, 21]), 112, [], overlay_addr=a)
                kind = "commb"
            m = hex_of(f)
            m = m.lower() if case == "lower" else (spec.mixcase(rng, m) if case == "mixed" else m)
            t += rng.randrange(1, 20)
            seq.append([kind, t, m])
        yield dict(op=None, real=("h:props.C02.acs_keys", [seq]), expect="%06X|%d" % (a, t), tag="decode-acs-key", stateful=True)
    for _ in range(400):
        n = rng.choice([56, 112])
        d = spec.background(rng, n - 24)
        a = rng.getrandbits(24)
        yield dict(op="spec.encodeAP %s %d" % (hex_of(d), a), real=("h:props.C02.oracle_ap_frame", [hex_of(d), a]), tag="spec-tie", trivial=True)
    addrs = [0, 0xFFFFFF, 0xABCDEF, 0x123456, 0xA0B1C2, 0x00000A, 0xF00000] + [rng.getrandbits(24) for _ in range(ctx.n(1200, 25000))]
    for a in addrs:
        for df in range(32):
            if df not in AA + AP and a % 7:
                continue
            for n in (56, 112):
                for case in ("upper", "lower", "mixed"):
                    if df in AA:
                        f = spec.df_frame(rng, df, n, [(8, 24, a)])
                    elif df in AP:
                        f = spec.df_frame(rng, df, n, [], overlay_addr=a)
                    else:
                        f = spec.df_frame(rng, df, n, [])
                    m = hex_of(f)
                    m = m.lower() if case == "lower" else (spec.mixcase(rng, m) if case == "mixed" else m)
                    dfv = min(df, 24)
                    e = "%06X" % a if df in AA + AP else "None"
                    info = dict(df=df, case=case)
                    yield dict(op="icao " + m, real=("pyModeS.common.icao", [m]), expect=e, tag="df%d" % dfv if df in AA + AP else "other",
                               info=info, trivial=df not in AA + AP)
                    if df in (17, 18) and n == 112:
                        yield dict(op=None, real=("pyModeS.adsb.icao", [m]), expect=e, tag="adsb.icao", info=info)
                    if df == 11:
                        yield dict(op=None, real=("pyModeS.allcall.icao", [m]), expect=e, tag="allcall.icao", info=info)
                    yield dict(op="df " + m, real=("pyModeS.common.df", [m]), expect=str(dfv), tag="df", trivial=True)
