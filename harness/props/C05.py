"""C05 — surface CPR global decode selects the solution nearest the receiver."""
from fractions import Fraction as F

import cpr
import spec
from spec import hex_of
from props.C03 import pred_pos  # noqa: F401

OBLIGATION_MODULES = ["PyModeS.Properties.C05"]
TIE_MODULES = ['PyModeS.Tie.CprGlobal', 'PyModeS.Tie.Adsb', 'PyModeS.Tie.C03Gen']
MAIN_THEOREM = "PyModeS.C05.surface_global / hemisphere_choice / lon_quadrant_choice"
RULE = ("surface positions dense near lat 0, lon 0/+-90/+-180 and NL transitions, random elsewhere x pair displacement <= 0.2 NM x receiver "
        "within 45 NM in 16 directions x both time orders; non-trivial = a position (not None) expected")


def frame(rng, enc, i):
    f = spec.adsb_frame(rng, rng.randrange(5, 9), [(21, 1, i), (22, 17, enc["yz"]), (39, 17, enc["xz"])], df=rng.choice([17, 18]))
    return hex_of(f, rng.choice(["upper", "lower"]))


def k_pole(rec):
    """K6: surface target exactly at the north pole (latitude +90 is not among the two candidates)"""
    i = rec.get("info") or {}
    return i.get("lat") == 90.0


KNOWN = {"C05-north-pole": k_pole}


def with_datetime(path, m0, m1, e0, e1, *rest):
    """same call with datetime timestamps (epoch seconds given as floats, sub-second resolution)"""
    import datetime
    import run
    t0 = datetime.datetime.fromtimestamp(e0, datetime.timezone.utc)
    t1 = datetime.datetime.fromtimestamp(e1, datetime.timezone.utc)
    return run.resolve(path)(m0, m1, t0, t1, *rest)


def cases(ctx):
    rng = ctx.rng
    pts = []
    lons = [0.0, 1e-5, -1e-5, 90.0, -90.0, 89.9999, -89.9999, 179.9999, -179.9999, -180.0, 45.0, -135.0, 12.3]
    for la in [0.0, 1e-5, -1e-5, 0.3, -0.3, 0.01, -0.01, 52.0, -33.9, 70.0, 86.9, -86.9]:
        for lo in lons:
            pts.append((la, lo))
    pts.append((90.0, 0.0))
    pts.append((90.0, 123.0))
    for th in cpr.transition_lats()[::3]:
        t = float(th)
        for sgn in (1, -1):
            for k in (-1, 1):
                pts.append((sgn * (t + k * 1.5 / 131072.0), rng.choice(lons)))
    for _ in range(ctx.n(1200, 8000)):
        pts.append((rng.uniform(-89, 89), rng.uniform(-180, 180)))
    for _ in range(ctx.n(300, 2500)):
        pts.append((rng.uniform(-0.6, 0.6), rng.uniform(-180, 180)))
        pts.append((rng.uniform(-89, 89), rng.choice([0, 90, -90, 180]) + rng.uniform(-0.6, 0.6)))
    for (la, lo) in pts:
        lo = (lo + 180) % 360 - 180
        la2, lo2 = cpr.displace(la, lo, rng.uniform(0, 360), rng.choice([0.0, 0.199, rng.uniform(0, 0.199)]))
        try:
            e0 = cpr.encode(F(la), F(lo), 0, 90)
            e1 = cpr.encode(F(la2), F(lo2), 1, 90)
        except ValueError:
            continue
        m0, m1 = frame(rng, e0, 0), frame(rng, e1, 1)
        same_nl = cpr.nl(e0["rlat"]) == cpr.nl(e1["rlat"])
        for _ in range(2 if not ctx.thorough else 8):
            rla, rlo = cpr.displace(la, lo, rng.choice(range(0, 360, 22)) + 0.0, rng.choice([0.0, 5.0, 44.9, rng.uniform(0, 44.9)]))
            # the receiver must satisfy the hypothesis for BOTH frames' positions (near the poles 0.2 NM is a
            # noticeable fraction of a degree of longitude), with a margin for the quantisation step
            if (cpr.haversine_nm(la, lo, rla, rlo) > 44.9 or cpr.haversine_nm(la2, lo2, rla, rlo) > 44.9
                    or abs(cpr.angdiff(F(rlo), F(lo))) >= F(449, 10) or abs(cpr.angdiff(F(rlo), F(lo2))) >= F(449, 10)):
                continue
            for later in (0, 1):
                t0 = rng.randrange(10, 10 ** 6)
                t1 = t0 + rng.randrange(1, 10) if later else t0 - rng.randrange(1, 10)
                newer = e1 if later else e0
                if same_nl:
                    pred = ["pred_pos", cpr.fr(newer["rlat"]), cpr.fr(newer["rlon"]), cpr.fr(newer["dlat"] / 131072), cpr.fr(newer["dlon"] / 131072)]
                    exp = None
                else:
                    pred, exp = None, "None"
                fn, opn = rng.choice([("pyModeS.adsb.position", "position"), ("pyModeS.adsb.surface_position", "surface_position")])
                yield dict(op="%s %s %s %d %d %s %s" % (opn, m0, m1, t0, t1, cpr.fr(F(rla)), cpr.fr(F(rlo))),
                           real=(fn, [m0, m1, t0, t1, rla, rlo]), pred=pred, expect=exp, tag="pair" if same_nl else "nl-differs",
                           trivial=not same_nl, info=dict(lat=la, lon=lo, rlat=rla, rlon=rlo))
                if rng.random() < 0.15:
                    base = 1.7e9 + rng.randrange(10 ** 6)
                    d = rng.choice([0.001, 0.25, 0.5, 0.999])
                    ea, eb = (base, base + d) if later else (base + d, base)
                    yield dict(op=None, real=("h:props.C05.with_datetime", [fn, m0, m1, ea, eb, rla, rlo]), pred=pred, expect=exp,
                               tag="pair-datetime", trivial=not same_nl, info=dict(lat=la, lon=lo, rlat=rla, rlon=rlo))
        if rng.random() < 0.05:
            yield dict(op="position %s %s 1 2" % (m0, m1), real=("pyModeS.adsb.position", [m0, m1, 1, 2]), expect="RE", tag="no-ref", trivial=True)
