"""C08 — identity code, FS / DR / UM / CA, interrogator code."""
import spec
from spec import bits_of, hex_of

OBLIGATION_MODULES = ["PyModeS.Properties.C08"]
TIE_MODULES = ['PyModeS.Tie.Common', 'PyModeS.Tie.Icao', 'PyModeS.Tie.Surv', 'PyModeS.Tie.Bds61', 'PyModeS.Tie.C0278Gen', 'PyModeS.Tie.C08Gen', 'PyModeS.Tie.MiscFields']
MAIN_THEOREM = "PyModeS.C08.squawk_spec / idcode_frame / surv_fields / interrogator_spec"
EXHAUSTIVE = True
RULE = ("all 8192 identity patterns x {squawk, DF5, DF21, TC28} carriers; FS x DR x IIS x IDS product and CA 0..7 with random "
        "other bits; interrogator code 0..127 through the DF11 PI overlay; DF 0..31 guards; non-trivial = not a guard rejection")


def id13(a, b, c, d, x):
    """Annex 10 3.1.2.6.7.1: C1 A1 C2 A2 C4 A4 X B1 D1 B2 D2 B4 D4"""
    A4, A2, A1 = bits_of(a, 3)
    B4, B2, B1 = bits_of(b, 3)
    C4, C2, C1 = bits_of(c, 3)
    D4, D2, D1 = bits_of(d, 3)
    return spec.val_of([C1, A1, C2, A2, C4, A4, x, B1, D1, B2, D2, B4, D4])


def oracle_id13(a, b, c, d, x):
    return "".join(map(str, bits_of(id13(a, b, c, d, x), 13)))


def ic_label(code):
    if code > 79:
        return "corrupt IC"
    if code < 16:
        return "II%d" % code
    return "SI%d" % (code - 16)


def seq_interrogator(m):
    """interrogator() after other functions have looked at the same string (call-history independence)"""
    import pyModeS
    pyModeS.common.crc(m, encode=True)
    pyModeS.common.icao(m)
    a = pyModeS.allcall.interrogator(m)
    pyModeS.common.crc(m)
    b = pyModeS.allcall.interrogator(m)
    return a if a == b else "%s then %s" % (a, b)


def seq_idcode(m):
    import pyModeS
    pyModeS.common.icao(m)
    a = pyModeS.common.idcode(m)
    pyModeS.common.crc(m, encode=True)
    b = pyModeS.common.idcode(m)
    return a if a == b else "%s then %s" % (a, b)


def text_consistency(seed):
    """FS / DR / IDS / CA descriptions returned next to the numeric codes (pyModeS.common, pyModeS.surv, pyModeS.allcall):
    the text must depend on the code only, and two different codes that both have a description must not share it.
    (The wording itself is not part of the property, so it is not pinned.)"""
    import random
    import pyModeS
    rng = random.Random(seed)
    fns = [("common.fs", pyModeS.common.fs, 5, 3, (4, 5, 20, 21), lambda r: (r[0], r[1])),
           ("common.dr", pyModeS.common.dr, 8, 5, (4, 5, 20, 21), lambda r: (r[0], r[1])),
           ("common.um", pyModeS.common.um, 17, 2, (4, 5, 20, 21), lambda r: (r[1], r[2])),
           ("surv.fs", pyModeS.surv.fs, 5, 3, (4, 5), lambda r: (r[0], r[1])),
           ("surv.dr", pyModeS.surv.dr, 8, 5, (4, 5), lambda r: (r[0], r[1])),
           ("surv.um", pyModeS.surv.um, 17, 2, (4, 5), lambda r: (r[1], r[2])),
           ("allcall.capability", pyModeS.allcall.capability, 5, 3, (11,), lambda r: (r[0], r[1]))]
    for name, fn, pos, w, dfs, proj in fns:
        text_of = {}
        for code in range(1 << w):
            for _ in range(12):
                df = rng.choice(dfs)
                m = hex_of(spec.df_frame(rng, df, 56 if df < 16 else 112, [(pos, w, code)]))
                got_code, text = proj(fn(m))
                if got_code != code:
                    return "%s(%s): code %r, placed %d" % (name, m, got_code, code)
                if code in text_of and text_of[code] != text:
                    return "%s: code %d described as %r and as %r depending on other bits (%s)" % (name, code, text_of[code], text, m)
                text_of[code] = text
        described = [(c, t) for c, t in text_of.items() if t]
        if len({t for c, t in described}) != len(described):
            dup = [c for c, t in described if [t2 for c2, t2 in described].count(t) > 1]
            return "%s: codes %s share one description" % (name, dup)
    return "ok"


def cases(ctx):
    rng = ctx.rng
    nbg = ctx.n(1, 4)
    P = "h:adapters.pick"
    for a in range(8):
        for b in range(8):
            for c in range(8):
                for d in range(8):
                    for x in (0, 1):
                        code = id13(a, b, c, d, x)
                        e = "%d%d%d%d" % (a, b, c, d)
                        s = "".join(map(str, bits_of(code, 13)))
                        yield dict(op="squawk " + s, real=("pyModeS.common.squawk", [s]), expect=e, tag="squawk")
                        for _ in range(nbg):
                            for df in (5, 21):
                                m = hex_of(spec.df_frame(rng, df, 56 if df == 5 else 112, [(19, 13, code)]), rng.choice(["upper", "lower"]))
                                yield dict(op="idcode " + m, real=("pyModeS.common.idcode", [m]), expect=e, tag="idcode-df%d" % df)
                                if df == 5:
                                    yield dict(op="surv.identity " + m, real=("pyModeS.surv.identity", [m]), expect=e, tag="surv.identity")
                            m = hex_of(spec.adsb_frame(rng, 28, [(11, 13, code)], df=rng.choice([17, 18])))
                            yield dict(op="emergency_squawk " + m, real=("pyModeS.adsb.emergency_squawk", [m]), expect=e, tag="tc28")
    # TC28: identity code x subtype x emergency state (the squawk is returned as transmitted whatever the other
    # fields say: "independent of every other bit" includes the emergency state that a squawk conventionally implies)
    special = [(0, 0, 0, 0), (7, 5, 0, 0), (7, 6, 0, 0), (7, 7, 0, 0), (7, 7, 7, 7), (0, 0, 0, 1), (4, 0, 0, 0), (1, 2, 0, 0)]
    special += [tuple(rng.randrange(8) for _ in range(4)) for _ in range(ctx.n(8, 64))]
    for (a, b, c, d) in special:
        for x in (0, 1):
            for st in range(8):
                for es in range(8):
                    code = id13(a, b, c, d, x)
                    m = hex_of(spec.adsb_frame(rng, 28, [(5, 3, st), (8, 3, es), (11, 13, code)], df=rng.choice([17, 18])))
                    yield dict(op="emergency_squawk " + m, real=("pyModeS.adsb.emergency_squawk", [m]), expect="%d%d%d%d" % (a, b, c, d),
                               tag="tc28-subtype-state")
    for n in range(4096):
        a, b, c, d = n >> 9, (n >> 6) & 7, (n >> 3) & 7, n & 7
        for x in (0, 1):
            yield dict(op="spec.id13 %d %d %d %d %d" % (a, b, c, d, x), real=("h:props.C08.oracle_id13", [a, b, c, d, x]), tag="spec-tie", trivial=True)
    for s in ["", "0" * 12, "1" * 14]:
        yield dict(op=None, real=("pyModeS.common.squawk", [s]), expect="RE", tag="squawk-len", trivial=True)
    # FS x DR x IIS x IDS
    step = 1 if ctx.thorough else 5
    k = 0
    for fs in range(8):
        for dr in range(32):
            for iis in range(16):
                for ids in range(4):
                    k += 1
                    if k % step:
                        continue
                    df = rng.choice([4, 5])
                    m = hex_of(spec.df_frame(rng, df, 56, [(5, 3, fs), (8, 5, dr), (13, 4, iis), (17, 2, ids)]))
                    yield dict(op="surv.fs " + m, real=(P, ["pyModeS.surv.fs", [0], m]), expect=str(fs), tag="fs")
                    yield dict(op="surv.dr " + m, real=(P, ["pyModeS.surv.dr", [0], m]), expect=str(dr), tag="dr")
                    yield dict(op="surv.um " + m, real=(P, ["pyModeS.surv.um", [0, 1], m]), expect="%d|%d" % (iis, ids), tag="um")
    # pyModeS.common.fs / dr / um (no DF guard; DF4/5/20/21 carry the fields in the same place): values as placed in the frame
    k = 0
    for fs in range(8):
        for dr in range(32):
            for iis in range(16):
                for ids in range(4):
                    k += 1
                    if k % (step * 3):
                        continue
                    df = rng.choice([4, 5, 20, 21])
                    m = hex_of(spec.df_frame(rng, df, 56 if df < 16 else 112, [(5, 3, fs), (8, 5, dr), (13, 4, iis), (17, 2, ids)]), rng.choice(["upper", "lower"]))
                    short = df < 16
                    yield dict(op=("surv.fs " + m) if short else None, real=(P, ["pyModeS.common.fs", [0], m]), expect=str(fs), tag="common.fs")
                    yield dict(op=("surv.dr " + m) if short else None, real=(P, ["pyModeS.common.dr", [0], m]), expect=str(dr), tag="common.dr")
                    yield dict(op=("surv.um " + m) if short else None, real=(P, ["pyModeS.common.um", [0, 1], m]), expect="%d|%d" % (iis, ids), tag="common.um")
    # the descriptive texts: a function of the code alone (whatever the other bits are), and no two described codes share a text
    yield dict(op=None, real=("h:props.C08.text_consistency", [ctx.seed]), expect="ok", tag="texts")
    for ca in range(8):
        for _ in range(ctx.n(20, 200)):
            m = hex_of(spec.df_frame(rng, 11, 56, [(5, 3, ca)]))
            yield dict(op="capability " + m, real=(P, ["pyModeS.allcall.capability", [0], m]), expect=str(ca), tag="ca")
    # interrogator code through the PI overlay: PI = parity XOR (CL*16 + IC), 7 bits
    for code in range(128):
        for _ in range(ctx.n(6, 60)):
            f = spec.df_frame(rng, 11, 56, [], overlay_addr=code)
            m = hex_of(f, rng.choice(["upper", "lower"]))
            yield dict(op="interrogator " + m, real=("pyModeS.allcall.interrogator", [m]), expect=ic_label(code), tag="ic")
            if code % 4 == 0:
                yield dict(op=None, real=("h:props.C08.seq_interrogator", [m]), expect=ic_label(code), tag="ic-sequence")
    # the corrupt range beyond 7 bits: a DF11 reply whose parity overlay has any of its upper 17 bits set carries no
    # interrogator code at all (the remainder is >= 128), whatever its low 7 bits look like
    for _ in range(ctx.n(600, 6000)):
        low = rng.randrange(128)
        high = rng.choice([1 << rng.randrange(7, 24), rng.randrange(1, 1 << 17) << 7])
        f = spec.df_frame(rng, 11, 56, [], overlay_addr=high | low)
        m = hex_of(f, rng.choice(["upper", "lower"]))
        yield dict(op="interrogator " + m, real=("pyModeS.allcall.interrogator", [m]), expect="corrupt IC", tag="ic-corrupt-high")
    # guards
    for df in range(32):
        for n in (56, 112):
            m = hex_of(spec.df_frame(rng, df, n, []))
            if df not in (5, 21):
                yield dict(op="idcode " + m, real=("pyModeS.common.idcode", [m]), expect="RE", tag="guard", trivial=True)
            if df not in (4, 5):
                for f in ("fs", "dr", "um", "identity", "altitude"):
                    yield dict(op="surv.%s %s" % (f, m), real=("pyModeS.surv." + f, [m]), expect="RE", tag="guard", trivial=True)
            if df != 11:
                for f in ("capability", "interrogator"):
                    yield dict(op="%s %s" % (f, m), real=("pyModeS.allcall." + f, [m]), expect="RE", tag="guard", trivial=True)
                yield dict(op=None, real=("pyModeS.allcall.icao", [m]), expect="RE", tag="guard", trivial=True)
    for tc in range(32):
        if tc != 28:
            m = hex_of(spec.adsb_frame(rng, tc, []))
            yield dict(op="emergency_squawk " + m, real=("pyModeS.adsb.emergency_squawk", [m]), expect="RE", tag="guard", trivial=True)
