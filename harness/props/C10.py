"""C10 — aircraft identification: callsign / category / cs20."""
import spec
from spec import hex_of

OBLIGATION_MODULES = ["PyModeS.Properties.C10"]
TIE_MODULES = ['PyModeS.Tie.Bds08', 'PyModeS.Tie.Callsign', 'PyModeS.Tie.Bds20', 'PyModeS.Tie.C10Gen']
MAIN_THEOREM = "PyModeS.C10.callsign_roundtrip_frame / cs20_roundtrip / callsign_char_independent / cs20_char_independent / category_spec"
RULE = ("every (position, 6-bit code) with random legal other characters, random legal 8-character strings, TC 1-4 x category, "
        "DF17/18 and DF20/21 carriers, guards; non-trivial = legal-alphabet identification decoded")

# Annex 10 vol IV Table 3-9 (6-bit subset of IA-5): 1..26 = A..Z, 32 = space, 48..57 = 0..9
LEGAL = {i: chr(64 + i) for i in range(1, 27)}
LEGAL[32] = "_"
LEGAL.update({48 + i: str(i) for i in range(10)})
CODES = sorted(LEGAL)


def oracle_idchar(c):
    return LEGAL.get(c)


def cases(ctx):
    rng = ctx.rng
    nr = ctx.n(2, 12)
    for c in range(64):
        yield dict(op="spec.idchar %d" % c, real=("h:props.C10.oracle_idchar", [c]), tag="spec-tie", trivial=True)

    def adsb_id(codes, tc=None, ca=None, df=None):
        tc = tc if tc is not None else rng.randrange(1, 5)
        fields = [(8 + 6 * i, 6, c) for i, c in enumerate(codes)]
        if ca is not None:
            fields.append((5, 3, ca))
        return hex_of(spec.adsb_frame(rng, tc, fields, df=df if df is not None else rng.choice([17, 18])), rng.choice(["upper", "lower"]))

    def bds20(codes, df=None):
        fields = [(0, 8, 0x20)] + [(8 + 6 * i, 6, c) for i, c in enumerate(codes)]
        h = hex_of(spec.commb_frame(rng, df if df is not None else rng.choice([20, 21]), fields))
        k = rng.random()
        return h if k < 0.5 else (h.lower() if k < 0.8 else spec.mixcase(rng, h))

    for pos in range(8):
        for _b in range(nr):
            # one base string for a whole sweep: consecutive calls differ in one character only
            base = [rng.choice(CODES) for _ in range(8)]
            for code in list(range(64)) + [rng.randrange(64) for _ in range(8)]:
                codes = list(base)
                codes[pos] = code
                legal = code in LEGAL
                e = "".join(LEGAL.get(c, "#") for c in codes)
                m = adsb_id(codes)
                # callsign() drops '#': only legal identifications are pinned by the property
                yield dict(op="callsign " + m, real=("pyModeS.adsb.callsign", [m]), expect=e if legal else None,
                           tag="cs-pos" if legal else "cs-illegal", trivial=not legal)
                m = bds20(codes)
                yield dict(op="cs20 " + m, real=("pyModeS.commb.cs20", [m]), expect=e, tag="cs20-pos")
    # identifications with structure that random strings never have: all blanks (a legal identification: eight spaces),
    # blanks at either end or in the middle, one repeated character, a single non-blank character at each position
    SP = 32
    special = [[SP] * 8, [1] * 8, [26] * 8, [48] * 8, [57] * 8]
    for i in range(8):
        special.append([SP] * i + [rng.choice(CODES)] + [SP] * (7 - i))
        special.append([rng.choice([c for c in CODES if c != SP]) for _ in range(i)] + [SP] * (8 - i))
        special.append([SP] * (8 - i) + [rng.choice([c for c in CODES if c != SP]) for _ in range(i)])
    for codes in special:
        e = "".join(LEGAL[c] for c in codes)
        for tc in range(1, 5):
            m = adsb_id(codes, tc=tc)
            yield dict(op="callsign " + m, real=("pyModeS.adsb.callsign", [m]), expect=e, tag="cs-special")
        for df in (20, 21):
            m = bds20(codes, df=df)
            yield dict(op="cs20 " + m, real=("pyModeS.commb.cs20", [m]), expect=e, tag="cs20-special")
    for _ in range(ctx.n(5000, 100000)):
        codes = [rng.choice(CODES) for _ in range(8)]
        e = "".join(LEGAL[c] for c in codes)
        m = adsb_id(codes)
        yield dict(op="callsign " + m, real=("pyModeS.adsb.callsign", [m]), expect=e, tag="cs-random")
        m = bds20(codes)
        yield dict(op="cs20 " + m, real=("pyModeS.commb.cs20", [m]), expect=e, tag="cs20-random")
        yield dict(op="is20 " + m, real=("pyModeS.commb.is20", [m]), expect="True", tag="is20")
    # two identifications that differ in exactly one character, decoded one after the other through different entry
    # points (is20 / infer / cs20 / callsign first, then the other string): the second answer must be its own
    for _ in range(ctx.n(1500, 20000)):
        codes = [rng.choice(CODES) for _ in range(8)]
        pos = rng.randrange(8)
        codes2 = list(codes)
        codes2[pos] = rng.choice([c for c in CODES if c != codes[pos]])
        e2 = "".join(LEGAL[c] for c in codes2)
        a, b = bds20(codes), bds20(codes2)
        first = rng.choice(["pyModeS.commb.is20", "pyModeS.bds.infer", "pyModeS.commb.cs20"])
        yield dict(op="cs20 " + b, real=("h:adapters.after", [[[first, [a], {}]], "pyModeS.commb.cs20", [b]]), expect=e2,
                   tag="cs20-after-neighbour", stateful=True)
        a, b = adsb_id(codes), adsb_id(codes2)
        first = rng.choice(["pyModeS.adsb.callsign", "pyModeS.bds.infer", "pyModeS.adsb.category"])
        yield dict(op="callsign " + b, real=("h:adapters.after", [[[first, [a], {}]], "pyModeS.adsb.callsign", [b]]), expect=e2,
                   tag="callsign-after-neighbour", stateful=True)
    for tc in range(1, 5):
        for ca in range(8):
            for _ in range(ctx.n(10, 100)):
                m = adsb_id([rng.choice(CODES) for _ in range(8)], tc=tc, ca=ca)
                yield dict(op="category " + m, real=("pyModeS.adsb.category", [m]), expect=str(ca), tag="category")
    for tc in [0] + list(range(5, 32)):
        m = adsb_id([1] * 8, tc=tc)
        yield dict(op="callsign " + m, real=("pyModeS.adsb.callsign", [m]), expect="RE", tag="guard", trivial=True)
        yield dict(op="category " + m, real=("pyModeS.adsb.category", [m]), expect="RE", tag="guard", trivial=True)
    for df in range(32):
        if df not in (17, 18):
            m = adsb_id([1] * 8, tc=2, df=df)
            yield dict(op="callsign " + m, real=("pyModeS.adsb.callsign", [m]), expect="RE", tag="guard", trivial=True)
    # is20 veto: an illegal character code anywhere vetoes BDS 2,0
    for pos in range(8):
        for code in range(64):
            if code in LEGAL:
                continue
            codes = [rng.choice(CODES) for _ in range(8)]
            codes[pos] = code
            m = bds20(codes)
            yield dict(op="is20 " + m, real=("pyModeS.commb.is20", [m]), expect="False", tag="is20-veto")
