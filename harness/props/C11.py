"""C11 — Comm-B register fields (BDS 1,0 1,7 4,0 4,4 4,5 5,0 5,3 6,0) per ICAO Doc 9871."""
from fractions import Fraction as F

import spec
from spec import hex_of

OBLIGATION_MODULES = ["PyModeS.Properties.C11"]
TIE_MODULES = ['PyModeS.Tie.Bds10', 'PyModeS.Tie.Bds17', 'PyModeS.Tie.Bds40', 'PyModeS.Tie.Bds44', 'PyModeS.Tie.Bds45', 'PyModeS.Tie.Bds50', 'PyModeS.Tie.Bds53', 'PyModeS.Tie.Bds60', 'PyModeS.Tie.C11Gen']
MAIN_THEOREM = "PyModeS.C11.field_spec (one per exported decoder)"
EXHAUSTIVE = True
RULE = ("for every field: all raw values x status x sign with random content of all other MB bits and header/parity; "
        "non-trivial = status bit set (value expected)")

# Doc 9871 rows: name -> (module, status bit, sign bit, msb, lsb, LSB, offset, wrap360)   (MB bit numbers, 1-based, inclusive)
ROWS = {
    "selalt40mcp": ("bds40", 1, None, 2, 13, F(16), 0, False),
    "selalt40fms": ("bds40", 14, None, 15, 26, F(16), 0, False),
    "p40baro": ("bds40", 27, None, 28, 39, F(1, 10), 800, False),
    "p44": ("bds44", 35, None, 36, 46, F(1), 0, False),
    "hum44": ("bds44", 50, None, 51, 56, F(100, 64), 0, False),
    "turb44": ("bds44", 47, None, 48, 49, F(1), 0, False),
    "turb45": ("bds45", 1, None, 2, 3, F(1), 0, False),
    "ws45": ("bds45", 4, None, 5, 6, F(1), 0, False),
    "mb45": ("bds45", 7, None, 8, 9, F(1), 0, False),
    "ic45": ("bds45", 10, None, 11, 12, F(1), 0, False),
    "wv45": ("bds45", 13, None, 14, 15, F(1), 0, False),
    "p45": ("bds45", 27, None, 28, 38, F(1), 0, False),
    "rh45": ("bds45", 39, None, 40, 51, F(16), 0, False),
    "roll50": ("bds50", 1, 2, 3, 11, F(45, 256), 0, False),
    "trk50": ("bds50", 12, 13, 14, 23, F(90, 512), 0, True),
    "gs50": ("bds50", 24, None, 25, 34, F(2), 0, False),
    "rtrk50": ("bds50", 35, 36, 37, 45, F(8, 256), 0, False),
    "tas50": ("bds50", 46, None, 47, 56, F(2), 0, False),
    "hdg53": ("bds53", 1, 2, 3, 12, F(90, 512), 0, True),
    "ias53": ("bds53", 13, None, 14, 23, F(1), 0, False),
    "mach53": ("bds53", 24, None, 25, 33, F(8, 1000), 0, False),
    "tas53": ("bds53", 34, None, 35, 46, F(1, 2), 0, False),
    "vr53": ("bds53", 47, 48, 49, 56, F(64), 0, False),
    "hdg60": ("bds60", 1, 2, 3, 12, F(90, 512), 0, True),
    "ias60": ("bds60", 13, None, 14, 23, F(1), 0, False),
    "mach60": ("bds60", 24, None, 25, 34, F(2048, 512000), 0, False),
    "vr60baro": ("bds60", 35, 36, 37, 45, F(32), 0, False),
    "vr60ins": ("bds60", 46, 47, 48, 56, F(32), 0, False),
}
COMMB_EXPORTED = [
    "is10", "ovc10", "is17", "cap17", "is20", "cs20", "is30", "is40", "selalt40fms", "selalt40mcp", "p40baro", "alt40fms",
    "alt40mcp", "is50", "roll50", "trk50", "gs50", "rtrk50", "tas50", "is60", "hdg60", "ias60", "mach60", "vr60baro", "vr60ins",
    "is44", "wind44", "temp44", "p44", "hum44", "turb44", "is45", "turb45", "ws45", "mb45", "ic45", "wv45", "temp45", "p45", "rh45"]
CAP17 = ["05", "06", "07", "08", "09", "0A", "20", "21", "40", "41", "42", "43", "44", "45", "48", "50", "51", "52", "53", "54",
         "55", "56", "5F", "60"]


def fr(x):
    x = F(x)
    return "%d/%d" % (x.numerator, x.denominator)


def expected(row, status, sign, raw):
    mod, sb, sg, msb, lsb, scale, off, wrap = row
    if not status:
        return "None"
    w = lsb - msb + 1
    v = raw - (1 << w) if (sg is not None and sign) else raw
    x = v * scale + off
    if wrap and x < 0:
        x += 360
    return fr(x)


def k_vr53(rec):
    i = rec.get("info") or {}
    return i.get("name") == "vr53" and i.get("raw") in (0, 255) and rec["got"] == "0"


KNOWN = {}


def wiring():
    """`pyModeS.commb.f is bdsXX.f` for every exported name (module wiring, a checked fact)"""
    import importlib
    commb = importlib.import_module("pyModeS.decoder.commb")
    bad = []
    for name in COMMB_EXPORTED:
        f = getattr(commb, name, None)
        import re
        mo = re.search(r"(\d\d)", name)
        mod = importlib.import_module("pyModeS.decoder.bds.bds" + mo.group(1)) if mo else None
        if f is None or mod is None or getattr(mod, name, None) is not f:
            bad.append(name)
    if sorted(getattr(commb, "__all__", [])) != sorted(COMMB_EXPORTED):
        bad.append("__all__")
    return ",".join(bad) if bad else "ok"


def cases(ctx):
    rng = ctx.rng
    yield dict(op=None, real=("h:props.C11.wiring", []), expect="ok", tag="wiring")

    def frame(fields):
        df = rng.choice([20, 21])
        return hex_of(spec.commb_frame(rng, df, fields), rng.choice(["upper", "lower"]))

    for name, row in ROWS.items():
        mod, sb, sg, msb, lsb, scale, off, wrap = row
        w = lsb - msb + 1
        path = ("pyModeS.commb." if mod != "bds53" else "pyModeS.decoder.bds.bds53.") + name
        nrep = ctx.n(1, 4) if w >= 10 else ctx.n(4, 16)
        for raw in range(1 << w):
            for status in (0, 1):
                for sign in ((0, 1) if sg is not None else (0,)):
                    for _ in range(nrep):
                        fields = [(sb - 1, 1, status), (msb - 1, w, raw)]
                        if sg is not None:
                            fields.append((sg - 1, 1, sign))
                        m = frame(fields)
                        yield dict(op="%s %s" % (name, m), real=(path, [m]), expect=expected(row, status, sign, raw),
                                   tag=name, trivial=not status, info=dict(name=name, raw=raw, sign=sign, status=status))
    # unconditional temperatures, wind (two values under one status), ovc10, cap17
    for raw in range(1024):
        for sign in (0, 1):
            m = frame([(23, 1, sign), (24, 10, raw)])
            v = raw - 1024 if sign else raw
            yield dict(op="temp44 " + m, real=("pyModeS.commb.temp44", [m]), expect="%s|%s" % (fr(F(v, 4)), fr(F(v, 8))), tag="temp44")
    for raw in range(512):
        for sign in (0, 1):
            for st in (0, 1):
                m = frame([(15, 1, st), (16, 1, sign), (17, 9, raw)])
                v = raw - 512 if sign else raw
                yield dict(op="temp45 " + m, real=("pyModeS.commb.temp45", [m]), expect=fr(F(v, 4)), tag="temp45")
    # the empty register (all 56 MB bits zero) and the saturated one (all ones) through every decoder: the two
    # unconditional temperature decoders report 0 / -0.25 there, every status-gated decoder None / its top value
    for df in (20, 21):
        for bgname, bit in (("zero", 0), ("one", 1)):
            m = hex_of(spec.commb_frame(rng, df, [], mb_bg=bgname), rng.choice(["upper", "lower"]))
            v44 = -1 if bit else 0
            yield dict(op="temp44 " + m, real=("pyModeS.commb.temp44", [m]), expect="%s|%s" % (fr(F(v44, 4)), fr(F(v44, 8))), tag="temp44-" + bgname)
            yield dict(op="temp45 " + m, real=("pyModeS.commb.temp45", [m]), expect=fr(F(-1 if bit else 0, 4)), tag="temp45-" + bgname)
            yield dict(op="wind44 " + m, real=("pyModeS.commb.wind44", [m]),
                       expect=("511|%s" % fr(F(511 * 180, 256))) if bit else "None|None", tag="wind44-" + bgname)
            yield dict(op="ovc10 " + m, real=("pyModeS.commb.ovc10", [m]), expect=str(bit), tag="ovc10-" + bgname)
            for name, row in ROWS.items():
                mod, sb, sg, msb, lsb, scale, off, wrap = row
                w = lsb - msb + 1
                path = ("pyModeS.commb." if mod != "bds53" else "pyModeS.decoder.bds.bds53.") + name
                yield dict(op="%s %s" % (name, m), real=(path, [m]), expect=expected(row, bit, bit, (1 << w) - 1 if bit else 0),
                           tag=name + "-" + bgname, info=dict(name=name, raw=(1 << w) - 1 if bit else 0, sign=bit, status=bit))
    for spd in range(512):
        for st in (0, 1):
            d = rng.randrange(512) if spd % 2 else spd
            m = frame([(4, 1, st), (5, 9, spd), (14, 9, d)])
            e = "%d|%s" % (spd, fr(F(d * 180, 256))) if st else "None|None"
            yield dict(op="wind44 " + m, real=("pyModeS.commb.wind44", [m]), expect=e, tag="wind44", trivial=not st)
    for _ in range(200):
        b = rng.randrange(2)
        m = frame([(14, 1, b)])
        yield dict(op="ovc10 " + m, real=("pyModeS.commb.ovc10", [m]), expect=str(b), tag="ovc10")
    for i in range(24):
        for _ in range(ctx.n(8, 40)):
            mask = rng.getrandbits(24) | (1 << (23 - i)) if rng.random() < 0.5 else rng.getrandbits(24) & ~(1 << (23 - i))
            m = frame([(0, 24, mask)])
            caps = ["BDS" + CAP17[k] for k in range(24) if (mask >> (23 - k)) & 1]
            yield dict(op="cap17 " + m, real=("h:props.C11.cap17_join", [m]), expect=",".join(caps) if caps else "[]", tag="cap17")
            if rng.random() < 0.5:
                # the same reply decoded again after the caller has emptied the list it was given the first time
                yield dict(op="cap17 " + m, real=("h:props.C11.cap17_join", [m]), expect=",".join(caps) if caps else "[]", tag="cap17-again")


def cap17_join(m):
    import pyModeS
    import adapters
    r = pyModeS.commb.cap17(m)
    out = ",".join(r) if r else "[]"
    adapters.poison(r)
    return out
