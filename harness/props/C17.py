"""C17 — live aircraft table: robust, correct positions, bounded staleness."""
import contextlib
import io
import json
from fractions import Fraction as F

import cpr
import spec
from spec import hex_of, bits_of

OBLIGATION_MODULES = ["PyModeS.Properties.C17"]
TIE_MODULES = ["PyModeS.Tie.DecodeDirect", "PyModeS.Tie.DecodeTotal", "PyModeS.Tie.DecodeTotal2", "PyModeS.Tie.DecodeTotal3"]
MAIN_THEOREM = "PyModeS.C17.process_no_crash / stale_bounds / commb_gated / position_invariant_partial"
RULE = ("random histories: 1-6 aircraft on continuous trajectories (<= 600 kt airborne, <= 150 kt surface) through NL bands, the equator and the "
        "antimeridian, even/odd orderings, gaps < 10 s / 10-180 s / > 180 s, identification / velocity / status messages, random and "
        "corrupt payloads on other addresses, Comm-B replies for known and unknown addresses, upper and lower case; state compared "
        "after every call; non-trivial = history with at least one position update")


def pos_frame(rng, addr, tc, lat, lon, i, base, altfield=None, gate_fails=False):
    e = cpr.encode(F(lat), F(lon), i, base)
    fields = [(21, 1, i), (22, 17, e["yz"]), (39, 17, e["xz"])]
    if base == 90:
        if gate_fails:
            # no usable ground speed / track: process_raw must skip the frame (nothing stored, nothing decoded from it)
            fields += rng.choice([[(5, 7, rng.choice([0, 125, 126, 127])), (12, 1, 1)], [(5, 7, rng.randrange(2, 100)), (12, 1, 0)]])
        else:
            fields += [(5, 7, rng.randrange(2, 100)), (12, 1, 1)]     # movement + valid track so that the velocity gate passes
    f = spec.adsb_frame(rng, tc, fields, df=17, icao=addr)
    return hex_of(f), e


def other_frame(rng, addr, kind):
    if kind == "ident":
        f = spec.adsb_frame(rng, rng.randrange(1, 5), [(8 + 6 * k, 6, rng.choice([1, 2, 3, 32, 48, 49])) for k in range(8)], df=17, icao=addr)
    elif kind == "vel":
        f = spec.adsb_frame(rng, 19, [(5, 3, rng.randrange(1, 5))], df=17, icao=addr)
    elif kind == "status":
        f = spec.adsb_frame(rng, rng.choice([28, 29, 31, 31, 20, 21, 22, 0, 23, 27, 30]), [], df=17, icao=addr)
    else:
        f = spec.adsb_frame(rng, rng.randrange(32), [], df=rng.choice([17, 18]), icao=addr)
    return hex_of(f)


def commb_frame(rng, addr):
    mbits = spec.background(rng, 56, rng.choice(["rand", "zero", "rand"]))
    if rng.random() < 0.5:
        mbits = [b if rng.random() < 0.2 else 0 for b in mbits]
    if rng.random() < 0.4:
        from props import C12
        mbits = rng.choice([C12.gen50, C12.gen60])(rng)
    f = spec.background(rng, 112, "rand")
    spec.put(f, 0, 5, rng.choice([20, 21]))
    f[32:88] = mbits
    f = spec.with_parity(f[:88], addr)
    return hex_of(f)


def gen_history(rng, thorough):
    nac = rng.randrange(1, 7)
    acs = []
    for k in range(nac):
        surface = rng.random() < 0.25
        region = rng.random()
        if region < 0.25:
            th = float(rng.choice(cpr.transition_lats()[:-2]))
            lat = rng.choice([1, -1]) * (th + rng.uniform(-0.05, 0.05))
        elif region < 0.4:
            lat = rng.uniform(-0.1, 0.1)
        else:
            lat = rng.uniform(-80, 80)
        lon = rng.choice([rng.uniform(-180, 180), 179.97, -179.97, 0.01, -0.01])
        hdg = rng.uniform(0, 360)
        spd = rng.uniform(0, 150) if surface else rng.uniform(100, 600)
        if not surface and rng.random() < 0.15:
            # flying straight across a transition latitude: the first even/odd pair may straddle it
            th = float(rng.choice(cpr.transition_lats()[:-2]))
            sgn = rng.choice([1, -1])
            lat = sgn * th + rng.choice([1, -1]) * rng.uniform(0.0, 0.002)
            hdg = rng.choice([0.0, 180.0])
            spd = 600.0
        acs.append(dict(addr=rng.getrandbits(24) | 0x10, lat=lat, lon=lon, hdg=hdg,
                        spd=spd, surface=surface, i=rng.randrange(2), t_last=None))
    noise = [rng.getrandbits(24) for _ in range(2)]
    rx = (acs[0]["lat"] + rng.uniform(-0.3, 0.3), acs[0]["lon"] + rng.uniform(-0.3, 0.3))
    rx = (max(-89.9, min(89.9, rx[0])), (rx[1] + 180) % 360 - 180)
    # surface aircraft must be within 45 NM of the receiver for the global decode: put them near rx
    for a in acs:
        if a["surface"]:
            a["lat"], a["lon"] = cpr.displace(rx[0], rx[1], rng.uniform(0, 360), rng.uniform(0, 20))
    t = rng.choice([0.0, 1000.5, 1.7e9, -50.25])
    calls = []
    truth = {}   # (key, t) -> (lat, lon, dlon_half)
    seen_adsb = set()
    for _c in range(rng.randrange(4, 14)):
        adsb, commb = [], []
        for _m in range(rng.randrange(0, 9)):
            gap = rng.choice([0.4, 0.5, 1.0, 2.5, 9.0, 11.0, 30.0, 59.0, 61.0, 100.0, 179.0, 181.0, 400.0]) if rng.random() < 0.25 else rng.uniform(0.1, 1.5)
            t = round(t + gap, 3)
            r = rng.random()
            lower = rng.random() < 0.3
            if r < 0.62:
                a = rng.choice(acs)
                if a["t_last"] is not None:
                    dt = t - a["t_last"]
                    a["lat"], a["lon"] = cpr.displace(a["lat"], a["lon"], a["hdg"], a["spd"] * dt / 3600.0)
                    if rng.random() < 0.1:
                        a["hdg"] = (a["hdg"] + rng.uniform(-30, 30)) % 360
                    if abs(a["lat"]) > 85:
                        a["hdg"] = (a["hdg"] + 180) % 360
                a["t_last"] = t
                a["i"] = 1 - a["i"] if rng.random() < 0.8 else a["i"]
                if rng.random() < 0.02:
                    a["surface"] = not a["surface"] and False
                base = 90 if a["surface"] else 360
                tc = rng.randrange(5, 9) if a["surface"] else rng.randrange(9, 19)
                gate_fails = a["surface"] and rng.random() < 0.15
                try:
                    m, e = pos_frame(rng, a["addr"], tc, a["lat"], a["lon"], a["i"], base, gate_fails=gate_fails)
                except ValueError:
                    continue
                key = "%06X" % a["addr"]
                if not gate_fails:
                    truth[(key, t)] = (a["lat"], a["lon"], float(e["dlon"]) / 262144.0)
                adsb.append((t, m.lower() if lower else m))
                seen_adsb.add(key)
            elif r < 0.78:
                a = rng.choice(acs)
                m = other_frame(rng, a["addr"], rng.choice(["ident", "vel", "status"]))
                adsb.append((t, m.lower() if lower else m))
                seen_adsb.add("%06X" % a["addr"])
            elif r < 0.86:
                ad = rng.choice(noise)
                m = other_frame(rng, ad, "random")
                adsb.append((t, m.lower() if lower else m))
                seen_adsb.add("%06X" % ad)
            else:
                ad = rng.choice([a["addr"] for a in acs] + noise + [rng.getrandbits(24)])
                m = commb_frame(rng, ad)
                commb.append((t, m.lower() if lower else m))
        tnow = t + rng.choice([0.0, 0.0, 0.5, 30.0, 59.0, 61.5, 200.0])
        if tnow > t:
            t = tnow
        calls.append((tnow, adsb, commb))
    return rx, calls, truth


def fr(x):
    return cpr.fr(F(x))


def encode_calls(calls):
    def items(l):
        return "+".join("%s@%s" % (fr(t), m) for t, m in l) if l else "-"
    return ";".join("%s~%s~%s" % (fr(tn), items(a), items(c)) for tn, a, c in calls)


_DEC = None


def run_history(rx, calls_json):
    """real Decode: state after every call, same canonical form as the model driver"""
    global _DEC
    if _DEC is None:
        with contextlib.redirect_stdout(io.StringIO()):
            from pyModeS.streamer import decode as _d
        _DEC = _d
    calls = json.loads(calls_json)
    d = _DEC.Decode(latlon=rx)
    outs = []
    for tnow, adsb, commb in calls:
        d.process_raw([x[0] for x in adsb], [x[1] for x in adsb], [x[0] for x in commb], [x[1] for x in commb], tnow)
        acs = d.get_aircraft()
        rows = []
        for k in sorted(acs, key=str):
            a = acs[k]
            f = lambda v: "None" if v is None else repr(float(v))  # noqa
            rows.append("%s=%s,%s,%s,%s" % (k, a["live"], f(a.get("lat")), f(a.get("lon")), f(a.get("tpos"))))
        outs.append("&".join(rows) if rows else "-")
    return ";".join(outs)


class _Pipe:
    def __init__(self):
        self.sent = []

    def send(self, d):
        self.sent.append(d)


class _Flag:
    value = False


def pipeline_case(rx, calls_json):
    """the same history through NetSource.handle_messages -> Decode.process_raw, once in upper and once in lower case:
    the resulting aircraft tables must be identical (keys, live, position and the attached Comm-B values)"""
    global _DEC
    with contextlib.redirect_stdout(io.StringIO()):
        from pyModeS.streamer import decode as _d
        from pyModeS.streamer import source as _s
    calls = json.loads(calls_json)
    tables = []
    for case in (str.upper, str.lower):
        ns = object.__new__(_s.NetSource)
        ns.stop_flag = _Flag()
        ns.raw_pipe_in = _Pipe()
        ns.reset_local_buffer()
        d = _d.Decode(latlon=rx)
        for tnow, adsb, commb in calls:
            msgs = sorted([[case(m), t] for t, m in adsb] + [[case(m), t] for t, m in commb], key=lambda x: x[1])
            n0 = len(ns.raw_pipe_in.sent)
            ns.handle_messages(msgs)
            for data in ns.raw_pipe_in.sent[n0:]:
                d.process_raw(data["adsb_ts"], data["adsb_msg"], data["commb_ts"], data["commb_msg"], tnow)
        t = {}
        for k, a in d.get_aircraft().items():
            t[k] = tuple(repr(a.get(f)) for f in ("live", "lat", "lon", "tpos", "call", "tas", "roll", "rtrk", "ias", "mach", "hdg", "trk50", "gs50", "t50", "t60"))
        tables.append(t)
    return "same" if tables[0] == tables[1] else "differ: %s" % sorted(set(tables[0].items()) ^ set(tables[1].items()))[:2]


def outputs_match(real_out, model_out):
    import re
    import core
    if real_out == model_out:
        return True
    a, b = re.split(r"[;&,=]", real_out), re.split(r"[;&,=]", model_out)
    return len(a) == len(b) and all(core.tokens_equal(x, y) for x, y in zip(a, b))


def gen_gap_history(rng):
    """one aircraft: a position fix, then only velocity / identification squitters (one every 20-55 s, so that it stays
    listed) while it flies on for many minutes, then position reports again.  The stored fix is by then far more than
    half a CPR zone away (and much older than 180 s), so only a fresh even/odd pair may be used."""
    surface = False   # (a surface target would leave the 45 NM neighbourhood of a fixed receiver: outside the property's premise)
    lat, lon = rng.uniform(-60, 60), rng.uniform(-179, 179)
    hdg = rng.choice([0.0, 180.0, 90.0, 270.0, rng.uniform(0, 360)])
    spd = rng.uniform(100, 150) if surface else rng.uniform(450, 600)
    addr = rng.getrandbits(24) | 0x10
    key = "%06X" % addr
    rx = (lat + rng.uniform(-0.2, 0.2), (lon + rng.uniform(-0.2, 0.2) + 180) % 360 - 180)
    base = 90 if surface else 360
    t = rng.choice([0.0, 5000.25, 1.7e9])
    calls, truth = [], {}
    st = dict(lat=lat, lon=lon, i=0, tl=t)

    def advance(tn):
        st["lat"], st["lon"] = cpr.displace(st["lat"], st["lon"], hdg, spd * (tn - st["tl"]) / 3600.0)
        st["tl"] = tn

    def positions(n):
        nonlocal t
        adsb = []
        for _ in range(n):
            t = round(t + rng.uniform(0.4, 1.2), 3)
            advance(t)
            st["i"] = 1 - st["i"]
            tc = rng.randrange(5, 9) if surface else rng.randrange(9, 19)
            m, e = pos_frame(rng, addr, tc, st["lat"], st["lon"], st["i"], base)
            truth[(key, t)] = (st["lat"], st["lon"], float(e["dlon"]) / 262144.0)
            adsb.append((t, m))
        calls.append((t, adsb, []))
    positions(rng.randrange(3, 6))
    # surface: 0.75 deg of latitude / a quarter of a 90-degree longitude zone; airborne: 3 deg / 180 NM
    need_nm = (60.0 if surface else 200.0) * rng.uniform(1.0, 1.6)
    t_end = t + need_nm / spd * 3600.0
    while t < t_end:
        t = round(t + rng.uniform(20, 55), 3)
        m = other_frame(rng, addr, rng.choice(["vel", "ident"]))
        calls.append((t, [(t, m)], []))
    if surface:
        # the receiver must be within 45 NM of the target for the surface decode: it moves along (a mobile receiver is
        # outside the model, so place the fixed receiver near the *new* position and accept the first fix being far)
        pass
    positions(rng.randrange(3, 7))
    if surface:
        rx = (st["lat"] + rng.uniform(-0.1, 0.1), (st["lon"] + rng.uniform(-0.1, 0.1) + 180) % 360 - 180)
    if abs(st["lat"]) > 86:
        return None
    return rx, calls, truth


def pred_history(real_out, calls_json, truth_json):
    """the property on the real code: no exception, staleness bounds, Comm-B gating, position accuracy"""
    if real_out in ("RE", "EXC"):
        return False, "process_raw must not raise"
    calls = json.loads(calls_json)
    truth = {tuple(json.loads(k)): v for k, v in json.loads(truth_json).items()}
    last_heard = {}
    seen_adsb = set()
    states = real_out.split(";")
    prev_rows = set()
    for (tnow, adsb, commb), st in zip(calls, states):
        for t, m in adsb:
            key = m[2:8].upper()
            last_heard[key] = max(last_heard.get(key, t), t)
            seen_adsb.add(key)
        rows = {} if st == "-" else dict(r.split("=") for r in st.split("&"))
        # a Comm-B reply from an aircraft that was listed when the call began is "hearing" it too
        for t, m in commb:
            b = bits_of(int(m, 16), 112)
            key = "%06X" % (spec.parity_of_data(b[:88]) ^ spec.val_of(b[88:]))
            if key in prev_rows and key in last_heard:
                last_heard[key] = max(last_heard[key], t)
        prev_rows = set(rows)
        for t, m in commb:
            # address of a DF20/21 reply: parity overlay (independent computation)
            b = bits_of(int(m, 16), 112)
            key = "%06X" % (spec.parity_of_data(b[:88]) ^ spec.val_of(b[88:]))
            if key in seen_adsb and key in last_heard:
                # a reply may refresh an aircraft only if that aircraft is still (or again) in the table
                pass
            if key not in seen_adsb and key in rows:
                return False, "Comm-B reply created/updated unknown aircraft " + key
        for key in rows:
            if key not in seen_adsb:
                return False, "aircraft %s listed but never seen in ADS-B" % key
        for key, tl in last_heard.items():
            # Comm-B replies also count as "heard" for a listed aircraft; only ADS-B times are tracked here, so the
            # absence test uses the latest time of either kind
            tl2 = max([tl] + [t for t, m in commb if key in rows and False])
            if tnow - tl <= 59 and key not in rows:
                return False, "aircraft %s heard %.3f s ago but not listed" % (key, tnow - tl)
        for key, row in rows.items():
            live, la, lo, tpos = row.split(",")
            if tpos != "None":
                tr = truth.get((key, float(tpos)))
                if tr is not None and la != "None":
                    tla, tlo, half = tr
                    tol = max(0.001, half * 1.01)
                    dlo = abs((float(lo) - tlo + 180.0) % 360.0 - 180.0)
                    if abs(float(la) - tla) > 0.001 or dlo > tol:
                        return False, "position of %s at t=%s: stored (%s, %s), true (%.6f, %.6f)" % (key, tpos, la, lo, tla, tlo)
    # absence after > 61 s of silence (any kind of message): recompute with Comm-B times for listed aircraft
    heard = {}
    for (tnow, adsb, commb), st in zip(calls, states):
        rows = {} if st == "-" else dict(r.split("=") for r in st.split("&"))
        for t, m in adsb:
            heard[m[2:8].upper()] = t
        for t, m in commb:
            b = bits_of(int(m, 16), 112)
            key = "%06X" % (spec.parity_of_data(b[:88]) ^ spec.val_of(b[88:]))
            if key in heard:
                heard[key] = max(heard[key], t)
        for key in rows:
            if key in heard and tnow - heard[key] > 61:
                return False, "aircraft %s silent for %.3f s but still listed" % (key, tnow - heard[key])
    return True, "no exception; staleness, gating and position bounds hold"


def _cases(ctx):
    rng = ctx.rng
    for _ in range(ctx.n(40, 400)):
        g = gen_gap_history(rng)
        if g is None:
            continue
        rx, calls, truth = g
        cj = json.dumps([[tn, [[t, m] for t, m in a], [[t, m] for t, m in c]] for tn, a, c in calls])
        tj = json.dumps({json.dumps(list(k)): v for k, v in truth.items()})
        op = "trk %s,%s %s" % (fr(rx[0]), fr(rx[1]), encode_calls(calls))
        yield dict(op=op, real=("h:props.C17.run_history", [list(rx), cj]), pred=["pred_history", cj, tj], tag="position-gap")
    for _ in range(ctx.n(1200, 8000)):
        rx, calls, truth = gen_history(rng, ctx.thorough)
        cj = json.dumps([[tn, [[t, m] for t, m in a], [[t, m] for t, m in c]] for tn, a, c in calls])
        tj = json.dumps({json.dumps(list(k)): v for k, v in truth.items()})
        op = "trk %s,%s %s" % (fr(rx[0]), fr(rx[1]), encode_calls(calls))
        yield dict(op=op, real=("h:props.C17.run_history", [list(rx), cj]), pred=["pred_history", cj, tj], tag="history",
                   trivial=not truth)
        if rng.random() < 0.25:
            yield dict(op=None, real=("h:props.C17.pipeline_case", [list(rx), cj]), expect="same", tag="pipeline-case")


def cases(ctx):
    """_cases with the operation of the source-generated model attached: Decode.process_raw as translated from the
    current source (with every decoder it calls), run by gendriver on the same history"""
    for c in _cases(ctx):
        if c["real"][0] == "h:props.C17.run_history" and c.get("op", "").startswith("trk "):
            c["gop"] = "!trk decode.Decode_process_raw " + c["op"][4:]
        yield c
