"""C15 — the Cython common module is observationally equivalent to the Python one.

Cython is not available, so the *current* c_common.pyx text is transliterated to Python with C integer
semantics (harness/pyx_translit.py).  Three streams:
  T  the transliterator itself: transliteration of the pinned .pyx (harness/pinned) against the shipped .so
     built from that very text (tool validation; a failure is a broken obligation, not a code defect);
  E  equivalence: transliteration of the current .pyx against the current py_common, modulo the sentinel map;
  M  the Lean C-semantics model against the transliteration of the current .pyx;
  D  decoders layered on `common`, run with the transliterated module swapped in.
"""
import os
import re
import importlib
import importlib.util
import os

import spec
from spec import bits_of, hex_of

OBLIGATION_MODULES = ["PyModeS.Properties.C15"]
TIE_MODULES = ["PyModeS.Tie.CBasic", "PyModeS.Tie.CCrc", "PyModeS.Tie.CAlt"]
MAIN_THEOREM = "PyModeS.C15.c_*_eq (per shared function)"
RULE = ("every shared function: exhaustive 13-bit codes (altitude, squawk), DF 0..31 x TC 0..31, dense floats for cprNL/floor, random frames "
        "in both letter cases for hex2bin/bin2int/hex2int/crc/icao/typecode/idcode/altcode/data/allzeros, wrongstatus; decoders re-run with the "
        "C-semantics module swapped in; non-trivial = value expected (not a guard rejection)")

HERE = os.path.dirname(os.path.abspath(__file__))
SO = "/venv/lib/python3.12/site-packages/pyModeS/c_common.cpython-312-x86_64-linux-gnu.so"
_M = {}


def mod(which):
    """'cur' = transliteration of /repo's c_common.pyx, 'pin' = of the pinned text, 'so' = shipped binary, 'py' = py_common"""
    if which in _M:
        return _M[which]
    import pyx_translit as T
    import core
    if which == "cur":
        m = T.load(open(os.path.join(core.REPO, "src", "pyModeS", "c_common.pyx")).read(), "c_common_cur")
    elif which == "pin":
        m = T.load(open(os.path.join(HERE, "..", "pinned", "c_common.pyx.pinned")).read(), "c_common_pin")
    elif which == "so":
        sp = importlib.util.spec_from_file_location("pyModeS.c_common", SO)
        m = importlib.util.module_from_spec(sp)
        sp.loader.exec_module(m)
    else:
        m = importlib.import_module("pyModeS.py_common")
    _M[which] = m
    return m


PYX_UNREADABLE = []


def PRECHECK(ctx):
    """run.py calls this before the cases: can the working tree's c_common.pyx still be read by the transliterator?  If not,
    that is a broken correspondence obligation (named in the replay file), not a behaviour of the code: the streams
    that need the transliteration are skipped and the remaining ones run at the escalated budget"""
    del PYX_UNREADABLE[:]
    try:
        mod("cur")
    except Exception as e:  # noqa
        PYX_UNREADABLE.append("%s: %s" % (type(e).__name__, str(e)[:200]))
        return ["transliterator (harness/pyx_translit.py) cannot read the current c_common.pyx: " + PYX_UNREADABLE[0]]
    return []


def callm(which, fn, *args):
    return getattr(mod(which), fn)(*args)


SENT = {"typecode": {-1: None}, "altitude": {-999999: None, -1: None}, "altcode": {-999999: None, -1: None}, "gray2alt": {-1: None}}


def callm_mapped(which, fn, *args):
    """C result with the documented sentinels mapped to None"""
    r = getattr(mod(which), fn)(*args)
    if fn in SENT and r in SENT[fn]:
        return SENT[fn][r]
    return r


def with_common(which, path, *args):
    """run decoder `path` with every decoder module's `common` swapped for module `which`"""
    import sys
    c = mod(which)
    saved = []
    for name, m in list(sys.modules.items()):
        if name.startswith("pyModeS.decoder") and getattr(m, "common", None) is not None and getattr(m.common, "__name__", "").endswith("py_common"):
            saved.append((m, m.common))
            m.common = c
    try:
        import run
        return run.resolve(path)(*args)
    finally:
        for m, old in saved:
            m.common = old


# the recorded leak sites: (decoder, value seen under the C module) — anything else is a new violation
LEAK_SITES = {("pyModeS.adsb.typecode", "-1"), ("pyModeS.surv.altitude", "-999999"), ("pyModeS.surv.altitude", "-1"),
              ("pyModeS.adsb.altitude", "-1")}


def k_decoder_sentinel(rec):
    i = rec.get("info") or {}
    if i.get("stream") != "D":
        return False
    path = rec["real"][1][1]
    if (path, rec["got"]) in LEAK_SITES:
        return True
    # is60's `alt is not None` test sees -999999: is60 / infer may differ for DF20 replies whose altitude code is 0
    if path in ("pyModeS.commb.is60", "pyModeS.bds.infer"):
        m = rec["real"][1][2]
        return (int(m[:2], 16) >> 3) == 20 and (int(m, 16) >> 80) & 0x1FFF == 0
    return False


KNOWN = {"C15-sentinel-leak": k_decoder_sentinel}


def cases(ctx):
    for c in _cases_all(ctx):
        if PYX_UNREADABLE and ((c["real"][0].startswith("h:props.C15.") and len(c["real"][1]) > 0 and c["real"][1][0] == "cur")
                               or c.get("tag") == "E-sequence"):
            continue
        yield c


def _cases_all(ctx):
    rng = ctx.rng
    import core
    H = "h:props.C15."

    def three(fn, args, tag, triv=False, op=None):
        """T: so vs pinned transliteration; E: current transliteration vs py_common; M: Lean C model vs current transliteration"""
        a = list(args)
        exp_t = core.call(callm, "pin", fn, *a)
        yield dict(op=None, real=(H + "callm", ["so", fn] + a), expect=exp_t, tag="T-" + tag, trivial=triv, info=dict(stream="T"))
        exp_e = core.call(callm, "py", fn, *a)
        yield dict(op=op, real=(H + "callm_mapped", ["cur", fn] + a), expect=exp_e, tag="E-" + tag, trivial=triv, info=dict(stream="E", fn=fn))

    # 13-bit functions, exhaustively
    for code in range(8192):
        b = "".join(map(str, bits_of(code, 13)))
        yield from three("altitude", [b], "altitude", op="c.altitude " + b)
        yield from three("squawk", [b], "squawk", op="c.squawk " + b)
    for code in range(2048):
        b = "".join(map(str, bits_of(code, 11)))
        yield from three("gray2alt", [b], "gray2alt")
    for b in ["", "0", "0" * 12, "1" * 14]:
        yield from three("altitude", [b], "len-guard", True)
        yield from three("squawk", [b], "len-guard", True)
    # strings of the right length that are not bit strings: both modules must reject them with RuntimeError (int(s, 2)
    # would accept a 0b prefix, underscores, blanks, a sign, other Unicode digits)
    for b in ["0b10100110000", "0B00000000000", " 000110010000", "000110010000 ", "0_0_0_1_1_0_0", "+000110010000", "-000110010000",
              "000110010000\n", "0001100100002", "000110010000a", "\uff10" * 13, "1" * 12 + "\u0661", "0b1_0_1_0_1_0_"]:
        if len(b) != 13:
            continue
        yield from three("altitude", [b], "not-bits", True)
        yield from three("squawk", [b], "not-bits", True)
    # DF x TC frames, both cases
    for df in range(32):
        for tc in range(32):
            for n in (56, 112):
                f = spec.background(rng, n, "rand")
                spec.put(f, 0, 5, df)
                spec.put(f, 32, 5, tc)
                f = f[:n]
                m = hex_of(f, rng.choice(["upper", "lower"]))
                for fn in ("df", "typecode", "icao", "idcode", "altcode", "data"):
                    yield from three(fn, [m], fn, op="c.%s %s" % (fn, m) if fn in ("df", "typecode", "icao", "idcode", "altcode") else None)
                if n == 112:
                    yield from three("allzeros", [m], "allzeros")
    for _ in range(ctx.n(4000, 40000)):
        n = rng.choice([56, 112])
        f = spec.background(rng, n, "rand")
        m = hex_of(f, rng.choice(["upper", "lower", "upper"]))
        if rng.random() < 0.3:
            m = spec.mixcase(rng, m)
        enc = rng.random() < 0.5
        yield from three("crc", [m, enc], "crc", op="c.crc %s %d" % (m, enc))
        yield from three("hex2bin", [m], "hex2bin")
        yield from three("hex2int", [m[:14]], "hex2int")
        yield from three("icao", [m], "icao", op="c.icao " + m)
        bs = "".join(map(str, f[:rng.randrange(1, 60)]))
        yield from three("bin2int", [bs], "bin2int")
        yield from three("bin2hex", [bs], "bin2hex")
    # the same frame through crc / icao in several orders: every answer must equal a fresh evaluation
    for _ in range(ctx.n(300, 5000)):
        n = rng.choice([56, 112])
        f = spec.background(rng, n, "rand")
        spec.put(f, 0, 5, rng.choice([0, 4, 5, 16, 20, 21, 17, 11]))
        m = hex_of(f[:n])
        fresh = {(fn, a): core.call(callm, "cur", fn, m, *a) for fn, a in (("crc", (False,)), ("crc", (True,)), ("icao", ()))}
        seq = [("crc", (True,)), ("crc", (False,)), ("icao", ()), ("crc", (False,)), ("crc", (True,)), ("icao", ())]
        if rng.random() < 0.5:
            seq = seq[::-1]
        for fn, a in seq:
            yield dict(op=None, real=(H + "callm_mapped", ["py", fn, m] + list(a)), expect=fresh[(fn, a)], tag="E-sequence", info=dict(stream="E", fn=fn))
    for _ in range(ctx.n(300, 3000)):
        d = "".join(map(str, spec.background(rng, 56, "rand")))
        sb = rng.randrange(1, 50)
        msb = rng.randrange(1, 50)
        lsb = rng.randrange(msb, 57)
        yield from three("wrongstatus", [d, sb, msb, lsb], "wrongstatus")
    # address-block boundaries: every integer literal that occurs in either implementation's source (so a bound that is moved
    # in one of them is probed where it now lies) +-2, the documented block edges, and random addresses
    edges = set([0, 0xFFFFFF, 0x4840D6])
    for blk in (0x200000, 0x27FFFF, 0x280000, 0x28FFFF, 0x500000, 0x5FFFFF, 0x600000, 0x67FFFF, 0x680000, 0x6F0000, 0x900000, 0x9FFFFF,
                0xB00000, 0xBFFFFF, 0xD00000, 0xDFFFFF, 0xF00000, 0xFFFFFF):
        edges.add(blk)
    for path in (os.path.join(core.REPO, "src", "pyModeS", "py_common.py"), os.path.join(core.REPO, "src", "pyModeS", "c_common.pyx")):
        try:
            for tok in re.findall(r"\b0[xX][0-9a-fA-F]+\b|\b\d{6,8}\b", open(path).read()):
                v = int(tok, 16) if tok[:2].lower() == "0x" else int(tok, 10)
                if 0x10000 <= v <= 0xFFFFFF:
                    edges.add(v)
        except OSError:
            pass
    addrs = sorted({e + d for e in edges for d in (-2, -1, 0, 1, 2) if 0 <= e + d <= 0xFFFFFF})
    for a in addrs + [rng.getrandbits(24) for _ in range(ctx.n(1000, 20000))]:
        yield from three("is_icao_assigned", [rng.choice(["%06X", "%06x"]) % a], "is_icao_assigned")
    # floats: cprNL and floor
    import math
    from nl_table import NL_TABLE
    pts = [0.0, 87.0, -87.0, 90.0, -90.0, 86.9999, 87.0001, 1e-9, -1e-9, 52.2572]
    for n, lo, hi in NL_TABLE:
        t = lo / 1e12
        pts += [t + 1e-6, t - 1e-6, -(t + 1e-6), -(t - 1e-6)]
        for d_ in (2e-9, 5e-9, 1e-8, 1e-7):
            pts += [t + d_, t - d_, -(t + d_), -(t - d_)]
    pts += [rng.uniform(-90, 90) for _ in range(ctx.n(3000, 30000))]
    for x in pts:
        yield from three("cprNL", [x], "cprNL")
    for x in [0.0, -0.0, 3.6, -3.6, 1e15, -1e15, 0.5, -0.5, 2.0 ** 52] + [rng.uniform(-1e6, 1e6) for _ in range(500)]:
        yield from three("floor", [x], "floor")
    # decoders layered on common, with the C-semantics module swapped in
    DEC = ["pyModeS.adsb.altitude", "pyModeS.adsb.typecode", "pyModeS.adsb.callsign", "pyModeS.adsb.velocity", "pyModeS.adsb.nuc_p",
           "pyModeS.adsb.oe_flag", "pyModeS.surv.altitude", "pyModeS.surv.identity", "pyModeS.surv.fs", "pyModeS.commb.is60",
           "pyModeS.commb.cs20", "pyModeS.commb.roll50", "pyModeS.bds.infer", "pyModeS.allcall.interrogator", "pyModeS.adsb.selected_heading"]
    for _ in range(ctx.n(600, 6000)):
        df = rng.choice([17, 17, 18, 20, 21, 4, 5, 11, 0])
        n = 112 if df >= 16 else 56
        f = spec.background(rng, n, rng.choice(["rand", "rand", "zero"]))
        spec.put(f, 0, 5, df)
        if rng.random() < 0.3 and n == 112:
            spec.put(f, 40, 12, rng.choice([0, 0x010, 0x7FF, rng.randrange(4096)]))
        m = hex_of(f)
        for path in rng.sample(DEC, 5):
            if n == 56 and not path.startswith(("pyModeS.surv", "pyModeS.allcall")):
                continue
            exp = core.call(importlib.import_module("run").resolve(path), m)
            got = core.call(with_common, "cur", path, m)
            leak = got != exp and any(t in got.split("|") for t in ("-1", "-999999")) or (got != exp and path.endswith(("is60", "infer")))
            yield dict(op=None, real=(H + "with_common", ["cur", path, m]), expect=exp, tag="D-" + path.split(".")[-1], info=dict(sentinel_leak=leak, stream="D"))
