"""C18 — uplink interrogation decoding (decoder/uplink.py)."""
import spec
from spec import hex_of, bits_of, val_of, GEN

OBLIGATION_MODULES = ["PyModeS.Properties.C18"]
TIE_MODULES = ['PyModeS.Tie.Uplink', 'PyModeS.Tie.C18Gen']
MAIN_THEOREM = "PyModeS.C18.uplink_fields_spec / uplink_icao_roundtrip"
RULE = ("UF x RR x DI with random SD; DI in {0,1,3,7} x RRS x IIS/SIS x LOS/LSS products; UF11 PR x IC x CL; addresses x both "
        "lengths through the Annex 10 uplink AP encoder; non-trivial = a field value (not None / '') expected")


def clmul(a, b):
    r = 0
    while b:
        if b & 1:
            r ^= a
        a <<= 1
        b >>= 1
    return r


def uplink_ap(data_bits, addr):
    """Annex 10 3.1.2.3.3.2: uplink AP = parity(data) XOR (high-order 24 bits of addr * G)"""
    p = spec.parity_of_data(data_bits)
    a = clmul(addr, GEN) >> 24
    return p ^ a


def oracle_frame(dhex, a):
    d = bits_of(int(dhex, 16), len(dhex) * 4)
    return hex_of(d + bits_of(uplink_ap(d, a), 24))


def hexd(n):
    return "%X" % n


def fields_spec(f):
    """expected (uf, bds, pr, ic, lockout) from the frame bits by Annex 10 positions (1-based bit numbers)"""
    bit = lambda a, b: val_of(f[a - 1:b])  # noqa
    uf = min(bit(1, 5), 24)
    bds = pr = ic = lock = None
    if uf == 11:
        pr = bit(6, 9)
        icf, cl = bit(10, 13), bit(14, 16)
        ic = {0: "II%d" % icf, 1: "SI%d" % icf, 2: "SI%d" % (icf + 16), 3: "SI%d" % (icf + 32), 4: "SI%d" % (icf + 48)}.get(cl, "")
    if uf in (4, 5, 20, 21):
        rr, di = bit(9, 13), bit(14, 16)
        lock = False
        rrs = 0
        if di in (0, 1, 7):
            ic = "II%d" % bit(17, 20)
        if di in (1, 7):
            lock = bit(26, 26) == 1
        if di == 7:
            rrs = bit(21, 24)
        if di == 3:
            ic = "SI%d" % bit(17, 22)
            lock = bit(23, 23) == 1
            rrs = bit(24, 27)
        if rr > 15:
            bds = hexd(rr - 16) + hexd(rrs)
    return uf, bds, pr, ic, lock


def c(x):
    if x is None:
        return "None"
    if x is True or x is False:
        return "True" if x else "False"
    if x == "":
        return "''"
    return str(x)


def fields_agree(m):
    """uplink_fields() reports the same values as the single-field functions (None/'' identified)"""
    from pyModeS.decoder import uplink as u
    d = u.uplink_fields(m)
    norm = lambda x: None if x in ("", None) else x  # noqa
    lock = u.lockout(m)
    ok = (norm(d["BDS"]) == norm(u.bds(m)) and norm(d["PR"]) == norm(u.pr(m)) and norm(d["IC"]) == norm(u.ic(m))
          and bool(d["LOS"]) == bool(lock))
    return "ok" if ok else "differ"


def cases(ctx):
    rng = ctx.rng
    U = "pyModeS.decoder.uplink."

    def emit(f, tag):
        m = hex_of(f, rng.choice(["upper", "lower"]))
        uf, bds, pr, ic, lock = fields_spec(f)
        triv = bds is None and pr is None and ic in (None, "") and not lock
        yield dict(op="uf " + m, real=(U + "uf", [m]), expect=str(uf), tag=tag + "-uf")
        yield dict(op="uplink.bds " + m, real=(U + "bds", [m]), expect=c(bds), tag=tag + "-bds", trivial=bds is None)
        yield dict(op="uplink.pr " + m, real=(U + "pr", [m]), expect=c(pr), tag=tag + "-pr", trivial=pr is None)
        # ic(): "" and None both mean "no interrogator code"
        yield dict(op="uplink.ic " + m, real=(U + "ic", [m]), pred=["pred_ic", c(ic)], tag=tag + "-ic", trivial=ic in (None, ""))
        yield dict(op="uplink.lockout " + m, real=(U + "lockout", [m]), expect=c(lock), tag=tag + "-lock", trivial=not lock)
        yield dict(op=None, real=("h:props.C18.fields_agree", [m]), expect="ok", tag=tag + "-agree", trivial=triv)
        di = val_of(f[13:16]) if uf in (4, 5, 20, 21) else None
        rr = val_of(f[8:13]) if uf in (4, 5, 20, 21) else None
        yield dict(op="uplink_fields " + m, real=("h:adapters.dictvals", [U + "uplink_fields", ["DI", "IC", "LOS", "PR", "RR", "RRS", "BDS"], m]),
                   tag=tag + "-fields", trivial=triv)

    for uf in range(32):
        n = 112 if uf in (16, 20, 21, 24) or uf >= 24 else 56
        for rr in range(32):
            for di in range(8):
                f = spec.background(rng, n, "rand")
                spec.put(f, 0, 5, uf)
                spec.put(f, 8, 5, rr)
                spec.put(f, 13, 3, di)
                if uf not in (4, 5, 20, 21, 11) and (rr * 8 + di) % 16:
                    continue
                yield from emit(f, "uf%d" % uf if uf in (4, 5, 20, 21, 11) else "uf-other")
    for uf in (4, 5, 20, 21):
        n = 112 if uf >= 20 else 56
        for di in (0, 1, 3, 7):
            for a in range(64):
                for b_ in range(16):
                    for l_ in (0, 1):
                        if not ctx.thorough and (a * 16 + b_) % 3:
                            continue
                        f = spec.background(rng, n, "rand")
                        spec.put(f, 0, 5, uf)
                        spec.put(f, 8, 5, rng.choice([rng.randrange(16), rng.randrange(16, 32)]))
                        spec.put(f, 13, 3, di)
                        if di == 3:
                            spec.put(f, 16, 6, a)
                            spec.put(f, 22, 1, l_)
                            spec.put(f, 23, 4, b_)
                        else:
                            spec.put(f, 16, 4, a % 16)
                            spec.put(f, 20, 4, b_)
                            spec.put(f, 25, 1, l_)
                        yield from emit(f, "sd-di%d" % di)
    for pr in range(16):
        for icf in range(16):
            for cl in range(8):
                f = spec.background(rng, 56, "rand")
                spec.put(f, 0, 5, 11)
                spec.put(f, 5, 4, pr)
                spec.put(f, 9, 4, icf)
                spec.put(f, 13, 3, cl)
                yield from emit(f, "uf11")
    # address recovery through the Annex 10 uplink encoder
    addrs = [0, 1, 0xFFFFFF, 0x800000, 0x000001, 0xABCDEF, 0x123456] + [rng.getrandbits(24) for _ in range(ctx.n(3000, 30000))]
    for a in addrs[:400]:
        n = rng.choice([56, 112, 72])
        d = spec.background(rng, n - 24)
        yield dict(op="spec.uplinkframe %s %d" % (hex_of(d), a), real=("h:props.C18.oracle_frame", [hex_of(d), a]), tag="spec-tie", trivial=True)
    for a in addrs:
        for n in (56, 112):
            d = spec.background(rng, n - 24)
            f = d + bits_of(uplink_ap(d, a), 24)
            m = hex_of(f, rng.choice(["upper", "lower"]))
            yield dict(op="uplink_icao " + m, real=(U + "uplink_icao", [m]), expect="%06X" % a, tag="icao-%d" % n)


def pred_ic(real_out, exp):
    norm = lambda x: "None" if x in ("''", "None") else x  # noqa
    return norm(real_out) == norm(exp), exp
