"""C19 — the software demodulator recovers cleanly modulated frames."""
import contextlib
import io

import spec
from spec import bits_of, hex_of

OBLIGATION_MODULES = ["PyModeS.Properties.C19"]
TIE_MODULES = ['PyModeS.Tie.Rtl', 'PyModeS.Tie.RtlBuffer', 'PyModeS.Tie.Crc', 'PyModeS.Tie.C19Gen']
MAIN_THEOREM = "PyModeS.C19.never_bad_df17 / clean_signal_recovered_partial"
RULE = ("synthetic PPM sample buffers on a dyadic amplitude grid: frame contents (DF17 good/bad parity, DF20/21, DF4/5/11) x start offsets "
        "(both parities) x amplitudes 0.3..1.4 x noise (constant / uniform, ratios 0..0.31 of the pulse amplitude) x 1-4 frames x spacings; "
        "non-trivial = at least one frame expected")

DEN = 1024
PRE = [1, 0, 1, 0, 0, 0, 0, 1, 0, 1, 0, 0, 0, 0, 0, 0]


def gen_frame(rng):
    k = rng.random()
    if k < 0.45:
        d = spec.background(rng, 88, "rand")
        spec.put(d, 0, 5, 17)
        good = rng.random() < 0.8
        p = spec.parity_of_data(d) ^ (0 if good else (1 << rng.randrange(24)))
        return d + bits_of(p, 24), good
    if k < 0.7:
        f = spec.background(rng, 112, "rand")
        spec.put(f, 0, 5, rng.choice([20, 21]))
        return f, True
    f = spec.background(rng, 56, "rand")
    spec.put(f, 0, 5, rng.choice([4, 5, 11]))
    return f, True


def modulate(bits, amp, noise):
    """2 samples per microsecond: preamble then one (high, low) / (low, high) pair per bit; `noise()` gives the low level"""
    s = [amp if p else noise() for p in PRE]
    for b in bits:
        s += [amp, noise()] if b else [noise(), amp]
    return s


def build_busy(rng, nframes):
    """a long, busy buffer: strong frames with the minimum legal spacing and a few weak ones in between"""
    def noise():
        return rng.randrange(0, 3)
    buf = [noise() for _ in range(260)]
    exp = []
    for k in range(nframes):
        bits, good = gen_frame(rng)
        amp = 318 if k % 45 == 30 else rng.choice([1331, 1433])
        buf += modulate(bits, amp, noise)
        if good:
            exp.append(hex_of(bits))
        buf += [noise() for _ in range(rng.randrange(240, 250))]
    return buf, exp


def build(rng, nframes, amp, ratio, kind, tail=None):
    """-> (samples as ints / DEN, expected hex list)"""
    c = int(amp * ratio)

    def noise():
        return c if kind == "const" else rng.randrange(0, c + 1)
    buf = [noise() for _ in range(rng.randrange(200, 500))]
    exp = []
    for _ in range(nframes):
        bits, good = gen_frame(rng)
        buf += modulate(bits, amp, noise)
        end = len(buf)
        if good:
            exp.append(hex_of(bits))
        buf += [noise() for _ in range(rng.randrange(240, 700))]
    if tail is not None:
        # the last frame is followed by only `tail` noise samples
        buf = buf[:end] + [noise() for _ in range(tail)]
    return buf, exp


_R = None


def run_demod(samples, den, nf):
    global _R
    if _R is None:
        with contextlib.redirect_stdout(io.StringIO()):
            from pyModeS.extra import rtlreader
        _R = rtlreader
    r = object.__new__(_R.RtlReader)
    r.signal_buffer = [x / den for x in samples]
    r.noise_floor = 1e6 if nf is None else nf
    r.debug = False
    ms = r._process_buffer()
    out = ",".join(m[0] for m in ms) if ms else "-"
    return "%s|%d" % (out, len(r.signal_buffer))


def run_demod_seq(bufs, den):
    """one reader, several buffers in a row (the running-minimum noise floor is state carried between calls)"""
    global _R
    if _R is None:
        with contextlib.redirect_stdout(io.StringIO()):
            from pyModeS.extra import rtlreader
        _R = rtlreader
    r = object.__new__(_R.RtlReader)
    r.noise_floor = 1e6
    r.debug = False
    outs = []
    for samples in bufs:
        r.signal_buffer = [x / den for x in samples]
        try:
            ms = r._process_buffer()
        except RuntimeError:
            outs.append("RE")
            break
        except Exception:  # noqa
            outs.append("EXC")
            break
        outs.append("%s|%d" % (",".join(m[0] for m in ms) if ms else "-", len(r.signal_buffer)))
    return ";".join(outs)


def pred_frames_seq(real_out, exps):
    got = [o.split("|")[0] for o in real_out.split(";")]
    return got == list(exps), ";".join(exps)


def pred_frames(real_out, exp, nbad17):
    if real_out in ("RE", "EXC"):
        return False, "frames " + exp
    got = real_out.split("|")[0]
    return got == exp, exp


def pred_no_bad17(real_out):
    """never returns a DF17 frame whose checksum is non-zero (independent CRC)"""
    if real_out in ("RE", "EXC"):
        return True, "n/a"
    got = real_out.split("|")[0]
    if got == "-":
        return True, "no frames"
    for m in got.split(","):
        if len(m) == 28 and (int(m[:2], 16) >> 3) == 17:
            if spec.polymod(int(m, 16), 112) != 0:
                return False, "DF17 with non-zero checksum returned: " + m
    return True, "every returned DF17 has checksum 0"


def k_snr(rec):
    """K4: noise between 0.2 and 0.316 of the pulse amplitude (10-14 dB): the trailing pair is not below 0.2*max"""
    i = rec.get("info") or {}
    return i.get("ratio", 0) > 0.2


KNOWN = {"C19-snr-10-14dB": k_snr}


def _cases(ctx):
    rng = ctx.rng
    amps = [308, 512, 717, 1024, 1229, 1433]          # 0.30 .. 1.40 in 1/1024
    ratios = [0.0, 0.05, 0.1, 0.19, 0.21, 0.25, 0.31]
    for _ in range(ctx.n(350, 3000)):
        amp = rng.choice(amps)
        ratio = rng.choice(ratios)
        kind = rng.choice(["const", "uniform"])
        if kind == "const" and ratio > 0.30:
            ratio = 0.30      # constant noise: the pulse must still clear 3.162 x noise
        buf, exp = build(rng, rng.randrange(1, 5), amp, ratio, kind)
        s = ",".join(map(str, buf))
        e = ",".join(exp) if exp else "-"
        info = dict(amp=amp, ratio=ratio, kind=kind)
        yield dict(op="demod - %d %s" % (DEN, s), real=("h:props.C19.run_demod", [buf, DEN, None]), pred=["pred_frames", e, 0],
                   tag="r%.2f-%s" % (ratio, kind), info=info, trivial=not exp)
        yield dict(op=None, real=("h:props.C19.run_demod", [buf, DEN, None]), pred=["pred_no_bad17"], tag="no-bad-df17", info=dict(amp=amp, ratio=0))
    # a complete frame close to the end of the buffer
    for tail in [0, 1, 2, 3, 10, 57, 112, 113, 114, 115, 200]:
        for _ in range(ctx.n(3, 30)):
            amp = rng.choice(amps)
            buf, exp = build(rng, rng.randrange(1, 3), amp, rng.choice([0.0, 0.05, 0.1]), "uniform", tail=tail)
            if len(buf) < 420:
                continue
            e = ",".join(exp) if exp else "-"
            yield dict(op="demod - %d %s" % (DEN, ",".join(map(str, buf))), real=("h:props.C19.run_demod", [buf, DEN, None]),
                       pred=["pred_frames", e, 0], tag="tail-%d" % tail, info=dict(amp=amp, ratio=0.0, tail=tail), trivial=not exp)
    # several buffers through one reader: a quiet buffer first, then a short burst in which no complete 100-microsecond
    # window is free of frame energy (the floor learnt earlier must still be in force), then an ordinary buffer again
    for _ in range(ctx.n(12, 120)):
        amp = rng.choice(amps)
        seq, exps = [], []
        b1, e1 = build(rng, rng.randrange(1, 3), amp, rng.choice([0.0, 0.02, 0.05]), "uniform")
        seq.append(b1); exps.append(",".join(e1) if e1 else "-")
        for _k in range(rng.randrange(1, 3)):
            b2, e2 = build(rng, 1, amp, 0.02, "uniform")
            first = next((i for i, v in enumerate(b2) if v > amp * 0.5), 0)
            start = max(0, first - rng.randrange(0, 12))
            burst = b2[start:start + rng.choice([330, 380, 399])]
            seq.append(burst)
            exps.append(",".join(e2) if e2 else "-")
        b3, e3 = build(rng, rng.randrange(1, 3), amp, 0.05, "uniform")
        seq.append(b3); exps.append(",".join(e3) if e3 else "-")
        yield dict(op="demodseq - %d %s" % (DEN, ";".join(",".join(map(str, b)) for b in seq)),
                   real=("h:props.C19.run_demod_seq", [seq, DEN]), pred=["pred_frames_seq", exps], tag="reader-history",
                   info=dict(amp=amp, ratio=0.02))
    # long busy buffers (the noise floor must come from 100-microsecond windows)
    for _ in range(ctx.n(2, 10)):
        buf, exp = build_busy(rng, rng.randrange(410, 425))     # about 204800 samples, the reader's real buffer size
        e = ",".join(exp) if exp else "-"
        yield dict(op="demod - %d %s" % (DEN, ",".join(map(str, buf))), real=("h:props.C19.run_demod", [buf, DEN, None]),
                   pred=["pred_frames", e, 0], tag="busy", info=dict(amp=0, ratio=0.0))
    # random garbage buffers: never a bad DF17
    for _ in range(ctx.n(60, 2000)):
        n = rng.randrange(400, 3000)
        buf = [rng.randrange(0, 1500) if rng.random() < 0.5 else rng.randrange(0, 100) for _ in range(n)]
        yield dict(op="demod - %d %s" % (DEN, ",".join(map(str, buf))), real=("h:props.C19.run_demod", [buf, DEN, None]),
                   pred=["pred_no_bad17"], tag="garbage", trivial=True, info=dict(ratio=0))


def cases(ctx):
    """_cases with the operation of the source-generated model attached (RtlReader._process_buffer as translated from
    the current source, run by gendriver on the same sample buffers)"""
    for c in _cases(ctx):
        real = c["real"]
        if real[0] == "h:props.C19.run_demod" and real[1][2] is None and len(real[1][0]) < 6000:
            c["gop"] = "!demod rtlreader.RtlReader__process_buffer %d %s" % (real[1][1], ",".join(map(str, real[1][0])))
        elif real[0] == "h:props.C19.run_demod_seq" and sum(len(b) for b in real[1][0]) < 12000:
            c["gop"] = "!demod rtlreader.RtlReader__process_buffer %d %s" % (real[1][1], ";".join(",".join(map(str, b)) for b in real[1][0]))
        yield c
