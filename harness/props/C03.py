"""C03 — airborne CPR global decode recovers the encoded position."""
from fractions import Fraction as F

import cpr
import spec
from spec import hex_of

OBLIGATION_MODULES = ["PyModeS.Properties.C03"]
TIE_MODULES = ['PyModeS.Tie.Cpr', 'PyModeS.Tie.CprGlobal', 'PyModeS.Tie.Adsb', 'PyModeS.Tie.C03Gen']
MAIN_THEOREM = "PyModeS.C03.global_lat / global_lon / none_iff_NL_differs / same_parity_runtimeError"
RULE = ("positions: every NL transition +-{0,1,2} latitude bins both hemispheres, poles, equator, lon 0/+-90/+-180, zone edges, the 87 band, "
        "random; x displacements <= 1 NM in 8 directions x both time orders x both argument orders x TC 9-18/20-22; "
        "non-trivial = a position (not None) is expected")


def frame(rng, tc, enc, i):
    f = spec.adsb_frame(rng, tc, [(21, 1, i), (22, 17, enc["yz"]), (39, 17, enc["xz"])], df=rng.choice([17, 18]))
    return hex_of(f, rng.choice(["upper", "lower"]))


def pred_pos(real_out, rlat, rlon, tlat, tlon):
    """within one quantisation step of the carried position (lon modulo 360), lon in [-180, 180]"""
    if real_out in ("None", "RE", "EXC"):
        return False, "position near %s,%s" % (rlat, rlon)
    la, lo = real_out.split("|")
    la, lo = F(float(la)), F(float(lo))
    ok = abs(la - F(rlat)) <= F(tlat) and abs(cpr.angdiff(lo, F(rlon))) <= F(tlon) and -180 <= lo <= 180
    return ok, "%s|%s within (%s, %s)" % (float(F(rlat)), float(F(rlon)), float(F(tlat)), float(F(tlon)))


def positions(ctx):
    rng = ctx.rng
    pts = []
    lons = [0.0, 1e-7, -1e-7, 90.0, -90.0, 179.99999, -180.0, -179.99999, 45.0, 123.456, -77.7]
    step = 6 / 131072.0
    for th in cpr.transition_lats():
        t = float(th)
        for sgn in (1, -1):
            for k in (-2, -1, 0, 1, 2):
                pts.append((sgn * (t + k * step), rng.choice(lons)))
    for la in (90.0, -90.0, 89.9999, -89.9999, 0.0, 1e-6, -1e-6, 87.0, -87.0, 87.0004, 87.0009, -87.0004, 86.9995):
        for lo in lons[:6]:
            pts.append((la, lo))
    x = 87.0
    while x < 87.001:
        pts.append((x, rng.choice(lons)))
        pts.append((-x, rng.choice(lons)))
        x += 1e-5 * (1 if ctx.thorough else 5)
    for _ in range(ctx.n(1500, 12000)):
        pts.append((rng.uniform(-90, 90), rng.uniform(-180, 180)))
    # zone edges in longitude at random latitudes
    for _ in range(ctx.n(300, 5000)):
        la = rng.uniform(-88, 88)
        n = cpr.nl(F(la))
        z = rng.randrange(max(n, 1))
        lo = (360.0 / max(n, 1)) * z + rng.choice([0, 1e-6, -1e-6])
        lo = (lo + 180) % 360 - 180
        pts.append((la, lo))
    return pts


def with_datetime(path, m0, m1, e0, e1, *rest):
    """same call with datetime timestamps (epoch seconds given as floats, sub-second resolution)"""
    import datetime
    import run
    t0 = datetime.datetime.fromtimestamp(e0, datetime.timezone.utc)
    t1 = datetime.datetime.fromtimestamp(e1, datetime.timezone.utc)
    return run.resolve(path)(m0, m1, t0, t1, *rest)


def cases(ctx):
    rng = ctx.rng
    for (la, lo) in positions(ctx):
        for brg in ([rng.uniform(0, 360)] if not ctx.thorough else [0, 45, 90, 135, 180, 225, 270, 315]):
            dist = rng.choice([0.0, 0.999, rng.uniform(0, 0.999)])
            la2, lo2 = cpr.displace(la, lo, brg, dist)
            if cpr.haversine_nm(la, lo, la2, lo2) > 0.9995:
                continue
            try:
                e0 = cpr.encode(F(la), F(lo), 0)
                e1 = cpr.encode(F(la2), F(lo2), 1)
            except ValueError:
                continue
            tcs = rng.choice([list(range(9, 19)), [20, 21, 22]])
            m0 = frame(rng, rng.choice(tcs), e0, 0)
            m1 = frame(rng, rng.choice(tcs), e1, 1)
            for later in (0, 1):
                t0, t1 = (rng.randrange(1, 10 ** 6), 0)
                t1 = t0 + rng.randrange(1, 10) if later == 1 else t0 - rng.randrange(1, 10)
                newer = e1 if later == 1 else e0
                same_nl = cpr.nl(e0["rlat"]) == cpr.nl(e1["rlat"])
                for swap in (0, 1):
                    a = (m0, m1, t0, t1) if not swap else (m1, m0, t1, t0)
                    op = "%s %s %s %d %d" % ("position", a[0], a[1], a[2], a[3])
                    if same_nl:
                        pred = ["pred_pos", cpr.fr(newer["rlat"]), cpr.fr(newer["rlon"]), cpr.fr(newer["dlat"] / 131072), cpr.fr(newer["dlon"] / 131072)]
                        exp = None
                    else:
                        pred, exp = None, "None"
                    fn = rng.choice(["pyModeS.adsb.position", "pyModeS.adsb.airborne_position"])
                    if fn.endswith("airborne_position"):
                        op = "airborne_" + op
                    yield dict(op=op, real=(fn, list(a)), pred=pred, expect=exp, tag="pair" if same_nl else "nl-differs",
                               trivial=not same_nl, info=dict(lat=la, lon=lo))
                    if rng.random() < 0.15:
                        # datetime timestamps less than a second apart (same whole second most of the time)
                        base = 1.7e9 + rng.randrange(10 ** 6)
                        d = rng.choice([0.001, 0.25, 0.5, 0.999])
                        ea, eb = (base, base + d) if a[3] > a[2] else (base + d, base)
                        yield dict(op=None, real=("h:props.C03.with_datetime", [fn, a[0], a[1], ea, eb]), pred=pred, expect=exp,
                                   tag="pair-datetime", trivial=not same_nl, info=dict(lat=la, lon=lo))
    # same parity -> RuntimeError ; TC routing
    for _ in range(ctx.n(200, 2000)):
        la, lo = rng.uniform(-80, 80), rng.uniform(-180, 180)
        i = rng.randrange(2)
        e = cpr.encode(F(la), F(lo), i)
        m0, m1 = frame(rng, 11, e, i), frame(rng, 12, e, i)
        yield dict(op="position %s %s 1 2" % (m0, m1), real=("pyModeS.adsb.position", [m0, m1, 1, 2]), expect="RE", tag="same-parity", trivial=True)
    for tc0 in range(32):
        for tc1 in (5, 9, 18, 19, 20, 22, 0, 31):
            e0, e1 = cpr.encode(F(10), F(20), 0), cpr.encode(F(10), F(20), 1)
            m0, m1 = frame(rng, tc0, e0, 0), frame(rng, tc1, e1, 1)
            air = (9 <= tc0 <= 18 and 9 <= tc1 <= 18) or (20 <= tc0 <= 22 and 20 <= tc1 <= 22)
            if not air:
                yield dict(op="position %s %s 1 2" % (m0, m1), real=("pyModeS.adsb.position", [m0, m1, 1, 2]), expect="RE",
                           tag="routing", trivial=True)
