"""C12 — BDS register inference is total, format-sound and complete on plausible data."""
import spec
from spec import hex_of

OBLIGATION_MODULES = ["PyModeS.Properties.C12"]
TIE_MODULES = ['PyModeS.Tie.Basic', 'PyModeS.Tie.Bds10', 'PyModeS.Tie.Bds17', 'PyModeS.Tie.Bds20', 'PyModeS.Tie.Bds40', 'PyModeS.Tie.Bds44', 'PyModeS.Tie.Bds45', 'PyModeS.Tie.Bds50', 'PyModeS.Tie.Bds53', 'PyModeS.Tie.Is60', 'PyModeS.Tie.Infer', 'PyModeS.Tie.C12Gen', 'PyModeS.Tie.C12GenB']
MAIN_THEOREM = "PyModeS.C12.infer_* (total, EMPTY, DF17 by TC, Comm-B = set of satisfied rules)"
RULE = ("validly encoded in-envelope register contents (completeness), each status / reserved bit violated on otherwise valid payloads "
        "(soundness), each plausibility threshold +-1 LSB, random payloads, DF17 x TC, all-zero payloads, mrar in {False, True}; "
        "non-trivial = at least one register is expected")

LEGAL = list(range(1, 27)) + [32] + list(range(48, 58))
REGS = ["BDS10", "BDS17", "BDS20", "BDS30", "BDS40", "BDS44", "BDS45", "BDS50", "BDS60"]


def mb(fields):
    b = [0] * 56
    for pos, w, v in fields:
        spec.put(b, pos - 1, w, v)     # 1-based MB bit numbers
    return b


def frame(rng, mbbits, df=None, alt13=None):
    df = df if df is not None else rng.choice([20, 21])
    f = spec.background(rng, 112, "rand")
    spec.put(f, 0, 5, df)
    f[32:88] = mbbits
    if alt13 is not None:
        spec.put(f, 19, 13, alt13)
    return hex_of(f, rng.choice(["upper", "lower"]))


# ---- valid register contents (Doc 9871), returning (fields, name)

def gen10(rng):
    ovc = rng.randrange(2)
    return mb([(1, 8, 0x10), (9, 1, rng.randrange(2)), (15, 1, ovc), (16, 1, rng.randrange(2)),
               (17, 7, rng.randrange(5, 128) if ovc else rng.randrange(0, 5)), (24, 33, rng.getrandbits(33))])


def gen17(rng):
    caps = rng.getrandbits(24) | (1 << (23 - 6))     # BDS 2,0 supported
    return mb([(1, 24, caps)])


def gen20(rng):
    return mb([(1, 8, 0x20)] + [(9 + 6 * i, 6, rng.choice(LEGAL)) for i in range(8)])


def gen30(rng):
    return mb([(1, 8, 0x30), (9, 7, rng.getrandbits(7)), (16, 7, rng.randrange(48)), (23, 6, rng.getrandbits(6)),
               (29, 2, rng.randrange(3)), (31, 26, rng.getrandbits(26))])


def sfield(rng, st, msb, lsb, lo=None, hi=None):
    """status + value (value zero when status 0)"""
    w = lsb - msb + 1
    on = rng.random() < 0.8
    v = rng.randrange(lo if lo is not None else 0, (hi if hi is not None else (1 << w) - 1) + 1) if on else 0
    return [(st, 1, 1 if on else 0), (msb, w, v)]


def gen40(rng):
    f = sfield(rng, 1, 2, 13) + sfield(rng, 14, 15, 26) + sfield(rng, 27, 28, 39) + sfield(rng, 48, 49, 51) + sfield(rng, 54, 55, 56)
    return mb(f)


def gen50(rng):
    # roll |angle| <= 50 deg -> |N| <= 284 (45/256 deg), GS/TAS <= 600 kt -> N <= 300, |TAS-GS| <= 200 -> |dN| <= 100
    f = []
    if rng.random() < 0.8:
        n = rng.randrange(-284, 285)
        f += [(1, 1, 1), (2, 1, 1 if n < 0 else 0), (3, 9, n & 0x1FF)]
    if rng.random() < 0.8:
        n = rng.randrange(-512, 512)
        f += [(12, 1, 1), (13, 1, 1 if n < 0 else 0), (14, 10, n & 0x3FF)]
    gs = rng.randrange(0, 301)
    tas = max(0, min(300, gs + rng.randrange(-100, 101)))
    if rng.random() < 0.85:
        f += [(24, 1, 1), (25, 10, gs)]
    if rng.random() < 0.8:
        n = rng.randrange(-256, 256)
        f += [(35, 1, 1), (36, 1, 1 if n < 0 else 0), (37, 9, n & 0x1FF)]
    if rng.random() < 0.85:
        f += [(46, 1, 1), (47, 10, tas)]
    return mb(f)


def _mach2cas_kt(mach, alt_ft):
    """ISA Mach -> CAS (generator only; the oracle uses its own computation)"""
    h = alt_ft * 0.3048
    T = max(288.15 - 0.0065 * h, 216.65)
    p = 101325.0 * (T / 288.15) ** 5.2558797 if h <= 11000 else 22632.0 * 2.718281828459045 ** (-(h - 11000) * 9.80665 / (287.05287 * 216.65))
    qc = p * ((1 + 0.2 * mach * mach) ** 3.5 - 1)
    return 340.293988 * (5 * ((qc / 101325.0 + 1) ** (2 / 7.0) - 1)) ** 0.5 / 0.514444


def gen5060(rng, alt_ft=None):
    """payload that is status-consistent and plausible under BOTH the BDS 5,0 and the BDS 6,0 layout, with track, ground speed,
    heading and IAS and/or Mach present (1-based bit numbers): the decidable case of is50or60"""
    f = [(1, 1, 1), (2, 1, rng.randrange(2)), (3, 9, rng.choice([rng.randrange(0, 200), rng.randrange(330, 512)])),
         (12, 1, 1)]
    gs = rng.randrange(40, 250)
    if rng.random() < 0.7:
        ias = rng.randrange(60, 500)
        if alt_ft is not None and rng.random() < 0.8:
            # IAS consistent (within ~10 kt) with the Mach number gs*0.004 at the reference altitude
            ias = max(1, min(500, int(round(_mach2cas_kt(gs * 0.004, alt_ft))) + rng.randrange(-10, 11)))
        f += [(13, 1, 1), (14, 10, ias)]      # IAS status = track sign
    f += [(24, 1, 1), (25, 10, gs)]                               # GS <= 600 kt and Mach <= 1
    if rng.random() < 0.5:
        n = rng.randrange(-150, 150)
        f += [(35, 1, 1), (36, 1, 1 if n < 0 else 0), (37, 9, n & 0x1FF)]
    if rng.random() < 0.6:
        f += [(46, 1, 1), (47, 10, max(0, min(187, gs + rng.randrange(-90, 91))))]
    return mb(f)


def gen60(rng, with_ias_mach=True):
    f = []
    if rng.random() < 0.8:
        n = rng.randrange(-512, 512)
        f += [(1, 1, 1), (2, 1, 1 if n < 0 else 0), (3, 10, n & 0x3FF)]
    if with_ias_mach and rng.random() < 0.85:
        f += [(13, 1, 1), (14, 10, rng.randrange(0, 501))]
    if with_ias_mach and rng.random() < 0.85:
        f += [(24, 1, 1), (25, 10, rng.randrange(0, 251))]
    for st in (35, 46):
        if rng.random() < 0.8:
            n = rng.randrange(-187, 188)      # 6000/32 = 187.5
            f += [(st, 1, 1), (st + 1, 1, 1 if n < 0 else 0), (st + 2, 9, n & 0x1FF)]
    return mb(f)


def gen44(rng):
    """BDS 4,4 meteorological routine report: source 1-4 | wind status, speed (kt), direction | temperature sign + 10 bits |
    pressure status + 11 bits | turbulence status + 2 bits | humidity status + 6 bits; temperature within [-80, +60] C in the
    0.25 C reading (hence in both readings the decoder tries)"""
    n = rng.randrange(-320, 241)
    f = [(1, 4, rng.randrange(0, 5)), (24, 1, 1 if n < 0 else 0), (25, 10, n & 0x3FF)]
    if rng.random() < 0.8:
        f += [(5, 1, 1), (6, 9, rng.randrange(0, 251)), (15, 9, rng.getrandbits(9))]
    f += sfield(rng, 35, 36, 46) + sfield(rng, 47, 48, 49) + sfield(rng, 50, 51, 56)
    return mb(f)


def gen45(rng):
    """BDS 4,5 meteorological hazard report: five 2-bit hazards with status, temperature (status, sign, 9 bits of 0.25 C,
    within [-80, +60]), pressure (11 bits), radio height (12 bits), bits 52-56 reserved zero"""
    f = []
    for st in (1, 4, 7, 10, 13):
        f += sfield(rng, st, st + 1, st + 2)
    if rng.random() < 0.8:
        n = rng.randrange(-320, 241)
        f += [(16, 1, 1), (17, 1, 1 if n < 0 else 0), (18, 9, n & 0x1FF)]
    f += sfield(rng, 27, 28, 38) + sfield(rng, 39, 40, 51)
    return mb(f)


def gen53(rng):
    """BDS 5,3 air-referenced state vector: heading (status 1, sign 2, 10 bits), IAS (13, 10 bits <= 500 kt), Mach (24, 9 bits of
    0.008 <= 1), TAS (34, 12 bits of 0.5 kt <= 500 kt), vertical rate (47, sign 48, 8 bits of 64 ft/min, <= 8000)"""
    f = []
    if rng.random() < 0.8:
        f += [(1, 1, 1), (2, 1, rng.randrange(2)), (3, 10, rng.getrandbits(10))]
    f += sfield(rng, 13, 14, 23, 0, 500) + sfield(rng, 24, 25, 33, 0, 125) + sfield(rng, 34, 35, 46, 0, 1000)
    if rng.random() < 0.8:
        f += [(47, 1, 1), (48, 1, rng.randrange(2)), (49, 8, rng.choice([rng.randrange(0, 126), rng.randrange(131, 256)]))]
    return mb(f)


GENS = {"BDS10": gen10, "BDS17": gen17, "BDS20": gen20, "BDS30": gen30, "BDS40": gen40, "BDS44": gen44, "BDS45": gen45,
        "BDS50": gen50, "BDS60": gen60}
MRAR_ONLY = ("BDS44", "BDS45")
STATUS53 = [(1, 3, 12), (13, 14, 23), (24, 25, 33), (34, 35, 46), (47, 49, 56)]

# status rules (status bit, msb, lsb) per register as documented (Doc 9871: a field whose status bit is 0 is all zeros)
STATUS = {
    "BDS40": [(1, 2, 13), (14, 15, 26), (27, 28, 39), (48, 49, 51), (54, 55, 56)],
    "BDS44": [(5, 6, 23), (35, 36, 46), (47, 48, 49), (50, 51, 56)],
    "BDS45": [(1, 2, 3), (4, 5, 6), (7, 8, 9), (10, 11, 12), (13, 14, 15), (16, 17, 26), (27, 28, 38), (39, 40, 51)],
    "BDS50": [(1, 2, 11), (12, 13, 23), (24, 25, 34), (35, 36, 45), (46, 47, 56)],
    "BDS60": [(1, 2, 12), (13, 14, 23), (24, 25, 34), (35, 36, 45), (46, 47, 56)],
}
RESERVED = {"BDS40": [(40, 47), (52, 53)], "BDS10": [(10, 14)], "BDS17": [(25, 56)], "BDS45": [(52, 56)]}


def pred_contains(real_out, reg):
    ok = real_out not in ("None", "RE", "EXC") and reg in real_out.split(",")
    return ok, "contains " + reg


def pred_excludes(real_out, reg):
    ok = real_out not in ("RE", "EXC") and reg not in real_out.split(",")
    return ok, "does not contain " + reg


def consistent(m, mrar):
    """infer == sorted comma-join of the registers whose isXX() holds (None if none); total"""
    import pyModeS as pms
    from pyModeS.decoder.bds import bds10, bds17, bds20, bds30, bds40, bds44, bds45, bds50, bds60
    r = pms.bds.infer(m, mrar)
    mods = dict(BDS10=bds10.is10, BDS17=bds17.is17, BDS20=bds20.is20, BDS30=bds30.is30, BDS40=bds40.is40, BDS44=bds44.is44,
                BDS45=bds45.is45, BDS50=bds50.is50, BDS60=bds60.is60)
    regs = [k for k in REGS if (mrar or k not in ("BDS44", "BDS45")) and mods[k](m)]
    exp = ",".join(sorted(regs)) if regs else None
    if pms.common.allzeros(m):
        exp = "EMPTY"
    return "ok" if r == exp else "infer=%r rules=%r" % (r, exp)


def p_is50or60(m, spd_ref, trk_ref, alt_ref):
    """is50or60: None unless both registers apply; otherwise one of the three labels, and a single label is the
    interpretation whose velocity vector is closest to the reference (ties / missing data -> both)"""
    import numpy as np
    import pyModeS as pms
    from pyModeS.decoder.bds import bds50, bds60
    from pyModeS.extra import aero
    r = pms.bds.is50or60(m, spd_ref, trk_ref, alt_ref)
    both = bds50.is50(m) and bds60.is60(m)
    if not both:
        return "ok" if r is None else "expected None, got %r" % (r,)
    if r not in ("BDS50", "BDS60", "BDS50,BDS60"):
        return "bad label %r" % (r,)
    # independent distance computation
    def vec(v, ang):
        return np.array([v * np.sin(np.radians(ang)), v * np.cos(np.radians(ang))])
    ref = vec(spd_ref * aero.kts, trk_ref)
    h50, v50 = bds50.trk50(m), bds50.gs50(m)
    h60, m60, i60 = bds60.hdg60(m), bds60.mach60(m), bds60.ias60(m)
    if m60 is not None and i60 is not None and abs(i60 - aero.mach2cas(m60, alt_ref * aero.ft) / aero.kts) > 20:
        CLASSES["inconsistent60"] = CLASSES.get("inconsistent60", 0) + 1
        return "ok" if r == "BDS50" else "IAS/Mach inconsistent with altitude: expected BDS50, got %r" % (r,)
    if None in (h50, v50, h60) or (m60 is None and i60 is None):
        CLASSES["undecidable"] = CLASSES.get("undecidable", 0) + 1
        return "ok" if r == "BDS50,BDS60" else "undecidable input must give both labels, got %r" % (r,)
    d50 = np.linalg.norm(vec(v50 * aero.kts, h50) - ref)
    ds = []
    if m60 is not None:
        ds.append(np.linalg.norm(vec(aero.mach2tas(m60, alt_ref * aero.ft), h60) - ref))
    if i60 is not None:
        ds.append(np.linalg.norm(vec(aero.cas2tas(i60 * aero.kts, alt_ref * aero.ft), h60) - ref))
    d60 = min(ds)
    CLASSES["decided"] = CLASSES.get("decided", 0) + 1
    if abs(d50 - d60) < 1e-6:
        return "ok"
    # both interpretations are available and their distances differ: exactly the closer one must be named
    want = "BDS50" if d50 < d60 else "BDS60"
    return "ok" if r == want else "closest is %s (d50=%.3f d60=%.3f), got %r" % (want, d50, d60, r)


CLASSES = {}


def k_roll_sign(rec):
    i = rec.get("info") or {}
    return i.get("rule") == ("BDS50", 1, 2, 11) and i.get("bit") == 2


KNOWN = {}


ISFN = {r: ("is" + r[3:], "pyModeS.decoder.bds.bds%s.is%s" % (r[3:], r[3:])) for r in
        ("BDS10", "BDS17", "BDS20", "BDS30", "BDS40", "BDS44", "BDS45", "BDS50", "BDS53", "BDS60")}


def neighbourhood(rng, ctx):
    """every single-bit neighbour of valid (and of sparse, partly-valid) payloads of each register, and every value of every
    8..12-bit window ending at each field boundary: model and real code must agree on isXX / infer everywhere, so a rule whose
    bit range or threshold is off by one is exposed whichever way it moved"""
    for reg, g in list(GENS.items()) + [("BDS53", gen53)]:
        op, path = ISFN[reg]
        for _ in range(ctx.n(6, 40)):
            if g is None:
                base = [b if rng.random() < 0.3 else 0 for b in spec.background(rng, 56, "rand")]
            else:
                base = g(rng)
                if rng.random() < 0.5:
                    # switch a random subset of 8-bit windows off entirely (status and value zero)
                    for k in range(0, 56, 8):
                        if rng.random() < 0.4:
                            base[k:k + 8] = [0] * 8
            for bit in range(56):
                bits = list(base)
                bits[bit] ^= 1
                if not any(bits):
                    continue
                m = frame(rng, bits, df=21)
                yield dict(op="%s %s" % (op, m), real=(path, [m]), tag="nbhd-" + reg, trivial=True)
                if reg != "BDS53" and bit % 4 == 0:
                    yield dict(op="infer1 " + m, real=("pyModeS.bds.infer", [m, True]), tag="nbhd-infer", trivial=True)
        # one field switched off (status 0, value 0), every single bit flipped: a status rule whose range is off by one shows
        for (st, msb, lsb) in STATUS.get(reg, []) + (STATUS53 if reg == "BDS53" else []):
            for _ in range(ctx.n(1, 4)):
                base = g(rng) if g is not None else [b if rng.random() < 0.2 else 0 for b in spec.background(rng, 56, "rand")]
                base[st - 1] = 0
                for k in range(msb, lsb + 1):
                    base[k - 1] = 0
                for bit in range(56):
                    bits = list(base)
                    bits[bit] ^= 1
                    if not any(bits):
                        continue
                    m = frame(rng, bits, df=21)
                    yield dict(op="%s %s" % (op, m), real=(path, [m]), tag="nbhd-off-" + reg, trivial=True)
        # field-aligned sweeps: every raw value of every status-guarded field (status on), rest of the payload valid
        for (st, msb, lsb) in STATUS.get(reg, []) + (STATUS53 if reg == "BDS53" else []):
            w = lsb - msb + 1
            base = g(rng) if g is not None else [0] * 56
            base[st - 1] = 1
            for v in range(0, 1 << w, 1 if (w <= 10 or ctx.thorough) else 3):
                bits = list(base)
                bits[msb - 1:lsb] = spec.bits_of(v, w)
                m = frame(rng, bits, df=21)
                yield dict(op="%s %s" % (op, m), real=(path, [m]), tag="field-sweep-" + reg, trivial=True)
        # value sweeps: all values of the 12-bit window starting at every 4th bit, everything else from a valid payload
        for start in range(0, 56, 4):
            base = g(rng) if g is not None else [0] * 56
            w = min(12, 56 - start)
            vals = range(1 << w) if ctx.thorough else sorted(set(list(range(0, 1 << w, 7)) + [v for c in (0, 48, 60, 80, 187, 250, 284, 300, 320, 500, 512, 600, 1 << (w - 1)) for v in (c - 1, c, c + 1) if 0 <= v < (1 << w)]))
            for v in vals:
                bits = list(base)
                bits[start:start + w] = spec.bits_of(v, w)
                if not any(bits):
                    continue
                m = frame(rng, bits, df=21)
                yield dict(op="%s %s" % (op, m), real=(path, [m]), tag="sweep-" + reg, trivial=True)


def cases(ctx):
    rng = ctx.rng
    I = "pyModeS.bds.infer"
    yield from neighbourhood(rng, ctx)
    # --- totality, EMPTY, DF17 by TC
    for df in (17, 18, 20, 21, 4, 0, 11):
        m = frame(rng, [0] * 56, df=df)
        yield dict(op="infer0 " + m, real=(I, [m]), expect="EMPTY", tag="empty")
    TCMAP = {**{t: "BDS08" for t in range(1, 5)}, **{t: "BDS06" for t in range(5, 9)}, **{t: "BDS05" for t in range(9, 19)}, 19: "BDS09",
             20: "BDS05", 21: "BDS05", 22: "BDS05", 28: "BDS61", 29: "BDS62", 31: "BDS65"}
    for tc in range(32):
        for _ in range(ctx.n(4, 40)):
            f = spec.adsb_frame(rng, tc, [], df=17)
            if not any(f[32:88]):
                continue
            m = hex_of(f)
            yield dict(op="infer0 " + m, real=(I, [m]), expect=TCMAP.get(tc), tag="df17", trivial=tc not in TCMAP)
    # --- completeness
    for reg, g in GENS.items():
        for _ in range(ctx.n(600, 5000)):
            bits = g(rng)
            if not any(bits):
                continue
            if reg == "BDS60":
                df = rng.choice([20, 21, 21])
                if df == 20:
                    bits = gen60(rng, with_ias_mach=False)   # altitude cross-check is a float criterion: exercised separately
                    if not any(bits):
                        continue
                m = frame(rng, bits, df=df)
            else:
                m = frame(rng, bits)
            for mrar in (False, True):
                if reg in MRAR_ONLY and not mrar:
                    yield dict(op="infer0 " + m, real=(I, [m, False]), pred=["pred_excludes", reg], tag="mrar-off-" + reg)
                    continue
                yield dict(op="infer%d %s" % (mrar, m), real=(I, [m, mrar]), pred=["pred_contains", reg], tag="complete-" + reg)
            yield dict(op="%s %s" % (ISFN[reg][0], m), real=(ISFN[reg][1], [m]), expect="True", tag="complete-is-" + reg)
            yield dict(op=None, real=("h:props.C12.consistent", [m, rng.random() < 0.5]), expect="ok", tag="consistent")
    # --- soundness: violate one status rule / reserved bit of an otherwise valid payload
    for reg, rules in STATUS.items():
        for (st, msb, lsb) in rules:
            for bit in range(msb, lsb + 1):
                for _ in range(ctx.n(6, 60)):
                    bits = GENS[reg](rng)
                    spec.put(bits, st - 1, 1, 0)
                    for k in range(msb, lsb + 1):
                        bits[k - 1] = 0
                    bits[bit - 1] = 1
                    m = frame(rng, bits, df=21)
                    # BDS 4,4 / 4,5 are only candidates with mrar=True
                    yield dict(op="infer1 " + m, real=(I, [m, True]), pred=["pred_excludes", reg], tag="sound-status-" + reg,
                               info=dict(rule=(reg, st, msb, lsb), bit=bit))
                    yield dict(op="%s %s" % (ISFN[reg][0], m), real=(ISFN[reg][1], [m]), expect="False", tag="sound-status-is-" + reg,
                               info=dict(rule=(reg, st, msb, lsb), bit=bit))
    for reg, spans in RESERVED.items():
        for (a, b_) in spans:
            for bit in range(a, b_ + 1):
                for _ in range(ctx.n(4, 40)):
                    bits = GENS[reg](rng)
                    bits[bit - 1] = 1
                    m = frame(rng, bits, df=21)
                    yield dict(op="infer1 " + m, real=(I, [m, True]), pred=["pred_excludes", reg], tag="sound-reserved-" + reg)
                    yield dict(op="%s %s" % (ISFN[reg][0], m), real=(ISFN[reg][1], [m]), expect="False", tag="sound-reserved-is-" + reg)
    # --- thresholds +- 1 LSB (BDS50 GS/TAS 600 kt = 300 LSB, roll 50 deg = 284.4 LSB, BDS60 IAS 500, Mach 1 = 250, VR 6000 = 187.5)
    for n, inside in ((300, True), (301, False)):
        m = frame(rng, mb([(24, 1, 1), (25, 10, n), (46, 1, 1), (47, 10, n)]), df=21)
        yield dict(op="is50 " + m, real=("pyModeS.commb.is50", [m]), expect=str(inside), tag="thr-gs50")
    for n, inside in ((284, True), (285, False), (-284, True), (-285, False)):
        m = frame(rng, mb([(1, 1, 1), (2, 1, 1 if n < 0 else 0), (3, 9, n & 0x1FF), (24, 1, 1), (25, 10, 100)]), df=21)
        yield dict(op="is50 " + m, real=("pyModeS.commb.is50", [m]), expect=str(inside), tag="thr-roll50")
    for d_, inside in ((100, True), (101, False)):
        m = frame(rng, mb([(24, 1, 1), (25, 10, 100), (46, 1, 1), (47, 10, 100 + d_)]), df=21)
        yield dict(op="is50 " + m, real=("pyModeS.commb.is50", [m]), expect=str(inside), tag="thr-tasgs50")
    for n, inside in ((500, True), (501, False)):
        m = frame(rng, mb([(13, 1, 1), (14, 10, n)]), df=21)
        yield dict(op="is60 " + m, real=("pyModeS.commb.is60", [m]), expect=str(inside), tag="thr-ias60")
    for n, inside in ((250, True), (251, False)):
        m = frame(rng, mb([(24, 1, 1), (25, 10, n)]), df=21)
        yield dict(op="is60 " + m, real=("pyModeS.commb.is60", [m]), expect=str(inside), tag="thr-mach60")
    for st in (35, 46):
        for n, inside in ((187, True), (188, False), (-187, True), (-188, False)):
            m = frame(rng, mb([(st, 1, 1), (st + 1, 1, 1 if n < 0 else 0), (st + 2, 9, n & 0x1FF)]), df=21)
            yield dict(op="is60 " + m, real=("pyModeS.commb.is60", [m]), expect=str(inside), tag="thr-vr60")
    # BDS 3,0: threat-type / ARA field values 48..127 are reserved (ACAS III); BDS 4,4: source > 4 reserved, wind <= 250 kt;
    # BDS 4,5: temperature within [-80, +60] C (0.25 C steps)
    for v in range(128):
        bits = gen30(rng)
        spec.put(bits, 15, 7, v)
        m = frame(rng, bits, df=21)
        yield dict(op="is30 " + m, real=(ISFN["BDS30"][1], [m]), expect=str(v < 48), tag="thr-bds30")
        yield dict(op="infer1 " + m, real=(I, [m, True]), pred=["pred_contains" if v < 48 else "pred_excludes", "BDS30"], tag="thr-bds30")
    for src in range(16):
        bits = gen44(rng)
        spec.put(bits, 0, 4, src)
        m = frame(rng, bits, df=21)
        yield dict(op="is44 " + m, real=(ISFN["BDS44"][1], [m]), expect=str(src <= 4), tag="thr-src44")
    for w in list(range(240, 262)) + [511]:
        bits = gen44(rng)
        spec.put(bits, 4, 1, 1)
        spec.put(bits, 5, 9, w)
        m = frame(rng, bits, df=21)
        yield dict(op="is44 " + m, real=(ISFN["BDS44"][1], [m]), expect=str(w <= 250), tag="thr-wind44")
    for n in list(range(-330, -310)) + list(range(230, 250)) + [-512, 511, 0, 1, -1]:
        bits = gen45(rng)
        spec.put(bits, 15, 1, 1)
        spec.put(bits, 16, 1, 1 if n < 0 else 0)
        spec.put(bits, 17, 9, n & 0x1FF)
        m = frame(rng, bits, df=21)
        yield dict(op="is45 " + m, real=(ISFN["BDS45"][1], [m]), expect=str(-320 <= n <= 240), tag="thr-temp45")
        yield dict(op="infer1 " + m, real=(I, [m, True]), pred=["pred_contains" if -320 <= n <= 240 else "pred_excludes", "BDS45"], tag="thr-temp45")
    # BDS 4,4 temperature: the decoder tries two readings (0.25 / 0.125 C per bit, an ambiguity of Doc 9871) - every raw value,
    # model against code (no documented expectation outside [-80, 60] in the 0.25 C reading, which must be accepted)
    for n in range(-1024, 1024, 1 if ctx.thorough else 3):
        bits = gen44(rng)
        spec.put(bits, 23, 1, 1 if n < 0 else 0)
        spec.put(bits, 24, 10, n & 0x3FF)
        m = frame(rng, bits, df=21)
        if -320 <= n <= 240:
            yield dict(op="is44 " + m, real=(ISFN["BDS44"][1], [m]), expect="True", tag="thr-temp44")
        else:
            yield dict(op="is44 " + m, real=(ISFN["BDS44"][1], [m]), tag="thr-temp44", trivial=True)
    for n in (-641, -640, -639, 479, 480, 481):
        bits = gen44(rng)
        spec.put(bits, 23, 1, 1 if n < 0 else 0)
        spec.put(bits, 24, 10, n & 0x3FF)
        m = frame(rng, bits, df=21)
        yield dict(op="is44 " + m, real=(ISFN["BDS44"][1], [m]), tag="thr-temp44", trivial=True)
    # --- DF20 altitude cross-check (float): model vs real, away from the 20 kt threshold
    edge_alts = [0, 1, 2, 38, 39, 40, 41, 42, 80, 2047]   # -1000 ft ... exactly 0 ft (N = 40) ... top of the range
    for it in range(ctx.n(500, 10000)):
        ias, mach = rng.randrange(100, 450), rng.randrange(50, 250)
        alt_n = edge_alts[it % len(edge_alts)] if it < 12 * len(edge_alts) else rng.randrange(40, 1800)
        code = spec.val_of(spec.bits_of(alt_n, 11)[:6] + [0] + [spec.bits_of(alt_n, 11)[6]] + [1] + spec.bits_of(alt_n, 11)[7:])
        m = frame(rng, mb([(13, 1, 1), (14, 10, ias), (24, 1, 1), (25, 10, mach)]), df=20, alt13=code)
        from pyModeS.extra import aero
        d = abs(ias - aero.mach2cas(mach * 0.004, (alt_n * 25 - 1000) * aero.ft) / aero.kts)
        if abs(d - 20) < 1e-3:
            continue
        yield dict(op="is60 " + m, real=("pyModeS.commb.is60", [m]), expect=str(d <= 20), tag="is60-alt")
    # --- call-history independence: the same MB payload under different headers (DF21, DF20 with a consistent and an
    #     inconsistent altitude), every order, each answer must equal the answer of a fresh evaluation
    from pyModeS.extra import aero
    for _ in range(ctx.n(150, 3000)):
        ias, mach = rng.randrange(150, 400), rng.randrange(80, 230)
        payload = mb([(13, 1, 1), (14, 10, ias), (24, 1, 1), (25, 10, mach)])
        variants = []
        for _k in range(200):
            alt_n = rng.randrange(40, 1800)
            d = abs(ias - aero.mach2cas(mach * 0.004, (alt_n * 25 - 1000) * aero.ft) / aero.kts)
            if abs(d - 20) < 1e-3:
                continue
            b11 = spec.bits_of(alt_n, 11)
            code = spec.val_of(b11[:6] + [0] + [b11[6]] + [1] + b11[7:])
            variants.append((code, d <= 20))
            if len({v[1] for v in variants}) == 2 and len(variants) >= 2:
                break
        hdrs = [(20, c, ok) for c, ok in variants[-2:]] + [(21, None, True)]
        rng.shuffle(hdrs)
        for df_, code, ok in hdrs + hdrs[::-1]:
            m = frame(rng, payload, df=df_, alt13=code)
            yield dict(op="is60 " + m, real=("pyModeS.commb.is60", [m]), expect=str(ok), tag="is60-sequence")
            yield dict(op="infer0 " + m, real=(I, [m]), pred=["pred_contains" if ok else "pred_excludes", "BDS60"], tag="infer-sequence")
    # --- is50or60 on payloads that satisfy both rule sets (sparse random payloads do so often) and on one-sided ones
    n5060 = 0
    for _ in range(ctx.n(6000, 50000)):
        bits = gen50(rng) if rng.random() < 0.5 else gen60(rng)
        if rng.random() < 0.7:
            # blend: keep status-consistent fields of both layouts where possible
            other = gen60(rng) if rng.random() < 0.5 else gen50(rng)
            bits = [a if rng.random() < 0.5 else b_ for a, b_ in zip(bits, other)]
        if not any(bits):
            continue
        m = frame(rng, bits, df=21)
        yield dict(op=None, real=("h:props.C12.p_is50or60", [m, rng.uniform(100, 550), rng.uniform(0, 360), rng.uniform(0, 42000)]),
                   expect="ok", tag="is50or60")
    for _ in range(ctx.n(1500, 15000)):
        alt = rng.choice([rng.uniform(0, 42000), 35000.0, 10000.0])
        m = frame(rng, gen5060(rng, alt), df=rng.choice([20, 21]))
        yield dict(op=None, real=("h:props.C12.p_is50or60", [m, rng.uniform(60, 550), rng.uniform(0, 360), alt]),
                   expect="ok", tag="is50or60-both")
    # --- random payloads: infer consistent with the rules, mrar both
    for _ in range(ctx.n(4000, 50000)):
        bits = spec.background(rng, 56, "rand")
        if rng.random() < 0.7:
            # sparse payloads satisfy more rules
            bits = [b if rng.random() < 0.25 else 0 for b in bits]
        m = frame(rng, bits, df=21)
        mrar = rng.random() < 0.5
        yield dict(op="infer%d %s" % (mrar, m), real=(I, [m, mrar]), tag="random", trivial=True)
        yield dict(op=None, real=("h:props.C12.consistent", [m, mrar]), expect="ok", tag="consistent")
