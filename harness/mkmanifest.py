#!/usr/bin/env python3
"""Writes MANIFEST.json from the table below (kept in one place so it stays valid)."""
import json
import os

V = os.path.normpath(os.path.join(os.path.dirname(os.path.abspath(__file__)), ".."))
LEVEL_NOTE = ("Trusted base: Lean 4.33 kernel (axioms propext, Classical.choice, Quot.sound only; audited by #print axioms "
              "on every run; no sorry/native_decide/bv_decide/own axioms); the Spec transcriptions of Annex 10 / DO-260B / "
              "Doc 9871; the tie = table translator harness/gen_tables.py + correspondence harness + compiled driver; "
              "modelled not verified: CPython/numpy primitives, IEEE rounding/libm, time, I/O. ")

CLAIMS = {
    "C07": dict(
        text="Theorems (Lean 4, kernel-checked): the model of py_common.altitude equals the Annex 10 altitude on all 8192 "
             "codes (chunked decide +kernel), the spec is the inverse of the Gillham / 25-ft / metric encoders on every legal "
             "value, illegal Gillham patterns and the zero code give None, and altcode / surv.altitude / adsb.altitude are "
             "functions of DF/TC and the altitude field only with RuntimeError outside the documented DF/TC. The model is "
             "tied to /repo by an exhaustive correspondence (8192 codes x DF 0/4/16/20, 4096 fields x TC 9-18/20-22, guards).",
        note="int(N*3.28084) is modelled as floor(N*328084/100000) (float rounding checked exhaustively by the correspondence).",
        design="8 C07", technique="Lean 4 proof (decide +kernel over the whole 13-bit domain, lifted) + exhaustive correspondence"),
    "C08": dict(
        text="Theorems: squawk returns the four octal digits for all 8192 identity patterns independent of X (kernel enumeration "
             "lifted to all digits); idcode / surv.identity / emergency_squawk are squawk of the documented bit positions under their DF/TC "
             "guards; FS, DR, IIS, IDS, CA are exactly the documented slices for any other bit content, RuntimeError for other DFs. "
             "Correspondence: all 8192 patterns x 4 carriers, FSxDRxIISxIDS product, CA, interrogator code 0..127 through the PI overlay, DF guards.",
        note="interrogator code theorem rests on the C01 CRC development.",
        design="8 C08", technique="Lean 4 proof (kernel enumeration + structural frame theorems) + exhaustive correspondence"),
    "C09": dict(
        text="Theorems: the regenerated surface movement table equals the DO-260B quantisation table on all 128 codes; altitude_diff is "
             "+-(N-1)*25 ft of the documented field under the TC19 guard (partial: code 127 -> None, open finding). The TC19 decoder is "
             "tied by correspondence over subtype x signs x boundary values x vertical rates and checked against an independent DO-260B oracle.",
        note="track angle uses atan2 (trusted libm); int(math.sqrt n) modelled as Nat.sqrt.",
        design="8 C09", technique="Lean 4 proof (table certificate, field theorems) + product/exhaustive correspondence"),
    "C10": dict(
        text="Theorems: callsign_roundtrip (any eight legal 6-bit codes in ME bits 9-56 of a TC1-4 frame come back as the eight characters, "
             "for every other bit content: structural, covers 37^8), cs20_roundtrip (all 64^8), category_spec, and the regenerated chars "
             "tables equal Annex 10 Table 3-9 on every legal code. Correspondence: every (position, code), random legal strings, guards.",
        note="callsign() deletes '#': position independence for illegal codes is not claimed (nor required by the property).",
        design="8 C10", technique="Lean 4 proof (structural round-trip over build/slice lemmas + table certificate) + correspondence"),
    "C01": dict(
        text="(in progress) Theorem so far: the generator literals of crc and crc_legacy are 0x1FFF409. The byte-wise divider is tied to "
             "/repo by correspondence on all 1-bit and 2-bit frames of both lengths and random frames, and the property itself "
             "(remainder = independent polynomial division, parity closure, burst<=24 and weight<=5 detection) is evaluated on the real code.",
        note="remainder / linearity / detection theorems are being added; until then the detection claims rest on the correspondence + spec oracle.",
        design="8 C01", technique="Lean 4 proof (GF(2) algebra over the model) + correspondence incl. all 1-/2-bit frames"),
    "C02": dict(
        text="Theorems: icao is the upper-cased AA field for DF11/17/18, None for every format outside 0/4/5/11/16/17/18/20/21, DF clamp. "
             "AP-overlay recovery is checked on the real code for DF x length x hex case x addresses through an independent parity encoder.",
        note="icao_AP theorem depends on the C01 algebra (in progress).",
        design="8 C02", technique="Lean 4 proof + correspondence over DF x length x case x address"),
    "C11": dict(
        text="Theorems: generic Doc 9871 row decoders (status-gated unsigned / two's-complement field) are functions of their status, sign "
             "and value bits only and invert the field encoder for every width/value/other bits (ufield_spec, sfield_spec, ufield_roundtrip). "
             "Every exported field decoder is tied to its Doc 9871 row by exhaustive correspondence (all raw values x status x sign x random other bits) "
             "and `commb.f is bdsXX.f` is asserted for the 40 exported names.",
        note="module wiring is a checked fact, not a theorem.",
        design="8 C11", technique="Lean 4 proof (generic field-row theorems) + per-field exhaustive correspondence"),
    "C13": dict(
        text="Theorems on the regenerated tables: totality of the TC->NUCp/NICv1/NICv2 look-ups over TC 5-18, 20-22, totality of the category tables, "
             "monotonicity (higher category never looser) of NUCp/NACp/NUCv/NACv/SIL and of TC->NUCp; is_emergency_spec. TC28/29/31 field "
             "decoders tied by exhaustive correspondence against an independent DO-260B oracle.",
        note="float literals of uncertainty.py are read as exact decimals.",
        design="8 C13", technique="Lean 4 proof (decide +kernel on regenerated tables, field theorems) + exhaustive correspondence"),
    "C14": dict(
        text="Res-valued model with partial primitives (crash = any non-RuntimeError exception); guard theorems are being added per decoder. "
             "Outcome class of ~110 entry points compared with the model and with the documented (DF, TC, subtype) domain over DF x TC x subtype x "
             "payload style x {28,14} hex digits. Two open findings are reported as KNOWN-FINDING (short frames, reserved TC29 subtypes).",
        note="tell() is checked on the real code only (not modelled).",
        design="8 C14", technique="Lean 4 proof (guard theorems over a Res-valued model) + exhaustive outcome-class correspondence"),
    "C18": dict(
        text="Theorems: uplink_fields agrees with pr/ic for UF11; non-roll-call, non-UF11 formats carry no fields. All field decoders and uplink_icao are "
             "tied by correspondence (UF x RR x DI, SD products, UF11 product, 6000+ addresses x both lengths through the Annex 10 uplink AP encoder).",
        note="uplink_icao_roundtrip theorem depends on the C01 algebra (in progress).",
        design="8 C18", technique="Lean 4 proof + product correspondence"),
}


def main():
    props = [json.loads(l) for l in open(os.path.join(V, "properties.jsonl"))]
    checks = []
    na = []
    for p in props:
        pid = p["id"]
        c = CLAIMS.get(pid)
        if c is None:
            na.append(dict(property_id=pid, reason="check not built yet in this revision (work in progress; see DESIGN.md section 8)"))
            continue
        checks.append(dict(
            property_id=pid,
            quick_cmd="./check %s --tier quick" % pid,
            thorough_cmd="./check %s --tier thorough" % pid,
            evidence_file="evidence/%s.json" % pid,
            replay_cmd_template="./check --replay {path}",
            engine="lean-proof+correspondence",
            level_claimed=dict(category="proof", text=c["text"], design_ref=c["design"]),
            level_note=LEVEL_NOTE + c["note"],
            technique=c["technique"],
        ))
    m = dict(
        version=1,
        setup_cmd="/venv/bin/python harness/gen_tables.py && cd lean && lake build",
        hooks=dict(guard="PYMODES_VERIF", enable="no source hooks are needed; the harness sets PYMODES_VERIF=1 and imports /repo/src in-process",
                   baseline_off_cmd="cd /repo && /venv/bin/python -m pytest -ra -q -p no:cacheprovider --timeout=900 --continue-on-collection-errors",
                   source_commits=[], add_only=True),
        engines=[dict(name="lean-proof+correspondence", path="lean/ harness/",
                      serves_properties=[c["property_id"] for c in checks],
                      kind_free_text="Lean 4 model + theorems (lean/PyModeS), data-table translator, line-protocol correspondence against the compiled Lean driver")],
        checks=checks,
        not_applicable=na,
        notes="See DESIGN.md. known_findings.json lists recorded defects; replays/ is written only on violation.",
    )
    with open(os.path.join(V, "MANIFEST.json"), "w") as f:
        json.dump(m, f, indent=1)
        f.write("\n")


if __name__ == "__main__":
    main()
