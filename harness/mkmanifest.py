#!/usr/bin/env python3
"""Writes MANIFEST.json from the table below (kept in one place so it stays valid)."""
import json
import os

V = os.path.normpath(os.path.join(os.path.dirname(os.path.abspath(__file__)), ".."))
LEVEL_NOTE = ("Trusted base: Lean 4.33 kernel (axioms propext, Classical.choice, Quot.sound only; audited by #print axioms "
              "on every run; no sorry/native_decide/bv_decide/own axioms); the Spec transcriptions of Annex 10 / DO-260B / "
              "Doc 9871; the tie = table translator harness/gen_tables.py + correspondence harness + compiled driver; "
              "modelled not verified: CPython/numpy primitives, IEEE rounding/libm, time, I/O. "
              "Second tie where listed (tie_modules in the evidence): harness/py2lean.py regenerates Lean definitions from the "
              "current source text of the straight-line functions on every run; lean/PyModeS/Tie/*.lean prove generated definition = "
              "hand model for every well-formed frame; the translator and the Python-primitive semantics (Py/Val.lean) are validated "
              "by running the generated definitions against the real functions (gendriver). ")

CLAIMS = {
    "C07": dict(
        text="Theorems (Lean 4, kernel-checked): the model of py_common.altitude equals the Annex 10 altitude on all 8192 "
             "codes (chunked decide +kernel), the spec is the inverse of the Gillham / 25-ft / metric encoders on every legal "
             "value, illegal Gillham patterns and the zero code give None, and altcode / surv.altitude / adsb.altitude are "
             "functions of DF/TC and the altitude field only with RuntimeError outside the documented DF/TC. The model is "
             "tied to /repo by an exhaustive correspondence (8192 codes x DF 0/4/16/20, 4096 fields x TC 9-18/20-22, guards).",
        note="int(N*3.28084) is modelled as floor(N*328084/100000) (float rounding checked exhaustively by the correspondence).",
        design="8 C07", technique="Lean 4 proof (decide +kernel over the whole 13-bit domain, lifted) + exhaustive correspondence"),
    "C08": dict(
        text="Theorems: squawk returns the four octal digits for all 8192 identity patterns independent of X (kernel enumeration "
             "lifted to all digits); idcode / surv.identity / emergency_squawk are squawk of the documented bit positions under their DF/TC "
             "guards; FS, DR, IIS, IDS, CA are exactly the documented slices for any other bit content, RuntimeError for other DFs. "
             "Correspondence: all 8192 patterns x 4 carriers, FSxDRxIISxIDS product, CA, interrogator code 0..127 through the PI overlay, DF guards.",
        note="interrogator code theorem rests on the C01 CRC development.",
        design="8 C08", technique="Lean 4 proof (kernel enumeration + structural frame theorems) + exhaustive correspondence"),
    "C09": dict(
        text='Theorems (11): airborne_velocity_spec (on every 112-bit TC19 frame the result is the DO-260B function of subtype, the two sign bits, the two 10-bit fields, the VR source/sign/value — a spec written from the property text), its TC guard, an encoder round trip through the 17-field ME layout with every other field universally quantified, surface_velocity_spec (movement table = DO-260B on all 128 codes; track N*360/128 under its status bit), routing of velocity(), altitude_diff (partial: code 127 -> None, open finding). Tie: subtype x signs x boundary values x vertical rates, 128x2x128 surface codes, guards.',
        note='track angle uses atan2 (trusted libm; the model leaves it symbolic); int(math.sqrt n) modelled as Nat.sqrt.',
        design="8 C09", technique="Lean 4 proof (table certificate, field theorems) + product/exhaustive correspondence"),
    "C10": dict(
        text="Theorems: callsign_roundtrip_frame (any eight legal 6-bit codes in ME bits 9-56 of a TC1-4 frame of >= 88 bits come back as the eight characters, "
             "for every other bit content: structural, covers 37^8; non-vacuity shown on a real 112-bit frame), cs20_roundtrip (all 64^8), callsign_char_independent / "
             "cs20_char_independent (changing one code changes exactly that output position), category_spec, and the regenerated chars "
             "tables equal Annex 10 Table 3-9 on every legal code. Correspondence: every (position, code), random legal strings, guards.",
        note="callsign() deletes '#': position independence for illegal codes is not claimed (nor required by the property).",
        design="8 C10", technique="Lean 4 proof (structural round-trip over build/slice lemmas + table certificate) + correspondence"),
    "C01": dict(
        text='Theorems (Lean 4 + Mathlib bridge, 15): the model of py_common.crc equals the Horner remainder modulo 0x1FFF409 for every bit string of >= 3 whole bytes, which equals `%ₘ` in (ZMod 2)[X]; crc < 2^24; linearity over XOR; encode=True ignores the parity field; parity closure; every burst of <= 24 bits and every pattern of weight 1..5 in frames of <= 112 bits leaves a non-zero checksum (parity invariant + kernel-checked syndrome certificate); crc = crc_legacy; sharpness examples (a 25-bit burst and a weight-6 pattern that are missed). Tie: generator literals regenerated and pinned by theorem; all 1-/2-bit frames, random frames, call sequences on one string, closure / burst / weight streams and RtlReader._check_msg (all 24 parity-bit flips) on the real code.',
        note='the theorems are about the model; the tie is the table translator plus the correspondence.',
        design="8 C01", technique="Lean 4 proof (GF(2) algebra over the model) + correspondence incl. all 1-/2-bit frames"),
    "C02": dict(
        text='Theorems (14): icao = upper-cased AA for DF11/17/18; for DF0/4/5/16/20/21 and every address A < 2^24, payload and even length, a frame whose AP field is parity XOR A yields hex6 A (uses C01), and the encoder makes that hypothesis satisfiable; None for every other format; hex6 is six upper-case digits with value A (injective); icao is insensitive to the letter case of the input; the same address string results across formats. Tie: DF 0..31 x {56,112} x {upper, lower, mixed} x addresses incl. 000000 / FFFFFF.',
        note='on non-hex characters the model reads 0 where Python raises; statements are for hex strings.',
        design="8 C02", technique="Lean 4 proof + correspondence over DF x length x case x address"),
    "C11": dict(
        text='Theorems (46): a Doc 9871 row table for the 28 status-gated decoders with a generic decodeRow written from the property text; for every 112-bit frame each decoder equals decodeRow of its row on the MB field (one theorem per decoder and a table form); independence from every bit outside status/sign/value; generic encoder round trip for well-formed rows (all 28 rows satisfy the side conditions); the unconditional temperature decoders, wind44, ovc10 and cap17 against the regenerated capability list. Tie: every raw value x status x sign per field with random other bits; `commb.f is bdsXX.f` asserted for the 40 exported names.',
        note='module wiring is a checked fact, not a theorem.',
        design="8 C11", technique="Lean 4 proof (generic field-row theorems) + per-field exhaustive correspondence"),
    "C13": dict(
        text='Theorems (46): one frame-level theorem per TC28/29/31 decoder (value = explicit function of named bit slices, RuntimeError for the other TC / excluded subtype), selected heading over the full 0-360 range (all 512 codes), is_emergency <=> subtype 1 and state != 0; NUCp / NIC v1 / NIC v2 results as look-ups in the regenerated tables, nic_v2 never raises; regenerated tables: totality, monotonicity, equality with the DO-260B TC->NUCp / NIC tables. Tie: all field values x subtype, TC x supplements x version in several call orders, 8 emergency states, against an independent DO-260B oracle.',
        note='float literals of uncertainty.py are read as exact decimals; containment-radius values are compared with the model only.',
        design="8 C13", technique="Lean 4 proof (decide +kernel on regenerated tables, field theorems) + exhaustive correspondence"),
    "C14": dict(
        text='Theorems (25): no_exc_112 — on every 112-bit frame none of ~90 modelled decoders (ADS-B, Comm-B, surv, allcall, infer, position dispatchers) raises anything but RuntimeError; guard_iff — each guarded decoder returns RuntimeError exactly outside its documented (DF, TC, subtype) set (TC29 decoders as coded: open finding); routing tables for position / position_with_ref / velocity / altitude; tell_total_112 — tell() returns normally on every 112-bit frame (and a proved 56-bit counter-example marking the open finding). Tie: ~110 entry points x DF x TC x subtype x payload style x {28,14} digits, pair routing product, boundary sweeps; outcome class compared with the model and the documented domain.',
        note='56-bit frames into long-frame decoders and reserved TC29 subtypes are recorded open findings (KNOWN-FINDING).',
        design="8 C14", technique="Lean 4 proof (guard theorems over a Res-valued model) + exhaustive outcome-class correspondence"),
    "C18": dict(
        text="Theorems (Properties/C18.lean): uplink_icao_roundtrip / uplink_loop_address (for every data field of a multiple of 4 bits >= 32 and every 24-bit address the "
             "bit-serial loop of uplink_icao returns the address from a frame whose AP field is parity(data) xor the top 24 coefficients of A(x)G(x); clmul is "
             "multiplication in (ZMod 2)[X]); frame-level specifications of every field decoder in Annex 10 bit positions (byteAt_eq_fields: DI 14-16, RR 9-13, "
             "RRS 21-24 / 24-27, IIS 17-20, SIS 17-22, LOS 26, LSS 23, PR 6-9, IC 10-13, CL 14-16; uplinkPr_spec, uplinkIc_spec_uf11 / _rollcall, uplinkBds_spec, "
             "uplinkLockout_spec, ufB_spec), uplink_fields agrees with the single-field functions for UF4/5/20/21 (uplink_fields_agrees_rollcall), UF11 and all other "
             "formats, and encoder round trips for the UF/PC/RR/DI/SD header and the DI=7, DI=3 and UF11 layouts. Tie: UF x RR x DI, SD products, UF11 product, "
             "6000+ addresses x both lengths through the independent Python Annex 10 uplink AP encoder (itself compared with the Lean Spec encoder).",
        note="the mask identities are one kernel-checked enumeration over byte values (decide +kernel, no axioms).",
        design="8 C18", technique="Lean 4 proof + product correspondence"),
    "C03": dict(
        text="Model of bds05.airborne_position over exact rationals with NL as a parameter; theorems (Properties/C03.lean, 7): "
             "same-parity pairs are rejected, argument order is irrelevant, the decoded latitude lies in [-90, 90], global latitude and longitude recovery "
             "(global_lat, global_decode) for EVERY NL function whenever the two encoded positions lie inside the zone-relative boxes (1/2 latitude zone less one LSB; "
             "1/2 longitude zone), None exactly when the two recovered latitudes fall into different NL bands. "
             "Tie: exact-rational DO-260B encoder (also implemented in Lean as Spec.cprEncode and compared with the Python one) x NL transitions, poles, equator, "
             "meridians, the 87-degree band, random positions x <=1 NM displacements x time orders x argument orders x type codes.",
        note="'<= 1 NM apart => inside the boxes' is spherical geometry, not a theorem (trusted-base item 6 of DESIGN.md).",
        design="8 C03, 11.1", technique="Lean 4 proof (floor/mod algebra over Q) + exact-rational correspondence"),
    "C04": dict(
        text="Theorems (Properties/C04.lean): type-code routing; local decode returns exactly the carried position for every reference in the open half-zone box "
             "(latitude incl. the YZ=2^17 wrap, longitude modulo the zone count), hence stability; one proof for airborne (360) and surface (90). "
             "Tie: reference offsets up to (1-1e-9) of the half zone per axis for both parities and both families.",
        note="floating-point evaluation of ref/d_lat is modelled by exact rationals; generators stay 1e-9 inside the open box.",
        design="8 C04, 11.2", technique="Lean 4 proof (floor algebra over Q) + exact-rational correspondence"),
    "C05": dict(
        text="Model of bds06.surface_position (nearest-candidate hemisphere and circular quadrant choice after fix 4810080); theorems in Properties/C05.lean "
             "(surface_requires_ref, latitude recovery, hemisphere and quadrant choice). Tie: dense near lat 0, lon 0/+-90/+-180, NL transitions; receiver up to 45 NM in 16 directions. "
             "One open finding (target exactly at the north pole) is reported as KNOWN-FINDING.",
        note="as C03.", design="8 C05", technique="Lean 4 proof + exact-rational correspondence"),
    "C06": dict(
        text="Theorems (43): on all rationals the model of cprNL equals the staircase over the transition table (both isclose short-cuts agree with it), is even, antitone in |lat|, in [1,59], 59 at 0, 2 up to and including 87 and 1 iff beyond; the table is PROVED to enclose the true DO-260B transition latitudes theta_n = (180/pi)*arccos(sqrt((1-cos(pi/30))/(1-cos(2pi/n)))) for all 58 rows (verified Taylor bounds for cos with Mathlib's 20-digit pi bounds, per-row rational certificate); theta is strictly decreasing; the closed-form floor formula of the code equals the staircase over the reals (transition points themselves excepted); none of the four CPR latitude grids comes within 8.069e-9 degree of a transition (sharp), so staircase, closed form and any evaluation accurate to 1e-9 degree agree on every decodable latitude. Tie: real cprNL and the transliterated .pyx on a 0.002-degree grid (0.0005 thorough), every double within +-96 (256) ulp and a few nano-degrees either side of each signed transition in both call orders, 0, +-87, +-90.",
        note='IEEE/libm evaluation of the closed form near a transition may return either neighbour within 1e-9 degree (the property allows it); float evaluation itself is not modelled.',
        design="8 C06", technique="Lean 4 proof (staircase laws over Q) + grid/ulp correspondence"),
    "C12": dict(
        text='Theorems (80): infer is total on 112-bit frames (every isXX is a value); EMPTY; DF17 by type code (table pinned); for Comm-B replies infer returns exactly the labels of the satisfied rule sets in the fixed order, which is proved to be the sorted order, None iff no rule holds; wrongstatus_spec; per-register soundness for every coded status triple of 4,0 4,4 4,5 5,0 6,0 and for the reserved-bit rules of 1,0 1,7 2,0 3,0 4,0; exact integer characterisations is40_iff / is44_iff / is45_iff / is50_iff / is53_iff / is60Core_iff and completeness for BDS 4,0, 4,4, 4,5, 5,0 and 6,0 (core) built from sub-fields with arbitrary header/parity (infer_reports_44/45/50; 4,4 and 4,5 only with mrar). Tie and oracle: completeness and soundness for every register incl. the MRAR ones, thresholds +-1 LSB, every raw value of every status-guarded field, all single-bit neighbours of valid and of field-off payloads, DF20 altitude cross-check through the Float aero model, call-history sequences, is50or60 (both-valid payloads generated on purpose; the single label must be the closer one), random payloads, mrar both.',
        note="is60's altitude cross-check and is50or60 use floating point (aero); is50or60 is checked on the real code against an independent distance computation.",
        design="8 C12", technique="Lean 4 proof + boundary-directed correspondence"),
    "C16": dict(
        text="Theorems (33, Properties/C16.lean): feeding any chunking of any byte stream to the Beast or Skysense reader yields the same messages and final buffer as one read of the "
             "whole stream (unconditional); the same for AVR raw on streams in which every ';' closes a '*' (the unconditional raw statement is refuted by a proved counter-example); "
             "well-formed Beast/raw frame sequences come out exactly, unescaped, in order, once; NetSource conservation (sent ++ pending = filter, per class, in order; sends iff >= 2 ADS-B waiting). "
             "Tie: every single cut, double cuts, multi cuts down to 1 byte on streams with 0x1A forced everywhere.",
        note="time.time() stamps and ZeroMQ are not modelled; readers are entered at self.buffer.",
        design="8 C16, 11.3", technique="Lean 4 proof (induction over chunk lists, resumable-scan lemma) + exhaustive-cut correspondence"),
    "C17": dict(
        text='Theorems (37): process_raw never raises on any history of 28-digit DF17/18 messages and Comm-B replies starting from the empty table (unconditional, with the table invariant TrackerWF); pyInt bounds; keys grow only by ADS-B messages and a Comm-B reply for an unknown address changes nothing (gating); live after each step, Comm-B only raises it; an aircraft heard <= 59 s before tnow is listed and one whose last stamp is > 61 s old is absent; every step and whole calls are insensitive to the letter case of the input. Tie: 1200 random histories (state after every call) and the NetSource->Decode pipeline in both letter cases; staleness, gating and 0.001-degree position predicates against the true trajectory on the real code.',
        note="the model's commbStep stops at infer (the BDS 5,0/6,0 field decoders run afterwards are covered by C11/C14); '<= 600 kt => inside the decode boxes' is geometry, not a theorem.",
        design="8 C17", technique="Lean 4 proof (invariants of the step function) + history correspondence"),
    "C19": dict(
        text="Theorems (17): never_bad_df17 — every message returned by the model of _process_buffer passes _check_msg, so a returned DF17 frame has 28 digits and a zero polynomial remainder (via C01), unconditionally; the loop terminates with the modelled fuel; clean-signal recovery for one and for any number of frames under explicit sample hypotheses (every non-pulse sample < 0.2 x amplitude and < 0.2, amplitude in [0.3, 1.4], gaps >= 114 samples): exactly the frames, in order; and snr_10dB_insufficient, a kernel-evaluated buffer meeting the property's literal 10 dB wording on which the frame is lost (the open finding). Tie: synthetic PPM buffers on a dyadic grid incl. real-size busy buffers and frames at the buffer end.",
        note='numpy mean/min and float comparisons are modelled exactly on the dyadic grid; constants 3.162 and 0.2 are hard-coded in the model and covered by the correspondence.',
        design="8 C19", technique="Lean 4 proof + synthetic-signal correspondence"),
    "C20": dict(
        text="One polymorphic model of aero.py; 59 theorems over the reals: positivity, all eight inverse pairs, strict monotonicity of all conversions, TAS>=EAS and CAS>=EAS for H>=0 (Jensen), "
             "sea-level identities (|CAS-V| <= 2e-8 V because rho0*R*T0 != p0), continuity incl. the tropopause, distance symmetry = arccos of the haversine-equivalent cosine, bearing in [0,360). "
             "Tie: the same definition instantiated at Float, compared with numpy to 1e-9 on speed x altitude grids and coordinate pairs; 0.1% ISA check against the closed form.",
        note="IEEE rounding / libm are not modelled (Float instance is compared, real instance is proved); 0.1% ISA agreement is a numeric check, not a theorem.",
        design="8 C20", technique="Lean 4 + Mathlib proof over R + Float-instance correspondence"),
    "C15": dict(
        text='Theorems (36): the C-semantics model of c_common.pyx equals the model of py_common on hex strings — char_to_int = hexVal, hex2bin, bin2int (= wrap64, equal below 64 bits), hex2int, df, typecode (-1 <=> None), crc, icao, squawk (all inputs), gray2alt and altitude (sentinel map turns the C result into the Python result on every bit string, same RuntimeError set, no legal altitude equals a sentinel), altcode, idcode. Tie: the current .pyx text transliterated to Python with C integer semantics — the transliterator is validated on every run against the shipped .so built from the pinned .pyx — compared with py_common on whole domains and call sequences, with the Lean C-model, and with decoders run with the C module swapped in. One open finding (sentinel leaks through callers, site-specific) is reported as KNOWN-FINDING.',
        note="a recompiled extension cannot be observed; cprNL/floor floating-point behaviour is compared through Python's math module.",
        design="8 C15, 4.3", technique="Lean 4 proof (C-semantics twin) + transliteration validated against the shipped binary + correspondence"),
}


def tie_sentence(pid):
    """what the source-generated tie adds for this property (read from props/Cxx.py and the Tie files)"""
    import importlib
    import re
    import sys
    sys.path.insert(0, os.path.join(V, "harness"))
    try:
        mod = importlib.import_module("props." + pid)
    except Exception:
        return ""
    mods = list(getattr(mod, "TIE_MODULES", []))
    if not mods:
        return ""
    n = 0
    for m in mods:
        path = os.path.join(V, "lean", m.replace(".", "/") + ".lean")
        if os.path.exists(path):
            n += len(re.findall(r"^theorem\s+\S+_tie\b", open(path).read(), flags=re.M))
    extra = {"C01": " The generated crc (two nested loops translated from the source) is proved equal to the model (crc_tie); remainder, parity independence, burst and weight-<=5 detection are restated for it (Tie/C01Gen.lean).",
             "C02": " icao rests on the generated crc (no external); AA / AP-overlay recovery restated for the generated icao (Tie/C0278Gen.lean).",
             "C03": " Global and local decode theorems restated for the generated decoders (Tie/C03Gen.lean).",
             "C04": " Local decode exactness and stability restated for the generated decoders (Tie/C03Gen.lean).",
             "C05": " Surface hemisphere / quadrant and recovery theorems restated for the generated decoder (Tie/C03Gen.lean).",
             "C16": " The fourth reader, read_beast_buffer_rssi_piaware (frames with signal level), is tied to a functional model and proved chunk-invariant for arbitrary bytes, failures included (Tie/MiscFields.lean; when it returns it frames exactly like the plain Beast reader; a signal byte 0 makes log10 raise, as the recorded finding says). The three generated readers and handle_messages (object methods with threaded state) are proved equal to the stream model; chunk invariance and NetSource conservation are restated for the generated client loop (Tie/C16Gen.lean).",
             "C18": " All of uplink.py incl. the uplink_icao division loop is tied; the address round trip is restated for the generated loop (Tie/C18Gen.lean).",
             "C19": " The generated _process_buffer (with _calc_noise, _check_preamble, _check_msg and the generated crc) is proved equal to the demodulator model; never_bad_df17 and the recovery theorems are restated for it (Tie/C19Gen.lean).",
             "C15": " The .pyx text itself is inside the proof now: its transliteration is translated to Lean (Gen.c_common.*, C conversions as 64/32/8-bit wrap-around primitives, byte arrays) on every run; c_<f>_tie prove each generated C function equal to the C-semantics model (hex2bin, bin2int, hex2int, df, typecode, crc incl. its loops and the zeroed parity bytes, icao, is_icao_assigned, squawk and altitude on every bit string, gray codes, idcode, altcode, data, allzeros, wrongstatus) and c_<f>_eq_py_tie state the property directly between the two generated modules (generated C = generated Python modulo the sentinel map, on the documented domains: <= 63 bits, hex frames of even length >= 6, ...); proved differences outside those domains (bin2int(''), 64 ones, allzeros of a 56-bit frame) mark the boundary. The generated C functions are run against the transliteration on every case (about 62 000 comparisons per quick run).",
             "C17": " Direct theorems about the generated Decode.process_raw (no hand model in the statement; Tie/DecodeDirect.lean): the function is the three loops over its extracted bodies; the Comm-B loop never changes the key list; after a call the keys are the old ones plus the addresses of the ADS-B frames, every entry kept satisfies t - live <= timeout, an address silent for more than 61 s is absent and one with an ADS-B frame at most 59 s old is listed. These are partial-correctness statements (if the call returns); that it returns is proved for the generated method on histories whose ADS-B frames have type code 0, 1-4, 19-31 and any 28-digit Comm-B frames (Tie/DecodeTotal.lean, DecodeTotal2.lean, DecodeTotal3.lean: eviction loop, whole Comm-B loop, those ADS-B frames, and with the richer invariant WF2 also type codes 19 (under FloatFinite), 29, 31 and the GNSS-height position codes 20-22, with the table invariant re-established; history_total3_fresh_tie from the empty table; the surface / barometric position type codes 5-18 are open: their ingredients — invariant with position fields, shapes of position / position_with_ref / nuc_p / nic_v1 / nic_v2 / nic_b, total-correctness rules for try/except and continue — are proved, the walk is not assembled), and otherwise rests on the hand-model theorem history_no_crash plus the execution of the generated method against the real object on every history.",
             "C09": " airborne_velocity itself is tied now (Tie/Bds09.lean): airborne_velocity_float_tie — on every 28-digit frame the generated function equals the model on every exact member (vertical rate, speed / direction / source tags, airspeed and heading of subtypes 3-4, None and RuntimeError cases) and hands exactly the model's signed components v_we, v_sn to sqrt / atan2; guard, None-iff, shape, vertical-rate, tag, airspeed (closed form on the bits) and ground-speed component theorems follow. What stays outside the proof is named as explicit hypotheses: FloatFinite (libm results finite) and SqrtExact (int(sqrt n) = isqrt n for |components| <= 4088; checked by evaluation on all 2 x 1023^2 pairs, not proved: Float.sqrt is opaque to the kernel).",
             "C14": " The tell() clause is proved about the generated tell itself (Tie/TellGen.lean): on every 28-digit frame it returns None, unconditionally for every frame that is not a DF17 / TC19 ground-speed message with both velocity fields non-zero (tell_total_112_nofloat_tie; per-branch lemmas for each DF, type code, TC29 subtype and an arbitrary inferred BDS label), and for those under the named hypothesis FloatOK (double-precision sqrt / atan2 / degrees give finite numbers on the proved component range |v| <= 4088; Float operations are opaque to the kernel).",
             "C06": " Both generated cprNL functions (py_common and the Cython twin) are unfolded completely (py_cprNL_unfold, c_cprNL_unfold): the three guard branches are exact and proved equal to the model and to the exact staircase (zero / polar / 87-window, cprNL_guards_agree_tie; the window 86.99912999 <= |lat| <= 87 lies above the 3->2 transition, so code and exact function agree on all of it), the main branch is the explicit expression nlMain in which only cos, acos and pi are double precision; floor_tie / c_floor_tie are exact for every rational. The residual hypothesis NLFloatOK (the float evaluation gives the staircase value) is named, not proved: it fails within 1e-12 degree of a transition (two such latitudes are recorded), which is why the property theorem nl_stable_on_grid keeps every CPR grid latitude 8e-9 degree away from the transitions.",
             "C20": " extra/aero.py itself is translated (Gen.aero.*, exact rational arithmetic between double-precision numpy externals) and tied: the polymorphic model whose real-number instance carries the theorems above is instantiated a third time, at Rat with exactly the externals' operations, and aero_<f>_tie prove each of the 15 generated functions equal to that instance operation for operation (constants, max / clamp branches, tuple plumbing), under per-call-site finiteness hypotheses that are also shown necessary (otherwise the generated function raises); distance / bearing are tied through the model text with the angle conversions as parameters (np.radians is one rounded multiplication, the model's x * (pi / 180) at Rat is not; equal by rfl at every numeric type for the model's own conversions). The generated functions are run against numpy on every direct aero call of the case stream (about 11 000 comparisons per quick run).",
             "C11": " The 28 Doc 9871 row theorems are also stated directly for the generated definitions (Tie/C11Gen.lean).",
             "C12": " The exact characterisations is40/44/45/50/53_iff are also stated directly for the generated definitions (Tie/C12Gen.lean)."}
    return (" Source-generated tie: %d theorems (%s) prove that the Lean definitions harness/py2lean.py regenerates from the current "
            "text of the anchored functions on every run equal the hand model on every well-formed frame, so the theorems above are "
            "about what the code says now; the generated definitions are also run against the real functions (gendriver) on this "
            "property's case stream.%s" % (n, ", ".join(m.split(".")[-1] for m in mods), extra.get(pid, "")))


def main():
    props = [json.loads(l) for l in open(os.path.join(V, "properties.jsonl"))]
    checks = []
    na = []
    for p in props:
        pid = p["id"]
        c = CLAIMS.get(pid)
        if c is None:
            na.append(dict(property_id=pid, reason="check not built yet in this revision (work in progress; see DESIGN.md section 8)"))
            continue
        checks.append(dict(
            property_id=pid,
            quick_cmd="./check %s --tier quick" % pid,
            thorough_cmd="./check %s --tier thorough" % pid,
            evidence_file="evidence/%s.json" % pid,
            replay_cmd_template="./check --replay {path}",
            engine="lean-proof+correspondence",
            level_claimed=dict(category="proof", text=c["text"] + tie_sentence(pid), design_ref=c["design"]),
            level_note=LEVEL_NOTE + c["note"],
            technique=c["technique"] + (" + source-generated Lean definitions tied to the model by theorem" if tie_sentence(pid) else ""),
        ))
    m = dict(
        version=1,
        setup_cmd="/venv/bin/python harness/gen_tables.py && /venv/bin/python harness/py2lean.py && cd lean && lake build PyModeS driver gendriver PyModeS.Tie.All",
        hooks=dict(guard="PYMODES_VERIF", enable="no source hooks are needed; the harness sets PYMODES_VERIF=1 and imports /repo/src in-process",
                   baseline_off_cmd="cd /repo && /venv/bin/python -m pytest -ra -q -p no:cacheprovider --timeout=900 --continue-on-collection-errors",
                   source_commits=[], add_only=True),
        engines=[dict(name="lean-proof+correspondence", path="lean/ harness/",
                      serves_properties=[c["property_id"] for c in checks],
                      kind_free_text="Lean 4 model + theorems (lean/PyModeS), data-table translator and source translator (py2lean: Lean definitions regenerated from the Python source, tied to the model by theorems in lean/PyModeS/Tie), line-protocol correspondence against the compiled Lean drivers")],
        checks=checks,
        not_applicable=na,
        notes="See DESIGN.md. known_findings.json lists recorded defects; replays/ is written only on violation.",
    )
    with open(os.path.join(V, "MANIFEST.json"), "w") as f:
        json.dump(m, f, indent=1)
        f.write("\n")


if __name__ == "__main__":
    main()
