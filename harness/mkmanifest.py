#!/usr/bin/env python3
"""Writes MANIFEST.json from the table below (kept in one place so it stays valid)."""
import json
import os

V = os.path.normpath(os.path.join(os.path.dirname(os.path.abspath(__file__)), ".."))
LEVEL_NOTE = ("Trusted base: Lean 4.33 kernel (axioms propext, Classical.choice, Quot.sound only; audited by #print axioms "
              "on every run; no sorry/native_decide/bv_decide/own axioms); the Spec transcriptions of Annex 10 / DO-260B / "
              "Doc 9871; the tie = table translator harness/gen_tables.py + correspondence harness + compiled driver; "
              "modelled not verified: CPython/numpy primitives, IEEE rounding/libm, time, I/O. ")

CLAIMS = {
    "C07": dict(
        text="Theorems (Lean 4, kernel-checked): the model of py_common.altitude equals the Annex 10 altitude on all 8192 "
             "codes (chunked decide +kernel), the spec is the inverse of the Gillham / 25-ft / metric encoders on every legal "
             "value, illegal Gillham patterns and the zero code give None, and altcode / surv.altitude / adsb.altitude are "
             "functions of DF/TC and the altitude field only with RuntimeError outside the documented DF/TC. The model is "
             "tied to /repo by an exhaustive correspondence (8192 codes x DF 0/4/16/20, 4096 fields x TC 9-18/20-22, guards).",
        note="int(N*3.28084) is modelled as floor(N*328084/100000) (float rounding checked exhaustively by the correspondence).",
        design="8 C07", technique="Lean 4 proof (decide +kernel over the whole 13-bit domain, lifted) + exhaustive correspondence"),
    "C08": dict(
        text="Theorems: squawk returns the four octal digits for all 8192 identity patterns independent of X (kernel enumeration "
             "lifted to all digits); idcode / surv.identity / emergency_squawk are squawk of the documented bit positions under their DF/TC "
             "guards; FS, DR, IIS, IDS, CA are exactly the documented slices for any other bit content, RuntimeError for other DFs. "
             "Correspondence: all 8192 patterns x 4 carriers, FSxDRxIISxIDS product, CA, interrogator code 0..127 through the PI overlay, DF guards.",
        note="interrogator code theorem rests on the C01 CRC development.",
        design="8 C08", technique="Lean 4 proof (kernel enumeration + structural frame theorems) + exhaustive correspondence"),
    "C09": dict(
        text="Theorems: the regenerated surface movement table equals the DO-260B quantisation table on all 128 codes; altitude_diff is "
             "+-(N-1)*25 ft of the documented field under the TC19 guard (partial: code 127 -> None, open finding). The TC19 decoder is "
             "tied by correspondence over subtype x signs x boundary values x vertical rates and checked against an independent DO-260B oracle.",
        note="track angle uses atan2 (trusted libm); int(math.sqrt n) modelled as Nat.sqrt.",
        design="8 C09", technique="Lean 4 proof (table certificate, field theorems) + product/exhaustive correspondence"),
    "C10": dict(
        text="Theorems: callsign_roundtrip (any eight legal 6-bit codes in ME bits 9-56 of a TC1-4 frame come back as the eight characters, "
             "for every other bit content: structural, covers 37^8), cs20_roundtrip (all 64^8), category_spec, and the regenerated chars "
             "tables equal Annex 10 Table 3-9 on every legal code. Correspondence: every (position, code), random legal strings, guards.",
        note="callsign() deletes '#': position independence for illegal codes is not claimed (nor required by the property).",
        design="8 C10", technique="Lean 4 proof (structural round-trip over build/slice lemmas + table certificate) + correspondence"),
    "C01": dict(
        text="(in progress) Theorem so far: the generator literals of crc and crc_legacy are 0x1FFF409. The byte-wise divider is tied to "
             "/repo by correspondence on all 1-bit and 2-bit frames of both lengths and random frames, and the property itself "
             "(remainder = independent polynomial division, parity closure, burst<=24 and weight<=5 detection) is evaluated on the real code.",
        note="remainder / linearity / detection theorems are being added; until then the detection claims rest on the correspondence + spec oracle.",
        design="8 C01", technique="Lean 4 proof (GF(2) algebra over the model) + correspondence incl. all 1-/2-bit frames"),
    "C02": dict(
        text="Theorems: icao is the upper-cased AA field for DF11/17/18, None for every format outside 0/4/5/11/16/17/18/20/21, DF clamp. "
             "AP-overlay recovery is checked on the real code for DF x length x hex case x addresses through an independent parity encoder.",
        note="icao_AP theorem depends on the C01 algebra (in progress).",
        design="8 C02", technique="Lean 4 proof + correspondence over DF x length x case x address"),
    "C11": dict(
        text="Theorems: generic Doc 9871 row decoders (status-gated unsigned / two's-complement field) are functions of their status, sign "
             "and value bits only and invert the field encoder for every width/value/other bits (ufield_spec, sfield_spec, ufield_roundtrip). "
             "Every exported field decoder is tied to its Doc 9871 row by exhaustive correspondence (all raw values x status x sign x random other bits) "
             "and `commb.f is bdsXX.f` is asserted for the 40 exported names.",
        note="module wiring is a checked fact, not a theorem.",
        design="8 C11", technique="Lean 4 proof (generic field-row theorems) + per-field exhaustive correspondence"),
    "C13": dict(
        text="Theorems on the regenerated tables: totality of the TC->NUCp/NICv1/NICv2 look-ups over TC 5-18, 20-22, totality of the category tables, "
             "monotonicity (higher category never looser) of NUCp/NACp/NUCv/NACv/SIL and of TC->NUCp; is_emergency_spec. TC28/29/31 field "
             "decoders tied by exhaustive correspondence against an independent DO-260B oracle.",
        note="float literals of uncertainty.py are read as exact decimals.",
        design="8 C13", technique="Lean 4 proof (decide +kernel on regenerated tables, field theorems) + exhaustive correspondence"),
    "C14": dict(
        text="Res-valued model with partial primitives (crash = any non-RuntimeError exception); guard theorems are being added per decoder. "
             "Outcome class of ~110 entry points compared with the model and with the documented (DF, TC, subtype) domain over DF x TC x subtype x "
             "payload style x {28,14} hex digits. Two open findings are reported as KNOWN-FINDING (short frames, reserved TC29 subtypes).",
        note="tell() is checked on the real code only (not modelled).",
        design="8 C14", technique="Lean 4 proof (guard theorems over a Res-valued model) + exhaustive outcome-class correspondence"),
    "C18": dict(
        text="Theorems: uplink_fields agrees with pr/ic for UF11; non-roll-call, non-UF11 formats carry no fields. All field decoders and uplink_icao are "
             "tied by correspondence (UF x RR x DI, SD products, UF11 product, 6000+ addresses x both lengths through the Annex 10 uplink AP encoder).",
        note="uplink_icao_roundtrip theorem depends on the C01 algebra (in progress).",
        design="8 C18", technique="Lean 4 proof + product correspondence"),
    "C03": dict(
        text="Model of bds05.airborne_position over exact rationals with NL as a parameter; theorems (in progress, see Properties/C03.lean): "
             "same-parity pairs are rejected, argument order is irrelevant, global latitude/longitude recovery for every NL function inside the zone-relative boxes. "
             "Tie: exact-rational DO-260B encoder (also implemented in Lean as Spec.cprEncode and compared with the Python one) x NL transitions, poles, equator, "
             "meridians, the 87-degree band, random positions x <=1 NM displacements x time orders x argument orders x type codes.",
        note="'<= 1 NM apart => inside the boxes' is spherical geometry, not a theorem (trusted-base item 6 of DESIGN.md).",
        design="8 C03, 11.1", technique="Lean 4 proof (floor/mod algebra over Q) + exact-rational correspondence"),
    "C04": dict(
        text="Theorems (Properties/C04.lean): type-code routing; local decode returns exactly the carried position for every reference in the open half-zone box "
             "(latitude incl. the YZ=2^17 wrap, longitude modulo the zone count), hence stability; one proof for airborne (360) and surface (90). "
             "Tie: reference offsets up to (1-1e-9) of the half zone per axis for both parities and both families.",
        note="floating-point evaluation of ref/d_lat is modelled by exact rationals; generators stay 1e-9 inside the open box.",
        design="8 C04, 11.2", technique="Lean 4 proof (floor algebra over Q) + exact-rational correspondence"),
    "C05": dict(
        text="Model of bds06.surface_position (nearest-candidate hemisphere and circular quadrant choice after fix 4810080); theorems in Properties/C05.lean "
             "(surface_requires_ref, latitude recovery, hemisphere and quadrant choice). Tie: dense near lat 0, lon 0/+-90/+-180, NL transitions; receiver up to 45 NM in 16 directions. "
             "One open finding (target exactly at the north pole) is reported as KNOWN-FINDING.",
        note="as C03.", design="8 C05", technique="Lean 4 proof + exact-rational correspondence"),
    "C06": dict(
        text="Theorems on the model for all rational latitudes: the transition table is well formed (58 strictly increasing enclosures of width 1e-12), cprNL equals the staircase "
             "(the two isclose short-cuts agree with it), is even, antitone in |lat|, in [1,59], 59 at 0, 2 up to and including 87 and 1 beyond. "
             "Tie: real cprNL on a 0.002-degree grid (0.0005 thorough) plus every double within +-96 (256) ulp of each signed transition, 0, +-87, +-90.",
        note="that the committed enclosures contain the true transition latitudes rests on a 60-digit mpmath computation (not a theorem); float evaluation within 1e-9 degree of a transition may return either neighbour.",
        design="8 C06", technique="Lean 4 proof (staircase laws over Q) + grid/ulp correspondence"),
    "C12": dict(
        text="Theorems: EMPTY for an all-zero MB field, DF17 register by type code (table pinned), infer = filter of the nine rule results (by definition of the model). "
             "Tie and spec oracle: validly encoded in-envelope registers are reported (completeness), each status/reserved-bit violation excludes the register (soundness), "
             "thresholds +-1 LSB, DF20 altitude cross-check through the Float aero model, infer consistent with isXX on random payloads, mrar both.",
        note="is60's altitude cross-check and is50or60 use floating point (aero); is50or60 is exercised on the real code only.",
        design="8 C12", technique="Lean 4 proof + boundary-directed correspondence"),
    "C16": dict(
        text="Theorems (33, Properties/C16.lean): feeding any chunking of any byte stream to the Beast or Skysense reader yields the same messages and final buffer as one read of the "
             "whole stream (unconditional); the same for AVR raw on streams in which every ';' closes a '*' (the unconditional raw statement is refuted by a proved counter-example); "
             "well-formed Beast/raw frame sequences come out exactly, unescaped, in order, once; NetSource conservation (sent ++ pending = filter, per class, in order; sends iff >= 2 ADS-B waiting). "
             "Tie: every single cut, double cuts, multi cuts down to 1 byte on streams with 0x1A forced everywhere.",
        note="time.time() stamps and ZeroMQ are not modelled; readers are entered at self.buffer.",
        design="8 C16, 11.3", technique="Lean 4 proof (induction over chunk lists, resumable-scan lemma) + exhaustive-cut correspondence"),
    "C17": dict(
        text="Model of Decode.process_raw projected on keys/live/frames/tpos/lat/lon/version/NIC state; theorem stale_removed (nothing older than cache_timeout survives a call); "
             "further invariants in progress. Tie: 1200 random histories (30k thorough) with state compared after every call, and the property predicate "
             "(no exception, 59/61 s staleness, Comm-B gating, 0.001-degree positions against the true trajectory) evaluated on the real code.",
        note="'<= 600 kt and < 180 s / < 10 s => inside the decode boxes' is geometry (trusted-base item 6); longitude tolerance is max(0.001, half a step) where NL-i = 1.",
        design="8 C17", technique="Lean 4 proof (invariants of the step function) + history correspondence"),
    "C19": dict(
        text="Model of _process_buffer over rational samples; theorem checkMsg_df17_crc0 (a DF17 frame passes only with zero checksum; with C01 this is the true remainder). "
             "Tie: synthetic PPM buffers on a dyadic grid (contents x offsets x amplitudes x noise x spacing) compared sample-exactly with the model; frames with noise ratio <= 0.19 are "
             "all recovered; the 10-14 dB band is an open finding reported as KNOWN-FINDING.",
        note="numpy mean/min and float comparisons are modelled exactly on the dyadic grid.",
        design="8 C19", technique="Lean 4 proof + synthetic-signal correspondence"),
    "C20": dict(
        text="One polymorphic model of aero.py; 59 theorems over the reals: positivity, all eight inverse pairs, strict monotonicity of all conversions, TAS>=EAS and CAS>=EAS for H>=0 (Jensen), "
             "sea-level identities (|CAS-V| <= 2e-8 V because rho0*R*T0 != p0), continuity incl. the tropopause, distance symmetry = arccos of the haversine-equivalent cosine, bearing in [0,360). "
             "Tie: the same definition instantiated at Float, compared with numpy to 1e-9 on speed x altitude grids and coordinate pairs; 0.1% ISA check against the closed form.",
        note="IEEE rounding / libm are not modelled (Float instance is compared, real instance is proved); 0.1% ISA agreement is a numeric check, not a theorem.",
        design="8 C20", technique="Lean 4 + Mathlib proof over R + Float-instance correspondence"),
    "C15": dict(
        text="Cython cannot be run here, so the current c_common.pyx text is transliterated to Python with C integer semantics; the transliterator is validated on every run "
             "against the shipped .so (built from the pinned .pyx) and then applied to the current text. Streams: every shared function on its whole domain (13-bit codes exhaustive, "
             "DF x TC, floats, frames in both cases) against py_common modulo the sentinel map; the Lean C-semantics model (Model/CCommon.lean) against the transliteration; decoders "
             "re-run with the C module swapped in. Theorems: C-model = Python model modulo sentinels (Properties/C15.lean). One open finding (sentinel leaks through callers) is reported as KNOWN-FINDING.",
        note="a recompiled extension cannot be observed; cprNL/floor floating-point behaviour of libm is compared through Python's math module.",
        design="8 C15, 4.3", technique="Lean 4 proof (C-semantics twin) + transliteration validated against the shipped binary + correspondence"),
}


def main():
    props = [json.loads(l) for l in open(os.path.join(V, "properties.jsonl"))]
    checks = []
    na = []
    for p in props:
        pid = p["id"]
        c = CLAIMS.get(pid)
        if c is None:
            na.append(dict(property_id=pid, reason="check not built yet in this revision (work in progress; see DESIGN.md section 8)"))
            continue
        checks.append(dict(
            property_id=pid,
            quick_cmd="./check %s --tier quick" % pid,
            thorough_cmd="./check %s --tier thorough" % pid,
            evidence_file="evidence/%s.json" % pid,
            replay_cmd_template="./check --replay {path}",
            engine="lean-proof+correspondence",
            level_claimed=dict(category="proof", text=c["text"], design_ref=c["design"]),
            level_note=LEVEL_NOTE + c["note"],
            technique=c["technique"],
        ))
    m = dict(
        version=1,
        setup_cmd="/venv/bin/python harness/gen_tables.py && cd lean && lake build",
        hooks=dict(guard="PYMODES_VERIF", enable="no source hooks are needed; the harness sets PYMODES_VERIF=1 and imports /repo/src in-process",
                   baseline_off_cmd="cd /repo && /venv/bin/python -m pytest -ra -q -p no:cacheprovider --timeout=900 --continue-on-collection-errors",
                   source_commits=[], add_only=True),
        engines=[dict(name="lean-proof+correspondence", path="lean/ harness/",
                      serves_properties=[c["property_id"] for c in checks],
                      kind_free_text="Lean 4 model + theorems (lean/PyModeS), data-table translator, line-protocol correspondence against the compiled Lean driver")],
        checks=checks,
        not_applicable=na,
        notes="See DESIGN.md. known_findings.json lists recorded defects; replays/ is written only on violation.",
    )
    with open(os.path.join(V, "MANIFEST.json"), "w") as f:
        json.dump(m, f, indent=1)
        f.write("\n")


if __name__ == "__main__":
    main()
