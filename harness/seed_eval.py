#!/usr/bin/env python3
"""Confirm a seeded change and run the property's check against it.

usage: seed_eval.py <out dir of one mutant, e.g. /tmp/seed/out10/m1> <scratch worktree> [--tier quick]
Writes /verif/seeded/<Cxx>-<mk>/{patch.diff, demo.py, meta.json}.
The patch is applied to /repo only for the duration of the check and undone straight afterwards.
"""
import json
import os
import shutil
import subprocess
import sys
import time

VERIF = os.path.normpath(os.path.join(os.path.dirname(os.path.abspath(__file__)), ".."))
PY = "/venv/bin/python"
# a private pair (repo worktree, verif copy) may be given so that several changes are evaluated at once
REPO = os.environ.get("PYMODES_REPO", "/repo")
RUN_VERIF = os.environ.get("VERIF_RUN_DIR", VERIF)


def sh(cmd, cwd=None, env=None, timeout=3600):
    p = subprocess.run(cmd, cwd=cwd, env=env, stdout=subprocess.PIPE, stderr=subprocess.STDOUT, text=True, timeout=timeout)
    return p.returncode, p.stdout


def main():
    out = sys.argv[1].rstrip("/")
    wt = sys.argv[2]
    tier = "quick"
    if "--tier" in sys.argv:
        tier = sys.argv[sys.argv.index("--tier") + 1]
    meta = json.load(open(os.path.join(out, "meta.json")))
    prop = meta["property"]
    tag = sys.argv[sys.argv.index("--tag") + 1] if "--tag" in sys.argv else ""
    mid = "%s-%s%s" % (prop, tag, os.path.basename(out))
    patch = os.path.join(out, "patch.diff")
    demo = os.path.join(out, "demo.py")
    env = dict(os.environ, PYTHONPATH=os.path.join(wt, "src"))
    res = dict(meta, id=mid)
    # ---- confirm in the scratch worktree
    sh(["git", "-C", wt, "checkout", "--", "."])
    rc, o = sh(["git", "-C", wt, "apply", patch])
    if rc != 0:
        res["confirmed"] = False
        res["why"] = "patch does not apply: " + o[-300:]
    else:
        rc_t, o_t = sh([PY, "-m", "pytest", "-q", "-p", "no:cacheprovider"], cwd=wt, env=env)
        tests_ok = rc_t == 0 and "36 passed" in o_t
        rc_d1, o_d1 = sh([PY, demo], cwd=out, env=env, timeout=900)
        sh(["git", "-C", wt, "checkout", "--", "."])
        sh(["git", "-C", wt, "clean", "-fdq", "src", "tests"])
        rc_d0, o_d0 = sh([PY, demo], cwd=out, env=env, timeout=900)
        res.update(tests_pass_with_change=tests_ok, tests_tail=o_t.strip().split("\n")[-1], demo_exit_with_change=rc_d1,
                   demo_exit_without_change=rc_d0)
        res["confirmed"] = bool(tests_ok and rc_d1 != 0 and rc_d0 == 0)
    sh(["git", "-C", wt, "checkout", "--", "."])
    sh(["git", "-C", wt, "clean", "-fdq", "src", "tests"])
    # ---- run the check against it
    if res.get("confirmed"):
        rc, o = sh(["git", "-C", REPO, "status", "--short"])
        if o.strip():
            print("refusing: /repo is not clean:\n" + o)
            return 2
        rc, o = sh(["git", "-C", REPO, "apply", patch])
        try:
            t0 = time.time()
            rc_c, o_c = sh([os.path.join(RUN_VERIF, "check"), prop, "--tier", tier], cwd=RUN_VERIF, timeout=3600)
            res["check_cmd"] = "./check %s --tier %s" % (prop, tier)
            res["check_exit"] = rc_c
            res["check_wall_s"] = round(time.time() - t0, 1)
            lines = [l for l in o_c.split("\n") if l.startswith(("VIOLATION", "KNOWN-FINDING", "OK ", "FAIL ", "TOOL"))]
            res["check_output"] = lines
            res["caught"] = rc_c == 1 and any(l.startswith("VIOLATION property=%s" % prop) for l in lines)
            res["concrete_replay"] = res["caught"] and not any("no-failing-input-found" in l for l in lines)
            # keep the replay of the seeded run
            for l in lines:
                if l.startswith("VIOLATION") and "replay=" in l:
                    rp = l.split("replay=")[1].split()[0]
                    src = os.path.join(RUN_VERIF, rp)
                    if os.path.exists(src):
                        try:
                            r = json.load(open(src))
                            res["replay_excerpt"] = {k: r.get(k) for k in ("kind", "op", "real", "got", "expected", "tag", "n_failing", "broken_obligations") if k in r}
                        except Exception:
                            pass
        finally:
            sh(["git", "-C", REPO, "checkout", "--", "."])
            sh(["git", "-C", REPO, "clean", "-fdq", "src", "tests"])
        rc, o = sh(["git", "-C", REPO, "status", "--short"])
        assert not o.strip(), "repo not restored: " + o
    dst = os.path.join(VERIF, "seeded", mid)
    os.makedirs(dst, exist_ok=True)
    shutil.copy(patch, os.path.join(dst, "patch.diff"))
    shutil.copy(demo, os.path.join(dst, "demo.py"))
    res["what_i_ran"] = ("scratch worktree: git apply; pytest (36 passed required); demo.py with and without the change; "
                         "then git -C /repo apply; ./check <property> --tier %s; git -C /repo checkout -- ." % tier)
    json.dump(res, open(os.path.join(dst, "meta.json"), "w"), indent=1, default=str)
    print("%s confirmed=%s caught=%s concrete=%s %s" % (mid, res.get("confirmed"), res.get("caught"), res.get("concrete_replay"),
                                                         "; ".join(res.get("check_output", []))[:300]))
    return 0


if __name__ == "__main__":
    sys.exit(main())
