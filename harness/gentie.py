"""Tie through the source-generated model.

`py2lean.py` rewrites lean/PyModeS/Generated/Src/*.lean from /repo's working tree on every run; `gendriver` is the
compiled line-protocol executable over those definitions.  Here the real Python function and the generated Lean
function are run on the same arguments (the arguments of the property's own case stream) and compared.  This checks the
translator and the Python-primitive semantics of Py/Val.lean (the trusted part of the `Tie/*.lean` theorems), not the
property: a disagreement is reported in the evidence and escalates the generators, it is never a violation by itself.
"""
from __future__ import annotations

import importlib
import json
import os
import subprocess
from fractions import Fraction

import core

GENDRIVER = os.path.join(core.LEAN, ".lake", "build", "bin", "gendriver")
STATUS = os.path.join(core.LEAN, "PyModeS", "Generated", "Src", "status.json")

PYMOD = {
    "py_common": "pyModeS.py_common", "surv": "pyModeS.decoder.surv", "allcall": "pyModeS.decoder.allcall",
    "uplink": "pyModeS.decoder.uplink",
}


FLOAT_SENSITIVE = {"py_common.cprNL", "c_common.cprNL"}
# ill-conditioned float functions: the generated definition rounds only inside the libm calls (the arithmetic between
# them is exact), the real code rounds every operation; (absolute, relative, modulus) within which the two agree
# (0.2 m: the law of cosines resolves acos(1 - 2^-53) * 6371 km = 0.095 m at best)
FLOAT_TOL = {"aero.distance": (0.2, 1e-6, None), "aero.bearing": (1e-5, 0.0, 360.0)}


def within_tol(name, r, g):
    t = FLOAT_TOL.get(name)
    if t is None:
        return False
    try:
        x, y = float(Fraction(r)), float(Fraction(g))
    except Exception:
        return False
    d = abs(x - y)
    if t[2]:
        d = min(d, abs(t[2] - d))
    return d <= t[0] + t[1] * max(abs(x), abs(y))


def pymod(ns):
    import py2lean
    for rel, n in py2lean.MODULES:
        if n == ns:
            mod = rel[:-3].replace("/", ".")
            if mod.endswith(".__init__"):
                mod = mod[: -len(".__init__")]
            return "pyModeS." + mod
    return PYMOD.get(ns, "pyModeS.decoder.bds." + ns)


def regenerate():
    """-> (ok, message, status dict or None)"""
    rc, out = core.sh(["/venv/bin/python", os.path.join(core.VERIF, "harness", "py2lean.py"), "--repo", core.REPO])
    if rc != 0:
        return False, out.strip()[-400:], None
    try:
        return True, out.strip().split("\n")[-1], json.load(open(STATUS))
    except Exception as e:  # noqa
        return False, "status.json unreadable: %s" % e, None


def enc_arg(a):
    if a is None:
        return "N"
    if a is True:
        return "T"
    if a is False:
        return "F"
    if isinstance(a, str):
        if a == "" or any(ch.isspace() for ch in a):
            return None
        return "s:" + a
    if isinstance(a, int):
        return "n:%d" % a
    if isinstance(a, float):
        if a != a or a in (float("inf"), float("-inf")):
            return None
        f = Fraction(a)
        return "n:%d/%d" % (f.numerator, f.denominator)
    return None


class GenTie:
    def __init__(self, ctx):
        self.ctx = ctx
        self.ok = bool(getattr(ctx, "gen_ok", False)) and os.path.exists(GENDRIVER)
        self.map = {}
        self.out = {}
        if not self.ok:
            return
        try:
            status = json.load(open(STATUS))
        except Exception:
            self.ok = False
            return
        import contextlib
        import io
        self._keep = []
        self.sigs = status.get("signatures", {})
        for full in status.get("translated", []):
            ns, name = full.split(".", 1)
            try:
                with contextlib.redirect_stdout(io.StringIO()):
                    obj = getattr(importlib.import_module(pymod(ns)), name)
            except Exception:
                continue
            self.map[id(obj)] = full
            self._keep.append(obj)

    def target(self, real):
        """-> (generated name, args, picker) or None"""
        import run
        path, args = real[0], list(real[1])
        kwargs = real[2] if len(real) > 2 else {}
        pick = None
        if path == "h:adapters.pick":
            path, pick, args = args[0], list(args[1]), args[2:]
        elif path == "h:adapters.dictvals":
            path, pick, args = args[0], ("dict", list(args[1])), args[2:]
        elif path == "h:adapters.isinst":
            path, pick, args = args[0], "class", args[1:]
        elif path == "h:props.C14.klass":
            path, pick, args = args[0], "class", [args[2]] + list(args[1])
        if path in ("h:props.C15.callm_mapped", "h:props.C15.callm") and args and args[0] == "cur":
            # the transliterated c_common.pyx of the working tree against its own translation to Lean
            name = "c_common." + args[1]
            sig = self.sigs.get(name)
            rest = list(args[2:])
            if sig is None or len(rest) > len(sig["args"]):
                return None
            for k in range(len(rest), len(sig["args"])):
                if sig["defaults"][k] in ("?", "<required>"):
                    return None
                rest.append(sig["defaults"][k])
            enc = [enc_arg(a) for a in rest]
            if any(e is None for e in enc):
                return None
            return name, enc, (("sent", args[1]) if path.endswith("_mapped") else None)
        if path == "h:props.C14.tell_quiet":
            path = "pyModeS.tell"
        elif path.startswith("h:"):
            return None
        try:
            fn = run.resolve(path)
        except Exception:
            return None
        name = self.map.get(id(fn))
        if name is None:
            return None
        sig = self.sigs.get(name)
        if sig is None:
            return None
        # positional + keyword arguments + defaults, as Python would bind them
        full = list(args)
        if len(full) > len(sig["args"]):
            return None
        for k in range(len(full), len(sig["args"])):
            an = sig["args"][k]
            if an in kwargs:
                full.append(kwargs[an])
            elif sig["defaults"][k] not in ("?", "<required>"):
                full.append(sig["defaults"][k])
            else:
                return None
        if any(k not in sig["args"] for k in kwargs):
            return None
        args = full
        enc = [enc_arg(a) for a in args]
        if any(e is None for e in enc):
            return None
        return name, enc, pick

    def prepare(self, batch):
        self.out = {}
        if not self.ok:
            return
        lines, idx = [], []
        for i, c in enumerate(batch):
            if c.get("gop"):
                # a property module may give the generated-model operation itself (stateful readers: C16)
                lines.append(c["gop"])
                idx.append((i, c["gop"].split()[1] if c["gop"].startswith("!") else c["gop"].split()[0], None))
                continue
            t = self.target(c["real"])
            if t is None:
                continue
            lines.append(t[0] + " " + " ".join(t[1]))
            idx.append((i, t[0], t[2]))
        if not lines:
            return
        try:
            p = subprocess.run([GENDRIVER], input="\n".join(lines) + "\n", stdout=subprocess.PIPE, stderr=subprocess.PIPE,
                               text=True, timeout=1200)
            outs = p.stdout.split("\n")
        except Exception:
            self.ok = False
            return
        if len(outs) < len(lines):
            self.ok = False
            return
        for (i, name, pick), o in zip(idx, outs):
            self.out[id(batch[i])] = (name, pick, o)

    def compare(self, c, r, st, eq=None):
        t = self.out.get(id(c))
        if t is None:
            return
        name, pick, g = t
        if g in ("NOFN", "BADARG", "BADOP"):
            return
        if c.get("gop") and g == "":
            g = "''"
        if pick == "class":
            g = g if g in ("RE", "EXC") else "val"
        elif isinstance(pick, tuple) and pick[0] == "sent":
            from props import C15
            if g.lstrip("-").isdigit() and int(g) in C15.SENT.get(pick[1], {}):
                g = "None"
        elif isinstance(pick, tuple) and pick[0] == "dict":
            if g.startswith("{") and g.endswith("}"):
                kv = dict(x.split("=", 1) for x in g[1:-1].split(",") if "=" in x)
                g = "|".join(kv.get(k, "?") for k in pick[1])
        elif pick is not None and g not in ("RE", "EXC", "None"):
            toks = g.split("|")
            try:
                g = "|".join(toks[i] for i in pick)
            except IndexError:
                pass
        st["gen_lines"] += 1
        st["gen_functions"].add(name)
        if not core.outputs_equal(r, g) and not (eq is not None and eq(r, g)):
            if within_tol(name, r, g):
                st["gen_float_differences"] = st.get("gen_float_differences", 0) + 1
                return
            if name in FLOAT_SENSITIVE:
                # the generated definition evaluates libm calls in double precision but the arithmetic around them exactly:
                # at a rounding boundary (an NL transition latitude) the two may legitimately differ
                st["gen_float_differences"] = st.get("gen_float_differences", 0) + 1
                return
            if len(st["gen_mismatches"]) < 50:
                st["gen_mismatches"].append(dict(function=name, real=c["real"], python=r, generated=g, tag=c.get("tag", "")))
            st["gen_mismatch_count"] = st.get("gen_mismatch_count", 0) + 1

    def finish(self, st):
        st["gen_functions"] = sorted(st["gen_functions"])
