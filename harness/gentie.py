"""Tie through the source-generated model.

`py2lean.py` rewrites lean/PyModeS/Generated/Src/*.lean from /repo's working tree on every run; `gendriver` is the
compiled line-protocol executable over those definitions.  Here the real Python function and the generated Lean
function are run on the same arguments (the arguments of the property's own case stream) and compared.  This checks the
translator and the Python-primitive semantics of Py/Val.lean (the trusted part of the `Tie/*.lean` theorems), not the
property: a disagreement is reported in the evidence and escalates the generators, it is never a violation by itself.
"""
from __future__ import annotations

import importlib
import json
import os
import subprocess
from fractions import Fraction

import core

GENDRIVER = os.path.join(core.LEAN, ".lake", "build", "bin", "gendriver")
STATUS = os.path.join(core.LEAN, "PyModeS", "Generated", "Src", "status.json")

PYMOD = {
    "py_common": "pyModeS.py_common", "surv": "pyModeS.decoder.surv", "allcall": "pyModeS.decoder.allcall",
    "uplink": "pyModeS.decoder.uplink",
}


def pymod(ns):
    return PYMOD.get(ns, "pyModeS.decoder.bds." + ns)


def regenerate():
    """-> (ok, message, status dict or None)"""
    rc, out = core.sh(["/venv/bin/python", os.path.join(core.VERIF, "harness", "py2lean.py"), "--repo", core.REPO])
    if rc != 0:
        return False, out.strip()[-400:], None
    try:
        return True, out.strip().split("\n")[-1], json.load(open(STATUS))
    except Exception as e:  # noqa
        return False, "status.json unreadable: %s" % e, None


def enc_arg(a):
    if a is None:
        return "N"
    if a is True:
        return "T"
    if a is False:
        return "F"
    if isinstance(a, str):
        if a == "" or any(ch.isspace() for ch in a):
            return None
        return "s:" + a
    if isinstance(a, int):
        return "n:%d" % a
    if isinstance(a, float):
        if a != a or a in (float("inf"), float("-inf")):
            return None
        f = Fraction(a)
        return "n:%d/%d" % (f.numerator, f.denominator)
    return None


class GenTie:
    def __init__(self, ctx):
        self.ctx = ctx
        self.ok = bool(getattr(ctx, "gen_ok", False)) and os.path.exists(GENDRIVER)
        self.map = {}
        self.out = {}
        if not self.ok:
            return
        try:
            status = json.load(open(STATUS))
        except Exception:
            self.ok = False
            return
        for full in status.get("translated", []):
            ns, name = full.split(".", 1)
            try:
                obj = getattr(importlib.import_module(pymod(ns)), name)
            except Exception:
                continue
            self.map[id(obj)] = full
        self._keep = [getattr(importlib.import_module(pymod(f.split(".")[0])), f.split(".", 1)[1], None) for f in status.get("translated", [])]

    def target(self, real):
        """-> (generated name, args, picker) or None"""
        import run
        path, args = real[0], list(real[1])
        kwargs = real[2] if len(real) > 2 else {}
        if kwargs:
            return None
        pick = None
        if path == "h:adapters.pick":
            path, pick, args = args[0], list(args[1]), args[2:]
        elif path.startswith("h:"):
            return None
        try:
            fn = run.resolve(path)
        except Exception:
            return None
        name = self.map.get(id(fn))
        if name is None:
            return None
        enc = [enc_arg(a) for a in args]
        if any(e is None for e in enc):
            return None
        return name, enc, pick

    def prepare(self, batch):
        self.out = {}
        if not self.ok:
            return
        lines, idx = [], []
        for i, c in enumerate(batch):
            t = self.target(c["real"])
            if t is None:
                continue
            lines.append(t[0] + " " + " ".join(t[1]))
            idx.append((i, t[0], t[2]))
        if not lines:
            return
        try:
            p = subprocess.run([GENDRIVER], input="\n".join(lines) + "\n", stdout=subprocess.PIPE, stderr=subprocess.PIPE,
                               text=True, timeout=1200)
            outs = p.stdout.split("\n")
        except Exception:
            self.ok = False
            return
        if len(outs) < len(lines):
            self.ok = False
            return
        for (i, name, pick), o in zip(idx, outs):
            self.out[id(batch[i])] = (name, pick, o)

    def compare(self, c, r, st):
        t = self.out.get(id(c))
        if t is None:
            return
        name, pick, g = t
        if g in ("NOFN", "BADARG", "BADOP"):
            return
        if pick is not None and g not in ("RE", "EXC", "None"):
            toks = g.split("|")
            try:
                g = "|".join(toks[i] for i in pick)
            except IndexError:
                pass
        st["gen_lines"] += 1
        st["gen_functions"].add(name)
        if not core.outputs_equal(r, g):
            if len(st["gen_mismatches"]) < 50:
                st["gen_mismatches"].append(dict(function=name, real=c["real"], python=r, generated=g, tag=c.get("tag", "")))
            st["gen_mismatch_count"] = st.get("gen_mismatch_count", 0) + 1

    def finish(self, st):
        st["gen_functions"] = sorted(st["gen_functions"])
