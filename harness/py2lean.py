#!/usr/bin/env python3
"""Source translator: straight-line pyModeS functions -> Lean 4 definitions over `PyModeS.Py.Val`.

Every run re-reads /repo's working tree and rewrites lean/PyModeS/Generated/Src/*.lean, so that the
tie theorems of lean/PyModeS/Tie/*.lean (generated definition = hand-written model, for every input)
are re-checked against what the code says *now*.  The translation is a pretty-printer of the Python
AST into Lean `do` notation over the dynamically typed primitives of Py/Val.lean: one Python
statement -> one `do` element, one Python operator / builtin -> one primitive.  Nothing is
interpreted or simplified here (apart from folding `-<literal>`), so the trusted part of the tool is
the table OPS/BUILTINS below plus the treatment of assignment (`let mut` / re-assignment) and of
`and`/`or`/chained comparisons (explicit short-circuit blocks).

A function that uses a construct outside the subset (loops, try, comprehensions, numpy, keyword
arguments we do not know ...) is skipped with a reason; so is every function that calls a skipped one.
Skipped functions stay tied to the model by the correspondence check only.

usage: py2lean.py [--repo /repo] [--out <dir>] [--status <json>]
"""
from __future__ import annotations

import ast
import fractions
import hashlib
import json
import os
import sys

HERE = os.path.dirname(os.path.abspath(__file__))
VERIF = os.path.normpath(os.path.join(HERE, ".."))

# python module (relative to src/pyModeS) -> lean namespace component, in dependency order
MODULES = [
    ("py_common.py", "py_common"),
    ("decoder/bds/bds05.py", "bds05"),
    ("decoder/bds/bds06.py", "bds06"),
    ("decoder/bds/bds08.py", "bds08"),
    ("decoder/bds/bds09.py", "bds09"),
    ("decoder/bds/bds10.py", "bds10"),
    ("decoder/bds/bds17.py", "bds17"),
    ("decoder/bds/bds20.py", "bds20"),
    ("decoder/bds/bds30.py", "bds30"),
    ("decoder/bds/bds40.py", "bds40"),
    ("decoder/bds/bds44.py", "bds44"),
    ("decoder/bds/bds45.py", "bds45"),
    ("decoder/bds/bds50.py", "bds50"),
    ("decoder/bds/bds53.py", "bds53"),
    ("decoder/bds/bds60.py", "bds60"),
    ("decoder/bds/bds61.py", "bds61"),
    ("decoder/bds/bds62.py", "bds62"),
    ("decoder/surv.py", "surv"),
    ("decoder/allcall.py", "allcall"),
    ("decoder/uplink.py", "uplink"),
    ("decoder/uncertainty.py", "uncertainty"),
    ("extra/aero.py", "aero"),
    ("decoder/adsb.py", "adsb"),
    ("decoder/bds/__init__.py", "bds"),
    ("extra/tcpclient.py", "tcpclient"),
    ("streamer/source.py", "source"),
    ("extra/rtlreader.py", "rtlreader"),
    ("streamer/decode.py", "decode"),
    ("decoder/__init__.py", "decoder"),
    ("c_common.pyx", "c_common"),
]

# names by which one module refers to another -> our namespace
MODULE_ALIASES = {"common": "py_common", "py_common": "py_common"}
for _p, _n in MODULES:
    MODULE_ALIASES.setdefault(_n, _n)

# hand-written externals (Py/Ext.lean): functions the subset cannot express, bound to the hand model
EXTERNALS = {
    ("py_common", "cprNL"): ("Ext.common_cprNL", 1, [None], ["lat"]),
    ("py_common", "floor"): ("Ext.common_floor", 1, [None], ["x"]),
    ("aero", "mach2cas"): ("Ext.aero_mach2cas", 2, [None, None], ["Mach", "H"]),
}

LEAN_KEYWORDS = set("""at from end open show fun in do if then else let have match with by local prefix instance def
theorem where return for unless mut try catch finally throw structure class inductive namespace section variable
universe import export private protected partial unsafe macro syntax notation infix infixl infixr postfix deriving
extends abbrev axiom example lemma opaque mutual termination_by decreasing_by calc suffices obtain using Type Prop Sort
fun λ set_option attribute omit include nomatch nofun this""".split())

BINOPS = {ast.Add: "pyAdd", ast.Sub: "pySub", ast.Mult: "pyMul", ast.Div: "pyDiv", ast.FloorDiv: "pyFloorDiv",
          ast.Mod: "pyMod", ast.Pow: "pyPow", ast.BitAnd: "pyBitAnd", ast.BitOr: "pyBitOr", ast.BitXor: "pyBitXor",
          ast.LShift: "pyShl", ast.RShift: "pyShr"}
CMPOPS = {ast.Eq: "pyEq", ast.NotEq: "pyNe", ast.Lt: "pyLt", ast.LtE: "pyLe", ast.Gt: "pyGt", ast.GtE: "pyGe",
          ast.Is: "pyIs", ast.IsNot: "pyIsNot", ast.In: "pyIn", ast.NotIn: "pyNotIn"}
BUILTINS = {("int", 1): "pyInt1", ("int", 2): "pyInt2", ("len", 1): "pyLen", ("abs", 1): "pyAbs", ("float", 1): "pyFloat",
            ("min", 2): "pyMin2", ("max", 2): "pyMax2", ("bin", 1): "pyBin", ("str", 1): "pyStr"}
C_BUILTINS = {}
C_BUILTINS.update({("conv_long", 1): "cConvLong", ("conv_int", 1): "cConvInt", ("conv_uchar", 1): "cConvUchar",
                 ("conv_char", 1): "cConvChar", ("conv_ssize", 1): "cConvSsize", ("conv_double", 1): "cConvDouble",
                 ("conv_bint", 1): "cConvBint", ("conv_str", 1): "cConvStr", ("conv_obj", 1): "cConvObj",
                 ("cast_long", 1): "cCastLong", ("bytes", 1): "pyBytes", ("bytearray", 1): "pyBytearray",
                 ("fabs", 1): "pyAbs", ("abs", 1): "pyAbs", ("cos", 1): "Ext.np_cos", ("acos", 1): "Ext.np_arccos",
                 ("_mfloor", 1): "Ext.np_floor", ("c_floor", 1): "Ext.np_floor"})
METHODS = {("encode", 0): "pyEncode", ("decode", 0): "pyDecode", ("zfill", 1): "pyZfill", ("upper", 0): "pyUpper", ("replace", 2): "pyReplace"}


# libm / numpy scalar functions: evaluated in double precision by externals of Py/Ext.lean (exact transfer of the
# argument and of the result); only the functions the decoders use
LIBCALLS = {("math.sqrt", 1): "Ext.math_sqrt", ("math.atan2", 2): "Ext.math_atan2", ("math.degrees", 1): "Ext.math_degrees",
            ("math.log10", 1): "Ext.math_log10", ("np.floor", 1): "Ext.np_floor", ("np.isclose", 2): "Ext.np_isclose",
            ("np.cos", 1): "Ext.np_cos", ("np.arccos", 1): "Ext.np_arccos",
            ("np.exp", 1): "Ext.np_exp", ("np.sin", 1): "Ext.np_sin", ("np.sqrt", 1): "Ext.np_sqrt", ("np.radians", 1): "Ext.np_radians",
            ("np.degrees", 1): "Ext.math_degrees", ("np.arctan2", 2): "Ext.np_arctan2", ("np.maximum", 2): "Ext.np_maximum",
            ("np.where", 3): "Ext.np_where"}
LIBCONSTS = {"np.pi": "Ext.np_pi", "math.pi": "Ext.np_pi"}


class Unsupported(Exception):
    pass


def ident(name):
    if name in LEAN_KEYWORDS or not name.isidentifier():
        return "«%s»" % name
    if name[0].isupper() and len(name) <= 2:
        # avoid clashes with auto-bound universe-like names; harmless otherwise
        return name + "'"
    return name


def lean_str(s):
    if len(s) == 1:
        return "(Val.str [%s])" % lean_char(s)
    if len(s) <= 16:
        return "(Val.str [%s])" % ", ".join(lean_char(c) for c in s)
    esc = s.replace("\\", "\\\\").replace('"', '\\"').replace("\n", "\\n")
    return '(Val.str "%s".toList)' % esc


def lean_char(c):
    if c == "'":
        return "'\\''"
    if c == "\\":
        return "'\\\\'"
    if c == "\n":
        return "'\\n'"
    return "'%s'" % c


def lean_num(v):
    if isinstance(v, bool):
        raise Unsupported("bool as number")
    if isinstance(v, int):
        return "(Val.num %d)" % v if v >= 0 else "(Val.num (%d))" % v
    fr = fractions.Fraction(repr(v))  # the decimal the programmer wrote
    if fr.denominator == 1:
        n = fr.numerator
        return "(Val.num %d)" % n if n >= 0 else "(Val.num (%d))" % n
    return "(Val.num ((%d : Rat) / %d))" % (fr.numerator, fr.denominator)


def pure_literal(e, consts):
    """Lean `Val` term for literal data (module-level tables), or raise Unsupported"""
    if isinstance(e, ast.Constant):
        v = e.value
        if v is None:
            return "Val.none"
        if v is True or v is False:
            return "(Val.bool %s)" % ("true" if v else "false")
        if isinstance(v, (int, float)):
            return lean_num(v)
        if isinstance(v, str):
            return lean_str(v)
        raise Unsupported("constant")
    if isinstance(e, ast.UnaryOp) and isinstance(e.op, ast.USub) and isinstance(e.operand, ast.Constant) \
            and isinstance(e.operand.value, (int, float)) and not isinstance(e.operand.value, bool):
        return lean_num(-e.operand.value)
    if isinstance(e, (ast.List, ast.Tuple, ast.Set)):
        return "(Val.tuple [%s])" % ", ".join(pure_literal(x, consts) for x in e.elts)
    if isinstance(e, ast.Dict):
        if any(k is None for k in e.keys):
            raise Unsupported("dict unpacking")
        return "(Val.dict [%s])" % ", ".join("(%s, %s)" % (pure_literal(k, consts), pure_literal(v, consts))
                                             for k, v in zip(e.keys, e.values))
    if isinstance(e, ast.Name) and e.id in consts:
        return ident(e.id)
    if isinstance(e, ast.Call) and ast.unparse(e.func) == "conv_obj" and len(e.args) == 1:
        return pure_literal(e.args[0], consts)
    if isinstance(e, ast.Call) and ast.unparse(e.func) == "array.array" and len(e.args) == 2:
        return pure_literal(e.args[1], consts)
    raise Unsupported("not literal data")


class FnInfo:
    def __init__(self, module, name, node, argnames, defaults, cls=None):
        self.module, self.name, self.node, self.argnames, self.defaults = module, name, node, argnames, defaults
        self.cls = cls      # class name for a method (then argnames[0] is the receiver)
        self.lean = None
        self.reason = None
        self.deps = set()


class ModuleCtx:
    def __init__(self, ns, tree, path):
        self.ns, self.tree, self.path = ns, tree, path
        self.funcs = {}       # name -> FnInfo (module-level defs)
        self.imports = {}     # local name -> (module ns, attr or None)
        self.decorators = {}  # decorator name -> (inner wrapper FunctionDef, func param name)
        self.classes = {}     # class name -> dict(bases=[names], methods={name: FnInfo})
        self.consts = {}      # module-level NAME -> lean term (literal data: numbers, strings, None, lists, dicts)
        self.const_order = []


class Translator:
    def __init__(self, mods):
        self.mods = mods  # ns -> ModuleCtx
        self.done = {}    # (ns, name) -> FnInfo with .lean or .reason

    # ------------------------------------------------------------------ function level
    def translate_function(self, mc, fi):
        key = (mc.ns, fi.name)
        if key in self.done:
            return self.done[key]
        self.done[key] = fi  # (recursion guard: no recursion in the subset)
        try:
            node = fi.node
            if node.args.vararg or node.args.kwarg or node.args.kwonlyargs or node.args.posonlyargs:
                raise Unsupported("star / keyword-only arguments")
            deco = None
            if node.decorator_list:
                if len(node.decorator_list) != 1 or not isinstance(node.decorator_list[0], ast.Name):
                    raise Unsupported("decorator")
                dn = node.decorator_list[0].id
                if dn not in mc.decorators:
                    raise Unsupported("decorator %s" % dn)
                deco = mc.decorators[dn]
            ft = FnTranslator(self, mc, fi)
            body = ft.function(node.body, fi.argnames)
            params = " ".join("(%s : Val)" % ident(a) for a in fi.argnames)
            doc = "/-- %s:%d `%s` -/" % (mc.path, node.lineno, fi.name)
            raw_name = ident(fi.name) if deco is None else ident(fi.name + "_undecorated")
            text = "%s\ndef %s %s : Res Val := do\n%s\n" % (doc, raw_name, params, body)
            if deco is not None:
                wnode, fparam = deco
                wargs = [a.arg for a in wnode.args.args]
                if len(wargs) != len(fi.argnames):
                    raise Unsupported("decorator wrapper arity")
                wt = FnTranslator(self, mc, fi, func_alias=(fparam, raw_name, len(wargs)))
                wbody = wt.function(wnode.body, wargs)
                wparams = " ".join("(%s : Val)" % ident(a) for a in wargs)
                text += "\n/-- %s:%d `%s` as exported (wrapped by the module's decorator) -/\ndef %s %s : Res Val := do\n%s\n" % (
                    mc.path, node.lineno, fi.name, ident(fi.name), wparams, wbody)
                fi.deps |= wt.deps
            fi.deps |= ft.deps
            fi.deps |= {(cns, "") for (cns, _c) in ft.const_deps if cns != mc.ns}
            fi.partial = list(ft.partial)
            fi.lean = text
        except Unsupported as e:
            fi.reason = str(e)
        return fi

    def find_method(self, mc, cls, name):
        """method `name` of class `cls` (own, then base classes, across the loaded modules) -> (ModuleCtx, FnInfo) or None"""
        seen = set()
        todo = [(mc, cls)]
        while todo:
            m, c = todo.pop(0)
            if (m.ns, c) in seen:
                continue
            seen.add((m.ns, c))
            cd = m.classes.get(c)
            if cd is None:
                # imported class?
                imp = m.imports.get(c)
                if imp and imp[0] in self.mods and imp[1] in self.mods[imp[0]].classes:
                    todo.append((self.mods[imp[0]], imp[1]))
                continue
            if name in cd["methods"]:
                return m, cd["methods"][name]
            for b in cd["bases"]:
                todo.append((m, b))
        return None

    def method_is_pure(self, mc, cls, name, seen=None):
        """the method neither stores into its receiver nor calls something that might (syntactic check)"""
        seen = seen or set()
        found = self.find_method(mc, cls, name)
        if found is None or (cls, name) in seen:
            return False
        seen.add((cls, name))
        tmc, tfi = found
        recv = tfi.argnames[0]

        def rooted(e):
            while isinstance(e, (ast.Attribute, ast.Subscript)):
                e = e.value
            return isinstance(e, ast.Name) and e.id == recv
        for n in ast.walk(tfi.node):
            if isinstance(n, (ast.Assign, ast.AugAssign, ast.AnnAssign)):
                tgts = n.targets if isinstance(n, ast.Assign) else [n.target]
                for t in tgts:
                    if not isinstance(t, ast.Name) and rooted(t):
                        return False
            if isinstance(n, ast.Call) and isinstance(n.func, ast.Attribute) and rooted(n.func.value):
                if isinstance(n.func.value, ast.Name):
                    if not self.method_is_pure(tmc, tfi.cls, n.func.attr, seen):
                        return False
                elif n.func.attr in ("append", "extend", "send", "put", "close", "clear", "pop", "remove", "insert"):
                    return False
        return True

    def resolve_call(self, mc, func):
        """-> (lean name, argnames, defaults, dep key) for a call target, or raise Unsupported"""
        if isinstance(func, ast.Name):
            name = func.id
            if name in mc.funcs:
                tgt_mc, tgt = mc, mc.funcs[name]
            elif name in mc.imports and mc.imports[name][1] is not None:
                ns, attr = mc.imports[name]
                if (ns, attr) in EXTERNALS:
                    return EXTERNALS[(ns, attr)][0], EXTERNALS[(ns, attr)][3], EXTERNALS[(ns, attr)][2], None
                if ns not in self.mods or attr not in self.mods[ns].funcs:
                    raise Unsupported("call to %s.%s" % (ns, attr))
                tgt_mc, tgt = self.mods[ns], self.mods[ns].funcs[attr]
            else:
                raise Unsupported("call to %s" % name)
        elif (isinstance(func, ast.Attribute) and isinstance(func.value, ast.Attribute) and isinstance(func.value.value, ast.Name)
              and mc.imports.get(func.value.value.id, (None, None))[0] == "pyModeS"):
            # pms.adsb.f / pms.commb.f / pms.bds.f / pms.common.f
            sub = func.value.attr
            cands = {"adsb": ["adsb"], "common": ["py_common"], "bds": ["bds"],
                     "commb": [n for n in self.mods if n.startswith("bds") and n != "bds"]}.get(sub, [])
            tgt_mc = tgt = None
            for ns in cands:
                if ns not in self.mods:
                    continue
                m2 = self.mods[ns]
                if func.attr in m2.funcs:
                    tgt_mc, tgt = m2, m2.funcs[func.attr]
                    break
                imp = m2.imports.get(func.attr)
                if imp and imp[1] and imp[0] in self.mods and imp[1] in self.mods[imp[0]].funcs:
                    tgt_mc, tgt = self.mods[imp[0]], self.mods[imp[0]].funcs[imp[1]]
                    break
            if tgt is None:
                raise Unsupported("call to %s" % ast.unparse(func))
        elif (isinstance(func, ast.Attribute) and isinstance(func.value, ast.Name)
              and mc.imports.get(func.value.id, (None, None))[0] == "pyModeS"):
            # pms.df / pms.icao / ... : `from .common import *` of the package
            if (("py_common", func.attr) in EXTERNALS):
                e = EXTERNALS[("py_common", func.attr)]
                return e[0], e[3], e[2], None
            if "py_common" not in self.mods or func.attr not in self.mods["py_common"].funcs:
                raise Unsupported("call to %s" % ast.unparse(func))
            tgt_mc, tgt = self.mods["py_common"], self.mods["py_common"].funcs[func.attr]
        elif (isinstance(func, ast.Attribute) and isinstance(func.value, ast.Name)
              and mc.imports.get(func.value.id, (None, None))[0] == "commb"):
            tgt_mc = tgt = None
            for ns in [n for n in self.mods if n.startswith("bds") and n != "bds"]:
                if func.attr in self.mods[ns].funcs:
                    tgt_mc, tgt = self.mods[ns], self.mods[ns].funcs[func.attr]
                    break
            if tgt is None:
                raise Unsupported("call to commb.%s" % func.attr)
        elif isinstance(func, ast.Attribute) and isinstance(func.value, ast.Name):
            modname = func.value.id
            ns = mc.imports.get(modname, (MODULE_ALIASES.get(modname), None))[0] if modname in mc.imports else None
            if ns is None:
                raise Unsupported("call to %s.%s" % (modname, func.attr))
            if (ns, func.attr) in EXTERNALS:
                return EXTERNALS[(ns, func.attr)][0], EXTERNALS[(ns, func.attr)][3], EXTERNALS[(ns, func.attr)][2], None
            if ns in self.mods and func.attr not in self.mods[ns].funcs:
                # a name the module re-exports (`from .bds.bds08 import callsign` in adsb.py)
                imp = self.mods[ns].imports.get(func.attr)
                if imp and imp[1] and imp[0] in self.mods and imp[1] in self.mods[imp[0]].funcs:
                    ns, func = imp[0], ast.Attribute(value=func.value, attr=imp[1], ctx=ast.Load())
            if ns not in self.mods or func.attr not in self.mods[ns].funcs:
                raise Unsupported("call to %s.%s" % (modname, func.attr))
            tgt_mc, tgt = self.mods[ns], self.mods[ns].funcs[func.attr]
        else:
            raise Unsupported("call target " + ast.dump(func)[:60])
        if (tgt_mc.ns, tgt.name) in EXTERNALS:
            e = EXTERNALS[(tgt_mc.ns, tgt.name)]
            return e[0], e[3], e[2], None
        r = self.translate_function(tgt_mc, tgt)
        if r.lean is None:
            raise Unsupported("calls %s.%s (%s)" % (tgt_mc.ns, tgt.name, r.reason or "in progress"))
        lean = "Gen.%s.%s" % (tgt_mc.ns, ident(tgt.name))   # qualified: a local variable may be called like a module
        return lean, tgt.argnames, tgt.defaults, (tgt_mc.ns, tgt.name)


class FnTranslator:
    def __init__(self, tr, mc, fi, func_alias=None):
        self.tr, self.mc, self.fi = tr, mc, fi
        self.func_alias = func_alias
        self.deps = set()
        self.const_deps = set()
        self.partial = []
        self.tmp = 0

    # ---------------------------------------------------------------- statements
    def function(self, body, argnames):
        self.params = list(argnames)
        self.is_method = self.fi.cls is not None and self.func_alias is None
        counts, first_depth = {}, {}
        self.scan(body, 0, counts, first_depth)
        if self.mc.ns == "c_common":
            # `x = _x` views of the transliterated pyx: expanded before the mutability analysis
            self.locals = set(counts) | set(argnames)
            body = self.expand_aliases(body)
            counts, first_depth = {}, {}
            self.scan(body, 0, counts, first_depth)
        if self.is_method:
            counts[argnames[0]] = counts.get(argnames[0], 0) + 2   # the receiver is threaded through as a mutable value
            first_depth.setdefault(argnames[0], 0)
        self.locals = set(counts) | set(argnames)
        self.mutable = set()
        pre = []
        for name, n in counts.items():
            if name in argnames:
                self.mutable.add(name)
                pre.append("  let mut %s := %s" % (ident(name), ident(name)))
            elif n > 1 or first_depth[name] > 0:
                self.mutable.add(name)
                if first_depth[name] > 0:
                    pre.append("  let mut %s : Val := Val.none" % ident(name))
        self.declared = set(argnames) | {n for n in counts if first_depth[n] > 0}
        lines = pre + self.block(body, 1, self.always_leaves(body))
        if not self.always_leaves(body):
            lines.append("  return %s" % self.ret("Val.none"))
        return "\n".join(lines)

    def ret(self, term):
        """what a `return term` hands back: methods return (receiver, value)"""
        if getattr(self, "is_method", False):
            return "(Val.tuple [%s, %s])" % (ident(self.params[0]), term)
        return term

    def always_leaves(self, stmts):
        """every path through the block ends in return / raise (so falling off the end is impossible)"""
        if not stmts:
            return False
        last = stmts[-1]
        if isinstance(last, (ast.Return, ast.Raise)):
            return True
        if isinstance(last, ast.If):
            return bool(last.orelse) and self.always_leaves(last.body) and self.always_leaves(last.orelse)
        return False

    def scan(self, stmts, depth, counts, first_depth):
        for s in stmts:
            targets = []
            if (isinstance(s, ast.Expr) and isinstance(s.value, ast.Call) and isinstance(s.value.func, ast.Attribute)
                    and isinstance(s.value.func.value, ast.Name) and s.value.func.attr in ("append", "extend")):
                targets += [s.value.func.value.id, s.value.func.value.id]
            if isinstance(s, ast.Assign):
                for t in s.targets:
                    targets += self.target_names(t)
            elif isinstance(s, ast.AugAssign):
                targets += self.target_names(s.target)
                targets += self.target_names(s.target)  # counts as re-assignment
            elif isinstance(s, ast.AnnAssign) and s.value is not None:
                targets += self.target_names(s.target)
            elif isinstance(s, ast.If):
                self.scan(s.body, depth + 1, counts, first_depth)
                self.scan(s.orelse, depth + 1, counts, first_depth)
            elif isinstance(s, ast.While):
                self.scan(s.body, depth + 1, counts, first_depth)
            elif isinstance(s, ast.For):
                for n in self.target_names(s.target):
                    counts[n] = counts.get(n, 0) + 2
                    first_depth.setdefault(n, depth + 1)
                self.scan(s.body, depth + 1, counts, first_depth)
            elif isinstance(s, ast.Try):
                self.scan(s.body, depth + 1, counts, first_depth)
                for h in s.handlers:
                    self.scan(h.body, depth + 1, counts, first_depth)
            for n in targets:
                counts[n] = counts.get(n, 0) + 1
                first_depth.setdefault(n, depth)

    def target_names(self, t):
        if isinstance(t, ast.Name):
            return [t.id]
        if isinstance(t, ast.Subscript) and isinstance(t.value, ast.Name) and not isinstance(t.slice, ast.Slice):
            return [t.value.id, t.value.id]   # x[i] = v re-binds x (lists are values in the model)
        if isinstance(t, (ast.Attribute, ast.Subscript)):
            r = t
            while isinstance(r, (ast.Attribute, ast.Subscript)):
                r = r.value
            if isinstance(r, ast.Name):
                return [r.id, r.id]
        if isinstance(t, (ast.Tuple, ast.List)):
            return sum((self.target_names(e) for e in t.elts), [])
        if isinstance(t, ast.Starred):
            raise Unsupported("starred target")
        raise Unsupported("assignment target " + type(t).__name__)

    def block(self, stmts, ind, terminal=False):
        """`terminal`: the block is the last thing the function does (its last statement must have the function's type)"""
        out = []
        stmts = self.expand_aliases(list(stmts))
        for k, s in enumerate(stmts):
            out += self.stmt_or_unmodelled(s, ind, terminal and k == len(stmts) - 1)
        if not out:
            out.append("  " * ind + "pure ()")
        return out

    def expand_aliases(self, stmts):
        """`ac = self.acs[icao]` followed by stores through `ac` (ac["k"] = v): Python mutates the object inside self.acs.
        Values have no identity in the model, so the alias is expanded: the rest of the block uses the path itself.
        Only done when neither the alias nor a name in the path is assigned again in the rest of the block."""
        for k, s in enumerate(stmts):
            if not (isinstance(s, ast.Assign) and len(s.targets) == 1 and isinstance(s.targets[0], ast.Name)
                    and isinstance(s.value, (ast.Subscript, ast.Attribute, ast.Name)) and self.rooted_local(s.value)
                    and not (isinstance(s.value, ast.Name) and s.value.id == s.targets[0].id)):
                continue
            alias, path = s.targets[0].id, s.value
            rest = stmts[k + 1:]
            stores = False
            reassigned = False
            path_names = {n.id for n in ast.walk(path) if isinstance(n, ast.Name)}
            for r in rest:
                for n in ast.walk(r):
                    tg = []
                    if isinstance(n, ast.Assign):
                        tg = n.targets
                    elif isinstance(n, (ast.AugAssign, ast.AnnAssign)):
                        tg = [n.target]
                    elif isinstance(n, ast.For):
                        tg = [n.target]
                    for t in tg:
                        for e in (t.elts if isinstance(t, (ast.Tuple, ast.List)) else [t]):
                            if isinstance(e, ast.Name) and (e.id == alias or e.id in path_names):
                                reassigned = True
                            b = e
                            while isinstance(b, (ast.Subscript, ast.Attribute)):
                                b = b.value
                            if not isinstance(e, ast.Name) and isinstance(b, ast.Name) and b.id == alias:
                                stores = True
            if stores and not reassigned:
                class Sub(ast.NodeTransformer):
                    def visit_Name(self_, node):
                        if node.id == alias:
                            import copy
                            new = copy.deepcopy(path)
                            for x in ast.walk(new):
                                if hasattr(x, "ctx"):
                                    x.ctx = ast.Load()
                            if isinstance(node.ctx, ast.Store):
                                new.ctx = ast.Store()
                            return new
                        return node
                new_rest = [ast.fix_missing_locations(Sub().visit(r)) for r in rest]
                return stmts[:k] + self.expand_aliases(new_rest)
        return stmts

    def stmt_or_unmodelled(self, s, ind, terminal):
        """inside a branch, a statement outside the subset becomes `pyUnmodelled`: the model stops with an exception if
        that path is ever taken (recorded as a partial translation); at the top level of a function it is fatal"""
        try:
            return self.stmt(s, ind, terminal)
        except Unsupported as e:
            if ind <= 1 or isinstance(s, (ast.Return, ast.Raise)):
                raise
            self.partial.append("line %d: %s" % (getattr(s, "lineno", 0), e))
            return ["  " * ind + "(pyUnmodelled \"%s\" : Res %s)" % (str(e).replace('"', "'")[:60], "Val" if terminal else "PUnit")]

    def assign(self, name, rhs_res, ind, pure):
        """rhs_res: Lean term; pure=True when it is a `Val`, else a `Res Val`"""
        pad = "  " * ind
        arrow = ":=" if pure else "←"
        if name in self.declared:
            return [pad + "%s %s %s" % (ident(name), arrow, rhs_res)]
        self.declared.add(name)
        mut = "mut " if name in self.mutable else ""
        return [pad + "let %s%s %s %s" % (mut, ident(name), arrow, rhs_res)]

    def stmt(self, s, ind, terminal=False):
        pad = "  " * ind
        self.cur_ind = ind
        if isinstance(s, ast.Expr):
            if isinstance(s.value, ast.Constant):
                return []  # docstring
            if isinstance(s.value, ast.Call) and ast.unparse(s.value.func) in ("warnings.warn",):
                return []  # no effect on the returned value
            c = s.value
            if isinstance(c, ast.Call) and isinstance(c.func, ast.Name) and c.func.id == "print":
                return []  # console output is not part of any property
            if isinstance(c, ast.Call) and isinstance(c.func, ast.Name) and c.func.id in getattr(self, "printers", set()):
                # the arguments are evaluated (a look-up among them may raise), the output itself is not modelled
                out = []
                for a in list(c.args) + [k.value for k in c.keywords]:
                    term, pure = self.res(a)
                    if not pure:
                        self.tmp += 1
                        out.append(pad + "let _p__%d ← %s" % (self.tmp, term))
                return out
            mcall = self.method_call(c)
            if mcall is not None:
                lines, _value = mcall(ind)
                return lines
            if (isinstance(c, ast.Call) and isinstance(c.func, ast.Attribute) and c.func.attr in ("append", "extend")
                    and len(c.args) == 1 and not c.keywords and self.rooted_local(c.func.value)
                    and not isinstance(c.func.value, ast.Name)):
                # self.x.append(v) / self.x[k].append(v): functional update along the path
                prim = "pyAppend" if c.func.attr == "append" else "pyExtend"
                return self.store(c.func.value, "%s %s %s" % (prim, self.val(c.func.value), self.val(c.args[0])), False, ind)
            if (getattr(self, "is_method", False) and isinstance(c, ast.Call) and isinstance(c.func, ast.Attribute)
                    and self.rooted_local(c.func.value) and isinstance(c.func.value, ast.Attribute) and not c.keywords):
                # self.<object>.<method>(args): an effect on a collaborator (pipe, socket, queue): recorded as an output event
                recv = ident(self.params[0])
                label = "%s.%s" % (ast.unparse(c.func.value).split(".", 1)[1], c.func.attr)
                args = "(Val.tuple [%s])" % ", ".join(self.val(a) for a in c.args)
                return [pad + "%s ← pyEmit %s \"%s\" %s" % (recv, recv, label, args)]
            if (isinstance(c, ast.Call) and isinstance(c.func, ast.Attribute) and isinstance(c.func.value, ast.Name)
                    and c.func.value.id in self.locals and c.func.attr in ("append", "extend") and len(c.args) == 1 and not c.keywords):
                # x.append(v): functional update of the local list (aliases of x are not modelled)
                name = c.func.value.id
                prim = "pyAppend" if c.func.attr == "append" else "pyExtend"
                return self.assign(name, "%s %s %s" % (prim, ident(name), self.val(c.args[0])), ind, False)
            raise Unsupported("expression statement")
        if isinstance(s, ast.Pass):
            return []
        if isinstance(s, ast.ImportFrom):
            # `from .. import common, adsb, commb, bds` inside a function: aliases for this module's resolver
            for a in s.names:
                local = a.asname or a.name
                if a.name in MODULE_ALIASES:
                    self.mc.imports.setdefault(local, (MODULE_ALIASES[a.name], None))
                elif a.name == "commb":
                    self.mc.imports.setdefault(local, ("commb", None))
                else:
                    raise Unsupported("local import of " + a.name)
            return []
        if isinstance(s, ast.FunctionDef):
            # a local helper that only prints (tell's _print): calling it evaluates the arguments and nothing else
            def only_prints(body):
                for b in body:
                    if isinstance(b, ast.Expr) and isinstance(b.value, ast.Call) and isinstance(b.value.func, ast.Name) and b.value.func.id == "print":
                        continue
                    if isinstance(b, ast.If) and only_prints(b.body) and only_prints(b.orelse):
                        continue
                    if isinstance(b, ast.Expr) and isinstance(b.value, ast.Constant):
                        continue
                    return False
                return True
            if only_prints(s.body):
                self.printers = getattr(self, "printers", set()) | {s.name}
                return []
            raise Unsupported("nested function " + s.name)
        if isinstance(s, ast.AnnAssign):
            if s.value is None:
                return []
            return self.do_assign(s.target, s.value, ind)
        if isinstance(s, ast.Assign):
            if len(s.targets) != 1:
                raise Unsupported("chained assignment")
            return self.do_assign(s.targets[0], s.value, ind)
        if isinstance(s, ast.AugAssign) and isinstance(s.target, ast.Subscript):
            op = BINOPS.get(type(s.op))
            if op is None:
                raise Unsupported("operator " + type(s.op).__name__)
            load = ast.Subscript(value=s.target.value, slice=s.target.slice, ctx=ast.Load())
            return self.do_assign(s.target, ast.BinOp(left=load, op=s.op, right=s.value), ind)
        if isinstance(s, ast.AugAssign):
            if not isinstance(s.target, ast.Name):
                raise Unsupported("augmented assignment target")
            op = BINOPS.get(type(s.op))
            if op is None:
                raise Unsupported("operator " + type(s.op).__name__)
            rhs = "%s %s %s" % (op, ident(s.target.id), self.val(s.value))
            return self.assign(s.target.id, rhs, ind, False)
        if isinstance(s, ast.Return):
            if s.value is None:
                return [pad + "return %s" % self.ret("Val.none")]
            mcall = self.method_call(s.value)
            if mcall is not None:
                lines, value = mcall(ind)
                return lines + [pad + "return %s" % self.ret(value)]
            return [pad + "return %s" % self.ret(self.val(s.value))]
        if isinstance(s, ast.Raise):
            kind = "rte"
            if s.exc is None:
                raise Unsupported("bare raise")
            f = s.exc.func if isinstance(s.exc, ast.Call) else s.exc
            if not (isinstance(f, ast.Name) and f.id == "RuntimeError"):
                kind = "exc"
            return [pad + "(Res.%s : Res %s)" % (kind, "Val" if terminal else "PUnit")]
        if isinstance(s, ast.If):
            out = [pad + "if pyTruth %s then" % self.val(s.test)]
            out += self.block(s.body, ind + 1, terminal)
            if s.orelse:
                out.append(pad + "else")
                out += self.block(s.orelse, ind + 1, terminal)
            return out
        if isinstance(s, ast.For):
            if s.orelse:
                raise Unsupported("for/else")
            self.tmp += 1
            it = "it__%d" % self.tmp
            out = [pad + "for %s in (← pyIter %s) do" % (it, self.val(s.iter))]
            out += self.bind_target(s.target, it, ind + 1)
            self.loops = getattr(self, "loops", []) + [None]
            try:
                out += self.block(s.body, ind + 1)
            finally:
                self.loops = self.loops[:-1]
            return out
        if isinstance(s, ast.While):
            if s.orelse:
                raise Unsupported("while/else")
            # a `while` loop gets WHILE_FUEL iterations; running out of fuel is reported as an exception
            self.tmp += 1
            fu = "fuel__%d" % self.tmp
            out = [pad + "let mut %s := true" % fu,
                   pad + "for _ in [0:whileFuel] do",
                   pad + "  if !(pyTruth %s) then" % self.val(s.test),
                   pad + "    %s := false" % fu,
                   pad + "    break"]
            self.loops = getattr(self, "loops", []) + [fu]
            try:
                out += self.block(s.body, ind + 1)
            finally:
                self.loops = self.loops[:-1]
            out += [pad + "if %s then" % fu, pad + "  (Res.exc : Res PUnit)"]
            return out
        if isinstance(s, ast.Delete):
            out = []
            for t in s.targets:
                if not (isinstance(t, ast.Subscript) and not isinstance(t.slice, ast.Slice) and self.rooted_local(t)):
                    raise Unsupported("del of " + type(t).__name__)
                out += self.store(t.value, "pyDelItem %s %s" % (self.val(t.value), self.val(t.slice)), False, ind)
            return out
        if isinstance(s, ast.Break):
            fu = (getattr(self, "loops", []) or [None])[-1]
            if fu is not None:
                return [pad + "%s := false" % fu, pad + "break"]   # leaving a `while` by `break` is a normal exit
            return [pad + "break"]
        if isinstance(s, ast.Continue):
            return [pad + "continue"]
        if isinstance(s, ast.Try):
            if s.orelse or s.finalbody or len(s.handlers) != 1:
                raise Unsupported("try/else/finally or several handlers")
            h = s.handlers[0]
            if h.name is not None:
                raise Unsupported("except ... as name")
            tname = None if h.type is None else (h.type.id if isinstance(h.type, ast.Name) else None)
            if h.type is not None and tname is None:
                raise Unsupported("except with a tuple of types")
            kind = "Err.rte" if tname == "RuntimeError" else ("Err.any" if tname in (None, "Exception", "BaseException") else "Err.exc")
            out = [pad + "try"]
            out += self.block(s.body, ind + 1)
            out.append(pad + "catch e__ =>")
            out.append(pad + "  if !(e__.caughtBy %s) then throw e__" % kind)
            out += self.block(h.body, ind + 1)
            return out
        raise Unsupported("statement " + type(s).__name__)

    def bind_target(self, target, src, ind):
        """bind a loop / comprehension target to the Lean variable `src`"""
        if isinstance(target, ast.Name):
            return self.assign(target.id, src, ind, True)
        if isinstance(target, (ast.Tuple, ast.List)) and all(isinstance(e, ast.Name) for e in target.elts):
            out = ["  " * ind + "pyUnpackCheck %s %d" % (src, len(target.elts))]
            for i, e in enumerate(target.elts):
                out += self.assign(e.id, "pyIdxN %s %d" % (src, i), ind, False)
            return out
        raise Unsupported("loop target " + type(target).__name__)

    def comprehension(self, e):
        """[elt for target in iter if cond ...] -> pyComp iter (fun x => do ...; return some elt / none)"""
        if len(e.generators) != 1 or e.generators[0].is_async:
            raise Unsupported("nested comprehension")
        g = e.generators[0]
        it = self.val(g.iter)
        self.tmp += 1
        x = "x__%d" % self.tmp
        names = self.target_names(g.target)
        saved = (set(self.locals), set(self.declared), set(self.mutable))
        for n in names:
            self.locals.add(n)
            self.declared.discard(n)
            self.mutable.discard(n)
        try:
            lines = self.bind_target(g.target, x, 0)
            for c in g.ifs:
                lines.append("if !(pyTruth %s) then return none" % self.val(c))
            lines.append("return some %s" % self.val(e.elt))
        finally:
            self.locals, self.declared, self.mutable = saved
        pad = "  " * (getattr(self, "cur_ind", 1) + 3)
        body = "".join("\n" + pad + l.strip() for l in lines)
        return "pyComp %s (fun %s => do%s)" % (it, x, body)

    def rooted_local(self, e):
        """an attribute / subscript path whose root is a local variable (e.g. self.acs[icao]["t"])"""
        while isinstance(e, (ast.Attribute, ast.Subscript)):
            e = e.value
        return isinstance(e, ast.Name) and e.id in self.locals

    def store(self, target, term, pure, ind):
        """assign the Lean term (a `Val` if pure, else a `Res Val`) to a Python l-value path, functionally"""
        if isinstance(target, ast.Name):
            return self.assign(target.id, term, ind, pure)
        self.tmp += 1
        t = "s__%d" % self.tmp
        out = ["  " * ind + "let %s %s %s" % (t, ":=" if pure else "←", term)]
        if isinstance(target, ast.Attribute):
            new = "pySetAttr %s \"%s\" %s" % (self.val(target.value), target.attr, t)
        elif isinstance(target, ast.Subscript) and not isinstance(target.slice, ast.Slice):
            new = "pySetItem %s %s %s" % (self.val(target.value), self.val(target.slice), t)
        else:
            raise Unsupported("assignment target " + type(target).__name__)
        return out + self.store(target.value, new, False, ind)

    def method_call(self, c):
        """`self.m(args)` where m is a translated method of the receiver's class -> function(ind) -> (lines, value term)"""
        if not (getattr(self, "is_method", False) and isinstance(c, ast.Call) and isinstance(c.func, ast.Attribute)
                and isinstance(c.func.value, ast.Name) and c.func.value.id == self.params[0]):
            return None
        found = self.tr.find_method(self.mc, self.fi.cls, c.func.attr)
        if found is None:
            raise Unsupported("method %s of an object" % c.func.attr)
        tmc, tfi = found
        r = self.tr.translate_function(tmc, tfi)
        if r.lean is None:
            raise Unsupported("calls method %s (%s)" % (tfi.name, r.reason or "in progress"))
        self.deps.add((tmc.ns, tfi.name))
        if c.keywords or len(c.args) != len(tfi.argnames) - 1:
            raise Unsupported("method call shape")
        lean = "Gen.%s.%s" % (tmc.ns, ident(tfi.name))
        recv = ident(self.params[0])

        def emit(ind):
            self.tmp += 1
            r_ = "r__%d" % self.tmp
            pad = "  " * ind
            lines = [pad + "let %s ← %s %s" % (r_, lean, " ".join([recv] + [self.val(a) for a in c.args])),
                     pad + "%s ← pyIdxN %s 0" % (recv, r_)]
            return lines, "(← pyIdxN %s 1)" % r_
        return emit

    def do_assign(self, target, value, ind):
        mcall = self.method_call(value) if isinstance(target, ast.Name) else None
        if mcall is not None:
            lines, v = mcall(ind)
            return lines + self.assign(target.id, v[3:-1] if v.startswith("(← ") else v, ind, False)
        if isinstance(target, (ast.Attribute, ast.Subscript)) and not isinstance(target, ast.Name) and \
                not (isinstance(target, ast.Subscript) and isinstance(target.value, ast.Name)) and self.rooted_local(target) \
                and not (isinstance(target, ast.Subscript) and isinstance(target.slice, ast.Slice)):
            term, pure = self.res(value)
            return self.store(target, term, pure, ind)
        if isinstance(target, ast.Subscript) and isinstance(target.value, ast.Name) and not isinstance(target.slice, ast.Slice):
            # x[i] = v : functional update of the local list / dict (aliases of x are not modelled)
            name = target.value.id
            if name not in self.locals:
                raise Unsupported("item assignment to a global")
            return self.assign(name, "pySetItem %s %s %s" % (ident(name), self.val(target.slice), self.val(value)), ind, False)
        if isinstance(target, ast.Name):
            term, pure = self.res(value)
            return self.assign(target.id, term, ind, pure)
        if isinstance(target, (ast.Tuple, ast.List)) and not all(isinstance(e, ast.Name) for e in target.elts) \
                and all(isinstance(e, ast.Name) or self.rooted_local(e) for e in target.elts):
            # a, x["k"], self.y = f(): unpack into l-value paths
            self.tmp += 1
            t = "t__%d" % self.tmp
            term, pure = self.res(value)
            out = ["  " * ind + "let %s %s %s" % (t, ":=" if pure else "←", term),
                   "  " * ind + "pyUnpackCheck %s %d" % (t, len(target.elts))]
            for i, e in enumerate(target.elts):
                out += self.store(e, "pyIdxN %s %d" % (t, i), False, ind)
            return out
        if isinstance(target, (ast.Tuple, ast.List)) and all(isinstance(e, ast.Name) for e in target.elts):
            names = [e.id for e in target.elts]
            out = []
            if isinstance(value, (ast.Tuple, ast.List)) and len(value.elts) == len(names):
                tmps = []
                for e in value.elts:
                    self.tmp += 1
                    t = "t__%d" % self.tmp
                    term, pure = self.res(e)
                    out.append("  " * ind + "let %s %s %s" % (t, ":=" if pure else "←", term))
                    tmps.append(t)
                for n, t in zip(names, tmps):
                    out += self.assign(n, t, ind, True)
                return out
            self.tmp += 1
            t = "t__%d" % self.tmp
            term, pure = self.res(value)
            out.append("  " * ind + "let %s %s %s" % (t, ":=" if pure else "←", term))
            out.append("  " * ind + "pyUnpackCheck %s %d" % (t, len(names)))
            for i, n in enumerate(names):
                out += self.assign(n, "pyIdxN %s %d" % (t, i), ind, False)
            return out
        raise Unsupported("assignment target " + type(target).__name__)

    # ---------------------------------------------------------------- expressions
    def val(self, e):
        """Lean term of type `Val` usable inside the enclosing `do` block"""
        term, pure = self.res(e)
        return term if pure else "(← %s)" % term

    def res(self, e):
        """-> (term, pure): pure=True: term : Val ; else term : Res Val"""
        if isinstance(e, ast.Constant):
            v = e.value
            if v is None:
                return "Val.none", True
            if v is True or v is False:
                return "(Val.bool %s)" % ("true" if v else "false"), True
            if isinstance(v, (int, float)):
                return lean_num(v), True
            if isinstance(v, str):
                return lean_str(v), True
            raise Unsupported("constant " + repr(v)[:30])
        if isinstance(e, ast.Name):
            if e.id in self.locals:
                return ident(e.id), True
            if self.mc.ns == "c_common" and e.id == "pi":
                return "Ext.np_pi", True
            if e.id in self.mc.consts:
                self.const_deps.add((self.mc.ns, e.id))
                return "Gen.%s.%s" % (self.mc.ns, ident(e.id)), True
            raise Unsupported("global name " + e.id)
        if isinstance(e, ast.Attribute) and self.rooted_local(e.value):
            return "pyGetAttr %s \"%s\"" % (self.val(e.value), e.attr), False
        if isinstance(e, ast.Attribute) and ast.unparse(e) in LIBCONSTS and e.value.id not in self.locals:
            return LIBCONSTS[ast.unparse(e)], True
        if isinstance(e, ast.Attribute) and isinstance(e.value, ast.Name) and e.value.id not in self.locals:
            ns = self.mc.imports.get(e.value.id, (None, None))[0]
            if ns in self.tr.mods and e.attr in self.tr.mods[ns].consts:
                self.const_deps.add((ns, e.attr))
                return "Gen.%s.%s" % (ns, ident(e.attr)), True
            raise Unsupported("attribute %s.%s" % (e.value.id, e.attr))
        if isinstance(e, ast.Dict):
            if any(k is None for k in e.keys):
                raise Unsupported("dict unpacking")
            return "(Val.dict [%s])" % ", ".join("(%s, %s)" % (self.val(k), self.val(v)) for k, v in zip(e.keys, e.values)), True
        if isinstance(e, ast.Set):
            return "(Val.tuple [%s])" % ", ".join(self.val(x) for x in e.elts), True
        if isinstance(e, (ast.ListComp, ast.GeneratorExp)):
            return self.comprehension(e), False
        if isinstance(e, ast.UnaryOp):
            if isinstance(e.op, ast.USub):
                if isinstance(e.operand, ast.Constant) and isinstance(e.operand.value, (int, float)) and not isinstance(e.operand.value, bool):
                    return lean_num(-e.operand.value), True
                return "pyNeg %s" % self.val(e.operand), False
            if isinstance(e.op, ast.Not):
                return "pyNot %s" % self.val(e.operand), False
            raise Unsupported("unary " + type(e.op).__name__)
        if isinstance(e, ast.BinOp):
            if isinstance(e.op, ast.Mod) and isinstance(e.left, ast.Constant) and isinstance(e.left.value, str):
                return self.fmt_percent(e.left.value, e.right), False
            op = BINOPS.get(type(e.op))
            if isinstance(e.op, ast.Pow) and self.mc.ns == "aero":
                op = "Ext.float_pow"     # float exponents (3.5, 2/7, 4.2568...): libm pow in double precision
            if op is None:
                raise Unsupported("operator " + type(e.op).__name__)
            a = self.val(e.left)
            b = self.val(e.right)
            return "%s %s %s" % (op, a, b), False
        if isinstance(e, ast.BoolOp):
            return self.boolop(e), False
        if isinstance(e, ast.Compare):
            return self.compare(e), False
        if isinstance(e, ast.IfExp):
            t, _ = self.res_block(e.body)
            f, _ = self.res_block(e.orelse)
            return "(do if pyTruth %s then %s else %s)" % (self.val(e.test), t, f), False
        if isinstance(e, ast.Subscript):
            return self.subscript(e), False
        if isinstance(e, (ast.Tuple, ast.List)):
            return "(Val.tuple [%s])" % ", ".join(self.val(x) for x in e.elts), True
        if isinstance(e, ast.Call):
            return self.call(e), False
        raise Unsupported("expression " + type(e).__name__)

    def res_block(self, e):
        """a self-contained `Res Val` term (its own lifts do not escape)"""
        term, pure = self.res(e)
        if pure:
            return "pure %s" % term, True
        return "(do %s)" % term if "←" in term else term, False

    def boolop(self, e):
        # a and b and c  ==  (do let t ← a; if truth t then (b and c) else pure t)
        is_and = isinstance(e.op, ast.And)

        def go(vals):
            if len(vals) == 1:
                return self.res_block(vals[0])[0]
            self.tmp += 1
            t = "b__%d" % self.tmp
            head = self.res_block(vals[0])[0]
            rest = go(vals[1:])
            if is_and:
                return "(do let %s ← %s; if pyTruth %s then %s else pure %s)" % (t, head, t, rest, t)
            return "(do let %s ← %s; if pyTruth %s then pure %s else %s)" % (t, head, t, t, rest)
        return go(e.values)

    def compare(self, e):
        ops = [CMPOPS.get(type(o)) for o in e.ops]
        if None in ops:
            raise Unsupported("comparison operator")
        if len(ops) == 1:
            return "%s %s %s" % (ops[0], self.val(e.left), self.val(e.comparators[0]))
        # a op1 b op2 c : b evaluated once, short-circuit
        if len(ops) != 2:
            raise Unsupported("comparison chain > 2")
        a = self.val(e.left)
        bterm, bpure = self.res(e.comparators[0])
        if not bpure:
            raise Unsupported("chained comparison with a non-atomic middle operand")
        cblock = self.res_block(e.comparators[1])[0]
        self.tmp += 1
        t = "c__%d" % self.tmp
        # the right operand is only evaluated when the first comparison is true
        return "(do let %s ← %s %s %s; if pyTruth %s then (do %s %s (← %s)) else pure %s)" % (
            t, ops[0], a, bterm, t, ops[1], bterm, cblock, t)

    def const_nat(self, e):
        if isinstance(e, ast.Constant) and isinstance(e.value, int) and not isinstance(e.value, bool) and e.value >= 0:
            return e.value
        return None

    def subscript(self, e):
        v = self.val(e.value)
        sl = e.slice
        if isinstance(sl, ast.Slice):
            if sl.step is not None:
                raise Unsupported("slice step")
            lo, hi = sl.lower, sl.upper
            nlo = self.const_nat(lo) if lo is not None else None
            nhi = self.const_nat(hi) if hi is not None else None
            if lo is not None and hi is not None and nlo is not None and nhi is not None:
                return "pySliceNN %s %d %d" % (v, nlo, nhi)
            if hi is None and nlo is not None:
                return "pySliceN_ %s %d" % (v, nlo)
            if lo is None and nhi is not None:
                return "pySlice_N %s %d" % (v, nhi)
            a = "none" if lo is None else "(some %s)" % self.val(lo)
            b = "none" if hi is None else "(some %s)" % self.val(hi)
            return "pySlice %s %s %s" % (v, a, b)
        k = self.const_nat(sl)
        if k is not None:
            return "pyIdxN %s %d" % (v, k)
        return "pyIdx %s %s" % (v, self.val(sl))

    def fmt_percent(self, fmt, arg):
        import re
        mo = re.fullmatch(r"%0(\d+)X", fmt)
        if mo:
            return "pyFmtHexU %s %s" % (mo.group(1), self.val(arg))
        if fmt.count("%") == fmt.count("%s") and fmt.count("%s") >= 1:
            # only %s conversions: the pieces between them and str() of each argument
            pieces = fmt.split("%s")
            args = arg.elts if isinstance(arg, ast.Tuple) else [arg]
            if len(args) != len(pieces) - 1:
                raise Unsupported("format arity")
            return "pyFormatS (Val.tuple [%s]) (Val.tuple [%s])" % (
                ", ".join(lean_str(x) if x else "(Val.str [])" for x in pieces), ", ".join(self.val(a) for a in args))
        raise Unsupported("format string %r" % fmt)

    def call(self, e):
        f = e.func
        # --- a method of the receiver that does not change it, used inside an expression
        if (getattr(self, "is_method", False) and isinstance(f, ast.Attribute) and isinstance(f.value, ast.Name)
                and f.value.id == self.params[0]):
            if not self.tr.method_is_pure(self.mc, self.fi.cls, f.attr):
                raise Unsupported("state-changing method %s inside an expression" % f.attr)
            mc_ = self.method_call(e)
            if mc_ is None:
                raise Unsupported("method %s" % f.attr)
            found = self.tr.find_method(self.mc, self.fi.cls, f.attr)
            tmc, tfi = found
            lean = "Gen.%s.%s" % (tmc.ns, ident(tfi.name))
            return "pyIdxN (← %s %s) 1" % (lean, " ".join([ident(self.params[0])] + [self.val(a) for a in e.args]))
        # --- the decorated function called from its wrapper
        if self.func_alias and isinstance(f, ast.Name) and f.id == self.func_alias[0]:
            if e.keywords or len(e.args) != self.func_alias[2]:
                raise Unsupported("wrapper call shape")
            return "%s %s" % (self.func_alias[1], " ".join(self.val(a) for a in e.args))
        if ast.unparse(f) == "np.array" and len(e.args) == 1 and not e.keywords:
            return "pyList %s" % self.val(e.args[0])   # arrays and lists are one kind of value in the model
        if self.mc.ns == "c_common" and isinstance(f, ast.Name) and (f.id, len(e.args)) in C_BUILTINS and not e.keywords \
                and f.id not in self.locals:
            return "%s %s" % (C_BUILTINS[(f.id, len(e.args))], " ".join(self.val(a) for a in e.args))
        if self.mc.ns == "c_common" and ast.unparse(f) == "array.array" and len(e.args) == 2 and not e.keywords:
            return "pyList %s" % self.val(e.args[1])    # array('l', L): a list of (small) integers in the model
        lib = LIBCALLS.get((ast.unparse(f), len(e.args)))
        if lib is not None and not e.keywords:
            return "%s %s" % (lib, " ".join(self.val(a) for a in e.args))
        if ast.unparse(f) == "time.time" and not e.args:
            return "Ext.time_time"
        # --- iteration helpers
        if isinstance(f, ast.Name) and f.id not in self.mc.funcs and f.id not in self.locals and not e.keywords:
            n = len(e.args)
            if f.id == "dict" and n == 0:
                return "pure (Val.dict [])"
            if f.id in ("min", "max") and n == 1:
                return "py%sList %s" % (f.id.capitalize(), self.val(e.args[0]))
            if f.id == "isinstance" and n == 2 and isinstance(e.args[1], ast.Name) and e.args[1].id in (
                    "dict", "str", "int", "float", "list", "tuple", "bool"):
                return "pyIsInstance %s %s" % (self.val(e.args[0]), lean_str(e.args[1].id))
            if f.id == "chr" and n == 1:
                return "pyChr %s" % self.val(e.args[0])
            if f.id == "zip" and n == 2:
                return "pyZip %s %s" % (self.val(e.args[0]), self.val(e.args[1]))
            if f.id == "range" and n == 3:
                return "pyRange3 %s %s %s" % tuple(self.val(x) for x in e.args)
            if f.id == "format" and n == 2 and isinstance(e.args[1], ast.Constant) and e.args[1].value == "X":
                return "pyFmtHexU 0 %s" % self.val(e.args[0])
            if f.id == "range" and n in (1, 2):
                lo = "(Val.num 0)" if n == 1 else self.val(e.args[0])
                return "pyRange %s %s" % (lo, self.val(e.args[-1]))
            if f.id == "enumerate" and n == 1:
                return "pyEnumerate %s" % self.val(e.args[0])
            if f.id in ("list", "tuple") and n == 1:
                return "pyList %s" % self.val(e.args[0])
            if f.id == "next" and n == 1:
                return "pyNext %s" % self.val(e.args[0])
            if f.id == "sorted" and n == 1:
                return "pySorted %s" % self.val(e.args[0])
            if f.id == "wrap" and n == 2 and self.mc.imports.get("wrap", (None, None))[1] == "wrap":
                return "pyWrap %s %s" % (self.val(e.args[0]), self.val(e.args[1]))
            if f.id == "map" and n == 2:
                self.tmp += 1
                x = "x__%d" % self.tmp
                fake = ast.Call(func=e.args[0], args=[ast.Name(id=x, ctx=ast.Load())], keywords=[])
                self.locals.add(x)
                try:
                    inner = self.val(fake)
                finally:
                    self.locals.discard(x)
                pad = "  " * (getattr(self, "cur_ind", 1) + 3)
                return "pyComp %s (fun %s => do\n%sreturn some %s)" % (self.val(e.args[1]), x, pad, inner)
        # --- idiom: min(range(n), key=seq.__getitem__)  (index of the first minimum)
        if (isinstance(f, ast.Name) and f.id in ("min", "max") and len(e.args) == 1 and len(e.keywords) == 1
                and e.keywords[0].arg == "key" and isinstance(e.keywords[0].value, ast.Attribute)
                and e.keywords[0].value.attr == "__getitem__" and isinstance(e.args[0], ast.Call)
                and isinstance(e.args[0].func, ast.Name) and e.args[0].func.id == "range" and len(e.args[0].args) == 1):
            return "pyArg%s %s %s" % (f.id.capitalize(), self.val(e.keywords[0].value.value), self.val(e.args[0].args[0]))
        # --- numpy idioms of rtlreader: a.reshape(-1, w) (rows of w items), rows.mean(axis=1)
        if (isinstance(f, ast.Attribute) and f.attr == "reshape" and len(e.args) == 2 and not e.keywords
                and isinstance(e.args[0], ast.UnaryOp) and isinstance(e.args[0].op, ast.USub)
                and isinstance(e.args[0].operand, ast.Constant) and e.args[0].operand.value == 1):
            return "pyReshapeRows %s %s" % (self.val(f.value), self.val(e.args[1]))
        if (isinstance(f, ast.Attribute) and f.attr == "mean" and not e.args and len(e.keywords) == 1
                and e.keywords[0].arg == "axis" and isinstance(e.keywords[0].value, ast.Constant) and e.keywords[0].value.value == 1):
            return "pyMeanRows %s" % self.val(f.value)
        # --- dict.get
        if isinstance(f, ast.Attribute) and f.attr == "get" and len(e.args) in (1, 2) and not e.keywords:
            dflt = self.val(e.args[1]) if len(e.args) == 2 else "Val.none"
            return "pyDictGet %s %s %s" % (self.val(f.value), self.val(e.args[0]), dflt)
        # --- sep.join(seq)
        if isinstance(f, ast.Attribute) and f.attr == "join" and len(e.args) == 1 and not e.keywords:
            return "pyJoin %s %s" % (self.val(f.value), self.val(e.args[0]))
        # --- builtins
        if isinstance(f, ast.Name) and f.id not in self.mc.funcs and f.id not in self.mc.imports:
            if e.keywords:
                raise Unsupported("keyword arguments to builtin " + f.id)
            prim = BUILTINS.get((f.id, len(e.args)))
            if prim is None:
                raise Unsupported("builtin %s/%d" % (f.id, len(e.args)))
            return "%s %s" % (prim, " ".join(self.val(a) for a in e.args))
        # --- idiom: set(x).issubset(set("01"))
        if (isinstance(f, ast.Attribute) and f.attr == "issubset" and isinstance(f.value, ast.Call)
                and isinstance(f.value.func, ast.Name) and f.value.func.id == "set" and len(f.value.args) == 1
                and len(e.args) == 1 and isinstance(e.args[0], ast.Call) and isinstance(e.args[0].func, ast.Name)
                and e.args[0].func.id == "set" and len(e.args[0].args) == 1):
            return "pyCharsSubset %s %s" % (self.val(f.value.args[0]), self.val(e.args[0].args[0]))
        # --- "{0:X}".format(n) / "...{}".format(x) : only the hex form is needed by decoders
        if isinstance(f, ast.Attribute) and f.attr == "format" and isinstance(f.value, ast.Constant):
            if f.value.value == "{0:X}" and len(e.args) == 1:
                return "pyFmtHexU 0 %s" % self.val(e.args[0])
            fmt = f.value.value
            if isinstance(fmt, str) and fmt.count("{}") == 1 and fmt.count("{") == 1 and len(e.args) == 1 and not e.keywords:
                pre, post = fmt.split("{}")
                return "pyFormat1 %s %s %s" % (lean_str(pre) if pre else "(Val.str [])", self.val(e.args[0]),
                                               lean_str(post) if post else "(Val.str [])")
            raise Unsupported("str.format")
        # --- string methods
        root = f
        while isinstance(root, ast.Attribute):
            root = root.value
        root_is_module = isinstance(root, ast.Name) and root.id not in self.locals and (root.id in self.mc.imports or root.id in MODULE_ALIASES)
        if isinstance(f, ast.Attribute) and f.attr == "keys" and not e.args and self.rooted_local(f.value):
            return "pyKeys %s" % self.val(f.value)
        if isinstance(f, ast.Attribute) and not root_is_module:
            prim = METHODS.get((f.attr, len(e.args)))
            if prim is None or e.keywords:
                raise Unsupported("method .%s/%d" % (f.attr, len(e.args)))
            return "%s %s" % (prim, " ".join([self.val(f.value)] + [self.val(a) for a in e.args]))
        # --- library functions
        lean, argnames, defaults, dep = self.tr.resolve_call(self.mc, f)
        if dep:
            self.deps.add(dep)
        args = [None] * len(argnames)
        if len(e.args) > len(argnames):
            raise Unsupported("too many arguments")
        for i, a in enumerate(e.args):
            if isinstance(a, ast.Starred):
                raise Unsupported("starred argument")
            args[i] = a
        for kw in e.keywords:
            if kw.arg is None or kw.arg not in argnames:
                raise Unsupported("keyword argument")
            args[argnames.index(kw.arg)] = kw.value
        for i in range(len(args)):
            if args[i] is None:
                if defaults[i] is None:
                    raise Unsupported("missing argument")
                args[i] = defaults[i]
        return "%s %s" % (lean, " ".join(self.val(a) for a in args))


# ---------------------------------------------------------------------- module level

def load_module(repo, relpath, ns):
    path = os.path.join(repo, "src", "pyModeS", relpath)
    src = open(path).read()
    if relpath.endswith(".pyx"):
        # Cython is not available: the text is first transliterated to Python with explicit C conversions
        # (harness/pyx_translit.py, validated on every C15 run against the shipped binary)
        import pyx_translit
        src = pyx_translit.translit(src)
    tree = ast.parse(src)
    mc = ModuleCtx(ns, tree, "src/pyModeS/" + relpath)
    mc.sha = hashlib.sha256(src.encode()).hexdigest()[:16]
    for node in tree.body:
        if isinstance(node, ast.ImportFrom):
            for a in node.names:
                local = a.asname or a.name
                base = (node.module or "").split(".")[-1] if node.module else ""
                if a.name in MODULE_ALIASES:          # from ... import common / from . import bds50
                    mc.imports[local] = (MODULE_ALIASES[a.name], None)
                elif base in MODULE_ALIASES:          # from .bds05 import airborne_position
                    mc.imports[local] = (MODULE_ALIASES[base], a.name)
                else:
                    mc.imports[local] = (None, a.name)
        elif isinstance(node, ast.Import):
            for a in node.names:
                mc.imports[a.asname or a.name] = ("pyModeS" if a.name == "pyModeS" else None, None)
        elif isinstance(node, (ast.Assign, ast.AnnAssign)):
            tgt = node.targets[0] if isinstance(node, ast.Assign) and len(node.targets) == 1 else getattr(node, "target", None)
            if isinstance(tgt, ast.Name) and node.value is not None:
                try:
                    mc.consts[tgt.id] = pure_literal(node.value, mc.consts)
                    if tgt.id not in mc.const_order:
                        mc.const_order.append(tgt.id)
                except Unsupported:
                    mc.consts.pop(tgt.id, None)
        elif isinstance(node, ast.ClassDef):
            bases = [b.id for b in node.bases if isinstance(b, ast.Name)]
            methods = {}
            for sub in node.body:
                if isinstance(sub, ast.FunctionDef) and sub.args.args and sub.args.args[0].arg == "self" and not sub.decorator_list:
                    argnames = [a.arg for a in sub.args.args]
                    nd = len(sub.args.defaults)
                    defaults = [None] * (len(argnames) - nd) + list(sub.args.defaults)
                    fi = FnInfo(ns, "%s_%s" % (node.name, sub.name), sub, argnames, defaults, cls=node.name)
                    methods[sub.name] = fi
            mc.classes[node.name] = dict(bases=bases, methods=methods)
        elif isinstance(node, ast.FunctionDef):
            # decorator factory of the form  def deco(func): def wrapper(...): ...; return wrapper
            inner = [n for n in node.body if isinstance(n, ast.FunctionDef)]
            if inner and len(node.args.args) == 1 and isinstance(node.body[-1], ast.Return) and \
                    isinstance(node.body[-1].value, ast.Name) and node.body[-1].value.id == inner[0].name:
                mc.decorators[node.name] = (inner[0], node.args.args[0].arg)
                continue
            if ns == "c_common" and node.name in ("c_floor", "abs"):
                continue
            argnames = [a.arg for a in node.args.args]
            nd = len(node.args.defaults)
            defaults = [None] * (len(argnames) - nd) + list(node.args.defaults)
            mc.funcs[node.name] = FnInfo(ns, node.name, node, argnames, defaults)
    return mc


def toposort(fis):
    order, seen = [], set()
    byk = {(f.module, f.name): f for f in fis}

    def visit(f):
        k = (f.module, f.name)
        if k in seen:
            return
        seen.add(k)
        for d in sorted(f.deps):
            if d in byk:
                visit(byk[d])
        order.append(f)
    for f in sorted(fis, key=lambda f: f.node.lineno):
        visit(f)
    return order


def main():
    repo = "/repo"
    out = os.path.join(os.environ.get("VERIF_LEAN_DIR") or os.path.join(VERIF, "lean"), "PyModeS", "Generated", "Src")
    status_path = os.path.join(out, "status.json")
    a = sys.argv[1:]
    if "--repo" in a:
        repo = a[a.index("--repo") + 1]
    if "--out" in a:
        out = a[a.index("--out") + 1]
        status_path = os.path.join(out, "status.json")
    os.makedirs(out, exist_ok=True)
    mods = {}
    for rel, ns in MODULES:
        try:
            mods[ns] = load_module(repo, rel, ns)
        except (OSError, SyntaxError) as e:
            print("SKIP-MODULE %s: %s" % (rel, e))
    tr = Translator(mods)
    status = {"modules": {}, "translated": [], "skipped": {}}
    index = []
    for rel, ns in MODULES:
        if ns not in mods:
            continue
        mc = mods[ns]
        for fi in mc.funcs.values():
            tr.translate_function(mc, fi)
        allf = list(mc.funcs.values())
        for cname, cd in mc.classes.items():
            for fi in cd["methods"].values():
                tr.translate_function(mc, fi)
                allf.append(fi)
        good = [f for f in allf if f.lean is not None]
        imports = sorted({d[0] for f in good for d in f.deps if d[0] != ns})
        if not good and not mc.consts:
            pass
        lines = ["-- GENERATED by harness/py2lean.py from %s (sha256 %s) -- do not edit" % (mc.path, mc.sha),
                 "import PyModeS.Py.Val", "import PyModeS.Py.Ext"]
        lines += ["import PyModeS.Generated.Src.%s" % i for i in imports]
        lines += ["set_option linter.unusedVariables false", "namespace PyModeS.Gen.%s" % ns,
                  "open PyModeS PyModeS.Py PyModeS.Gen", ""]
        for cname in mc.const_order:
            if cname in mc.consts:
                lines.append("/-- %s: module-level `%s` -/\ndef %s : Val := %s\n" % (mc.path, cname, ident(cname), mc.consts[cname]))
                status.setdefault("constants", []).append("%s.%s" % (ns, cname))
        for f in toposort(good):
            lines.append(f.lean)
            status["translated"].append("%s.%s" % (ns, f.name))
            dfl = []
            for d in f.defaults:
                dfl.append("<required>" if d is None else (ast.literal_eval(d) if isinstance(d, ast.Constant) else "?"))
            status.setdefault("signatures", {})["%s.%s" % (ns, f.name)] = dict(args=f.argnames, defaults=dfl)
            if getattr(f, "partial", None):
                status.setdefault("partial", {})["%s.%s" % (ns, f.name)] = f.partial
            index.append((ns, f.name, len(f.argnames)))
        lines.append("end PyModeS.Gen.%s" % ns)
        text = "\n".join(lines) + "\n"
        p = os.path.join(out, ns + ".lean")
        if not os.path.exists(p) or open(p).read() != text:
            open(p, "w").write(text)
        for f in allf:
            if f.lean is None:
                status["skipped"]["%s.%s" % (ns, f.name)] = f.reason
        status["modules"][ns] = {"path": mc.path, "sha": mc.sha, "translated": len(good), "skipped": len(allf) - len(good)}
    # dispatch table for the driver
    lines = ["-- GENERATED by harness/py2lean.py -- do not edit"]
    lines += ["import PyModeS.Generated.Src.%s" % ns for rel, ns in MODULES if ns in mods]
    lines += ["namespace PyModeS.Gen", "open PyModeS PyModeS.Py", "",
              "/-- call a generated function by its Python name -/",
              "def dispatch (name : String) (args : List Val) : Option (Res Val) :=", "  match name, args with"]
    for ns, name, n in index:
        vs = ["a%d" % i for i in range(n)]
        lines.append('  | "%s.%s", [%s] => some (%s.%s %s)' % (ns, name, ", ".join(vs), ns, ident(name), " ".join(vs)))
    lines += ["  | _, _ => none", "", "end PyModeS.Gen"]
    text = "\n".join(lines) + "\n"
    p = os.path.join(out, "Index.lean")
    if not os.path.exists(p) or open(p).read() != text:
        open(p, "w").write(text)
    json.dump(status, open(status_path, "w"), indent=1, sort_keys=True)
    print("py2lean: %d functions translated, %d skipped" % (len(status["translated"]), len(status["skipped"])))
    return 0


if __name__ == "__main__":
    sys.exit(main())
