#!/usr/bin/env python3
"""Source translator: straight-line pyModeS functions -> Lean 4 definitions over `PyModeS.Py.Val`.

Every run re-reads /repo's working tree and rewrites lean/PyModeS/Generated/Src/*.lean, so that the
tie theorems of lean/PyModeS/Tie/*.lean (generated definition = hand-written model, for every input)
are re-checked against what the code says *now*.  The translation is a pretty-printer of the Python
AST into Lean `do` notation over the dynamically typed primitives of Py/Val.lean: one Python
statement -> one `do` element, one Python operator / builtin -> one primitive.  Nothing is
interpreted or simplified here (apart from folding `-<literal>`), so the trusted part of the tool is
the table OPS/BUILTINS below plus the treatment of assignment (`let mut` / re-assignment) and of
`and`/`or`/chained comparisons (explicit short-circuit blocks).

A function that uses a construct outside the subset (loops, try, comprehensions, numpy, keyword
arguments we do not know ...) is skipped with a reason; so is every function that calls a skipped one.
Skipped functions stay tied to the model by the correspondence check only.

usage: py2lean.py [--repo /repo] [--out <dir>] [--status <json>]
"""
from __future__ import annotations

import ast
import fractions
import hashlib
import json
import os
import sys

HERE = os.path.dirname(os.path.abspath(__file__))
VERIF = os.path.normpath(os.path.join(HERE, ".."))

# python module (relative to src/pyModeS) -> lean namespace component, in dependency order
MODULES = [
    ("py_common.py", "py_common"),
    ("decoder/bds/bds05.py", "bds05"),
    ("decoder/bds/bds06.py", "bds06"),
    ("decoder/bds/bds08.py", "bds08"),
    ("decoder/bds/bds09.py", "bds09"),
    ("decoder/bds/bds10.py", "bds10"),
    ("decoder/bds/bds17.py", "bds17"),
    ("decoder/bds/bds20.py", "bds20"),
    ("decoder/bds/bds30.py", "bds30"),
    ("decoder/bds/bds40.py", "bds40"),
    ("decoder/bds/bds44.py", "bds44"),
    ("decoder/bds/bds45.py", "bds45"),
    ("decoder/bds/bds50.py", "bds50"),
    ("decoder/bds/bds53.py", "bds53"),
    ("decoder/bds/bds60.py", "bds60"),
    ("decoder/bds/bds61.py", "bds61"),
    ("decoder/bds/bds62.py", "bds62"),
    ("decoder/surv.py", "surv"),
    ("decoder/allcall.py", "allcall"),
    ("decoder/uplink.py", "uplink"),
]

# names by which one module refers to another -> our namespace
MODULE_ALIASES = {"common": "py_common", "py_common": "py_common"}
for _p, _n in MODULES:
    MODULE_ALIASES.setdefault(_n, _n)

# hand-written externals (Py/Ext.lean): functions the subset cannot express, bound to the hand model
EXTERNALS = {
    ("py_common", "crc"): ("Ext.common_crc", 2, [None, ast.Constant(False)], ["msg", "encode"]),
    ("py_common", "cprNL"): ("Ext.common_cprNL", 1, [None], ["lat"]),
    ("py_common", "floor"): ("Ext.common_floor", 1, [None], ["x"]),
}

LEAN_KEYWORDS = set("""at from end open show fun in do if then else let have match with by local prefix instance def
theorem where return for unless mut try catch finally throw structure class inductive namespace section variable
universe import export private protected partial unsafe macro syntax notation infix infixl infixr postfix deriving
extends abbrev axiom example lemma opaque mutual termination_by decreasing_by calc suffices obtain using Type Prop Sort
fun λ set_option attribute omit include nomatch nofun this""".split())

BINOPS = {ast.Add: "pyAdd", ast.Sub: "pySub", ast.Mult: "pyMul", ast.Div: "pyDiv", ast.FloorDiv: "pyFloorDiv",
          ast.Mod: "pyMod", ast.Pow: "pyPow", ast.BitAnd: "pyBitAnd", ast.BitOr: "pyBitOr", ast.BitXor: "pyBitXor",
          ast.LShift: "pyShl", ast.RShift: "pyShr"}
CMPOPS = {ast.Eq: "pyEq", ast.NotEq: "pyNe", ast.Lt: "pyLt", ast.LtE: "pyLe", ast.Gt: "pyGt", ast.GtE: "pyGe",
          ast.Is: "pyIs", ast.IsNot: "pyIsNot", ast.In: "pyIn", ast.NotIn: "pyNotIn"}
BUILTINS = {("int", 1): "pyInt1", ("int", 2): "pyInt2", ("len", 1): "pyLen", ("abs", 1): "pyAbs", ("float", 1): "pyFloat",
            ("min", 2): "pyMin2", ("max", 2): "pyMax2", ("bin", 1): "pyBin", ("str", 1): "pyStr"}
METHODS = {("zfill", 1): "pyZfill", ("upper", 0): "pyUpper", ("replace", 2): "pyReplace"}


class Unsupported(Exception):
    pass


def ident(name):
    if name in LEAN_KEYWORDS or not name.isidentifier():
        return "«%s»" % name
    if name[0].isupper() and len(name) <= 2:
        # avoid clashes with auto-bound universe-like names; harmless otherwise
        return name + "'"
    return name


def lean_str(s):
    if len(s) == 1:
        return "(Val.str [%s])" % lean_char(s)
    if len(s) <= 16:
        return "(Val.str [%s])" % ", ".join(lean_char(c) for c in s)
    esc = s.replace("\\", "\\\\").replace('"', '\\"').replace("\n", "\\n")
    return '(Val.str "%s".toList)' % esc


def lean_char(c):
    if c == "'":
        return "'\\''"
    if c == "\\":
        return "'\\\\'"
    if c == "\n":
        return "'\\n'"
    return "'%s'" % c


def lean_num(v):
    if isinstance(v, bool):
        raise Unsupported("bool as number")
    if isinstance(v, int):
        return "(Val.num %d)" % v if v >= 0 else "(Val.num (%d))" % v
    fr = fractions.Fraction(repr(v))  # the decimal the programmer wrote
    if fr.denominator == 1:
        n = fr.numerator
        return "(Val.num %d)" % n if n >= 0 else "(Val.num (%d))" % n
    return "(Val.num ((%d : Rat) / %d))" % (fr.numerator, fr.denominator)


class FnInfo:
    def __init__(self, module, name, node, argnames, defaults):
        self.module, self.name, self.node, self.argnames, self.defaults = module, name, node, argnames, defaults
        self.lean = None
        self.reason = None
        self.deps = set()


class ModuleCtx:
    def __init__(self, ns, tree, path):
        self.ns, self.tree, self.path = ns, tree, path
        self.funcs = {}       # name -> FnInfo (module-level defs)
        self.imports = {}     # local name -> (module ns, attr or None)
        self.decorators = {}  # decorator name -> (inner wrapper FunctionDef, func param name)


class Translator:
    def __init__(self, mods):
        self.mods = mods  # ns -> ModuleCtx
        self.done = {}    # (ns, name) -> FnInfo with .lean or .reason

    # ------------------------------------------------------------------ function level
    def translate_function(self, mc, fi):
        key = (mc.ns, fi.name)
        if key in self.done:
            return self.done[key]
        self.done[key] = fi  # (recursion guard: no recursion in the subset)
        try:
            node = fi.node
            if node.args.vararg or node.args.kwarg or node.args.kwonlyargs or node.args.posonlyargs:
                raise Unsupported("star / keyword-only arguments")
            deco = None
            if node.decorator_list:
                if len(node.decorator_list) != 1 or not isinstance(node.decorator_list[0], ast.Name):
                    raise Unsupported("decorator")
                dn = node.decorator_list[0].id
                if dn not in mc.decorators:
                    raise Unsupported("decorator %s" % dn)
                deco = mc.decorators[dn]
            ft = FnTranslator(self, mc, fi)
            body = ft.function(node.body, fi.argnames)
            params = " ".join("(%s : Val)" % ident(a) for a in fi.argnames)
            doc = "/-- %s:%d `%s` -/" % (mc.path, node.lineno, fi.name)
            raw_name = ident(fi.name) if deco is None else ident(fi.name + "_undecorated")
            text = "%s\ndef %s %s : Res Val := do\n%s\n" % (doc, raw_name, params, body)
            if deco is not None:
                wnode, fparam = deco
                wargs = [a.arg for a in wnode.args.args]
                if len(wargs) != len(fi.argnames):
                    raise Unsupported("decorator wrapper arity")
                wt = FnTranslator(self, mc, fi, func_alias=(fparam, raw_name, len(wargs)))
                wbody = wt.function(wnode.body, wargs)
                wparams = " ".join("(%s : Val)" % ident(a) for a in wargs)
                text += "\n/-- %s:%d `%s` as exported (wrapped by the module's decorator) -/\ndef %s %s : Res Val := do\n%s\n" % (
                    mc.path, node.lineno, fi.name, ident(fi.name), wparams, wbody)
                fi.deps |= wt.deps
            fi.deps |= ft.deps
            fi.lean = text
        except Unsupported as e:
            fi.reason = str(e)
        return fi

    def resolve_call(self, mc, func):
        """-> (lean name, argnames, defaults, dep key) for a call target, or raise Unsupported"""
        if isinstance(func, ast.Name):
            name = func.id
            if name in mc.funcs:
                tgt_mc, tgt = mc, mc.funcs[name]
            elif name in mc.imports and mc.imports[name][1] is not None:
                ns, attr = mc.imports[name]
                if (ns, attr) in EXTERNALS:
                    return EXTERNALS[(ns, attr)][0], EXTERNALS[(ns, attr)][3], EXTERNALS[(ns, attr)][2], None
                if ns not in self.mods or attr not in self.mods[ns].funcs:
                    raise Unsupported("call to %s.%s" % (ns, attr))
                tgt_mc, tgt = self.mods[ns], self.mods[ns].funcs[attr]
            else:
                raise Unsupported("call to %s" % name)
        elif isinstance(func, ast.Attribute) and isinstance(func.value, ast.Name):
            modname = func.value.id
            ns = mc.imports.get(modname, (MODULE_ALIASES.get(modname), None))[0] if modname in mc.imports else None
            if ns is None:
                raise Unsupported("call to %s.%s" % (modname, func.attr))
            if (ns, func.attr) in EXTERNALS:
                return EXTERNALS[(ns, func.attr)][0], EXTERNALS[(ns, func.attr)][3], EXTERNALS[(ns, func.attr)][2], None
            if ns not in self.mods or func.attr not in self.mods[ns].funcs:
                raise Unsupported("call to %s.%s" % (modname, func.attr))
            tgt_mc, tgt = self.mods[ns], self.mods[ns].funcs[func.attr]
        else:
            raise Unsupported("call target " + ast.dump(func)[:60])
        if (tgt_mc.ns, tgt.name) in EXTERNALS:
            e = EXTERNALS[(tgt_mc.ns, tgt.name)]
            return e[0], e[3], e[2], None
        r = self.translate_function(tgt_mc, tgt)
        if r.lean is None:
            raise Unsupported("calls %s.%s (%s)" % (tgt_mc.ns, tgt.name, r.reason or "in progress"))
        lean = "%s.%s" % (tgt_mc.ns, ident(tgt.name)) if tgt_mc is not mc else ident(tgt.name)
        return lean, tgt.argnames, tgt.defaults, (tgt_mc.ns, tgt.name)


class FnTranslator:
    def __init__(self, tr, mc, fi, func_alias=None):
        self.tr, self.mc, self.fi = tr, mc, fi
        self.func_alias = func_alias
        self.deps = set()
        self.tmp = 0

    # ---------------------------------------------------------------- statements
    def function(self, body, argnames):
        self.params = list(argnames)
        counts, first_depth = {}, {}
        self.scan(body, 0, counts, first_depth)
        self.locals = set(counts) | set(argnames)
        self.mutable = set()
        pre = []
        for name, n in counts.items():
            if name in argnames:
                self.mutable.add(name)
                pre.append("  let mut %s := %s" % (ident(name), ident(name)))
            elif n > 1 or first_depth[name] > 0:
                self.mutable.add(name)
                if first_depth[name] > 0:
                    pre.append("  let mut %s : Val := Val.none" % ident(name))
        self.declared = set(argnames) | {n for n in counts if first_depth[n] > 0}
        lines = pre + self.block(body, 1)
        if not self.always_leaves(body):
            lines.append("  return Val.none")
        return "\n".join(lines)

    def always_leaves(self, stmts):
        """every path through the block ends in return / raise (so falling off the end is impossible)"""
        if not stmts:
            return False
        last = stmts[-1]
        if isinstance(last, (ast.Return, ast.Raise)):
            return True
        if isinstance(last, ast.If):
            return bool(last.orelse) and self.always_leaves(last.body) and self.always_leaves(last.orelse)
        return False

    def scan(self, stmts, depth, counts, first_depth):
        for s in stmts:
            targets = []
            if isinstance(s, ast.Assign):
                for t in s.targets:
                    targets += self.target_names(t)
            elif isinstance(s, ast.AugAssign):
                targets += self.target_names(s.target)
                targets += self.target_names(s.target)  # counts as re-assignment
            elif isinstance(s, ast.AnnAssign) and s.value is not None:
                targets += self.target_names(s.target)
            elif isinstance(s, ast.If):
                self.scan(s.body, depth + 1, counts, first_depth)
                self.scan(s.orelse, depth + 1, counts, first_depth)
            for n in targets:
                counts[n] = counts.get(n, 0) + 1
                first_depth.setdefault(n, depth)

    def target_names(self, t):
        if isinstance(t, ast.Name):
            return [t.id]
        if isinstance(t, (ast.Tuple, ast.List)):
            return sum((self.target_names(e) for e in t.elts), [])
        raise Unsupported("assignment target " + type(t).__name__)

    def block(self, stmts, ind):
        out = []
        for s in stmts:
            out += self.stmt(s, ind)
        if not out:
            out.append("  " * ind + "pure ()")
        return out

    def assign(self, name, rhs_res, ind, pure):
        """rhs_res: Lean term; pure=True when it is a `Val`, else a `Res Val`"""
        pad = "  " * ind
        arrow = ":=" if pure else "←"
        if name in self.declared:
            return [pad + "%s %s %s" % (ident(name), arrow, rhs_res)]
        self.declared.add(name)
        mut = "mut " if name in self.mutable else ""
        return [pad + "let %s%s %s %s" % (mut, ident(name), arrow, rhs_res)]

    def stmt(self, s, ind):
        pad = "  " * ind
        if isinstance(s, ast.Expr):
            if isinstance(s.value, ast.Constant):
                return []  # docstring
            if isinstance(s.value, ast.Call) and ast.unparse(s.value.func) in ("warnings.warn",):
                return []  # no effect on the returned value
            raise Unsupported("expression statement")
        if isinstance(s, ast.Pass):
            return []
        if isinstance(s, ast.AnnAssign):
            if s.value is None:
                return []
            return self.do_assign(s.target, s.value, ind)
        if isinstance(s, ast.Assign):
            if len(s.targets) != 1:
                raise Unsupported("chained assignment")
            return self.do_assign(s.targets[0], s.value, ind)
        if isinstance(s, ast.AugAssign):
            if not isinstance(s.target, ast.Name):
                raise Unsupported("augmented assignment target")
            op = BINOPS.get(type(s.op))
            if op is None:
                raise Unsupported("operator " + type(s.op).__name__)
            rhs = "%s %s %s" % (op, ident(s.target.id), self.val(s.value))
            return self.assign(s.target.id, rhs, ind, False)
        if isinstance(s, ast.Return):
            if s.value is None:
                return [pad + "return Val.none"]
            return [pad + "return %s" % self.val(s.value)]
        if isinstance(s, ast.Raise):
            kind = "rte"
            if s.exc is None:
                raise Unsupported("bare raise")
            f = s.exc.func if isinstance(s.exc, ast.Call) else s.exc
            if not (isinstance(f, ast.Name) and f.id == "RuntimeError"):
                kind = "exc"
            return [pad + "(Res.%s : Res PUnit)" % kind]
        if isinstance(s, ast.If):
            out = [pad + "if pyTruth %s then" % self.val(s.test)]
            out += self.block(s.body, ind + 1)
            if s.orelse:
                out.append(pad + "else")
                out += self.block(s.orelse, ind + 1)
            return out
        raise Unsupported("statement " + type(s).__name__)

    def do_assign(self, target, value, ind):
        if isinstance(target, ast.Name):
            term, pure = self.res(value)
            return self.assign(target.id, term, ind, pure)
        if isinstance(target, (ast.Tuple, ast.List)) and all(isinstance(e, ast.Name) for e in target.elts):
            names = [e.id for e in target.elts]
            out = []
            if isinstance(value, (ast.Tuple, ast.List)) and len(value.elts) == len(names):
                tmps = []
                for e in value.elts:
                    self.tmp += 1
                    t = "t__%d" % self.tmp
                    term, pure = self.res(e)
                    out.append("  " * ind + "let %s %s %s" % (t, ":=" if pure else "←", term))
                    tmps.append(t)
                for n, t in zip(names, tmps):
                    out += self.assign(n, t, ind, True)
                return out
            self.tmp += 1
            t = "t__%d" % self.tmp
            term, pure = self.res(value)
            out.append("  " * ind + "let %s %s %s" % (t, ":=" if pure else "←", term))
            out.append("  " * ind + "pyUnpackCheck %s %d" % (t, len(names)))
            for i, n in enumerate(names):
                out += self.assign(n, "pyIdxN %s %d" % (t, i), ind, False)
            return out
        raise Unsupported("assignment target " + type(target).__name__)

    # ---------------------------------------------------------------- expressions
    def val(self, e):
        """Lean term of type `Val` usable inside the enclosing `do` block"""
        term, pure = self.res(e)
        return term if pure else "(← %s)" % term

    def res(self, e):
        """-> (term, pure): pure=True: term : Val ; else term : Res Val"""
        if isinstance(e, ast.Constant):
            v = e.value
            if v is None:
                return "Val.none", True
            if v is True or v is False:
                return "(Val.bool %s)" % ("true" if v else "false"), True
            if isinstance(v, (int, float)):
                return lean_num(v), True
            if isinstance(v, str):
                return lean_str(v), True
            raise Unsupported("constant " + repr(v)[:30])
        if isinstance(e, ast.Name):
            if e.id in self.locals:
                return ident(e.id), True
            raise Unsupported("global name " + e.id)
        if isinstance(e, ast.UnaryOp):
            if isinstance(e.op, ast.USub):
                if isinstance(e.operand, ast.Constant) and isinstance(e.operand.value, (int, float)) and not isinstance(e.operand.value, bool):
                    return lean_num(-e.operand.value), True
                return "pyNeg %s" % self.val(e.operand), False
            if isinstance(e.op, ast.Not):
                return "pyNot %s" % self.val(e.operand), False
            raise Unsupported("unary " + type(e.op).__name__)
        if isinstance(e, ast.BinOp):
            if isinstance(e.op, ast.Mod) and isinstance(e.left, ast.Constant) and isinstance(e.left.value, str):
                return self.fmt_percent(e.left.value, e.right), False
            op = BINOPS.get(type(e.op))
            if op is None:
                raise Unsupported("operator " + type(e.op).__name__)
            a = self.val(e.left)
            b = self.val(e.right)
            return "%s %s %s" % (op, a, b), False
        if isinstance(e, ast.BoolOp):
            return self.boolop(e), False
        if isinstance(e, ast.Compare):
            return self.compare(e), False
        if isinstance(e, ast.IfExp):
            t, _ = self.res_block(e.body)
            f, _ = self.res_block(e.orelse)
            return "(do if pyTruth %s then %s else %s)" % (self.val(e.test), t, f), False
        if isinstance(e, ast.Subscript):
            return self.subscript(e), False
        if isinstance(e, (ast.Tuple, ast.List)):
            return "(Val.tuple [%s])" % ", ".join(self.val(x) for x in e.elts), True
        if isinstance(e, ast.Call):
            return self.call(e), False
        raise Unsupported("expression " + type(e).__name__)

    def res_block(self, e):
        """a self-contained `Res Val` term (its own lifts do not escape)"""
        term, pure = self.res(e)
        if pure:
            return "pure %s" % term, True
        return "(do %s)" % term if "←" in term else term, False

    def boolop(self, e):
        # a and b and c  ==  (do let t ← a; if truth t then (b and c) else pure t)
        is_and = isinstance(e.op, ast.And)

        def go(vals):
            if len(vals) == 1:
                return self.res_block(vals[0])[0]
            self.tmp += 1
            t = "b__%d" % self.tmp
            head = self.res_block(vals[0])[0]
            rest = go(vals[1:])
            if is_and:
                return "(do let %s ← %s; if pyTruth %s then %s else pure %s)" % (t, head, t, rest, t)
            return "(do let %s ← %s; if pyTruth %s then pure %s else %s)" % (t, head, t, t, rest)
        return go(e.values)

    def compare(self, e):
        ops = [CMPOPS.get(type(o)) for o in e.ops]
        if None in ops:
            raise Unsupported("comparison operator")
        if len(ops) == 1:
            return "%s %s %s" % (ops[0], self.val(e.left), self.val(e.comparators[0]))
        # a op1 b op2 c : b evaluated once, short-circuit
        if len(ops) != 2:
            raise Unsupported("comparison chain > 2")
        a = self.val(e.left)
        bterm, bpure = self.res(e.comparators[0])
        if not bpure:
            raise Unsupported("chained comparison with a non-atomic middle operand")
        cblock = self.res_block(e.comparators[1])[0]
        self.tmp += 1
        t = "c__%d" % self.tmp
        # the right operand is only evaluated when the first comparison is true
        return "(do let %s ← %s %s %s; if pyTruth %s then (do %s %s (← %s)) else pure %s)" % (
            t, ops[0], a, bterm, t, ops[1], bterm, cblock, t)

    def const_nat(self, e):
        if isinstance(e, ast.Constant) and isinstance(e.value, int) and not isinstance(e.value, bool) and e.value >= 0:
            return e.value
        return None

    def subscript(self, e):
        v = self.val(e.value)
        sl = e.slice
        if isinstance(sl, ast.Slice):
            if sl.step is not None:
                raise Unsupported("slice step")
            lo, hi = sl.lower, sl.upper
            nlo = self.const_nat(lo) if lo is not None else None
            nhi = self.const_nat(hi) if hi is not None else None
            if lo is not None and hi is not None and nlo is not None and nhi is not None:
                return "pySliceNN %s %d %d" % (v, nlo, nhi)
            if hi is None and nlo is not None:
                return "pySliceN_ %s %d" % (v, nlo)
            if lo is None and nhi is not None:
                return "pySlice_N %s %d" % (v, nhi)
            a = "none" if lo is None else "(some %s)" % self.val(lo)
            b = "none" if hi is None else "(some %s)" % self.val(hi)
            return "pySlice %s %s %s" % (v, a, b)
        k = self.const_nat(sl)
        if k is not None:
            return "pyIdxN %s %d" % (v, k)
        return "pyIdx %s %s" % (v, self.val(sl))

    def fmt_percent(self, fmt, arg):
        import re
        mo = re.fullmatch(r"%0(\d+)X", fmt)
        if mo:
            return "pyFmtHexU %s %s" % (mo.group(1), self.val(arg))
        raise Unsupported("format string %r" % fmt)

    def call(self, e):
        f = e.func
        # --- the decorated function called from its wrapper
        if self.func_alias and isinstance(f, ast.Name) and f.id == self.func_alias[0]:
            if e.keywords or len(e.args) != self.func_alias[2]:
                raise Unsupported("wrapper call shape")
            return "%s %s" % (self.func_alias[1], " ".join(self.val(a) for a in e.args))
        # --- builtins
        if isinstance(f, ast.Name) and f.id not in self.mc.funcs and f.id not in self.mc.imports:
            if e.keywords:
                raise Unsupported("keyword arguments to builtin " + f.id)
            prim = BUILTINS.get((f.id, len(e.args)))
            if prim is None:
                raise Unsupported("builtin %s/%d" % (f.id, len(e.args)))
            return "%s %s" % (prim, " ".join(self.val(a) for a in e.args))
        # --- idiom: set(x).issubset(set("01"))
        if (isinstance(f, ast.Attribute) and f.attr == "issubset" and isinstance(f.value, ast.Call)
                and isinstance(f.value.func, ast.Name) and f.value.func.id == "set" and len(f.value.args) == 1
                and len(e.args) == 1 and isinstance(e.args[0], ast.Call) and isinstance(e.args[0].func, ast.Name)
                and e.args[0].func.id == "set" and len(e.args[0].args) == 1):
            return "pyCharsSubset %s %s" % (self.val(f.value.args[0]), self.val(e.args[0].args[0]))
        # --- "{0:X}".format(n) / "...{}".format(x) : only the hex form is needed by decoders
        if isinstance(f, ast.Attribute) and f.attr == "format" and isinstance(f.value, ast.Constant):
            if f.value.value == "{0:X}" and len(e.args) == 1:
                return "pyFmtHexU 0 %s" % self.val(e.args[0])
            raise Unsupported("str.format")
        # --- string methods
        if isinstance(f, ast.Attribute) and not (isinstance(f.value, ast.Name) and (f.value.id in self.mc.imports or f.value.id in MODULE_ALIASES) and f.value.id not in self.locals):
            prim = METHODS.get((f.attr, len(e.args)))
            if prim is None or e.keywords:
                raise Unsupported("method .%s/%d" % (f.attr, len(e.args)))
            return "%s %s" % (prim, " ".join([self.val(f.value)] + [self.val(a) for a in e.args]))
        # --- library functions
        lean, argnames, defaults, dep = self.tr.resolve_call(self.mc, f)
        if dep:
            self.deps.add(dep)
        args = [None] * len(argnames)
        if len(e.args) > len(argnames):
            raise Unsupported("too many arguments")
        for i, a in enumerate(e.args):
            if isinstance(a, ast.Starred):
                raise Unsupported("starred argument")
            args[i] = a
        for kw in e.keywords:
            if kw.arg is None or kw.arg not in argnames:
                raise Unsupported("keyword argument")
            args[argnames.index(kw.arg)] = kw.value
        for i in range(len(args)):
            if args[i] is None:
                if defaults[i] is None:
                    raise Unsupported("missing argument")
                args[i] = defaults[i]
        return "%s %s" % (lean, " ".join(self.val(a) for a in args))


# ---------------------------------------------------------------------- module level

def load_module(repo, relpath, ns):
    path = os.path.join(repo, "src", "pyModeS", relpath)
    src = open(path).read()
    tree = ast.parse(src)
    mc = ModuleCtx(ns, tree, "src/pyModeS/" + relpath)
    mc.sha = hashlib.sha256(src.encode()).hexdigest()[:16]
    for node in tree.body:
        if isinstance(node, ast.ImportFrom):
            for a in node.names:
                local = a.asname or a.name
                base = (node.module or "").split(".")[-1] if node.module else ""
                if a.name in MODULE_ALIASES:          # from ... import common / from . import bds50
                    mc.imports[local] = (MODULE_ALIASES[a.name], None)
                elif base in MODULE_ALIASES:          # from .bds05 import airborne_position
                    mc.imports[local] = (MODULE_ALIASES[base], a.name)
                else:
                    mc.imports[local] = (None, a.name)
        elif isinstance(node, ast.Import):
            for a in node.names:
                mc.imports[a.asname or a.name] = (None, None)
        elif isinstance(node, ast.FunctionDef):
            # decorator factory of the form  def deco(func): def wrapper(...): ...; return wrapper
            inner = [n for n in node.body if isinstance(n, ast.FunctionDef)]
            if inner and len(node.args.args) == 1 and isinstance(node.body[-1], ast.Return) and \
                    isinstance(node.body[-1].value, ast.Name) and node.body[-1].value.id == inner[0].name:
                mc.decorators[node.name] = (inner[0], node.args.args[0].arg)
                continue
            argnames = [a.arg for a in node.args.args]
            nd = len(node.args.defaults)
            defaults = [None] * (len(argnames) - nd) + list(node.args.defaults)
            mc.funcs[node.name] = FnInfo(ns, node.name, node, argnames, defaults)
    return mc


def toposort(fis):
    order, seen = [], set()
    byk = {(f.module, f.name): f for f in fis}

    def visit(f):
        k = (f.module, f.name)
        if k in seen:
            return
        seen.add(k)
        for d in sorted(f.deps):
            if d in byk:
                visit(byk[d])
        order.append(f)
    for f in sorted(fis, key=lambda f: f.node.lineno):
        visit(f)
    return order


def main():
    repo = "/repo"
    out = os.path.join(VERIF, "lean", "PyModeS", "Generated", "Src")
    status_path = os.path.join(out, "status.json")
    a = sys.argv[1:]
    if "--repo" in a:
        repo = a[a.index("--repo") + 1]
    if "--out" in a:
        out = a[a.index("--out") + 1]
        status_path = os.path.join(out, "status.json")
    os.makedirs(out, exist_ok=True)
    mods = {}
    for rel, ns in MODULES:
        try:
            mods[ns] = load_module(repo, rel, ns)
        except (OSError, SyntaxError) as e:
            print("SKIP-MODULE %s: %s" % (rel, e))
    tr = Translator(mods)
    status = {"modules": {}, "translated": [], "skipped": {}}
    index = []
    for rel, ns in MODULES:
        if ns not in mods:
            continue
        mc = mods[ns]
        for fi in mc.funcs.values():
            tr.translate_function(mc, fi)
        good = [f for f in mc.funcs.values() if f.lean is not None]
        imports = sorted({d[0] for f in good for d in f.deps if d[0] != ns})
        lines = ["-- GENERATED by harness/py2lean.py from %s (sha256 %s) -- do not edit" % (mc.path, mc.sha),
                 "import PyModeS.Py.Val", "import PyModeS.Py.Ext"]
        lines += ["import PyModeS.Generated.Src.%s" % i for i in imports]
        lines += ["set_option linter.unusedVariables false", "namespace PyModeS.Gen.%s" % ns,
                  "open PyModeS PyModeS.Py PyModeS.Gen", ""]
        for f in toposort(good):
            lines.append(f.lean)
            status["translated"].append("%s.%s" % (ns, f.name))
            index.append((ns, f.name, len(f.argnames)))
        lines.append("end PyModeS.Gen.%s" % ns)
        text = "\n".join(lines) + "\n"
        p = os.path.join(out, ns + ".lean")
        if not os.path.exists(p) or open(p).read() != text:
            open(p, "w").write(text)
        for f in mc.funcs.values():
            if f.lean is None:
                status["skipped"]["%s.%s" % (ns, f.name)] = f.reason
        status["modules"][ns] = {"path": mc.path, "sha": mc.sha, "translated": len(good), "skipped": len(mc.funcs) - len(good)}
    # dispatch table for the driver
    lines = ["-- GENERATED by harness/py2lean.py -- do not edit"]
    lines += ["import PyModeS.Generated.Src.%s" % ns for rel, ns in MODULES if ns in mods]
    lines += ["namespace PyModeS.Gen", "open PyModeS PyModeS.Py", "",
              "/-- call a generated function by its Python name -/",
              "def dispatch (name : String) (args : List Val) : Option (Res Val) :=", "  match name, args with"]
    for ns, name, n in index:
        vs = ["a%d" % i for i in range(n)]
        lines.append('  | "%s.%s", [%s] => some (%s.%s %s)' % (ns, name, ", ".join(vs), ns, ident(name), " ".join(vs)))
    lines += ["  | _, _ => none", "", "end PyModeS.Gen"]
    text = "\n".join(lines) + "\n"
    p = os.path.join(out, "Index.lean")
    if not os.path.exists(p) or open(p).read() != text:
        open(p, "w").write(text)
    json.dump(status, open(status_path, "w"), indent=1, sort_keys=True)
    print("py2lean: %d functions translated, %d skipped" % (len(status["translated"]), len(status["skipped"])))
    return 0


if __name__ == "__main__":
    sys.exit(main())
