#!/usr/bin/env python3
"""Mechanical mutation sweep (development tool, not a registered check).

Generates first-order mutants of the anchor files of /repo (integer constants +-1 in slices /
comparisons / arithmetic, comparison-operator swaps, and/or swaps, +/- swaps), keeps those that
still pass the 36 tests, and runs the quick check of every property anchored in the mutated file
against each surviving mutant.  Works on private copies of /repo and /verif (one pair per worker)
so that /repo itself is never touched; copies are removed at the end.

usage: mutation_sweep.py --n 400 --workers 8 --seed 1 --out /verif/seeded/mutation_sweep.json
"""
from __future__ import annotations

import argparse
import ast
import json
import os
import random
import shutil
import subprocess
import sys
import time
from concurrent.futures import ProcessPoolExecutor

VERIF = os.path.normpath(os.path.join(os.path.dirname(os.path.abspath(__file__)), ".."))
PY = "/venv/bin/python"
ROOT = "/tmp/mut"


def sh(cmd, cwd=None, env=None, timeout=1800):
    try:
        p = subprocess.run(cmd, cwd=cwd, env=env, stdout=subprocess.PIPE, stderr=subprocess.STDOUT, text=True, timeout=timeout)
        return p.returncode, p.stdout
    except subprocess.TimeoutExpired:
        return 124, "timeout"


def anchors():
    """file (relative to repo) -> sorted property ids"""
    m = {}
    for line in open(os.path.join(VERIF, "properties.jsonl")):
        p = json.loads(line)
        for f in p["anchors"]["files"]:
            if f.endswith(".py"):
                m.setdefault(f, set()).add(p["id"])
    return {f: sorted(v) for f, v in m.items()}


CMP = {ast.Lt: "<=", ast.LtE: "<", ast.Gt: ">=", ast.GtE: ">", ast.Eq: "!=", ast.NotEq: "=="}
CMP_SRC = {ast.Lt: "<", ast.LtE: "<=", ast.Gt: ">", ast.GtE: ">=", ast.Eq: "==", ast.NotEq: "!="}


def mutants_of(path, rel):
    """-> list of (rel, lineno, col, end_col, old_text, new_text, kind)"""
    src = open(path).read()
    lines = src.split("\n")
    tree = ast.parse(src)
    out = []
    parents = {}
    for n in ast.walk(tree):
        for c in ast.iter_child_nodes(n):
            parents[c] = n

    def in_docstring_or_msg(n):
        p = parents.get(n)
        return isinstance(p, (ast.Expr,)) or isinstance(p, ast.JoinedStr)

    for n in ast.walk(tree):
        if isinstance(n, ast.Constant) and isinstance(n.value, int) and not isinstance(n.value, bool) and n.lineno == n.end_lineno:
            p = parents.get(n)
            ctx_ok = False
            q = n
            for _ in range(4):
                pp = parents.get(q)
                if isinstance(pp, (ast.Slice, ast.Subscript, ast.Compare, ast.BinOp, ast.Call)):
                    ctx_ok = True
                    break
                q = pp
                if q is None:
                    break
            if not ctx_ok:
                continue
            old = lines[n.lineno - 1][n.col_offset:n.end_col_offset]
            if not old or not (old[0].isdigit()):
                continue
            for d in (1, -1):
                v = n.value + d
                if v < 0:
                    continue
                out.append((rel, n.lineno, n.col_offset, n.end_col_offset, old, str(v), "const%+d" % d))
        elif isinstance(n, ast.Compare) and len(n.ops) >= 1:
            # locate operator text between left/comparators
            left = n.left
            for op, comp in zip(n.ops, n.comparators):
                if type(op) in CMP and left.end_lineno == comp.lineno:
                    seg = lines[comp.lineno - 1][left.end_col_offset:comp.col_offset]
                    tok = CMP_SRC[type(op)]
                    k = seg.find(tok)
                    if k >= 0 and seg.strip() == tok:
                        c0 = left.end_col_offset + k
                        out.append((rel, comp.lineno, c0, c0 + len(tok), tok, CMP[type(op)], "cmp"))
                left = comp
        elif isinstance(n, ast.BoolOp) and len(n.values) == 2 and n.values[0].end_lineno == n.values[1].lineno:
            a, b = n.values
            seg = lines[b.lineno - 1][a.end_col_offset:b.col_offset]
            tok = "and" if isinstance(n.op, ast.And) else "or"
            if seg.strip() == tok:
                k = seg.find(tok)
                c0 = a.end_col_offset + k
                out.append((rel, b.lineno, c0, c0 + len(tok), tok, "or" if tok == "and" else "and", "bool"))
        elif isinstance(n, ast.BinOp) and isinstance(n.op, (ast.Add, ast.Sub)) and n.left.end_lineno == n.right.lineno:
            seg = lines[n.right.lineno - 1][n.left.end_col_offset:n.right.col_offset]
            tok = "+" if isinstance(n.op, ast.Add) else "-"
            if seg.strip() == tok:
                k = seg.find(tok)
                c0 = n.left.end_col_offset + k
                out.append((rel, n.right.lineno, c0, c0 + 1, tok, "-" if tok == "+" else "+", "arith"))
    return out


def apply(repo, m):
    rel, ln, c0, c1, old, new, kind = m
    p = os.path.join(repo, rel)
    lines = open(p).read().split("\n")
    line = lines[ln - 1]
    assert line[c0:c1] == old, (line, c0, c1, old)
    lines[ln - 1] = line[:c0] + new + line[c1:]
    open(p, "w").write("\n".join(lines))
    return line.strip(), lines[ln - 1].strip()


def worker(args):
    k, todo, props_of = args
    w = os.path.join(ROOT, "w%d" % k)
    repo, verif = os.path.join(w, "repo"), os.path.join(w, "verif")
    env = dict(os.environ, PYMODES_REPO=repo, PYTHONPATH=os.path.join(repo, "src"))
    res = []
    for m in todo:
        sh(["git", "-C", repo, "checkout", "--", "."])
        before, after = apply(repo, m)
        rc, out = sh([PY, "-m", "pytest", "-q", "-x", "-p", "no:cacheprovider"], cwd=repo, env=env, timeout=300)
        rec = dict(file=m[0], line=m[1], kind=m[6], before=before, after=after)
        if rc != 0 or "36 passed" not in out:
            rec["tests"] = "fail"
            res.append(rec)
            continue
        rec["tests"] = "pass"
        verdicts = {}
        for prop in props_of[m[0]]:
            rc, out = sh([os.path.join(verif, "check"), prop, "--tier", "quick"], cwd=verif, env=env, timeout=900)
            lines = [l for l in out.split("\n") if l.startswith("VIOLATION")]
            verdicts[prop] = ("concrete" if any("no-failing-input-found" not in l for l in lines) else "no-input") if (rc == 1 and lines) else ("ok" if rc == 0 else "tool-%d" % rc)
        rec["verdicts"] = verdicts
        rec["killed"] = any(v in ("concrete", "no-input") for v in verdicts.values())
        res.append(rec)
    sh(["git", "-C", repo, "checkout", "--", "."])
    return res


def main():
    ap = argparse.ArgumentParser()
    ap.add_argument("--n", type=int, default=200)
    ap.add_argument("--workers", type=int, default=8)
    ap.add_argument("--seed", type=int, default=1)
    ap.add_argument("--out", default=os.path.join(VERIF, "seeded", "mutation_sweep.json"))
    ap.add_argument("--files", default="")
    ap.add_argument("--exclude", default="", help="comma-separated earlier sweep json files whose mutants are skipped")
    a = ap.parse_args()
    rng = random.Random(a.seed)
    props_of = anchors()
    files = [f for f in props_of if os.path.exists(os.path.join("/repo", f))]
    if a.files:
        files = [f for f in files if any(x in f for x in a.files.split(","))]
    allm = []
    for f in files:
        ms = mutants_of(os.path.join("/repo", f), f)
        allm += ms
    seen = set()
    for ex in [x for x in a.exclude.split(",") if x]:
        d = json.load(open(ex))
        for r in d["survivors"] + d["killed"] + d["tests_fail"]:
            seen.add((r["file"], r["line"], r["kind"], r["after"]))
    if seen:
        keep = []
        for m in allm:
            line = open(os.path.join("/repo", m[0])).read().split("\n")[m[1] - 1]
            after = (line[:m[2]] + m[5] + line[m[3]:]).strip()
            if (m[0], m[1], m[6], after) not in seen:
                keep.append(m)
        allm = keep
    rng.shuffle(allm)
    todo = allm[: a.n]
    print("candidate mutants: %d, sampled: %d, files: %d" % (len(allm), len(todo), len(files)))
    # private copies
    shutil.rmtree(ROOT, ignore_errors=True)
    os.makedirs(ROOT)
    for k in range(a.workers):
        w = os.path.join(ROOT, "w%d" % k)
        os.makedirs(w)
        sh(["git", "-C", "/repo", "worktree", "add", "--detach", os.path.join(w, "repo"), "HEAD"])
        sh(["rsync", "-a", "--exclude", ".git", "--exclude", "replays", "--exclude", "seeded", VERIF + "/", os.path.join(w, "verif") + "/"])
    t0 = time.time()
    chunks = [(k, todo[k:: a.workers], props_of) for k in range(a.workers)]
    results = []
    with ProcessPoolExecutor(a.workers) as ex:
        for r in ex.map(worker, chunks):
            results += r
    for k in range(a.workers):
        sh(["git", "-C", "/repo", "worktree", "remove", "--force", os.path.join(ROOT, "w%d" % k, "repo")])
    sh(["git", "-C", "/repo", "worktree", "prune"])
    shutil.rmtree(ROOT, ignore_errors=True)
    passed = [r for r in results if r["tests"] == "pass"]
    killed = [r for r in passed if r["killed"]]
    summary = dict(seed=a.seed, sampled=len(todo), candidates=len(allm), tests_fail=len(results) - len(passed), tests_pass=len(passed),
                   killed=len(killed), survived=len(passed) - len(killed), wall_s=round(time.time() - t0, 1))
    json.dump(dict(summary=summary, survivors=[r for r in passed if not r["killed"]], killed=killed,
                   tests_fail=[r for r in results if r["tests"] != "pass"]), open(a.out, "w"), indent=1)
    print(json.dumps(summary))
    for r in passed:
        if not r["killed"]:
            print("SURVIVED %s:%d [%s]  %s  ->  %s   %s" % (r["file"], r["line"], r["kind"], r["before"], r["after"], r["verdicts"]))


if __name__ == "__main__":
    sys.exit(main())
