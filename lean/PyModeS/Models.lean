import PyModeS.Basic
import PyModeS.Generated.Tables
import PyModeS.Model.Common
import PyModeS.Model.CPR
import PyModeS.Model.Adsb
import PyModeS.Model.Commb
import PyModeS.Model.Misc
import PyModeS.Model.Stream
