/-
  A small dynamically-typed value universe and the Python primitives that the
  source translator (`harness/py2lean.py`) targets.  The translator turns each
  straight-line pyModeS function into a Lean `do` block over these primitives
  (`Generated/Src/*.lean`); nothing in the generated files is written by hand.

  Numbers: one constructor `num (q : Rat)` for Python `int` and `float` alike.
  Python floats are modelled exactly (as everywhere else in this model); the
  int/float distinction only matters for operations that demand an integer
  (`int(s, 2)`, indexing, `&`, `>>`, `%X`), which check `q.den = 1`.

  Outcomes use `Res`: `rte` = RuntimeError, `exc` = any other exception.
  No Mathlib; everything here is executable and compiled into the driver.
-/
import PyModeS.Basic

namespace PyModeS.Py
open PyModeS

inductive Val where
  | none
  | bool (b : Bool)
  | num (q : Rat)
  | str (s : List Char)
  | tuple (l : List Val)
  | dict (l : List (Val × Val))
deriving Inhabited

namespace Val

/-- numeric view (`True == 1`) -/
def num? : Val → Option Rat
  | .bool b => some (if b then 1 else 0)
  | .num q => some q
  | _ => Option.none

/-- integer view: `Some i` iff the value is an integral number or a bool -/
def int? : Val → Option Int
  | .bool b => some (if b then 1 else 0)
  | .num q => if q.den = 1 then some q.num else Option.none
  | _ => Option.none

mutual
/-- Python `==` -/
def beq : Val → Val → Bool
  | .none, .none => true
  | .str a, .str b => a == b
  | .tuple a, .tuple b => beqList a b
  | .dict a, .dict b => beqPairs a b
  | .bool a, .bool b => a == b
  | .bool a, .num q => (if a then (1 : Rat) else 0) == q
  | .num q, .bool a => q == (if a then (1 : Rat) else 0)
  | .num a, .num b => a == b
  | _, _ => false
def beqList : List Val → List Val → Bool
  | [], [] => true
  | a :: as, b :: bs => beq a b && beqList as bs
  | _, _ => false
def beqPairs : List (Val × Val) → List (Val × Val) → Bool
  | [], [] => true
  | (k, v) :: as, (k', v') :: bs => beq k k' && beq v v' && beqPairs as bs
  | _, _ => false
end

/-- Python truthiness -/
def truth : Val → Bool
  | .none => false
  | .bool b => b
  | .num q => q != 0
  | .str s => !s.isEmpty
  | .tuple l => !l.isEmpty
  | .dict l => !l.isEmpty

def ofNat (n : Nat) : Val := .num (n : Rat)
def ofInt (i : Int) : Val := .num (i : Rat)
def ofBits (b : Bits) : Val := .str (b.map Bool.toDigit)
def ofOptRat : Option Rat → Val
  | Option.none => .none
  | some q => .num q
def ofOptInt : Option Int → Val
  | Option.none => .none
  | some q => .num (q : Rat)
def ofOptNat : Option Nat → Val
  | Option.none => .none
  | some q => .num (q : Rat)

end Val

open Val

/-! ### arithmetic -/

def arith (f : Rat → Rat → Rat) (a b : Val) : Res Val :=
  match a.num?, b.num? with
  | some x, some y => .val (.num (f x y))
  | _, _ => .exc

def pyAdd (a b : Val) : Res Val :=
  match a, b with
  | .str x, .str y => .val (.str (x ++ y))
  | .tuple x, .tuple y => .val (.tuple (x ++ y))
  | _, _ => arith (· + ·) a b

def pySub (a b : Val) : Res Val := arith (· - ·) a b

def pyMul (a b : Val) : Res Val := arith (· * ·) a b

/-- true division; `ZeroDivisionError` is `exc` -/
def pyDiv (a b : Val) : Res Val :=
  match a.num?, b.num? with
  | some x, some y => if y = 0 then .exc else .val (.num (x / y))
  | _, _ => .exc

/-- `a // b` -/
def pyFloorDiv (a b : Val) : Res Val :=
  match a.num?, b.num? with
  | some x, some y => if y = 0 then .exc else .val (.num ((x / y).floor : Int))
  | _, _ => .exc

/-- `a % b` (sign of the divisor, as in Python) -/
def pyMod (a b : Val) : Res Val :=
  match a.num?, b.num? with
  | some x, some y => if y = 0 then .exc else .val (.num (x - y * ((x / y).floor : Int)))
  | _, _ => .exc

def pyNeg (a : Val) : Res Val :=
  match a.num? with
  | some x => .val (.num (-x))
  | _ => .exc

def pyAbs (a : Val) : Res Val :=
  match a.num? with
  | some x => .val (.num (if x < 0 then -x else x))
  | _ => .exc

def pyPow (a b : Val) : Res Val :=
  match a.num?, b.int? with
  | some x, some (.ofNat n) => .val (.num (x ^ n))
  | _, _ => .exc

def bitop (f : Nat → Nat → Nat) (a b : Val) : Res Val :=
  match a.int?, b.int? with
  | some (.ofNat x), some (.ofNat y) => .val (ofNat (f x y))
  | _, _ => .exc

/-- `&`, `|`, `^`, `>>`, `<<` on non-negative integers (all that pyModeS uses) -/
def pyBitAnd := bitop (· &&& ·)
def pyBitOr := bitop (· ||| ·)
def pyBitXor := bitop (· ^^^ ·)
def pyShr := bitop (· >>> ·)
def pyShl := bitop (· <<< ·)

/-! ### comparisons -/

def cmpNum (f : Rat → Rat → Bool) (a b : Val) : Res Val :=
  match a.num?, b.num? with
  | some x, some y => .val (.bool (f x y))
  | _, _ => .exc   -- TypeError: '<' not supported between instances of 'NoneType' and 'int', …

def pyLt := cmpNum (fun x y => decide (x < y))
def pyLe := cmpNum (fun x y => decide (x ≤ y))
def pyGt := cmpNum (fun x y => decide (y < x))
def pyGe := cmpNum (fun x y => decide (y ≤ x))
def pyEq (a b : Val) : Res Val := .val (.bool (Val.beq a b))
def pyNe (a b : Val) : Res Val := .val (.bool (!Val.beq a b))
def pyIs (a b : Val) : Res Val := .val (.bool (Val.beq a b))       -- only used as `x is None`
def pyIsNot (a b : Val) : Res Val := .val (.bool (!Val.beq a b))   -- only used as `x is not None`
def pyNot (a : Val) : Res Val := .val (.bool (!a.truth))

def isInfix (p : List Char) : List Char → Bool
  | [] => p.isEmpty
  | c :: cs => p.isPrefixOf (c :: cs) || isInfix p cs

/-- `x in c` for a tuple / list / set literal or a substring test -/
def pyIn (x c : Val) : Res Val :=
  match c, x with
  | .tuple l, _ => .val (.bool (l.any (fun y => Val.beq x y)))
  | .dict l, _ => .val (.bool (l.any (fun kv => Val.beq x kv.1)))
  | .str s, .str p => .val (.bool (isInfix p s))
  | _, _ => .exc
def pyNotIn (x c : Val) : Res Val := do
  let r ← pyIn x c
  pyNot r

/-! ### sequences -/

/-- clamp a Python slice bound to `[0, n]` -/
def normBound (n : Nat) (i : Int) : Nat :=
  if i < 0 then (n - (-i).toNat) else min i.toNat n

def sliceList {α} (l : List α) (lo hi : Option Int) : List α :=
  let n := l.length
  let a := match lo with | Option.none => 0 | some i => normBound n i
  let b := match hi with | Option.none => n | some i => normBound n i
  slice a b l

def optInt (v : Option Val) : Res (Option Int) :=
  match v with
  | Option.none => .val Option.none
  | some Val.none => .val Option.none
  | some w => match w.int? with
    | some i => .val (some i)
    | Option.none => .exc

/-- `v[lo:hi]` -/
def pySlice (v : Val) (lo hi : Option Val) : Res Val := do
  let lo ← optInt lo
  let hi ← optInt hi
  match v with
  | .str s => .val (.str (sliceList s lo hi))
  | .tuple l => .val (.tuple (sliceList l lo hi))
  | _ => .exc

/-- `v[a:b]` with literal non-negative bounds (the translator picks this form when it can) -/
def pySliceNN (v : Val) (a b : Nat) : Res Val :=
  match v with
  | .str s => .val (.str (slice a b s))
  | .tuple l => .val (.tuple (slice a b l))
  | _ => .exc

/-- `v[a:]` -/
def pySliceN_ (v : Val) (a : Nat) : Res Val :=
  match v with
  | .str s => .val (.str (s.drop a))
  | .tuple l => .val (.tuple (l.drop a))
  | _ => .exc

/-- `v[:b]` -/
def pySlice_N (v : Val) (b : Nat) : Res Val :=
  match v with
  | .str s => .val (.str (s.take b))
  | .tuple l => .val (.tuple (l.take b))
  | _ => .exc

def idxList {α} (l : List α) (i : Int) : Option α :=
  if i < 0 then (if (-i).toNat ≤ l.length then l[l.length - (-i).toNat]? else Option.none) else l[i.toNat]?

def dictFind (l : List (Val × Val)) (k : Val) : Option Val :=
  match l.find? (fun kv => Val.beq k kv.1) with
  | some kv => some kv.2
  | Option.none => Option.none

/-- `v[i]` (sequence index, or dictionary key: `KeyError` is `exc`) -/
def pyIdx (v i : Val) : Res Val :=
  match v, i with
  | .dict l, _ => (match dictFind l i with
    | some x => .val x
    | Option.none => .exc)
  | .tuple l, .tuple mask =>
    -- numpy boolean-mask selection `a[mask]` (arrays and lists are one kind of value in the model)
    if mask.length = l.length ∧ mask.all (fun b => match b with | .bool _ => true | _ => false) then
      .val (.tuple ((l.zip mask).filterMap (fun p => if p.2.truth then some p.1 else Option.none)))
    else .exc
  | _, _ =>
  match i.int? with
  | Option.none => .exc
  | some k =>
    match v with
    | .str s => match idxList s k with
      | some c => .val (.str [c])
      | Option.none => .exc
    | .tuple l => match idxList l k with
      | some x => .val x
      | Option.none => .exc
    | _ => .exc

/-- look-up of the numeric key `k` in a dictionary (`KeyError` is `exc`) -/
def dictGetNat (l : List (Val × Val)) (k : Nat) : Res Val :=
  match l.find? (fun kv => Val.beq (ofNat k) kv.1) with
  | some kv => .val kv.2
  | Option.none => .exc

/-- `v[k]` with a literal non-negative index -/
def pyIdxN (v : Val) (k : Nat) : Res Val :=
  match v with
  | .str s => match s[k]? with
    | some c => .val (.str [c])
    | Option.none => .exc
  | .tuple l => match l[k]? with
    | some x => .val x
    | Option.none => .exc
  | .dict l => dictGetNat l k   -- a dictionary keyed by numbers
  | _ => .exc

def pyLen (v : Val) : Res Val :=
  match v with
  | .str s => .val (ofNat s.length)
  | .tuple l => .val (ofNat l.length)
  | .dict l => .val (ofNat l.length)
  | _ => .exc

/-! ### builtins -/

def digitVal? (base : Nat) (c : Char) : Option Nat :=
  match hexVal? c with
  | some d => if d < base then some d else Option.none
  | Option.none => Option.none

def parseDigits (base : Nat) : List Char → Option Nat → Option Nat
  | [], acc => acc
  | c :: cs, acc =>
    match digitVal? base c with
    | some d => parseDigits base cs (some (base * acc.getD 0 + d))
    | Option.none => Option.none

/-- `int(s, base)` for a plain digit string (no sign, prefix, blanks or underscores) -/
def parseNat (base : Nat) (s : List Char) : Option Nat := parseDigits base s Option.none

/-- `int(x)` -/
def pyInt1 (v : Val) : Res Val :=
  match v with
  | .bool b => .val (.num (if b then 1 else 0))
  | .num q => .val (.num ((if q < 0 then -((-q).floor) else q.floor : Int) : Rat))
  | .str ('-' :: s) => match parseNat 10 s with
    | some n => .val (.num (-(n : Rat)))
    | Option.none => .exc
  | .str s => match parseNat 10 s with
    | some n => .val (ofNat n)
    | Option.none => .exc
  | _ => .exc

/-- `int(s, base)` -/
def pyInt2 (v base : Val) : Res Val :=
  match v, base.int? with
  | .str s, some (.ofNat b) =>
    if b < 2 ∨ 16 < b then .exc else
    match parseNat b s with
    | some n => .val (ofNat n)
    | Option.none => .exc
  | _, _ => .exc

def pyFloat (v : Val) : Res Val :=
  match v.num? with
  | some q => .val (.num q)
  | Option.none => .exc

def pyMin2 (a b : Val) : Res Val :=
  match a.num?, b.num? with
  | some x, some y => .val (if y < x then b else a)
  | _, _ => .exc

def pyMax2 (a b : Val) : Res Val :=
  match a.num?, b.num? with
  | some x, some y => .val (if x < y then b else a)
  | _, _ => .exc

/-- `bin(n)` for `n ≥ 0` -/
def pyBin (v : Val) : Res Val :=
  match v.int? with
  | some (.ofNat n) => .val (.str ('0' :: 'b' :: Nat.toDigits 2 n))
  | _ => .exc

/-- `s.zfill(n)` (no sign handling: only applied to digit strings) -/
def pyZfill (v n : Val) : Res Val :=
  match v, n.int? with
  | .str s, some k => .val (.str (List.replicate (k.toNat - s.length) '0' ++ s))
  | _, _ => .exc

def pyUpper (v : Val) : Res Val :=
  match v with
  | .str s => .val (.str (s.map Char.toUpper))
  | _ => .exc

/-- `s.replace(a, b)` for a single-character `a` -/
def pyReplace (v a b : Val) : Res Val :=
  match v, a, b with
  | .str s, .str [x], .str y => .val (.str (s.flatMap (fun c => if c = x then y else [c])))
  | _, _, _ => .exc

/-- `str(n)` of an integer -/
def pyStr (v : Val) : Res Val :=
  match v with
  | .str s => .val (.str s)
  | _ => match v.int? with
    | some i => .val (.str (toString i).toList)
    | Option.none => .exc

/-- `"%0wX" % n` -/
def pyFmtHexU (w : Nat) (v : Val) : Res Val :=
  match v.int? with
  | some (.ofNat n) =>
    let ds := (Nat.toDigits 16 n).map Char.toUpper
    .val (.str (List.replicate (w - ds.length) '0' ++ ds))
  | _ => .exc

/-- tuple / list construction -/
def pyTuple (l : List Val) : Res Val := .val (.tuple l)

/-- `a, b = t`: the right-hand side must be a sequence of exactly `n` items -/
def pyUnpackCheck (t : Val) (n : Nat) : Res PUnit :=
  match t with
  | .tuple l => if l.length = n then .val () else .exc
  | .str s => if s.length = n then .val () else .exc
  | _ => .exc

/-- `set(x).issubset(set(y))` for two strings -/
def pyCharsSubset (x y : Val) : Res Val :=
  match x, y with
  | .str a, .str b => .val (.bool (a.all (fun c => b.contains c)))
  | _, _ => .exc

/-! ### dictionaries, iteration, comprehensions -/

/-- `d.get(k, default)` -/
def pyDictGet (d k dflt : Val) : Res Val :=
  match d with
  | .dict l => .val ((dictFind l k).getD dflt)
  | _ => .exc

def setPair (k v : Val) : List (Val × Val) → List (Val × Val)
  | [] => [(k, v)]
  | (k', v') :: rest => if Val.beq k k' then (k', v) :: rest else (k', v') :: setPair k v rest

/-- `x[i] = v` as a functional update (a list index must exist; a dictionary key is added or replaced) -/
def pySetItem (x i v : Val) : Res Val :=
  match x with
  | .dict l => .val (.dict (setPair i v l))
  | .tuple l =>
    (match i.int? with
    | some k =>
      let n := l.length
      if k < 0 then (if (-k).toNat ≤ n then .val (.tuple (l.set (n - (-k).toNat) v)) else .exc)
      else if k.toNat < n then .val (.tuple (l.set k.toNat v)) else .exc
    | Option.none => .exc)
  | _ => .exc

/-- `x.append(v)` / `x.extend(v)` as functional updates -/
def pyAppend (x v : Val) : Res Val :=
  match x with
  | .tuple l => .val (.tuple (l ++ [v]))
  | _ => .exc

def pyIsInstance (x : Val) (t : Val) : Res Val :=
  match t with
  | .str n =>
    let s := String.ofList n
    .val (.bool (match x with
      | .dict _ => s == "dict"
      | .str _ => s == "str"
      | .tuple _ => s == "list" || s == "tuple"
      | .bool _ => s == "bool" || s == "int"
      | .num q => (s == "int" && q.den == 1) || s == "float"
      | .none => false))
  | _ => .exc

/-- `chr(n)` -/
def pyChr (v : Val) : Res Val :=
  match v.int? with
  | some (.ofNat n) => .val (.str [Char.ofNat n])
  | _ => .exc

/-- `del x[k]` as a functional update -/
def pyDelItem (x k : Val) : Res Val :=
  match x with
  | .dict l => if l.any (fun kv => Val.beq k kv.1) then .val (.dict (l.filter (fun kv => !Val.beq k kv.1))) else .exc
  | _ => .exc

/-- `d.keys()` (as a list) -/
def pyKeys (d : Val) : Res Val :=
  match d with
  | .dict l => .val (.tuple (l.map (·.1)))
  | _ => .exc

/-- a statement of the source that the translator could not express: the model gives up with an exception if this
    path is taken (the function is listed as partially translated in status.json) -/
def pyUnmodelled {α} (_reason : String) : Res α := .exc

/-- the items a `for` loop / comprehension sees -/
def pyIter (v : Val) : Res (List Val) :=
  match v with
  | .tuple l => .val l
  | .str s => .val (s.map (fun c => .str [c]))
  | .dict l => .val (l.map (·.1))
  | _ => .exc

def pyExtend (x v : Val) : Res Val := do
  let l ← pyIter v
  match x with
  | .tuple a => pure (.tuple (a ++ l))
  | _ => .exc

/-- `zip(a, b)` (as a list of pairs) -/
def pyZip (a b : Val) : Res Val := do
  let la ← pyIter a
  let lb ← pyIter b
  pure (.tuple ((la.zip lb).map (fun p => .tuple [p.1, p.2])))

/-- iterations granted to a `while` loop of the source before the model gives up (reported as an exception) -/
def whileFuel : Nat := 1048576

/-- `range(a, b)` (as a list) -/
def pyRange (a b : Val) : Res Val :=
  match a.int?, b.int? with
  | some x, some y => .val (.tuple ((List.range (y - x).toNat).map (fun (i : Nat) => .num ((x + (i : Int) : Int) : Rat))))
  | _, _ => .exc

/-- `range(a, b, step)` for a non-zero step -/
def pyRange3 (a b st : Val) : Res Val :=
  match a.int?, b.int?, st.int? with
  | some x, some y, some s =>
    if s = 0 then .exc else
    let n : Nat := if s > 0 then ((y - x + s - 1) / s).toNat else ((x - y + (-s) - 1) / (-s)).toNat
    .val (.tuple ((List.range n).map (fun (i : Nat) => .num ((x + (i : Int) * s : Int) : Rat))))
  | _, _, _ => .exc

def enumFrom (i : Nat) : List Val → List Val
  | [] => []
  | x :: xs => .tuple [ofNat i, x] :: enumFrom (i + 1) xs

/-- `enumerate(v)` (as a list of pairs) -/
def pyEnumerate (v : Val) : Res Val := do
  let l ← pyIter v
  pure (.tuple (enumFrom 0 l))

/-- `list(v)` / `tuple(v)` -/
def pyList (v : Val) : Res Val := do
  let l ← pyIter v
  pure (.tuple l)

/-- `next(iter(v))`: `StopIteration` is `exc`.  (A generator expression is evaluated eagerly here: an exception that the
    lazy original would not reach is reported; the generated functions are compared with Python on every run.) -/
def pyNext (v : Val) : Res Val :=
  match v with
  | .tuple (x :: _) => .val x
  | _ => .exc

/-- `[f(x) for x in v if …]`: `f` returns `none` for a filtered-out item -/
def compList (f : Val → Res (Option Val)) : List Val → Res (List Val)
  | [] => .val []
  | x :: xs =>
    match f x with
    | .val o =>
      (match compList f xs with
      | .val r => .val (match o with | some y => y :: r | Option.none => r)
      | .rte => .rte
      | .exc => .exc)
    | .rte => .rte
    | .exc => .exc

def pyComp (v : Val) (f : Val → Res (Option Val)) : Res Val := do
  let l ← pyIter v
  let r ← compList f l
  pure (.tuple r)

def chunks (n : Nat) (fuel : Nat) (s : List Char) : List (List Char) :=
  match fuel, s with
  | _, [] => []
  | 0, _ => []
  | fuel + 1, s => s.take n :: chunks n fuel (s.drop n)

/-- `textwrap.wrap(s, n)` on a string without blanks: consecutive pieces of `n` characters -/
def pyWrap (v n : Val) : Res Val :=
  match v, n.int? with
  | .str s, some (.ofNat (k + 1)) => .val (.tuple ((chunks (k + 1) s.length s).map .str))
  | _, _ => .exc

def argBest (better : Rat → Rat → Bool) : List Val → Nat → Option (Nat × Rat) → Option (Nat × Rat)
  | [], _, acc => acc
  | x :: xs, i, acc =>
    match x.num?, acc with
    | some q, Option.none => argBest better xs (i + 1) (some (i, q))
    | some q, some (j, b) => argBest better xs (i + 1) (if better q b then some (i, q) else some (j, b))
    | Option.none, _ => Option.none

/-- `min(range(n), key=seq.__getitem__)`: index of the first smallest of the first `n` items -/
def pyArgMin (seq n : Val) : Res Val :=
  match seq, n.int? with
  | .tuple l, some (.ofNat k) =>
    if l.length < k ∨ k = 0 then .exc else
    (match argBest (fun q b => decide (q < b)) (l.take k) 0 Option.none with
    | some (i, _) => .val (ofNat i)
    | Option.none => .exc)
  | _, _ => .exc

def pyArgMax (seq n : Val) : Res Val :=
  match seq, n.int? with
  | .tuple l, some (.ofNat k) =>
    if l.length < k ∨ k = 0 then .exc else
    (match argBest (fun q b => decide (b < q)) (l.take k) 0 Option.none with
    | some (i, _) => .val (ofNat i)
    | Option.none => .exc)
  | _, _ => .exc

def pyMinList (v : Val) : Res Val :=
  match v with
  | .tuple l => (match argBest (fun q b => decide (q < b)) l 0 Option.none with
    | some (i, _) => (match l[i]? with | some x => .val x | Option.none => .exc)
    | Option.none => .exc)
  | _ => .exc

def pyMaxList (v : Val) : Res Val :=
  match v with
  | .tuple l => (match argBest (fun q b => decide (b < q)) l 0 Option.none with
    | some (i, _) => (match l[i]? with | some x => .val x | Option.none => .exc)
    | Option.none => .exc)
  | _ => .exc

def rowsOf {α} (w : Nat) (fuel : Nat) (l : List α) : List (List α) :=
  match fuel, l with
  | _, [] => []
  | 0, _ => []
  | fuel + 1, l => l.take w :: rowsOf w fuel (l.drop w)

/-- `np.array(l).reshape(-1, w)`: rows of `w` items (`ValueError` unless the length is a multiple of `w`) -/
def pyReshapeRows (v w : Val) : Res Val :=
  match v, w.int? with
  | .tuple l, some (.ofNat (k + 1)) =>
    if l.length % (k + 1) ≠ 0 then .exc else .val (.tuple ((rowsOf (k + 1) l.length l).map .tuple))
  | _, _ => .exc

/-- `rows.mean(axis=1)` (exact mean of each row) -/
def pyMeanRows (v : Val) : Res Val :=
  match v with
  | .tuple rows =>
    (match rows.mapM (fun r => match r with
        | Val.tuple xs => (match xs.mapM Val.num? with
          | some qs => if qs.isEmpty then Option.none else some (Val.num (qs.foldl (· + ·) 0 / (qs.length : Rat)))
          | Option.none => Option.none)
        | _ => Option.none) with
    | some ms => .val (.tuple ms)
    | Option.none => .exc)
  | _ => .exc

def strLt : List Char → List Char → Bool
  | [], [] => false
  | [], _ :: _ => true
  | _ :: _, [] => false
  | a :: as, b :: bs => if a < b then true else if b < a then false else strLt as bs

def insertSorted (x : List Char) : List (List Char) → List (List Char)
  | [] => [x]
  | y :: ys => if strLt y x ∨ y = x then y :: insertSorted x ys else x :: y :: ys

/-- `sorted(v)` for a list of strings -/
def pySorted (v : Val) : Res Val :=
  match v with
  | .tuple l =>
    (match l.mapM (fun x => match x with | Val.str s => some s | _ => Option.none) with
    | some ss => .val (.tuple ((ss.foldr insertSorted []).map .str))
    | Option.none => .exc)
  | _ => .exc

/-- `sep.join(v)` for a list of strings -/
def pyJoin (sep v : Val) : Res Val :=
  match sep, v with
  | .str s, .tuple l =>
    (match l.mapM (fun x => match x with | Val.str t => some t | _ => Option.none) with
    | some ss => .val (.str (s.intercalate ss))
    | Option.none => .exc)
  | _, _ => .exc

/-- `"pre{}post".format(x)` for an integer or string `x` -/
def pyFormat1 (pre x post : Val) : Res Val := do
  let sx ← pyStr x
  pyAdd (← pyAdd pre sx) post

/-! ### objects: an instance is the dictionary of its attributes; methods thread it through -/

def attrKey (name : String) : Val := .str name.toList

/-- `obj.name` (`AttributeError` is `exc`) -/
def pyGetAttr (obj : Val) (name : String) : Res Val :=
  match obj with
  | .dict l => (match dictFind l (attrKey name) with
    | some x => .val x
    | Option.none => .exc)
  | _ => .exc

/-- `obj.name = v` as a functional update -/
def pySetAttr (obj : Val) (name : String) (v : Val) : Res Val :=
  match obj with
  | .dict l => .val (.dict (setPair (attrKey name) v l))
  | _ => .exc

/-- `obj.<collaborator>.<method>(args)`: an effect on a pipe / socket / queue the model does not contain; it is
    recorded, in order, under the attribute `__out__` of the object -/
def pyEmit (obj : Val) (label : String) (args : Val) : Res Val :=
  match obj with
  | .dict l =>
    let old := match dictFind l (attrKey "__out__") with
      | some (.tuple es) => es
      | _ => []
    .val (.dict (setPair (attrKey "__out__") (.tuple (old ++ [.tuple [attrKey label, args]])) l))
  | _ => .exc

/-- `"a%sb%sc" % (x, y)`: the literal pieces interleaved with `str()` of the arguments (numbers that are integers print
    as integers; other numbers, `None`, booleans and containers print in a fixed model-specific form: only used for text
    that no property observes) -/
def pyFormatS (pieces args : Val) : Res Val :=
  match pieces, args with
  | .tuple ps, .tuple as =>
    let strOf (v : Val) : List Char := match v with
      | .str s => s
      | .none => "None".toList
      | .bool b => (if b then "True" else "False").toList
      | .num q => if q.den = 1 then (toString q.num).toList else (toString q.num ++ "/" ++ toString q.den).toList
      | _ => "<obj>".toList
    let rec go : List Val → List Val → List Char
      | (.str p) :: ps, a :: as => p ++ strOf a ++ go ps as
      | (.str p) :: _, [] => p
      | _, _ => []
    .val (.str (go ps as))
  | _, _ => .exc

/-! ### C integer semantics (the transliterated `c_common.pyx`: typed locals are re-converted on every assignment) -/

/-- two's-complement wrap of an integer to `bits` bits, signed -/
def wrapSigned (bits : Nat) (i : Int) : Int :=
  let m : Int := (2 ^ bits : Nat)
  let r := i % m
  if r ≥ m / 2 then r - m else r

/-- `int(x)` of a number (truncation toward zero), `none` for anything else -/
def truncInt? (v : Val) : Option Int :=
  match v with
  | .bool b => some (if b then 1 else 0)
  | .num q => some (if q < 0 then -((-q).floor) else q.floor)
  | _ => Option.none

/-- `cdef long x = …` -/
def cConvLong (v : Val) : Res Val :=
  match truncInt? v with
  | some i => .val (.num (wrapSigned 64 i : Int))
  | Option.none => .exc
/-- `cdef int x = …` -/
def cConvInt (v : Val) : Res Val :=
  match truncInt? v with
  | some i => .val (.num (wrapSigned 32 i : Int))
  | Option.none => .exc
def cConvSsize := cConvLong
/-- `cdef unsigned char x = …` (a one-character string converts to its code) -/
def cConvUchar (v : Val) : Res Val :=
  match v with
  | .str [c] => .val (ofNat (c.toNat % 256))
  | .str _ => .exc
  | _ => match truncInt? v with
    | some i => .val (.num ((i % 256 : Int) : Rat))
    | Option.none => .exc
/-- `cdef char x = …` -/
def cConvChar (v : Val) : Res Val :=
  match v with
  | .str [c] => .val (.num (wrapSigned 8 (c.toNat : Int) : Int))
  | .str _ => .exc
  | _ => match truncInt? v with
    | some i => .val (.num (wrapSigned 8 i : Int))
    | Option.none => .exc
/-- `cdef double x = …` -/
def cConvDouble (v : Val) : Res Val :=
  match v.num? with
  | some q => .val (.num q)
  | Option.none => .exc
/-- `cdef bint x = …` -/
def cConvBint (v : Val) : Res Val := .val (.bool v.truth)
/-- `cdef str x = …`: `None` or a string -/
def cConvStr (v : Val) : Res Val :=
  match v with
  | .none => .val .none
  | .str s => .val (.str s)
  | _ => .exc
def cConvObj (v : Val) : Res Val := .val v
/-- `<long> x` of a double (x86-64 `cvttsd2si`: out of range gives LONG_MIN) -/
def cCastLong (v : Val) : Res Val :=
  match v.num? with
  | some q =>
    let t : Int := if q < 0 then -((-q).floor) else q.floor
    if t ≥ (2 ^ 63 : Nat) ∨ t < -((2 ^ 63 : Nat) : Int) then .val (.num (-((2 ^ 63 : Nat) : Int) : Int)) else .val (.num (t : Int))
  | Option.none => .exc

/-- `s.encode()` / `bytes(b)` / `bytearray(b)`: byte strings are lists of numbers -/
def pyEncode (v : Val) : Res Val :=
  match v with
  | .str s => if s.all (fun c => c.toNat < 128) then .val (.tuple (s.map (fun c => ofNat c.toNat))) else .exc
  | _ => .exc
def pyBytes (v : Val) : Res Val :=
  match v with
  | .tuple l => .val (.tuple l)
  | _ => .exc
/-- `bytearray(n)` (n zero bytes) or `bytearray(b)` (a copy) -/
def pyBytearray (v : Val) : Res Val :=
  match v with
  | .tuple l => .val (.tuple l)
  | _ => match v.int? with
    | some (.ofNat n) => .val (.tuple (List.replicate n (.num 0)))
    | _ => .exc
/-- `b.decode()` of ASCII bytes -/
def pyDecode (v : Val) : Res Val :=
  match v with
  | .tuple l =>
    (match l.mapM (fun x => match x.int? with
        | some (.ofNat n) => if n < 128 then some (Char.ofNat n) else Option.none
        | _ => Option.none) with
    | some cs => .val (.str cs)
    | Option.none => .exc)
  | _ => .exc

/-! ### exceptions (`try` / `except`) -/

/-- which Python exceptions an `except` clause catches: `RuntimeError`, any *other* class (KeyError, ValueError, …:
    the model does not tell them apart), or everything -/
inductive Err where
  | rte | exc | any
deriving DecidableEq, Repr

def Err.caughtBy (raised handler : Err) : Bool :=
  match handler with
  | .any => true
  | h => raised == h

instance : MonadExcept Err Res where
  throw e := match e with | .rte => .rte | _ => .exc
  tryCatch x h := match x with
    | .val a => .val a
    | .rte => h .rte
    | .exc => h .exc

/-- `if c:` -/
@[inline] def pyTruth (v : Val) : Bool := v.truth

end PyModeS.Py
