/-
  A small dynamically-typed value universe and the Python primitives that the
  source translator (`harness/py2lean.py`) targets.  The translator turns each
  straight-line pyModeS function into a Lean `do` block over these primitives
  (`Generated/Src/*.lean`); nothing in the generated files is written by hand.

  Numbers: one constructor `num (q : Rat)` for Python `int` and `float` alike.
  Python floats are modelled exactly (as everywhere else in this model); the
  int/float distinction only matters for operations that demand an integer
  (`int(s, 2)`, indexing, `&`, `>>`, `%X`), which check `q.den = 1`.

  Outcomes use `Res`: `rte` = RuntimeError, `exc` = any other exception.
  No Mathlib; everything here is executable and compiled into the driver.
-/
import PyModeS.Basic

namespace PyModeS.Py
open PyModeS

inductive Val where
  | none
  | bool (b : Bool)
  | num (q : Rat)
  | str (s : List Char)
  | tuple (l : List Val)
deriving Repr, Inhabited

namespace Val

/-- numeric view (`True == 1`) -/
def num? : Val → Option Rat
  | .bool b => some (if b then 1 else 0)
  | .num q => some q
  | _ => Option.none

/-- integer view: `Some i` iff the value is an integral number or a bool -/
def int? : Val → Option Int
  | .bool b => some (if b then 1 else 0)
  | .num q => if q.den = 1 then some q.num else Option.none
  | _ => Option.none

mutual
/-- Python `==` -/
def beq : Val → Val → Bool
  | .none, .none => true
  | .str a, .str b => a == b
  | .tuple a, .tuple b => beqList a b
  | .bool a, .bool b => a == b
  | .bool a, .num q => (if a then (1 : Rat) else 0) == q
  | .num q, .bool a => q == (if a then (1 : Rat) else 0)
  | .num a, .num b => a == b
  | _, _ => false
def beqList : List Val → List Val → Bool
  | [], [] => true
  | a :: as, b :: bs => beq a b && beqList as bs
  | _, _ => false
end

/-- Python truthiness -/
def truth : Val → Bool
  | .none => false
  | .bool b => b
  | .num q => q != 0
  | .str s => !s.isEmpty
  | .tuple l => !l.isEmpty

def ofNat (n : Nat) : Val := .num (n : Rat)
def ofInt (i : Int) : Val := .num (i : Rat)
def ofBits (b : Bits) : Val := .str (b.map Bool.toDigit)
def ofOptRat : Option Rat → Val
  | Option.none => .none
  | some q => .num q
def ofOptInt : Option Int → Val
  | Option.none => .none
  | some q => .num (q : Rat)
def ofOptNat : Option Nat → Val
  | Option.none => .none
  | some q => .num (q : Rat)

end Val

open Val

/-! ### arithmetic -/

def arith (f : Rat → Rat → Rat) (a b : Val) : Res Val :=
  match a.num?, b.num? with
  | some x, some y => .val (.num (f x y))
  | _, _ => .exc

def pyAdd (a b : Val) : Res Val :=
  match a, b with
  | .str x, .str y => .val (.str (x ++ y))
  | .tuple x, .tuple y => .val (.tuple (x ++ y))
  | _, _ => arith (· + ·) a b

def pySub (a b : Val) : Res Val := arith (· - ·) a b

def pyMul (a b : Val) : Res Val := arith (· * ·) a b

/-- true division; `ZeroDivisionError` is `exc` -/
def pyDiv (a b : Val) : Res Val :=
  match a.num?, b.num? with
  | some x, some y => if y = 0 then .exc else .val (.num (x / y))
  | _, _ => .exc

/-- `a // b` -/
def pyFloorDiv (a b : Val) : Res Val :=
  match a.num?, b.num? with
  | some x, some y => if y = 0 then .exc else .val (.num ((x / y).floor : Int))
  | _, _ => .exc

/-- `a % b` (sign of the divisor, as in Python) -/
def pyMod (a b : Val) : Res Val :=
  match a.num?, b.num? with
  | some x, some y => if y = 0 then .exc else .val (.num (x - y * ((x / y).floor : Int)))
  | _, _ => .exc

def pyNeg (a : Val) : Res Val :=
  match a.num? with
  | some x => .val (.num (-x))
  | _ => .exc

def pyAbs (a : Val) : Res Val :=
  match a.num? with
  | some x => .val (.num (if x < 0 then -x else x))
  | _ => .exc

def pyPow (a b : Val) : Res Val :=
  match a.num?, b.int? with
  | some x, some (.ofNat n) => .val (.num (x ^ n))
  | _, _ => .exc

def bitop (f : Nat → Nat → Nat) (a b : Val) : Res Val :=
  match a.int?, b.int? with
  | some (.ofNat x), some (.ofNat y) => .val (ofNat (f x y))
  | _, _ => .exc

/-- `&`, `|`, `^`, `>>`, `<<` on non-negative integers (all that pyModeS uses) -/
def pyBitAnd := bitop (· &&& ·)
def pyBitOr := bitop (· ||| ·)
def pyBitXor := bitop (· ^^^ ·)
def pyShr := bitop (· >>> ·)
def pyShl := bitop (· <<< ·)

/-! ### comparisons -/

def cmpNum (f : Rat → Rat → Bool) (a b : Val) : Res Val :=
  match a.num?, b.num? with
  | some x, some y => .val (.bool (f x y))
  | _, _ => .exc   -- TypeError: '<' not supported between instances of 'NoneType' and 'int', …

def pyLt := cmpNum (fun x y => decide (x < y))
def pyLe := cmpNum (fun x y => decide (x ≤ y))
def pyGt := cmpNum (fun x y => decide (y < x))
def pyGe := cmpNum (fun x y => decide (y ≤ x))
def pyEq (a b : Val) : Res Val := .val (.bool (Val.beq a b))
def pyNe (a b : Val) : Res Val := .val (.bool (!Val.beq a b))
def pyIs (a b : Val) : Res Val := .val (.bool (Val.beq a b))       -- only used as `x is None`
def pyIsNot (a b : Val) : Res Val := .val (.bool (!Val.beq a b))   -- only used as `x is not None`
def pyNot (a : Val) : Res Val := .val (.bool (!a.truth))

def isInfix (p : List Char) : List Char → Bool
  | [] => p.isEmpty
  | c :: cs => p.isPrefixOf (c :: cs) || isInfix p cs

/-- `x in c` for a tuple / list / set literal or a substring test -/
def pyIn (x c : Val) : Res Val :=
  match c, x with
  | .tuple l, _ => .val (.bool (l.any (fun y => Val.beq x y)))
  | .str s, .str p => .val (.bool (isInfix p s))
  | _, _ => .exc
def pyNotIn (x c : Val) : Res Val := do
  let r ← pyIn x c
  pyNot r

/-! ### sequences -/

/-- clamp a Python slice bound to `[0, n]` -/
def normBound (n : Nat) (i : Int) : Nat :=
  if i < 0 then (n - (-i).toNat) else min i.toNat n

def sliceList {α} (l : List α) (lo hi : Option Int) : List α :=
  let n := l.length
  let a := match lo with | Option.none => 0 | some i => normBound n i
  let b := match hi with | Option.none => n | some i => normBound n i
  slice a b l

def optInt (v : Option Val) : Res (Option Int) :=
  match v with
  | Option.none => .val Option.none
  | some Val.none => .val Option.none
  | some w => match w.int? with
    | some i => .val (some i)
    | Option.none => .exc

/-- `v[lo:hi]` -/
def pySlice (v : Val) (lo hi : Option Val) : Res Val := do
  let lo ← optInt lo
  let hi ← optInt hi
  match v with
  | .str s => .val (.str (sliceList s lo hi))
  | .tuple l => .val (.tuple (sliceList l lo hi))
  | _ => .exc

/-- `v[a:b]` with literal non-negative bounds (the translator picks this form when it can) -/
def pySliceNN (v : Val) (a b : Nat) : Res Val :=
  match v with
  | .str s => .val (.str (slice a b s))
  | .tuple l => .val (.tuple (slice a b l))
  | _ => .exc

/-- `v[a:]` -/
def pySliceN_ (v : Val) (a : Nat) : Res Val :=
  match v with
  | .str s => .val (.str (s.drop a))
  | .tuple l => .val (.tuple (l.drop a))
  | _ => .exc

/-- `v[:b]` -/
def pySlice_N (v : Val) (b : Nat) : Res Val :=
  match v with
  | .str s => .val (.str (s.take b))
  | .tuple l => .val (.tuple (l.take b))
  | _ => .exc

def idxList {α} (l : List α) (i : Int) : Option α :=
  if i < 0 then (if (-i).toNat ≤ l.length then l[l.length - (-i).toNat]? else Option.none) else l[i.toNat]?

/-- `v[i]` -/
def pyIdx (v i : Val) : Res Val :=
  match i.int? with
  | Option.none => .exc
  | some k =>
    match v with
    | .str s => match idxList s k with
      | some c => .val (.str [c])
      | Option.none => .exc
    | .tuple l => match idxList l k with
      | some x => .val x
      | Option.none => .exc
    | _ => .exc

/-- `v[k]` with a literal non-negative index -/
def pyIdxN (v : Val) (k : Nat) : Res Val :=
  match v with
  | .str s => match s[k]? with
    | some c => .val (.str [c])
    | Option.none => .exc
  | .tuple l => match l[k]? with
    | some x => .val x
    | Option.none => .exc
  | _ => .exc

def pyLen (v : Val) : Res Val :=
  match v with
  | .str s => .val (ofNat s.length)
  | .tuple l => .val (ofNat l.length)
  | _ => .exc

/-! ### builtins -/

def digitVal? (base : Nat) (c : Char) : Option Nat :=
  match hexVal? c with
  | some d => if d < base then some d else Option.none
  | Option.none => Option.none

def parseDigits (base : Nat) : List Char → Option Nat → Option Nat
  | [], acc => acc
  | c :: cs, acc =>
    match digitVal? base c with
    | some d => parseDigits base cs (some (base * acc.getD 0 + d))
    | Option.none => Option.none

/-- `int(s, base)` for a plain digit string (no sign, prefix, blanks or underscores) -/
def parseNat (base : Nat) (s : List Char) : Option Nat := parseDigits base s Option.none

/-- `int(x)` -/
def pyInt1 (v : Val) : Res Val :=
  match v with
  | .bool b => .val (.num (if b then 1 else 0))
  | .num q => .val (.num ((if q < 0 then -((-q).floor) else q.floor : Int) : Rat))
  | .str ('-' :: s) => match parseNat 10 s with
    | some n => .val (.num (-(n : Rat)))
    | Option.none => .exc
  | .str s => match parseNat 10 s with
    | some n => .val (ofNat n)
    | Option.none => .exc
  | _ => .exc

/-- `int(s, base)` -/
def pyInt2 (v base : Val) : Res Val :=
  match v, base.int? with
  | .str s, some (.ofNat b) =>
    if b < 2 ∨ 16 < b then .exc else
    match parseNat b s with
    | some n => .val (ofNat n)
    | Option.none => .exc
  | _, _ => .exc

def pyFloat (v : Val) : Res Val :=
  match v.num? with
  | some q => .val (.num q)
  | Option.none => .exc

def pyMin2 (a b : Val) : Res Val :=
  match a.num?, b.num? with
  | some x, some y => .val (if y < x then b else a)
  | _, _ => .exc

def pyMax2 (a b : Val) : Res Val :=
  match a.num?, b.num? with
  | some x, some y => .val (if x < y then b else a)
  | _, _ => .exc

/-- `bin(n)` for `n ≥ 0` -/
def pyBin (v : Val) : Res Val :=
  match v.int? with
  | some (.ofNat n) => .val (.str ('0' :: 'b' :: Nat.toDigits 2 n))
  | _ => .exc

/-- `s.zfill(n)` (no sign handling: only applied to digit strings) -/
def pyZfill (v n : Val) : Res Val :=
  match v, n.int? with
  | .str s, some k => .val (.str (List.replicate (k.toNat - s.length) '0' ++ s))
  | _, _ => .exc

def pyUpper (v : Val) : Res Val :=
  match v with
  | .str s => .val (.str (s.map Char.toUpper))
  | _ => .exc

/-- `s.replace(a, b)` for a single-character `a` -/
def pyReplace (v a b : Val) : Res Val :=
  match v, a, b with
  | .str s, .str [x], .str y => .val (.str (s.flatMap (fun c => if c = x then y else [c])))
  | _, _, _ => .exc

/-- `str(n)` of an integer -/
def pyStr (v : Val) : Res Val :=
  match v with
  | .str s => .val (.str s)
  | _ => match v.int? with
    | some i => .val (.str (toString i).toList)
    | Option.none => .exc

/-- `"%0wX" % n` -/
def pyFmtHexU (w : Nat) (v : Val) : Res Val :=
  match v.int? with
  | some (.ofNat n) =>
    let ds := (Nat.toDigits 16 n).map Char.toUpper
    .val (.str (List.replicate (w - ds.length) '0' ++ ds))
  | _ => .exc

/-- tuple / list construction -/
def pyTuple (l : List Val) : Res Val := .val (.tuple l)

/-- `a, b = t`: the right-hand side must be a sequence of exactly `n` items -/
def pyUnpackCheck (t : Val) (n : Nat) : Res PUnit :=
  match t with
  | .tuple l => if l.length = n then .val () else .exc
  | .str s => if s.length = n then .val () else .exc
  | _ => .exc

/-- `set(x).issubset(set(y))` for two strings -/
def pyCharsSubset (x y : Val) : Res Val :=
  match x, y with
  | .str a, .str b => .val (.bool (a.all (fun c => b.contains c)))
  | _, _ => .exc

/-- `if c:` -/
@[inline] def pyTruth (v : Val) : Bool := v.truth

end PyModeS.Py
