/-
  Externals of the generated model: the few library functions the translated subset cannot express
  (loops over bytes, numpy, libm).  Each is bound to its hand-written model, which is tied to the code
  by the correspondence check of the property that owns it (C06 cprNL).  `crc` is no longer an external: the generated
  loop is tied to the hand model by `Tie.crc_tie`.
-/
import PyModeS.Py.Val
import PyModeS.Model.CPR
import PyModeS.Model.Aero
import PyModeS.Py.FloatBridge

namespace PyModeS.Gen.Ext
open PyModeS PyModeS.Py

/-- `common.cprNL(lat)` (Model/CPR.lean, property C06) -/
def common_cprNL (lat : Val) : Res Val :=
  match lat.num? with
  | some q => .val (Val.ofNat (cprNL q))
  | none => .exc

/-- `common.floor(x)` = `int(np.floor(x))` -/
def common_floor (x : Val) : Res Val :=
  match x.num? with
  | some q => .val (Val.ofInt q.floor)
  | none => .exc

/-- `time.time()`: time stamps are attached to messages but no property depends on their value -/
def time_time : Res Val := .val (.num 0)

/-- `aero.mach2cas(mach, h)` evaluated in double precision (the polymorphic model of extra/aero.py at `Float`,
    property C20); the argument and the result cross the boundary exactly -/
def aero_mach2cas (mach h : Val) : Res Val :=
  match mach.num?, h.num? with
  | some m, some x => .val (.num (floatToRat (PyModeS.Aero.mach2cas (ratToFloat m) (ratToFloat x))))
  | _, _ => .exc

/-! ### libm / numpy scalar functions, evaluated in double precision -/

def float1 (f : Float → Float) (x : Val) : Res Val :=
  match x.num? with
  | some q =>
    let r := f (ratToFloat q)
    if r.isNaN || r.isInf then .exc else .val (.num (floatToRat r))
  | none => .exc

def math_sqrt (x : Val) : Res Val :=
  match x.num? with
  | some q => if q < 0 then .exc else float1 Float.sqrt x
  | none => .exc
def math_log10 (x : Val) : Res Val :=
  match x.num? with
  | some q => if q ≤ 0 then .exc else float1 Float.log10 x
  | none => .exc
def math_atan2 (y x : Val) : Res Val :=
  match y.num?, x.num? with
  | some a, some b => .val (.num (floatToRat (Float.atan2 (ratToFloat a) (ratToFloat b))))
  | _, _ => .exc
def np_pi : Val := .num (floatToRat (Float.acos (-1.0)))
def math_degrees (x : Val) : Res Val := float1 (fun r => r * (180.0 / Float.acos (-1.0))) x
def np_cos (x : Val) : Res Val := float1 Float.cos x
def np_arccos (x : Val) : Res Val := float1 Float.acos x
def np_floor (x : Val) : Res Val :=
  match x.num? with
  | some q => .val (Val.ofInt q.floor)
  | none => .exc
/-! numpy scalar functions of extra/aero.py (nan / inf results stop the generated model with an exception) -/
def np_exp (x : Val) : Res Val := float1 Float.exp x
def np_sin (x : Val) : Res Val := float1 Float.sin x
def np_sqrt (x : Val) : Res Val := float1 Float.sqrt x
def np_radians (x : Val) : Res Val := float1 (fun r => r * (Float.acos (-1.0) / 180.0)) x
def np_arctan2 (y x : Val) : Res Val := math_atan2 y x
/-- `a ** b` in double precision (a float exponent) -/
def float_pow (a b : Val) : Res Val :=
  match a.num?, b.num? with
  | some x, some y =>
    let r := Float.pow (ratToFloat x) (ratToFloat y)
    if r.isNaN || r.isInf then .exc else .val (.num (floatToRat r))
  | _, _ => .exc
/-- `np.maximum(a, b)` of two scalars -/
def np_maximum (a b : Val) : Res Val :=
  match a.num?, b.num? with
  | some x, some y => .val (.num (if x < y then y else x))
  | _, _ => .exc
/-- `np.where(c, a, b)` with a scalar condition -/
def np_where (c a b : Val) : Res Val := .val (if c.truth then a else b)

/-- `np.isclose(a, b)` with the default tolerances `rtol = 1e-5`, `atol = 1e-8` -/
def np_isclose (a b : Val) : Res Val :=
  match a.num?, b.num? with
  | some x, some y =>
    let d := if x - y < 0 then y - x else x - y
    let ay := if y < 0 then -y else y
    .val (.bool (decide (d ≤ (1 : Rat) / 100000000 + (1 : Rat) / 100000 * ay)))
  | _, _ => .exc

end PyModeS.Gen.Ext
