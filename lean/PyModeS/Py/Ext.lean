/-
  Externals of the generated model: the few library functions the translated subset cannot express
  (loops over bytes, numpy, libm).  Each is bound to its hand-written model, which is tied to the code
  by the correspondence check of the property that owns it (C01 crc, C06 cprNL).
-/
import PyModeS.Py.Val
import PyModeS.Model.CPR

namespace PyModeS.Gen.Ext
open PyModeS PyModeS.Py

/-- `common.crc(msg, encode)` (py_common.crc, modelled in Model/Common.lean, property C01) -/
def common_crc (msg encode : Val) : Res Val :=
  match msg with
  | .str m => if m.length < 6 ∨ !(m.all (fun c => (hexVal? c).isSome)) then .exc else .val (Val.ofNat (crc m encode.truth))
  | _ => .exc

/-- `common.cprNL(lat)` (Model/CPR.lean, property C06) -/
def common_cprNL (lat : Val) : Res Val :=
  match lat.num? with
  | some q => .val (Val.ofNat (cprNL q))
  | none => .exc

/-- `common.floor(x)` = `int(np.floor(x))` -/
def common_floor (x : Val) : Res Val :=
  match x.num? with
  | some q => .val (Val.ofInt q.floor)
  | none => .exc

end PyModeS.Gen.Ext
