/-
  Exact conversion between `Rat` and IEEE doubles, for the one place where the generated model has to call
  floating-point library code (`aero.mach2cas` inside `is60`).
-/
namespace PyModeS.Py

/-- exact value of a finite double -/
def floatToRat (f : Float) : Rat :=
  let b : Nat := f.toBits.toNat
  let neg : Bool := b / 2 ^ 63 == 1
  let e : Nat := b / 2 ^ 52 % 2048
  let m : Nat := b % 2 ^ 52
  let mag : Rat :=
    if e == 0 then (m : Rat) / ((2 ^ 1074 : Nat) : Rat)
    else if e ≥ 1075 then (((2 ^ 52 + m) * 2 ^ (e - 1075) : Nat) : Rat)
    else ((2 ^ 52 + m : Nat) : Rat) / ((2 ^ (1075 - e) : Nat) : Rat)
  if neg then -mag else mag

def ratToFloat (q : Rat) : Float := Float.ofInt q.num / Float.ofNat q.den

end PyModeS.Py
