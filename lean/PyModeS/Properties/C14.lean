/-
  C14 — Decoders are total and type-guarded on well-formed frames.
-/
import PyModeS.Proofs.Bits
import PyModeS.Model.Commb
import PyModeS.Model.Misc
import PyModeS.Proofs.Commb.AdsbTotal
import PyModeS.Proofs.Commb.CommbTotal
import PyModeS.Proofs.Commb.TellTotal
namespace PyModeS.C14

/-- a guard of the form "TC must be in the documented set, else RuntimeError" never lets another TC through -/
theorem nuc_p_guard (bits : Bits) (tc : Nat) (h : tcB bits = some tc) (hout : tc < 5 ∨ tc = 19 ∨ tc > 22) :
    nucP bits = .rte := by
  unfold nucP; simp [h, hout]

theorem nuc_p_no_df (bits : Bits) (h : tcB bits = none) : nucP bits = .rte := by
  unfold nucP; simp [h]

end PyModeS.C14

/-! ## Totality, type guards and routing on well-formed frames (appended)

  All statements are for 112-bit frames (`bits.length = 112`, i.e. 28 hex digits, any bit content);
  the surveillance / all-call decoders are also covered for 56-bit frames.  A 56-bit frame passed to
  a long-frame decoder is a recorded open finding and is deliberately not claimed here.
  `Res` has three outcomes: `.val v` (a value of the documented shape — the Lean type), `.rte`
  (RuntimeError) and `.exc` (any other exception type). -/
namespace PyModeS.C14
open PyModeS.Tot

/-- "the frame is DF17/18 (so `common.typecode` is not `None`) and its type code satisfies `P`" -/
abbrev HasTC (bits : Bits) (P : Nat → Prop) : Prop := ∃ tc, tcB bits = some tc ∧ P tc

/-- position-message type codes: 5–18 and 20–22 -/
abbrev PosTC (tc : Nat) : Prop := 5 ≤ tc ∧ tc ≤ 18 ∨ 20 ≤ tc ∧ tc ≤ 22

/-- the regenerated tables the text decoders index: 64 character codes each, 24 capability labels -/
theorem text_tables_total : Tables.callsignChars.length = 64 ∧ Tables.cs20Chars.length = 64 ∧
    Tables.cap17All.length = 24 := by decide

/-- every movement code a 7-bit field can hold decodes without an exception (regenerated tables) -/
theorem movSpeed_total : ∀ mov, mov < 128 → movSpeed mov ≠ .exc :=
  fun m hm => Res.ne_exc_of_isVal (movSpeed_isVal m hm)

/-- every documented type code has an entry in the regenerated NUCp / NIC look-up tables, and the
    NIC-supplement sub-tables of version 1 have one for both values of NICs -/
theorem tc_lookup_total : ∀ tc, tc < 32 → PosTC tc →
    lookupR Tables.tcNUCp tc ≠ .exc ∧ lookupR Tables.tcNICv1 tc ≠ .exc ∧ lookupR Tables.tcNICv2 tc ≠ .exc := by
  intro tc hlt hd
  have := tc_tables_total' tc hlt (by unfold PosTC at hd; omega)
  refine ⟨Res.ne_exc_of_isVal this.1, ?_, Res.ne_exc_of_isVal this.2.2⟩
  have h0 := this.2.1 0 (by omega)
  intro he; rw [he] at h0; simp at h0

/-! ### 5. no exception other than RuntimeError -/

/-- ADS-B decoders (bds05/06/08/09/61/62 and adsb.py) -/
theorem no_exc_adsb (bits : Bits) (h : bits.length = 112) :
    adsbAltitude bits ≠ .exc ∧ altitude05 bits ≠ .exc ∧ surfaceVelocity bits ≠ .exc ∧
    category bits ≠ .exc ∧ callsign bits ≠ .exc ∧ airborneVelocity bits ≠ .exc ∧
    altitudeDiff bits ≠ .exc ∧ isEmergency bits ≠ .exc ∧ emergencyState bits ≠ .exc ∧
    emergencySquawk bits ≠ .exc ∧ selectedAltitude bits ≠ .exc ∧ targetAltitude bits ≠ .exc ∧
    verticalMode bits ≠ .exc ∧ horizontalMode bits ≠ .exc ∧ selectedHeading bits ≠ .exc ∧
    targetAngle bits ≠ .exc ∧ baroPressureSetting bits ≠ .exc ∧ autopilot bits ≠ .exc ∧
    vnavMode bits ≠ .exc ∧ altitudeHoldMode bits ≠ .exc ∧ approachMode bits ≠ .exc ∧
    lnavMode bits ≠ .exc ∧ tcasOperational bits ≠ .exc ∧ tcasRa bits ≠ .exc ∧
    emergencyStatus bits ≠ .exc ∧ oeFlag bits ≠ .exc ∧ version bits ≠ .exc ∧
    nucP bits ≠ .exc ∧ nucV bits ≠ .exc ∧
    (∀ nics, nics ≤ 1 → nicV1 bits nics ≠ .exc) ∧
    (∀ nica nicbc, nicV2 bits nica nicbc ≠ .exc) ∧
    nicS bits ≠ .exc ∧ nicAC bits ≠ .exc ∧ nicB bits ≠ .exc ∧ nacP bits ≠ .exc ∧ nacV bits ≠ .exc ∧
    (∀ v, sil bits v ≠ .exc) ∧
    (∀ latRef lonRef, positionWithRef bits latRef lonRef ≠ .exc) := by
  refine ⟨(adsbAltitude_shape bits h).ne_exc, (altitude05_shape bits h).ne_exc,
    (surfaceVelocity_shape bits h).ne_exc, (category_shape bits h).ne_exc,
    (callsign_shape text_tables_total.1 bits h).ne_exc, (airborneVelocity_shape bits h).ne_exc,
    (altitudeDiff_shape bits h).ne_exc, (isEmergency_shape bits h).ne_exc,
    (emergencyState_shape bits h).ne_exc, (emergencySquawk_shape bits h).ne_exc,
    (selectedAltitude_shape bits h).ne_exc, (targetAltitude_shape bits h).ne_exc,
    (verticalMode_shape bits h).ne_exc, (horizontalMode_shape bits h).ne_exc,
    (selectedHeading_shape bits h).ne_exc, (targetAngle_shape bits h).ne_exc,
    (baroPressureSetting_shape bits h).ne_exc, (modeFlag_shape 47 (by omega) bits h).ne_exc,
    (modeFlag_shape 48 (by omega) bits h).ne_exc, (modeFlag_shape 49 (by omega) bits h).ne_exc,
    (modeFlag_shape 51 (by omega) bits h).ne_exc, (modeFlag_shape 53 (by omega) bits h).ne_exc,
    (tcasOperational_shape bits h).ne_exc, (tcasRa_shape bits h).ne_exc,
    (emergencyStatus_shape bits h).ne_exc, Res.ne_exc_of_isVal (oeFlag_isVal bits h),
    (version_shape bits h).ne_exc, (nucP_shape bits).ne_exc, (nucV_shape bits h).ne_exc,
    fun nics hn => (nicV1_shape bits nics hn).ne_exc,
    fun nica nicbc => (nicV2_shape bits nica nicbc).ne_exc,
    (nicS_shape bits h).ne_exc, (nicAC_shape bits h).ne_exc, (nicB_shape bits h).ne_exc,
    (nacP_shape bits h).ne_exc, (nacV_shape bits h).ne_exc,
    fun v => (sil_shape bits h v).ne_exc,
    fun la lo => (positionWithRef_shape bits h la lo).ne_exc⟩

/-- adsb.position on two 112-bit frames, any times and reference -/
theorem no_exc_position (b0 b1 : Bits) (h0 : b0.length = 112) (h1 : b1.length = 112) (t0 t1 : Rat)
    (ref : Option (Rat × Rat)) : position b0 b1 t0 t1 ref ≠ .exc :=
  position_ne_exc b0 b1 h0 h1 t0 t1 ref

/-- every Comm-B function of the model returns a value on any 112-bit frame (so neither RuntimeError
    nor any other exception), for any `iasOfMach` oracle and `mrar` flag -/
theorem commb_total (bits : Bits) (h : bits.length = 112) :
    (ovc10 bits).isVal ∧ (is10 bits).isVal ∧ (cap17 bits).isVal ∧ (is17 bits).isVal ∧ (cs20 bits).isVal ∧
    (is20 bits).isVal ∧ (is30 bits).isVal ∧ (is40 bits).isVal ∧ (selalt40mcp bits).isVal ∧
    (selalt40fms bits).isVal ∧ (p40baro bits).isVal ∧ (is44 bits).isVal ∧ (wind44 bits).isVal ∧
    (temp44 bits).isVal ∧ (p44 bits).isVal ∧ (hum44 bits).isVal ∧ (turb44 bits).isVal ∧ (is45 bits).isVal ∧
    (turb45 bits).isVal ∧ (ws45 bits).isVal ∧ (mb45 bits).isVal ∧ (ic45 bits).isVal ∧ (wv45 bits).isVal ∧
    (temp45 bits).isVal ∧ (p45 bits).isVal ∧ (rh45 bits).isVal ∧ (is50 bits).isVal ∧ (roll50 bits).isVal ∧
    (trk50 bits).isVal ∧ (gs50 bits).isVal ∧ (rtrk50 bits).isVal ∧ (tas50 bits).isVal ∧ (is53 bits).isVal ∧
    (hdg53 bits).isVal ∧ (ias53 bits).isVal ∧ (mach53 bits).isVal ∧ (tas53 bits).isVal ∧ (vr53 bits).isVal ∧
    (is60Core bits).isVal ∧ (∀ iasOfMach, (is60 iasOfMach bits).isVal) ∧
    (hdg60 bits).isVal ∧ (ias60 bits).isVal ∧ (mach60 bits).isVal ∧ (vr60baro bits).isVal ∧
    (vr60ins bits).isVal ∧ (∀ iasOfMach mrar, (infer iasOfMach bits mrar).isVal) :=
  ⟨ovc10_isVal bits h, is10_isVal bits h, cap17_isVal bits h, is17_isVal bits h, cs20_isVal bits h,
   is20_isVal bits h, is30_isVal bits h, is40_isVal bits h, selalt40mcp_isVal bits h,
   selalt40fms_isVal bits h, p40baro_isVal bits h, is44_isVal bits h, wind44_isVal bits h,
   temp44_isVal bits h, p44_isVal bits h, hum44_isVal bits h, turb44_isVal bits h, is45_isVal bits h,
   turb45_isVal bits h, ws45_isVal bits h, mb45_isVal bits h, ic45_isVal bits h, wv45_isVal bits h,
   temp45_isVal bits h, p45_isVal bits h, rh45_isVal bits h, is50_isVal bits h, roll50_isVal bits h,
   trk50_isVal bits h, gs50_isVal bits h, rtrk50_isVal bits h, tas50_isVal bits h, is53_isVal bits h,
   hdg53_isVal bits h, ias53_isVal bits h, mach53_isVal bits h, tas53_isVal bits h, vr53_isVal bits h,
   is60Core_isVal bits h, fun f => is60_isVal f bits h,
   hdg60_isVal bits h, ias60_isVal bits h, mach60_isVal bits h, vr60baro_isVal bits h,
   vr60ins_isVal bits h, fun f m => infer_isVal f bits m h⟩

/-- a value is in particular not an exception -/
theorem no_exc_of_isVal {α : Type} {x : Res α} (h : x.isVal = true) : x ≠ .exc := Res.ne_exc_of_isVal h

/-- surv.py and allcall.py, on 56-bit and on 112-bit frames -/
theorem no_exc_surv_allcall (bits : Bits) (h : bits.length = 56 ∨ bits.length = 112) :
    survFs bits ≠ .exc ∧ survDr bits ≠ .exc ∧ survUm bits ≠ .exc ∧ survAltitude bits ≠ .exc ∧
    survIdentity bits ≠ .exc ∧ interrogator bits ≠ .exc ∧ capability bits ≠ .exc := by
  have h32 : 32 ≤ bits.length := by omega
  exact ⟨(survFs_shape bits h32).ne_exc, (survDr_shape bits h32).ne_exc, (survUm_shape bits h32).ne_exc,
    (survAltitude_shape bits h32).ne_exc, (survIdentity_shape bits h32).ne_exc,
    (interrogator_shape bits).ne_exc, (capability_shape bits h32).ne_exc⟩

/-- **C14 (totality).** On any 112-bit frame no decoder of the model lets an exception other than
    RuntimeError escape. -/
theorem no_exc_112 (bits : Bits) (h : bits.length = 112) :
    (adsbAltitude bits ≠ .exc ∧ altitude05 bits ≠ .exc ∧ surfaceVelocity bits ≠ .exc ∧
     category bits ≠ .exc ∧ callsign bits ≠ .exc ∧ airborneVelocity bits ≠ .exc ∧
     altitudeDiff bits ≠ .exc ∧ isEmergency bits ≠ .exc ∧ emergencyState bits ≠ .exc ∧
     emergencySquawk bits ≠ .exc ∧ selectedAltitude bits ≠ .exc ∧ targetAltitude bits ≠ .exc ∧
     verticalMode bits ≠ .exc ∧ horizontalMode bits ≠ .exc ∧ selectedHeading bits ≠ .exc ∧
     targetAngle bits ≠ .exc ∧ baroPressureSetting bits ≠ .exc ∧ autopilot bits ≠ .exc ∧
     vnavMode bits ≠ .exc ∧ altitudeHoldMode bits ≠ .exc ∧ approachMode bits ≠ .exc ∧
     lnavMode bits ≠ .exc ∧ tcasOperational bits ≠ .exc ∧ tcasRa bits ≠ .exc ∧
     emergencyStatus bits ≠ .exc ∧ oeFlag bits ≠ .exc ∧ version bits ≠ .exc ∧
     nucP bits ≠ .exc ∧ nucV bits ≠ .exc ∧
     (∀ nics, nics ≤ 1 → nicV1 bits nics ≠ .exc) ∧
     (∀ nica nicbc, nicV2 bits nica nicbc ≠ .exc) ∧
     nicS bits ≠ .exc ∧ nicAC bits ≠ .exc ∧ nicB bits ≠ .exc ∧ nacP bits ≠ .exc ∧ nacV bits ≠ .exc ∧
     (∀ v, sil bits v ≠ .exc) ∧
     (∀ latRef lonRef, positionWithRef bits latRef lonRef ≠ .exc)) ∧
    (∀ b1 : Bits, b1.length = 112 → ∀ t0 t1 ref,
      position bits b1 t0 t1 ref ≠ .exc ∧ position b1 bits t0 t1 ref ≠ .exc) ∧
    (ovc10 bits ≠ .exc ∧ is10 bits ≠ .exc ∧ cap17 bits ≠ .exc ∧ is17 bits ≠ .exc ∧ cs20 bits ≠ .exc ∧
     is20 bits ≠ .exc ∧ is30 bits ≠ .exc ∧ is40 bits ≠ .exc ∧ selalt40mcp bits ≠ .exc ∧
     selalt40fms bits ≠ .exc ∧ p40baro bits ≠ .exc ∧ is44 bits ≠ .exc ∧ wind44 bits ≠ .exc ∧
     temp44 bits ≠ .exc ∧ p44 bits ≠ .exc ∧ hum44 bits ≠ .exc ∧ turb44 bits ≠ .exc ∧ is45 bits ≠ .exc ∧
     turb45 bits ≠ .exc ∧ ws45 bits ≠ .exc ∧ mb45 bits ≠ .exc ∧ ic45 bits ≠ .exc ∧ wv45 bits ≠ .exc ∧
     temp45 bits ≠ .exc ∧ p45 bits ≠ .exc ∧ rh45 bits ≠ .exc ∧ is50 bits ≠ .exc ∧ roll50 bits ≠ .exc ∧
     trk50 bits ≠ .exc ∧ gs50 bits ≠ .exc ∧ rtrk50 bits ≠ .exc ∧ tas50 bits ≠ .exc ∧ is53 bits ≠ .exc ∧
     hdg53 bits ≠ .exc ∧ ias53 bits ≠ .exc ∧ mach53 bits ≠ .exc ∧ tas53 bits ≠ .exc ∧ vr53 bits ≠ .exc ∧
     is60Core bits ≠ .exc ∧ (∀ iasOfMach, is60 iasOfMach bits ≠ .exc) ∧
     hdg60 bits ≠ .exc ∧ ias60 bits ≠ .exc ∧ mach60 bits ≠ .exc ∧ vr60baro bits ≠ .exc ∧
     vr60ins bits ≠ .exc ∧ (∀ iasOfMach mrar, infer iasOfMach bits mrar ≠ .exc)) ∧
    (survFs bits ≠ .exc ∧ survDr bits ≠ .exc ∧ survUm bits ≠ .exc ∧ survAltitude bits ≠ .exc ∧
     survIdentity bits ≠ .exc ∧ interrogator bits ≠ .exc ∧ capability bits ≠ .exc) := by
  have c := commb_total bits h
  refine ⟨no_exc_adsb bits h, fun b1 h1 t0 t1 ref =>
    ⟨no_exc_position bits b1 h h1 t0 t1 ref, no_exc_position b1 bits h1 h t0 t1 ref⟩, ?_,
    no_exc_surv_allcall bits (Or.inr h)⟩
  obtain ⟨c1, c2, c3, c4, c5, c6, c7, c8, c9, c10, c11, c12, c13, c14, c15, c16, c17, c18, c19, c20, c21,
    c22, c23, c24, c25, c26, c27, c28, c29, c30, c31, c32, c33, c34, c35, c36, c37, c38, c39, c40, c41,
    c42, c43, c44, c45, c46⟩ := c
  exact ⟨no_exc_of_isVal c1, no_exc_of_isVal c2, no_exc_of_isVal c3, no_exc_of_isVal c4, no_exc_of_isVal c5,
    no_exc_of_isVal c6, no_exc_of_isVal c7, no_exc_of_isVal c8, no_exc_of_isVal c9, no_exc_of_isVal c10,
    no_exc_of_isVal c11, no_exc_of_isVal c12, no_exc_of_isVal c13, no_exc_of_isVal c14, no_exc_of_isVal c15,
    no_exc_of_isVal c16, no_exc_of_isVal c17, no_exc_of_isVal c18, no_exc_of_isVal c19, no_exc_of_isVal c20,
    no_exc_of_isVal c21, no_exc_of_isVal c22, no_exc_of_isVal c23, no_exc_of_isVal c24, no_exc_of_isVal c25,
    no_exc_of_isVal c26, no_exc_of_isVal c27, no_exc_of_isVal c28, no_exc_of_isVal c29, no_exc_of_isVal c30,
    no_exc_of_isVal c31, no_exc_of_isVal c32, no_exc_of_isVal c33, no_exc_of_isVal c34, no_exc_of_isVal c35,
    no_exc_of_isVal c36, no_exc_of_isVal c37, no_exc_of_isVal c38, no_exc_of_isVal c39,
    fun f => no_exc_of_isVal (c40 f), no_exc_of_isVal c41, no_exc_of_isVal c42, no_exc_of_isVal c43,
    no_exc_of_isVal c44, no_exc_of_isVal c45, fun f m => no_exc_of_isVal (c46 f m)⟩

/-- a concrete non-trivial 112-bit frame (DF17, TC 19 airborne velocity, "8D485020994409940838175B284F") -/
def sampleFrame : Bits := natToBits 112 0x8D485020994409940838175B284F

example : sampleFrame.length = 112 := by simp [sampleFrame]
example : tcB sampleFrame = some 19 := by decide +kernel

/-! ### 6. type guards: RuntimeError exactly outside the documented DF / TC / subtype -/

/-- **C14 (type guards), ADS-B.** On any 112-bit frame each TC-guarded decoder raises RuntimeError
    exactly when (DF, TC, subtype) is outside its documented set; by `no_exc_112` it returns a value
    in every other case (see `val_iff_of`).  For the TC 29 decoders the guard is stated *as coded*
    (only one value of the 2-bit subtype field is excluded — a recorded open finding):
    `st = bin2int (slice 37 39 bits)` is ME bits 6–7; for TC 28, `bin2int (slice 37 40 bits)` is the
    3-bit subtype, ME bits 6–8. -/
theorem guard_iff (bits : Bits) (h : bits.length = 112) :
    (adsbAltitude bits = .rte ↔ ¬ HasTC bits PosTC) ∧
    (altitude05 bits = .rte ↔ ¬ HasTC bits (fun tc => 9 ≤ tc ∧ tc ≤ 18 ∨ 20 ≤ tc ∧ tc ≤ 22)) ∧
    (surfaceVelocity bits = .rte ↔ ¬ HasTC bits (fun tc => 5 ≤ tc ∧ tc ≤ 8)) ∧
    (airborneVelocity bits = .rte ↔ tcB bits ≠ some 19) ∧
    (altitudeDiff bits = .rte ↔ tcB bits ≠ some 19) ∧
    (nucV bits = .rte ↔ tcB bits ≠ some 19) ∧
    (nacV bits = .rte ↔ tcB bits ≠ some 19) ∧
    (category bits = .rte ↔ ¬ HasTC bits (fun tc => 1 ≤ tc ∧ tc ≤ 4)) ∧
    (callsign bits = .rte ↔ ¬ HasTC bits (fun tc => 1 ≤ tc ∧ tc ≤ 4)) ∧
    (version bits = .rte ↔ tcB bits ≠ some 31) ∧
    (nicS bits = .rte ↔ tcB bits ≠ some 31) ∧
    (nicAC bits = .rte ↔ tcB bits ≠ some 31) ∧
    (nicB bits = .rte ↔ ¬ HasTC bits (fun tc => 9 ≤ tc ∧ tc ≤ 18)) ∧
    (nucP bits = .rte ↔ ¬ HasTC bits PosTC) ∧
    (∀ nics, nics ≤ 1 → (nicV1 bits nics = .rte ↔ ¬ HasTC bits PosTC)) ∧
    (∀ nica nicbc, nicV2 bits nica nicbc = .rte ↔ ¬ HasTC bits PosTC) ∧
    (nacP bits = .rte ↔ ¬ HasTC bits (fun tc => tc = 29 ∨ tc = 31)) ∧
    (∀ v, sil bits v = .rte ↔ ¬ HasTC bits (fun tc => tc = 29 ∨ tc = 31)) ∧
    (emergencySquawk bits = .rte ↔ tcB bits ≠ some 28) ∧
    (isEmergency bits = .rte ↔ ¬ (tcB bits = some 28 ∧ bin2int (slice 37 40 bits) ≠ 2)) ∧
    (emergencyState bits = .rte ↔ ¬ (tcB bits = some 28 ∧ bin2int (slice 37 40 bits) ≠ 2)) ∧
    -- TC 29, "version 1"-style decoders, as coded
    (selectedAltitude bits = .rte ↔ tcB bits ≠ some 29 ∨ bin2int (slice 37 39 bits) = 0) ∧
    (baroPressureSetting bits = .rte ↔ tcB bits ≠ some 29 ∨ bin2int (slice 37 39 bits) = 0) ∧
    (selectedHeading bits = .rte ↔ tcB bits ≠ some 29 ∨ bin2int (slice 37 39 bits) = 0) ∧
    (autopilot bits = .rte ↔ tcB bits ≠ some 29 ∨ bin2int (slice 37 39 bits) = 0) ∧
    (vnavMode bits = .rte ↔ tcB bits ≠ some 29 ∨ bin2int (slice 37 39 bits) = 0) ∧
    (altitudeHoldMode bits = .rte ↔ tcB bits ≠ some 29 ∨ bin2int (slice 37 39 bits) = 0) ∧
    (approachMode bits = .rte ↔ tcB bits ≠ some 29 ∨ bin2int (slice 37 39 bits) = 0) ∧
    (lnavMode bits = .rte ↔ tcB bits ≠ some 29 ∨ bin2int (slice 37 39 bits) = 0) ∧
    -- TC 29, "version 0"-style decoders, as coded
    (targetAltitude bits = .rte ↔ tcB bits ≠ some 29 ∨ bin2int (slice 37 39 bits) = 1) ∧
    (verticalMode bits = .rte ↔ tcB bits ≠ some 29 ∨ bin2int (slice 37 39 bits) = 1) ∧
    (horizontalMode bits = .rte ↔ tcB bits ≠ some 29 ∨ bin2int (slice 37 39 bits) = 1) ∧
    (targetAngle bits = .rte ↔ tcB bits ≠ some 29 ∨ bin2int (slice 37 39 bits) = 1) ∧
    (tcasRa bits = .rte ↔ tcB bits ≠ some 29 ∨ bin2int (slice 37 39 bits) = 1) ∧
    (emergencyStatus bits = .rte ↔ tcB bits ≠ some 29 ∨ bin2int (slice 37 39 bits) = 1) ∧
    (tcasOperational bits = .rte ↔ tcB bits ≠ some 29) ∧
    (∀ latRef lonRef, positionWithRef bits latRef lonRef = .rte ↔ ¬ HasTC bits PosTC) := by
  have v1 : ∀ {α : Type} {x : Res α}, Guarded (DocV1 bits) x →
      (x = .rte ↔ tcB bits ≠ some 29 ∨ bin2int (slice 37 39 bits) = 0) := by
    intro α x g
    rw [g.rte_iff]; unfold DocV1
    by_cases a : tcB bits = some 29 <;> by_cases b : bin2int (slice 37 39 bits) = 0 <;> simp [a, b]
  have v0 : ∀ {α : Type} {x : Res α}, Guarded (DocV0 bits) x →
      (x = .rte ↔ tcB bits ≠ some 29 ∨ bin2int (slice 37 39 bits) = 1) := by
    intro α x g
    rw [g.rte_iff]; unfold DocV0
    by_cases a : tcB bits = some 29 <;> by_cases b : bin2int (slice 37 39 bits) = 1 <;> simp [a, b]
  exact ⟨(adsbAltitude_shape bits h).rte_iff, (altitude05_shape bits h).rte_iff,
    (surfaceVelocity_shape bits h).rte_iff, (airborneVelocity_shape bits h).rte_iff,
    (altitudeDiff_shape bits h).rte_iff, (nucV_shape bits h).rte_iff, (nacV_shape bits h).rte_iff,
    (category_shape bits h).rte_iff, (callsign_shape text_tables_total.1 bits h).rte_iff,
    (version_shape bits h).rte_iff, (nicS_shape bits h).rte_iff, (nicAC_shape bits h).rte_iff,
    (nicB_shape bits h).rte_iff, (nucP_shape bits).rte_iff,
    fun nics hn => (nicV1_shape bits nics hn).rte_iff,
    fun nica nicbc => (nicV2_shape bits nica nicbc).rte_iff,
    (nacP_shape bits h).rte_iff, fun v => (sil_shape bits h v).rte_iff,
    (emergencySquawk_shape bits h).rte_iff, (isEmergency_shape bits h).rte_iff,
    (emergencyState_shape bits h).rte_iff,
    v1 (selectedAltitude_shape bits h), v1 (baroPressureSetting_shape bits h),
    v1 (selectedHeading_shape bits h), v1 (modeFlag_shape 47 (by omega) bits h),
    v1 (modeFlag_shape 48 (by omega) bits h), v1 (modeFlag_shape 49 (by omega) bits h),
    v1 (modeFlag_shape 51 (by omega) bits h), v1 (modeFlag_shape 53 (by omega) bits h),
    v0 (targetAltitude_shape bits h), v0 (verticalMode_shape bits h), v0 (horizontalMode_shape bits h),
    v0 (targetAngle_shape bits h), v0 (tcasRa_shape bits h), v0 (emergencyStatus_shape bits h),
    (tcasOperational_shape bits h).rte_iff,
    fun la lo => (positionWithRef_shape bits h la lo).rte_iff⟩

/-- **C14 (type guards), surv.py / allcall.py**, for 56- and 112-bit frames: DF 4/5 (altitude: DF 4,
    identity: DF 5), DF 11 -/
theorem guard_iff_surv_allcall (bits : Bits) (h : bits.length = 56 ∨ bits.length = 112) :
    (survFs bits = .rte ↔ ¬ (dfB bits = 4 ∨ dfB bits = 5)) ∧
    (survDr bits = .rte ↔ ¬ (dfB bits = 4 ∨ dfB bits = 5)) ∧
    (survUm bits = .rte ↔ ¬ (dfB bits = 4 ∨ dfB bits = 5)) ∧
    (survAltitude bits = .rte ↔ dfB bits ≠ 4) ∧
    (survIdentity bits = .rte ↔ dfB bits ≠ 5) ∧
    (interrogator bits = .rte ↔ dfB bits ≠ 11) ∧
    (capability bits = .rte ↔ dfB bits ≠ 11) := by
  have h32 : 32 ≤ bits.length := by omega
  exact ⟨(survFs_shape bits h32).rte_iff, (survDr_shape bits h32).rte_iff, (survUm_shape bits h32).rte_iff,
    (survAltitude_shape bits h32).rte_iff, (survIdentity_shape bits h32).rte_iff,
    (interrogator_shape bits).rte_iff, (capability_shape bits h32).rte_iff⟩

/-- non-vacuity on short frames: a DF5 identity reply ("2A00516D492B80") decodes to squawk 0356, and
    the DF4-only altitude decoder refuses it -/
example : survIdentity (natToBits 56 0x2A00516D492B80) = .val [0, 3, 5, 6] ∧
    survAltitude (natToBits 56 0x2A00516D492B80) = .rte := by decide +kernel

/-- "value iff documented": together with `no_exc_112`, each `… = .rte ↔ ¬doc` of `guard_iff` is
    equivalent to `(∃ v, … = .val v) ↔ doc` -/
theorem val_iff_of {α : Type} {x : Res α} {P : Prop} (hne : x ≠ .exc) (hr : x = .rte ↔ ¬P) :
    (∃ v, x = .val v) ↔ P := by
  constructor
  · rintro ⟨v, hv⟩
    by_cases hp : P
    · exact hp
    · rw [hr.mpr hp] at hv; cases hv
  · intro hp
    cases hx : x with
    | val v => exact ⟨v, rfl⟩
    | rte => exact absurd hp (hr.mp hx)
    | exc => exact absurd hx hne

/-- e.g. airborne velocity returns a value exactly on TC 19 -/
example (bits : Bits) (h : bits.length = 112) : (∃ v, airborneVelocity bits = .val v) ↔ tcB bits = some 19 := by
  have := val_iff_of (no_exc_adsb bits h).2.2.2.2.2.1 (guard_iff bits h).2.2.2.1
  simpa using this

/-- the guards are not vacuous: the sample TC 19 frame decodes, a position decoder refuses it -/
example : (∃ v, airborneVelocity sampleFrame = .val v) ∧ adsbAltitude sampleFrame = .rte := by
  have hl : sampleFrame.length = 112 := by simp [sampleFrame]
  have ht : tcB sampleFrame = some 19 := by decide +kernel
  refine ⟨(val_iff_of (no_exc_adsb _ hl).2.2.2.2.2.1 (guard_iff _ hl).2.2.2.1).mpr (by simpa using ht), ?_⟩
  apply (guard_iff _ hl).1.mpr
  rintro ⟨tc, h1, h2⟩
  rw [ht] at h1; cases h1
  unfold PosTC at h2; omega

/-! ### 7. routing by type code -/

/-- **adsb.position routes exactly by the pair of type codes**: the surface decoder iff both are 5–8
    (and a reference is supplied), the airborne decoder iff both are 9–18 or both are 20–22,
    RuntimeError for every other pair (including a non-DF17/18 frame) — never another exception. -/
theorem positionRoute_table (b0 b1 : Bits) (haveRef : Bool) :
    (positionRoute b0 b1 haveRef = .val .surface ↔
      ∃ tc0 tc1, tcB b0 = some tc0 ∧ tcB b1 = some tc1 ∧ (5 ≤ tc0 ∧ tc0 ≤ 8) ∧ (5 ≤ tc1 ∧ tc1 ≤ 8) ∧
        haveRef = true) ∧
    (positionRoute b0 b1 haveRef = .val .airborne ↔
      ∃ tc0 tc1, tcB b0 = some tc0 ∧ tcB b1 = some tc1 ∧
        ((9 ≤ tc0 ∧ tc0 ≤ 18) ∧ (9 ≤ tc1 ∧ tc1 ≤ 18) ∨ (20 ≤ tc0 ∧ tc0 ≤ 22) ∧ (20 ≤ tc1 ∧ tc1 ≤ 22))) ∧
    positionRoute b0 b1 haveRef ≠ .exc := by
  unfold positionRoute
  cases h0 : tcB b0 with
  | none => simp
  | some tc0 =>
    cases h1 : tcB b1 with
    | none => simp
    | some tc1 =>
      simp only [Option.some.injEq, exists_and_left, exists_eq_left']
      refine ⟨?_, ?_, ?_⟩
      · split
        · cases haveRef <;> simp <;> omega
        · split
          · simp; omega
          · split
            · simp; omega
            · simp; omega
      · split
        · cases haveRef <;> simp <;> omega
        · split
          · simp; omega
          · split
            · simp; omega
            · simp; omega
      · repeat' split
        all_goals simp

/-- the decoder `position` actually calls, for each route -/
theorem position_dispatch (b0 b1 : Bits) (t0 t1 : Rat) (ref : Option (Rat × Rat)) :
    (positionRoute b0 b1 ref.isSome = .val .airborne →
      position b0 b1 t0 t1 ref = airbornePosition b0 b1 t0 t1) ∧
    (∀ la lo, ref = some (la, lo) → positionRoute b0 b1 true = .val .surface →
      position b0 b1 t0 t1 ref = surfacePosition b0 b1 t0 t1 la lo) ∧
    (positionRoute b0 b1 ref.isSome = .rte → position b0 b1 t0 t1 ref = .rte) := by
  unfold position
  refine ⟨?_, ?_, ?_⟩
  · intro h; rw [h]; rfl
  · intro la lo hr h; subst hr; simp only [Option.isSome_some]; rw [h]; rfl
  · intro h; rw [h]; rfl

/-- **adsb.position_with_ref routes exactly by type code**: surface iff TC 5–8, airborne iff TC 9–18 or
    20–22, RuntimeError otherwise -/
theorem positionWithRefRoute_table (b : Bits) :
    (positionWithRefRoute b = .val .surface ↔ HasTC b (fun tc => 5 ≤ tc ∧ tc ≤ 8)) ∧
    (positionWithRefRoute b = .val .airborne ↔
      HasTC b (fun tc => 9 ≤ tc ∧ tc ≤ 18 ∨ 20 ≤ tc ∧ tc ≤ 22)) ∧
    (positionWithRefRoute b = .rte ↔ ¬ HasTC b PosTC) ∧
    positionWithRefRoute b ≠ .exc := by
  unfold positionWithRefRoute HasTC PosTC
  cases h0 : tcB b with
  | none => simp
  | some tc =>
    simp only [Option.some.injEq, exists_eq_left']
    refine ⟨?_, ?_, ?_, ?_⟩
    all_goals
      split
      · simp; try omega
      · split
        · simp; try omega
        · simp; try omega

theorem positionWithRef_dispatch (b : Bits) (latRef lonRef : Rat) :
    (positionWithRefRoute b = .val .surface →
      positionWithRef b latRef lonRef = surfacePositionWithRef b latRef lonRef) ∧
    (positionWithRefRoute b = .val .airborne →
      positionWithRef b latRef lonRef = airbornePositionWithRef b latRef lonRef) ∧
    (positionWithRefRoute b = .rte → positionWithRef b latRef lonRef = .rte) := by
  unfold positionWithRef
  refine ⟨?_, ?_, ?_⟩ <;> intro h <;> rw [h] <;> rfl

/-- **adsb.velocity routes exactly by type code**: surface iff TC 5–8, airborne iff TC 19 -/
theorem velocityRoute_table (b : Bits) :
    (velocityRoute b = .val .surface ↔ HasTC b (fun tc => 5 ≤ tc ∧ tc ≤ 8)) ∧
    (velocityRoute b = .val .airborne ↔ tcB b = some 19) ∧
    (velocityRoute b = .rte ↔ ¬ HasTC b (fun tc => 5 ≤ tc ∧ tc ≤ 8 ∨ tc = 19)) ∧
    velocityRoute b ≠ .exc := by
  unfold velocityRoute HasTC
  cases h0 : tcB b with
  | none => simp
  | some tc =>
    simp only [Option.some.injEq, exists_eq_left']
    refine ⟨?_, ?_, ?_, ?_⟩
    all_goals
      split
      · simp; try omega
      · split
        · simp; try omega
        · simp; try omega

/-- **adsb.altitude routes exactly by type code**: the constant 0 for a surface position (TC 5–8),
    the bds05 decoder for TC 9–18 and 20–22, RuntimeError otherwise -/
theorem adsbAltitude_table (bits : Bits) :
    (HasTC bits (fun tc => 5 ≤ tc ∧ tc ≤ 8) → adsbAltitude bits = .val (some 0)) ∧
    (HasTC bits (fun tc => 9 ≤ tc ∧ tc ≤ 18 ∨ 20 ≤ tc ∧ tc ≤ 22) → adsbAltitude bits = altitude05 bits) ∧
    (¬ HasTC bits PosTC → adsbAltitude bits = .rte) := by
  unfold adsbAltitude HasTC PosTC
  cases h0 : tcB bits with
  | none => simp
  | some tc =>
    simp only [Option.some.injEq, exists_eq_left']
    refine ⟨?_, ?_, ?_⟩
    · intro h; rw [if_neg (by omega), if_pos (by omega)]
    · intro h; rw [if_neg (by omega), if_neg (by omega)]
    · intro h; rw [if_pos (by omega)]

/-- non-vacuity of the routing tables on the sample TC 19 frame -/
example : velocityRoute sampleFrame = .val .airborne ∧ positionWithRefRoute sampleFrame = .rte := by
  decide +kernel

end PyModeS.C14

/-! ## `tell()` (appended)

  `Model/Tell.lean` models the outcome of `pyModeS.tell(msg)`: which decoders it calls, under which
  DF / TC / TC 29 subtype condition, and which label dictionaries it indexes. -/
namespace PyModeS.C14
open PyModeS.Tot

/-- the facts about decoder *values* that `tell`'s dictionary look-ups rely on: an airborne-velocity
    result carries one of the three speed-type keys; on a TC 29 frame with subtype field ≠ 1 the
    vertical / horizontal mode is `none` or `some v` with `v ∈ {1,2,3}` and the emergency status is < 8 -/
theorem tell_lookup_keys (bits : Bits) (h : bits.length = 112) :
    (tcB bits = some 19 → ∃ r, airborneVelocity bits = .val r ∧
      ∀ v, r = some v → v.spdType = "GS" ∨ v.spdType = "TAS" ∨ v.spdType = "IAS") ∧
    (tcB bits = some 29 → bin2int (slice 37 39 bits) ≠ 1 →
      (∃ r, verticalMode bits = .val r ∧ ∀ v, r = some v → v = 1 ∨ v = 2 ∨ v = 3) ∧
      (∃ r, horizontalMode bits = .val r ∧ ∀ v, r = some v → v = 1 ∨ v = 2 ∨ v = 3) ∧
      (∃ e, emergencyStatus bits = .val e ∧ e < 8)) := by
  refine ⟨fun htc => airborneVelocity_spdType bits h htc, fun htc hst => ⟨?_, ?_, ?_⟩⟩
  · refine ⟨_, verticalMode_val bits h htc hst, ?_⟩
    intro v hv
    have := bin2int_slice_lt 13 15 (bits.drop 32)
    split at hv
    · cases hv
    · cases hv; omega
  · refine ⟨_, horizontalMode_val bits h htc hst, ?_⟩
    intro v hv
    have := bin2int_slice_lt 25 27 (bits.drop 32)
    split at hv
    · cases hv
    · cases hv; omega
  · exact ⟨_, emergencyStatus_val bits h htc hst, bin2int_slice_lt 53 56 (bits.drop 32)⟩

/-- the pieces of `tell`, each total on a 112-bit frame: the ADS-B branch (every decoder called only
    under the TC for which it is a value; the TC 29 decoders split by subtype exactly as `tellTc29`
    does), and the Comm-B branch (`infer` and every field decoder are total) -/
theorem tell_branches_total (ias : Rat → Int → Rat) (bits : Bits) (h : bits.length = 112) :
    tellCpr bits = .val () ∧ (tcB bits = some 29 → tellTc29 bits = .val ()) ∧
    tellAdsb bits = .val () ∧ tellCommb ias bits = .val () ∧
    (dfB bits = 20 → (altcodeB bits).isVal) ∧ (dfB bits = 21 → (idcodeB bits).isVal) :=
  ⟨tellCpr_val bits h, tellTc29_val bits h, tellAdsb_val bits h, tellCommb_val ias bits h,
   altcodeB_isVal_df20 bits h, idcodeB_isVal_df21 bits h⟩

/-- **C14, the `tell()` clause.** On any 112-bit frame (28 hex digits, any bit content, any DF) and for
    any `iasOfMach` oracle, `tell` returns normally: neither RuntimeError nor any other exception
    escapes. -/
theorem tell_total_112 : ∀ (ias : Rat → Int → Rat) (bits : Bits), bits.length = 112 →
    tell ias bits = .val () :=
  fun ias bits h => tell_val ias bits h

/-- in particular no RuntimeError and no other exception -/
theorem tell_no_exception_112 (ias : Rat → Int → Rat) (bits : Bits) (h : bits.length = 112) :
    tell ias bits ≠ .rte ∧ tell ias bits ≠ .exc := by
  rw [tell_total_112 ias bits h]; exact ⟨by simp, by simp⟩

/-- **Boundary of the claim.** `tell_total_112` is made for 112-bit frames ONLY; nothing is claimed
    for 56-bit frames.  The length hypothesis cannot be dropped: on the 56-bit frame "8D406B902015A6"
    (DF 17 bits, TC field 4) `tell` reaches the long-frame decoder `callsign` and the model yields a
    non-RuntimeError exception (real code: `ValueError: invalid literal for int() with base 2: ''`) —
    this is the recorded open finding about short frames passed to long-frame decoders. -/
theorem tell_short_frame_boundary :
    (hex2bin "8D406B902015A6").length = 56 ∧ tell (fun _ _ => 0) (hex2bin "8D406B902015A6") = .exc := by
  decide +kernel

/-- real frames: DF17 TC 4 (identification), DF20 Comm-B (BDS 5,0), DF17 TC 29 (target state) -/
example : tell (fun _ _ => 0) (hex2bin "8D406B902015A678D4D220AA4BDA") = .val () := by decide +kernel
example : (hex2bin "8D406B902015A678D4D220AA4BDA").length = 112 := by decide +kernel
example : tell (fun _ _ => 0) (hex2bin "A000139381951536E024D4CCF6B5") = .val () := by decide +kernel
example : tell (fun _ _ => 0) (hex2bin "8DA05629EA21485CBF3F8CADAEEB") = .val () := by decide +kernel

end PyModeS.C14
