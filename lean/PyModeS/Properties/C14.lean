/-
  C14 — Decoders are total and type-guarded on well-formed frames.
-/
import PyModeS.Proofs.Bits
import PyModeS.Model.Commb
import PyModeS.Model.Misc
namespace PyModeS.C14

/-- a guard of the form "TC must be in the documented set, else RuntimeError" never lets another TC through -/
theorem nuc_p_guard (bits : Bits) (tc : Nat) (h : tcB bits = some tc) (hout : tc < 5 ∨ tc = 19 ∨ tc > 22) :
    nucP bits = .rte := by
  unfold nucP; simp [h, hout]

theorem nuc_p_no_df (bits : Bits) (h : tcB bits = none) : nucP bits = .rte := by
  unfold nucP; simp [h]

end PyModeS.C14
