/-
  C17 — Live aircraft table: robust, correct positions, bounded staleness.
-/
import PyModeS.Model.Tracker
import PyModeS.Properties.C02
import PyModeS.Proofs.Tracker.Process
import PyModeS.Proofs.Tracker.Case
import PyModeS.Proofs.Tracker.NoCrash
import PyModeS.Proofs.Tracker.Position
import PyModeS.Proofs.Tracker.Quant
import PyModeS.Properties.C03
import PyModeS.Properties.C04
namespace PyModeS.C17

/-- after a call, every listed aircraft was heard at most `cache_timeout` (+ the truncation of `int(t)`) ago:
    nothing older than `tnow - live > 60` survives the clean-up -/
theorem stale_removed (ias : Rat → Int → Rat) (tr tr' : Tracker) (adsb commb : List (Rat × Msg)) (tnow : Rat)
    (h : processRaw ias tr adsb commb tnow = .val tr') :
    ∀ p ∈ tr'.acs, ¬ (tnow - (p.2.live : Rat) > (Tables.cacheTimeout : Rat)) := by
  unfold processRaw at h
  cases h1 : foldRes (fun tr p => adsbStep tr p.1 p.2) tr adsb with
  | rte => rw [h1] at h; simp at h
  | exc => rw [h1] at h; simp at h
  | val a =>
    rw [h1] at h
    simp only [Res.bind_val] at h
    cases h2 : foldRes (fun tr p => commbStep ias tr p.1 p.2) a commb with
    | rte => rw [h2] at h; simp at h
    | exc => rw [h2] at h; simp at h
    | val b =>
      rw [h2] at h
      simp only [Res.bind_val, Res.pure_eq, Res.val.injEq] at h
      subst h
      intro p hp
      simp only [List.mem_filter] at hp
      simpa using hp.2

open PyModeS.Tracker (keys keyOf)

/-- the real DF17 identification frame (TC 4) and the real DF20 reply used in the examples below -/
def exAdsb : Msg := "8D406B902015A678D4D220AA4BDA".toList
def exCommb : Msg := "A0001839CA3800315800007448D9".toList
def exAdsb2 : Msg := "8D400940000000000000000C0F7E".toList

/-- vocabulary: `keys` is the key list of the dict in insertion order, `keyOf m` the key
    `process_raw` files a message under (`pms.icao(msg)`, Python `None` rendered as "None") -/
theorem keys_def (acs : List (Msg × Ac)) : keys acs = acs.map (·.1) := rfl
theorem keyOf_def (m : Msg) : keyOf m = (icao m).getD "None".toList := rfl

/-- table obligation -/
theorem cacheTimeout_eq : Tables.cacheTimeout = 60 := by decide

/-! ### 4. `int(t)`: truncation toward zero -/

/-- `int(t)` is within one second of `t`, for every rational `t` -/
theorem pyInt_bounds (t : Rat) : (pyInt t : Rat) ≤ t + 1 ∧ t - 1 < (pyInt t : Rat) :=
  Tracker.pyInt_bounds t

theorem pyInt_of_nonneg (t : Rat) (h : 0 ≤ t) : (pyInt t : Rat) ≤ t ∧ t < (pyInt t : Rat) + 1 :=
  Tracker.pyInt_nonneg_bounds t h

theorem pyInt_of_neg (t : Rat) (h : t < 0) : t ≤ (pyInt t : Rat) ∧ (pyInt t : Rat) < t + 1 :=
  Tracker.pyInt_neg_bounds t h

/-- both at once: strictly less than one second off -/
theorem pyInt_abs_lt (t : Rat) : t - 1 < (pyInt t : Rat) ∧ (pyInt t : Rat) < t + 1 :=
  Tracker.pyInt_abs_lt t

theorem pyInt_mono {s t : Rat} (h : s ≤ t) : pyInt s ≤ pyInt t := Tracker.pyInt_mono h

example : pyInt (7/2) = 3 ∧ pyInt (-7/2) = -3 ∧ pyInt 0 = 0 ∧ pyInt (-1/2) = 0 := by decide +kernel

/-! ### 5. Keys are only ever added by ADS-B messages -/

/-- a Comm-B step never adds (or removes, or reorders) a key -/
theorem commbStep_keys (ias : Rat → Int → Rat) (tr tr' : Tracker) (t : Rat) (m : Msg)
    (h : commbStep ias tr t m = .val tr') : tr'.acs.map (·.1) = tr.acs.map (·.1) :=
  Tracker.commbStep_keys h

/-- Comm-B gating: a reply whose address is not in the table leaves the table exactly as it is -/
theorem commb_gated (ias : Rat → Int → Rat) (tr : Tracker) (t : Rat) (m : Msg)
    (h : keyOf m ∉ keys tr.acs) : commbStep ias tr t m = .val tr := by
  apply Tracker.commbStep_unknown
  cases hg : acsGet tr.acs (keyOf m) with
  | none => rfl
  | some a => exact absurd (Tracker.acsGet_some_key hg) h

/-- … and for a known address only `live` of that record changes (to `max(live, int(t))`) -/
theorem commb_known (ias : Rat → Int → Rat) (tr tr' : Tracker) (t : Rat) (m : Msg)
    (h : commbStep ias tr t m = .val tr') (hk : keyOf m ∈ keys tr.acs) :
    ∃ ac, acsGet tr.acs (keyOf m) = some ac ∧
      tr' = { tr with acs := acsSet tr.acs (keyOf m) { ac with live := max ac.live (pyInt t) } } := by
  rcases Tracker.commbStep_val h with ⟨hn, _⟩ | h2
  · have := (Tracker.acsGet_isSome_iff tr.acs (keyOf m)).mpr hk
    rw [hn] at this; simp at this
  · exact h2

/-- an ADS-B step adds at most the key `icao(msg)`, keeps all others, and that key is present afterwards -/
theorem adsbStep_keys (tr tr' : Tracker) (t : Rat) (m : Msg) (h : adsbStep tr t m = .val tr') :
    (∀ k ∈ keys tr'.acs, k ∈ keys tr.acs ∨ k = keyOf m) ∧ (∀ k ∈ keys tr.acs, k ∈ keys tr'.acs) ∧
    keyOf m ∈ keys tr'.acs :=
  Tracker.adsbStep_keys h

/-- **keys_grow_only_by_adsb** — after `process_raw`, every listed key was in the table before or
    is the address of one of the ADS-B messages of this call; Comm-B messages contribute no key. -/
theorem keys_grow_only_by_adsb (ias : Rat → Int → Rat) (tr tr' : Tracker) (adsb commb : List (Rat × Msg))
    (tnow : Rat) (h : processRaw ias tr adsb commb tnow = .val tr') :
    ∀ k ∈ keys tr'.acs, k ∈ keys tr.acs ∨ ∃ p ∈ adsb, k = keyOf p.2 := by
  obtain ⟨tr1, tr2, h1, h2, rfl⟩ := Tracker.processRaw_val h
  intro k hk
  have hk2 := Tracker.filter_keys_subset _ _ k hk
  rw [Tracker.commbFold_keys h2] at hk2
  exact (Tracker.adsbFold_keys h1).1 k hk2

/-- the table stays a dict: if no key occurs twice before the call, none does after it
    (so `acsGet`, which returns the first match, reads THE record of a key) -/
theorem keys_nodup (ias : Rat → Int → Rat) (tr tr' : Tracker) (adsb commb : List (Rat × Msg)) (tnow : Rat)
    (h : processRaw ias tr adsb commb tnow = .val tr') (hn : (keys tr.acs).Nodup) : (keys tr'.acs).Nodup :=
  Tracker.processRaw_nodup h hn

example : (keys ({} : Tracker).acs).Nodup := by decide

/-! ### 6. `live` -/

/-- **live_after_adsb** — after an ADS-B step the sender is in the table with `live = int(t)` -/
theorem live_after_adsb (tr tr' : Tracker) (t : Rat) (m : Msg) (h : adsbStep tr t m = .val tr') :
    ∃ ac', acsGet tr'.acs (keyOf m) = some ac' ∧ ac'.live = pyInt t :=
  Tracker.adsbStep_live h

/-- a Comm-B step only raises `live` (the F13 repair: `max`), and only for its own address -/
theorem commb_only_raises_live (ias : Rat → Int → Rat) (tr tr' : Tracker) (t : Rat) (m : Msg)
    (h : commbStep ias tr t m = .val tr') (k : Msg) (ac : Ac) (hg : acsGet tr.acs k = some ac) :
    ∃ ac', acsGet tr'.acs k = some ac' ∧ ac.live ≤ ac'.live ∧
      (k = keyOf m → ac'.live = max ac.live (pyInt t)) ∧ (k ≠ keyOf m → ac' = ac) :=
  Tracker.commbStep_live h k ac hg

/-- **live_monotone** — within one call with non-decreasing ADS-B time stamps, every ADS-B message
    `(t, m)` of the batch leaves its sender with `live ≥ int(t)` when the two loops are over (`tr2` is
    the table just before the purge, `keep tnow p = not (tnow - p.live > cache_timeout)`):
    a later message of the same call never moves `live` backwards. -/
theorem live_monotone (ias : Rat → Int → Rat) (tr tr' : Tracker) (adsb commb : List (Rat × Msg)) (tnow : Rat)
    (h : processRaw ias tr adsb commb tnow = .val tr')
    (hs : adsb.Pairwise (fun p q => p.1 ≤ q.1)) (t : Rat) (m : Msg) (hm : (t, m) ∈ adsb) :
    ∃ tr2 : Tracker, tr'.acs = tr2.acs.filter (Tracker.keep tnow) ∧
      ∃ ac', acsGet tr2.acs (keyOf m) = some ac' ∧ pyInt t ≤ ac'.live := by
  obtain ⟨tr1, tr2, h1, h2, rfl⟩ := Tracker.processRaw_val h
  exact ⟨tr2, rfl, Tracker.commbFold_liveGe h2 _ _ (Tracker.adsbFold_heard_sorted h1 hs hm)⟩

/-- (the purge predicate used above) -/
theorem keep_def (tnow : Rat) (p : Msg × Ac) :
    Tracker.keep tnow p = !decide (tnow - (p.2.live : Rat) > (Tables.cacheTimeout : Rat)) := rfl

/-! ### 7. Who is listed after a call -/

/-- **listed_if_recent** — non-decreasing ADS-B time stamps: an aircraft heard in this call by an
    ADS-B message at time `t` with `tnow - t ≤ 59` is listed afterwards, with `live ≥ int(t)`.
    (`int(t) > t - 1`, so `tnow - live < 60`, and the purge keeps everything with `tnow - live ≤ 60`.) -/
theorem listed_if_recent (ias : Rat → Int → Rat) (tr tr' : Tracker) (adsb commb : List (Rat × Msg)) (tnow : Rat)
    (h : processRaw ias tr adsb commb tnow = .val tr')
    (hs : adsb.Pairwise (fun p q => p.1 ≤ q.1)) (t : Rat) (m : Msg) (hm : (t, m) ∈ adsb)
    (hrecent : tnow - t ≤ 59) :
    keyOf m ∈ keys tr'.acs ∧ ∃ ac', acsGet tr'.acs (keyOf m) = some ac' ∧ pyInt t ≤ ac'.live := by
  obtain ⟨tr1, tr2, h1, h2, rfl⟩ := Tracker.processRaw_val h
  have g2 := Tracker.commbFold_liveGe h2 _ _ (Tracker.adsbFold_heard_sorted h1 hs hm)
  have hb := (Tracker.pyInt_bounds t).2
  have g3 := Tracker.liveGe_survives (tnow := tnow) g2 (by grind)
  obtain ⟨a, hg, hl⟩ := g3
  exact ⟨Tracker.acsGet_some_key hg, a, hg, hl⟩

/-- the same without any ordering assumption on the batch, for a message that is followed (in the
    batch) only by messages which, if from the same address, have `int(t') ≥ int(t)` — in
    particular for the LAST message of each address -/
theorem listed_if_recent_last (ias : Rat → Int → Rat) (tr tr' : Tracker) (pre post commb : List (Rat × Msg))
    (tnow : Rat) (t : Rat) (m : Msg)
    (h : processRaw ias tr (pre ++ (t, m) :: post) commb tnow = .val tr')
    (hpost : ∀ p ∈ post, keyOf p.2 = keyOf m → pyInt t ≤ pyInt p.1)
    (hrecent : tnow - t ≤ 59) :
    keyOf m ∈ keys tr'.acs ∧ ∃ ac', acsGet tr'.acs (keyOf m) = some ac' ∧ pyInt t ≤ ac'.live := by
  obtain ⟨tr1, tr2, h1, h2, rfl⟩ := Tracker.processRaw_val h
  have g2 := Tracker.commbFold_liveGe h2 _ _ (Tracker.adsbFold_heard h1 hpost)
  have hb := (Tracker.pyInt_bounds t).2
  have g3 := Tracker.liveGe_survives (tnow := tnow) g2 (by grind)
  obtain ⟨a, hg, hl⟩ := g3
  exact ⟨Tracker.acsGet_some_key hg, a, hg, hl⟩

/-- heard by Comm-B: a reply at `t` with `tnow - t ≤ 59` from an address that is in the table when
    the Comm-B loop starts (it was there before the call, or sent ADS-B in this call) keeps it listed -/
theorem listed_if_recent_commb (ias : Rat → Int → Rat) (tr tr' : Tracker) (adsb commb : List (Rat × Msg))
    (tnow : Rat) (h : processRaw ias tr adsb commb tnow = .val tr') (t : Rat) (m : Msg) (hm : (t, m) ∈ commb)
    (hknown : keyOf m ∈ keys tr.acs ∨ ∃ p ∈ adsb, keyOf m = keyOf p.2) (hrecent : tnow - t ≤ 59) :
    keyOf m ∈ keys tr'.acs ∧ ∃ ac', acsGet tr'.acs (keyOf m) = some ac' ∧ pyInt t ≤ ac'.live := by
  obtain ⟨tr1, tr2, h1, h2, rfl⟩ := Tracker.processRaw_val h
  have hk1 : keyOf m ∈ keys tr1.acs := by
    rcases hknown with hk | ⟨p, hp, e⟩
    · exact (Tracker.adsbFold_keys h1).2.1 _ hk
    · rw [e]; exact (Tracker.adsbFold_keys h1).2.2 p hp
  have g2 := Tracker.commbFold_heard h2 hm hk1
  have hb := (Tracker.pyInt_bounds t).2
  have g3 := Tracker.liveGe_survives (tnow := tnow) g2 (by grind)
  obtain ⟨a, hg, hl⟩ := g3
  exact ⟨Tracker.acsGet_some_key hg, a, hg, hl⟩

/-- **absent_if_silent** — `L` bounds every `live` stamp the address `k` can end the loops with:
    the stamps of its records before the call and `int(t)` of every message (ADS-B or Comm-B) of this
    call filed under `k`.  If `tnow - L > 60` the address is not listed afterwards.
    (An address not touched by the call: `hadsb`, `hcommb` hold vacuously — this is `stale_removed`
    read as a statement about keys.) -/
theorem absent_if_silent (ias : Rat → Int → Rat) (tr tr' : Tracker) (adsb commb : List (Rat × Msg)) (tnow : Rat)
    (h : processRaw ias tr adsb commb tnow = .val tr') (k : Msg) (L : Int)
    (hold : ∀ p ∈ tr.acs, p.1 = k → p.2.live ≤ L)
    (hadsb : ∀ p ∈ adsb, keyOf p.2 = k → pyInt p.1 ≤ L)
    (hcommb : ∀ p ∈ commb, keyOf p.2 = k → pyInt p.1 ≤ L)
    (hsilent : tnow - (L : Rat) > 60) : k ∉ keys tr'.acs := by
  obtain ⟨tr1, tr2, h1, h2, rfl⟩ := Tracker.processRaw_val h
  exact Tracker.liveLe_purged (Tracker.commbFold_liveLe h2 k L (Tracker.adsbFold_liveLe h1 k L hold hadsb) hcommb)
    hsilent

/-- **absent_after_61** — the 61-second form: if everything known about `k` — its stored stamps
    (each `live` is the `int` of the time it was last heard) and every message of this call — dates
    from time `T` or earlier, and `tnow - T > 61`, then `k` is absent after the call. -/
theorem absent_after_61 (ias : Rat → Int → Rat) (tr tr' : Tracker) (adsb commb : List (Rat × Msg)) (tnow : Rat)
    (h : processRaw ias tr adsb commb tnow = .val tr') (k : Msg) (T : Rat)
    (hold : ∀ p ∈ tr.acs, p.1 = k → ∃ t0, t0 ≤ T ∧ p.2.live = pyInt t0)
    (hadsb : ∀ p ∈ adsb, keyOf p.2 = k → p.1 ≤ T)
    (hcommb : ∀ p ∈ commb, keyOf p.2 = k → p.1 ≤ T)
    (hsilent : tnow - T > 61) : k ∉ keys tr'.acs := by
  apply absent_if_silent ias tr tr' adsb commb tnow h k (pyInt T)
  · intro p hp hk
    obtain ⟨t0, ht0, e⟩ := hold p hp hk
    rw [e]; exact Tracker.pyInt_mono ht0
  · intro p hp hk; exact Tracker.pyInt_mono (hadsb p hp hk)
  · intro p hp hk; exact Tracker.pyInt_mono (hcommb p hp hk)
  · have := (Tracker.pyInt_bounds T).1
    grind

/-! ### 8. Letter case -/

/-- **case_insensitive** — a hex message in lower case (or upper case) takes `adsbStep` and
    `commbStep` to exactly the same result as the original spelling: the key `icao(msg)` is
    canonical (C02) and every other use of the message goes through `hex2bin`. -/
theorem case_insensitive (ias : Rat → Int → Rat) (tr : Tracker) (t : Rat) (m : Msg)
    (hm : ∀ c ∈ m, (hexVal? c).isSome) :
    adsbStep tr t (m.map Char.toLower) = adsbStep tr t m ∧
    adsbStep tr t (m.map Char.toUpper) = adsbStep tr t m ∧
    commbStep ias tr t (m.map Char.toLower) = commbStep ias tr t m ∧
    commbStep ias tr t (m.map Char.toUpper) = commbStep ias tr t m ∧
    keyOf (m.map Char.toLower) = keyOf m ∧ keyOf (m.map Char.toUpper) = keyOf m :=
  ⟨Tracker.adsbStep_map _ tr t m (Tracker.toLower_ok m hm),
   Tracker.adsbStep_map _ tr t m (Tracker.toUpper_ok m hm),
   Tracker.commbStep_map ias _ tr t m (Tracker.toLower_ok m hm),
   Tracker.commbStep_map ias _ tr t m (Tracker.toUpper_ok m hm),
   by unfold Tracker.keyOf; rw [(PyModeS.C02.icao_case_insensitive m hm).1],
   by unfold Tracker.keyOf; rw [(PyModeS.C02.icao_case_insensitive m hm).2]⟩

/-- whole calls: lower-casing every message of both batches gives the identical table -/
theorem processRaw_case_insensitive (ias : Rat → Int → Rat) (tr : Tracker) (adsb commb : List (Rat × Msg))
    (tnow : Rat) (hm : ∀ p ∈ adsb ++ commb, ∀ c ∈ p.2, (hexVal? c).isSome) :
    processRaw ias tr (adsb.map (fun p => (p.1, p.2.map Char.toLower)))
        (commb.map (fun p => (p.1, p.2.map Char.toLower))) tnow = processRaw ias tr adsb commb tnow ∧
    processRaw ias tr (adsb.map (fun p => (p.1, p.2.map Char.toUpper)))
        (commb.map (fun p => (p.1, p.2.map Char.toUpper))) tnow = processRaw ias tr adsb commb tnow :=
  ⟨Tracker.processRaw_map ias _ tr adsb commb tnow (fun p hp => Tracker.toLower_ok p.2 (hm p hp)),
   Tracker.processRaw_map ias _ tr adsb commb tnow (fun p hp => Tracker.toUpper_ok p.2 (hm p hp))⟩

/-! ### 9. `process_raw` never raises

  Invariant of the table (`TrackerWF`): in every record, `tpos` set implies `lat` and `lon` set
  (otherwise `position_with_ref(msg, None, None)` is reachable: TypeError), and a stored NIC
  supplement `nic_s` is 0 or 1 (otherwise `TC_NICv1_lookup[tc][nic_s]` is a KeyError).  It holds for
  `Decode()`'s empty table and is preserved by every step.

  The decoder facts needed ("on a 112-bit frame whose type code is in the range under which
  `process_raw` makes the call, the decoder returns a value") were bundled in `DecodersTotal` so as
  not to wait for C14's `no_exc_112`; in the end every ADS-B decoder fact was proved outright
  (`Proofs/Tracker/NoCrashDecoders.lean`), the bundle kept the single field `infer`, and that one is
  proved too (`Proofs/Tracker/NoCrashInfer.lean`, `Tracker.decodersTotal`).  So the `_partial`
  theorems are kept in the announced shape and the unconditional versions are given next to them.
  Remaining caveats are the model's, not the proof's: the model of the Comm-B loop stops at
  `pms.bds.infer` (the BDS 4,4/5,0/6,0 field decoders `process_raw` runs afterwards are not part of
  `commbStep`); a non-hex character is read as 0 where Python raises; an ADS-B-list message whose
  DF is not 17/18 DOES raise (`typecode` is `None`, `1 <= None`: TypeError) — hence `hdf`. -/

open PyModeS.Tracker (TrackerWF AcWF DecodersTotal processHistory)

theorem trackerWF_def (tr : Tracker) : TrackerWF tr ↔ ∀ p ∈ tr.acs,
    (p.2.tpos.isSome → p.2.lat.isSome ∧ p.2.lon.isSome) ∧ (∀ s, p.2.nicS = some s → s ≤ 1) := Iff.rfl

theorem trackerWF_empty : TrackerWF {} := Tracker.trackerWF_empty

/-- the bundle: one field, about `pms.bds.infer` -/
theorem decodersTotal_def : DecodersTotal ↔
    ∀ (ias : Rat → Int → Rat) (bits : Bits), bits.length = 112 → ∃ v, infer ias bits false = .val v :=
  ⟨fun D => D.infer, fun h => ⟨h⟩⟩

/-- … and it holds -/
theorem decodersTotal : DecodersTotal := Tracker.decodersTotal

/-- **process_no_crash_partial** — one ADS-B message: on a 28-digit DF17/18 message and a
    well-formed table, `adsbStep` returns a value (neither `RuntimeError` nor any other exception)
    and the table stays well-formed.  Stated from the bundle `DecodersTotal` as announced; the
    bundle is discharged (`decodersTotal`; C14 is not needed), see `process_no_crash`. -/
theorem process_no_crash_partial (D : DecodersTotal) (tr : Tracker) (hwf : TrackerWF tr) (t : Rat) (m : Msg)
    (hlen : m.length = 28) (hdf : df m = 17 ∨ df m = 18) :
    (∃ tr', adsbStep tr t m = .val tr' ∧ TrackerWF tr') ∧ adsbStep tr t m ≠ .exc ∧ adsbStep tr t m ≠ .rte :=
  ⟨Tracker.process_no_crash_partial D tr hwf t m hlen hdf, Tracker.adsbStep_ne_exc_rte tr hwf t m hlen hdf⟩

/-- unconditional form -/
theorem process_no_crash (tr : Tracker) (hwf : TrackerWF tr) (t : Rat) (m : Msg)
    (hlen : m.length = 28) (hdf : df m = 17 ∨ df m = 18) :
    (∃ tr', adsbStep tr t m = .val tr' ∧ TrackerWF tr') ∧ adsbStep tr t m ≠ .exc ∧ adsbStep tr t m ≠ .rte :=
  process_no_crash_partial decodersTotal tr hwf t m hlen hdf

/-- one Comm-B message of 28 digits (any DF): returns a value, table stays well-formed -/
theorem commb_no_crash (ias : Rat → Int → Rat) (tr : Tracker) (hwf : TrackerWF tr) (t : Rat) (m : Msg)
    (hlen : m.length = 28) : ∃ tr', commbStep ias tr t m = .val tr' ∧ TrackerWF tr' :=
  Tracker.commbStep_no_crash_partial decodersTotal ias tr hwf t m hlen

/-- **process_raw_no_crash** — a whole call: every ADS-B message a 28-digit DF17/18 message, every
    Comm-B message 28 digits, any time stamps (monotonicity is not needed for this), any `tnow`:
    `process_raw` returns a table, and it is well-formed again. -/
theorem process_raw_no_crash (ias : Rat → Int → Rat) (tr : Tracker) (hwf : TrackerWF tr)
    (adsb commb : List (Rat × Msg)) (tnow : Rat)
    (ha : ∀ p ∈ adsb, p.2.length = 28 ∧ (df p.2 = 17 ∨ df p.2 = 18))
    (hc : ∀ p ∈ commb, p.2.length = 28) :
    ∃ tr', processRaw ias tr adsb commb tnow = .val tr' ∧ TrackerWF tr' :=
  Tracker.process_raw_no_crash ias tr hwf adsb commb tnow ha hc

/-- the same from the bundle (announced `_partial` shape) -/
theorem process_raw_no_crash_partial (D : DecodersTotal) (ias : Rat → Int → Rat) (tr : Tracker) (hwf : TrackerWF tr)
    (adsb commb : List (Rat × Msg)) (tnow : Rat)
    (ha : ∀ p ∈ adsb, p.2.length = 28 ∧ (df p.2 = 17 ∨ df p.2 = 18))
    (hc : ∀ p ∈ commb, p.2.length = 28) :
    ∃ tr', processRaw ias tr adsb commb tnow = .val tr' ∧ TrackerWF tr' :=
  Tracker.process_raw_no_crash_partial D ias tr hwf adsb commb tnow ha hc

/-- **history_no_crash** — "for any history …": any sequence of such calls, starting from a fresh
    `Decode()`, returns normally at every call (`processHistory` folds `processRaw` over the calls
    `(adsb, commb, tnow)`; a prefix of a history is a history, so every intermediate call returned) -/
theorem history_no_crash (ias : Rat → Int → Rat)
    (calls : List (List (Rat × Msg) × List (Rat × Msg) × Rat))
    (h : ∀ c ∈ calls, (∀ p ∈ c.1, p.2.length = 28 ∧ (df p.2 = 17 ∨ df p.2 = 18)) ∧ (∀ p ∈ c.2.1, p.2.length = 28)) :
    ∃ tr', processHistory ias {} calls = .val tr' ∧ TrackerWF tr' :=
  Tracker.processRaw_history_no_crash ias calls h

theorem processHistory_def (ias : Rat → Int → Rat) (tr : Tracker)
    (calls : List (List (Rat × Msg) × List (Rat × Msg) × Rat)) :
    processHistory ias tr calls = foldRes (fun tr c => processRaw ias tr c.1 c.2.1 c.2.2) tr calls := rfl

/-- hypotheses met by the frames of the examples below; and the DF precondition is sharp: a DF20
    frame in the ADS-B list makes the model (like Python) raise -/
example : exAdsb.length = 28 ∧ df exAdsb = 17 ∧ exAdsb2.length = 28 ∧ df exAdsb2 = 17 ∧ exCommb.length = 28 ∧
    TrackerWF {} ∧ (adsbStep {} 0 exCommb).isExc = true :=
  ⟨by decide, by decide +kernel, by decide, by decide +kernel, by decide, trackerWF_empty, by decide +kernel⟩

/-! ### 10. Stored positions are the positions carried by the updating frame

  Property, last clause (full statement): "For an aircraft flying any continuous trajectory at up
  to 600 kt and broadcasting CPR positions, every latitude/longitude the table stores is within
  0.001 degree of the aircraft's true position at the message that caused the update."

  Proved here (`…_partial`): the algebraic chain
    stored position = position carried by the updating frame   (`position_invariant_partial`,
        `position_invariant_surface_partial`: reference branch, via C04.ref_decode;
        `position_pair_partial`, `position_pair_global_partial`: pair branch, via C03.global_decode)
    |carried − true| ≤ half a quantisation step < 0.001°       (`carried_within_0_001`, section (c))
  under the decoders' box hypotheses (reference within half a zone of the carried position; the
  two frames of a pair within 3/59° in latitude, same NL, longitudes within half the even/odd
  zone offset).  MISSING, and not a theorem here: the geometric step that "continuous trajectory
  at ≤ 600 kt" together with the code's 180 s / 10 s windows implies those box hypotheses, and the
  pair-branch longitude is obtained modulo 360 only (C03).  `e = Spec.cprEncode cprNL base i lat lon`
  is the DO-260B encoding of the true position `(lat, lon)`; the frame `m` is tied to it by
  `hf` (its CPR fields read back as `e.yz`, `e.xz`, format bit `i`). -/

open PyModeS.Tracker (SamePos startAc filedAc GateOpen pairTarget)

/-- vocabulary of this section -/
theorem position_defs (tr : Tracker) (t : Rat) (m : Msg) (oe : Nat) (bits : Bits) (tc : Nat) :
    startAc tr t m = { (acsGet tr.acs (keyOf m)).getD { live := 0 } with live := pyInt t } ∧
    filedAc tr t m oe =
      (if oe = 0 then { startAc tr t m with m0 := some (hex2binM m), t0 := some t }
       else { startAc tr t m with m1 := some (hex2binM m), t1 := some t }) ∧
    (GateOpen bits tc ↔ (((5 ≤ tc ∧ tc ≤ 8) ∨ tc = 19) → velocityGate bits = .val (some (true, false, false)))) :=
  ⟨rfl, rfl, Iff.rfl⟩

/-- generic reference branch (any position type code 5–18 that passes the velocity gate): if
    `position_with_ref(msg, lat, lon)` on the stored position returns `(X, Y)`, that is what is stored -/
theorem position_ref_generic (tr : Tracker) (hwf : TrackerWF tr) (t : Rat) (m : Msg)
    (hlen : m.length = 28) (hdf : df m = 17 ∨ df m = 18) (tc : Nat)
    (htc : typecode m = some tc) (h518 : 5 ≤ tc ∧ tc ≤ 18) (hgate : GateOpen (hex2binM m) tc)
    (ac0 : Ac) (hget : acsGet tr.acs (keyOf m) = some ac0)
    (tp la lo X Y : Rat) (htp : ac0.tpos = some tp) (hrecent : t - tp < 180)
    (hla : ac0.lat = some la) (hlo : ac0.lon = some lo)
    (hpwr : positionWithRef (hex2binM m) la lo = .val (X, Y)) :
    ∃ tr' ac', adsbStep tr t m = .val tr' ∧ TrackerWF tr' ∧ acsGet tr'.acs (keyOf m) = some ac' ∧
      ac'.lat = some X ∧ ac'.lon = some Y ∧ ac'.tpos = some t ∧ ac'.live = pyInt t := by
  have hs := Tracker.startAc_of_get (t := t) hget
  obtain ⟨tr', oe, a', hv, hwf', _, hg, hsp⟩ := Tracker.adsbStep_ref_total tr hwf t m hlen hdf tc htc h518 hgate
    tp la lo X Y (by rw [hs]; exact htp) hrecent (by rw [hs]; exact hla) (by rw [hs]; exact hlo) hpwr
  obtain ⟨p1, _, _, _, _, p6, p7, p8⟩ := hsp
  refine ⟨tr', a', hv, hwf', hg, p7, p8, p6, ?_⟩
  rw [p1]
  show (filedAc tr t m oe).live = pyInt t
  unfold Tracker.filedAc
  split <;> rfl

/-- **position_invariant_partial** (a, airborne) — `m` is a 28-digit DF17/18 airborne position
    message (TC 9–18) carrying the encoding `e` of the true position, the sender's record holds a
    position `(la, lo)` younger than 180 s that lies in the open half-zone box around the carried
    position (longitude up to `s` zones): then `adsbStep` returns, and the record now holds
    EXACTLY the carried position `(e.rlat, e.rlon + e.dlon·s)` with `tpos = t`. -/
theorem position_invariant_partial (tr : Tracker) (hwf : TrackerWF tr) (t : Rat) (m : Msg)
    (hlen : m.length = 28) (hdf : df m = 17 ∨ df m = 18) (tc : Nat)
    (htc : typecode m = some tc) (hair : 9 ≤ tc ∧ tc ≤ 18)
    (i : ℕ) (hi : i = 0 ∨ i = 1) (lat lon : ℚ) (e : Spec.Enc) (he : e = Spec.cprEncode cprNL 360 i lat lon)
    (hf : cprFields (hex2binM m) = .val ⟨decide (i = 1), e.yz, e.xz⟩)
    (ac0 : Ac) (hget : acsGet tr.acs (keyOf m) = some ac0)
    (tp la lo : ℚ) (htp : ac0.tpos = some tp) (hrecent : t - tp < 180)
    (hla : ac0.lat = some la) (hlo : ac0.lon = some lo)
    (s : ℤ) (hlat : |la - e.rlat| < e.dlat / 2) (hlon : |lo - (e.rlon + e.dlon * s)| < e.dlon / 2) :
    ∃ tr' ac', adsbStep tr t m = .val tr' ∧ TrackerWF tr' ∧ acsGet tr'.acs (keyOf m) = some ac' ∧
      ac'.lat = some e.rlat ∧ ac'.lon = some (e.rlon + e.dlon * s) ∧ ac'.tpos = some t ∧
      ac'.live = pyInt t := by
  have htcB : tcB (hex2binM m) = some tc := by rw [← typecode_eq]; exact htc
  have hpwr := Tracker.positionWithRef_airborne (hex2binM m) tc htcB (Or.inl hair) _ hf la lo
  rw [PyModeS.C04.ref_decode cprNL 360 (by norm_num) i hi lat lon la lo e he s hlat hlon] at hpwr
  exact position_ref_generic tr hwf t m hlen hdf tc htc (by omega) (fun h => by omega) ac0 hget
    tp la lo _ _ htp hrecent hla hlo hpwr

/-- **position_invariant_surface_partial** (a, surface) — the same for a surface position message
    (TC 5–8, `base = 90`) that the velocity gate lets through (`velocityGate = (GS, speed, track)`
    all present) -/
theorem position_invariant_surface_partial (tr : Tracker) (hwf : TrackerWF tr) (t : Rat) (m : Msg)
    (hlen : m.length = 28) (hdf : df m = 17 ∨ df m = 18) (tc : Nat)
    (htc : typecode m = some tc) (hsurf : 5 ≤ tc ∧ tc ≤ 8)
    (hvel : velocityGate (hex2binM m) = .val (some (true, false, false)))
    (i : ℕ) (hi : i = 0 ∨ i = 1) (lat lon : ℚ) (e : Spec.Enc) (he : e = Spec.cprEncode cprNL 90 i lat lon)
    (hf : cprFields (hex2binM m) = .val ⟨decide (i = 1), e.yz, e.xz⟩)
    (ac0 : Ac) (hget : acsGet tr.acs (keyOf m) = some ac0)
    (tp la lo : ℚ) (htp : ac0.tpos = some tp) (hrecent : t - tp < 180)
    (hla : ac0.lat = some la) (hlo : ac0.lon = some lo)
    (s : ℤ) (hlat : |la - e.rlat| < e.dlat / 2) (hlon : |lo - (e.rlon + e.dlon * s)| < e.dlon / 2) :
    ∃ tr' ac', adsbStep tr t m = .val tr' ∧ TrackerWF tr' ∧ acsGet tr'.acs (keyOf m) = some ac' ∧
      ac'.lat = some e.rlat ∧ ac'.lon = some (e.rlon + e.dlon * s) ∧ ac'.tpos = some t ∧
      ac'.live = pyInt t := by
  have htcB : tcB (hex2binM m) = some tc := by rw [← typecode_eq]; exact htc
  have hpwr := Tracker.positionWithRef_surface (hex2binM m) tc htcB hsurf _ hf la lo
  rw [PyModeS.C04.ref_decode cprNL 90 (by norm_num) i hi lat lon la lo e he s hlat hlon] at hpwr
  exact position_ref_generic tr hwf t m hlen hdf tc htc (by omega) (fun _ => hvel) ac0 hget
    tp la lo _ _ htp hrecent hla hlo hpwr

/-- **position_pair_partial** (b) — no stored position younger than 180 s; after filing the new
    frame under its parity `oe` both parities are on file (`b0` even at `t0`, `b1` odd at `t1`) and
    `|t0 − t1| < 10`: `adsbStep` returns; if `position(b0, b1, t0, t1[, ref])` returns a position it
    is stored with `tpos = t`; if it returns `None` or raises anything (bare `except: continue`)
    the stored position is left exactly as it was. -/
theorem position_pair_partial (tr : Tracker) (hwf : TrackerWF tr) (t : Rat) (m : Msg)
    (hlen : m.length = 28) (hdf : df m = 17 ∨ df m = 18) (tc : Nat)
    (htc : typecode m = some tc) (h518 : 5 ≤ tc ∧ tc ≤ 18) (hgate : GateOpen (hex2binM m) tc)
    (ac0 : Ac) (hget : acsGet tr.acs (keyOf m) = some ac0)
    (hnoref : ∀ tp, ac0.tpos = some tp → ¬ (t - tp < 180))
    (oe : Nat) (hoe : oeFlag (hex2binM m) = .val oe)
    (b0 b1 : Bits) (t0 t1 : Rat)
    (hm0 : (if oe = 0 then some (hex2binM m) else ac0.m0) = some b0)
    (hm1 : (if oe = 0 then ac0.m1 else some (hex2binM m)) = some b1)
    (ht0 : (if oe = 0 then some t else ac0.t0) = some t0)
    (ht1 : (if oe = 0 then ac0.t1 else some t) = some t1)
    (hwin : rabs (t0 - t1) < 10) :
    ∃ tr' ac', adsbStep tr t m = .val tr' ∧ TrackerWF tr' ∧ acsGet tr'.acs (keyOf m) = some ac' ∧
      ac'.m0 = some b0 ∧ ac'.m1 = some b1 ∧ ac'.t0 = some t0 ∧ ac'.t1 = some t1 ∧ ac'.live = pyInt t ∧
      (match position b0 b1 t0 t1 tr.ref with
       | .val (some p) => ac'.lat = some p.1 ∧ ac'.lon = some p.2 ∧ ac'.tpos = some t
       | _ => ac'.lat = ac0.lat ∧ ac'.lon = ac0.lon ∧ ac'.tpos = ac0.tpos) := by
  have hs := Tracker.startAc_of_get (t := t) hget
  have f0 : (filedAc tr t m oe).m0 = some b0 := by
    rw [← hm0]; unfold Tracker.filedAc; rw [hs]; split <;> rfl
  have f1 : (filedAc tr t m oe).m1 = some b1 := by
    rw [← hm1]; unfold Tracker.filedAc; rw [hs]; split <;> rfl
  have g0 : (filedAc tr t m oe).t0 = some t0 := by
    rw [← ht0]; unfold Tracker.filedAc; rw [hs]; split <;> rfl
  have g1 : (filedAc tr t m oe).t1 = some t1 := by
    rw [← ht1]; unfold Tracker.filedAc; rw [hs]; split <;> rfl
  have fl : (filedAc tr t m oe).live = pyInt t ∧ (filedAc tr t m oe).lat = ac0.lat ∧
      (filedAc tr t m oe).lon = ac0.lon ∧ (filedAc tr t m oe).tpos = ac0.tpos := by
    unfold Tracker.filedAc; rw [hs]; split <;> exact ⟨rfl, rfl, rfl, rfl⟩
  obtain ⟨tr', a', hv, hwf', hg, hsp⟩ := Tracker.adsbStep_pair_total tr hwf t m hlen hdf tc htc h518 hgate
    (by rw [hs]; exact hnoref) oe hoe b0 b1 t0 t1 f0 f1 g0 g1 hwin
  refine ⟨tr', a', hv, hwf', hg, ?_⟩
  generalize position b0 b1 t0 t1 tr.ref = r at hsp ⊢
  obtain ⟨p1, p2, p3, p4, p5, p6, p7, p8⟩ := hsp
  rcases r with (_ | p) | _ | _
  · exact ⟨p2.trans f0, p3.trans f1, p4.trans g0, p5.trans g1, p1.trans fl.1,
      p7.trans fl.2.1, p8.trans fl.2.2.1, p6.trans fl.2.2.2⟩
  · exact ⟨p2.trans f0, p3.trans f1, p4.trans g0, p5.trans g1, p1.trans fl.1, p7, p8, p6⟩
  · exact ⟨p2.trans f0, p3.trans f1, p4.trans g0, p5.trans g1, p1.trans fl.1,
      p7.trans fl.2.1, p8.trans fl.2.2.1, p6.trans fl.2.2.2⟩
  · exact ⟨p2.trans f0, p3.trans f1, p4.trans g0, p5.trans g1, p1.trans fl.1,
      p7.trans fl.2.1, p8.trans fl.2.2.1, p6.trans fl.2.2.2⟩

/-- **position_pair_global_partial** (b + C03) — airborne pair: the two frames on file are airborne
    position frames carrying `e0` (even) and `e1` (odd); under the hypotheses of `C03.global_decode`
    the stored latitude is the carried latitude of the NEWER frame and the stored longitude is its
    carried longitude modulo 360, in `(-180, 180]`. -/
theorem position_pair_global_partial (tr : Tracker) (hwf : TrackerWF tr) (t : Rat) (m : Msg)
    (hlen : m.length = 28) (hdf : df m = 17 ∨ df m = 18) (tc : Nat)
    (htc : typecode m = some tc) (hair : 9 ≤ tc ∧ tc ≤ 18)
    (ac0 : Ac) (hget : acsGet tr.acs (keyOf m) = some ac0)
    (hnoref : ∀ tp, ac0.tpos = some tp → ¬ (t - tp < 180))
    (oe : Nat) (hoe : oeFlag (hex2binM m) = .val oe)
    (b0 b1 : Bits) (t0 t1 : Rat)
    (hm0 : (if oe = 0 then some (hex2binM m) else ac0.m0) = some b0)
    (hm1 : (if oe = 0 then ac0.m1 else some (hex2binM m)) = some b1)
    (ht0 : (if oe = 0 then some t else ac0.t0) = some t0)
    (ht1 : (if oe = 0 then ac0.t1 else some t) = some t1)
    (hwin : rabs (t0 - t1) < 10)
    (tc0 tc1 : Nat) (htc0 : tcB b0 = some tc0) (htc1 : tcB b1 = some tc1)
    (hair01 : 9 ≤ tc0 ∧ tc0 ≤ 18 ∧ 9 ≤ tc1 ∧ tc1 ≤ 18)
    (lat0 lon0 lat1 lon1 : ℚ) (e0 e1 : Spec.Enc)
    (he0 : e0 = Spec.cprEncode cprNL 360 0 lat0 lon0) (he1 : e1 = Spec.cprEncode cprNL 360 1 lat1 lon1)
    (hf0 : cprFields b0 = .val ⟨false, e0.yz, e0.xz⟩) (hf1 : cprFields b1 = .val ⟨true, e1.yz, e1.xz⟩)
    (hr0 : -90 ≤ e0.rlat ∧ e0.rlat ≤ 90) (hr1 : -90 ≤ e1.rlat ∧ e1.rlat ≤ 90)
    (hclose : |e0.rlat - e1.rlat| < 3 / 59)
    (hnl : cprNL e0.rlat = cprNL e1.rlat)
    (hlon : 2 ≤ cprNL e0.rlat → ∃ s : ℤ,
      |e0.rlon - e1.rlon - 360 * s| < 180 / ((cprNL e0.rlat : ℚ) * ((cprNL e0.rlat : ℚ) - 1))) :
    ∃ tr' ac' lonS, adsbStep tr t m = .val tr' ∧ TrackerWF tr' ∧ acsGet tr'.acs (keyOf m) = some ac' ∧
      ac'.lat = some (if t0 > t1 then e0.rlat else e1.rlat) ∧ ac'.lon = some lonS ∧
      (∃ z : ℤ, lonS = (if t0 > t1 then e0.rlon else e1.rlon) + 360 * z) ∧ -180 < lonS ∧ lonS ≤ 180 ∧
      ac'.tpos = some t := by
  obtain ⟨tr', ac', hv, hwf', hg, _, _, _, _, _, hpos⟩ := position_pair_partial tr hwf t m hlen hdf tc htc
    (by omega) (fun h => by omega) ac0 hget hnoref oe hoe b0 b1 t0 t1 hm0 hm1 ht0 ht1 hwin
  obtain ⟨lonS, hdec, hz, hlo, hhi⟩ := PyModeS.C03.global_decode cprNL lat0 lon0 lat1 lon1 t0 t1 e0 e1 he0 he1
    hr0 hr1 hclose hnl hlon
  rw [Tracker.position_airborne b0 b1 tc0 tc1 htc0 htc1 (Or.inl hair01) _ _ hf0 hf1 t0 t1 tr.ref, hdec] at hpos
  exact ⟨tr', ac', lonS, hv, hwf', hg, hpos.1, hpos.2.1, hz, hlo, hhi, hpos.2.2⟩

/-! #### (c) the carried position is within half a quantisation step of the true position -/

/-- half a step of the 17-bit grid: `|rlat − lat| ≤ dlat/2^18`, `|rlon − lon| ≤ dlon/2^18`
    (any NL function, any `base > 0`; `dlat = base/(60 − i)`, `dlon = base/max(NL(rlat) − i, 1)`) -/
theorem carried_quantisation (nl : ℚ → ℕ) (base : ℚ) (hb : 0 < base) (i : ℕ) (hi : i = 0 ∨ i = 1)
    (lat lon : ℚ) (e : Spec.Enc) (he : e = Spec.cprEncode nl base i lat lon) :
    |e.rlat - lat| ≤ e.dlat / 2 ^ 18 ∧ |e.rlon - lon| ≤ e.dlon / 2 ^ 18 ∧
    e.dlat = base / (60 - (i : ℚ)) ∧ e.dlon = base / ((max (nl e.rlat - i) 1 : ℕ) : ℚ) :=
  ⟨Tracker.quant_lat nl base hb i hi lat lon e he, Tracker.quant_lon nl base hb i hi lat lon e he,
    by subst he; rfl, Tracker.dlon_eq' nl base i lat lon e he⟩

/-- airborne, in degrees: latitude error ≤ 360/59/2^18 (< 0.0000233°), longitude error ≤ 360/(ni·2^18) -/
theorem carried_quantisation_360 (nl : ℚ → ℕ) (i : ℕ) (hi : i = 0 ∨ i = 1) (lat lon : ℚ) (e : Spec.Enc)
    (he : e = Spec.cprEncode nl 360 i lat lon) :
    |e.rlat - lat| ≤ 360 / 59 / 2 ^ 18 ∧
    |e.rlon - lon| ≤ 360 / ((max (nl e.rlat - i) 1 : ℕ) : ℚ) / 2 ^ 18 ∧
    (360 : ℚ) / 59 / 2 ^ 18 < 233 / 10000000 :=
  ⟨Tracker.quant_lat_360 nl i hi lat lon e he, Tracker.quant_lon_360 nl i hi lat lon e he, by norm_num⟩

/-- **carried_within_0_001** (airborne, base 360): with at least two longitude zones (`ni ≥ 2`,
    i.e. everywhere except within 3° of the poles, where one step is 360/2^18 = 0.00137°) the
    carried position is within 0.001° of the true one in both coordinates -/
theorem carried_within_0_001 (nl : ℚ → ℕ) (i : ℕ) (hi : i = 0 ∨ i = 1) (lat lon : ℚ)
    (e : Spec.Enc) (he : e = Spec.cprEncode nl 360 i lat lon)
    (hni : 2 ≤ max (nl e.rlat - i) 1) :
    |e.rlon - lon| < 1 / 1000 ∧ |e.rlat - lat| < 1 / 1000 :=
  Tracker.carried_within_0_001 nl i hi lat lon e he hni

/-- surface (base 90): unconditionally -/
theorem carried_within_0_001_surface (nl : ℚ → ℕ) (i : ℕ) (hi : i = 0 ∨ i = 1) (lat lon : ℚ)
    (e : Spec.Enc) (he : e = Spec.cprEncode nl 90 i lat lon) :
    |e.rlon - lon| < 1 / 1000 ∧ |e.rlat - lat| < 1 / 1000 :=
  Tracker.carried_within_0_001_surface nl i hi lat lon e he

/-- the `ni ≥ 2` hypothesis cannot be dropped: at latitude 88° the longitude 0.00137° is carried as 0 -/
theorem carried_within_0_001_sharp :
    max (cprNL (Spec.cprEncode cprNL 360 0 88 (137 / 100000)).rlat - 0) 1 = 1 ∧
    (Spec.cprEncode cprNL 360 0 88 (137 / 100000)).rlon = 0 ∧
    ¬ |(Spec.cprEncode cprNL 360 0 88 (137 / 100000)).rlon - 137 / 100000| < 1 / 1000 :=
  ⟨Tracker.carried_within_0_001_sharp.1, Tracker.carried_within_0_001_sharp.2.2.1,
    Tracker.carried_within_0_001_sharp.2.2.2⟩

/-- **stored_within_0_001_partial** — (a) and (c) chained, airborne reference branch, reference in
    the box of the carried position itself (`s = 0`) and `ni ≥ 2`: the latitude/longitude the table
    stores after the update is within 0.001° of the aircraft's true position `(lat, lon)`.
    (Partial: the box hypotheses `hlat`, `hlon` stand for the missing geometric step, see the
    section header.) -/
theorem stored_within_0_001_partial (tr : Tracker) (hwf : TrackerWF tr) (t : Rat) (m : Msg)
    (hlen : m.length = 28) (hdf : df m = 17 ∨ df m = 18) (tc : Nat)
    (htc : typecode m = some tc) (hair : 9 ≤ tc ∧ tc ≤ 18)
    (i : ℕ) (hi : i = 0 ∨ i = 1) (lat lon : ℚ) (e : Spec.Enc) (he : e = Spec.cprEncode cprNL 360 i lat lon)
    (hf : cprFields (hex2binM m) = .val ⟨decide (i = 1), e.yz, e.xz⟩)
    (hni : 2 ≤ max (cprNL e.rlat - i) 1)
    (ac0 : Ac) (hget : acsGet tr.acs (keyOf m) = some ac0)
    (tp la lo : ℚ) (htp : ac0.tpos = some tp) (hrecent : t - tp < 180)
    (hla : ac0.lat = some la) (hlo : ac0.lon = some lo)
    (hlat : |la - e.rlat| < e.dlat / 2) (hlon : |lo - e.rlon| < e.dlon / 2) :
    ∃ tr' ac' x y, adsbStep tr t m = .val tr' ∧ acsGet tr'.acs (keyOf m) = some ac' ∧
      ac'.lat = some x ∧ ac'.lon = some y ∧ ac'.tpos = some t ∧
      |x - lat| < 1 / 1000 ∧ |y - lon| < 1 / 1000 := by
  obtain ⟨tr', ac', hv, _, hg, h1, h2, h3, _⟩ := position_invariant_partial tr hwf t m hlen hdf tc htc hair
    i hi lat lon e he hf ac0 hget tp la lo htp hrecent hla hlo 0 hlat (by simpa using hlon)
  obtain ⟨q1, q2⟩ := carried_within_0_001 cprNL i hi lat lon e he hni
  exact ⟨tr', ac', e.rlat, e.rlon, hv, hg, h1, by simpa using h2, h3, q2, q1⟩

/-- observations used in the examples: `(key, lat, lon, tpos)` of every record; the CPR fields of a frame -/
def posList (r : Res Tracker) : Option (List (Msg × Option Rat × Option Rat × Option Rat)) :=
  match r with
  | .val tr => some (tr.acs.map fun p => (p.1, p.2.lat, p.2.lon, p.2.tpos))
  | _ => none
def cprTriple (r : Res CprFrame) : Option (Bool × Nat × Nat) :=
  match r with
  | .val f => some (f.oe, f.lat, f.lon)
  | _ => none

/-- the pyModeS test pair (even / odd airborne position of 40621D, TC 11) -/
def exEven : Msg := "8D40621D58C382D690C8AC2863A7".toList
def exOdd : Msg := "8D40621D58C386435CC412692AD6".toList

/-- hypotheses of `position_pair_global_partial` and of `position_invariant_partial` /
    `stored_within_0_001_partial` are met by the history even@0, odd@1, even@3: the frames carry
    the encodings `e0`, `e1`; the pair (odd newer) stores `e1`'s carried position at t = 1; the third
    message finds it 2 s old and inside the half-zone box of `e0`'s carried position -/
example :
    let e0 := Spec.cprEncode cprNL 360 0 (522572 / 10000) (391937 / 100000)
    let e1 := Spec.cprEncode cprNL 360 1 (25261515 / 483328) (225873 / 57344)
    exEven.length = 28 ∧ df exEven = 17 ∧ typecode exEven = some 11 ∧ typecode exOdd = some 11 ∧
    cprTriple (cprFields (hex2binM exEven)) = some (decide (0 = 1), e0.yz, e0.xz) ∧
    cprTriple (cprFields (hex2binM exOdd)) = some (true, e1.yz, e1.xz) ∧
    (e1.rlat, e1.rlon) = (25261515 / 483328, 225873 / 57344) ∧
    (-90 ≤ e0.rlat ∧ e0.rlat ≤ 90) ∧ (-90 ≤ e1.rlat ∧ e1.rlat ≤ 90) ∧ |e0.rlat - e1.rlat| < 3 / 59 ∧
    cprNL e0.rlat = cprNL e1.rlat ∧
    |e0.rlon - e1.rlon - 360 * (0 : ℤ)| < 180 / ((cprNL e0.rlat : ℚ) * ((cprNL e0.rlat : ℚ) - 1)) ∧
    rabs ((0 : ℚ) - 1) < 10 ∧
    2 ≤ max (cprNL e0.rlat - 0) 1 ∧ (3 : ℚ) - 1 < 180 ∧
    |(25261515 / 483328 : ℚ) - e0.rlat| < e0.dlat / 2 ∧ |(225873 / 57344 : ℚ) - e0.rlon| < e0.dlon / 2 := by
  decide +kernel
/-- … and the model stores exactly the carried positions: `e1`'s after the pair, `e0`'s after the
    reference update (within 0.001° of the true 52.2572, 3.91937) -/
example :
    posList (foldRes (fun tr p => adsbStep tr p.1 p.2) {} [((0 : Rat), exEven), (1, exOdd)])
      = some [("40621D".toList, some (Spec.cprEncode cprNL 360 1 (25261515 / 483328) (225873 / 57344)).rlat,
          some (Spec.cprEncode cprNL 360 1 (25261515 / 483328) (225873 / 57344)).rlon, some 1)] := by
  decide +kernel
example :
    posList (foldRes (fun tr p => adsbStep tr p.1 p.2) {} [((0 : Rat), exEven), (1, exOdd), (3, exEven)])
      = some [("40621D".toList, some (Spec.cprEncode cprNL 360 0 (522572 / 10000) (391937 / 100000)).rlat,
          some (Spec.cprEncode cprNL 360 0 (522572 / 10000) (391937 / 100000)).rlon, some 3)] := by
  decide +kernel
example :
    let e0 := Spec.cprEncode cprNL 360 0 (522572 / 10000) (391937 / 100000)
    |e0.rlat - 522572 / 10000| < 1 / 1000 ∧ |e0.rlon - 391937 / 100000| < 1 / 1000 := by decide +kernel

/-! ### Concrete histories (the hypotheses above are satisfiable, and the conclusions are what
    the model computes): two ADS-B senders 406B90 and 400940, one Comm-B reply from 400940 -/

/-- observation used in the examples: the listed keys with their `live` stamps -/
def liveList (r : Res Tracker) : Option (List (Msg × Int)) :=
  match r with
  | .val tr => some (tr.acs.map fun p => (p.1, p.2.live))
  | _ => none

example : keyOf exAdsb = "406B90".toList ∧ keyOf exAdsb2 = "400940".toList ∧ keyOf exCommb = "400940".toList ∧
    (∀ c ∈ exAdsb ++ exAdsb2 ++ exCommb, (hexVal? c).isSome) ∧
    df exAdsb = 17 ∧ df exAdsb2 = 17 ∧ df exCommb = 20 := by decide +kernel

/-- hypotheses of `listed_if_recent` / `live_monotone` / `listed_if_recent_commb`: sorted batch, heard ≤ 59 s ago -/
example : [((1000 : Rat), exAdsb), (1002, exAdsb2)].Pairwise (fun p q => p.1 ≤ q.1) ∧
    ((1000 : Rat), exAdsb) ∈ [((1000 : Rat), exAdsb), (1002, exAdsb2)] ∧ (1050 : Rat) - 1000 ≤ 59 ∧
    (1062 : Rat) - 2007 / 2 ≤ 59 := by decide +kernel
/-- … and the call returns: both listed at 1050; at 1062 only 400940 (last heard by Comm-B at 1003.5) -/
example :
    liveList (processRaw (fun _ _ => 0) {} [(1000, exAdsb), (1002, exAdsb2)] [(2007 / 2, exCommb)] 1050)
      = some [("406B90".toList, 1000), ("400940".toList, 1003)] ∧
    liveList (processRaw (fun _ _ => 0) {} [(1000, exAdsb), (1002, exAdsb2)] [(2007 / 2, exCommb)] 1062)
      = some [("400940".toList, 1003)] := by decide +kernel
/-- Comm-B gating: the reply alone creates no entry; an OLDER reply does not move `live` backwards -/
example :
    liveList (processRaw (fun _ _ => 0) {} [] [(1003, exCommb)] 1004) = some [] ∧
    liveList (processRaw (fun _ _ => 0) {} [(1000, exAdsb)] [(1003, exCommb)] 1004)
      = some [("406B90".toList, 1000)] ∧
    liveList (processRaw (fun _ _ => 0) {} [(1002, exAdsb2)] [(990, exCommb)] 1004)
      = some [("400940".toList, 1002)] := by decide +kernel
/-- `absent_after_61` over two calls: 406B90 heard at 1000 only, second call at 1062 (> 61 s later) -/
example :
    liveList (do
      let tr1 ← processRaw (fun _ _ => 0) {} [(1000, exAdsb)] [] 1001
      processRaw (fun _ _ => 0) tr1 [(1002, exAdsb2)] [] 1062) = some [("400940".toList, 1002)] ∧
    (1062 : Rat) - 1000 > 61 := by decide +kernel
/-- letter case: the lower-cased history gives the same table -/
example :
    liveList (processRaw (fun _ _ => 0) {} [(1000, exAdsb.map Char.toLower), (1002, exAdsb2.map Char.toLower)]
      [(2007 / 2, exCommb.map Char.toLower)] 1050)
      = some [("406B90".toList, 1000), ("400940".toList, 1003)] := by decide +kernel

end PyModeS.C17
