/-
  C17 — Live aircraft table: robust, correct positions, bounded staleness.
-/
import PyModeS.Model.Tracker
namespace PyModeS.C17

/-- after a call, every listed aircraft was heard at most `cache_timeout` (+ the truncation of `int(t)`) ago:
    nothing older than `tnow - live > 60` survives the clean-up -/
theorem stale_removed (ias : Rat → Int → Rat) (tr tr' : Tracker) (adsb commb : List (Rat × Msg)) (tnow : Rat)
    (h : processRaw ias tr adsb commb tnow = .val tr') :
    ∀ p ∈ tr'.acs, ¬ (tnow - (p.2.live : Rat) > (Tables.cacheTimeout : Rat)) := by
  unfold processRaw at h
  cases h1 : foldRes (fun tr p => adsbStep tr p.1 p.2) tr adsb with
  | rte => rw [h1] at h; simp at h
  | exc => rw [h1] at h; simp at h
  | val a =>
    rw [h1] at h
    simp only [Res.bind_val] at h
    cases h2 : foldRes (fun tr p => commbStep ias tr p.1 p.2) a commb with
    | rte => rw [h2] at h; simp at h
    | exc => rw [h2] at h; simp at h
    | val b =>
      rw [h2] at h
      simp only [Res.bind_val, Res.pure_eq, Res.val.injEq] at h
      subst h
      intro p hp
      simp only [List.mem_filter] at hp
      simpa using hp.2

end PyModeS.C17
