/-
  C11 — Comm-B register fields decode to the encoded engineering values (Doc 9871 rows).
-/
import PyModeS.Proofs.Bits
import PyModeS.Model.Commb
import PyModeS.Proofs.Commb.Fields
namespace PyModeS.C11

/-- Generic unsigned row: status bit `sb`, field `d[a:b]`; result depends on those bits only. -/
theorem ufield_spec (d : Bits) (sb a b : Nat) (scale off : Rat) (hsb : sb < d.length) (hab : a < b) (hb : b ≤ d.length) :
    ufield d sb a b scale off =
      .val (if d[sb] = false then none else some ((bin2int (slice a b d) : Rat) * scale + off)) := by
  unfold ufield
  have l : 0 < (slice a b d).length := by rw [slice_length_of_le hb]; omega
  rw [idxR_eq hsb]
  simp only [Res.bind_val]
  cases hs : d[sb]
  · simp
  · simp [bin2intR_of_length l]

/-- Generic two's-complement row: status `sb`, sign `sg`, magnitude `d[a:b]` (`v − 2^(b−a)` when the sign is set). -/
theorem sfield_spec (d : Bits) (sb sg a b : Nat) (scale : Rat) (hsb : sb < d.length) (hsg : sg < d.length)
    (hab : a < b) (hb : b ≤ d.length) :
    sfield d sb sg a b scale =
      .val (if d[sb] = false then none else
        some ((((if d[sg] then (bin2int (slice a b d) : Int) - (2 ^ (b - a) : Nat) else (bin2int (slice a b d) : Int)) : Int) : Rat) * scale)) := by
  unfold sfield
  have l : 0 < (slice a b d).length := by rw [slice_length_of_le hb]; omega
  rw [idxR_eq hsb]
  simp only [Res.bind_val]
  cases hs : d[sb]
  · simp
  · simp [idxR_eq hsg, bin2intR_of_length l]

/-- round trip of the generic row through `natToBits` -/
theorem ufield_roundtrip (pre post : Bits) (w v : Nat) (hw : 0 < w) (hv : v < 2 ^ w) (st : Bool) (mid : Bits)
    (scale off : Rat) :
    ufield (pre ++ [st] ++ mid ++ natToBits w v ++ post) pre.length (pre.length + 1 + mid.length)
      (pre.length + 1 + mid.length + w) scale off = .val (if st = false then none else some ((v : Rat) * scale + off)) := by
  have hlen : (pre ++ [st] ++ mid ++ natToBits w v ++ post).length = pre.length + 1 + mid.length + w + post.length := by
    simp; omega
  rw [ufield_spec _ _ _ _ _ _ (by rw [hlen]; omega) (by omega) (by rw [hlen]; omega)]
  have h1 : (pre ++ [st] ++ mid ++ natToBits w v ++ post)[pre.length]'(by rw [hlen]; omega) = st := by
    simp [List.getElem_append_right]
  have h2 : slice (pre.length + 1 + mid.length) (pre.length + 1 + mid.length + w)
      (pre ++ [st] ++ mid ++ natToBits w v ++ post) = natToBits w v := by
    have := slice_append_mid (pre ++ [st] ++ mid) (natToBits w v) post
    have e : (pre ++ [st] ++ mid).length = pre.length + 1 + mid.length := by simp; omega
    rw [e, natToBits_length] at this
    exact this
  rw [h1, h2, bin2int_natToBits_of_lt hv]

end PyModeS.C11

/-! ## The Doc 9871 row table and the generic decoding (appended) -/
namespace PyModeS.C11
open PyModeS.Tot

/-- MB bit `k`, numbered 1..56 as in ICAO Doc 9871 -/
def mbBit (d : Bits) (k : Nat) : Bool := d.getD (k - 1) false

/-- unsigned value of MB bits `msb..lsb` (1-based, inclusive, MSB first) -/
def mbField (d : Bits) (msb lsb : Nat) : Nat := bin2int (slice (msb - 1) lsb d)

/-- One row of a Doc 9871 register layout: status bit, optional sign bit, value bits `msb..lsb`
    (1-based MB bit numbers, inclusive), LSB weight, offset, and whether a negative angle is
    reported in `[0, 360)`. -/
structure Row where
  status : Nat
  sign : Option Nat
  msb : Nat
  lsb : Nat
  scale : Rat
  offset : Rat
  wrap : Bool

/-- number of value bits (excluding the sign bit) -/
def Row.width (r : Row) : Nat := r.lsb - r.msb + 1

/-- Generic Doc 9871 decoding of a status-gated field of the 56-bit MB field `d`: `None` when the
    status bit is clear; otherwise the (two's-complement, when there is a sign bit: `v − 2^n` if
    the sign bit is set) field value × LSB + offset, with 360 added to a negative wrapped angle. -/
def decodeRow (r : Row) (d : Bits) : Option Rat :=
  if mbBit d r.status = false then none else
    let raw : Int := (mbField d r.msb r.lsb : Int)
    let v : Int := match r.sign with
      | some s => if mbBit d s then raw - ((2 ^ r.width : Nat) : Int) else raw
      | none => raw
    let x : Rat := (v : Rat) * r.scale + r.offset
    some (if r.wrap = true ∧ x < 0 then x + 360 else x)

/-- BDS 4,0 MCP/FCU selected altitude (ft) -/
def rSelalt40mcp : Row := ⟨1, none, 2, 13, 16, 0, false⟩
/-- BDS 4,0 FMS selected altitude (ft) -/
def rSelalt40fms : Row := ⟨14, none, 15, 26, 16, 0, false⟩
/-- BDS 4,0 barometric pressure setting (mb), 0.1 mb + 800 -/
def rP40baro : Row := ⟨27, none, 28, 39, ((1 : Rat) / 10), 800, false⟩
/-- BDS 4,4 average static pressure (hPa) -/
def rP44 : Row := ⟨35, none, 36, 46, 1, 0, false⟩
/-- BDS 4,4 humidity (%) -/
def rHum44 : Row := ⟨50, none, 51, 56, ((100 : Rat) / 64), 0, false⟩
/-- BDS 4,4 turbulence -/
def rTurb44 : Row := ⟨47, none, 48, 49, 1, 0, false⟩
/-- BDS 4,5 turbulence -/
def rTurb45 : Row := ⟨1, none, 2, 3, 1, 0, false⟩
/-- BDS 4,5 wind shear -/
def rWs45 : Row := ⟨4, none, 5, 6, 1, 0, false⟩
/-- BDS 4,5 microburst -/
def rMb45 : Row := ⟨7, none, 8, 9, 1, 0, false⟩
/-- BDS 4,5 icing -/
def rIc45 : Row := ⟨10, none, 11, 12, 1, 0, false⟩
/-- BDS 4,5 wake vortex -/
def rWv45 : Row := ⟨13, none, 14, 15, 1, 0, false⟩
/-- BDS 4,5 average static pressure (hPa) -/
def rP45 : Row := ⟨27, none, 28, 38, 1, 0, false⟩
/-- BDS 4,5 radio height (ft) -/
def rRh45 : Row := ⟨39, none, 40, 51, 16, 0, false⟩
/-- BDS 5,0 roll angle (deg) -/
def rRoll50 : Row := ⟨1, (some 2), 3, 11, ((45 : Rat) / 256), 0, false⟩
/-- BDS 5,0 true track angle (deg) -/
def rTrk50 : Row := ⟨12, (some 13), 14, 23, ((90 : Rat) / 512), 0, true⟩
/-- BDS 5,0 ground speed (kt) -/
def rGs50 : Row := ⟨24, none, 25, 34, 2, 0, false⟩
/-- BDS 5,0 track angle rate (deg/s) -/
def rRtrk50 : Row := ⟨35, (some 36), 37, 45, ((8 : Rat) / 256), 0, false⟩
/-- BDS 5,0 true airspeed (kt) -/
def rTas50 : Row := ⟨46, none, 47, 56, 2, 0, false⟩
/-- BDS 5,3 magnetic heading (deg) -/
def rHdg53 : Row := ⟨1, (some 2), 3, 12, ((90 : Rat) / 512), 0, true⟩
/-- BDS 5,3 indicated airspeed (kt) -/
def rIas53 : Row := ⟨13, none, 14, 23, 1, 0, false⟩
/-- BDS 5,3 Mach number, 0.008 -/
def rMach53 : Row := ⟨24, none, 25, 33, ((8 : Rat) / 1000), 0, false⟩
/-- BDS 5,3 true airspeed (kt), 0.5 -/
def rTas53 : Row := ⟨34, none, 35, 46, ((1 : Rat) / 2), 0, false⟩
/-- BDS 5,3 vertical rate (ft/min) -/
def rVr53 : Row := ⟨47, (some 48), 49, 56, 64, 0, false⟩
/-- BDS 6,0 magnetic heading (deg) -/
def rHdg60 : Row := ⟨1, (some 2), 3, 12, ((90 : Rat) / 512), 0, true⟩
/-- BDS 6,0 indicated airspeed (kt) -/
def rIas60 : Row := ⟨13, none, 14, 23, 1, 0, false⟩
/-- BDS 6,0 Mach number, 2.048/512 -/
def rMach60 : Row := ⟨24, none, 25, 34, ((2048 : Rat) / 1000 / 512), 0, false⟩
/-- BDS 6,0 barometric altitude rate (ft/min) -/
def rVr60baro : Row := ⟨35, (some 36), 37, 45, 32, 0, false⟩
/-- BDS 6,0 inertial vertical velocity (ft/min) -/
def rVr60ins : Row := ⟨46, (some 47), 48, 56, 32, 0, false⟩

/-- the 28 status-gated Comm-B field decoders and their Doc 9871 rows -/
def rows : List (String × Row) := [
  ("selalt40mcp", rSelalt40mcp),
  ("selalt40fms", rSelalt40fms),
  ("p40baro", rP40baro),
  ("p44", rP44),
  ("hum44", rHum44),
  ("turb44", rTurb44),
  ("turb45", rTurb45),
  ("ws45", rWs45),
  ("mb45", rMb45),
  ("ic45", rIc45),
  ("wv45", rWv45),
  ("p45", rP45),
  ("rh45", rRh45),
  ("roll50", rRoll50),
  ("trk50", rTrk50),
  ("gs50", rGs50),
  ("rtrk50", rRtrk50),
  ("tas50", rTas50),
  ("hdg53", rHdg53),
  ("ias53", rIas53),
  ("mach53", rMach53),
  ("tas53", rTas53),
  ("vr53", rVr53),
  ("hdg60", rHdg60),
  ("ias60", rIas60),
  ("mach60", rMach60),
  ("vr60baro", rVr60baro),
  ("vr60ins", rVr60ins)]

/-- the model decoder of each row name -/
def decoderOf (name : String) (bits : Bits) : Res (Option Rat) :=
  if name = "selalt40mcp" then selalt40mcp bits
  else if name = "selalt40fms" then selalt40fms bits
  else if name = "p40baro" then p40baro bits
  else if name = "p44" then p44 bits
  else if name = "hum44" then hum44 bits
  else if name = "turb44" then turb44 bits
  else if name = "turb45" then turb45 bits
  else if name = "ws45" then ws45 bits
  else if name = "mb45" then mb45 bits
  else if name = "ic45" then ic45 bits
  else if name = "wv45" then wv45 bits
  else if name = "p45" then p45 bits
  else if name = "rh45" then rh45 bits
  else if name = "roll50" then roll50 bits
  else if name = "trk50" then trk50 bits
  else if name = "gs50" then gs50 bits
  else if name = "rtrk50" then rtrk50 bits
  else if name = "tas50" then tas50 bits
  else if name = "hdg53" then hdg53 bits
  else if name = "ias53" then ias53 bits
  else if name = "mach53" then mach53 bits
  else if name = "tas53" then tas53 bits
  else if name = "vr53" then vr53 bits
  else if name = "hdg60" then hdg60 bits
  else if name = "ias60" then ias60 bits
  else if name = "mach60" then mach60 bits
  else if name = "vr60baro" then vr60baro bits
  else if name = "vr60ins" then vr60ins bits
  else .exc


/-- unsigned rows: `ufield` on a 56-bit MB field is `decodeRow` -/
theorem ufield_row (r : Row) (d : Bits) (hd : d.length = 56) (hs : r.sign = none) (hw : r.wrap = false)
    (h1 : 1 ≤ r.status) (h2 : r.status ≤ 56) (h3 : 1 ≤ r.msb) (h4 : r.msb ≤ r.lsb) (h5 : r.lsb ≤ 56) :
    ufield d (r.status - 1) (r.msb - 1) r.lsb r.scale r.offset = .val (decodeRow r d) := by
  rw [ufield_val d hd _ _ _ _ _ (by omega) (by omega) h5]
  unfold decodeRow mbBit mbField
  simp only [hs, hw]
  split <;> simp [Rat.intCast_natCast]

/-- signed rows without wrap: `sfield` on a 56-bit MB field is `decodeRow` -/
theorem sfield_row (r : Row) (d : Bits) (hd : d.length = 56) (s : Nat) (hs : r.sign = some s)
    (hw : r.wrap = false) (ho : r.offset = 0)
    (h1 : 1 ≤ r.status) (h2 : r.status ≤ 56) (h6 : 1 ≤ s) (h7 : s ≤ 56)
    (h3 : 1 ≤ r.msb) (h4 : r.msb ≤ r.lsb) (h5 : r.lsb ≤ 56) :
    sfield d (r.status - 1) (s - 1) (r.msb - 1) r.lsb r.scale = .val (decodeRow r d) := by
  rw [sfield_val d hd _ _ _ _ _ (by omega) (by omega) (by omega) h5]
  unfold decodeRow mbBit mbField Row.width
  have e : r.lsb - (r.msb - 1) = r.lsb - r.msb + 1 := by omega
  simp only [hs, hw, ho, e, Rat.add_zero]
  split <;> simp

/-- signed rows with wrap: `wrap360 ∘ sfield` is `decodeRow` -/
theorem sfield_row_wrap (r : Row) (d : Bits) (hd : d.length = 56) (s : Nat) (hs : r.sign = some s)
    (hw : r.wrap = true) (ho : r.offset = 0)
    (h1 : 1 ≤ r.status) (h2 : r.status ≤ 56) (h6 : 1 ≤ s) (h7 : s ≤ 56)
    (h3 : 1 ≤ r.msb) (h4 : r.msb ≤ r.lsb) (h5 : r.lsb ≤ 56) :
    (do pure (wrap360 (← sfield d (r.status - 1) (s - 1) (r.msb - 1) r.lsb r.scale)) : Res (Option Rat)) =
      .val (decodeRow r d) := by
  rw [sfield_val d hd _ _ _ _ _ (by omega) (by omega) (by omega) h5]
  unfold decodeRow mbBit mbField Row.width wrap360
  have e : r.lsb - (r.msb - 1) = r.lsb - r.msb + 1 := by omega
  simp only [hs, hw, ho, e, Rat.add_zero, Res.bind_val, Res.pure_eq]
  split
  · simp
  · simp only [Option.map_some, true_and, Rat.add_comm 360]

theorem selalt40mcp_row (bits : Bits) (h : bits.length = 112) :
    selalt40mcp bits = .val (decodeRow rSelalt40mcp (slice 32 88 bits)) := by
  unfold selalt40mcp
  rw [dataR_112 bits h]
  simp only [Res.bind_val]
  exact ufield_row rSelalt40mcp _ (slice_32_88_length h) rfl rfl (by decide) (by decide) (by decide) (by decide) (by decide)

theorem selalt40fms_row (bits : Bits) (h : bits.length = 112) :
    selalt40fms bits = .val (decodeRow rSelalt40fms (slice 32 88 bits)) := by
  unfold selalt40fms
  rw [dataR_112 bits h]
  simp only [Res.bind_val]
  exact ufield_row rSelalt40fms _ (slice_32_88_length h) rfl rfl (by decide) (by decide) (by decide) (by decide) (by decide)

theorem p40baro_row (bits : Bits) (h : bits.length = 112) :
    p40baro bits = .val (decodeRow rP40baro (slice 32 88 bits)) := by
  unfold p40baro
  rw [dataR_112 bits h]
  simp only [Res.bind_val]
  exact ufield_row rP40baro _ (slice_32_88_length h) rfl rfl (by decide) (by decide) (by decide) (by decide) (by decide)

theorem p44_row (bits : Bits) (h : bits.length = 112) :
    p44 bits = .val (decodeRow rP44 (slice 32 88 bits)) := by
  unfold p44
  rw [dataR_112 bits h]
  simp only [Res.bind_val]
  exact ufield_row rP44 _ (slice_32_88_length h) rfl rfl (by decide) (by decide) (by decide) (by decide) (by decide)

theorem hum44_row (bits : Bits) (h : bits.length = 112) :
    hum44 bits = .val (decodeRow rHum44 (slice 32 88 bits)) := by
  unfold hum44
  rw [dataR_112 bits h]
  simp only [Res.bind_val]
  exact ufield_row rHum44 _ (slice_32_88_length h) rfl rfl (by decide) (by decide) (by decide) (by decide) (by decide)

theorem turb44_row (bits : Bits) (h : bits.length = 112) :
    turb44 bits = .val (decodeRow rTurb44 (slice 32 88 bits)) := by
  unfold turb44
  rw [dataR_112 bits h]
  simp only [Res.bind_val]
  exact ufield_row rTurb44 _ (slice_32_88_length h) rfl rfl (by decide) (by decide) (by decide) (by decide) (by decide)

theorem turb45_row (bits : Bits) (h : bits.length = 112) :
    turb45 bits = .val (decodeRow rTurb45 (slice 32 88 bits)) := by
  unfold turb45
  rw [dataR_112 bits h]
  simp only [Res.bind_val]
  exact ufield_row rTurb45 _ (slice_32_88_length h) rfl rfl (by decide) (by decide) (by decide) (by decide) (by decide)

theorem ws45_row (bits : Bits) (h : bits.length = 112) :
    ws45 bits = .val (decodeRow rWs45 (slice 32 88 bits)) := by
  unfold ws45
  rw [dataR_112 bits h]
  simp only [Res.bind_val]
  exact ufield_row rWs45 _ (slice_32_88_length h) rfl rfl (by decide) (by decide) (by decide) (by decide) (by decide)

theorem mb45_row (bits : Bits) (h : bits.length = 112) :
    mb45 bits = .val (decodeRow rMb45 (slice 32 88 bits)) := by
  unfold mb45
  rw [dataR_112 bits h]
  simp only [Res.bind_val]
  exact ufield_row rMb45 _ (slice_32_88_length h) rfl rfl (by decide) (by decide) (by decide) (by decide) (by decide)

theorem ic45_row (bits : Bits) (h : bits.length = 112) :
    ic45 bits = .val (decodeRow rIc45 (slice 32 88 bits)) := by
  unfold ic45
  rw [dataR_112 bits h]
  simp only [Res.bind_val]
  exact ufield_row rIc45 _ (slice_32_88_length h) rfl rfl (by decide) (by decide) (by decide) (by decide) (by decide)

theorem wv45_row (bits : Bits) (h : bits.length = 112) :
    wv45 bits = .val (decodeRow rWv45 (slice 32 88 bits)) := by
  unfold wv45
  rw [dataR_112 bits h]
  simp only [Res.bind_val]
  exact ufield_row rWv45 _ (slice_32_88_length h) rfl rfl (by decide) (by decide) (by decide) (by decide) (by decide)

theorem p45_row (bits : Bits) (h : bits.length = 112) :
    p45 bits = .val (decodeRow rP45 (slice 32 88 bits)) := by
  unfold p45
  rw [dataR_112 bits h]
  simp only [Res.bind_val]
  exact ufield_row rP45 _ (slice_32_88_length h) rfl rfl (by decide) (by decide) (by decide) (by decide) (by decide)

theorem rh45_row (bits : Bits) (h : bits.length = 112) :
    rh45 bits = .val (decodeRow rRh45 (slice 32 88 bits)) := by
  unfold rh45
  rw [dataR_112 bits h]
  simp only [Res.bind_val]
  exact ufield_row rRh45 _ (slice_32_88_length h) rfl rfl (by decide) (by decide) (by decide) (by decide) (by decide)

theorem roll50_row (bits : Bits) (h : bits.length = 112) :
    roll50 bits = .val (decodeRow rRoll50 (slice 32 88 bits)) := by
  unfold roll50
  rw [dataR_112 bits h]
  simp only [Res.bind_val]
  exact sfield_row rRoll50 _ (slice_32_88_length h) 2 rfl rfl rfl (by decide) (by decide) (by decide) (by decide) (by decide) (by decide) (by decide)

theorem trk50_row (bits : Bits) (h : bits.length = 112) :
    trk50 bits = .val (decodeRow rTrk50 (slice 32 88 bits)) := by
  unfold trk50
  rw [dataR_112 bits h]
  simp only [Res.bind_val]
  exact sfield_row_wrap rTrk50 _ (slice_32_88_length h) 13 rfl rfl rfl (by decide) (by decide) (by decide) (by decide) (by decide) (by decide) (by decide)

theorem gs50_row (bits : Bits) (h : bits.length = 112) :
    gs50 bits = .val (decodeRow rGs50 (slice 32 88 bits)) := by
  unfold gs50
  rw [dataR_112 bits h]
  simp only [Res.bind_val]
  exact ufield_row rGs50 _ (slice_32_88_length h) rfl rfl (by decide) (by decide) (by decide) (by decide) (by decide)

theorem rtrk50_row (bits : Bits) (h : bits.length = 112) :
    rtrk50 bits = .val (decodeRow rRtrk50 (slice 32 88 bits)) := by
  unfold rtrk50
  rw [dataR_112 bits h]
  simp only [Res.bind_val]
  exact sfield_row rRtrk50 _ (slice_32_88_length h) 36 rfl rfl rfl (by decide) (by decide) (by decide) (by decide) (by decide) (by decide) (by decide)

theorem tas50_row (bits : Bits) (h : bits.length = 112) :
    tas50 bits = .val (decodeRow rTas50 (slice 32 88 bits)) := by
  unfold tas50
  rw [dataR_112 bits h]
  simp only [Res.bind_val]
  exact ufield_row rTas50 _ (slice_32_88_length h) rfl rfl (by decide) (by decide) (by decide) (by decide) (by decide)

theorem hdg53_row (bits : Bits) (h : bits.length = 112) :
    hdg53 bits = .val (decodeRow rHdg53 (slice 32 88 bits)) := by
  unfold hdg53
  rw [dataR_112 bits h]
  simp only [Res.bind_val]
  exact sfield_row_wrap rHdg53 _ (slice_32_88_length h) 2 rfl rfl rfl (by decide) (by decide) (by decide) (by decide) (by decide) (by decide) (by decide)

theorem ias53_row (bits : Bits) (h : bits.length = 112) :
    ias53 bits = .val (decodeRow rIas53 (slice 32 88 bits)) := by
  unfold ias53
  rw [dataR_112 bits h]
  simp only [Res.bind_val]
  exact ufield_row rIas53 _ (slice_32_88_length h) rfl rfl (by decide) (by decide) (by decide) (by decide) (by decide)

theorem mach53_row (bits : Bits) (h : bits.length = 112) :
    mach53 bits = .val (decodeRow rMach53 (slice 32 88 bits)) := by
  unfold mach53
  rw [dataR_112 bits h]
  simp only [Res.bind_val]
  exact ufield_row rMach53 _ (slice_32_88_length h) rfl rfl (by decide) (by decide) (by decide) (by decide) (by decide)

theorem tas53_row (bits : Bits) (h : bits.length = 112) :
    tas53 bits = .val (decodeRow rTas53 (slice 32 88 bits)) := by
  unfold tas53
  rw [dataR_112 bits h]
  simp only [Res.bind_val]
  exact ufield_row rTas53 _ (slice_32_88_length h) rfl rfl (by decide) (by decide) (by decide) (by decide) (by decide)

theorem vr53_row (bits : Bits) (h : bits.length = 112) :
    vr53 bits = .val (decodeRow rVr53 (slice 32 88 bits)) := by
  unfold vr53
  rw [dataR_112 bits h]
  simp only [Res.bind_val]
  exact sfield_row rVr53 _ (slice_32_88_length h) 48 rfl rfl rfl (by decide) (by decide) (by decide) (by decide) (by decide) (by decide) (by decide)

theorem hdg60_row (bits : Bits) (h : bits.length = 112) :
    hdg60 bits = .val (decodeRow rHdg60 (slice 32 88 bits)) := by
  unfold hdg60
  rw [dataR_112 bits h]
  simp only [Res.bind_val]
  exact sfield_row_wrap rHdg60 _ (slice_32_88_length h) 2 rfl rfl rfl (by decide) (by decide) (by decide) (by decide) (by decide) (by decide) (by decide)

theorem ias60_row (bits : Bits) (h : bits.length = 112) :
    ias60 bits = .val (decodeRow rIas60 (slice 32 88 bits)) := by
  unfold ias60
  rw [dataR_112 bits h]
  simp only [Res.bind_val]
  exact ufield_row rIas60 _ (slice_32_88_length h) rfl rfl (by decide) (by decide) (by decide) (by decide) (by decide)

theorem mach60_row (bits : Bits) (h : bits.length = 112) :
    mach60 bits = .val (decodeRow rMach60 (slice 32 88 bits)) := by
  unfold mach60
  rw [dataR_112 bits h]
  simp only [Res.bind_val]
  exact ufield_row rMach60 _ (slice_32_88_length h) rfl rfl (by decide) (by decide) (by decide) (by decide) (by decide)

theorem vr60baro_row (bits : Bits) (h : bits.length = 112) :
    vr60baro bits = .val (decodeRow rVr60baro (slice 32 88 bits)) := by
  unfold vr60baro
  rw [dataR_112 bits h]
  simp only [Res.bind_val]
  exact sfield_row rVr60baro _ (slice_32_88_length h) 36 rfl rfl rfl (by decide) (by decide) (by decide) (by decide) (by decide) (by decide) (by decide)

theorem vr60ins_row (bits : Bits) (h : bits.length = 112) :
    vr60ins bits = .val (decodeRow rVr60ins (slice 32 88 bits)) := by
  unfold vr60ins
  rw [dataR_112 bits h]
  simp only [Res.bind_val]
  exact sfield_row rVr60ins _ (slice_32_88_length h) 47 rfl rfl rfl (by decide) (by decide) (by decide) (by decide) (by decide) (by decide) (by decide)

theorem rows_length : rows.length = 28 := rfl

/-- **C11, table form.** On every 112-bit frame, each of the 28 status-gated Comm-B decoders returns
    exactly the generic Doc 9871 decoding of its row applied to the MB field (frame bits 33–88):
    the result is a value (never an exception), `None` exactly when the status bit is clear, and
    a function of the row's status/sign/value bits only. -/
theorem rows_decode : ∀ p ∈ rows, ∀ bits : Bits, bits.length = 112 →
    decoderOf p.1 bits = .val (decodeRow p.2 (slice 32 88 bits)) := by
  intro p hp bits h
  simp only [rows, List.mem_cons, List.not_mem_nil, or_false] at hp
  rcases hp with rfl | rfl | rfl | rfl | rfl | rfl | rfl | rfl | rfl | rfl | rfl | rfl | rfl | rfl |
    rfl | rfl | rfl | rfl | rfl | rfl | rfl | rfl | rfl | rfl | rfl | rfl | rfl | rfl
  all_goals simp only [decoderOf, String.reduceEq, if_true, if_false]
  · exact selalt40mcp_row bits h
  · exact selalt40fms_row bits h
  · exact p40baro_row bits h
  · exact p44_row bits h
  · exact hum44_row bits h
  · exact turb44_row bits h
  · exact turb45_row bits h
  · exact ws45_row bits h
  · exact mb45_row bits h
  · exact ic45_row bits h
  · exact wv45_row bits h
  · exact p45_row bits h
  · exact rh45_row bits h
  · exact roll50_row bits h
  · exact trk50_row bits h
  · exact gs50_row bits h
  · exact rtrk50_row bits h
  · exact tas50_row bits h
  · exact hdg53_row bits h
  · exact ias53_row bits h
  · exact mach53_row bits h
  · exact tas53_row bits h
  · exact vr53_row bits h
  · exact hdg60_row bits h
  · exact ias60_row bits h
  · exact mach60_row bits h
  · exact vr60baro_row bits h
  · exact vr60ins_row bits h

/-- the theorem is not vacuous: a concrete BDS 5,0 frame (status set, track field 0x155 with the sign
    bit set) -/
example : trk50 (natToBits 32 0 ++ natToBits 11 0 ++ [true, true] ++ natToBits 10 0x155 ++ natToBits 57 0)
    = .val (decodeRow rTrk50 (slice 32 88
        (natToBits 32 0 ++ natToBits 11 0 ++ [true, true] ++ natToBits 10 0x155 ++ natToBits 57 0))) :=
  trk50_row _ (by simp)

/-- **Independence.** `decodeRow` reads only the row's own status, sign and value bits: two MB fields
    that agree on those give the same result, whatever all the other bits are. -/
theorem decodeRow_congr (r : Row) (d d' : Bits) (hst : mbBit d r.status = mbBit d' r.status)
    (hsg : ∀ s, r.sign = some s → mbBit d s = mbBit d' s)
    (hv : slice (r.msb - 1) r.lsb d = slice (r.msb - 1) r.lsb d') : decodeRow r d = decodeRow r d' := by
  unfold decodeRow mbField
  rw [hst, hv]
  cases hs : r.sign with
  | none => rfl
  | some s => simp only []; rw [hsg s hs]

/-- frame-level form: a decoder's result is unchanged by any change of frame bits outside its row -/
theorem rows_independent : ∀ p ∈ rows, ∀ b b' : Bits, b.length = 112 → b'.length = 112 →
    mbBit (slice 32 88 b) p.2.status = mbBit (slice 32 88 b') p.2.status →
    (∀ s, p.2.sign = some s → mbBit (slice 32 88 b) s = mbBit (slice 32 88 b') s) →
    slice (p.2.msb - 1) p.2.lsb (slice 32 88 b) = slice (p.2.msb - 1) p.2.lsb (slice 32 88 b') →
    decoderOf p.1 b = decoderOf p.1 b' := by
  intro p hp b b' h h' h1 h2 h3
  rw [rows_decode p hp b h, rows_decode p hp b' h', decodeRow_congr p.2 _ _ h1 h2 h3]

/-! ### the LSB weights written as decimals in Doc 9871 -/
example : rP40baro.scale = 1 / 10 ∧ rMach53.scale = 1 / 125 ∧ rMach60.scale = 1 / 250 ∧ rTas53.scale = 1 / 2 ∧
    rHum44.scale = 25 / 16 ∧ rRoll50.scale = 45 / 256 ∧ rTrk50.scale = 45 / 256 ∧ rRtrk50.scale = 1 / 32 := by
  decide +kernel

/-! ## Encoder round trip -/

/-- Encoder: write the `width`-bit value `v`, the sign bit `sg` (when the row has one) and the status
    bit `st` into the MB field `d`; every other bit of `d` is left as it is. -/
def encodeRow (r : Row) (d : Bits) (st sg : Bool) (v : Nat) : Bits :=
  let d1 := setSlice d (r.msb - 1) (natToBits r.width v)
  let d2 := match r.sign with
    | some s => setSlice d1 (s - 1) [sg]
    | none => d1
  setSlice d2 (r.status - 1) [st]

/-- well-formedness of a row: `1 ≤ status < msb ≤ lsb ≤ 56`, and the sign bit (when present) is the
    bit just before `msb` and after the status bit -/
def Row.wf (r : Row) : Bool :=
  decide (1 ≤ r.status ∧ r.status < r.msb ∧ r.msb ≤ r.lsb ∧ r.lsb ≤ 56) &&
    (match r.sign with
     | some s => decide (s + 1 = r.msb ∧ r.status < s)
     | none => true)

/-- the engineering value encoded by sign `sg` and magnitude bits `v` -/
def rowValue (r : Row) (sg : Bool) (v : Nat) : Rat :=
  let n : Int := if r.sign.isSome = true ∧ sg = true then (v : Int) - ((2 ^ r.width : Nat) : Int) else (v : Int)
  let x : Rat := (n : Rat) * r.scale + r.offset
  if r.wrap = true ∧ x < 0 then x + 360 else x

/-- every row of the table is well-formed -/
example : rows.all (fun p => p.2.wf) = true := by decide

theorem mbBit_setSlice_single (d : Bits) (k : Nat) (b : Bool) (hk : 1 ≤ k) (hk' : k ≤ d.length) (j : Nat) :
    mbBit (setSlice d (k - 1) [b]) j = if j - 1 = k - 1 then b else mbBit d j := by
  unfold mbBit
  rw [getD_setSlice d (k - 1) [b] (by simp; omega)]
  simp only [List.length_singleton]
  by_cases hj : j - 1 = k - 1
  · rw [if_pos ⟨by omega, by omega⟩, if_pos hj, hj]; simp
  · rw [if_neg (by omega), if_neg hj]

/-- **Round trip.** For any 56-bit MB field `d` (all other bits arbitrary), writing status `st`, sign
    `sg` and a value `v < 2^width` into a well-formed row and decoding gives `None` when the status
    is clear and otherwise exactly the engineering value. -/
theorem decode_encode (r : Row) (hwf : r.wf = true) (d : Bits) (hd : d.length = 56) (st sg : Bool) (v : Nat)
    (hv : v < 2 ^ r.width) :
    decodeRow r (encodeRow r d st sg v) = if st = false then none else some (rowValue r sg v) := by
  simp only [Row.wf, Bool.and_eq_true, decide_eq_true_eq] at hwf
  obtain ⟨⟨h1, h2, h3, h4⟩, hsgn⟩ := hwf
  have hwid : r.msb - 1 + (natToBits r.width v).length = r.lsb := by
    simp [Row.width]; omega
  have l1 : (setSlice d (r.msb - 1) (natToBits r.width v)).length = 56 := by
    rw [setSlice_length _ _ _ (by omega)]; exact hd
  have f1 : slice (r.msb - 1) r.lsb (setSlice d (r.msb - 1) (natToBits r.width v)) = natToBits r.width v := by
    have := slice_setSlice_self d (r.msb - 1) (natToBits r.width v) (by omega)
    rw [hwid] at this; exact this
  cases hs : r.sign with
  | none =>
    unfold decodeRow encodeRow mbField rowValue
    simp only [hs]
    rw [mbBit_setSlice_single _ _ _ h1 (by omega)]
    rw [slice_setSlice_disjoint _ _ _ (by simp; omega) _ _ (by right; simp; omega), f1,
      bin2int_natToBits_of_lt hv]
    cases st <;> simp
  | some s =>
    rw [hs] at hsgn
    simp only [decide_eq_true_eq] at hsgn
    obtain ⟨hs1, hs2⟩ := hsgn
    have l2 : (setSlice (setSlice d (r.msb - 1) (natToBits r.width v)) (s - 1) [sg]).length = 56 := by
      rw [setSlice_length _ _ _ (by simp; omega)]; exact l1
    unfold decodeRow encodeRow mbField rowValue
    simp only [hs]
    simp only [mbBit_setSlice_single _ _ _ h1
        (show r.status ≤ (setSlice (setSlice d (r.msb - 1) (natToBits r.width v)) (s - 1) [sg]).length by omega),
      mbBit_setSlice_single _ _ _ (show 1 ≤ s by omega)
        (show s ≤ (setSlice d (r.msb - 1) (natToBits r.width v)).length by omega)]
    rw [slice_setSlice_disjoint _ _ _ (by simp; omega) _ _ (by right; simp; omega),
      slice_setSlice_disjoint _ _ _ (by simp; omega) _ _ (by right; simp; omega), f1,
      bin2int_natToBits_of_lt hv]
    have ne : ¬(s - 1 = r.status - 1) := by omega
    cases st <;> cases sg <;> simp [ne]

/-- non-vacuity: −1 × 90/512 wraps to 360 − 90/512 in the BDS 6,0 heading row -/
example : decodeRow rHdg60 (encodeRow rHdg60 (natToBits 56 0x123456789ABCDE) true true 1023) =
    some (360 - 90 / 512) := by
  rw [decode_encode rHdg60 (by decide) _ (by simp) _ _ _ (by decide)]
  decide +kernel

/-! ## The unconditional decoders -/

/-- BDS 4,4 static air temperature: sign bit 24, value bits 25–34 (two's complement), reported
    unconditionally at both candidate resolutions 0.25 °C and 0.125 °C. -/
theorem temp44_spec (bits : Bits) (h : bits.length = 112) :
    temp44 bits = .val (
      let d := slice 32 88 bits
      let v : Int := if mbBit d 24 then (mbField d 25 34 : Int) - 1024 else (mbField d 25 34 : Int)
      ((v : Rat) * (1 / 4), (v : Rat) * (1 / 8))) := by
  unfold temp44
  rw [dataR_112 bits h]
  have hd := slice_32_88_length h
  generalize slice 32 88 bits = d at hd
  have e1 : idxR d 23 = .val (mbBit d 24) := idxR_val hd 23 (by omega)
  have e2 : bin2intR (slice 24 34 d) = .val (mbField d 25 34) := bin2intR_slice_val hd 24 34 (by omega) (by omega)
  simp only [Res.bind_val, e1, e2, Res.pure_eq, Rat.div_def, Rat.one_mul]

/-- BDS 4,5 static air temperature: sign bit 17, value bits 18–26, × 0.25 °C, unconditional. -/
theorem temp45_spec (bits : Bits) (h : bits.length = 112) :
    temp45 bits = .val (
      let d := slice 32 88 bits
      let v : Int := if mbBit d 17 then (mbField d 18 26 : Int) - 512 else (mbField d 18 26 : Int)
      (v : Rat) * (1 / 4)) := by
  unfold temp45
  rw [dataR_112 bits h]
  have hd := slice_32_88_length h
  generalize slice 32 88 bits = d at hd
  have e1 : idxR d 16 = .val (mbBit d 17) := idxR_val hd 16 (by omega)
  have e2 : bin2intR (slice 17 26 d) = .val (mbField d 18 26) := bin2intR_slice_val hd 17 26 (by omega) (by omega)
  simp only [Res.bind_val, e1, e2, Res.pure_eq, Rat.div_def, Rat.one_mul]

/-- BDS 4,4 wind: status bit 5; speed bits 6–14 (kt); direction bits 15–23 × 180/256 deg;
    `none` (Python `(None, None)`) when the status bit is clear. -/
theorem wind44_spec (bits : Bits) (h : bits.length = 112) :
    wind44 bits = .val (
      let d := slice 32 88 bits
      if mbBit d 5 = false then none
      else some (mbField d 6 14, (mbField d 15 23 : Rat) * ((180 : Rat) / 256))) := by
  unfold wind44
  rw [dataR_112 bits h]
  have hd := slice_32_88_length h
  generalize slice 32 88 bits = d at hd
  have e1 : idxR d 4 = .val (mbBit d 5) := idxR_val hd 4 (by omega)
  have e2 : bin2intR (slice 5 14 d) = .val (mbField d 6 14) := bin2intR_slice_val hd 5 14 (by omega) (by omega)
  have e3 : bin2intR (slice 14 23 d) = .val (mbField d 15 23) := bin2intR_slice_val hd 14 23 (by omega) (by omega)
  simp only [Res.bind_val, e1, e2, e3, Res.pure_eq, Rat.div_def, Rat.mul_assoc]
  split <;> rfl

/-- BDS 1,0 overlay command capability: MB bit 15 -/
theorem ovc10_spec (bits : Bits) (h : bits.length = 112) :
    ovc10 bits = .val (b2n (mbBit (slice 32 88 bits) 15)) := by
  unfold ovc10
  rw [dataR_112 bits h]
  have e1 : idxR (slice 32 88 bits) 14 = .val (mbBit (slice 32 88 bits) 15) :=
    idxR_val (slice_32_88_length h) 14 (by omega)
  simp only [Res.bind_val, e1, Res.pure_eq]

/-- the regenerated capability table is the Doc 9871 list of BDS 1,7 -/
theorem cap17All_spec : Tables.cap17All = ["05", "06", "07", "08", "09", "0A", "20", "21", "40", "41", "42", "43",
    "44", "45", "48", "50", "51", "52", "53", "54", "55", "56", "5F", "60"] := by decide

/-- BDS 1,7: the labels of the set bits among MB bits 1–24, in increasing bit order (for any
    regenerated table with at least 24 entries — no entry can be missing, so nothing raises) -/
theorem cap17_spec (bits : Bits) (h : bits.length = 112) (ht : 24 ≤ Tables.cap17All.length) :
    cap17 bits = .val (((List.range 24).filter (fun i => mbBit (slice 32 88 bits) (i + 1))).map
      (fun i => "BDS" ++ Tables.cap17All.getD i "")) := by
  unfold cap17
  rw [dataR_112 bits h]
  have hd := slice_32_88_length h
  simp only [Res.bind_val]
  generalize slice 32 88 bits = d at hd
  have hl : (List.take 24 d).length = 24 := by simp; omega
  rw [hl]
  have hf : (List.range 24).filter (fun i => (List.take 24 d).getD i false) =
      (List.range 24).filter (fun i => mbBit d (i + 1)) := by
    apply List.filter_congr
    intro i hi
    have hi : i < 24 := by simpa using hi
    simp [mbBit, List.getD_eq_getElem?_getD, hi]
  rw [hf]
  apply mapM_val
  intro i hi
  have hi : i < 24 := by
    have := (List.mem_filter.mp hi).1
    simpa using this
  rw [idxR_eq (by omega)]
  simp only [Res.bind_val, Res.pure_eq, List.getD_eq_getElem?_getD]
  rw [List.getElem?_eq_getElem (by omega)]
  rfl

example : 24 ≤ Tables.cap17All.length := by decide

/-! ## Concrete frames (the pyModeS unit-test vectors) evaluated on the model -/

/-- the pyModeS test vectors, decoded through the row table -/
example : let f := natToBits 112 0xA000139381951536E024D4CCF6B5
    [roll50 f, trk50 f, gs50 f, rtrk50 f, tas50 f] =
      [.val (some (135 / 64)), .val (some (14625 / 128)), .val (some 438), .val (some (1 / 8)), .val (some 424)] := by
  decide +kernel
example : let f := natToBits 112 0xA00004128F39F91A7E27C46ADC21
    [hdg60 f, ias60 f, mach60 f, vr60baro f, vr60ins f] =
      [.val (some (10935 / 256)), .val (some 252), .val (some (21 / 50)), .val (some (-1920)), .val (some (-1920))] := by
  decide +kernel
example : let f := natToBits 112 0xA000029C85E42F313000007047D3
    [selalt40mcp f, selalt40fms f, p40baro f] = [.val (some 3008), .val (some 3008), .val (some 1020)] := by
  decide +kernel
example : let f := natToBits 112 0xA0001692185BD5CF400000DFC696
    wind44 f = .val (some (22, 11025 / 32)) ∧ temp44 f = .val (-195 / 4, -195 / 8) ∧ p44 f = .val none := by
  decide +kernel
example : cap17 (natToBits 112 0xA0000638FA81C10000000081A92F) =
    .val ["BDS05", "BDS06", "BDS07", "BDS08", "BDS09", "BDS20", "BDS40", "BDS50", "BDS51", "BDS52", "BDS60"] := by
  decide +kernel

end PyModeS.C11
