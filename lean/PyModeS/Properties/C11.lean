/-
  C11 — Comm-B register fields decode to the encoded engineering values (Doc 9871 rows).
-/
import PyModeS.Proofs.Bits
import PyModeS.Model.Commb
namespace PyModeS.C11

/-- Generic unsigned row: status bit `sb`, field `d[a:b]`; result depends on those bits only. -/
theorem ufield_spec (d : Bits) (sb a b : Nat) (scale off : Rat) (hsb : sb < d.length) (hab : a < b) (hb : b ≤ d.length) :
    ufield d sb a b scale off =
      .val (if d[sb] = false then none else some ((bin2int (slice a b d) : Rat) * scale + off)) := by
  unfold ufield
  have l : 0 < (slice a b d).length := by rw [slice_length_of_le hb]; omega
  rw [idxR_eq hsb]
  simp only [Res.bind_val]
  cases hs : d[sb]
  · simp
  · simp [bin2intR_of_length l]

/-- Generic two's-complement row: status `sb`, sign `sg`, magnitude `d[a:b]` (`v − 2^(b−a)` when the sign is set). -/
theorem sfield_spec (d : Bits) (sb sg a b : Nat) (scale : Rat) (hsb : sb < d.length) (hsg : sg < d.length)
    (hab : a < b) (hb : b ≤ d.length) :
    sfield d sb sg a b scale =
      .val (if d[sb] = false then none else
        some ((((if d[sg] then (bin2int (slice a b d) : Int) - (2 ^ (b - a) : Nat) else (bin2int (slice a b d) : Int)) : Int) : Rat) * scale)) := by
  unfold sfield
  have l : 0 < (slice a b d).length := by rw [slice_length_of_le hb]; omega
  rw [idxR_eq hsb]
  simp only [Res.bind_val]
  cases hs : d[sb]
  · simp
  · simp [idxR_eq hsg, bin2intR_of_length l]

/-- round trip of the generic row through `natToBits` -/
theorem ufield_roundtrip (pre post : Bits) (w v : Nat) (hw : 0 < w) (hv : v < 2 ^ w) (st : Bool) (mid : Bits)
    (scale off : Rat) :
    ufield (pre ++ [st] ++ mid ++ natToBits w v ++ post) pre.length (pre.length + 1 + mid.length)
      (pre.length + 1 + mid.length + w) scale off = .val (if st = false then none else some ((v : Rat) * scale + off)) := by
  have hlen : (pre ++ [st] ++ mid ++ natToBits w v ++ post).length = pre.length + 1 + mid.length + w + post.length := by
    simp; omega
  rw [ufield_spec _ _ _ _ _ _ (by rw [hlen]; omega) (by omega) (by rw [hlen]; omega)]
  have h1 : (pre ++ [st] ++ mid ++ natToBits w v ++ post)[pre.length]'(by rw [hlen]; omega) = st := by
    simp [List.getElem_append_right]
  have h2 : slice (pre.length + 1 + mid.length) (pre.length + 1 + mid.length + w)
      (pre ++ [st] ++ mid ++ natToBits w v ++ post) = natToBits w v := by
    have := slice_append_mid (pre ++ [st] ++ mid) (natToBits w v) post
    have e : (pre ++ [st] ++ mid).length = pre.length + 1 + mid.length := by simp; omega
    rw [e, natToBits_length] at this
    exact this
  rw [h1, h2, bin2int_natToBits_of_lt hv]

end PyModeS.C11
