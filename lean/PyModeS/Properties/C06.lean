/-
  C06 — cprNL equals the DO-260B longitude-zone function.

  `nlStair x` is the DO-260B staircase over the committed table of transition latitudes
  (`Spec.nlTable`, rows `(n, lo, hi)` with `lo ≤ θ_n·10¹² ≤ hi`): the largest `n` with
  `x·10¹² < lo_n`, 2 up to and including 87°, 1 beyond.  `cprNL` is `py_common.cprNL` as
  coded, with its three `isclose`/pole short-cuts.  Proofs: `PyModeS/Proofs/CPR/NL.lean`.
-/
import PyModeS.Model.CPR
import PyModeS.Proofs.CPR.NL
import PyModeS.Proofs.NL.Grid
import PyModeS.Proofs.NL.Bridge
namespace PyModeS.C06

/-- the committed table of transition latitudes is strictly increasing from θ_59 to θ_2 = 87°,
    every enclosure has width ≤ 1e-12° and the zone numbers run 59, 58, …, 2 -/
theorem nlTable_wellformed :
    (Spec.nlTable.map (·.1)) = (List.range 58).map (fun i => 59 - i) ∧
    Spec.nlTable.all (fun r => decide (r.2.1 ≤ r.2.2 ∧ r.2.2 ≤ r.2.1 + 1)) = true ∧
    (List.range 57).all (fun i =>
      match Spec.nlTable[i]?, Spec.nlTable[i + 1]? with
      | some a, some b => decide (a.2.2 < b.2.1)
      | _, _ => false) = true := by decide +kernel

/-! ### staircase laws (every rational `x`; `0 ≤ x` is not even needed) -/

theorem nlStair_range (x : ℚ) : 1 ≤ nlStair x ∧ nlStair x ≤ 59 := CPR.nlStair_range x

theorem nlStair_antitone (x y : ℚ) (h : x ≤ y) : nlStair y ≤ nlStair x :=
  CPR.nlStair_antitone x y h

theorem nlStair_zero : nlStair 0 = 59 := CPR.nlStair_59 0 (by norm_num)

/-- below the first transition latitude (lower end 10.470471299968°) the value is 59 -/
theorem nlStair_59 (x : ℚ) (h : x * 10 ^ 12 < 10470471299968) : nlStair x = 59 :=
  CPR.nlStair_59 x (by norm_num at h ⊢; exact h)

/-- row by row: for consecutive table rows `a = (n+1, θ_{n+1}, _)`, `b = (n, θ_n, _)`,
    `θ_{n+1} ≤ x < θ_n` (lower ends, units of 1e-12°) gives `nlStair x = n` -/
theorem nlStair_row (x : ℚ) (i : ℕ) (a b : ℕ × ℕ × ℕ)
    (ha : Spec.nlTable[i]? = some a) (hb : Spec.nlTable[i + 1]? = some b)
    (h1 : (a.2.1 : ℚ) ≤ x * 10 ^ 12) (h2 : x * 10 ^ 12 < (b.2.1 : ℚ)) :
    nlStair x = b.1 :=
  CPR.nlStair_row x i a b ha hb (by norm_num at h1 ⊢; exact h1) (by norm_num at h2 ⊢; exact h2)

/-- from θ₃ (lower end 86.535369975121°; in particular from 86.54°) up to and including 87°: 2 -/
theorem nlStair_87 (x : ℚ) (h1 : (86535369975121 : ℚ) / 10 ^ 12 ≤ x) (h2 : x ≤ 87) :
    nlStair x = 2 := by
  apply CPR.nlStair_two x _ h2
  rw [div_le_iff₀ (by norm_num)] at h1
  norm_num at h1 ⊢; exact h1

theorem nlStair_87' (x : ℚ) (h1 : (8654 : ℚ) / 100 ≤ x) (h2 : x ≤ 87) : nlStair x = 2 :=
  nlStair_87 x (by norm_num at h1 ⊢; linarith) h2

theorem nlStair_gt_87 (x : ℚ) (h : 87 < x) : nlStair x = 1 := CPR.nlStair_one x h

theorem nlStair_eq_one_iff (x : ℚ) : nlStair x = 1 ↔ 87 < x := CPR.nlStair_eq_one_iff x

/-! ### `cprNL` (the code, with its `isclose` short-cuts) is the staircase of `|lat|` -/

/-- the model's absolute value is the absolute value -/
theorem rabs_eq_abs (x : ℚ) : rabs x = |x| := CPR.rabs_eq_abs x

theorem cprNL_eq_stair (lat : ℚ) : cprNL lat = nlStair (rabs lat) := CPR.cprNL_eq_stair lat

theorem cprNL_eq_stair_abs (lat : ℚ) : cprNL lat = nlStair |lat| := by
  rw [← rabs_eq_abs]; exact cprNL_eq_stair lat

theorem cprNL_even (lat : ℚ) : cprNL (-lat) = cprNL lat := by
  rw [cprNL_eq_stair_abs, cprNL_eq_stair_abs, abs_neg]

theorem cprNL_range (lat : ℚ) : 1 ≤ cprNL lat ∧ cprNL lat ≤ 59 := by
  rw [cprNL_eq_stair]; exact nlStair_range _

theorem cprNL_antitone (a b : ℚ) (h : |a| ≤ |b|) : cprNL b ≤ cprNL a := by
  rw [cprNL_eq_stair_abs, cprNL_eq_stair_abs]; exact nlStair_antitone _ _ h

theorem cprNL_eq_one_iff (lat : ℚ) : cprNL lat = 1 ↔ 87 < |lat| := by
  rw [cprNL_eq_stair_abs]; exact nlStair_eq_one_iff _

theorem cprNL_zero : cprNL 0 = 59 := by
  rw [cprNL_eq_stair_abs, abs_zero]; exact nlStair_zero

/-! ### concrete values -/

example : cprNL (522572 / 10000) = 36 ∧ cprNL (-522572 / 10000) = 36 := by decide +kernel
example : cprNL 87 = 2 ∧ cprNL (870000001 / 10000000) = 1 ∧ cprNL (-90) = 1 := by decide +kernel
/-- `nlStair_row` at row 22/23 (θ₃₇ ≤ 52.2572° < θ₃₆) -/
example : nlStair (522572 / 10000) = 36 :=
  nlStair_row _ 22 (37, 51893424691687, 51893424691688) (36, 53095161527960, 53095161527961)
    (by decide +kernel) (by decide +kernel) (by norm_num) (by norm_num)

/-! ### the CPR latitude grids never come close to a transition latitude

  `NL.gridLat g m = Dlat(g) · m / 2¹⁷` (`m : ℤ`) enumerates the latitudes of the four CPR grids
  (`NL.gridLat_zone`: `Dlat · (k + y/2¹⁷) = gridLat g (k·2¹⁷ + y)`): airborne even `Dlat = 6`,
  airborne odd `360/59`, surface even `3/2`, surface odd `90/59`.  These are the latitudes an
  encoder can carry (`cprEncode_rlat_on_grid`) and the only latitudes at which a decoder ever
  evaluates `cprNL`.  Proofs: `PyModeS/Proofs/NL/Grid.lean` (integer certificate, 57 rows × 4 grids,
  checked by the kernel). -/

open NL in
/-- sharp form: every grid latitude (both signs) is more than 8069·10⁻¹²° away from the
    enclosure of every θ₃ … θ₅₉; 8070 fails (`grid_margin_sharp`) -/
theorem grid_avoids_transitions_sharp (g : LatGrid) (m : ℤ) (r : ℕ × ℕ × ℕ)
    (hr : r ∈ Spec.nlTable) (h3 : 3 ≤ r.1) :
    |gridLat g m| * 10 ^ 12 < (r.2.1 : ℚ) - 8069 ∨ |gridLat g m| * 10 ^ 12 > (r.2.2 : ℚ) + 8069 :=
  NL.grid_avoids_transitions_8069 g m r hr h3

open NL in
/-- **grid_avoids_transitions**: for each of the four latitude grids, every grid latitude `x`
    (any integer multiple of `Dlat/2¹⁷`, either sign) and every row `(n, lo, hi)`, `n ≥ 3`, of
    `Spec.nlTable`: `|x|·10¹² < lo − 1000 ∨ |x|·10¹² > hi + 1000` (more than 10⁻⁹° away) -/
theorem grid_avoids_transitions (g : LatGrid) (m : ℤ) (r : ℕ × ℕ × ℕ)
    (hr : r ∈ Spec.nlTable) (h3 : 3 ≤ r.1) :
    |gridLat g m| * 10 ^ 12 < (r.2.1 : ℚ) - 1000 ∨ |gridLat g m| * 10 ^ 12 > (r.2.2 : ℚ) + 1000 := by
  rcases grid_avoids_transitions_sharp g m r hr h3 with h | h
  · left; linarith
  · right; linarith

open NL in
/-- the same in zone-index / 17-bit-field form: `x = Dlat · (k + y/2¹⁷)` -/
theorem grid_avoids_transitions_zone (g : LatGrid) (k y : ℤ) (r : ℕ × ℕ × ℕ)
    (hr : r ∈ Spec.nlTable) (h3 : 3 ≤ r.1) :
    |g.dLat * ((k : ℚ) + (y : ℚ) / 2 ^ 17)| * 10 ^ 12 < (r.2.1 : ℚ) - 1000 ∨
      |g.dLat * ((k : ℚ) + (y : ℚ) / 2 ^ 17)| * 10 ^ 12 > (r.2.2 : ℚ) + 1000 := by
  have h : (2 : ℚ) ^ 17 = 131072 := by norm_num
  rw [h, gridLat_zone]
  exact grid_avoids_transitions g _ r hr h3

/-- the margin 8069 is the largest integer one: the surface-odd grid latitude number 3913562
    (45.546267234672…°) is less than 8070·10⁻¹²° above the upper end of θ₄₂ -/
theorem grid_margin_sharp :
    (42, 45546267226602, 45546267226603) ∈ Spec.nlTable ∧
    ¬ (|NL.gridLat .surfOdd 3913562| * 10 ^ 12 < (45546267226602 : ℚ) - 8070) ∧
    ¬ (|NL.gridLat .surfOdd 3913562| * 10 ^ 12 > (45546267226603 : ℚ) + 8070) := by
  refine ⟨by decide +kernel, ?_, ?_⟩ <;> norm_num [NL.gridLat, NL.LatGrid.dLat, abs_of_pos]

open NL in
/-- 87° = θ₂: a grid latitude is either exactly 87° or more than 8069·10⁻¹²° away from it -/
theorem grid_avoids_87 (g : LatGrid) (m : ℤ) :
    |gridLat g m| = 87 ∨ |gridLat g m| * 10 ^ 12 < 87000000000000 - 8069 ∨
      |gridLat g m| * 10 ^ 12 > 87000000000000 + 8069 := NL.grid_avoids_87 g m

open NL in
/-- both even grids contain 87° itself (`6·(14 + 65536/2¹⁷)`, `(3/2)·58`); there the staircase
    is 2 (the closed end of the last step), and the odd grids never hit 87° -/
theorem grid_hits_87 :
    gridLat .airEven 1900544 = 87 ∧ (6 : ℚ) * (14 + 65536 / 2 ^ 17) = 87 ∧
    gridLat .surfEven 7602176 = 87 ∧ nlStair 87 = 2 ∧ cprNL 87 = 2 ∧
    (∀ m : ℤ, |gridLat .airOdd m| ≠ 87) ∧ (∀ m : ℤ, |gridLat .surfOdd m| ≠ 87) := by
  refine ⟨by norm_num [gridLat, LatGrid.dLat], by norm_num, by norm_num [gridLat, LatGrid.dLat],
    by decide +kernel, by decide +kernel, ?_, ?_⟩
  · intro m h
    have h1 := abs_gridLat_scaled .airOdd m
    rw [h] at h1
    have hK : ((KK : ℕ) : ℚ) ≠ 0 := by unfold KK; norm_num
    rw [eq_div_iff hK] at h1
    have h2 : (87 * 1000000000000 * KK : ℕ) = m.natAbs * LatGrid.C .airOdd := by exact_mod_cast h1
    have h3 : (87 * 1000000000000 * KK) % LatGrid.C .airOdd = 0 := by
      rw [h2]; exact Nat.mul_mod_left _ _
    revert h3; decide +kernel
  · intro m h
    have h1 := abs_gridLat_scaled .surfOdd m
    rw [h] at h1
    have hK : ((KK : ℕ) : ℚ) ≠ 0 := by unfold KK; norm_num
    rw [eq_div_iff hK] at h1
    have h2 : (87 * 1000000000000 * KK : ℕ) = m.natAbs * LatGrid.C .surfOdd := by exact_mod_cast h1
    have h3 : (87 * 1000000000000 * KK) % LatGrid.C .surfOdd = 0 := by
      rw [h2]; exact Nat.mul_mod_left _ _
    revert h3; decide +kernel

open NL in
/-- stability radius `ε ≤ 8069·10⁻¹²°`: the staircase is constant on the closed
    `ε`-neighbourhood of every grid latitude other than ±87° -/
theorem nlStair_on_grid_robust_eps (g : LatGrid) (m : ℤ) (y ε : ℚ)
    (hε : ε ≤ 8069 / 10 ^ 12) (h87 : |gridLat g m| ≠ 87) (hy : |(|gridLat g m| - y)| ≤ ε) :
    nlStair |gridLat g m| = nlStair y := by
  have hε' : ε * 1000000000000 ≤ 8069 := by
    rw [le_div_iff₀ (by norm_num)] at hε; norm_num at hε; exact hε
  have h10 : (10 : ℚ) ^ 12 = 1000000000000 := by norm_num
  apply nlStair_stable _ _ ε hy
  · rcases NL.grid_avoids_87 g m with h | h | h
    · exact absurd h h87
    · left; rw [h10] at h; linarith
    · right; rw [h10] at h; linarith
  · intro r hr h3
    rcases NL.grid_avoids_transitions_8069 g m r hr h3 with h | h
    · left; rw [h10] at h; linarith
    · right; rw [h10] at h; linarith

open NL in
/-- **nlStair_on_grid_robust**: for a latitude `x` of any of the four grids, other than ±87°,
    `nlStair |x| = nlStair y` for every rational `y` with `||x| − y| ≤ 10⁻⁹` -/
theorem nlStair_on_grid_robust (g : LatGrid) (m : ℤ) (y : ℚ)
    (h87 : |gridLat g m| ≠ 87) (hy : |(|gridLat g m| - y)| ≤ 1 / 10 ^ 9) :
    nlStair |gridLat g m| = nlStair y :=
  nlStair_on_grid_robust_eps g m y (1 / 10 ^ 9) (by norm_num) h87 hy

open NL in
/-- the same for the code's `cprNL` on signed latitudes: `|x − y| ≤ 10⁻⁹` -/
theorem cprNL_on_grid_robust (g : LatGrid) (m : ℤ) (y : ℚ)
    (h87 : |gridLat g m| ≠ 87) (hy : |gridLat g m - y| ≤ 1 / 10 ^ 9) :
    cprNL (gridLat g m) = cprNL y := by
  rw [cprNL_eq_stair_abs, cprNL_eq_stair_abs]
  apply nlStair_on_grid_robust_eps g m |y| (1 / 10 ^ 9) (by norm_num) h87
  exact le_trans (abs_abs_sub_abs_le_abs_sub _ _) hy

/-- what holds at the grid latitude 87° (and anywhere from θ₃ on): the staircase is 2 up to and
    including 87° and 1 beyond, so a perturbation of 87° upwards, however small, changes it -/
theorem nlStair_near_87 (y : ℚ) (hy : |87 - y| ≤ 1 / 10 ^ 9) :
    nlStair y = if y ≤ 87 then 2 else 1 := by
  rw [abs_le] at hy
  split_ifs with h
  · exact nlStair_87' y (by norm_num at hy ⊢; linarith [hy.2]) h
  · exact nlStair_gt_87 y (not_le.mp h)

open NL in
/-- the latitude carried by a DO-260B CPR encoding (`Spec.cprEncode`, airborne `base = 360` or
    surface `base = 90`, even `i = 0` or odd `i = 1`) lies on the corresponding grid -/
theorem cprEncode_rlat_on_grid (nl : ℚ → ℕ) (lat lon : ℚ) :
    (∃ m, (Spec.cprEncode nl 360 0 lat lon).rlat = gridLat .airEven m) ∧
    (∃ m, (Spec.cprEncode nl 360 1 lat lon).rlat = gridLat .airOdd m) ∧
    (∃ m, (Spec.cprEncode nl 90 0 lat lon).rlat = gridLat .surfEven m) ∧
    (∃ m, (Spec.cprEncode nl 90 1 lat lon).rlat = gridLat .surfOdd m) := by
  have key : ∀ (base : ℚ) (i : ℕ), ∃ k y : ℤ, (Spec.cprEncode nl base i lat lon).rlat =
      base / (60 - (i : ℚ)) * ((k : ℚ) + (y : ℚ) / 131072) := fun _ _ => ⟨_, _, rfl⟩
  refine ⟨?_, ?_, ?_, ?_⟩
  · obtain ⟨k, y, h⟩ := key 360 0
    exact ⟨k * 131072 + y, by rw [h, ← gridLat_zone]; norm_num [LatGrid.dLat]⟩
  · obtain ⟨k, y, h⟩ := key 360 1
    exact ⟨k * 131072 + y, by rw [h, ← gridLat_zone]; norm_num [LatGrid.dLat]⟩
  · obtain ⟨k, y, h⟩ := key 90 0
    exact ⟨k * 131072 + y, by rw [h, ← gridLat_zone]; norm_num [LatGrid.dLat]⟩
  · obtain ⟨k, y, h⟩ := key 90 1
    exact ⟨k * 131072 + y, by rw [h, ← gridLat_zone]; norm_num [LatGrid.dLat]⟩

/-- non-vacuity: the surface-odd grid latitude next to θ₄₂ (closest approach of all) and a
    perturbation by 10⁻⁹° -/
example : nlStair |NL.gridLat .surfOdd 3913562| = nlStair (|NL.gridLat .surfOdd 3913562| - 1 / 10 ^ 9) :=
  nlStair_on_grid_robust .surfOdd 3913562 _
    (by norm_num [NL.gridLat, NL.LatGrid.dLat, abs_of_pos])
    (by norm_num [NL.gridLat, NL.LatGrid.dLat, abs_of_pos])
example : (3, 86535369975121, 86535369975122) ∈ Spec.nlTable ∧ (3 : ℕ) ≤ 3 := by decide +kernel

/-! ### the committed table encloses the DO-260B transition latitudes (real analysis)

  `θ n` is the transition latitude of DO-260B (NZ = 15) in degrees.  The table rows are no longer
  trusted data: every row `(n, lo, hi)` satisfies `lo ≤ θ n · 10¹² ≤ hi`.  Proofs:
  `PyModeS/Proofs/NL/CosTaylor.lean` (alternating Taylor bounds of cos/sin, any order, `x ≥ 0`),
  `CosQ.lean` (rational `cosLower`/`cosUpper`, π enclosed by Mathlib's 20-digit bounds),
  `Theta.lean` (reduction to a rational certificate), `Enclose.lean` (the certificate on all 57
  rows `n = 59 … 3`, kernel-checked), `ThetaMono.lean` (`θ 2 = 87`, monotonicity). -/

/-- DO-260B: `θ_n = (180/π) · arccos √((1 − cos(π/30)) / (1 − cos(2π/n)))` -/
noncomputable def θ (n : ℕ) : ℝ :=
  180 / Real.pi * Real.arccos (Real.sqrt ((1 - Real.cos (Real.pi / 30)) /
    (1 - Real.cos (2 * Real.pi / n))))

theorem θ_eq_theta : θ = NL.theta := rfl

/-- **nlTable_encloses**: all 57 rows `n = 59 … 3` -/
theorem nlTable_encloses : ∀ row ∈ Spec.nlTable, row.1 ≥ 3 →
    (row.2.1 : ℝ) ≤ θ row.1 * 10 ^ 12 ∧ θ row.1 * 10 ^ 12 ≤ row.2.2 :=
  NL.nlTable_encloses_ge3

/-- the row `n = 2` as well: `θ 2 = 87` exactly -/
theorem θ_two : θ 2 = 87 := NL.theta_two

theorem nlTable_encloses_all : ∀ row ∈ Spec.nlTable,
    (row.2.1 : ℝ) ≤ θ row.1 * 10 ^ 12 ∧ θ row.1 * 10 ^ 12 ≤ row.2.2 :=
  NL.nlTable_encloses_all

/-- `θ 60 = 0`: the formula degenerates at the equator -/
theorem θ_sixty : θ 60 = 0 := NL.theta_sixty

/-- **θ_strictAnti**: `θ` is strictly decreasing on `2 ≤ m < n ≤ 60` -/
theorem θ_strictAnti (m n : ℕ) (hm : 2 ≤ m) (hmn : m < n) (hn : n ≤ 60) : θ n < θ m :=
  NL.theta_strictAnti m n hm hmn hn

/-- the verified rational cosine bounds used by the certificate (16 / 17 Taylor terms), valid for
    every rational `q ≥ 0` (no upper limit on `q`) -/
theorem cosLower_le (q : ℚ) (hq : 0 ≤ q) : ((NL.cosLower q : ℚ) : ℝ) ≤ Real.cos q :=
  NL.cosLower_le q hq

theorem le_cosUpper (q : ℚ) (hq : 0 ≤ q) : Real.cos q ≤ ((NL.cosUpper q : ℚ) : ℝ) :=
  NL.le_cosUpper q hq

/-- interval versions at rational multiples of π (`piLo < π < piHi`, 20 digits) -/
theorem cos_mul_pi_bounds (q : ℚ) (hq : 0 ≤ q) (h3 : q * NL.piHi ≤ 3) :
    ((NL.cosLower (q * NL.piHi) : ℚ) : ℝ) ≤ Real.cos (q * Real.pi) ∧
      Real.cos (q * Real.pi) ≤ ((NL.cosUpper (q * NL.piLo) : ℚ) : ℝ) :=
  ⟨NL.cosLower_pi_le q hq h3, NL.le_cosUpper_pi q hq h3⟩

/-- alternating Taylor bounds of any order on `x ≥ 0` (`cosT K` = first `K` terms of the series) -/
theorem cos_taylor_alternating (j : ℕ) (x : ℝ) (hx : 0 ≤ x) :
    NL.cosT (2 * j + 2) x ≤ Real.cos x ∧ Real.cos x ≤ NL.cosT (2 * j + 1) x :=
  ⟨NL.cosT_even_le j x hx, NL.le_cosT_odd j x hx⟩

example : (42, 45546267226602, 45546267226603) ∈ Spec.nlTable := by decide +kernel
/-- θ₄₂ to 1e-12°, from the table row -/
example : (45546267226602 : ℝ) ≤ θ 42 * 10 ^ 12 ∧ θ 42 * 10 ^ 12 ≤ 45546267226603 := by
  have := nlTable_encloses (42, 45546267226602, 45546267226603) (by decide +kernel) (by norm_num)
  simpa using this

/-! ### the coded closed form over ℝ versus the transition latitudes

  `NL.nlClosed lat = ⌊2π / arccos(1 − (1 − cos(π/(2·15))) / cos²(π/180·|lat|))⌋` is the expression
  `py_common.cprNL` evaluates (in floating point) after its three short-cuts. -/

/-- **closed_form_eq_staircase**: for `0 < |lat| < 87`, `2 ≤ n ≤ 59`: the closed form is `n`
    exactly on `θ (n+1) < |lat| ≤ θ n`.
    (The interval is closed at `θ n`: AT a transition latitude the exact closed form still gives
    `n`, while DO-260B's table and `nlStair` give `n − 1` there — the half-open convention
    `θ (n+1) ≤ |lat| < θ n` is therefore NOT what the formula computes at the transition points
    themselves; they are not CPR grid latitudes, `grid_avoids_transitions`.) -/
theorem closed_form_eq_staircase (lat : ℝ) (n : ℕ) (hn : 2 ≤ n) (hn' : n ≤ 59)
    (h0 : 0 < |lat|) (h87 : |lat| < 87) :
    ⌊2 * Real.pi / Real.arccos (1 - (1 - Real.cos (Real.pi / (2 * 15))) /
        Real.cos (Real.pi / 180 * |lat|) ^ 2)⌋ = (n : ℤ) ↔ θ (n + 1) < |lat| ∧ |lat| ≤ θ n :=
  NL.closed_form_eq_staircase lat n hn hn' h0 h87

/-- the closed form takes a value in `2 … 59` everywhere on `0 < |lat| < 87` -/
theorem nlClosed_range (lat : ℝ) (h0 : 0 < |lat|) (h87 : |lat| < 87) :
    ∃ n : ℕ, 2 ≤ n ∧ n ≤ 59 ∧ NL.nlClosed lat = (n : ℤ) := NL.nlClosed_range lat h0 h87

/-- closed form (ℝ) = table staircase (ℚ) whenever `|y|` and `x` lie on the same side of every
    enclosure -/
theorem nlClosed_eq_nlStair (y : ℝ) (x : ℚ) (hy0 : 0 < |y|) (hy87 : |y| < 87) (hx87 : x ≤ 87)
    (hsame : ∀ r ∈ Spec.nlTable, 3 ≤ r.1 →
      (|y| * 1000000000000 < (r.2.1 : ℝ) ∧ x * 1000000000000 < (r.2.1 : ℚ)) ∨
      ((r.2.2 : ℝ) < |y| * 1000000000000 ∧ (r.2.2 : ℚ) < x * 1000000000000)) :
    NL.nlClosed y = (nlStair x : ℤ) := NL.nlClosed_eq_nlStair y x hy0 hy87 hx87 hsame

open NL in
/-- on every CPR grid latitude other than 0 and beyond ±87° the exact closed form is `cprNL` -/
theorem nlClosed_on_grid (g : LatGrid) (m : ℤ) (h0 : gridLat g m ≠ 0) (h87 : |gridLat g m| < 87) :
    nlClosed ((gridLat g m : ℚ) : ℝ) = (cprNL (gridLat g m) : ℤ) := by
  rw [cprNL_eq_stair_abs]; exact NL.nlClosed_on_grid g m h0 h87

open NL in
/-- … and for every real `y` within 8.069e-9° of a grid latitude (`0 < |y| < 87`) -/
theorem nlClosed_near_grid (g : LatGrid) (m : ℤ) (y : ℝ) (hy0 : 0 < |y|) (hy87 : |y| < 87)
    (hy : |y - ((gridLat g m : ℚ) : ℝ)| ≤ 8069 / 10 ^ 12) :
    nlClosed y = (cprNL (gridLat g m) : ℤ) := by
  rw [cprNL_eq_stair_abs]; exact NL.nlClosed_near_grid g m y hy0 hy87 hy

/-- non-vacuity: the grid latitude closest to a transition (surface odd, number 3913562,
    45.5462672346…°) — the closed form over ℝ is 41 there, as is `cprNL` -/
example : NL.nlClosed ((NL.gridLat .surfOdd 3913562 : ℚ) : ℝ) = 41 := by
  rw [nlClosed_on_grid .surfOdd 3913562 (by norm_num [NL.gridLat, NL.LatGrid.dLat])
    (by norm_num [NL.gridLat, NL.LatGrid.dLat, abs_of_pos])]
  have : cprNL (NL.gridLat .surfOdd 3913562) = 41 := by decide +kernel
  rw [this]; rfl

end PyModeS.C06
