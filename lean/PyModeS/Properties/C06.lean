/-
  C06 — cprNL equals the DO-260B longitude-zone function.
-/
import PyModeS.Model.CPR
namespace PyModeS.C06

/-- the committed table of transition latitudes is strictly increasing from θ_59 to θ_2 = 87°,
    every enclosure has width ≤ 1e-12° and the zone numbers run 59, 58, …, 2 -/
theorem nlTable_wellformed :
    (Spec.nlTable.map (·.1)) = (List.range 58).map (fun i => 59 - i) ∧
    Spec.nlTable.all (fun r => decide (r.2.1 ≤ r.2.2 ∧ r.2.2 ≤ r.2.1 + 1)) = true ∧
    (List.range 57).all (fun i =>
      match Spec.nlTable[i]?, Spec.nlTable[i + 1]? with
      | some a, some b => decide (a.2.2 < b.2.1)
      | _, _ => false) = true := by decide +kernel

end PyModeS.C06
