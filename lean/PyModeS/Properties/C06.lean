/-
  C06 — cprNL equals the DO-260B longitude-zone function.

  `nlStair x` is the DO-260B staircase over the committed table of transition latitudes
  (`Spec.nlTable`, rows `(n, lo, hi)` with `lo ≤ θ_n·10¹² ≤ hi`): the largest `n` with
  `x·10¹² < lo_n`, 2 up to and including 87°, 1 beyond.  `cprNL` is `py_common.cprNL` as
  coded, with its three `isclose`/pole short-cuts.  Proofs: `PyModeS/Proofs/CPR/NL.lean`.
-/
import PyModeS.Model.CPR
import PyModeS.Proofs.CPR.NL
namespace PyModeS.C06

/-- the committed table of transition latitudes is strictly increasing from θ_59 to θ_2 = 87°,
    every enclosure has width ≤ 1e-12° and the zone numbers run 59, 58, …, 2 -/
theorem nlTable_wellformed :
    (Spec.nlTable.map (·.1)) = (List.range 58).map (fun i => 59 - i) ∧
    Spec.nlTable.all (fun r => decide (r.2.1 ≤ r.2.2 ∧ r.2.2 ≤ r.2.1 + 1)) = true ∧
    (List.range 57).all (fun i =>
      match Spec.nlTable[i]?, Spec.nlTable[i + 1]? with
      | some a, some b => decide (a.2.2 < b.2.1)
      | _, _ => false) = true := by decide +kernel

/-! ### staircase laws (every rational `x`; `0 ≤ x` is not even needed) -/

theorem nlStair_range (x : ℚ) : 1 ≤ nlStair x ∧ nlStair x ≤ 59 := CPR.nlStair_range x

theorem nlStair_antitone (x y : ℚ) (h : x ≤ y) : nlStair y ≤ nlStair x :=
  CPR.nlStair_antitone x y h

theorem nlStair_zero : nlStair 0 = 59 := CPR.nlStair_59 0 (by norm_num)

/-- below the first transition latitude (lower end 10.470471299968°) the value is 59 -/
theorem nlStair_59 (x : ℚ) (h : x * 10 ^ 12 < 10470471299968) : nlStair x = 59 :=
  CPR.nlStair_59 x (by norm_num at h ⊢; exact h)

/-- row by row: for consecutive table rows `a = (n+1, θ_{n+1}, _)`, `b = (n, θ_n, _)`,
    `θ_{n+1} ≤ x < θ_n` (lower ends, units of 1e-12°) gives `nlStair x = n` -/
theorem nlStair_row (x : ℚ) (i : ℕ) (a b : ℕ × ℕ × ℕ)
    (ha : Spec.nlTable[i]? = some a) (hb : Spec.nlTable[i + 1]? = some b)
    (h1 : (a.2.1 : ℚ) ≤ x * 10 ^ 12) (h2 : x * 10 ^ 12 < (b.2.1 : ℚ)) :
    nlStair x = b.1 :=
  CPR.nlStair_row x i a b ha hb (by norm_num at h1 ⊢; exact h1) (by norm_num at h2 ⊢; exact h2)

/-- from θ₃ (lower end 86.535369975121°; in particular from 86.54°) up to and including 87°: 2 -/
theorem nlStair_87 (x : ℚ) (h1 : (86535369975121 : ℚ) / 10 ^ 12 ≤ x) (h2 : x ≤ 87) :
    nlStair x = 2 := by
  apply CPR.nlStair_two x _ h2
  rw [div_le_iff₀ (by norm_num)] at h1
  norm_num at h1 ⊢; exact h1

theorem nlStair_87' (x : ℚ) (h1 : (8654 : ℚ) / 100 ≤ x) (h2 : x ≤ 87) : nlStair x = 2 :=
  nlStair_87 x (by norm_num at h1 ⊢; linarith) h2

theorem nlStair_gt_87 (x : ℚ) (h : 87 < x) : nlStair x = 1 := CPR.nlStair_one x h

theorem nlStair_eq_one_iff (x : ℚ) : nlStair x = 1 ↔ 87 < x := CPR.nlStair_eq_one_iff x

/-! ### `cprNL` (the code, with its `isclose` short-cuts) is the staircase of `|lat|` -/

/-- the model's absolute value is the absolute value -/
theorem rabs_eq_abs (x : ℚ) : rabs x = |x| := CPR.rabs_eq_abs x

theorem cprNL_eq_stair (lat : ℚ) : cprNL lat = nlStair (rabs lat) := CPR.cprNL_eq_stair lat

theorem cprNL_eq_stair_abs (lat : ℚ) : cprNL lat = nlStair |lat| := by
  rw [← rabs_eq_abs]; exact cprNL_eq_stair lat

theorem cprNL_even (lat : ℚ) : cprNL (-lat) = cprNL lat := by
  rw [cprNL_eq_stair_abs, cprNL_eq_stair_abs, abs_neg]

theorem cprNL_range (lat : ℚ) : 1 ≤ cprNL lat ∧ cprNL lat ≤ 59 := by
  rw [cprNL_eq_stair]; exact nlStair_range _

theorem cprNL_antitone (a b : ℚ) (h : |a| ≤ |b|) : cprNL b ≤ cprNL a := by
  rw [cprNL_eq_stair_abs, cprNL_eq_stair_abs]; exact nlStair_antitone _ _ h

theorem cprNL_eq_one_iff (lat : ℚ) : cprNL lat = 1 ↔ 87 < |lat| := by
  rw [cprNL_eq_stair_abs]; exact nlStair_eq_one_iff _

theorem cprNL_zero : cprNL 0 = 59 := by
  rw [cprNL_eq_stair_abs, abs_zero]; exact nlStair_zero

/-! ### concrete values -/

example : cprNL (522572 / 10000) = 36 ∧ cprNL (-522572 / 10000) = 36 := by decide +kernel
example : cprNL 87 = 2 ∧ cprNL (870000001 / 10000000) = 1 ∧ cprNL (-90) = 1 := by decide +kernel
/-- `nlStair_row` at row 22/23 (θ₃₇ ≤ 52.2572° < θ₃₆) -/
example : nlStair (522572 / 10000) = 36 :=
  nlStair_row _ 22 (37, 51893424691687, 51893424691688) (36, 53095161527960, 53095161527961)
    (by decide +kernel) (by decide +kernel) (by norm_num) (by norm_num)

end PyModeS.C06
