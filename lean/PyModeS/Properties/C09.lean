/-
  C09 — ADS-B velocity: airborne (TC 19) and surface movement (TC 5–8).
-/
import PyModeS.Proofs.Enum
import PyModeS.Proofs.Bits
import PyModeS.Model.Adsb
import PyModeS.Spec.Velocity
namespace PyModeS.C09
open Spec

/-- All 128 movement codes: the decoder's piecewise table (regenerated from bds06.py on every run)
    equals the DO-260B quantisation table. -/
theorem movement_table_spec : (List.range 128).all
    (fun mov => decide (movSpeed mov = .val (movementSpeed mov))) = true := by
  decide +kernel

theorem movement_spec (mov : Nat) (h : mov < 128) : movSpeed mov = .val (movementSpeed mov) := by
  simpa using all_range_imp movement_table_spec mov h

/-- GNSS–baro difference: `±(N−1)·25 ft`, `None` for N = 0 (and, as coded, for the saturated
    code 127 — recorded as an open finding, see known_findings.json) on any 112-bit TC 19 frame. -/
theorem altitude_diff_partial (bits : Bits) (h : bits.length = 112) (htc : tcB bits = some 19) :
    altitudeDiff bits =
      let v := bin2int (slice 81 88 bits)
      let sign : Int := if bits[80]'(by omega) then -1 else 1
      .val (if v = 0 ∨ v = 127 then none else some (sign * ((v : Int) - 1) * 25)) := by
  unfold altitudeDiff
  have l : 0 < (slice 81 88 bits).length := by rw [slice_length_of_le (by omega)]; omega
  simp only [htc, ne_eq, not_true_eq_false, if_false]
  rw [idxR_eq (by omega), bin2intR_of_length l]
  simp only [Res.bind_val]
  split <;> rfl

theorem altitude_diff_guard (bits : Bits) (htc : tcB bits ≠ some 19) : altitudeDiff bits = .rte := by
  unfold altitudeDiff; simp [htc]

end PyModeS.C09
