/-
  C09 — ADS-B velocity: airborne (TC 19) and surface movement (TC 5–8).
-/
import PyModeS.Proofs.Enum
import PyModeS.Proofs.Bits
import PyModeS.Model.Adsb
import PyModeS.Spec.Velocity
import PyModeS.Proofs.Fields.Frame
namespace PyModeS.C09
open Spec

/-- All 128 movement codes: the decoder's piecewise table (regenerated from bds06.py on every run)
    equals the DO-260B quantisation table. -/
theorem movement_table_spec : (List.range 128).all
    (fun mov => decide (movSpeed mov = .val (movementSpeed mov))) = true := by
  decide +kernel

theorem movement_spec (mov : Nat) (h : mov < 128) : movSpeed mov = .val (movementSpeed mov) := by
  simpa using all_range_imp movement_table_spec mov h

/-- GNSS–baro difference: `±(N−1)·25 ft`, `None` for N = 0 (and, as coded, for the saturated
    code 127 — recorded as an open finding, see known_findings.json) on any 112-bit TC 19 frame. -/
theorem altitude_diff_partial (bits : Bits) (h : bits.length = 112) (htc : tcB bits = some 19) :
    altitudeDiff bits =
      let v := bin2int (slice 81 88 bits)
      let sign : Int := if bits[80]'(by omega) then -1 else 1
      .val (if v = 0 ∨ v = 127 then none else some (sign * ((v : Int) - 1) * 25)) := by
  unfold altitudeDiff
  have l : 0 < (slice 81 88 bits).length := by rw [slice_length_of_le (by omega)]; omega
  simp only [htc, ne_eq, not_true_eq_false, if_false]
  rw [idxR_eq (by omega), bin2intR_of_length l]
  simp only [Res.bind_val]
  split <;> rfl

theorem altitude_diff_guard (bits : Bits) (htc : tcB bits ≠ some 19) : altitudeDiff bits = .rte := by
  unfold altitudeDiff; simp [htc]

end PyModeS.C09

/-! ## Frame-level field theorems (airborne velocity, surface velocity, routing) -/

namespace PyModeS.C09
open Spec Fields

/-- signed velocity component: `(N − 1) · mult` kt, negative when the direction bit is set -/
def signedComp (s : Bool) (v : Nat) (mult : Int) : Int := (if s then -1 else 1) * (((v : Int) - 1) * mult)

/-- vertical rate `±(N − 1) · 64 ft/min`, `None` for N = 0 -/
def vertRate (s_vr : Bool) (vr : Nat) : Option Int :=
  if vr = 0 then none else some ((if s_vr then -1 else 1) * ((vr : Int) - 1) * 64)

/-- DO-260B 2.2.3.2.6 airborne velocity, as a function of the encoded fields (written from the
    property text): `st` subtype, `s_ew`/`v_ew` and `s_ns`/`v_ns` the two sign/magnitude pairs (for
    subtypes 3-4: heading status/heading and airspeed type/airspeed), `vrsrc`, `s_vr`, `vr`. -/
def airborneSpec (st : Nat) (s_ew : Bool) (v_ew : Nat) (s_ns : Bool) (v_ns : Nat)
    (vrsrc s_vr : Bool) (vr : Nat) : Option Velocity :=
  let src := if vrsrc then "BARO" else "GNSS"
  if st = 1 ∨ st = 2 then
    if v_ew = 0 ∨ v_ns = 0 then none
    else
      let mult : Int := if st = 2 then 4 else 1
      let v_we := signedComp s_ew v_ew mult
      let v_sn := signedComp s_ns v_ns mult
      some ⟨some (Nat.sqrt (v_we * v_we + v_sn * v_sn).toNat : Nat), Dir.track v_we v_sn, vertRate s_vr vr,
        "GS", "TRUE_NORTH", src⟩
  else
    let mult : Int := if st = 4 then 4 else 1
    some ⟨if v_ns = 0 then none else some (((v_ns : Int) - 1) * mult),
      if s_ew then Dir.heading ((v_ew : Rat) / 1024 * 360) else Dir.none,
      vertRate s_vr vr, if s_ns then "TAS" else "IAS", "MAGNETIC_NORTH", src⟩

/-- **Airborne velocity.** On every 112-bit TC 19 frame `airborne_velocity(msg, source=True)` is the
    DO-260B function of ME bits 6-8 (subtype) and 14-46 and of nothing else. -/
theorem airborne_velocity_spec (bits : Bits) (h : bits.length = 112) (htc : tcB bits = some 19) :
    airborneVelocity bits = .val (airborneSpec
      (bin2int (slice 37 40 bits)) (bits[45]'(by omega)) (bin2int (slice 46 56 bits))
      (bits[56]'(by omega)) (bin2int (slice 57 67 bits))
      (bits[67]'(by omega)) (bits[68]'(by omega)) (bin2int (slice 69 78 bits))) := by
  unfold airborneVelocity
  simp only [htc, ne_eq, not_true_eq_false, if_false]
  rw [bin2intR_slice_drop h 32 5 8 (by omega) (by omega),
    bin2intR_slice_drop h 32 14 24 (by omega) (by omega),
    bin2intR_slice_drop h 32 25 35 (by omega) (by omega),
    bin2intR_slice_drop h 32 37 46 (by omega) (by omega),
    idxR_drop 32 13 (by omega), idxR_drop 32 24 (by omega), idxR_drop 32 35 (by omega),
    idxR_drop 32 36 (by omega)]
  simp only [Nat.reduceAdd]
  generalize bin2int (slice 37 40 bits) = st
  generalize bin2int (slice 46 56 bits) = v_ew
  generalize bin2int (slice 57 67 bits) = v_ns
  generalize bin2int (slice 69 78 bits) = vr
  generalize bits[45] = s_ew
  generalize bits[56] = s_ns
  generalize bits[67] = vrsrc
  generalize bits[68] = s_vr
  by_cases h12 : st = 1 ∨ st = 2
  · by_cases h1 : v_ew = 0
    · simp [airborneSpec, h12, h1]
    · by_cases h2 : v_ns = 0
      · simp [airborneSpec, h12, h1, h2]
      · rcases h12 with rfl | rfl
        · simp [airborneSpec, h1, h2, signedComp, vertRate]
          exact ⟨by rw [Int.add_comm], by cases vrsrc <;> rfl⟩
        · simp [airborneSpec, h1, h2, signedComp, vertRate]
          exact ⟨by rw [Int.add_comm], by cases vrsrc <;> rfl⟩
  · have h1' : st ≠ 1 := fun e => h12 (Or.inl e)
    have h2' : st ≠ 2 := fun e => h12 (Or.inr e)
    simp only [airborneSpec, h1', h2', vertRate, Res.bind_val, Res.pure_eq, if_false]
    by_cases h4 : st = 4 <;> by_cases h0 : v_ns = 0 <;>
      cases s_ew <;> cases s_ns <;> cases vrsrc <;> simp [h4, h0]

theorem airborne_velocity_guard (bits : Bits) (htc : tcB bits ≠ some 19) : airborneVelocity bits = .rte := by
  unfold airborneVelocity; simp [htc]

/-- non-vacuity: two real frames from tests/ (subtype 1: 159 kt ground speed, −832 ft/min;
    subtype 3: 375 kt TAS, heading 243.98°, −2304 ft/min) satisfy the hypotheses, and the spec gives the
    documented values. -/
example : (hex2bin "8D485020994409940838175B284F").length = 112 ∧
    tcB (hex2bin "8D485020994409940838175B284F") = some 19 ∧
    airborneSpec 1 true 9 true 160 false true 14 =
      some ⟨some 159, Dir.track (-8) (-159), some (-832), "GS", "TRUE_NORTH", "GNSS"⟩ ∧
    airborneVelocity (hex2bin "8D485020994409940838175B284F") =
      .val (airborneSpec 1 true 9 true 160 false true 14) := by decide +kernel

example : (hex2bin "8DA05F219B06B6AF189400CBC33F").length = 112 ∧
    tcB (hex2bin "8DA05F219B06B6AF189400CBC33F") = some 19 ∧
    airborneVelocity (hex2bin "8DA05F219B06B6AF189400CBC33F") =
      .val (some ⟨some 375, Dir.heading ((15615 : Rat) / 64), some (-2304), "TAS", "MAGNETIC_NORTH", "BARO"⟩) := by
  decide +kernel

/-! ### surface velocity (TC 5-8) -/

/-- **Surface velocity.** On every 112-bit TC 5-8 frame: the ground speed is the DO-260B movement
    table of ME bits 6-12 (all 128 codes, `None` for "no information"/reserved), the track is
    `N·360/128` of ME bits 14-20 when the status bit (ME bit 13) is set and `None` otherwise. -/
theorem surface_velocity_spec (bits : Bits) (h : bits.length = 112) (tc : Nat) (htc : tcB bits = some tc)
    (h58 : 5 ≤ tc ∧ tc ≤ 8) :
    surfaceVelocity bits = .val (movementSpeed (bin2int (slice 37 44 bits)),
      if bits[44]'(by omega) then some ((bin2int (slice 45 52 bits) : Rat) * 360 / 128) else none) := by
  unfold surfaceVelocity
  have hg : ¬ (tc < 5 ∨ tc > 8) := by omega
  simp only [htc, hg, if_false]
  rw [idxR_drop 32 12 (by omega), bin2intR_slice_drop h 32 13 20 (by omega) (by omega),
    bin2intR_slice_drop h 32 5 12 (by omega) (by omega)]
  simp only [Nat.reduceAdd]
  have hm : bin2int (slice 37 44 bits) < 128 := bin2int_slice_lt bits 37 44
  cases hb : bits[44]'(by omega) <;>
    simp [movement_spec _ hm]

/-- outside TC 5-8 (or outside DF 17/18) `surface_velocity` raises RuntimeError -/
theorem surface_velocity_guard (bits : Bits) (hg : ∀ tc, tcB bits = some tc → tc < 5 ∨ tc > 8) :
    surfaceVelocity bits = .rte := by
  unfold surfaceVelocity
  cases htc : tcB bits with
  | none => rfl
  | some tc => simp [hg tc htc]

/-- non-vacuity: the surface frame of tests/test_adsb.py (19 kt, track 42.2°) -/
example : (hex2bin "8FC8200A3AB8F5F893096B000000").length = 112 ∧
    tcB (hex2bin "8FC8200A3AB8F5F893096B000000") = some 7 ∧
    surfaceVelocity (hex2bin "8FC8200A3AB8F5F893096B000000") = .val (some 19, some ((675 : Rat) / 16)) := by
  decide +kernel

/-! ### adsb.velocity routing -/

/-- **Routing.** `adsb.velocity` calls `surface_velocity` exactly for TC 5-8, `airborne_velocity`
    exactly for TC 19, and raises RuntimeError for every other type code and for frames without a
    type code (DF other than 17/18). -/
theorem velocity_routing (b : Bits) :
    (∀ tc, tcB b = some tc → 5 ≤ tc ∧ tc ≤ 8 → velocityRoute b = .val .surface) ∧
    (tcB b = some 19 → velocityRoute b = .val .airborne) ∧
    (∀ tc, tcB b = some tc → ¬ (5 ≤ tc ∧ tc ≤ 8) → tc ≠ 19 → velocityRoute b = .rte) ∧
    (tcB b = none → velocityRoute b = .rte) := by
  unfold velocityRoute
  refine ⟨?_, ?_, ?_, ?_⟩
  · intro tc htc h; simp [htc, h]
  · intro htc; simp [htc]
  · intro tc htc h1 h2; simp [htc, h1, h2]
  · intro htc; simp [htc]

/-- the routing as an "iff": which decoder runs is a function of the type code alone -/
theorem velocity_routing_iff (b : Bits) :
    (velocityRoute b = .val .surface ↔ ∃ tc, tcB b = some tc ∧ 5 ≤ tc ∧ tc ≤ 8) ∧
    (velocityRoute b = .val .airborne ↔ tcB b = some 19) := by
  unfold velocityRoute
  cases htc : tcB b with
  | none => simp
  | some tc =>
    by_cases h1 : 5 ≤ tc ∧ tc ≤ 8
    · simp [h1]; omega
    · by_cases h2 : tc = 19
      · simp [h2]
      · simp [h1, h2]

example : velocityRoute (hex2bin "8FC8200A3AB8F5F893096B000000") = .val .surface ∧
    velocityRoute (hex2bin "8D485020994409940838175B284F") = .val .airborne ∧
    velocityRoute (hex2bin "8D406B902015A678D4D220AA4BDA") = .rte := by decide +kernel

end PyModeS.C09

/-! ## Encoder round-trip (DO-260B 2.2.3.2.6.1 layout) -/

namespace PyModeS.C09
open Spec Fields

/-- DF17/18 airborne-velocity frame: DF, CA, ICAO | TC = 19, subtype, (intent, IFR, NUCr/NACv) |
    E/W sign+speed (or heading status+heading) | N/S sign+speed (or airspeed type+airspeed) |
    vertical-rate source, sign, rate | reserved | GNSS-baro difference sign+value | parity -/
def velFrame (df ca icao st x1 : Nat) (s_ew : Bool) (v_ew : Nat) (s_ns : Bool) (v_ns : Nat)
    (vrsrc s_vr : Bool) (vr x2 : Nat) (dsign : Bool) (diff parity : Nat) : List (Nat × Nat) :=
  [(5, df), (3, ca), (24, icao), (5, 19), (3, st), (5, x1), (1, b2n s_ew), (10, v_ew), (1, b2n s_ns),
   (10, v_ns), (1, b2n vrsrc), (1, b2n s_vr), (9, vr), (2, x2), (1, b2n dsign), (7, diff), (24, parity)]

/-- **Encoder round-trip.** Any field values within their widths, framed per DO-260B with arbitrary
    CA, ICAO address, reserved/intent bits, altitude-difference field and parity, decode to the spec of
    exactly those values (and the altitude difference to `±(N−1)·25 ft`). -/
theorem airborne_velocity_roundtrip (df ca icao st x1 : Nat) (s_ew : Bool) (v_ew : Nat) (s_ns : Bool)
    (v_ns : Nat) (vrsrc s_vr : Bool) (vr x2 : Nat) (dsign : Bool) (diff parity : Nat)
    (hdf : df = 17 ∨ df = 18) (hst : st < 8) (hew : v_ew < 1024) (hns : v_ns < 1024) (hvr : vr < 512)
    (hd : diff < 128) :
    let bits := build (velFrame df ca icao st x1 s_ew v_ew s_ns v_ns vrsrc s_vr vr x2 dsign diff parity)
    bits.length = 112 ∧ tcB bits = some 19 ∧
    airborneVelocity bits = .val (airborneSpec st s_ew v_ew s_ns v_ns vrsrc s_vr vr) ∧
    altitudeDiff bits = .val (if diff = 0 ∨ diff = 127 then none
      else some ((if dsign then -1 else 1) * ((diff : Int) - 1) * 25)) := by
  intro bits
  have hlen : bits.length = 112 := by
    show (build _).length = 112
    simp [build_length, velFrame]
  have sb := slice_build (velFrame df ca icao st x1 s_ew v_ew s_ns v_ns vrsrc s_vr vr x2 dsign diff parity)
  have hfl : (velFrame df ca icao st x1 s_ew v_ew s_ns v_ns vrsrc s_vr vr x2 dsign diff parity).length = 17 := rfl
  have f0 : slice 0 5 bits = natToBits 5 df := by
    simpa [bits, velFrame, offset] using sb 0 (by omega)
  have f3 : slice 32 37 bits = natToBits 5 19 := by
    simpa [bits, velFrame, offset] using sb 3 (by omega)
  have f4 : slice 37 40 bits = natToBits 3 st := by
    simpa [bits, velFrame, offset] using sb 4 (by omega)
  have f6 : slice 45 46 bits = natToBits 1 (b2n s_ew) := by
    simpa [bits, velFrame, offset] using sb 6 (by omega)
  have f7 : slice 46 56 bits = natToBits 10 v_ew := by
    simpa [bits, velFrame, offset] using sb 7 (by omega)
  have f8 : slice 56 57 bits = natToBits 1 (b2n s_ns) := by
    simpa [bits, velFrame, offset] using sb 8 (by omega)
  have f9 : slice 57 67 bits = natToBits 10 v_ns := by
    simpa [bits, velFrame, offset] using sb 9 (by omega)
  have f10 : slice 67 68 bits = natToBits 1 (b2n vrsrc) := by
    simpa [bits, velFrame, offset] using sb 10 (by omega)
  have f11 : slice 68 69 bits = natToBits 1 (b2n s_vr) := by
    simpa [bits, velFrame, offset] using sb 11 (by omega)
  have f12 : slice 69 78 bits = natToBits 9 vr := by
    simpa [bits, velFrame, offset] using sb 12 (by omega)
  have f14 : slice 80 81 bits = natToBits 1 (b2n dsign) := by
    simpa [bits, velFrame, offset] using sb 14 (by omega)
  have f15 : slice 81 88 bits = natToBits 7 diff := by
    simpa [bits, velFrame, offset] using sb 15 (by omega)
  have htc : tcB bits = some 19 := tcB_of_slices hdf (by omega) f0 f3
  have b45 : bits[45]'(by omega) = s_ew := getElem_of_slice (by omega) (by rw [f6, natToBits_one])
  have b56 : bits[56]'(by omega) = s_ns := getElem_of_slice (by omega) (by rw [f8, natToBits_one])
  have b67 : bits[67]'(by omega) = vrsrc := getElem_of_slice (by omega) (by rw [f10, natToBits_one])
  have b68 : bits[68]'(by omega) = s_vr := getElem_of_slice (by omega) (by rw [f11, natToBits_one])
  have b80 : bits[80]'(by omega) = dsign := getElem_of_slice (by omega) (by rw [f14, natToBits_one])
  refine ⟨hlen, htc, ?_, ?_⟩
  · rw [airborne_velocity_spec bits hlen htc, f4, f7, f9, f12, b45, b56, b67, b68,
      bin2int_natToBits_of_lt (by omega : st < 2 ^ 3), bin2int_natToBits_of_lt (by omega : v_ew < 2 ^ 10),
      bin2int_natToBits_of_lt (by omega : v_ns < 2 ^ 10), bin2int_natToBits_of_lt (by omega : vr < 2 ^ 9)]
  · rw [altitude_diff_partial bits hlen htc]
    simp only [f15, b80, bin2int_natToBits_of_lt (by omega : diff < 2 ^ 7)]

/-- non-vacuity: the frame of tests/test_adsb.py is such an encoding (ICAO 485020, parity 5B284F) -/
example : bitsToHexU (build (velFrame 17 5 0x485020 1 8 true 9 true 160 false true 14 0 false 23 0x5B284F)) =
    "8D485020994409940838175B284F" := by decide +kernel

end PyModeS.C09
