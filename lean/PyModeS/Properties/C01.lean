/-
  C01 — Mode S CRC-24: exact remainder, parity closure, error detection.

  `Spec.remH` is the Horner/LFSR form of "remainder of the frame polynomial modulo
  G(x) = 0x1FFF409"; `remH_eq_modByMonic` ties it to `%ₘ` in `(ZMod 2)[X]`.
  Helper lemmas live in `Proofs/CRC/*`; this file only holds the final statements, each
  followed by an `example` showing its hypotheses are met by a concrete non-trivial input
  (the real DF17 frame 8D406B902015A678D4D220AA4BDA from the test-suite).
-/
import PyModeS.Proofs.Bits
import PyModeS.Model.Common
import PyModeS.Proofs.CRC.Model
import PyModeS.Proofs.CRC.Weight
import PyModeS.Proofs.CRC.Poly
namespace PyModeS.C01
open PyModeS

/-- The generator literals in the source (regenerated on every run) are the Mode S generator
    0x1FFF409: `crc`'s four bytes are its 25 bits left-aligned, `crc_legacy`'s array is its bits. -/
theorem generator_tables :
    Tables.crcG = [0xFF, 0xFA, 0x04, 0x80] ∧
    bin2int (Tables.crcG.flatMap (natToBits 8)) = 0x1FFF409 <<< 7 ∧
    Tables.crcLegacyGen = natToBits 25 0x1FFF409 := by decide +kernel

/-! ### T1 — the byte-wise divider of `py_common.crc` is the remainder modulo G -/

/-- For every whole number ≥ 3 of bytes (not only 7 or 14), the Python byte-wise long division
    returns exactly the remainder of the message polynomial modulo G. -/
theorem crc_eq_remainder (bits : Bits) (h8 : bits.length % 8 = 0) (h24 : 24 ≤ bits.length) :
    crcBitsPy bits = Spec.remH bits :=
  CRC.crcBitsPy_eq_remH bits h8 h24

/-- message-level form, `encode=False`: any hex string with an even number ≥ 6 of digits -/
theorem crc_eq_remainder_msg (m : Msg) (h6 : 6 ≤ m.length) (h2 : m.length % 2 = 0) :
    crc m false = Spec.remH (hex2binM m) :=
  CRC.crc_false_eq_remH m h6 h2

example : (hex2bin "8D406B902015A678D4D220AA4BDA").length % 8 = 0 ∧
    24 ≤ (hex2bin "8D406B902015A678D4D220AA4BDA").length ∧
    Spec.remH (hex2bin "8D406B902015A678D4D220AA4BDA") = 0 := by decide +kernel
example : crcBitsPy (hex2bin "8D406B902015A678D4D220AA4BDA") = 0 := by
  rw [crc_eq_remainder _ (by decide +kernel) (by decide +kernel)]; decide +kernel
/-- 3-, 4- and 5-byte inputs (lengths the tests never use); `FFFA0480` is G·x^7 -/
example : crcBitsPy (hex2bin "FFFA05") = 0xFFFA05 ∧ crcBitsPy (hex2bin "FFFA0480") = 0 ∧
    crcBitsPy (hex2bin "0123456789") = 11879339 ∧
    Spec.remH (hex2bin "0123456789") = 11879339 := by decide +kernel

/-! ### T2 — `crc_legacy` is the same remainder -/

/-- `crc_legacy` divides `hex2bin(msg)` (with the last 24 bits zeroed when `encode=True`) -/
theorem crcLegacy_eq_remainder (m : Msg) (encode : Bool) (h : 24 ≤ (hex2binM m).length) :
    crcLegacy m encode =
      Spec.remH (if encode then dropLast 24 (hex2binM m) ++ List.replicate 24 false
                 else hex2binM m) :=
  CRC.crcLegacy_eq_remH m encode h

/-- hence both implementations agree on every even-length hex string of ≥ 6 digits -/
theorem crc_eq_crcLegacy (m : Msg) (encode : Bool) (h6 : 6 ≤ m.length) (h2 : m.length % 2 = 0) :
    crc m encode = crcLegacy m encode :=
  CRC.crc_eq_crcLegacy m encode h6 h2

example : 24 ≤ (hex2binM "8D406B902015A678D4D220AA4BDA".toList).length ∧
    crcLegacy "8D406B902015A678D4D220AA4BDA".toList false = 0 ∧
    crcLegacy "8D406B902015A678D4D220000000".toList true = 0xAA4BDA := by decide +kernel

/-! ### T3 — the remainder fits in 24 bits -/

theorem crc_lt (bits : Bits) : Spec.remH bits < 2 ^ 24 := CRC.remH_lt bits

example : Spec.remH (hex2bin "FFFFFFFFFFFFFFFFFFFFFFFFFFFF") = 3024563 := by decide +kernel

/-! ### T4 — GF(2)-linearity -/

theorem remH_xor (a b : Bits) (h : a.length = b.length) :
    Spec.remH (xorBits a b) = Spec.remH a ^^^ Spec.remH b :=
  CRC.remH_xor a b h

example : (hex2bin "8D406B902015A678D4D220AA4BDA").length = (hex2bin "0000000000FF00000000000000A5").length ∧
    Spec.remH (hex2bin "0000000000FF00000000000000A5") = 11691777 ∧
    Spec.remH (xorBits (hex2bin "8D406B902015A678D4D220AA4BDA") (hex2bin "0000000000FF00000000000000A5"))
      = 0 ^^^ 11691777 := by decide +kernel

/-! ### T5 — `encode=True` ignores the parity field -/

/-- With `encode=True`, `crc` returns the remainder of `data · x^24`; the right-hand side does not
    mention the last 6 hex digits of `m` at all. -/
theorem crc_encode_ignores_parity (m : Msg) (h6 : 6 ≤ m.length) (h2 : m.length % 2 = 0) :
    crc m true = Spec.remH (hex2binM (dropLast 6 m) ++ List.replicate 24 false) :=
  CRC.crc_true_eq_remH m h6 h2

/-- the same on an explicit split `data ++ parity` -/
theorem crc_encode_ignores_parity' (d p p' : Msg) (hp : p.length = 6) (hp' : p'.length = 6)
    (hd : d.length % 2 = 0) : crc (d ++ p) true = crc (d ++ p') true := by
  have e : ∀ q : Msg, q.length = 6 → dropLast 6 (d ++ q) = d := by
    intro q hq; simp [dropLast, hq]
  rw [crc_encode_ignores_parity (d ++ p) (by simp [hp]) (by simp [hp]; omega),
    crc_encode_ignores_parity (d ++ p') (by simp [hp']) (by simp [hp']; omega), e p hp, e p' hp']

example : crc "8D406B902015A678D4D220AA4BDA".toList true = 0xAA4BDA ∧
    crc "8D406B902015A678D4D220123456".toList true = 0xAA4BDA ∧
    Spec.remH (hex2binM "8D406B902015A678D4D220".toList ++ List.replicate 24 false) = 0xAA4BDA := by
  decide +kernel

/-! ### T6 — parity closure: appending the computed parity gives remainder 0 -/

theorem parity_closure (d : Bits) :
    Spec.remH (d ++ natToBits 24 (Spec.remH (d ++ List.replicate 24 false))) = 0 :=
  CRC.parity_closure d

example : hex2bin "8D406B902015A678D4D220" ++
    natToBits 24 (Spec.remH (hex2bin "8D406B902015A678D4D220" ++ List.replicate 24 false)) =
    hex2bin "8D406B902015A678D4D220AA4BDA" := by decide +kernel

/-! ### T7 — every burst error of length ≤ 24 is detected (any frame length, any position) -/

theorem burst_detected (v e b : Bits) (k m : Nat) (hv : Spec.remH v = 0)
    (he : e = List.replicate k false ++ b ++ List.replicate m false) (hl : e.length = v.length)
    (hb : b.length ≤ 24) (ht : true ∈ b) : Spec.remH (xorBits v e) ≠ 0 :=
  CRC.burst_detected v e b k m hv he hl hb ht

/-- hypotheses are satisfiable: a 24-bit burst `0xC0FFEE` at offset 40 of the real frame -/
example : ∃ v e b k m, Spec.remH v = 0 ∧
    e = List.replicate k false ++ b ++ List.replicate m false ∧ e.length = v.length ∧
    b.length ≤ 24 ∧ true ∈ b ∧ b.length = 24 :=
  ⟨hex2bin "8D406B902015A678D4D220AA4BDA", _, hex2bin "C0FFEE", 40, 48,
    by decide +kernel, rfl, by decide +kernel, by decide +kernel, by decide +kernel, by decide +kernel⟩
/-- the bound 24 is sharp: the generator itself is an undetected burst of length 25 -/
example : Spec.remH (natToBits 25 Spec.G ++ List.replicate 87 false) = 0 := by decide +kernel

/-! ### T8 — every error of weight 1…5 in a frame of at most 112 bits is detected -/

theorem weight_le5_detected (v e : Bits) (hv : Spec.remH v = 0) (hl : v.length ≤ 112)
    (he : e.length = v.length) (h1 : 1 ≤ Spec.weight e) (h5 : Spec.weight e ≤ 5) :
    Spec.remH (xorBits v e) ≠ 0 :=
  CRC.weight_le5_detected v e hv hl he h1 h5

/-- every multiple of G, of any length, has even weight (G has 16 terms, G(1) = 0) -/
theorem even_weight_of_remainder_zero (e : Bits) (h : Spec.remH e = 0) : Spec.weight e % 2 = 0 :=
  CRC.even_weight_of_remH_zero h

/-- hypotheses are satisfiable: five scattered bit flips in the real 112-bit frame -/
example : Spec.remH (hex2bin "8D406B902015A678D4D220AA4BDA") = 0 ∧
    (hex2bin "8D406B902015A678D4D220AA4BDA").length ≤ 112 ∧
    (hex2bin "8000000100000020000000040001").length = (hex2bin "8D406B902015A678D4D220AA4BDA").length ∧
    Spec.weight (hex2bin "8000000100000020000000040001") = 5 := by decide +kernel
/-- the bound 5 is sharp on 112 bits: a weight-6 multiple of G exists (minimum distance is 6) -/
example : Spec.remH (hex2bin "0800000200000200000400000003") = 0 ∧
    Spec.weight (hex2bin "0800000200000200000400000003") = 6 ∧
    (hex2bin "0800000200000200000400000003").length = 112 := by decide +kernel

/-! ### T9 — the Horner recursion is the polynomial remainder in `(ZMod 2)[X]` -/

open Polynomial in
/-- `natPoly n` has the binary digits of `n` as coefficients, `toPoly bits` has `bits` as
    coefficients (highest degree first, Horner form `p·X + b`), `Gpoly = natPoly 0x1FFF409`. -/
theorem remH_eq_modByMonic (bits : Bits) :
    CRC.natPoly (Spec.remH bits) = CRC.toPoly bits %ₘ CRC.Gpoly :=
  CRC.remH_eq_modByMonic bits

open Polynomial in
/-- sanity of the definitions used in the bridge -/
theorem poly_bridge_defs :
    CRC.Gpoly = CRC.natPoly Spec.G ∧ CRC.Gpoly.Monic ∧ CRC.Gpoly.natDegree = 24 ∧
    (∀ n i, (CRC.natPoly n).coeff i = if n.testBit i then 1 else 0) ∧
    CRC.toPoly [] = 0 ∧
    (∀ l b, CRC.toPoly (l ++ [b]) = CRC.toPoly l * X + C (if b then 1 else 0)) ∧
    Function.Injective CRC.natPoly :=
  ⟨rfl, CRC.Gpoly_monic, CRC.Gpoly_natDegree, CRC.coeff_natPoly, CRC.toPoly_nil, CRC.toPoly_snoc,
    CRC.natPoly_injective⟩

end PyModeS.C01
