/-
  C01 — Mode S CRC-24: exact remainder, parity closure, error detection.
-/
import PyModeS.Proofs.Bits
import PyModeS.Model.Common
namespace PyModeS.C01

/-- The generator literals in the source (regenerated on every run) are the Mode S generator
    0x1FFF409: `crc`'s four bytes are its 25 bits left-aligned, `crc_legacy`'s array is its bits. -/
theorem generator_tables :
    Tables.crcG = [0xFF, 0xFA, 0x04, 0x80] ∧
    bin2int (Tables.crcG.flatMap (natToBits 8)) = 0x1FFF409 <<< 7 ∧
    Tables.crcLegacyGen = natToBits 25 0x1FFF409 := by decide +kernel

end PyModeS.C01
