/-
  C07 — Altitude codes decode to the Annex 10 altitude, exhaustively.

  Model: `altitude13`, `altcode`/`altcodeB`, `altitude05`, `adsbAltitude`, `survAltitude`
  (Model/Common.lean, Model/Adsb.lean, Model/Misc.lean).  Spec: Spec/Altitude.lean.
-/
import PyModeS.Proofs.C07.All
import PyModeS.Proofs.C07.EncA
import PyModeS.Proofs.C07.EncB
import PyModeS.Proofs.C07.EncC
import PyModeS.Proofs.Hex
namespace PyModeS.C07
open Spec

/-- Every 13-bit string decodes to the altitude Annex 10 assigns to it (all 8192 codes). -/
theorem altitude13_spec (b : Bits) (h : b.length = 13) : altitude13 b = .val (alt13 (bin2int b)) := by
  have h1 := natToBits_bin2int b
  have h2 := bin2int_lt b
  rw [h] at h1 h2
  have := alt13_all (bin2int b) (by simpa using h2)
  rw [h1] at this
  exact this

/-- Any other length is rejected with RuntimeError. -/
theorem altitude13_bad_length (b : Bits) (h : b.length ≠ 13) : altitude13 b = .rte := by
  unfold altitude13
  split
  · simp at h
  · rfl

/-! The spec value is the inverse of the Annex 10 *encoders*: -/

/-- Q = 0: the Gillham code of every legal altitude −1200 … 126700 ft decodes to it. -/
theorem gillham_roundtrip (k : Nat) (h : k < 1280) :
    altitude13 (ac13OfAlt k) = .val (some ((k : Int) * 100 - 1200)) := by
  have hl : (ac13OfAlt k).length = 13 := rfl
  rw [altitude13_spec _ hl]
  have := all_range_imp gillham_enum k h
  simpa using this

/-- Q = 1: `N*25 − 1000` ft for every `N < 2048`. -/
theorem q25_roundtrip (n : Nat) (h : n < 2048) :
    altitude13 (ac13OfN25 n) = .val (some ((n : Int) * 25 - 1000)) := by
  have hl : (ac13OfN25 n).length = 13 := by simp [ac13OfN25] <;> omega
  rw [altitude13_spec _ hl]
  have := all_range_imp q25_enum n h
  simpa using this

/-- M = 1: metres converted to feet, `⌊N·3.28084⌋`, for every `0 < N < 4096`. -/
theorem metric_roundtrip (n : Nat) (h0 : 0 < n) (h : n < 4096) :
    altitude13 (ac13OfMetric n) = .val (some (((n * 328084 / 100000 : Nat) : Int))) := by
  have hl : (ac13OfMetric n).length = 13 := by simp [ac13OfMetric] <;> omega
  rw [altitude13_spec _ hl]
  have := all_range'_imp metric_enum n (by omega) (by omega)
  simpa using this

/-- The all-zero code is "no altitude". -/
theorem zero_code_none : altitude13 (natToBits 13 0) = .val none := by decide

/-- Illegal Gillham patterns (C1 C2 C4 ∈ {000, 101, 111}) decode to `None` for every 500-ft field. -/
theorem illegal_gillham_none (g : Nat) (h : g < 256) :
    alt13 (bin2int (ac13OfGillham g 0)) = none ∧ alt13 (bin2int (ac13OfGillham g 5)) = none ∧
    alt13 (bin2int (ac13OfGillham g 7)) = none := by
  have := all_range_imp illegal_enum g h
  simpa using this

/-! Frame level: the decoders read exactly the AC field and ignore every other bit. -/

/-- DF 0/4/16/20, any frame of at least 32 bits: the result is the Annex 10 altitude of bits 20–32
    (a function of the DF and the AC field only); every other DF is rejected. -/
theorem altcode_frame (bits : Bits) (h : 32 ≤ bits.length) :
    altcodeB bits =
      if dfB bits = 0 ∨ dfB bits = 4 ∨ dfB bits = 16 ∨ dfB bits = 20
      then .val (alt13 (bin2int (slice 19 32 bits))) else .rte := by
  unfold altcodeB
  have hl : (slice 19 32 bits).length = 13 := by rw [slice_length_of_le h]
  rw [altitude13_spec _ hl]
  by_cases h0 : dfB bits = 0 <;> by_cases h4 : dfB bits = 4 <;> by_cases h16 : dfB bits = 16 <;>
    by_cases h20 : dfB bits = 20 <;> simp [h0, h4, h16, h20]

/-- The string-level `py_common.altcode` is that function of `hex2bin(msg)`. -/
theorem altcode_msg (m : Msg) : altcode m = altcodeB (hex2binM m) := altcode_eq m

/-- `surv.altitude`: DF 4 only (DF 5 carries an identity code). -/
theorem surv_altitude_frame (bits : Bits) (h : 32 ≤ bits.length) :
    survAltitude bits = if dfB bits = 4 then .val (alt13 (bin2int (slice 19 32 bits))) else .rte := by
  unfold survAltitude survGuard
  rw [altcode_frame bits h]
  by_cases h4 : dfB bits = 4
  · simp [h4]
  · by_cases h5 : dfB bits = 5
    · simp [h5]
    · simp [h4, h5]

/-- The 12-bit ADS-B altitude field (ME bits 9–20) with the M bit re-inserted as 0. -/
def ac13OfAdsb (bits : Bits) : Bits := slice 40 46 bits ++ [false] ++ slice 46 52 bits

/-- `adsb.altitude` / `bds05.altitude` on any 112-bit frame: TC 9–18 barometric code (12-bit field,
    M = 0), TC 20–22 GNSS height in metres × 3.28084, TC 5–8 zero, RuntimeError otherwise.
    The result is a function of DF, TC and ME bits 9–20 only. -/
theorem adsb_altitude_frame (bits : Bits) (h : bits.length = 112) :
    adsbAltitude bits =
      match tcB bits with
      | none => .rte
      | some tc =>
        if 5 ≤ tc ∧ tc ≤ 8 then .val (some 0)
        else if 9 ≤ tc ∧ tc ≤ 18 then .val (optIntToRat (alt13 (bin2int (ac13OfAdsb bits))))
        else if 20 ≤ tc ∧ tc ≤ 22 then .val (some ((bin2int (slice 40 52 bits) : Rat) * 328084 / 100000))
        else .rte := by
  unfold adsbAltitude altitude05
  cases htc : tcB bits with
  | none => rfl
  | some tc =>
    simp only
    have hs1 : slice 8 20 (List.drop 32 bits) = slice 40 52 bits := by rw [slice_drop]
    have hl : (slice 40 52 bits).length = 12 := by rw [slice_length_of_le (by omega)]
    have hs2 : slice 0 6 (slice 40 52 bits) = slice 40 46 bits := by
      simp only [slice, List.drop_zero, List.take_take]; congr 1
    have hs3 : List.drop 6 (slice 40 52 bits) = slice 46 52 bits := by
      simp only [slice, List.drop_take, List.drop_drop]
    have hl13 : (ac13OfAdsb bits).length = 13 := by
      unfold ac13OfAdsb
      simp only [List.length_append, List.length_singleton]
      rw [slice_length_of_le (by omega), slice_length_of_le (by omega)]
    have hne : slice 40 52 bits ≠ [] := by intro h0; rw [h0] at hl; simp at hl
    by_cases c1 : tc < 5 ∨ tc = 19 ∨ tc > 22
    · have : ¬ (5 ≤ tc ∧ tc ≤ 8) := by omega
      have : ¬ (9 ≤ tc ∧ tc ≤ 18) := by omega
      have : ¬ (20 ≤ tc ∧ tc ≤ 22) := by omega
      simp [*]
    · by_cases c2 : 5 ≤ tc ∧ tc ≤ 8
      · have : tc ≥ 5 ∧ tc ≤ 8 := c2
        simp [*]
      · have c2' : ¬ (tc ≥ 5 ∧ tc ≤ 8) := c2
        have c3 : ¬ (tc < 9 ∨ tc = 19 ∨ tc > 22) := by omega
        simp only [c1, c2, c2', c3, if_false, htc]
        rw [hs1, hs2, hs3]
        by_cases c4 : tc < 19
        · have c5 : 9 ≤ tc ∧ tc ≤ 18 := by omega
          simp only [c4, c5, if_true]
          show (altitude13 (ac13OfAdsb bits) >>= _) = _
          rw [altitude13_spec _ hl13]
          rfl
        · have c5 : ¬ (9 ≤ tc ∧ tc ≤ 18) := by omega
          have c6 : 20 ≤ tc ∧ tc ≤ 22 := by omega
          simp only [c4, c5, c6, if_true, if_false]
          rw [bin2intR_eq hne]
          rfl

/-- non-vacuity: a real frame from tests/ (TC 11, 38000 ft) -/
example : adsbAltitude (hex2bin "8D40058B58C901375147EFD09357") = .val (some 39000) := by decide +kernel

end PyModeS.C07
