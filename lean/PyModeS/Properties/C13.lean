/-
  C13 — ADS-B status, intent and quality indicators (TC 19/28/29/31).
-/
import PyModeS.Proofs.Enum
import PyModeS.Proofs.Bits
import PyModeS.Model.Adsb
namespace PyModeS.C13

/-- Totality of the regenerated type-code look-ups: every position type code 5–18 and 20–22 has
    a NUCp, a NIC v1 entry and a NIC v2 entry. -/
theorem tc_lookups_total : (List.range 32).all (fun tc =>
    if (5 ≤ tc ∧ tc ≤ 18) ∨ (20 ≤ tc ∧ tc ≤ 22) then
      (lookup Tables.tcNUCp tc).isSome && (lookup Tables.tcNICv1 tc).isSome && (lookup Tables.tcNICv2 tc).isSome
    else true) = true := by decide +kernel

/-- every NUCp / NACp / NUCv / NACv / SIL category that a field can carry and DO-260B defines has a row -/
theorem category_tables_total :
    (List.range 10).all (fun k => (lookup Tables.tblNUCp k).isSome) = true ∧
    (List.range 12).all (fun k => (lookup Tables.tblNACp k).isSome) = true ∧
    (List.range 5).all (fun k => (lookup Tables.tblNUCv k).isSome && (lookup Tables.tblNACv k).isSome) = true ∧
    (List.range 4).all (fun k => (lookup Tables.tblSIL k).isSome) = true := by decide +kernel

/-- `a` is at least as tight as `b` (a missing bound is the loosest) -/
def tighter (a b : Option Rat) : Bool :=
  match a, b with
  | _, none => true
  | none, some _ => false
  | some x, some y => decide (x ≤ y)

/-- column `c` of table `t` is monotone: a higher category never maps to a looser bound -/
def monotoneCol (t : List (Nat × List (Option Rat))) (n c : Nat) : Bool :=
  (List.range n).all (fun k =>
    match lookup t k, lookup t (k + 1) with
    | some lo, some hi => tighter (col hi c) (col lo c)
    | _, _ => true)

theorem category_tables_monotone :
    monotoneCol Tables.tblNUCp 9 0 = true ∧ monotoneCol Tables.tblNUCp 9 1 = true ∧
    monotoneCol Tables.tblNACp 11 0 = true ∧ monotoneCol Tables.tblNACp 11 1 = true ∧
    monotoneCol Tables.tblNUCv 4 0 = true ∧ monotoneCol Tables.tblNUCv 4 1 = true ∧
    monotoneCol Tables.tblNACv 4 0 = true ∧ monotoneCol Tables.tblNACv 4 1 = true ∧
    monotoneCol Tables.tblSIL 3 0 = true ∧ monotoneCol Tables.tblSIL 3 1 = true := by decide +kernel

/-- the type code -> NUCp map is monotone within each family (lower TC = higher category) -/
theorem tc_nucp_monotone : (List.range 31).all (fun tc =>
    match lookup Tables.tcNUCp tc, lookup Tables.tcNUCp (tc + 1) with
    | some a, some b => if tc = 8 then true else decide (b ≤ a)
    | _, _ => true) = true := by decide +kernel

/-- `is_emergency` is true exactly when subtype 1 reports an emergency state other than 0
    (subtype 2, ACAS RA, is refused); it reads ME bits 6–11 only. -/
theorem is_emergency_spec (bits : Bits) (h : bits.length = 112) (htc : tcB bits = some 28) :
    isEmergency bits =
      let st := bin2int (slice 37 40 bits)
      if st = 2 then .rte else .val (decide (st = 1 ∧ bin2int (slice 40 43 bits) ≠ 0)) := by
  unfold isEmergency
  have e1 : slice 5 8 (List.drop 32 bits) = slice 37 40 bits := by rw [slice_drop]
  have e2 : slice 8 11 (List.drop 32 bits) = slice 40 43 bits := by rw [slice_drop]
  have l1 : 0 < (slice 37 40 bits).length := by rw [slice_length_of_le (by omega)]; omega
  have l2 : 0 < (slice 40 43 bits).length := by rw [slice_length_of_le (by omega)]; omega
  simp only [htc, ne_eq, not_true_eq_false, if_false]
  rw [e1, e2, bin2intR_of_length l1, bin2intR_of_length l2]
  simp only [Res.bind_val]
  split <;> rfl

end PyModeS.C13

namespace PyModeS.C13

/-- The regenerated type-code look-ups equal the DO-260B tables (NUCp by TC; NIC v1 by TC and supplement;
    NIC v2 by TC and supplements A·2 + B/C): any edited cell breaks this theorem. -/
theorem tc_tables_spec :
    Tables.tcNUCp = [(0, 0), (5, 9), (6, 8), (7, 7), (8, 6), (9, 9), (10, 8), (11, 7), (12, 6), (13, 5), (14, 4), (15, 3),
      (16, 2), (17, 1), (18, 0), (20, 9), (21, 8), (22, 0)] ∧
    Tables.tcNICv1 = [(5, [(none, 11)]), (6, [(none, 10)]), (7, [(none, 9)]), (8, [(none, 0)]), (9, [(none, 11)]), (10, [(none, 10)]),
      (11, [(some 0, 8), (some 1, 9)]), (12, [(none, 7)]), (13, [(none, 6)]), (14, [(none, 5)]), (15, [(none, 4)]),
      (16, [(some 0, 2), (some 1, 3)]), (17, [(none, 1)]), (18, [(none, 0)]), (20, [(none, 11)]), (21, [(none, 10)]), (22, [(none, 0)])] ∧
    Tables.tcNICv2 = [(5, [(none, 11)]), (6, [(none, 10)]), (7, [(some 0, 8), (some 2, 9)]),
      (8, [(some 0, 0), (some 1, 6), (some 2, 6), (some 3, 7)]), (9, [(none, 11)]), (10, [(none, 10)]), (11, [(some 0, 8), (some 3, 9)]),
      (12, [(none, 7)]), (13, [(none, 6)]), (14, [(none, 5)]), (15, [(none, 4)]), (16, [(some 0, 2), (some 3, 3)]), (17, [(none, 1)]),
      (18, [(none, 0)]), (20, [(none, 11)]), (21, [(none, 10)]), (22, [(none, 0)])] := by
  decide

end PyModeS.C13
