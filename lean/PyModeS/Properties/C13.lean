/-
  C13 — ADS-B status, intent and quality indicators (TC 19/28/29/31).
-/
import PyModeS.Proofs.Enum
import PyModeS.Proofs.Bits
import PyModeS.Model.Adsb
import PyModeS.Proofs.Fields.Frame
namespace PyModeS.C13

/-- Totality of the regenerated type-code look-ups: every position type code 5–18 and 20–22 has
    a NUCp, a NIC v1 entry and a NIC v2 entry. -/
theorem tc_lookups_total : (List.range 32).all (fun tc =>
    if (5 ≤ tc ∧ tc ≤ 18) ∨ (20 ≤ tc ∧ tc ≤ 22) then
      (lookup Tables.tcNUCp tc).isSome && (lookup Tables.tcNICv1 tc).isSome && (lookup Tables.tcNICv2 tc).isSome
    else true) = true := by decide +kernel

/-- every NUCp / NACp / NUCv / NACv / SIL category that a field can carry and DO-260B defines has a row -/
theorem category_tables_total :
    (List.range 10).all (fun k => (lookup Tables.tblNUCp k).isSome) = true ∧
    (List.range 12).all (fun k => (lookup Tables.tblNACp k).isSome) = true ∧
    (List.range 5).all (fun k => (lookup Tables.tblNUCv k).isSome && (lookup Tables.tblNACv k).isSome) = true ∧
    (List.range 4).all (fun k => (lookup Tables.tblSIL k).isSome) = true := by decide +kernel

/-- `a` is at least as tight as `b` (a missing bound is the loosest) -/
def tighter (a b : Option Rat) : Bool :=
  match a, b with
  | _, none => true
  | none, some _ => false
  | some x, some y => decide (x ≤ y)

/-- column `c` of table `t` is monotone: a higher category never maps to a looser bound -/
def monotoneCol (t : List (Nat × List (Option Rat))) (n c : Nat) : Bool :=
  (List.range n).all (fun k =>
    match lookup t k, lookup t (k + 1) with
    | some lo, some hi => tighter (col hi c) (col lo c)
    | _, _ => true)

theorem category_tables_monotone :
    monotoneCol Tables.tblNUCp 9 0 = true ∧ monotoneCol Tables.tblNUCp 9 1 = true ∧
    monotoneCol Tables.tblNACp 11 0 = true ∧ monotoneCol Tables.tblNACp 11 1 = true ∧
    monotoneCol Tables.tblNUCv 4 0 = true ∧ monotoneCol Tables.tblNUCv 4 1 = true ∧
    monotoneCol Tables.tblNACv 4 0 = true ∧ monotoneCol Tables.tblNACv 4 1 = true ∧
    monotoneCol Tables.tblSIL 3 0 = true ∧ monotoneCol Tables.tblSIL 3 1 = true := by decide +kernel

/-- the type code -> NUCp map is monotone within each family (lower TC = higher category) -/
theorem tc_nucp_monotone : (List.range 31).all (fun tc =>
    match lookup Tables.tcNUCp tc, lookup Tables.tcNUCp (tc + 1) with
    | some a, some b => if tc = 8 then true else decide (b ≤ a)
    | _, _ => true) = true := by decide +kernel

/-- `is_emergency` is true exactly when subtype 1 reports an emergency state other than 0
    (subtype 2, ACAS RA, is refused); it reads ME bits 6–11 only. -/
theorem is_emergency_spec (bits : Bits) (h : bits.length = 112) (htc : tcB bits = some 28) :
    isEmergency bits =
      let st := bin2int (slice 37 40 bits)
      if st = 2 then .rte else .val (decide (st = 1 ∧ bin2int (slice 40 43 bits) ≠ 0)) := by
  unfold isEmergency
  have e1 : slice 5 8 (List.drop 32 bits) = slice 37 40 bits := by rw [slice_drop]
  have e2 : slice 8 11 (List.drop 32 bits) = slice 40 43 bits := by rw [slice_drop]
  have l1 : 0 < (slice 37 40 bits).length := by rw [slice_length_of_le (by omega)]; omega
  have l2 : 0 < (slice 40 43 bits).length := by rw [slice_length_of_le (by omega)]; omega
  simp only [htc, ne_eq, not_true_eq_false, if_false]
  rw [e1, e2, bin2intR_of_length l1, bin2intR_of_length l2]
  simp only [Res.bind_val]
  split <;> rfl

end PyModeS.C13

namespace PyModeS.C13

/-- The regenerated type-code look-ups equal the DO-260B tables (NUCp by TC; NIC v1 by TC and supplement;
    NIC v2 by TC and supplements A·2 + B/C): any edited cell breaks this theorem. -/
theorem tc_tables_spec :
    Tables.tcNUCp = [(0, 0), (5, 9), (6, 8), (7, 7), (8, 6), (9, 9), (10, 8), (11, 7), (12, 6), (13, 5), (14, 4), (15, 3),
      (16, 2), (17, 1), (18, 0), (20, 9), (21, 8), (22, 0)] ∧
    Tables.tcNICv1 = [(5, [(none, 11)]), (6, [(none, 10)]), (7, [(none, 9)]), (8, [(none, 0)]), (9, [(none, 11)]), (10, [(none, 10)]),
      (11, [(some 0, 8), (some 1, 9)]), (12, [(none, 7)]), (13, [(none, 6)]), (14, [(none, 5)]), (15, [(none, 4)]),
      (16, [(some 0, 2), (some 1, 3)]), (17, [(none, 1)]), (18, [(none, 0)]), (20, [(none, 11)]), (21, [(none, 10)]), (22, [(none, 0)])] ∧
    Tables.tcNICv2 = [(5, [(none, 11)]), (6, [(none, 10)]), (7, [(some 0, 8), (some 2, 9)]),
      (8, [(some 0, 0), (some 1, 6), (some 2, 6), (some 3, 7)]), (9, [(none, 11)]), (10, [(none, 10)]), (11, [(some 0, 8), (some 3, 9)]),
      (12, [(none, 7)]), (13, [(none, 6)]), (14, [(none, 5)]), (15, [(none, 4)]), (16, [(some 0, 2), (some 3, 3)]), (17, [(none, 1)]),
      (18, [(none, 0)]), (20, [(none, 11)]), (21, [(none, 10)]), (22, [(none, 0)])] := by
  decide

end PyModeS.C13

/-! ## Frame-level field theorems: bds61 (TC 28), bds62 (TC 29), adsb.py version / NIC / NAC / SIL -/

namespace PyModeS.C13
open Fields

/-! ### TC 28 -/

/-- `emergency_state`: ME bits 9-11 (subtype 2, the ACAS RA broadcast, is refused) -/
theorem emergency_state_spec (bits : Bits) (h : bits.length = 112) (htc : tcB bits = some 28) :
    emergencyState bits =
      if bin2int (slice 37 40 bits) = 2 then .rte else .val (bin2int (slice 40 43 bits)) := by
  unfold emergencyState
  simp only [htc, ne_eq, not_true_eq_false, if_false]
  rw [bin2intR_slice_drop h 32 5 8 (by omega) (by omega), bin2intR_slice_drop h 32 8 11 (by omega) (by omega)]
  rfl

theorem emergency_state_guard (bits : Bits) (htc : tcB bits ≠ some 28) : emergencyState bits = .rte := by
  unfold emergencyState; simp [htc]

theorem is_emergency_guard (bits : Bits) (htc : tcB bits ≠ some 28) : isEmergency bits = .rte := by
  unfold isEmergency; simp [htc]

/-- `is_emergency()` is true exactly when `emergency_state()` reports a state other than "none" (0)
    in an emergency/priority-status message (subtype 1; subtype 0 means "no information"); both
    functions refuse subtype 2 (ACAS RA broadcast) with RuntimeError. -/
theorem is_emergency_iff (bits : Bits) (h : bits.length = 112) (htc : tcB bits = some 28) :
    (bin2int (slice 37 40 bits) = 2 → emergencyState bits = .rte ∧ isEmergency bits = .rte) ∧
    (bin2int (slice 37 40 bits) ≠ 2 → ∃ s, emergencyState bits = .val s ∧
      isEmergency bits = .val (decide (bin2int (slice 37 40 bits) = 1 ∧ s ≠ 0))) := by
  rw [emergency_state_spec bits h htc, is_emergency_spec bits h htc]
  refine ⟨fun hst => by simp [hst], fun hst => ⟨bin2int (slice 40 43 bits), by simp [hst], by simp [hst]⟩⟩

/-! ### TC 29 (target state and status) -/

/-- every bds62 decoder raises RuntimeError unless TC = 29 -/
theorem tc29_guards (bits : Bits) (htc : tcB bits ≠ some 29) :
    selectedAltitude bits = .rte ∧ targetAltitude bits = .rte ∧ verticalMode bits = .rte ∧
    horizontalMode bits = .rte ∧ selectedHeading bits = .rte ∧ targetAngle bits = .rte ∧
    baroPressureSetting bits = .rte ∧ (∀ k, modeFlag k bits = .rte) ∧ tcasOperational bits = .rte ∧
    tcasRa bits = .rte ∧ emergencyStatus bits = .rte := by
  refine ⟨?_, ?_, ?_, ?_, ?_, ?_, ?_, fun k => ?_, ?_, ?_, ?_⟩ <;>
  first
  | (unfold selectedAltitude; rw [tc29_rte htc]; rfl)
  | (unfold targetAltitude; rw [tc29_rte htc]; rfl)
  | (unfold verticalMode; rw [tc29_rte htc]; rfl)
  | (unfold horizontalMode; rw [tc29_rte htc]; rfl)
  | (unfold selectedHeading; rw [tc29_rte htc]; rfl)
  | (unfold targetAngle; rw [tc29_rte htc]; rfl)
  | (unfold baroPressureSetting; rw [tc29_rte htc]; rfl)
  | (unfold modeFlag; rw [tc29_rte htc]; rfl)
  | (unfold tcasOperational; rw [tc29_rte htc]; rfl)
  | (unfold tcasRa; rw [tc29_rte htc]; rfl)
  | (unfold emergencyStatus; rw [tc29_rte htc]; rfl)

/-- selected altitude (subtype 1): `(N − 1)·32 ft` of ME bits 10-20, `None`/"N/A" for N = 0,
    source by ME bit 9 -/
theorem selected_altitude_spec (bits : Bits) (h : bits.length = 112) (htc : tcB bits = some 29) :
    selectedAltitude bits =
      let st := bin2int (slice 37 39 bits)
      let n := bin2int (slice 41 52 bits)
      if st = 0 then .rte
      else .val (if n = 0 then (none, "N/A")
        else (some ((n - 1) * 32), if bits[40]'(by omega) then "FMS" else "MCP/FCU")) := by
  unfold selectedAltitude
  rw [tc29_val h htc]
  simp only [Res.bind_val]
  rw [bin2intR_slice_drop h 32 9 20 (by omega) (by omega), idxR_drop 32 8 (by omega)]
  simp only [Nat.reduceAdd, Res.bind_val, Res.pure_eq]
  split
  · rfl
  · split
    · rfl
    · cases bits[40]'(by omega) <;> rfl

/-- target altitude (subtype 0): `−1000 + N·100 ft` of ME bits 16-25; availability/source by ME bits
    8-9 (`None` for 0), reference FL/MSL by ME bit 10 -/
theorem target_altitude_spec (bits : Bits) (h : bits.length = 112) (htc : tcB bits = some 29) :
    targetAltitude bits =
      let st := bin2int (slice 37 39 bits)
      let avail := bin2int (slice 39 41 bits)
      let n := bin2int (slice 47 57 bits)
      if st = 1 then .rte
      else .val (if avail = 0 then (none, "N/A", "")
        else (some (-1000 + (n : Int) * 100),
          if avail = 1 then "MCP/FCU" else if avail = 2 then "Holding mode" else "FMS/RNAV",
          if bits[41]'(by omega) then "MSL" else "FL")) := by
  unfold targetAltitude
  rw [tc29_val h htc]
  simp only [Res.bind_val]
  rw [bin2intR_slice_drop h 32 7 9 (by omega) (by omega), bin2intR_slice_drop h 32 15 25 (by omega) (by omega),
    idxR_drop 32 9 (by omega)]
  simp only [Nat.reduceAdd, Res.bind_val, Res.pure_eq]
  split
  · rfl
  · split
    · rfl
    · cases bits[41]'(by omega) <;> rfl

/-- vertical mode (subtype 0): ME bits 14-15, `None` for 0 -/
theorem vertical_mode_spec (bits : Bits) (h : bits.length = 112) (htc : tcB bits = some 29) :
    verticalMode bits =
      let st := bin2int (slice 37 39 bits)
      let v := bin2int (slice 45 47 bits)
      if st = 1 then .rte else .val (if v = 0 then none else some v) := by
  unfold verticalMode
  rw [tc29_val h htc]
  simp only [Res.bind_val]
  rw [bin2intR_slice_drop h 32 13 15 (by omega) (by omega)]
  rfl

/-- horizontal mode (subtype 0): ME bits 26-27, `None` for 0 -/
theorem horizontal_mode_spec (bits : Bits) (h : bits.length = 112) (htc : tcB bits = some 29) :
    horizontalMode bits =
      let st := bin2int (slice 37 39 bits)
      let v := bin2int (slice 57 59 bits)
      if st = 1 then .rte else .val (if v = 0 then none else some v) := by
  unfold horizontalMode
  rw [tc29_val h htc]
  simp only [Res.bind_val]
  rw [bin2intR_slice_drop h 32 25 27 (by omega) (by omega)]
  rfl

/-- selected heading as a function of the sign bit and the 8-bit magnitude: `sign·180 + N·180/256` -/
def headingOf (sign : Bool) (n : Nat) : Rat := (if sign then 180 else 0) + (n : Rat) * 180 / 256

/-- selected heading (subtype 1): `None` when the status bit (ME bit 30) is 0, else
    `sign·180 + N·180/256` degrees with the sign at ME bit 31 and N at ME bits 32-39 -/
theorem selected_heading_spec (bits : Bits) (h : bits.length = 112) (htc : tcB bits = some 29) :
    selectedHeading bits =
      let st := bin2int (slice 37 39 bits)
      if st = 0 then .rte
      else .val (if bits[61]'(by omega) then
        some (headingOf (bits[62]'(by omega)) (bin2int (slice 63 71 bits))) else none) := by
  unfold selectedHeading
  rw [tc29_val h htc]
  simp only [Res.bind_val]
  rw [bin2intR_slice_drop h 32 31 39 (by omega) (by omega), idxR_drop 32 29 (by omega), idxR_drop 32 30 (by omega)]
  simp only [Nat.reduceAdd, Res.bind_val, Res.pure_eq, headingOf]
  have e : ∀ v : Rat, v * (180 / 256) = v * 180 / 256 := by
    intro v; rw [Rat.div_def, Rat.div_def, Rat.mul_assoc]
  have e1 : (((b2n true : Nat) : Rat)) * 180 = 180 := by decide +kernel
  have e0 : (((b2n false : Nat) : Rat)) * 180 = 0 := by decide +kernel
  split
  · rfl
  · cases bits[61]'(by omega)
    · rfl
    · cases bits[62]'(by omega)
      · simp only [if_true, e, e0]; rfl
      · simp only [if_true, e, e1]; rfl

/-- the selected heading covers the full circle: with the sign bit as the 180° bit it is the 9-bit
    number `sign·256 + N` in units of 360/512°, hence in `[0, 360)`, and 180° and above is reachable -/
theorem heading_full_range : (List.range 256).all (fun n =>
    decide (headingOf false n = ((n : Nat) : Rat) * 360 / 512 ∧
      headingOf true n = ((256 + n : Nat) : Rat) * 360 / 512 ∧
      0 ≤ headingOf false n ∧ headingOf false n < 180 ∧ 180 ≤ headingOf true n ∧ headingOf true n < 360)) = true := by
  decide +kernel

/-- target heading / track angle (subtype 0): N degrees of ME bits 28-36, availability/source by ME
    bits 26-27 (`None` for 0), heading/track by ME bit 37 -/
theorem target_angle_spec (bits : Bits) (h : bits.length = 112) (htc : tcB bits = some 29) :
    targetAngle bits =
      let st := bin2int (slice 37 39 bits)
      let avail := bin2int (slice 57 59 bits)
      let n := bin2int (slice 59 68 bits)
      if st = 1 then .rte
      else .val (if avail = 0 then (none, "", "N/A")
        else (some n, if bits[68]'(by omega) then "Heading" else "Track",
          if avail = 1 then "MCP/FCU" else if avail = 2 then "Autopilot mode" else "FMS/RNAV")) := by
  unfold targetAngle
  rw [tc29_val h htc]
  simp only [Res.bind_val]
  rw [bin2intR_slice_drop h 32 25 27 (by omega) (by omega), bin2intR_slice_drop h 32 27 36 (by omega) (by omega),
    idxR_drop 32 36 (by omega)]
  simp only [Nat.reduceAdd, Res.bind_val, Res.pure_eq]
  split
  · rfl
  · split <;> rfl

/-- barometric pressure setting (subtype 1): `800 + (N − 1)·0.8 hPa` of ME bits 21-29, `None` for 0 -/
theorem baro_pressure_setting_spec (bits : Bits) (h : bits.length = 112) (htc : tcB bits = some 29) :
    baroPressureSetting bits =
      let st := bin2int (slice 37 39 bits)
      let n := bin2int (slice 52 61 bits)
      if st = 0 then .rte
      else .val (if n = 0 then none else some (800 + (((n : Int) - 1 : Int) : Rat) * 4 / 5)) := by
  unfold baroPressureSetting
  rw [tc29_val h htc]
  simp only [Res.bind_val]
  rw [bin2intR_slice_drop h 32 20 29 (by omega) (by omega)]
  rfl

/-- mode flags (subtype 1): `None` when the mode-status bit (ME bit 47) is 0, else ME bit `k + 1` -/
theorem mode_flag_spec (k : Nat) (hk : k < 80) (bits : Bits) (h : bits.length = 112) (htc : tcB bits = some 29) :
    modeFlag k bits =
      let st := bin2int (slice 37 39 bits)
      if st = 0 then .rte
      else .val (if bits[78]'(by omega) then some (bits[32 + k]'(by omega)) else none) := by
  unfold modeFlag
  rw [tc29_val h htc]
  simp only [Res.bind_val]
  rw [idxR_drop 32 46 (by omega), idxR_drop 32 k (by omega)]
  simp only [Nat.reduceAdd, Res.bind_val, Res.pure_eq]
  split
  · rfl
  · cases bits[78]'(by omega) <;> rfl

theorem autopilot_spec (bits : Bits) (h : bits.length = 112) (htc : tcB bits = some 29) :
    autopilot bits = if bin2int (slice 37 39 bits) = 0 then .rte
      else .val (if bits[78]'(by omega) then some (bits[79]'(by omega)) else none) :=
  mode_flag_spec 47 (by omega) bits h htc

theorem vnav_mode_spec (bits : Bits) (h : bits.length = 112) (htc : tcB bits = some 29) :
    vnavMode bits = if bin2int (slice 37 39 bits) = 0 then .rte
      else .val (if bits[78]'(by omega) then some (bits[80]'(by omega)) else none) :=
  mode_flag_spec 48 (by omega) bits h htc

theorem altitude_hold_mode_spec (bits : Bits) (h : bits.length = 112) (htc : tcB bits = some 29) :
    altitudeHoldMode bits = if bin2int (slice 37 39 bits) = 0 then .rte
      else .val (if bits[78]'(by omega) then some (bits[81]'(by omega)) else none) :=
  mode_flag_spec 49 (by omega) bits h htc

theorem approach_mode_spec (bits : Bits) (h : bits.length = 112) (htc : tcB bits = some 29) :
    approachMode bits = if bin2int (slice 37 39 bits) = 0 then .rte
      else .val (if bits[78]'(by omega) then some (bits[83]'(by omega)) else none) :=
  mode_flag_spec 51 (by omega) bits h htc

theorem lnav_mode_spec (bits : Bits) (h : bits.length = 112) (htc : tcB bits = some 29) :
    lnavMode bits = if bin2int (slice 37 39 bits) = 0 then .rte
      else .val (if bits[78]'(by omega) then some (bits[85]'(by omega)) else none) :=
  mode_flag_spec 53 (by omega) bits h htc

/-- TCAS/ACAS operational: subtype 0 carries "not operational" at ME bit 52 (inverted), subtype 1
    "operational" at ME bit 53; never refused for TC 29 -/
theorem tcas_operational_spec (bits : Bits) (h : bits.length = 112) (htc : tcB bits = some 29) :
    tcasOperational bits =
      .val (if bin2int (slice 37 39 bits) = 0 then !(bits[83]'(by omega)) else bits[84]'(by omega)) := by
  unfold tcasOperational
  rw [tc29_val h htc]
  simp only [Res.bind_val]
  rw [idxR_drop 32 51 (by omega), idxR_drop 32 52 (by omega)]
  simp only [Nat.reduceAdd, Res.bind_val, Res.pure_eq]
  split
  · cases bits[83]'(by omega) <;> rfl
  · rfl

/-- TCAS/ACAS resolution advisory active (subtype 0): ME bit 53 -/
theorem tcas_ra_spec (bits : Bits) (h : bits.length = 112) (htc : tcB bits = some 29) :
    tcasRa bits = if bin2int (slice 37 39 bits) = 1 then .rte else .val (bits[84]'(by omega)) := by
  unfold tcasRa
  rw [tc29_val h htc]
  simp only [Res.bind_val]
  rw [idxR_drop 32 52 (by omega)]

/-- emergency / priority status (subtype 0): ME bits 54-56 -/
theorem emergency_status_spec (bits : Bits) (h : bits.length = 112) (htc : tcB bits = some 29) :
    emergencyStatus bits =
      if bin2int (slice 37 39 bits) = 1 then .rte else .val (bin2int (slice 85 88 bits)) := by
  unfold emergencyStatus
  rw [tc29_val h htc]
  simp only [Res.bind_val]
  rw [bin2intR_slice_drop h 32 53 56 (by omega) (by omega)]

end PyModeS.C13

/-! ## adsb.py: version, NIC supplements, NUC / NAC / SIL / NIC categories -/

namespace PyModeS.C13
open Fields

/-- a category value with its two table columns: the row of `v` in the regenerated table `t`
    (`uncertainty.py`), `(v, None, None)` when the table has no such row -/
def catRow (t : List (Nat × List (Option Rat))) (v : Nat) : Nat × Option Rat × Option Rat :=
  match lookup t v with
  | some row => (v, col row 0, col row 1)
  | none => (v, none, none)

/-- ADS-B version (TC 31): ME bits 41-43 -/
theorem version_spec (bits : Bits) (h : bits.length = 112) :
    version bits = if tcB bits = some 31 then .val (bin2int (slice 72 75 bits)) else .rte :=
  guardedField_spec h 31 72 75 (by omega) (by omega)

/-- NIC supplement S (TC 31): ME bit 44 -/
theorem nic_s_spec (bits : Bits) (h : bits.length = 112) :
    nicS bits = if tcB bits = some 31 then .val (b2n (bits[75]'(by omega))) else .rte := by
  unfold nicS
  rw [idxR_eq (by omega)]
  by_cases c : tcB bits = some 31 <;> simp [c]

/-- NIC supplements A and C (TC 31): ME bit 44 and ME bit 20 -/
theorem nic_a_c_spec (bits : Bits) (h : bits.length = 112) :
    nicAC bits = if tcB bits = some 31 then .val (b2n (bits[75]'(by omega)), b2n (bits[51]'(by omega)))
      else .rte := by
  unfold nicAC
  rw [idxR_eq (i := 75) (by omega), idxR_eq (i := 51) (by omega)]
  by_cases c : tcB bits = some 31 <;> simp [c]

/-- NIC supplement B (airborne position, TC 9-18): ME bit 8 -/
theorem nic_b_spec (bits : Bits) (h : bits.length = 112) :
    nicB bits = match tcB bits with
      | some tc => if 9 ≤ tc ∧ tc ≤ 18 then .val (b2n (bits[39]'(by omega))) else .rte
      | none => .rte := by
  unfold nicB
  rw [idxR_eq (i := 39) (by omega)]
  cases tcB bits with
  | none => rfl
  | some tc =>
    by_cases c : tc < 9 ∨ tc > 18
    · have : ¬ (9 ≤ tc ∧ tc ≤ 18) := by omega
      simp [c, this]
    · have : 9 ≤ tc ∧ tc ≤ 18 := by omega
      simp [c, this]

/-- NUCv (TC 19, version 0): ME bits 11-13 with the HVE/VVE row of the table -/
theorem nuc_v_spec (bits : Bits) (h : bits.length = 112) :
    nucV bits = if tcB bits = some 19 then .val (catRow Tables.tblNUCv (bin2int (slice 42 45 bits))) else .rte := by
  unfold nucV
  rw [bin2intR_slice h 42 45 (by omega) (by omega)]
  by_cases c : tcB bits = some 19
  · simp only [c, ne_eq, not_true_eq_false, if_false, if_true, Res.bind_val, catRow]
    cases lookup Tables.tblNUCv (bin2int (slice 42 45 bits)) <;> rfl
  · simp [c]

/-- NACv (TC 19, version 1-2): ME bits 11-13 with the HFOMr/VFOMr row of the table -/
theorem nac_v_spec (bits : Bits) (h : bits.length = 112) :
    nacV bits = if tcB bits = some 19 then .val (catRow Tables.tblNACv (bin2int (slice 42 45 bits))) else .rte := by
  unfold nacV
  rw [bin2intR_slice h 42 45 (by omega) (by omega)]
  by_cases c : tcB bits = some 19
  · simp only [c, ne_eq, not_true_eq_false, if_false, if_true, Res.bind_val, catRow]
    cases lookup Tables.tblNACv (bin2int (slice 42 45 bits)) <;> rfl
  · simp [c]

/-- NACp: ME bits 40-43 of a TC 29 message, ME bits 45-48 of a TC 31 message, with the EPU/VEPU row -/
theorem nac_p_spec (bits : Bits) (h : bits.length = 112) :
    (tcB bits = some 29 → nacP bits = .val (catRow Tables.tblNACp (bin2int (slice 71 75 bits)))) ∧
    (tcB bits = some 31 → nacP bits = .val (catRow Tables.tblNACp (bin2int (slice 76 80 bits)))) ∧
    (tcB bits ≠ some 29 → tcB bits ≠ some 31 → nacP bits = .rte) := by
  refine ⟨?_, ?_, ?_⟩
  · intro c
    unfold nacP
    rw [bin2intR_slice h 71 75 (by omega) (by omega)]
    simp only [c, Res.bind_val, catRow]
    cases lookup Tables.tblNACp (bin2int (slice 71 75 bits)) <;> rfl
  · intro c
    unfold nacP
    rw [bin2intR_slice h 76 80 (by omega) (by omega)]
    simp only [c, Res.bind_val, catRow]
    cases lookup Tables.tblNACp (bin2int (slice 76 80 bits)) <;> rfl
  · intro c1 c2
    unfold nacP
    split
    · next e => exact absurd e c1
    · next e => exact absurd e c2
    · rfl

/-- the SIL probabilities of a 2-bit SIL value: the table row, `(None, None)` without a row -/
def silRow (s : Nat) : Option Rat × Option Rat :=
  match lookup Tables.tblSIL s with
  | some row => (col row 0, col row 1)
  | none => (none, none)

/-- SIL: ME bits 45-46 (TC 29) or 51-52 (TC 31) with the table row; the probability base is "unknown"
    unless the caller says version 2, then the SIL supplement bit (ME bit 8 / ME bit 55) -/
theorem sil_spec (bits : Bits) (h : bits.length = 112) (ver : Option Nat) :
    (tcB bits = some 29 → sil bits ver =
      .val ((silRow (bin2int (slice 76 78 bits))).1, (silRow (bin2int (slice 76 78 bits))).2,
        if ver = some 2 then (if bits[39]'(by omega) then "sample" else "hour") else "unknown")) ∧
    (tcB bits = some 31 → sil bits ver =
      .val ((silRow (bin2int (slice 82 84 bits))).1, (silRow (bin2int (slice 82 84 bits))).2,
        if ver = some 2 then (if bits[86]'(by omega) then "sample" else "hour") else "unknown")) ∧
    (tcB bits ≠ some 29 → tcB bits ≠ some 31 → sil bits ver = .rte) := by
  refine ⟨?_, ?_, ?_⟩
  · intro c
    unfold sil
    rw [bin2intR_slice h 76 78 (by omega) (by omega), idxR_eq (i := 39) (by omega)]
    simp only [c, ne_eq, not_true_eq_false, false_and, if_false, if_true, Res.bind_val, silRow, Res.pure_eq]
    generalize lookup Tables.tblSIL (bin2int (slice 76 78 bits)) = r
    by_cases hv : ver = some 2 <;> cases r <;> cases bits[39]'(by omega) <;> simp [hv]
  · intro c
    unfold sil
    rw [bin2intR_slice h 82 84 (by omega) (by omega), idxR_eq (i := 86) (by omega)]
    have e1 : ¬ ((31 : Nat) = 29) := by omega
    simp only [c, ne_eq, not_true_eq_false, and_false, e1, if_false, Res.bind_val, silRow, Res.pure_eq]
    generalize lookup Tables.tblSIL (bin2int (slice 82 84 bits)) = r
    by_cases hv : ver = some 2 <;> cases r <;> cases bits[86]'(by omega) <;> simp [hv]
  · intro c1 c2
    unfold sil
    cases e : tcB bits with
    | none => rfl
    | some tc =>
      have : tc ≠ 29 ∧ tc ≠ 31 := ⟨fun x => c1 (by rw [e, x]), fun x => c2 (by rw [e, x])⟩
      simp [this]

end PyModeS.C13

/-! ## NUCp / NIC by type code (position messages, TC 5-18 and 20-22) -/

namespace PyModeS.C13
open Fields

/-- DO-260B: NUCp announced by the type code of a position message -/
def nucpOfTc (tc : Nat) : Nat :=
  if tc ≤ 8 then 14 - tc else if tc ≤ 18 then 18 - tc else if tc = 20 then 9 else if tc = 21 then 8 else 0

/-- DO-260B (version 1): NIC by type code and NIC supplement -/
def nicV1OfTc (tc nics : Nat) : Nat :=
  if tc = 5 ∨ tc = 9 ∨ tc = 20 then 11 else if tc = 6 ∨ tc = 10 ∨ tc = 21 then 10
  else if tc = 7 then 9 else if tc = 11 then 8 + nics else if tc = 16 then 2 + nics
  else if 12 ≤ tc ∧ tc ≤ 15 then 19 - tc else if tc = 17 then 1 else 0

theorem nucp_by_tc : (List.range 32).all (fun tc =>
    if (5 ≤ tc ∧ tc ≤ 18) ∨ (20 ≤ tc ∧ tc ≤ 22) then
      decide (lookup Tables.tcNUCp tc = some (nucpOfTc tc)) else true) = true := by decide +kernel

theorem nic_v1_by_tc : (List.range 32).all (fun tc => (List.range 2).all (fun nics =>
    if (5 ≤ tc ∧ tc ≤ 18) ∨ (20 ≤ tc ∧ tc ≤ 22) then
      match lookup Tables.tcNICv1 tc with
      | some e => decide (nicOfEntry e nics = .val (nicV1OfTc tc nics))
      | none => false
    else true)) = true := by decide +kernel

/-- the Rc/VPL (or Rc) row of a NIC value under a NIC supplement, `None` when either key is absent -/
def nicRow (t : List (Nat × List (Nat × List (Option Rat)))) (nic nics : Nat) : Option (List (Option Rat)) :=
  (lookup t nic).bind (fun d => lookup d nics)

/-- `nuc_p`: NUCp from the type code (the DO-260B assignment), HPL and RCu from its table row, RCv
    4 m / 15 m for TC 20 / 21 -/
theorem nuc_p_spec (bits : Bits) (tc : Nat) (htc : tcB bits = some tc)
    (hr : (5 ≤ tc ∧ tc ≤ 18) ∨ (20 ≤ tc ∧ tc ≤ 22)) :
    lookup Tables.tcNUCp tc = some (nucpOfTc tc) ∧
    nucP bits = .val (nucpOfTc tc, (catRow Tables.tblNUCp (nucpOfTc tc)).2.1,
      (catRow Tables.tblNUCp (nucpOfTc tc)).2.2,
      if tc = 20 then some 4 else if tc = 21 then some 15 else none) := by
  have key : lookup Tables.tcNUCp tc = some (nucpOfTc tc) := by
    have := all_range_imp nucp_by_tc tc (tcB_lt htc)
    simpa [hr] using this
  refine ⟨key, ?_⟩
  unfold nucP
  have hg : ¬ (tc < 5 ∨ tc = 19 ∨ tc > 22) := by omega
  simp only [htc, hg, if_false, lookupR, key, Res.bind_val, catRow]
  cases lookup Tables.tblNUCp (nucpOfTc tc) <;> rfl

theorem nuc_p_guard (bits : Bits) (hg : ∀ tc, tcB bits = some tc → tc < 5 ∨ tc = 19 ∨ tc > 22) :
    nucP bits = .rte := by
  unfold nucP
  cases htc : tcB bits with
  | none => rfl
  | some tc => simp [hg tc htc]

/-- `nic_v1` for any supplement argument: the type-code entry exists; the NIC is the entry itself or
    its member for the supplement (`KeyError` if it has none), Rc/VPL the row of (NIC, supplement) -/
theorem nic_v1_spec (bits : Bits) (tc : Nat) (htc : tcB bits = some tc)
    (hr : (5 ≤ tc ∧ tc ≤ 18) ∨ (20 ≤ tc ∧ tc ≤ 22)) (nics : Nat) :
    ∃ e, lookup Tables.tcNICv1 tc = some e ∧
      nicV1 bits nics = match nicOfEntry e nics with
        | .val nic => .val (match nicRow Tables.tblNICv1 nic nics with
            | some row => (nic, col row 0, col row 1)
            | none => (nic, none, none))
        | _ => .exc := by
  have hs : (lookup Tables.tcNICv1 tc).isSome := by
    have := all_range_imp tc_lookups_total tc (tcB_lt htc)
    simp only [hr, if_true, Bool.and_eq_true] at this
    exact this.1.2
  obtain ⟨e, he⟩ := Option.isSome_iff_exists.mp hs
  refine ⟨e, he, ?_⟩
  unfold nicV1
  have hg : ¬ (tc < 5 ∨ tc = 19 ∨ tc > 22) := by omega
  simp only [htc, hg, if_false, lookupR, he, Res.bind_val, nicRow]
  cases hn : nicOfEntry e nics with
  | val nic =>
    simp only [Res.bind_val]
    cases lookup Tables.tblNICv1 nic with
    | none => rfl
    | some d =>
      simp only [Option.bind_some]
      cases lookup d nics <;> rfl
  | rte =>
    exfalso
    unfold nicOfEntry at hn
    split at hn
    · cases hn
    · split at hn <;> cases hn
  | exc => rfl

/-- with a 1-bit supplement `nic_v1` never raises and the NIC is the DO-260B value -/
theorem nic_v1_value (bits : Bits) (tc : Nat) (htc : tcB bits = some tc)
    (hr : (5 ≤ tc ∧ tc ≤ 18) ∨ (20 ≤ tc ∧ tc ≤ 22)) (nics : Nat) (hn : nics < 2) :
    nicV1 bits nics = .val (match nicRow Tables.tblNICv1 (nicV1OfTc tc nics) nics with
      | some row => (nicV1OfTc tc nics, col row 0, col row 1)
      | none => (nicV1OfTc tc nics, none, none)) := by
  obtain ⟨e, he, hv⟩ := nic_v1_spec bits tc htc hr nics
  have := all_range_imp (all_range_imp nic_v1_by_tc tc (tcB_lt htc)) nics hn
  simp only [hr, if_true, he, decide_eq_true_eq] at this
  rw [hv, this]

theorem nic_v1_guard (bits : Bits) (nics : Nat) (hg : ∀ tc, tcB bits = some tc → tc < 5 ∨ tc = 19 ∨ tc > 22) :
    nicV1 bits nics = .rte := by
  unfold nicV1
  cases htc : tcB bits with
  | none => rfl
  | some tc => simp [hg tc htc]

/-- `nic_v2` for any supplement arguments never raises on a position message: the type-code entry
    exists, the supplement is 0 for TC 20-22 and `2·A + B/C` otherwise, and the result is (NIC, Rc) of
    the (NIC, supplement) row — `(None, None)` whenever any of the look-ups inside the `try` fails -/
theorem nic_v2_spec (bits : Bits) (tc : Nat) (htc : tcB bits = some tc)
    (hr : (5 ≤ tc ∧ tc ≤ 18) ∨ (20 ≤ tc ∧ tc ≤ 22)) (nica nicbc : Nat) :
    ∃ e, lookup Tables.tcNICv2 tc = some e ∧
      nicV2 bits nica nicbc = .val (
        let nics := if 20 ≤ tc ∧ tc ≤ 22 then 0 else nica * 2 + nicbc
        match nicOfEntry e nics with
        | .val nic => (nicRow Tables.tblNICv2 nic nics).map (fun row => (nic, col row 0))
        | _ => none) := by
  have hs : (lookup Tables.tcNICv2 tc).isSome := by
    have := all_range_imp tc_lookups_total tc (tcB_lt htc)
    simp only [hr, if_true, Bool.and_eq_true] at this
    exact this.2
  obtain ⟨e, he⟩ := Option.isSome_iff_exists.mp hs
  refine ⟨e, he, ?_⟩
  unfold nicV2
  have hg : ¬ (tc < 5 ∨ tc = 19 ∨ tc > 22) := by omega
  simp only [htc, hg, if_false, lookupR, he, Res.bind_val, nicRow]
  generalize (if 20 ≤ tc ∧ tc ≤ 22 then 0 else nica * 2 + nicbc) = nics
  cases nicOfEntry e nics with
  | val nic =>
    simp only
    cases lookup Tables.tblNICv2 nic with
    | none => rfl
    | some d =>
      simp only [Option.bind_some]
      cases lookup d nics <;> rfl
  | rte => rfl
  | exc => rfl

theorem nic_v2_never_raises (bits : Bits) (tc : Nat) (htc : tcB bits = some tc)
    (hr : (5 ≤ tc ∧ tc ≤ 18) ∨ (20 ≤ tc ∧ tc ≤ 22)) (nica nicbc : Nat) :
    ∃ r, nicV2 bits nica nicbc = .val r := by
  obtain ⟨e, _, hv⟩ := nic_v2_spec bits tc htc hr nica nicbc
  exact ⟨_, hv⟩

theorem nic_v2_guard (bits : Bits) (nica nicbc : Nat)
    (hg : ∀ tc, tcB bits = some tc → tc < 5 ∨ tc = 19 ∨ tc > 22) : nicV2 bits nica nicbc = .rte := by
  unfold nicV2
  cases htc : tcB bits with
  | none => rfl
  | some tc => simp [hg tc htc]

end PyModeS.C13

/-! ## Non-vacuity: the hypotheses of the theorems above are met by concrete frames -/

namespace PyModeS.C13

/-- TC 29 subtype 1 (tests/test_adsb.py: 16992 ft MCP/FCU, 1012.8 hPa, heading 66.8°, autopilot/VNAV/LNAV
    on, altitude hold/approach off, TCAS operational); the subtype-0 decoders refuse it -/
example :
    let f := hex2bin "8DA05629EA21485CBF3F8CADAEEB"
    f.length = 112 ∧ tcB f = some 29 ∧ bin2int (slice 37 39 f) = 1 ∧
    selectedAltitude f = .val (some 16992, "MCP/FCU") ∧ baroPressureSetting f = .val (some ((5064 : Rat) / 5)) ∧
    selectedHeading f = .val (some ((4275 : Rat) / 64)) ∧ autopilot f = .val (some true) ∧
    vnavMode f = .val (some true) ∧ altitudeHoldMode f = .val (some false) ∧ approachMode f = .val (some false) ∧
    lnavMode f = .val (some true) ∧ tcasOperational f = .val true ∧ targetAltitude f = .rte ∧
    verticalMode f = .rte ∧ horizontalMode f = .rte ∧ targetAngle f = .rte ∧ tcasRa f = .rte ∧
    emergencyStatus f = .rte ∧ nacP f = .val (9, some 30, some 45) ∧
    sil f (some 2) = .val (some ((1 : Rat) / 10000000), some ((1 : Rat) / 5000000), "hour") := by
  decide +kernel

/-- a TC 29 subtype-0 frame (synthetic): the subtype-1 decoders refuse it, the others decode -/
example :
    let f := hex2bin "8DA05629E9A4C85C3F0A28000000"
    f.length = 112 ∧ tcB f = some 29 ∧ bin2int (slice 37 39 f) = 0 ∧
    selectedAltitude f = .rte ∧ selectedHeading f = .rte ∧ baroPressureSetting f = .rte ∧ autopilot f = .rte ∧
    (targetAltitude f).isVal ∧ (verticalMode f).isVal ∧ (horizontalMode f).isVal ∧ (targetAngle f).isVal ∧
    (tcasRa f).isVal ∧ (emergencyStatus f).isVal ∧ (tcasOperational f).isVal := by
  decide +kernel

/-- TC 28 (tests/test_adsb.py: no emergency) -/
example :
    let f := hex2bin "8DA2C1B6E112B600000000760759"
    f.length = 112 ∧ tcB f = some 28 ∧ emergencyState f = .val 0 ∧ isEmergency f = .val false := by
  decide +kernel

/-- TC 31 (synthetic operational-status frame, version 2) -/
example :
    let f := hex2bin "8D4840D6F8220040024AB8000000"
    f.length = 112 ∧ tcB f = some 31 ∧ version f = .val 2 ∧ nicS f = .val 0 ∧ nicAC f = .val (0, 0) ∧
    nacP f = .val (10, some 10, some 15) ∧
    sil f (some 2) = .val (some ((1 : Rat) / 10000000), some ((1 : Rat) / 5000000), "hour") ∧
    sil f none = .val (some ((1 : Rat) / 10000000), some ((1 : Rat) / 5000000), "unknown") := by
  decide +kernel

/-- TC 19 (tests/test_adsb.py) -/
example :
    let f := hex2bin "8D485020994409940838175B284F"
    f.length = 112 ∧ tcB f = some 19 ∧ nucV f = .val (0, none, none) ∧ nacV f = .val (0, none, none) := by
  decide +kernel

/-- TC 11 airborne position (tests/test_adsb.py): NUCp 7; NIC 8 or 9 by supplement; the v2 look-up
    returns `(None, None)` for a supplement combination without a table row -/
example :
    let f := hex2bin "8D40621D58C382D690C8AC2863A7"
    f.length = 112 ∧ tcB f = some 11 ∧ nicB f = .val 0 ∧ nucP f = .val (7, some 185, some 93, none) ∧
    nicV1 f 0 = .val (8, some 185, none) ∧ nicV1 f 1 = .val (9, some 75, some 112) ∧
    nicV2 f 0 0 = .val (some (8, some 185)) ∧ nicV2 f 1 1 = .val (some (9, some 75)) ∧
    nicV2 f 0 1 = .val none := by
  decide +kernel

end PyModeS.C13
