/-
  C12 — BDS register inference is total, format-sound and complete on plausible data.
-/
import PyModeS.Proofs.Bits
import PyModeS.Model.Commb
import PyModeS.Proofs.Infer.Main
import PyModeS.Proofs.Infer.Sound
import PyModeS.Proofs.Infer.Bds50
import PyModeS.Proofs.Infer.Bds40
import PyModeS.Proofs.Infer.Bds60
import PyModeS.Proofs.Infer.Bds44
import PyModeS.Proofs.Infer.Bds45
import PyModeS.Proofs.Infer.Bds53
namespace PyModeS.C12

/-- an all-zero MB field of a 112-bit frame is reported as EMPTY whatever the header says -/
theorem infer_empty (ias : Rat → Int → Rat) (bits : Bits) (mrar : Bool) (h : allzerosB bits = .val true) :
    infer ias bits mrar = .val (some "EMPTY") := by
  unfold infer; simp [h]

/-- DF17 with a type code that names a register: that register (the Comm-B rules are not consulted) -/
theorem infer_df17_tc (ias : Rat → Int → Rat) (bits : Bits) (mrar : Bool) (tc : Nat) (l : String)
    (hz : allzerosB bits = .val false) (hdf : dfB bits = 17) (htc : tcB bits = some tc) (hl : inferAdsb tc = some l) :
    infer ias bits mrar = .val (some l) := by
  unfold infer; simp [hz, hdf, htc, hl]

/-- the TC -> register map of DO-260B -/
theorem inferAdsb_table : (List.range 32).map inferAdsb =
    [none, some "BDS08", some "BDS08", some "BDS08", some "BDS08", some "BDS06", some "BDS06", some "BDS06", some "BDS06",
     some "BDS05", some "BDS05", some "BDS05", some "BDS05", some "BDS05", some "BDS05", some "BDS05", some "BDS05", some "BDS05",
     some "BDS05", some "BDS09", some "BDS05", some "BDS05", some "BDS05", none, none, none, none, none, some "BDS61",
     some "BDS62", none, some "BDS65"] := by decide


/-!
  ## Totality, exact Comm-B answer, soundness of the format rules, completeness of BDS 5,0

  Proofs in PyModeS/Proofs/Infer/{Base,Rules,Main,Sound,Build,Bds50}.lean.  On a 112-bit frame every rule
  `isXX` equals an explicit Boolean function `Infer.isXXP` of the 56-bit MB field `Infer.mbOf bits`
  (`bits[32:88]`), read with `Infer.bitAt d i` (bit `i`, 0-based) and `Infer.fld d a b` (unsigned `d[a:b]`).
-/

open PyModeS.Infer

/-- a 112-bit frame used in the non-vacuity examples: DF20, a BDS 5,0-looking payload -/
def exFrame50 : Bits := natToBits 32 0xA0001838 ++ mb50 true false 10 true false 100 true 220 true false 3 true 230
  ++ natToBits 24 0x123456

/-- a DF20 frame whose MB field starts with 0x10 (BDS 1,0-looking) -/
def exFrame10 : Bits := natToBits 32 0xA0001838 ++ natToBits 56 0x10030A80F50000 ++ natToBits 24 0

theorem exFrame50_length : exFrame50.length = 112 := by decide
theorem exFrame10_length : exFrame10.length = 112 := by decide

/-! ### 8. totality -/

/-- frame-level form of each rule: a value, and which one -/
theorem is10_frame (bits : Bits) (h : bits.length = 112) : is10 bits = .val (is10P (mbOf bits)) := is10_val bits h
theorem is17_frame (bits : Bits) (h : bits.length = 112) : is17 bits = .val (is17P (mbOf bits)) := is17_val bits h
theorem is20_frame (bits : Bits) (h : bits.length = 112) : is20 bits = .val (is20P (mbOf bits)) := is20_val bits h
theorem is30_frame (bits : Bits) (h : bits.length = 112) : is30 bits = .val (is30P (mbOf bits)) := is30_val bits h
theorem is40_frame (bits : Bits) (h : bits.length = 112) : is40 bits = .val (is40P (mbOf bits)) := is40_val bits h
theorem is44_frame (bits : Bits) (h : bits.length = 112) : is44 bits = .val (is44P (mbOf bits)) := is44_val bits h
theorem is45_frame (bits : Bits) (h : bits.length = 112) : is45 bits = .val (is45P (mbOf bits)) := is45_val bits h
theorem is50_frame (bits : Bits) (h : bits.length = 112) : is50 bits = .val (is50P (mbOf bits)) := is50_val bits h
theorem is53_frame (bits : Bits) (h : bits.length = 112) : is53 bits = .val (is53P (mbOf bits)) := is53_val bits h
theorem is60_frame (ias : Rat → Int → Rat) (bits : Bits) (h : bits.length = 112) :
    is60 ias bits = .val (is60P ias bits) := is60_val ias bits h

theorem is10_total (bits : Bits) (h : bits.length = 112) : ∃ b, is10 bits = .val b := ⟨_, is10_val bits h⟩
theorem is17_total (bits : Bits) (h : bits.length = 112) : ∃ b, is17 bits = .val b := ⟨_, is17_val bits h⟩
theorem is20_total (bits : Bits) (h : bits.length = 112) : ∃ b, is20 bits = .val b := ⟨_, is20_val bits h⟩
theorem is30_total (bits : Bits) (h : bits.length = 112) : ∃ b, is30 bits = .val b := ⟨_, is30_val bits h⟩
theorem is40_total (bits : Bits) (h : bits.length = 112) : ∃ b, is40 bits = .val b := ⟨_, is40_val bits h⟩
theorem is44_total (bits : Bits) (h : bits.length = 112) : ∃ b, is44 bits = .val b := ⟨_, is44_val bits h⟩
theorem is45_total (bits : Bits) (h : bits.length = 112) : ∃ b, is45 bits = .val b := ⟨_, is45_val bits h⟩
theorem is50_total (bits : Bits) (h : bits.length = 112) : ∃ b, is50 bits = .val b := ⟨_, is50_val bits h⟩
theorem is53_total (bits : Bits) (h : bits.length = 112) : ∃ b, is53 bits = .val b := ⟨_, is53_val bits h⟩
theorem is60_total (ias : Rat → Int → Rat) (bits : Bits) (h : bits.length = 112) : ∃ b, is60 ias bits = .val b :=
  ⟨_, is60_val ias bits h⟩

/-- `infer` as an explicit total function of the frame -/
theorem infer_frame (ias : Rat → Int → Rat) (bits : Bits) (mrar : Bool) (h : bits.length = 112) :
    infer ias bits mrar = .val (inferP ias bits mrar) := infer_val ias bits mrar h

/-- for every 112-bit message `infer` terminates without an exception (no `rte`, no `exc`),
    whatever the airspeed function of the altitude cross-check and whatever `mrar` -/
theorem infer_total (ias : Rat → Int → Rat) (bits : Bits) (mrar : Bool) (h : bits.length = 112) :
    ∃ r, infer ias bits mrar = .val r := ⟨_, infer_val ias bits mrar h⟩

example : ∃ r, infer (fun _ _ => 0) exFrame50 true = .val r := infer_total _ _ _ exFrame50_length

/-- the all-zero test itself is total, and says what it should -/
theorem allzerosB_frame (bits : Bits) (h : bits.length = 112) :
    allzerosB bits = .val (decide (bin2int (slice 32 88 bits) = 0)) := allzerosB_val bits h

/-! ### 9. the Comm-B answer -/

/-- Comm-B path: MB not all zero and not a DF17 frame whose type code names a register.  The answer is the
    comma-joined list of the labels of the rules that hold, in the order
    BDS10, BDS17, BDS20, BDS30, BDS40, [BDS44, BDS45 only with `mrar`], BDS50, BDS60; `None` if there is none.
    Stated through the Boolean results of the nine rules (which exist by section 8). -/
theorem infer_commb_eq_rules (ias : Rat → Int → Rat) (bits : Bits) (mrar : Bool) (h : bits.length = 112)
    (hz : allzerosB bits = .val false)
    (hadsb : dfB bits = 17 → ∀ tc, tcB bits = some tc → inferAdsb tc = none)
    (b10 b17 b20 b30 b40 b44 b45 b50 b60 : Bool)
    (h10 : is10 bits = .val b10) (h17 : is17 bits = .val b17) (h20 : is20 bits = .val b20)
    (h30 : is30 bits = .val b30) (h40 : is40 bits = .val b40) (h44 : is44 bits = .val b44)
    (h45 : is45 bits = .val b45) (h50 : is50 bits = .val b50) (h60 : is60 ias bits = .val b60) :
    infer ias bits mrar = .val (joinLabels
      (sel b10 "BDS10" ++ sel b17 "BDS17" ++ sel b20 "BDS20" ++ sel b30 "BDS30" ++ sel b40 "BDS40" ++
       sel (b44 && mrar) "BDS44" ++ sel (b45 && mrar) "BDS45" ++ sel b50 "BDS50" ++ sel b60 "BDS60")) := by
  rw [infer_val ias bits mrar h]
  rw [is10_val bits h] at h10; rw [is17_val bits h] at h17; rw [is20_val bits h] at h20
  rw [is30_val bits h] at h30; rw [is40_val bits h] at h40; rw [is44_val bits h] at h44
  rw [is45_val bits h] at h45; rw [is50_val bits h] at h50; rw [is60_val ias bits h] at h60
  injection h10 with h10; injection h17 with h17; injection h20 with h20; injection h30 with h30
  injection h40 with h40; injection h44 with h44; injection h45 with h45; injection h50 with h50
  injection h60 with h60
  rw [allzerosB_val bits h] at hz
  injection hz with hz
  have hz' : ¬ bin2int (mbOf bits) = 0 := by simpa using hz
  have ha : adsbOf bits = none := by
    unfold adsbOf
    split
    · rename_i h17'
      cases htc : tcB bits with
      | none => rfl
      | some tc => exact hadsb h17' tc htc
    · rfl
  unfold inferP labelsP
  rw [if_neg hz', ha]
  simp only [h10, h17, h20, h30, h40, h44, h45, h50, h60]

/-- the same with the explicit rule functions -/
theorem infer_commb_frame (ias : Rat → Int → Rat) (bits : Bits) (mrar : Bool) (h : bits.length = 112)
    (hz : bin2int (mbOf bits) ≠ 0) (ha : adsbOf bits = none) :
    infer ias bits mrar = .val (joinLabels (labelsP ias bits mrar)) := by
  rw [infer_val ias bits mrar h]
  unfold inferP
  rw [if_neg hz, ha]

/-- the order in which `infer` lists the registers is the lexicographic (`String` `<`) order … -/
theorem labels_sorted :
    List.Pairwise (· < ·) ["BDS10", "BDS17", "BDS20", "BDS30", "BDS40", "BDS44", "BDS45", "BDS50", "BDS60"] :=
  Infer.labels_sorted

/-- … so whatever the nine results are, the list that is joined is strictly increasing (no duplicates) … -/
theorem labels_sel_sorted (b10 b17 b20 b30 b40 b44 b45 b50 b60 : Bool) :
    List.Pairwise (· < ·)
      (sel b10 "BDS10" ++ sel b17 "BDS17" ++ sel b20 "BDS20" ++ sel b30 "BDS30" ++ sel b40 "BDS40" ++
       sel b44 "BDS44" ++ sel b45 "BDS45" ++ sel b50 "BDS50" ++ sel b60 "BDS60") := by
  refine List.Pairwise.sublist ?_ Infer.labels_sorted
  have e : allLabels = ["BDS10"] ++ ["BDS17"] ++ ["BDS20"] ++ ["BDS30"] ++ ["BDS40"] ++ ["BDS44"] ++ ["BDS45"] ++
      ["BDS50"] ++ ["BDS60"] := rfl
  rw [e]
  repeat (first | exact sel_sublist _ _ | apply List.Sublist.append)

/-- … and sorting it (Python's `sorted`) is the identity -/
theorem sorted_is_identity (l : List String) (h : List.Pairwise (· < ·) l) :
    l.mergeSort (fun a b => decide (a ≤ b)) = l := by
  apply List.mergeSort_of_pairwise
  refine List.Pairwise.imp ?_ h
  intro a b hab
  simp only [decide_eq_true_eq]
  exact Std.le_of_not_ge (fun h' => h' hab)

theorem labelsP_sorted (ias : Rat → Int → Rat) (bits : Bits) (mrar : Bool) :
    (labelsP ias bits mrar).mergeSort (fun a b => decide (a ≤ b)) = labelsP ias bits mrar :=
  sorted_is_identity _ (Infer.labelsP_sorted ias bits mrar)

example : infer (fun _ _ => 0) exFrame10 false = .val (some "BDS10") := by decide +kernel

/-! ### 10. soundness of the status and reserved-bit rules -/

/-- `wrongstatus(d, sb, msb, lsb)` on in-range arguments: status bit 0 although the field is not all zero -/
theorem wrongstatus_spec (d : Bits) (sb msb lsb : Nat) (h0 : 1 ≤ sb) (h1 : sb ≤ d.length) (h2 : 1 ≤ msb)
    (h3 : msb ≤ lsb) (h4 : msb ≤ d.length) :
    wrongstatus d sb msb lsb
      = .val (decide (d.getD (sb - 1) false = false ∧ bin2int (slice (msb - 1) lsb d) ≠ 0)) := by
  rw [wrongstatus_val d sb msb lsb (by omega) (by omega) (by omega)]
  congr 1
  have := wrongP_iff d sb msb lsb
  unfold bitAt fld at this
  cases hw : wrongP d sb msb lsb with
  | true => exact (decide_eq_true (this.mp hw)).symm
  | false =>
    symm
    apply decide_eq_false
    intro hc
    rw [this.mpr hc] at hw
    exact absurd hw (by decide)

/-- a field is "not all zero" iff one of its bits is 1 -/
theorem field_nonzero_iff (d : Bits) (a b : Nat) : bin2int (slice a b d) ≠ 0 ↔ true ∈ slice a b d :=
  fld_ne_zero_iff d a b

example : wrongstatus (natToBits 56 1) 46 47 56 = .val true := by decide

/-- the (status, msb, lsb) triples as coded, per register -/
theorem rules_as_coded :
    rules40 = [(1, 2, 13), (14, 15, 26), (27, 28, 39), (48, 49, 51), (54, 55, 56)] ∧
    rules44 = [(5, 6, 23), (35, 36, 46), (47, 48, 49), (50, 51, 56)] ∧
    rules45 = [(1, 2, 3), (4, 5, 6), (7, 8, 9), (10, 11, 12), (13, 14, 15), (16, 17, 26), (27, 28, 38), (39, 40, 51)] ∧
    rules50 = [(1, 2, 11), (12, 13, 23), (24, 25, 34), (35, 36, 45), (46, 47, 56)] ∧
    rules60 = [(1, 2, 12), (13, 14, 23), (24, 25, 34), (35, 36, 45), (46, 47, 56)] := ⟨rfl, rfl, rfl, rfl, rfl⟩

/-- BDS 4,0: status bit `sb` (1-based) is 0 and some bit of MB bits `msb..lsb` is 1 ⇒ not BDS 4,0 -/
theorem is40_status_sound (bits : Bits) (h : bits.length = 112) (t : Nat × Nat × Nat) (ht : t ∈ rules40)
    (h0 : bitAt (mbOf bits) (t.1 - 1) = false) (h1 : true ∈ slice (t.2.1 - 1) t.2.2 (mbOf bits)) :
    is40 bits = .val false := by
  rw [is40_val bits h]; congr 1
  apply bool_false_of_not; intro hp
  have := statusP_false_of_wrong _ _ t ht h0 ((fld_ne_zero_iff _ _ _).mpr h1)
  rw [is40P_status _ hp] at this; exact absurd this (by decide)

theorem is44_status_sound (bits : Bits) (h : bits.length = 112) (t : Nat × Nat × Nat) (ht : t ∈ rules44)
    (h0 : bitAt (mbOf bits) (t.1 - 1) = false) (h1 : true ∈ slice (t.2.1 - 1) t.2.2 (mbOf bits)) :
    is44 bits = .val false := by
  rw [is44_val bits h]; congr 1
  apply bool_false_of_not; intro hp
  have := statusP_false_of_wrong _ _ t ht h0 ((fld_ne_zero_iff _ _ _).mpr h1)
  rw [is44P_status _ hp] at this; exact absurd this (by decide)

theorem is45_status_sound (bits : Bits) (h : bits.length = 112) (t : Nat × Nat × Nat) (ht : t ∈ rules45)
    (h0 : bitAt (mbOf bits) (t.1 - 1) = false) (h1 : true ∈ slice (t.2.1 - 1) t.2.2 (mbOf bits)) :
    is45 bits = .val false := by
  rw [is45_val bits h]; congr 1
  apply bool_false_of_not; intro hp
  have := statusP_false_of_wrong _ _ t ht h0 ((fld_ne_zero_iff _ _ _).mpr h1)
  rw [is45P_status _ hp] at this; exact absurd this (by decide)

theorem is50_status_sound (bits : Bits) (h : bits.length = 112) (t : Nat × Nat × Nat) (ht : t ∈ rules50)
    (h0 : bitAt (mbOf bits) (t.1 - 1) = false) (h1 : true ∈ slice (t.2.1 - 1) t.2.2 (mbOf bits)) :
    is50 bits = .val false := by
  rw [is50_val bits h]; congr 1
  apply bool_false_of_not; intro hp
  have := statusP_false_of_wrong _ _ t ht h0 ((fld_ne_zero_iff _ _ _).mpr h1)
  rw [is50P_status _ hp] at this; exact absurd this (by decide)

theorem is60_status_sound (ias : Rat → Int → Rat) (bits : Bits) (h : bits.length = 112) (t : Nat × Nat × Nat)
    (ht : t ∈ rules60) (h0 : bitAt (mbOf bits) (t.1 - 1) = false)
    (h1 : true ∈ slice (t.2.1 - 1) t.2.2 (mbOf bits)) :
    is60 ias bits = .val false := by
  rw [is60_val ias bits h]; congr 1
  apply bool_false_of_not; intro hp
  have := statusP_false_of_wrong _ _ t ht h0 ((fld_ne_zero_iff _ _ _).mpr h1)
  rw [is60CoreP_status _ (is60P_core ias bits hp)] at this; exact absurd this (by decide)

/-- a status-rule violation in the concrete frame: GS status (bit 24) cleared but GS field kept -/
example : is50 (natToBits 32 0xA0001838 ++ mb50 true false 10 true false 100 false 220 true false 3 true 230
    ++ natToBits 24 0) = .val false := by decide +kernel

/-- a label is among those joined exactly when its rule holds (and `mrar` for BDS44/45) -/
theorem label_mem_iff (ias : Rat → Int → Rat) (bits : Bits) (mrar : Bool) :
    ("BDS10" ∈ labelsP ias bits mrar ↔ is10P (mbOf bits) = true) ∧
    ("BDS17" ∈ labelsP ias bits mrar ↔ is17P (mbOf bits) = true) ∧
    ("BDS20" ∈ labelsP ias bits mrar ↔ is20P (mbOf bits) = true) ∧
    ("BDS30" ∈ labelsP ias bits mrar ↔ is30P (mbOf bits) = true) ∧
    ("BDS40" ∈ labelsP ias bits mrar ↔ is40P (mbOf bits) = true) ∧
    ("BDS44" ∈ labelsP ias bits mrar ↔ (is44P (mbOf bits) = true ∧ mrar = true)) ∧
    ("BDS45" ∈ labelsP ias bits mrar ↔ (is45P (mbOf bits) = true ∧ mrar = true)) ∧
    ("BDS50" ∈ labelsP ias bits mrar ↔ is50P (mbOf bits) = true) ∧
    ("BDS60" ∈ labelsP ias bits mrar ↔ is60P ias bits = true) := by
  unfold labelsP
  simp only [List.mem_append, mem_sel, Bool.and_eq_true]
  refine ⟨?_, ?_, ?_, ?_, ?_, ?_, ?_, ?_, ?_⟩ <;> simp

/-- a register whose rule fails is never reported: on the Comm-B path the answer is the join of a list that
    does not contain its label (and on the other paths the answer is "EMPTY" or an ADS-B register) -/
theorem infer_excludes (ias : Rat → Int → Rat) (bits : Bits) (mrar : Bool) (h : bits.length = 112)
    (hz : bin2int (mbOf bits) ≠ 0) (ha : adsbOf bits = none) :
    ∃ L : List String, infer ias bits mrar = .val (joinLabels L) ∧ L.Sublist allLabels ∧
      (is10 bits = .val false → "BDS10" ∉ L) ∧ (is17 bits = .val false → "BDS17" ∉ L) ∧
      (is20 bits = .val false → "BDS20" ∉ L) ∧ (is30 bits = .val false → "BDS30" ∉ L) ∧
      (is40 bits = .val false → "BDS40" ∉ L) ∧ (is44 bits = .val false → "BDS44" ∉ L) ∧
      (is45 bits = .val false → "BDS45" ∉ L) ∧ (is50 bits = .val false → "BDS50" ∉ L) ∧
      (is60 ias bits = .val false → "BDS60" ∉ L) := by
  refine ⟨labelsP ias bits mrar, infer_commb_frame ias bits mrar h hz ha, labelsP_sublist ias bits mrar, ?_⟩
  obtain ⟨m10, m17, m20, m30, m40, m44, m45, m50, m60⟩ := label_mem_iff ias bits mrar
  rw [is10_val bits h, is17_val bits h, is20_val bits h, is30_val bits h, is40_val bits h, is44_val bits h,
    is45_val bits h, is50_val bits h, is60_val ias bits h]
  refine ⟨?_, ?_, ?_, ?_, ?_, ?_, ?_, ?_, ?_⟩ <;> intro hf <;> injection hf with hf <;> intro hm
  · rw [m10.mp hm] at hf; exact absurd hf (by decide)
  · rw [m17.mp hm] at hf; exact absurd hf (by decide)
  · rw [m20.mp hm] at hf; exact absurd hf (by decide)
  · rw [m30.mp hm] at hf; exact absurd hf (by decide)
  · rw [m40.mp hm] at hf; exact absurd hf (by decide)
  · rw [(m44.mp hm).1] at hf; exact absurd hf (by decide)
  · rw [(m45.mp hm).1] at hf; exact absurd hf (by decide)
  · rw [m50.mp hm] at hf; exact absurd hf (by decide)
  · rw [m60.mp hm] at hf; exact absurd hf (by decide)

/-- outside the Comm-B path no Comm-B register is reported at all: the answer is "EMPTY" or the ADS-B register -/
theorem infer_other_paths (ias : Rat → Int → Rat) (bits : Bits) (mrar : Bool) (h : bits.length = 112) :
    (bin2int (mbOf bits) = 0 → infer ias bits mrar = .val (some "EMPTY")) ∧
    (bin2int (mbOf bits) ≠ 0 → ∀ l, adsbOf bits = some l → infer ias bits mrar = .val (some l)) := by
  rw [infer_val ias bits mrar h]
  unfold inferP
  constructor
  · intro hz; rw [if_pos hz]
  · intro hz l hl; rw [if_neg hz, hl]

/-- BDS 1,0 reserved bits: first byte must be 0x10 and MB bits 10-14 zero -/
theorem is10_reserved_sound (bits : Bits) (h : bits.length = 112)
    (hv : slice 0 8 (mbOf bits) ≠ natToBits 8 0x10 ∨ true ∈ slice 9 14 (mbOf bits)) :
    is10 bits = .val false := by
  rw [is10_val bits h]; congr 1
  apply bool_false_of_not; intro hp
  obtain ⟨_, h1, h2⟩ := is10P_reserved _ hp
  rcases hv with hv | hv
  · exact hv h1
  · exact (fld_ne_zero_iff _ _ _).mpr hv h2

/-- BDS 1,7: exactly — not all zero, MB bits 25-56 zero, and the BDS 2,0 capability bit (MB bit 7) set -/
theorem is17_iff (bits : Bits) (h : bits.length = 112) :
    is17 bits = .val true ↔
      (bin2int (mbOf bits) ≠ 0 ∧ bin2int (slice 24 56 (mbOf bits)) = 0 ∧ bitAt (mbOf bits) 6 = true) := by
  have key := is17P_iff _ (mbOf_length bits h)
  unfold fld at key
  rw [is17_val bits h, ← key]
  constructor
  · intro hv; injection hv
  · intro hv; rw [hv]

theorem is17_reserved_sound (bits : Bits) (h : bits.length = 112)
    (hv : true ∈ slice 24 56 (mbOf bits) ∨ bitAt (mbOf bits) 6 = false) : is17 bits = .val false := by
  rw [is17_val bits h]; congr 1
  apply bool_false_of_not; intro hp
  obtain ⟨_, h1, h2⟩ := (is17P_iff _ (mbOf_length bits h)).mp hp
  rcases hv with hv | hv
  · exact (fld_ne_zero_iff _ _ _).mpr hv h1
  · rw [hv] at h2; exact absurd h2 (by decide)

/-- BDS 2,0: first byte 0x20 and (unless the callsign field is all zero) every character legal, i.e. none of the
    eight 6-bit codes maps to '#' in the character table -/
theorem is20_reserved_sound (bits : Bits) (h : bits.length = 112)
    (hv : slice 0 8 (mbOf bits) ≠ natToBits 8 0x20 ∨
      (true ∈ slice 8 56 (mbOf bits) ∧
        ∃ i, i < 8 ∧ Tables.cs20Chars.getD (bin2int (slice (6 * i) (6 * i + 6) (slice 8 56 (mbOf bits)))) '#' = '#')) :
    is20 bits = .val false := by
  rw [is20_val bits h]; congr 1
  apply bool_false_of_not; intro hp
  obtain ⟨_, h1, h2⟩ := is20P_reserved _ hp
  rcases hv with hv | ⟨hv, i, hi, hc⟩
  · exact hv h1
  · rcases h2 with h2 | h2
    · exact (fld_ne_zero_iff _ _ _).mpr hv h2
    · exact (cs20P_legal_iff _).mp h2 i hi hc

/-- BDS 3,0: exactly — not all zero, first byte 0x30, threat type (MB bits 29-30) ≠ 3, MB bits 16-22 < 48 -/
theorem is30_iff (bits : Bits) (h : bits.length = 112) :
    is30 bits = .val true ↔
      (bin2int (mbOf bits) ≠ 0 ∧ slice 0 8 (mbOf bits) = natToBits 8 0x30 ∧ slice 28 30 (mbOf bits) ≠ [true, true] ∧
       bin2int (slice 15 22 (mbOf bits)) < 48) := by
  have key := is30P_iff (mbOf bits)
  unfold fld at key
  rw [is30_val bits h, ← key]
  constructor
  · intro hv; injection hv
  · intro hv; rw [hv]

theorem is30_reserved_sound (bits : Bits) (h : bits.length = 112)
    (hv : slice 0 8 (mbOf bits) ≠ natToBits 8 0x30 ∨ slice 28 30 (mbOf bits) = [true, true] ∨
      48 ≤ bin2int (slice 15 22 (mbOf bits))) : is30 bits = .val false := by
  rw [is30_val bits h]; congr 1
  apply bool_false_of_not; intro hp
  obtain ⟨_, h1, h2, h3⟩ := (is30P_iff _).mp hp
  unfold fld at h3
  rcases hv with hv | hv | hv
  · exact hv h1
  · exact h2 hv
  · omega

/-- BDS 4,0: exactly — not all zero, the five status rules, MB bits 40-47 and 52-53 zero -/
theorem is40_iff (bits : Bits) (h : bits.length = 112) :
    is40 bits = .val true ↔
      (bin2int (mbOf bits) ≠ 0 ∧ statusP (mbOf bits) rules40 = true ∧ bin2int (slice 39 47 (mbOf bits)) = 0 ∧
       bin2int (slice 51 53 (mbOf bits)) = 0) := by
  have key := is40P_iff (mbOf bits)
  unfold fld at key
  rw [is40_val bits h, ← key]
  constructor
  · intro hv; injection hv
  · intro hv; rw [hv]

theorem is40_reserved_sound (bits : Bits) (h : bits.length = 112)
    (hv : true ∈ slice 39 47 (mbOf bits) ∨ true ∈ slice 51 53 (mbOf bits)) : is40 bits = .val false := by
  rw [is40_val bits h]; congr 1
  apply bool_false_of_not; intro hp
  obtain ⟨_, _, h1, h2⟩ := (is40P_iff _).mp hp
  rcases hv with hv | hv
  · exact (fld_ne_zero_iff _ _ _).mpr hv h1
  · exact (fld_ne_zero_iff _ _ _).mpr hv h2

/-- `statusP` spelled out: every listed status bit is set or its field is all zero -/
theorem statusP_spec (d : Bits) (l : List (Nat × Nat × Nat)) :
    statusP d l = true ↔ ∀ t ∈ l, bitAt d (t.1 - 1) = true ∨ bin2int (slice (t.2.1 - 1) t.2.2 d) = 0 :=
  statusP_iff d l

/-! ### 11. BDS 5,0, soundness and completeness of the plausibility limits -/

/-- `is50` exactly, in integers: not all zero, the five status rules, and for the values that are present
    |roll| ≤ 50° (signed roll field in −284..284), GS ≤ 600 kt (field ≤ 300), TAS ≤ 600 kt (field ≤ 300),
    |TAS − GS| ≤ 200 kt (fields differ by ≤ 100) -/
theorem is50_iff (bits : Bits) (h : bits.length = 112) :
    is50 bits = .val true ↔
      (bin2int (mbOf bits) ≠ 0 ∧ statusP (mbOf bits) rules50 = true ∧
        (bitAt (mbOf bits) 0 = true → -284 ≤ sval (mbOf bits) 1 2 11 ∧ sval (mbOf bits) 1 2 11 ≤ 284) ∧
        (bitAt (mbOf bits) 23 = true → fld (mbOf bits) 24 34 ≤ 300) ∧
        (bitAt (mbOf bits) 45 = true → fld (mbOf bits) 46 56 ≤ 300) ∧
        (bitAt (mbOf bits) 23 = true → bitAt (mbOf bits) 45 = true →
          fld (mbOf bits) 46 56 ≤ fld (mbOf bits) 24 34 + 100 ∧ fld (mbOf bits) 24 34 ≤ fld (mbOf bits) 46 56 + 100)) := by
  rw [is50_val bits h, ← is50P_iff]
  constructor
  · intro hv; injection hv
  · intro hv; rw [hv]

/-- completeness: every choice of the five (status, value) pairs — roll (sign `g1`, 9-bit magnitude `m1`), true
    track (`g2`, `m2`), ground speed `gs`, track rate (`g4`, `m4`), true airspeed `tas` — with value 0 where the
    status is 0, signed roll field in −284..284, GS and TAS fields ≤ 300, their difference ≤ 100 when both are
    present, and not all absent, laid out with `build` between an arbitrary 32-bit header and 24-bit parity,
    is accepted as BDS 5,0 -/
theorem is50_complete (hdr par : Bits) (hh : hdr.length = 32) (hp : par.length = 24)
    (s1 g1 : Bool) (m1 : Nat) (s2 g2 : Bool) (m2 : Nat) (s3 : Bool) (gs : Nat)
    (s4 g4 : Bool) (m4 : Nat) (s5 : Bool) (tas : Nat)
    (hm1 : m1 < 512) (hm2 : m2 < 1024) (hgs : gs < 1024) (hm4 : m4 < 512) (htas : tas < 1024)
    (z1 : s1 = false → g1 = false ∧ m1 = 0) (z2 : s2 = false → g2 = false ∧ m2 = 0)
    (z3 : s3 = false → gs = 0) (z4 : s4 = false → g4 = false ∧ m4 = 0) (z5 : s5 = false → tas = 0)
    (hroll : s1 = true → -284 ≤ sroll g1 m1 ∧ sroll g1 m1 ≤ 284)
    (hgs300 : s3 = true → gs ≤ 300) (htas300 : s5 = true → tas ≤ 300)
    (hdiff : s3 = true → s5 = true → tas ≤ gs + 100 ∧ gs ≤ tas + 100)
    (hne : s1 = true ∨ s2 = true ∨ s3 = true ∨ s4 = true ∨ s5 = true) :
    is50 (hdr ++ build [(1, s1.toNat), (1, g1.toNat), (9, m1), (1, s2.toNat), (1, g2.toNat), (10, m2),
      (1, s3.toNat), (10, gs), (1, s4.toNat), (1, g4.toNat), (9, m4), (1, s5.toNat), (10, tas)] ++ par) = .val true := by
  have hl := mb50_length s1 g1 m1 s2 g2 m2 s3 gs s4 g4 m4 s5 tas
  have hlen : (hdr ++ mb50 s1 g1 m1 s2 g2 m2 s3 gs s4 g4 m4 s5 tas ++ par).length = 112 := by
    simp only [List.length_append, hh, hp, hl]
  show is50 (hdr ++ mb50 s1 g1 m1 s2 g2 m2 s3 gs s4 g4 m4 s5 tas ++ par) = .val true
  rw [is50_val _ hlen, mbOf_frame hdr _ par hh hl,
    is50P_mb50 s1 g1 m1 s2 g2 m2 s3 gs s4 g4 m4 s5 tas hm1 hm2 hgs hm4 htas z1 z2 z3 z4 z5 hroll hgs300 htas300 hdiff hne]

/-- … and therefore "BDS50" is in `infer`'s answer for such a Comm-B reply -/
theorem infer_reports_50 (ias : Rat → Int → Rat) (bits : Bits) (mrar : Bool) (h : bits.length = 112)
    (h50 : is50 bits = .val true) : "BDS50" ∈ labelsP ias bits mrar := by
  rw [is50_val bits h] at h50
  injection h50 with h50
  exact (label_mem_iff ias bits mrar).2.2.2.2.2.2.2.1.mpr h50

/-- the hypotheses of `is50_complete` are met by a concrete payload (roll 10, track 100, GS 220, rate 3, TAS 230) -/
example : is50 exFrame50 = .val true :=
  is50_complete _ _ (by decide) (by decide) true false 10 true false 100 true 220 true false 3 true 230
    (by decide) (by decide) (by decide) (by decide) (by decide) (by decide) (by decide) (by decide) (by decide)
    (by decide) (by decide) (by decide) (by decide) (by decide) (by decide)

/-- a negative roll (sign bit set, magnitude 300: field value −212) is accepted too; −300 (magnitude 212) is not -/
example : sroll true 300 = -212 ∧ sroll true 212 = -300 := by decide


/-! ### 11 (continued). BDS 4,0 and BDS 6,0 -/

/-- completeness of BDS 4,0: any in-range selected altitudes / pressure setting / mode bits / source with value 0
    where the status is 0, the reserved bits 40-47 and 52-53 zero, not everything absent -/
theorem is40_complete (hdr par : Bits) (hh : hdr.length = 32) (hp : par.length = 24)
    (s1 : Bool) (mcp : Nat) (s2 : Bool) (fms : Nat) (s3 : Bool) (baro : Nat) (s4 : Bool) (modes : Nat)
    (s5 : Bool) (src : Nat)
    (h1 : mcp < 4096) (h2 : fms < 4096) (h3 : baro < 4096) (h4 : modes < 8) (h5 : src < 4)
    (z1 : s1 = false → mcp = 0) (z2 : s2 = false → fms = 0) (z3 : s3 = false → baro = 0)
    (z4 : s4 = false → modes = 0) (z5 : s5 = false → src = 0)
    (hne : s1 = true ∨ s2 = true ∨ s3 = true ∨ s4 = true ∨ s5 = true) :
    is40 (hdr ++ build [(1, s1.toNat), (12, mcp), (1, s2.toNat), (12, fms), (1, s3.toNat), (12, baro), (8, 0),
      (1, s4.toNat), (3, modes), (2, 0), (1, s5.toNat), (2, src)] ++ par) = .val true := by
  have hl := mb40_length s1 mcp s2 fms s3 baro s4 modes s5 src
  have hlen : (hdr ++ mb40 s1 mcp s2 fms s3 baro s4 modes s5 src ++ par).length = 112 := by
    simp only [List.length_append, hh, hp, hl]
  show is40 (hdr ++ mb40 s1 mcp s2 fms s3 baro s4 modes s5 src ++ par) = .val true
  rw [is40_val _ hlen, mbOf_frame hdr _ par hh hl,
    is40P_mb40 s1 mcp s2 fms s3 baro s4 modes s5 src h1 h2 h3 h4 h5 z1 z2 z3 z4 z5 hne]

example : is40 (natToBits 32 0xA0001838 ++ build [(1, 1), (12, 2000), (1, 0), (12, 0), (1, 1), (12, 2132), (8, 0),
    (1, 0), (3, 0), (2, 0), (1, 0), (2, 0)] ++ natToBits 24 0) = .val true :=
  is40_complete _ _ (by decide) (by decide) true 2000 false 0 true 2132 false 0 false 0
    (by decide) (by decide) (by decide) (by decide) (by decide) (by decide) (by decide) (by decide) (by decide)
    (by decide) (by decide)

theorem is60Core_frame (bits : Bits) (h : bits.length = 112) : is60Core bits = .val (is60CoreP (mbOf bits)) :=
  is60Core_val bits h

/-- `is60Core` (is60 before the altitude cross-check) exactly, in integers: not all zero, the five status rules,
    IAS ≤ 500 kt, Mach ≤ 1 (field ≤ 250), |vertical rates| ≤ 6000 ft/min (signed fields in −187..187) -/
theorem is60Core_iff (bits : Bits) (h : bits.length = 112) :
    is60Core bits = .val true ↔
      (bin2int (mbOf bits) ≠ 0 ∧ statusP (mbOf bits) rules60 = true ∧
        (bitAt (mbOf bits) 12 = true → fld (mbOf bits) 13 23 ≤ 500) ∧
        (bitAt (mbOf bits) 23 = true → fld (mbOf bits) 24 34 ≤ 250) ∧
        (bitAt (mbOf bits) 34 = true → -187 ≤ sval (mbOf bits) 35 36 45 ∧ sval (mbOf bits) 35 36 45 ≤ 187) ∧
        (bitAt (mbOf bits) 45 = true → -187 ≤ sval (mbOf bits) 46 47 56 ∧ sval (mbOf bits) 46 47 56 ≤ 187)) := by
  rw [is60Core_val bits h, ← is60CoreP_iff]
  constructor
  · intro hv; injection hv
  · intro hv; rw [hv]

/-- completeness of `is60Core` -/
theorem is60Core_complete (hdr par : Bits) (hh : hdr.length = 32) (hp : par.length = 24)
    (s1 g1 : Bool) (hdg : Nat) (s2 : Bool) (ias : Nat) (s3 : Bool) (mach : Nat)
    (s4 g4 : Bool) (vb : Nat) (s5 g5 : Bool) (vi : Nat)
    (hhd : hdg < 1024) (hi : ias < 1024) (hm : mach < 1024) (hvb : vb < 512) (hvi : vi < 512)
    (z1 : s1 = false → g1 = false ∧ hdg = 0) (z2 : s2 = false → ias = 0) (z3 : s3 = false → mach = 0)
    (z4 : s4 = false → g4 = false ∧ vb = 0) (z5 : s5 = false → g5 = false ∧ vi = 0)
    (hias : s2 = true → ias ≤ 500) (hmach : s3 = true → mach ≤ 250)
    (hb : s4 = true → -187 ≤ s9 g4 vb ∧ s9 g4 vb ≤ 187) (hn : s5 = true → -187 ≤ s9 g5 vi ∧ s9 g5 vi ≤ 187)
    (hne : s1 = true ∨ s2 = true ∨ s3 = true ∨ s4 = true ∨ s5 = true) :
    is60Core (hdr ++ build [(1, s1.toNat), (1, g1.toNat), (10, hdg), (1, s2.toNat), (10, ias), (1, s3.toNat),
      (10, mach), (1, s4.toNat), (1, g4.toNat), (9, vb), (1, s5.toNat), (1, g5.toNat), (9, vi)] ++ par) = .val true := by
  have hl := mb60_length s1 g1 hdg s2 ias s3 mach s4 g4 vb s5 g5 vi
  have hlen : (hdr ++ mb60 s1 g1 hdg s2 ias s3 mach s4 g4 vb s5 g5 vi ++ par).length = 112 := by
    simp only [List.length_append, hh, hp, hl]
  show is60Core (hdr ++ mb60 s1 g1 hdg s2 ias s3 mach s4 g4 vb s5 g5 vi ++ par) = .val true
  rw [is60Core_val _ hlen, mbOf_frame hdr _ par hh hl,
    is60CoreP_mb60 s1 g1 hdg s2 ias s3 mach s4 g4 vb s5 g5 vi hhd hi hm hvb hvi z1 z2 z3 z4 z5 hias hmach hb hn hne]

/-- outside DF20 (and whenever Mach or IAS is absent) the altitude cross-check is vacuous: `is60` is `is60Core` -/
theorem is60_eq_core (ias : Rat → Int → Rat) (bits : Bits) (h : bits.length = 112)
    (hc : dfB bits ≠ 20 ∨ bitAt (mbOf bits) 12 = false ∨ bitAt (mbOf bits) 23 = false) :
    is60 ias bits = is60Core bits := by
  rw [is60_val ias bits h, is60Core_val bits h]
  congr 1
  have ha : is60AltP ias bits = true := by
    unfold is60AltP mach60P ias60P ufieldP
    rcases hc with hc | hc | hc
    · split
      · rw [if_neg hc]
      · rfl
    · rw [hc]; simp
    · rw [hc]; simp
  unfold is60P
  rw [ha]
  cases is60CoreP (mbOf bits) <;> rfl

example : is60Core (natToBits 32 0xA0001838 ++ build [(1, 1), (1, 0), (10, 300), (1, 1), (10, 280), (1, 1),
    (10, 200), (1, 1), (1, 1), (9, 500), (1, 0), (1, 0), (9, 0)] ++ natToBits 24 0) = .val true :=
  is60Core_complete _ _ (by decide) (by decide) true false 300 true 280 true 200 true true 500 false false 0
    (by decide) (by decide) (by decide) (by decide) (by decide) (by decide) (by decide) (by decide) (by decide)
    (by decide) (by decide) (by decide) (by decide) (by decide) (by decide)


/-- `None` exactly when no rule holds -/
theorem joinLabels_none_iff (l : List String) : joinLabels l = none ↔ l = [] := by
  unfold joinLabels
  cases l <;> simp

theorem infer_none_of_no_rule (ias : Rat → Int → Rat) (bits : Bits) (mrar : Bool) (h : bits.length = 112)
    (hz : allzerosB bits = .val false)
    (hadsb : dfB bits = 17 → ∀ tc, tcB bits = some tc → inferAdsb tc = none)
    (h10 : is10 bits = .val false) (h17 : is17 bits = .val false) (h20 : is20 bits = .val false)
    (h30 : is30 bits = .val false) (h40 : is40 bits = .val false) (h44 : is44 bits = .val false)
    (h45 : is45 bits = .val false) (h50 : is50 bits = .val false) (h60 : is60 ias bits = .val false) :
    infer ias bits mrar = .val none :=
  infer_commb_eq_rules ias bits mrar h hz hadsb false false false false false false false false false
    h10 h17 h20 h30 h40 h44 h45 h50 h60


/-! ### 12. BDS 4,4, BDS 4,5 and BDS 5,3 in integer terms; completeness of BDS 4,4 and BDS 4,5

  Proofs in PyModeS/Proofs/Infer/{Bds44,Bds45,Bds53}.lean.  Same conventions as `is50_iff`: `bitAt d i` is bit `i`
  (0-based) of the MB field, `fld d a b` the unsigned `d[a:b]`, `sval d sg a b` the value of sign bit `sg` and
  magnitude `d[a:b]` (`fld d a b − 2^(b−a)` when the sign bit is set). -/

theorem rules53_as_coded : rules53 = [(1, 3, 12), (13, 14, 23), (24, 25, 33), (34, 35, 46), (47, 49, 56)] := rfl

/-- the two temperature readings of `temp44` are the signed field (sign MB bit 24, magnitude MB bits 25-34) over 4
    and over 8 -/
theorem temp44_frame (bits : Bits) (h : bits.length = 112) :
    temp44 bits = .val ((sval (mbOf bits) 23 24 34 : Rat) / 4, (sval (mbOf bits) 23 24 34 : Rat) / 8) := by
  rw [temp44_val bits h]
  unfold temp44P
  rw [temp44V_eq]

/-- the temperature of `temp45` is the signed field (sign MB bit 17, magnitude MB bits 18-26) over 4, whatever the
    status bit (MB bit 16) says -/
theorem temp45_frame (bits : Bits) (h : bits.length = 112) :
    temp45 bits = .val ((sval (mbOf bits) 16 17 26 : Rat) / 4) := by
  rw [temp45_val bits h]
  unfold temp45P
  rw [temp45V_eq]

/-- the temperature test of `is44` on the signed field value `v`: `min(v/4, v/8) > 60 ∨ max(v/4, v/8) < −80`
    rejects exactly the values outside −640..480 -/
theorem is44_temperature_rule (v : Int) :
    (min ((v : Rat) / 4) ((v : Rat) / 8) > 60 ∨ max ((v : Rat) / 4) ((v : Rat) / 8) < -80) ↔ ¬ (-640 ≤ v ∧ v ≤ 480) :=
  temp44_bound v

/-- the temperature test of `is45` on the signed field value `v`: `t ≠ 0 ∧ (t > 60 ∨ t < −80)` with `t = v/4`
    rejects exactly the values outside −320..240 (0 lies inside, so the `t ≠ 0` exemption changes nothing) -/
theorem is45_temperature_rule (v : Int) :
    ((v : Rat) / 4 ≠ 0 ∧ ((v : Rat) / 4 > 60 ∨ (v : Rat) / 4 < -80)) ↔ ¬ (-320 ≤ v ∧ v ≤ 240) :=
  temp45_bound v

/-- `is44` exactly, in integers: not all zero, the four status rules (wind, pressure, turbulence, humidity), source
    field (MB bits 1-4) ≤ 4, wind speed (MB bits 6-14) ≤ 250 kt when the wind status (MB bit 5) is set, and the signed
    temperature field (sign MB bit 24, magnitude MB bits 25-34; there is no status bit) in −640..480, i.e. not both
    readings v/4 and v/8 above 60 °C and not both below −80 °C -/
theorem is44_iff (bits : Bits) (h : bits.length = 112) :
    is44 bits = .val true ↔
      (bin2int (mbOf bits) ≠ 0 ∧ statusP (mbOf bits) rules44 = true ∧ fld (mbOf bits) 0 4 ≤ 4 ∧
        (bitAt (mbOf bits) 4 = true → fld (mbOf bits) 5 14 ≤ 250) ∧
        -640 ≤ sval (mbOf bits) 23 24 34 ∧ sval (mbOf bits) 23 24 34 ≤ 480) := by
  rw [is44_val bits h, ← is44P_iff]
  constructor
  · intro hv; injection hv
  · intro hv; rw [hv]

/-- completeness with the exact temperature range of the rule: source ≤ 4, value 0 where a status bit is 0, wind
    speed ≤ 250 when present, signed temperature field (`s10 gt mt`: sign `gt`, 10-bit magnitude `mt`) in −640..480,
    field widths respected, payload not all zero (given the zero-when-absent hypotheses this is: source, a status
    bit, or the temperature field non-zero) -/
theorem is44_complete_exact (hdr par : Bits) (hh : hdr.length = 32) (hp : par.length = 24)
    (src : Nat) (sw : Bool) (wspd wdir : Nat) (gt : Bool) (mt : Nat) (sp : Bool) (p : Nat)
    (st : Bool) (turb : Nat) (sh : Bool) (hum : Nat)
    (hsrc : src ≤ 4) (hws : wspd < 512) (hwd : wdir < 512) (hmt : mt < 1024) (hpr : p < 2048)
    (htb : turb < 4) (hhm : hum < 64)
    (z1 : sw = false → wspd = 0 ∧ wdir = 0) (z2 : sp = false → p = 0) (z3 : st = false → turb = 0)
    (z4 : sh = false → hum = 0)
    (hw : sw = true → wspd ≤ 250) (ht : -640 ≤ s10 gt mt ∧ s10 gt mt ≤ 480)
    (hne : src ≠ 0 ∨ sw = true ∨ gt = true ∨ mt ≠ 0 ∨ sp = true ∨ st = true ∨ sh = true) :
    is44 (hdr ++ build [(4, src), (1, sw.toNat), (9, wspd), (9, wdir), (1, gt.toNat), (10, mt), (1, sp.toNat),
      (11, p), (1, st.toNat), (2, turb), (1, sh.toNat), (6, hum)] ++ par) = .val true := by
  have hl := mb44_length src sw wspd wdir gt mt sp p st turb sh hum
  have hlen : (hdr ++ mb44 src sw wspd wdir gt mt sp p st turb sh hum ++ par).length = 112 := by
    simp only [List.length_append, hh, hp, hl]
  show is44 (hdr ++ mb44 src sw wspd wdir gt mt sp p st turb sh hum ++ par) = .val true
  rw [is44_val _ hlen, mbOf_frame hdr _ par hh hl,
    is44P_mb44 src sw wspd wdir gt mt sp p st turb sh hum hsrc hws hwd hmt hpr htb hhm z1 z2 z3 z4 hw ht hne]

/-- completeness of BDS 4,4 on plausible data: as above with the temperature within −80 °C … +60 °C in the 0.25 °C
    reading (signed field in −320..240), which lies inside the accepted range −640..480 -/
theorem is44_complete (hdr par : Bits) (hh : hdr.length = 32) (hp : par.length = 24)
    (src : Nat) (sw : Bool) (wspd wdir : Nat) (gt : Bool) (mt : Nat) (sp : Bool) (p : Nat)
    (st : Bool) (turb : Nat) (sh : Bool) (hum : Nat)
    (hsrc : src ≤ 4) (hws : wspd < 512) (hwd : wdir < 512) (hmt : mt < 1024) (hpr : p < 2048)
    (htb : turb < 4) (hhm : hum < 64)
    (z1 : sw = false → wspd = 0 ∧ wdir = 0) (z2 : sp = false → p = 0) (z3 : st = false → turb = 0)
    (z4 : sh = false → hum = 0)
    (hw : sw = true → wspd ≤ 250) (ht : -320 ≤ s10 gt mt ∧ s10 gt mt ≤ 240)
    (hne : src ≠ 0 ∨ sw = true ∨ gt = true ∨ mt ≠ 0 ∨ sp = true ∨ st = true ∨ sh = true) :
    is44 (hdr ++ build [(4, src), (1, sw.toNat), (9, wspd), (9, wdir), (1, gt.toNat), (10, mt), (1, sp.toNat),
      (11, p), (1, st.toNat), (2, turb), (1, sh.toNat), (6, hum)] ++ par) = .val true :=
  is44_complete_exact hdr par hh hp src sw wspd wdir gt mt sp p st turb sh hum hsrc hws hwd hmt hpr htb hhm
    z1 z2 z3 z4 hw ⟨by omega, by omega⟩ hne

/-- … and therefore "BDS44" is in `infer`'s answer for such a Comm-B reply when `mrar` is requested -/
theorem infer_reports_44 (ias : Rat → Int → Rat) (bits : Bits) (h : bits.length = 112)
    (h44 : is44 bits = .val true) : "BDS44" ∈ labelsP ias bits true := by
  rw [is44_val bits h] at h44
  injection h44 with h44
  exact (label_mem_iff ias bits true).2.2.2.2.2.1.mpr ⟨h44, rfl⟩

/-- without `mrar` it never is -/
theorem infer_omits_44_45 (ias : Rat → Int → Rat) (bits : Bits) :
    "BDS44" ∉ labelsP ias bits false ∧ "BDS45" ∉ labelsP ias bits false := by
  obtain ⟨_, _, _, _, _, m44, m45, _⟩ := label_mem_iff ias bits false
  constructor
  · intro hm; exact absurd (m44.mp hm).2 (by decide)
  · intro hm; exact absurd (m45.mp hm).2 (by decide)

/-- a DF20 frame with a BDS 4,4-looking payload: source 1 (INS), wind 22 kt from 100 × 180/256°, temperature field
    −160 (−40 °C), pressure 250 hPa, turbulence 1, humidity field 30 -/
def exFrame44 : Bits := natToBits 32 0xA0001838 ++ build [(4, 1), (1, 1), (9, 22), (9, 100), (1, 1), (10, 864), (1, 1),
  (11, 250), (1, 1), (2, 1), (1, 1), (6, 30)] ++ natToBits 24 0x123456

theorem exFrame44_length : exFrame44.length = 112 := by decide

/-- the hypotheses of `is44_complete` are met by a concrete payload -/
example : is44 exFrame44 = .val true :=
  is44_complete _ _ (by decide) (by decide) 1 true 22 100 true 864 true 250 true 1 true 30
    (by decide) (by decide) (by decide) (by decide) (by decide) (by decide) (by decide) (by decide) (by decide)
    (by decide) (by decide) (by decide) (by decide) (by decide)

example : s10 true 864 = -160 := by decide

example : "BDS44" ∈ labelsP (fun _ _ => 0) exFrame44 true :=
  infer_reports_44 _ _ exFrame44_length
    (is44_complete _ _ (by decide) (by decide) 1 true 22 100 true 864 true 250 true 1 true 30
      (by decide) (by decide) (by decide) (by decide) (by decide) (by decide) (by decide) (by decide) (by decide)
      (by decide) (by decide) (by decide) (by decide) (by decide))

/-- both sides of `is44_iff` on concrete frames: the temperature field 480 (60 °C at 0.125 °C per unit) is the last
    accepted value, 481 is rejected; wind speed 251 kt is rejected -/
example : is44 (natToBits 32 0xA0001838 ++ build [(4, 1), (1, 0), (9, 0), (9, 0), (1, 0), (10, 480), (1, 0),
    (11, 0), (1, 0), (2, 0), (1, 0), (6, 0)] ++ natToBits 24 0) = .val true := by decide +kernel
example : is44 (natToBits 32 0xA0001838 ++ build [(4, 1), (1, 0), (9, 0), (9, 0), (1, 0), (10, 481), (1, 0),
    (11, 0), (1, 0), (2, 0), (1, 0), (6, 0)] ++ natToBits 24 0) = .val false := by decide +kernel
example : is44 (natToBits 32 0xA0001838 ++ build [(4, 1), (1, 1), (9, 251), (9, 0), (1, 0), (10, 0), (1, 0),
    (11, 0), (1, 0), (2, 0), (1, 0), (6, 0)] ++ natToBits 24 0) = .val false := by decide +kernel

/-- `is45` exactly, in integers: not all zero, the eight status rules, the reserved MB bits 52-56 zero, and the signed
    temperature field (sign MB bit 17, magnitude MB bits 18-26) in −320..240, i.e. −80 °C ≤ t ≤ 60 °C.  As in the
    source, the temperature is range-checked whatever its status bit (MB bit 16) says, and a temperature of exactly 0
    is exempt from the range check — which changes nothing, 0 being in range:
    `v = 0 ∨ (−320 ≤ v ∧ v ≤ 240)` is `−320 ≤ v ∧ v ≤ 240` (`is45_temperature_rule`) -/
theorem is45_iff (bits : Bits) (h : bits.length = 112) :
    is45 bits = .val true ↔
      (bin2int (mbOf bits) ≠ 0 ∧ statusP (mbOf bits) rules45 = true ∧ fld (mbOf bits) 51 56 = 0 ∧
        -320 ≤ sval (mbOf bits) 16 17 26 ∧ sval (mbOf bits) 16 17 26 ≤ 240) := by
  rw [is45_val bits h, ← is45P_iff]
  constructor
  · intro hv; injection hv
  · intro hv; rw [hv]

/-- completeness of BDS 4,5: every choice of the eight (status, value) pairs — turbulence, wind shear, microburst,
    icing, wake vortex (2 bits each), static air temperature (sign `gt`, 9-bit magnitude `mt`), pressure (11 bits),
    radio height (12 bits) — with value 0 where the status is 0 (sign and magnitude for the temperature), signed
    temperature field in −320..240 when present, the five reserved bits zero, and not everything absent -/
theorem is45_complete (hdr par : Bits) (hh : hdr.length = 32) (hp : par.length = 24)
    (s1 : Bool) (turb : Nat) (s2 : Bool) (ws : Nat) (s3 : Bool) (mb : Nat) (s4 : Bool) (ic : Nat)
    (s5 : Bool) (wv : Nat) (s6 gt : Bool) (mt : Nat) (s7 : Bool) (p : Nat) (s8 : Bool) (rh : Nat)
    (h1 : turb < 4) (h2 : ws < 4) (h3 : mb < 4) (h4 : ic < 4) (h5 : wv < 4) (h6 : mt < 512)
    (h7 : p < 2048) (h8 : rh < 4096)
    (z1 : s1 = false → turb = 0) (z2 : s2 = false → ws = 0) (z3 : s3 = false → mb = 0)
    (z4 : s4 = false → ic = 0) (z5 : s5 = false → wv = 0) (z6 : s6 = false → gt = false ∧ mt = 0)
    (z7 : s7 = false → p = 0) (z8 : s8 = false → rh = 0)
    (ht : s6 = true → -320 ≤ s9 gt mt ∧ s9 gt mt ≤ 240)
    (hne : s1 = true ∨ s2 = true ∨ s3 = true ∨ s4 = true ∨ s5 = true ∨ s6 = true ∨ s7 = true ∨ s8 = true) :
    is45 (hdr ++ build [(1, s1.toNat), (2, turb), (1, s2.toNat), (2, ws), (1, s3.toNat), (2, mb), (1, s4.toNat),
      (2, ic), (1, s5.toNat), (2, wv), (1, s6.toNat), (1, gt.toNat), (9, mt), (1, s7.toNat), (11, p), (1, s8.toNat),
      (12, rh), (5, 0)] ++ par) = .val true := by
  have hl := mb45_length s1 turb s2 ws s3 mb s4 ic s5 wv s6 gt mt s7 p s8 rh
  have hlen : (hdr ++ Infer.mb45 s1 turb s2 ws s3 mb s4 ic s5 wv s6 gt mt s7 p s8 rh ++ par).length = 112 := by
    simp only [List.length_append, hh, hp, hl]
  show is45 (hdr ++ Infer.mb45 s1 turb s2 ws s3 mb s4 ic s5 wv s6 gt mt s7 p s8 rh ++ par) = .val true
  rw [is45_val _ hlen, mbOf_frame hdr _ par hh hl,
    is45P_mb45 s1 turb s2 ws s3 mb s4 ic s5 wv s6 gt mt s7 p s8 rh h1 h2 h3 h4 h5 h6 h7 h8 z1 z2 z3 z4 z5 z6 z7 z8
      ht hne]

/-- … and therefore "BDS45" is in `infer`'s answer for such a Comm-B reply when `mrar` is requested -/
theorem infer_reports_45 (ias : Rat → Int → Rat) (bits : Bits) (h : bits.length = 112)
    (h45 : is45 bits = .val true) : "BDS45" ∈ labelsP ias bits true := by
  rw [is45_val bits h] at h45
  injection h45 with h45
  exact (label_mem_iff ias bits true).2.2.2.2.2.2.1.mpr ⟨h45, rfl⟩

/-- a DF20 frame with a BDS 4,5-looking payload: light turbulence, moderate icing, temperature field −210 (−52.5 °C),
    pressure 260 hPa, radio height field 1000 -/
def exFrame45 : Bits := natToBits 32 0xA0001838 ++ build [(1, 1), (2, 1), (1, 0), (2, 0), (1, 0), (2, 0), (1, 1), (2, 2),
  (1, 0), (2, 0), (1, 1), (1, 1), (9, 302), (1, 1), (11, 260), (1, 1), (12, 1000), (5, 0)] ++ natToBits 24 0x123456

theorem exFrame45_length : exFrame45.length = 112 := by decide

/-- the hypotheses of `is45_complete` are met by a concrete payload -/
example : is45 exFrame45 = .val true :=
  is45_complete _ _ (by decide) (by decide) true 1 false 0 false 0 true 2 false 0 true true 302 true 260 true 1000
    (by decide) (by decide) (by decide) (by decide) (by decide) (by decide) (by decide) (by decide)
    (by decide) (by decide) (by decide) (by decide) (by decide) (by decide) (by decide) (by decide)
    (by decide) (by decide)

example : s9 true 302 = -210 := by decide

example : "BDS45" ∈ labelsP (fun _ _ => 0) exFrame45 true :=
  infer_reports_45 _ _ exFrame45_length
    (is45_complete _ _ (by decide) (by decide) true 1 false 0 false 0 true 2 false 0 true true 302 true 260 true 1000
      (by decide) (by decide) (by decide) (by decide) (by decide) (by decide) (by decide) (by decide)
      (by decide) (by decide) (by decide) (by decide) (by decide) (by decide) (by decide) (by decide)
      (by decide) (by decide))

/-- both sides of `is45_iff` on concrete frames: temperature field 240 (+60 °C) accepted, 241 rejected, and a set
    reserved bit rejected -/
example : is45 (natToBits 32 0xA0001838 ++ build [(1, 0), (2, 0), (1, 0), (2, 0), (1, 0), (2, 0), (1, 0), (2, 0),
    (1, 0), (2, 0), (1, 1), (1, 0), (9, 240), (1, 0), (11, 0), (1, 0), (12, 0), (5, 0)] ++ natToBits 24 0)
    = .val true := by decide +kernel
example : is45 (natToBits 32 0xA0001838 ++ build [(1, 0), (2, 0), (1, 0), (2, 0), (1, 0), (2, 0), (1, 0), (2, 0),
    (1, 0), (2, 0), (1, 1), (1, 0), (9, 241), (1, 0), (11, 0), (1, 0), (12, 0), (5, 0)] ++ natToBits 24 0)
    = .val false := by decide +kernel
example : is45 (natToBits 32 0xA0001838 ++ build [(1, 0), (2, 0), (1, 0), (2, 0), (1, 0), (2, 0), (1, 0), (2, 0),
    (1, 0), (2, 0), (1, 1), (1, 0), (9, 240), (1, 0), (11, 0), (1, 0), (12, 0), (5, 1)] ++ natToBits 24 0)
    = .val false := by decide +kernel

/-- `is53` exactly, in integers: not all zero, the five status rules (magnetic heading, IAS, Mach, TAS, vertical
    rate), and for the values that are present IAS ≤ 500 kt (MB bits 14-23), Mach ≤ 1 (MB bits 25-33 × 0.008: field
    ≤ 125), TAS ≤ 500 kt (MB bits 35-46 × 0.5: field ≤ 1000), |vertical rate| ≤ 8000 ft/min (sign MB bit 48,
    magnitude MB bits 49-56, × 64: signed field in −125..125) -/
theorem is53_iff (bits : Bits) (h : bits.length = 112) :
    is53 bits = .val true ↔
      (bin2int (mbOf bits) ≠ 0 ∧ statusP (mbOf bits) rules53 = true ∧
        (bitAt (mbOf bits) 12 = true → fld (mbOf bits) 13 23 ≤ 500) ∧
        (bitAt (mbOf bits) 23 = true → fld (mbOf bits) 24 33 ≤ 125) ∧
        (bitAt (mbOf bits) 33 = true → fld (mbOf bits) 34 46 ≤ 1000) ∧
        (bitAt (mbOf bits) 46 = true → -125 ≤ sval (mbOf bits) 47 48 56 ∧ sval (mbOf bits) 47 48 56 ≤ 125)) := by
  rw [is53_val bits h, ← is53P_iff]
  constructor
  · intro hv; injection hv
  · intro hv; rw [hv]

/-- both sides of `is53_iff` on concrete frames (heading, IAS 280, Mach field, TAS field, vertical-rate field):
    Mach field 125 and TAS field 1000 and vertical rate −125 are accepted, Mach field 126 is not -/
example : is53 (natToBits 32 0xA0001838 ++ build [(1, 1), (1, 0), (10, 300), (1, 1), (10, 280), (1, 1), (9, 125),
    (1, 1), (12, 1000), (1, 1), (1, 1), (8, 131)] ++ natToBits 24 0) = .val true := by decide +kernel
example : is53 (natToBits 32 0xA0001838 ++ build [(1, 1), (1, 0), (10, 300), (1, 1), (10, 280), (1, 1), (9, 126),
    (1, 1), (12, 1000), (1, 1), (1, 1), (8, 131)] ++ natToBits 24 0) = .val false := by decide +kernel


end PyModeS.C12
