/-
  C12 — BDS register inference is total, format-sound and complete on plausible data.
-/
import PyModeS.Proofs.Bits
import PyModeS.Model.Commb
namespace PyModeS.C12

/-- an all-zero MB field of a 112-bit frame is reported as EMPTY whatever the header says -/
theorem infer_empty (ias : Rat → Int → Rat) (bits : Bits) (mrar : Bool) (h : allzerosB bits = .val true) :
    infer ias bits mrar = .val (some "EMPTY") := by
  unfold infer; simp [h]

/-- DF17 with a type code that names a register: that register (the Comm-B rules are not consulted) -/
theorem infer_df17_tc (ias : Rat → Int → Rat) (bits : Bits) (mrar : Bool) (tc : Nat) (l : String)
    (hz : allzerosB bits = .val false) (hdf : dfB bits = 17) (htc : tcB bits = some tc) (hl : inferAdsb tc = some l) :
    infer ias bits mrar = .val (some l) := by
  unfold infer; simp [hz, hdf, htc, hl]

/-- the TC -> register map of DO-260B -/
theorem inferAdsb_table : (List.range 32).map inferAdsb =
    [none, some "BDS08", some "BDS08", some "BDS08", some "BDS08", some "BDS06", some "BDS06", some "BDS06", some "BDS06",
     some "BDS05", some "BDS05", some "BDS05", some "BDS05", some "BDS05", some "BDS05", some "BDS05", some "BDS05", some "BDS05",
     some "BDS05", some "BDS09", some "BDS05", some "BDS05", some "BDS05", none, none, none, none, none, some "BDS61",
     some "BDS62", none, some "BDS65"] := by decide

end PyModeS.C12
