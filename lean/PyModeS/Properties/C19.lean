/-
  C19 — The software demodulator recovers cleanly modulated frames.
-/
import PyModeS.Model.Demod
namespace PyModeS.C19

/-- the acceptance test lets a DF17 frame through only with a zero checksum -/
theorem checkMsg_df17_crc0 (m : Msg) (h17 : df m = 17) (hok : checkMsg m = true) : m.length = 28 ∧ crc m false = 0 := by
  unfold checkMsg at hok
  simp only [h17] at hok
  by_cases hl : m.length = 28
  · simp [hl] at hok
    exact ⟨hl, hok⟩
  · simp [hl] at hok

end PyModeS.C19
