/-
  C19 — The software demodulator recovers cleanly modulated frames.
-/
import PyModeS.Model.Demod
import PyModeS.Properties.C01
import PyModeS.Proofs.Demod.Loop
import PyModeS.Proofs.Demod.Clean
import PyModeS.Proofs.Demod.CleanEval
import PyModeS.Proofs.Demod.SnrBand
import PyModeS.Proofs.Demod.CleanMulti
namespace PyModeS.C19

/-- the acceptance test lets a DF17 frame through only with a zero checksum -/
theorem checkMsg_df17_crc0 (m : Msg) (h17 : df m = 17) (hok : checkMsg m = true) : m.length = 28 ∧ crc m false = 0 := by
  unfold checkMsg at hok
  simp only [h17] at hok
  by_cases hl : m.length = 28
  · simp [hl] at hok
    exact ⟨hl, hok⟩
  · simp [hl] at hok

/-! ### 1. No DF17 frame with a non-zero checksum is ever returned (unconditional) -/

/-- `processBuffer` unfolded: the noise floor is the minimum of the old one and the quietest
    200-sample window, the messages are those of `demodLoop` started at 0 with `buf.size + 1` fuel -/
theorem processBuffer_val (noiseFloor : Rat) (buf : Array Rat) (msgs : List Msg) (nf : Rat) (rest : Nat)
    (h : processBuffer noiseFloor buf = .val (msgs, nf, rest)) :
    ∃ c i, calcNoise buf = .val c ∧ nf = min c noiseFloor ∧
      demodLoop buf ((3162 : Rat) / 1000 * nf) (buf.size + 1) 0 [] = .val (msgs, i) ∧
      rest = buf.size - i := by
  unfold processBuffer at h
  cases hc : calcNoise buf with
  | rte => rw [hc] at h; simp at h
  | exc => rw [hc] at h; simp at h
  | val c =>
    rw [hc] at h
    simp only [Res.bind_val] at h
    cases hd : demodLoop buf ((3162 : Rat) / 1000 * min c noiseFloor) (buf.size + 1) 0 [] with
    | rte => rw [hd] at h; simp at h
    | exc => rw [hd] at h; simp at h
    | val r =>
      obtain ⟨out, i⟩ := r
      rw [hd] at h
      simp only [Res.bind_val, Res.pure_eq, Res.val.injEq, Prod.mk.injEq] at h
      obtain ⟨h1, h2, h3⟩ := h
      subst h1 h2 h3
      exact ⟨c, i, rfl, rfl, hd, rfl⟩

/-- every returned message passed `_check_msg` -/
theorem processBuffer_checkMsg (noiseFloor : Rat) (buf : Array Rat) (msgs : List Msg) (nf : Rat) (rest : Nat)
    (h : processBuffer noiseFloor buf = .val (msgs, nf, rest)) : ∀ m ∈ msgs, checkMsg m = true := by
  obtain ⟨c, i, _, _, hd, _⟩ := processBuffer_val noiseFloor buf msgs nf rest h
  exact Demod.demodLoop_checkMsg buf _ _ _ _ _ _ (by simp) hd

/-- **never_bad_df17** — for every previous noise floor and every sample buffer, whatever
    `_process_buffer` returns, each returned message passed `_check_msg`; if its DF is 17 it has
    28 hex digits, `crc(msg)` is 0, and (by C01) the true remainder of the frame polynomial
    modulo the Mode S generator is 0. -/
theorem never_bad_df17 (noiseFloor : Rat) (buf : Array Rat) (msgs : List Msg) (nf : Rat) (rest : Nat)
    (h : processBuffer noiseFloor buf = .val (msgs, nf, rest)) :
    ∀ m ∈ msgs, checkMsg m = true ∧
      (df m = 17 → m.length = 28 ∧ crc m false = 0 ∧ Spec.remH (hex2binM m) = 0) := by
  intro m hm
  have hok := processBuffer_checkMsg noiseFloor buf msgs nf rest h m hm
  refine ⟨hok, fun h17 => ?_⟩
  obtain ⟨hl, hc⟩ := checkMsg_df17_crc0 m h17 hok
  refine ⟨hl, hc, ?_⟩
  rw [← PyModeS.C01.crc_eq_remainder_msg m (by omega) (by omega)]
  exact hc

/-! ### 2. The loop consumes the whole buffer; the modelled fuel is never the reason it stops -/

/-- `demodLoop` with the fuel `processBuffer` gives it stops only by `i ≥ len(buffer)` -/
theorem demodLoop_terminates (buf : Array Rat) (minAmp : Rat) (fuel i : Nat) (out res : List Msg) (i' : Nat)
    (hf : buf.size < fuel + i) (h : demodLoop buf minAmp fuel i out = .val (res, i')) :
    buf.size ≤ i' ∧ i ≤ i' :=
  ⟨Demod.demodLoop_terminates buf minAmp fuel i out res i' hf h,
   Demod.demodLoop_index_ge buf minAmp fuel i out res i' h⟩

/-- any larger fuel gives the same result: the fuel parameter is an artefact of the model only -/
theorem demodLoop_fuel_irrelevant (buf : Array Rat) (minAmp : Rat) (i : Nat) (out : List Msg) (extra : Nat) :
    demodLoop buf minAmp (buf.size + 1 + extra) i out = demodLoop buf minAmp (buf.size + 1) i out :=
  Demod.demodLoop_fuel_irrelevant buf minAmp (buf.size + 1) i out extra (by omega)

/-- **processBuffer_rest** — after a successful call the remaining buffer `signal_buffer[i:]` is
    empty (the final index is `≥ len(buffer)`), and the new noise floor is the minimum of the old
    one and the measured one (so it never increases). -/
theorem processBuffer_rest (noiseFloor : Rat) (buf : Array Rat) (msgs : List Msg) (nf : Rat) (rest : Nat)
    (h : processBuffer noiseFloor buf = .val (msgs, nf, rest)) :
    rest = 0 ∧ nf ≤ noiseFloor ∧
    ∃ c i, calcNoise buf = .val c ∧ nf = min c noiseFloor ∧ buf.size ≤ i ∧ rest = buf.size - i ∧
      demodLoop buf ((3162 : Rat) / 1000 * nf) (buf.size + 1) 0 [] = .val (msgs, i) := by
  obtain ⟨c, i, hc, hnf, hd, hr⟩ := processBuffer_val noiseFloor buf msgs nf rest h
  have hi := Demod.demodLoop_terminates buf _ _ _ _ _ _ (by omega) hd
  refine ⟨by omega, ?_, c, i, hc, hnf, hi, hr, hd⟩
  rw [hnf]; exact Std.min_le_right

/-- the hypothesis of `never_bad_df17` / `processBuffer_rest` is met: a quiet 200-sample buffer is
    processed to no message, noise floor 1/20, nothing left (and a buffer shorter than one 200-sample
    window makes `_calc_noise` raise: `min([])`) -/
example : processBuffer 1 (List.replicate 200 (1/20 : Rat)).toArray = .val ([], 1/20, 0) ∧
    processBuffer 1 (List.replicate 100 (1/20 : Rat)).toArray = .exc := by decide +kernel

/-! ### 3. A cleanly modulated frame is recovered

  Property, full statement: "For any sequence of valid Mode S frames … pulse-position modulated at
  2 samples per microsecond behind the standard 8 us preamble, with pulse amplitude between 0.3 and
  1.4, at least 10 dB above the noise floor and separated by at least one frame length of noise,
  the sample-buffer processor returns exactly those frames, in order, as upper-case hex of the
  right length."

  What is proved (`…_partial`): the same conclusion under a STRONGER noise hypothesis than
  "10 dB": every non-pulse sample (lead-in, low half-bits, gaps) is below `a/5` (13.98 dB below
  the pulse amplitude `a`; the slicer's threshold is `max(frame_pulses) * 0.2`) and below `1/5`
  (a noise sample can then never pass the preamble test `|x − 1| ≤ 0.8`).  What is missing is the
  band between 10 dB and 14 dB — and it cannot be supplied: `snr_10dB_insufficient` evaluates the
  model on a buffer that meets the property's wording with 10.46 dB and loses the frame
  (recorded open finding C19-snr-10-14dB).  Everything else of the statement is covered, with
  margins: amplitude 0.2 … 1.8, any previous noise floor, gaps of 114 samples instead of 224. -/

open PyModeS.Demod (modulate preambleSamples ppm)

/-- the modulator, spelled out: 16 preamble samples (`a` where `Tables.rtlPreamble` has 1, the low
    sample `lo k` elsewhere), then per bit `1 ↦ (a, low)`, `0 ↦ (low, a)`; `lo` is indexed by the
    sample offset inside the transmission -/
theorem modulate_def (a : Rat) (lo : Nat → Rat) (bits : Bits) :
    modulate a lo bits = preambleSamples a lo ++ ppm a lo 16 bits ∧
    preambleSamples a lo = (List.range 16).map (fun k => if Tables.rtlPreamble.getD k 0 = 1 then a else lo k) ∧
    (∀ k, ppm a lo k [] = []) ∧
    (∀ k b bs, ppm a lo k (b :: bs) = (if b then [a, lo (k + 1)] else [lo k, a]) ++ ppm a lo (k + 2) bs) :=
  ⟨rfl, rfl, fun _ => rfl, fun _ _ _ => rfl⟩

theorem rtl_tables : Tables.rtlPreamble = [1, 0, 1, 0, 0, 0, 0, 1, 0, 1, 0, 0, 0, 0, 0, 0] ∧
    Tables.rtlPbits = 8 ∧ Tables.rtlFbits = 112 ∧ Tables.rtlThAmpDiff = 4 / 5 ∧
    Tables.rtlSamplesPerMicrosec = 2 :=
  ⟨Demod.rtlPreamble_eq, Demod.rtlPbits_eq, Demod.rtlFbits_eq, Demod.rtlThAmpDiff_eq,
    Demod.rtlSamplesPerMicrosec_eq⟩

/-- the modulated preamble passes `_check_preamble` (amplitude 0.2 … 1.8, lows within ±0.8) -/
theorem checkPreamble_modulated (a : Rat) (lo : Nat → Rat) (ha : 1 / 5 ≤ a ∧ a ≤ 9 / 5)
    (hlo : ∀ k, k < 16 → -(4 / 5) ≤ lo k ∧ lo k ≤ 4 / 5) :
    checkPreamble (preambleSamples a lo) = true :=
  Demod.checkPreamble_modulated a lo ha hlo

/-- the slicer reads back exactly the modulated bits and stops at the first quiet pair (or at the
    end of the window): any threshold `thr ≤ a` above all low samples, at most 112 bits -/
theorem sliceBits_modulated (a thr : Rat) (lo : Nat → Rat) (k : Nat) (bits : Bits) (tl : List Rat)
    (hlen : bits.length ≤ 112) (hthr : thr ≤ a) (hlo : ∀ k, lo k < thr)
    (htl : ∀ x ∈ tl.take 2, x < thr) :
    sliceBits (ppm a lo k bits ++ tl) thr 113 0 [] = (bits, 2 * bits.length) :=
  Demod.sliceBits_modulated a thr lo k bits tl hlen hthr hlo htl

/-- a frame accepted by `_check_msg` is reproduced digit for digit by `bin2hex` of its bits
    (upper case, right length: DF ≥ 4 makes the leading digit non-zero) -/
theorem bin2hex_roundtrip (m : Msg) (hup : ∀ c ∈ m, c ∈ "0123456789ABCDEF".toList)
    (hok : checkMsg m = true) : bin2hexNoPad (hex2binM m) = m ∧ (m.length = 14 ∨ m.length = 28) :=
  ⟨Demod.bin2hexNoPad_hex2binM_of_checkMsg m hup hok, (Demod.checkMsg_facts m hok).2⟩

/-- **clean_signal_recovered_partial** — ONE frame.  `m` is an upper-case hex frame that
    `_check_msg` accepts (DF 17 with zero CRC remainder / DF 20, 21 — 28 digits; DF 4, 5, 11 — 14
    digits), modulated with pulse amplitude `a ∈ [0.3, 1.4]` behind ≥ 200 samples of lead-in and
    followed by any amount of noise; every non-pulse sample is `< a/5` and `< 1/5` (lows inside the
    transmission also `≥ 0`).  Then for EVERY previous noise floor `nf0`, `_process_buffer`
    returns exactly `[m]`, the new noise floor `min(c, nf0)` (`c` = `_calc_noise`), and an empty
    remaining buffer.
    Partial w.r.t. the property only in the noise hypothesis (14 dB instead of 10 dB), see the
    section header and `snr_10dB_insufficient`. -/
theorem clean_signal_recovered_partial (nf0 a : Rat) (lo : Nat → Rat) (pre post : List Rat) (m : Msg)
    (hup : ∀ c ∈ m, c ∈ "0123456789ABCDEF".toList) (hok : checkMsg m = true)
    (ha : 3 / 10 ≤ a ∧ a ≤ 14 / 10)
    (hlo : ∀ k, 0 ≤ lo k ∧ lo k < a / 5)
    (hpre : ∀ x ∈ pre, x < a / 5 ∧ x < 1 / 5) (hpost : ∀ x ∈ post, x < a / 5 ∧ x < 1 / 5)
    (hprelen : 200 ≤ pre.length) :
    ∃ c, calcNoise (pre ++ modulate a lo (hex2binM m) ++ post).toArray = .val c ∧
      processBuffer nf0 (pre ++ modulate a lo (hex2binM m) ++ post).toArray =
        .val ([m], min c nf0, 0) :=
  Demod.clean_signal_recovered_c19 nf0 a lo pre post m hup hok ha hlo hpre hpost hprelen

/-- the same on bit strings with the weakest hypotheses found: any `≤ 112` bits whose `bin2hex`
    passes `_check_msg`, amplitude 0.2 … 1.8, lows `≥ −0.8` -/
theorem clean_bits_recovered_partial (nf0 a : Rat) (lo : Nat → Rat) (pre post : List Rat) (bits : Bits)
    (hlen : bits.length ≤ 112) (hok : checkMsg (bin2hexNoPad bits) = true)
    (ha : 1 / 5 ≤ a ∧ a ≤ 9 / 5) (hlo : ∀ k, -(4 / 5) ≤ lo k ∧ lo k < a / 5)
    (hpre : ∀ x ∈ pre, x < a / 5 ∧ x < 1 / 5) (hpost : ∀ x ∈ post, x < a / 5 ∧ x < 1 / 5)
    (hprelen : 200 ≤ pre.length) :
    ∃ c, calcNoise (pre ++ modulate a lo bits ++ post).toArray = .val c ∧
      processBuffer nf0 (pre ++ modulate a lo bits ++ post).toArray =
        .val ([bin2hexNoPad bits], min c nf0, 0) :=
  Demod.clean_bits_recovered nf0 a lo pre post bits hlen hok ha hlo hpre hpost hprelen

/-- **clean_frames_recovered_partial** — ANY NUMBER of frames (one shared amplitude and low-sample
    pattern; see `clean_frames_recovered_multi_partial` for per-frame amplitudes): each
    `(m, gap)` is a valid upper-case frame followed by ≥ 114 samples of noise (`< a/5`, `< 1/5`).
    The frames come back exactly, in order. -/
theorem clean_frames_recovered_partial (nf0 a : Rat) (lo : Nat → Rat) (pre : List Rat)
    (frames : List (Msg × List Rat))
    (ha : 3 / 10 ≤ a ∧ a ≤ 14 / 10)
    (hlo : ∀ k, 0 ≤ lo k ∧ lo k < a / 5)
    (hpre : ∀ x ∈ pre, x < a / 5 ∧ x < 1 / 5) (hprelen : 200 ≤ pre.length)
    (hframes : ∀ f ∈ frames, (∀ c ∈ f.1, c ∈ "0123456789ABCDEF".toList) ∧ checkMsg f.1 = true ∧
      114 ≤ f.2.length ∧ ∀ x ∈ f.2, x < a / 5 ∧ x < 1 / 5) :
    ∃ c, calcNoise (pre ++ (frames.flatMap fun f => modulate a lo (hex2binM f.1) ++ f.2)).toArray = .val c ∧
      processBuffer nf0 (pre ++ (frames.flatMap fun f => modulate a lo (hex2binM f.1) ++ f.2)).toArray =
        .val (frames.map (·.1), min c nf0, 0) :=
  Demod.clean_frames_recovered_c19 nf0 a lo pre frames ha hlo hpre hprelen hframes

/-- **clean_frames_recovered_multi_partial** — the sequence statement with PER-TRANSMISSION pulse
    amplitude and low samples: `tx` lists `(a, lo, m, gap)`; each amplitude in [0.3, 1.4], lows in
    `[0, a/5)`, `m` a valid upper-case frame, `gap` ≥ 114 samples of noise below `1/5` and below
    that transmission's `a/5`; lead-in ≥ 200 samples below `1/5` and below every `a/5`.
    `_process_buffer` returns exactly the frames, in order, for every previous noise floor.
    (Partial only in the 14 dB vs 10 dB noise hypothesis.) -/
theorem clean_frames_recovered_multi_partial (nf0 : Rat) (pre : List Rat)
    (tx : List (Rat × (Nat → Rat) × Msg × List Rat))
    (hprelen : 200 ≤ pre.length)
    (hpre : ∀ x ∈ pre, x < 1 / 5 ∧ ∀ t ∈ tx, x < t.1 / 5)
    (htx : ∀ t ∈ tx, (3 / 10 ≤ t.1 ∧ t.1 ≤ 14 / 10) ∧ (∀ j, 0 ≤ t.2.1 j ∧ t.2.1 j < t.1 / 5) ∧
      (∀ c ∈ t.2.2.1, c ∈ "0123456789ABCDEF".toList) ∧ checkMsg t.2.2.1 = true ∧
      114 ≤ t.2.2.2.length ∧ ∀ x ∈ t.2.2.2, x < t.1 / 5 ∧ x < 1 / 5) :
    ∃ c, calcNoise (pre ++ (tx.flatMap fun t => modulate t.1 t.2.1 (hex2binM t.2.2.1) ++ t.2.2.2)).toArray = .val c ∧
      processBuffer nf0 (pre ++ (tx.flatMap fun t => modulate t.1 t.2.1 (hex2binM t.2.2.1) ++ t.2.2.2)).toArray =
        .val (tx.map (·.2.2.1), min c nf0, 0) :=
  Demod.clean_frames_recovered_multi_c19 nf0 pre tx hprelen hpre htx

/-- hypotheses met (one frame): real DF17 frame at amplitude 0.5 over a 0.05 floor; the result is
    confirmed independently by evaluating the model (`Demod.exBuf_eval`, no use of the theorem) -/
example : processBuffer 1000000 (List.replicate 200 (1 / 20) ++
      modulate (1 / 2) (fun _ => 1 / 20) (hex2binM "8D406B902015A678D4D220AA4BDA".toList) ++
      List.replicate 10 (1 / 20)).toArray = .val (["8D406B902015A678D4D220AA4BDA".toList], 1 / 20, 0) :=
  Demod.exBuf_eval
example : ∃ c, calcNoise Demod.exBuf.toArray = .val c ∧
    processBuffer 1000000 Demod.exBuf.toArray = .val ([Demod.exMsg], min c 1000000, 0) :=
  clean_signal_recovered_partial 1000000 (1 / 2) (fun _ => 1 / 20) (List.replicate 200 (1 / 20))
    (List.replicate 10 (1 / 20)) Demod.exMsg (by decide) (by decide +kernel) (by decide +kernel)
    (fun _ => by decide +kernel)
    (fun x hx => by rw [List.eq_of_mem_replicate hx]; decide +kernel)
    (fun x hx => by rw [List.eq_of_mem_replicate hx]; decide +kernel)
    (by rw [List.length_replicate])

/-- **snr_10dB_insufficient** — why the 10 dB of the property cannot be proved: the buffer
    `Demod.noisyBuf` (same frame, amplitude 0.5, EVERY non-pulse sample 0.15) satisfies the
    property's wording — amplitude in [0.3, 1.4], `3.162 × 0.15 ≤ 0.5` i.e. ≥ 10 dB, valid frame —
    but not `0.15 < a/5`; the model of `_process_buffer` returns no message for it. -/
theorem snr_10dB_insufficient :
    ((3 / 10 : Rat) ≤ 1 / 2 ∧ (1 / 2 : Rat) ≤ 14 / 10 ∧ (3162 / 1000 : Rat) * (3 / 20) ≤ 1 / 2 ∧
      checkMsg "8D406B902015A678D4D220AA4BDA".toList = true ∧ ¬ ((3 / 20 : Rat) < (1 / 2) / 5)) ∧
    Demod.noisyBuf = List.replicate 200 (3 / 20) ++
      modulate (1 / 2) (fun _ => 3 / 20) (hex2binM "8D406B902015A678D4D220AA4BDA".toList) ++
      List.replicate 10 (3 / 20) ∧
    processBuffer 1000000 Demod.noisyBuf.toArray = .val ([], 3 / 20, 0) :=
  ⟨Demod.noisyBuf_meets_10dB, rfl, Demod.noisyBuf_lost⟩

end PyModeS.C19
