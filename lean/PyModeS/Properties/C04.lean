/-
  C04 — CPR decode with a reference position (airborne and surface).

  `Spec.cprEncode nl base i lat lon` is the DO-260B encoder over ℚ (`base` = 360 airborne,
  90 surface; `i` = 0 even, 1 odd); `e.rlat`, `e.rlon` is the position carried by the frame,
  `e.dlat`, `e.dlon` the zone sizes, `e.yz`, `e.xz` the transmitted 17-bit fields.  All theorems
  hold for an arbitrary NL function `nl` and every `0 < base`.  The `yzFull = 2^17` wrap of the
  encoder (field transmitted as 0, zone index one higher) is covered: nothing is assumed about
  the input latitude/longitude.  Proofs: `PyModeS/Proofs/CPR/Floor.lean`, `Local.lean`.
-/
import PyModeS.Model.Adsb
import PyModeS.Proofs.CPR.Local
namespace PyModeS.C04

/-- `position_with_ref` routes by type code: surface 5–8, airborne 9–18 and 20–22, RuntimeError otherwise -/
theorem tc_routing (b : Bits) (tc : Nat) (h : tcB b = some tc) :
    positionWithRefRoute b =
      if 5 ≤ tc ∧ tc ≤ 8 then .val .surface
      else if (9 ≤ tc ∧ tc ≤ 18) ∨ (20 ≤ tc ∧ tc ≤ 22) then .val .airborne else .rte := by
  unfold positionWithRefRoute; simp [h]

/-- **ref_lat.** A reference latitude closer than half a latitude zone to the carried latitude
    makes the local decoder return the carried latitude exactly. -/
theorem ref_lat (nl : ℚ → ℕ) (base : ℚ) (hb : 0 < base) (i : ℕ) (hi : i = 0 ∨ i = 1)
    (lat lon latRef lonRef : ℚ) (e : Spec.Enc) (he : e = Spec.cprEncode nl base i lat lon)
    (h : |latRef - e.rlat| < e.dlat / 2) :
    (positionWithRefCore nl base ⟨decide (i = 1), e.yz, e.xz⟩ latRef lonRef).1 = e.rlat := by
  subst he
  exact CPR.ref_lat nl base hb i hi lat lon latRef lonRef h

/-- **ref_lon.** If moreover the reference longitude is closer than half a longitude zone to the
    carried longitude shifted by `s` zones, the decoder returns exactly that shifted longitude. -/
theorem ref_lon (nl : ℚ → ℕ) (base : ℚ) (hb : 0 < base) (i : ℕ) (hi : i = 0 ∨ i = 1)
    (lat lon latRef lonRef : ℚ) (e : Spec.Enc) (he : e = Spec.cprEncode nl base i lat lon)
    (s : ℤ)
    (h : |latRef - e.rlat| < e.dlat / 2)
    (hl : |lonRef - (e.rlon + e.dlon * s)| < e.dlon / 2) :
    (positionWithRefCore nl base ⟨decide (i = 1), e.yz, e.xz⟩ latRef lonRef).2
      = e.rlon + e.dlon * s := by
  subst he
  exact CPR.ref_lon nl base hb i hi lat lon latRef lonRef s h hl

/-- both coordinates at once -/
theorem ref_decode (nl : ℚ → ℕ) (base : ℚ) (hb : 0 < base) (i : ℕ) (hi : i = 0 ∨ i = 1)
    (lat lon latRef lonRef : ℚ) (e : Spec.Enc) (he : e = Spec.cprEncode nl base i lat lon)
    (s : ℤ)
    (h : |latRef - e.rlat| < e.dlat / 2)
    (hl : |lonRef - (e.rlon + e.dlon * s)| < e.dlon / 2) :
    positionWithRefCore nl base ⟨decide (i = 1), e.yz, e.xz⟩ latRef lonRef
      = (e.rlat, e.rlon + e.dlon * s) :=
  Prod.ext (ref_lat nl base hb i hi lat lon latRef lonRef e he h)
    (ref_lon nl base hb i hi lat lon latRef lonRef e he s h hl)

/-- `base` is a whole number of longitude zones: `base = ni · dlon`, `ni = max (nl rlat − i) 1` -/
theorem base_eq_zones (nl : ℚ → ℕ) (base : ℚ) (i : ℕ) (lat lon : ℚ)
    (e : Spec.Enc) (he : e = Spec.cprEncode nl base i lat lon) :
    base = e.dlon * ((max (nl e.rlat - i) 1 : ℕ) : ℚ) := by
  subst he
  rw [CPR.enc_dlon]
  have : (1 : ℚ) ≤ ((max (nl (Spec.cprEncode nl base i lat lon).rlat - i) 1 : ℕ) : ℚ) := by
    exact_mod_cast le_max_right _ _
  field_simp

/-- longitude is recovered modulo `base` (the reference picks the sheet `t`) -/
theorem ref_lon_modbase (nl : ℚ → ℕ) (base : ℚ) (hb : 0 < base) (i : ℕ) (hi : i = 0 ∨ i = 1)
    (lat lon latRef lonRef : ℚ) (e : Spec.Enc) (he : e = Spec.cprEncode nl base i lat lon)
    (t : ℤ)
    (h : |latRef - e.rlat| < e.dlat / 2)
    (hl : |lonRef - e.rlon - base * t| < e.dlon / 2) :
    (positionWithRefCore nl base ⟨decide (i = 1), e.yz, e.xz⟩ latRef lonRef).2
      = e.rlon + base * t := by
  have hz := base_eq_zones nl base i lat lon e he
  have e1 : e.rlon + base * t = e.rlon + e.dlon * (((max (nl e.rlat - i) 1 : ℕ) * t : ℤ) : ℚ) := by
    rw [Int.cast_mul, Int.cast_natCast, ← mul_assoc, ← hz]
  rw [e1]
  apply ref_lon nl base hb i hi lat lon latRef lonRef e he _ h
  rw [← e1]
  have : lonRef - (e.rlon + base * t) = lonRef - e.rlon - base * t := by ring
  rw [this]; exact hl

/-- **ref_lon_mod360** (airborne, `base = 360`): the longitude is recovered modulo 360. -/
theorem ref_lon_mod360 (nl : ℚ → ℕ) (i : ℕ) (hi : i = 0 ∨ i = 1)
    (lat lon latRef lonRef : ℚ) (e : Spec.Enc) (he : e = Spec.cprEncode nl 360 i lat lon)
    (t : ℤ)
    (h : |latRef - e.rlat| < e.dlat / 2)
    (hl : |lonRef - e.rlon - 360 * t| < e.dlon / 2) :
    (positionWithRefCore nl 360 ⟨decide (i = 1), e.yz, e.xz⟩ latRef lonRef).2
      = e.rlon + 360 * t :=
  ref_lon_modbase nl 360 (by norm_num) i hi lat lon latRef lonRef e he t h hl

/-- surface (`base = 90`): the same, the 360-degree sheet being `4 t` surface sheets -/
theorem ref_lon_surface_mod360 (nl : ℚ → ℕ) (i : ℕ) (hi : i = 0 ∨ i = 1)
    (lat lon latRef lonRef : ℚ) (e : Spec.Enc) (he : e = Spec.cprEncode nl 90 i lat lon)
    (t : ℤ)
    (h : |latRef - e.rlat| < e.dlat / 2)
    (hl : |lonRef - e.rlon - 360 * t| < e.dlon / 2) :
    (positionWithRefCore nl 90 ⟨decide (i = 1), e.yz, e.xz⟩ latRef lonRef).2
      = e.rlon + 360 * t := by
  have e1 : (360 : ℚ) * t = 90 * ((4 * t : ℤ) : ℚ) := by push_cast; ring
  rw [e1] at hl ⊢
  exact ref_lon_modbase nl 90 (by norm_num) i hi lat lon latRef lonRef e he _ h hl

/-- **ref_stable.** The result does not depend on the reference as long as it stays inside the
    open box of half a zone around the (shifted) carried position. -/
theorem ref_stable (nl : ℚ → ℕ) (base : ℚ) (hb : 0 < base) (i : ℕ) (hi : i = 0 ∨ i = 1)
    (lat lon latRef lonRef latRef' lonRef' : ℚ) (e : Spec.Enc)
    (he : e = Spec.cprEncode nl base i lat lon) (s : ℤ)
    (h : |latRef - e.rlat| < e.dlat / 2)
    (hl : |lonRef - (e.rlon + e.dlon * s)| < e.dlon / 2)
    (h' : |latRef' - e.rlat| < e.dlat / 2)
    (hl' : |lonRef' - (e.rlon + e.dlon * s)| < e.dlon / 2) :
    positionWithRefCore nl base ⟨decide (i = 1), e.yz, e.xz⟩ latRef lonRef
      = positionWithRefCore nl base ⟨decide (i = 1), e.yz, e.xz⟩ latRef' lonRef' := by
  rw [ref_decode nl base hb i hi lat lon latRef lonRef e he s h hl,
    ref_decode nl base hb i hi lat lon latRef' lonRef' e he s h' hl']

/-! ### the hypotheses are satisfiable: lat 52.2572, lon 3.91937, reference (52, 4), `cprNL` -/

/-- even airborne frame: fields 93000 / 51372, carried position (428091/8192, 64215/16384) -/
example :
    let e := Spec.cprEncode cprNL 360 0 (522572 / 10000) (391937 / 100000)
    (e.yz, e.xz) = (93000, 51372) ∧
    |(52 : ℚ) - e.rlat| < e.dlat / 2 ∧ |(4 : ℚ) - (e.rlon + e.dlon * (0 : ℤ))| < e.dlon / 2 ∧
    positionWithRefCore cprNL 360 ⟨decide (0 = 1), e.yz, e.xz⟩ 52 4 = (428091 / 8192, 64215 / 16384) := by
  decide +kernel

/-- odd surface frame, reference one sheet (90°) to the east: shift `s = ni` zones -/
example :
    let e := Spec.cprEncode cprNL 90 1 (522572 / 10000) (391937 / 100000)
    |(52 : ℚ) - e.rlat| < e.dlat / 2 ∧ |(94 : ℚ) - e.rlon - 90 * (1 : ℤ)| < e.dlon / 2 ∧
    (positionWithRefCore cprNL 90 ⟨decide (1 = 1), e.yz, e.xz⟩ 52 94).2 = e.rlon + 90 := by
  decide +kernel

end PyModeS.C04
