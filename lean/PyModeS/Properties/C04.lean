/-
  C04 — CPR decode with a reference position (airborne and surface).
-/
import PyModeS.Model.Adsb
namespace PyModeS.C04

/-- `position_with_ref` routes by type code: surface 5–8, airborne 9–18 and 20–22, RuntimeError otherwise -/
theorem tc_routing (b : Bits) (tc : Nat) (h : tcB b = some tc) :
    positionWithRefRoute b =
      if 5 ≤ tc ∧ tc ≤ 8 then .val .surface
      else if (9 ≤ tc ∧ tc ≤ 18) ∨ (20 ≤ tc ∧ tc ≤ 22) then .val .airborne else .rte := by
  unfold positionWithRefRoute; simp [h]

end PyModeS.C04
