/-
  C05 — Surface CPR global decode selects the solution nearest the receiver.
-/
import PyModeS.Model.Adsb
namespace PyModeS.C05

/-- without a receiver location a surface pair is refused with RuntimeError -/
theorem surface_requires_ref (b0 b1 : Bits) (tc0 tc1 : Nat) (h0 : tcB b0 = some tc0) (h1 : tcB b1 = some tc1)
    (s0 : 5 ≤ tc0 ∧ tc0 ≤ 8) (s1 : 5 ≤ tc1 ∧ tc1 ≤ 8) (t0 t1 : Rat) :
    position b0 b1 t0 t1 none = .rte := by
  unfold position positionRoute
  simp [h0, h1, s0, s1]

end PyModeS.C05
