/-
  C05 — Surface CPR global decode selects the solution nearest the receiver.

  `e0 = Spec.cprEncode nl 90 0 lat0 lon0` (even), `e1 = Spec.cprEncode nl 90 1 lat1 lon1` (odd):
  surface encodings (base 90) of two positions; `surfacePositionCore nl (yz0, xz0) (yz1, xz1)`
  takes the first message as the even and the second as the odd frame, as coded.  `nl` arbitrary.
  The carried latitude must satisfy `-90 ≤ rlat < 90` (a carried latitude of exactly 90° is
  decoded as 0° or −90°: known finding C05-north-pole).
  `CPR.wrapPM x = (x + 180) % 360 − 180` and `CPR.circDist r l = |(r − l + 180) % 360 − 180|`
  are the code's normalisation to `[-180, 180)` and its circular distance.
  Proofs: `PyModeS/Proofs/CPR/Global.lean`, `Surface.lean`.
-/
import PyModeS.Model.Adsb
import PyModeS.Proofs.CPR.Surface
namespace PyModeS.C05

/-- without a receiver location a surface pair is refused with RuntimeError -/
theorem surface_requires_ref (b0 b1 : Bits) (tc0 tc1 : Nat) (h0 : tcB b0 = some tc0) (h1 : tcB b1 = some tc1)
    (s0 : 5 ≤ tc0 ∧ tc0 ≤ 8) (s1 : 5 ≤ tc1 ∧ tc1 ≤ 8) (t0 t1 : Rat) :
    position b0 b1 t0 t1 none = .rte := by
  unfold position positionRoute
  simp [h0, h1, s0, s1]

/-- The decoder in terms of its intermediate values: `CPR.latEvenRaw 90 …` / `CPR.latOddRaw 90 …`
    are the northern candidates `lat_even_n` / `lat_odd_n`, `CPR.hemi latRef x` the choice between
    `x` and `x − 90`, `CPR.sLatEven`/`sLatOdd` the chosen latitudes, `CPR.lonRaw 90 n i …` the
    longitude in `[0, 90)` and `CPR.pickLon lonRef lon` the choice among `lon + 90k`. -/
theorem decode_unfold (nl : ℚ → ℕ) (e o : ℕ × ℕ) (t0 t1 latRef lonRef : ℚ) :
    surfacePositionCore nl e o t0 t1 latRef lonRef =
      if nl (CPR.sLatEven e o latRef) ≠ nl (CPR.sLatOdd e o latRef) then none
      else some (
        if t0 > t1 then
          (CPR.sLatEven e o latRef,
            CPR.pickLon lonRef (CPR.lonRaw 90 (nl (CPR.sLatEven e o latRef)) 0 e.2 o.2 e.2))
        else
          (CPR.sLatOdd e o latRef,
            CPR.pickLon lonRef (CPR.lonRaw 90 (nl (CPR.sLatOdd e o latRef)) 1 e.2 o.2 o.2))) :=
  CPR.surface_eq nl e o t0 t1 latRef lonRef

/-- the code's normalisation `(x + 180) % 360 − 180`: congruent to `x` modulo 360, in `[-180, 180)` -/
theorem wrapPM_spec (x : ℚ) :
    CPR.wrapPM x = x - 360 * ((⌊(x + 180) / 360⌋ : ℤ) : ℚ) ∧ -180 ≤ CPR.wrapPM x ∧ CPR.wrapPM x < 180 :=
  CPR.wrapPM_spec x

/-- **surface_lat.** If the carried latitudes differ by less than 0.75/59° the northern candidates
    are the carried latitudes themselves (northern hemisphere) or the carried latitudes plus 90
    (southern): the true latitude is `x` or `x − 90`. -/
theorem surface_lat (nl : ℚ → ℕ) (lat0 lon0 lat1 lon1 : ℚ) (e0 e1 : Spec.Enc)
    (he0 : e0 = Spec.cprEncode nl 90 0 lat0 lon0) (he1 : e1 = Spec.cprEncode nl 90 1 lat1 lon1)
    (hr0 : -90 ≤ e0.rlat ∧ e0.rlat < 90) (hr1 : -90 ≤ e1.rlat ∧ e1.rlat < 90)
    (hclose : |e0.rlat - e1.rlat| < 3 / 4 / 59) :
    CPR.latEvenRaw 90 e0.yz e1.yz = (if 0 ≤ e0.rlat then e0.rlat else e0.rlat + 90) ∧
    CPR.latOddRaw 90 e0.yz e1.yz = (if 0 ≤ e1.rlat then e1.rlat else e1.rlat + 90) := by
  subst he0 he1
  exact CPR.glat_surface nl lat0 lon0 lat1 lon1 hr0 hr1 (by norm_num at hclose ⊢; exact hclose)

/-- **hemisphere_choice.** With a reference latitude within 45° of the carried latitudes the
    chosen `lat_even` / `lat_odd` are the carried latitudes. -/
theorem hemisphere_choice (nl : ℚ → ℕ) (lat0 lon0 lat1 lon1 latRef : ℚ) (e0 e1 : Spec.Enc)
    (he0 : e0 = Spec.cprEncode nl 90 0 lat0 lon0) (he1 : e1 = Spec.cprEncode nl 90 1 lat1 lon1)
    (hr0 : -90 ≤ e0.rlat ∧ e0.rlat < 90) (hr1 : -90 ≤ e1.rlat ∧ e1.rlat < 90)
    (hclose : |e0.rlat - e1.rlat| < 3 / 4 / 59)
    (href0 : |latRef - e0.rlat| < 45) (href1 : |latRef - e1.rlat| < 45) :
    CPR.sLatEven (e0.yz, e0.xz) (e1.yz, e1.xz) latRef = e0.rlat ∧
    CPR.sLatOdd (e0.yz, e0.xz) (e1.yz, e1.xz) latRef = e1.rlat := by
  obtain ⟨hE, hO⟩ := surface_lat nl lat0 lon0 lat1 lon1 e0 e1 he0 he1 hr0 hr1 hclose
  unfold CPR.sLatEven CPR.sLatOdd
  simp only
  rw [hE, hO]
  exact ⟨CPR.hemi_pick latRef _ href0, CPR.hemi_pick latRef _ href1⟩

/-- **lon_quadrant_choice** (i): the returned longitude is one of the four candidates
    `lon + 90k` normalised to `[-180, 180)`, and no candidate is closer to `lonRef` in circular
    distance. -/
theorem lon_quadrant_choice (lonRef lon : ℚ) :
    ∃ k, k < 4 ∧ CPR.pickLon lonRef lon = (CPR.lonCands lon).getD k 0 ∧
      ∀ j, j < 4 → CPR.circDist lonRef ((CPR.lonCands lon).getD k 0)
        ≤ CPR.circDist lonRef ((CPR.lonCands lon).getD j 0) :=
  CPR.pickLon_closest lonRef lon

theorem lonCands_eq (lon : ℚ) :
    CPR.lonCands lon = [CPR.wrapPM lon, CPR.wrapPM (lon + 90), CPR.wrapPM (lon + 180),
      CPR.wrapPM (lon + 270)] := rfl

/-- **lon_quadrant_choice** (ii): if `lon` is the true longitude `y` up to a multiple of 90 and the
    reference is within 45° (circular distance) of `y`, the true longitude is picked (normalised). -/
theorem lon_quadrant_true (lonRef y lon : ℚ) (z : ℤ) (hlon : lon = y + 90 * z)
    (hd : CPR.circDist lonRef y < 45) : CPR.pickLon lonRef lon = CPR.wrapPM y :=
  CPR.pickLon_true lonRef y lon z hlon hd

/-- **surface_decode.** Carried latitudes closer than 0.75/59°, reference latitude within 45° of
    both, same `n = nl rlat`, carried longitudes (when `n ≥ 2`) closer than `45/(n(n−1))` modulo
    90, and reference longitude within 45° (circular) of the newer frame's carried longitude:
    the decoder returns the newer frame's carried position, longitude normalised to `[-180, 180)`. -/
theorem surface_decode (nl : ℚ → ℕ) (lat0 lon0 lat1 lon1 t0 t1 latRef lonRef : ℚ) (e0 e1 : Spec.Enc)
    (he0 : e0 = Spec.cprEncode nl 90 0 lat0 lon0) (he1 : e1 = Spec.cprEncode nl 90 1 lat1 lon1)
    (hr0 : -90 ≤ e0.rlat ∧ e0.rlat < 90) (hr1 : -90 ≤ e1.rlat ∧ e1.rlat < 90)
    (hclose : |e0.rlat - e1.rlat| < 3 / 4 / 59)
    (href0 : |latRef - e0.rlat| < 45) (href1 : |latRef - e1.rlat| < 45)
    (hnl : nl e0.rlat = nl e1.rlat)
    (hlon : 2 ≤ nl e0.rlat → ∃ s : ℤ,
      |e0.rlon - e1.rlon - 90 * s| < 45 / ((nl e0.rlat : ℚ) * ((nl e0.rlat : ℚ) - 1)))
    (hlonRef : CPR.circDist lonRef (if t0 > t1 then e0.rlon else e1.rlon) < 45) :
    surfacePositionCore nl (e0.yz, e0.xz) (e1.yz, e1.xz) t0 t1 latRef lonRef
      = some (if t0 > t1 then e0.rlat else e1.rlat,
              CPR.wrapPM (if t0 > t1 then e0.rlon else e1.rlon)) := by
  obtain ⟨hE, hO⟩ := hemisphere_choice nl lat0 lon0 lat1 lon1 latRef e0 e1 he0 he1 hr0 hr1 hclose
    href0 href1
  rw [decode_unfold, hE, hO, if_neg (not_not.mpr hnl)]
  subst he0 he1
  have hlon' : 2 ≤ nl (Spec.cprEncode nl 90 0 lat0 lon0).rlat → ∃ s : ℤ,
      |(Spec.cprEncode nl 90 0 lat0 lon0).rlon - (Spec.cprEncode nl 90 1 lat1 lon1).rlon - 90 * s|
        < 90 / 2 / ((nl (Spec.cprEncode nl 90 0 lat0 lon0).rlat : ℚ)
            * ((nl (Spec.cprEncode nl 90 0 lat0 lon0).rlat : ℚ) - 1)) := by
    intro h2
    obtain ⟨s, hs⟩ := hlon h2
    exact ⟨s, by norm_num at hs ⊢; exact hs⟩
  obtain ⟨⟨z0, hz0⟩, ⟨z1, hz1⟩⟩ := CPR.glon_raw nl 90 (by norm_num) lat0 lon0 lat1 lon1
    (nl (Spec.cprEncode nl 90 0 lat0 lon0).rlat) rfl hnl.symm hlon'
  by_cases ht : t0 > t1
  · simp only [ht, if_true] at hlonRef ⊢
    rw [lon_quadrant_true lonRef _ _ z0 hz0 hlonRef]
  · simp only [ht, if_false] at hlonRef ⊢
    rw [← hnl, lon_quadrant_true lonRef _ _ z1 hz1 hlonRef]

/-! ### the hypotheses are satisfiable (`nl = cprNL`) -/

/-- Schiphol: (52.32061, 4.73473) / (52.32070, 4.73480), receiver at (51.99, 4.375) -/
example :
    let e0 := Spec.cprEncode cprNL 90 0 (5232061 / 100000) (473473 / 100000)
    let e1 := Spec.cprEncode cprNL 90 1 (5232070 / 100000) (473480 / 100000)
    (e0.yz, e0.xz, e1.yz, e1.xz) = (115397, 117164, 39207, 110272) ∧
    (-90 ≤ e0.rlat ∧ e0.rlat < 90) ∧ (-90 ≤ e1.rlat ∧ e1.rlat < 90) ∧
    |e0.rlat - e1.rlat| < 3 / 4 / 59 ∧
    |(5199 / 100 : ℚ) - e0.rlat| < 45 ∧ |(5199 / 100 : ℚ) - e1.rlat| < 45 ∧
    cprNL e0.rlat = 36 ∧ cprNL e1.rlat = 36 ∧
    |e0.rlon - e1.rlon - 90 * (0 : ℤ)| < 45 / ((cprNL e0.rlat : ℚ) * ((cprNL e0.rlat : ℚ) - 1)) ∧
    CPR.circDist (4375 / 1000) e0.rlon < 45 ∧ CPR.circDist (4375 / 1000) e1.rlon < 45 ∧
    surfacePositionCore cprNL (e0.yz, e0.xz) (e1.yz, e1.xz) 1 0 (5199 / 100) (4375 / 1000)
      = some (e0.rlat, e0.rlon) ∧
    surfacePositionCore cprNL (e0.yz, e0.xz) (e1.yz, e1.xz) 0 1 (5199 / 100) (4375 / 1000)
      = some (e1.rlat, e1.rlon) := by
  decide +kernel

/-- Sydney (southern hemisphere, second longitude quadrant), receiver longitude given as −209° -/
example :
    let e0 := Spec.cprEncode cprNL 90 0 (-339461 / 10000) (1511772 / 10000)
    let e1 := Spec.cprEncode cprNL 90 1 (-339463 / 10000) (1511775 / 10000)
    (-90 ≤ e0.rlat ∧ e0.rlat < 90) ∧ (-90 ≤ e1.rlat ∧ e1.rlat < 90) ∧
    |e0.rlat - e1.rlat| < 3 / 4 / 59 ∧
    |(-34 : ℚ) - e0.rlat| < 45 ∧ |(-34 : ℚ) - e1.rlat| < 45 ∧
    cprNL e0.rlat = 49 ∧ cprNL e1.rlat = 49 ∧
    |e0.rlon - e1.rlon - 90 * (0 : ℤ)| < 45 / ((cprNL e0.rlat : ℚ) * ((cprNL e0.rlat : ℚ) - 1)) ∧
    CPR.circDist (-209) e0.rlon < 45 ∧ CPR.circDist (-209) e1.rlon < 45 ∧
    surfacePositionCore cprNL (e0.yz, e0.xz) (e1.yz, e1.xz) 1 0 (-34) (-209)
      = some (e0.rlat, e0.rlon) ∧
    surfacePositionCore cprNL (e0.yz, e0.xz) (e1.yz, e1.xz) 0 1 (-34) (-209)
      = some (e1.rlat, e1.rlon) := by
  decide +kernel

end PyModeS.C05
