/-
  C18 — Uplink interrogation decoding.
-/
import PyModeS.Proofs.Bits
import PyModeS.Model.Misc
import PyModeS.Proofs.Uplink.Loop
import PyModeS.Proofs.Uplink.Fields
namespace PyModeS.C18

/-- `uplink_fields` reports the same PR and interrogator code as `pr` / `ic` for UF 11, for every frame. -/
theorem uplink_fields_agrees_uf11 (bits : Bits) (h : ufB bits = 11) :
    (uplinkFields bits).pr = uplinkPr bits ∧ some (uplinkFields bits).ic = uplinkIc bits := by
  unfold uplinkFields uplinkPr uplinkIc
  simp [h, isRollCall]

/-- other uplink formats carry none of the decoded fields -/
theorem uplink_other_uf (bits : Bits) (h11 : ufB bits ≠ 11) (hr : isRollCall (ufB bits) = false) :
    uplinkBds bits = none ∧ uplinkPr bits = none ∧ uplinkIc bits = none ∧ uplinkLockout bits = none := by
  unfold uplinkBds uplinkPr uplinkIc uplinkLockout
  simp [h11, hr]

/-! ### uplink address recovery (`uplink_icao`) inverts the Annex 10 uplink AP encoder

  Uplink AP (Annex 10 vol IV 3.1.2.3.3.2): `AP = parity(data) xor a'` where `a'` is the top
  24 coefficients of `A(x)·G(x)`.  The definitions live in `Proofs/Uplink/Encoder.lean`
  (they are needed by the proofs); they are restated here by `rfl`. -/

/-- carry-less multiplication: xor of `b` shifted to every set bit of `a` -/
theorem clmul_def (a b : Nat) :
    Uplink.clmul a b = (List.range (a.log2 + 1)).foldl
      (fun acc i => if a.testBit i then acc ^^^ (b <<< i) else acc) 0 := rfl

theorem uplinkAP_def (d : Bits) (A : Nat) :
    Uplink.uplinkAP d A =
      Spec.remH (d ++ List.replicate 24 false) ^^^ (Uplink.clmul A Spec.G >>> 24) := rfl

theorem uplinkFrame_def (d : Bits) (A : Nat) :
    Uplink.uplinkFrame d A = CRC.hexOfBits (d ++ natToBits 24 (Uplink.uplinkAP d A)) := rfl

open Polynomial in
/-- `clmul` is multiplication in `(ZMod 2)[X]` (coefficients = binary digits) -/
theorem clmul_is_poly_mul (a b : Nat) :
    CRC.natPoly (Uplink.clmul a b) = CRC.natPoly a * CRC.natPoly b :=
  Uplink.natPoly_clmul a b

/-- the encoded interrogation is a hex string carrying exactly `data ‖ AP`, and AP fits 24 bits -/
theorem uplinkFrame_bits (d : Bits) (A : Nat) (hA : A < 2 ^ 24) (h4 : d.length % 4 = 0) :
    hex2binM (Uplink.uplinkFrame d A) = d ++ natToBits 24 (Uplink.uplinkAP d A) ∧
    (∀ c ∈ Uplink.uplinkFrame d A, (hexVal? c).isSome) ∧
    (Uplink.uplinkFrame d A).length * 4 = d.length + 24 ∧ Uplink.uplinkAP d A < 2 ^ 24 :=
  ⟨CRC.hex2binM_hexOfBits _ (by simp; omega), CRC.hexOfBits_isHex _,
    (Uplink.hexFrame_spec d _ (Uplink.uplinkAP_lt d hA) h4).1, Uplink.uplinkAP_lt d hA⟩

/-- **Round trip**: for every payload `d` of `n − 24` bits (`n` a multiple of 4, `n ≥ 56`: the
    56- and 112-bit interrogations and every other length the code accepts) and every address
    `A < 2^24`, `uplink_icao` applied to the encoded interrogation returns `"%06X" % A`. -/
theorem uplink_icao_roundtrip (d : Bits) (A : Nat) (hA : A < 2 ^ 24) (h4 : d.length % 4 = 0)
    (hd : 32 ≤ d.length) : uplinkIcao (Uplink.uplinkFrame d A) = hex6 A :=
  Uplink.uplinkIcao_roundtrip d A hA h4 hd

/-- the loop itself, on numbers: started on `(int(data), AP, 0)` with the generator aligned at the
    top of the `(n−24)`-bit register, it leaves `A` in `ad >> 2` -/
theorem uplink_loop_address (d : Bits) (A : Nat) (hA : A < 2 ^ 24) (hd : 32 ≤ d.length) :
    (uplinkLoop (d.length + 24) (Spec.G <<< (d.length + 24 - 49)) (d.length + 24)
      (bin2int d, Uplink.uplinkAP d A, 0)).2.2 >>> 2 = A :=
  Uplink.uplinkLoop_address d A hA hd

/-- 56-, 112- and 72-bit interrogations (the three frames were also fed to the real
    `uplink_icao`, which returns ABCDEF, 400940, 00A0FF) -/
example : Uplink.uplinkFrame (hex2bin "5D484FDE") 0xABCDEF = "5D484FDE6F3A97".toList ∧
    uplinkIcao "5D484FDE6F3A97".toList = "ABCDEF".toList ∧
    Uplink.uplinkFrame (hex2bin "A0001839CA380031580000") 0x400940
      = "A0001839CA3800315800004BB2E4".toList ∧
    uplinkIcao "A0001839CA3800315800004BB2E4".toList = "400940".toList ∧
    uplinkIcao (Uplink.uplinkFrame (hex2bin "20000F1F0123") 0x00A0FF) = "00A0FF".toList := by
  decide +kernel
example : (hex2bin "5D484FDE").length % 4 = 0 ∧ 32 ≤ (hex2bin "5D484FDE").length ∧
    (0xABCDEF : Nat) < 2 ^ 24 ∧ Uplink.clmul 0xABCDEF Spec.G = 225891465055895 := by decide +kernel

/-! ### the field decoders as bit fields of the frame

  Positions are 0-based half-open slices (`slice a b bits`, MSB first), i.e. Annex 10 bit numbers
  minus one: UF 0–5, PR 5–9 and IC 9–13, CL 13–16 (UF 11); RR 8–13, DI 13–16, and inside SD
  (16–32): IIS 16–20, RRS 20–24 and LOS bit 25 (DI = 7; LOS also for DI = 1), SIS 16–22, LSS bit 22
  and RRS 23–27 (DI = 3).  The byte/mask lemmas are in `Proofs/Uplink/Fields.lean`
  (`Uplink.di_eq_field` … `Uplink.lss_decide`).  The hypotheses `16 ≤ bits.length` /
  `32 ≤ bits.length` hold for the 56- and 112-bit interrogations. -/

open Uplink in
/-- each mask expression of `uplink.py` is the value of a bit field (restated from
    `Proofs/Uplink/Fields.lean`) -/
theorem byteAt_eq_fields (bits : Bits) (h32 : 32 ≤ bits.length) :
    byteAt bits 1 &&& 0x7 = bin2int (slice 13 16 bits) ∧
    (byteAt bits 1 >>> 3) &&& 0x1F = bin2int (slice 8 13 bits) ∧
    byteAt bits 2 &&& 0x0F = bin2int (slice 20 24 bits) ∧
    ((byteAt bits 2 &&& 0x1) <<< 3) ||| ((byteAt bits 3 &&& 0xE0) >>> 5) = bin2int (slice 23 27 bits) ∧
    (byteAt bits 2 >>> 4) &&& 0xF = bin2int (slice 16 20 bits) ∧
    (byteAt bits 2 >>> 2) &&& 0x3F = bin2int (slice 16 22 bits) ∧
    ((byteAt bits 3 &&& 0x40) >>> 6 = 1 ↔ bits[25]? = some true) ∧
    ((byteAt bits 2 &&& 0x2) >>> 1 = 1 ↔ bits[22]? = some true) ∧
    ((byteAt bits 0 &&& 0x7) <<< 1) ||| ((byteAt bits 1 &&& 0x80) >>> 7) = bin2int (slice 5 9 bits) ∧
    (byteAt bits 1 >>> 3) &&& 0xF = bin2int (slice 9 13 bits) :=
  ⟨di_eq_field bits (by omega), rr_eq_field bits (by omega), rrs7_eq_field bits h32,
    rrs3_eq_field bits h32, iis_eq_field bits h32, sis_eq_field bits h32, los_iff_bit bits h32,
    lss_iff_bit bits h32, pr_eq_field bits (by omega), ic11_eq_field bits (by omega)⟩

/-- `uf()`: the 5-bit field, capped at 24 (`UF 24` has a 2-bit format code) -/
theorem ufB_spec (bits : Bits) : ufB bits = min (bin2int (slice 0 5 bits)) 24 := rfl

theorem rollCall_ne_11 {bits : Bits} (hr : isRollCall (ufB bits) = true) : ufB bits ≠ 11 := by
  intro h; rw [h] at hr; exact absurd hr (by decide)

/-- for `n < 16`, `hexDigitStr n` is the single upper-case hex digit of `n` -/
theorem hexDigitStr_lt16 : ∀ n, n < 16 → hexDigitStr n = String.singleton (hexDigitU n) := by
  decide

/-- `pr()`: bits 5–8 for UF 11, `None` otherwise -/
theorem uplinkPr_spec (bits : Bits) (h16 : 16 ≤ bits.length) :
    uplinkPr bits = if ufB bits = 11 then some (bin2int (slice 5 9 bits)) else none := by
  unfold uplinkPr
  rw [Uplink.pr_eq_field bits h16]

/-- `ic()` for UF 11: code label CL (bits 13–15) 0 → `II` + IC (bits 9–12); CL 1–4 → `SI` +
    (IC + 16·(CL−1)); other CL → the empty string -/
theorem uplinkIc_spec_uf11 (bits : Bits) (h16 : 16 ≤ bits.length) (h : ufB bits = 11) :
    uplinkIc bits = some (
      if bin2int (slice 13 16 bits) = 0 then "II" ++ toString (bin2int (slice 9 13 bits))
      else if bin2int (slice 13 16 bits) ≤ 4 then
        "SI" ++ toString (bin2int (slice 9 13 bits) + 16 * (bin2int (slice 13 16 bits) - 1))
      else "") := by
  unfold uplinkIc
  simp only [h, isRollCall, if_true]
  rw [Uplink.di_eq_field bits h16, Uplink.ic11_eq_field bits h16]
  generalize bin2int (slice 13 16 bits) = cl
  generalize bin2int (slice 9 13 bits) = ic
  match cl with
  | 0 | 1 | 2 | 3 | 4 => simp [icSwitcher]
  | n + 5 =>
    have h1 : ¬ (n + 5 = 0) := by omega
    have h2 : ¬ (n + 5 ≤ 4) := by omega
    simp [icSwitcher, h2]

/-- `ic()` for UF 4/5/20/21: DI ∈ {0, 1, 7} → `II` + IIS (bits 16–19); DI = 3 → `SI` + SIS
    (bits 16–21); other DI → `None` -/
theorem uplinkIc_spec_rollcall (bits : Bits) (h32 : 32 ≤ bits.length)
    (hr : isRollCall (ufB bits) = true) :
    uplinkIc bits =
      if bin2int (slice 13 16 bits) = 0 ∨ bin2int (slice 13 16 bits) = 1 ∨ bin2int (slice 13 16 bits) = 7
        then some ("II" ++ toString (bin2int (slice 16 20 bits)))
      else if bin2int (slice 13 16 bits) = 3 then some ("SI" ++ toString (bin2int (slice 16 22 bits)))
      else none := by
  unfold uplinkIc
  simp only [hr, rollCall_ne_11 hr, if_true, if_false]
  rw [Uplink.di_eq_field bits (by omega), Uplink.iis_eq_field bits h32, Uplink.sis_eq_field bits h32]

/-- `bds()`: for UF 4/5/20/21 with RR (bits 8–12) > 15, the hex digit of RR − 16 followed by the
    hex digit of RRS (DI = 7: bits 20–23; DI = 3: bits 23–26; other DI: 0); `None` otherwise -/
theorem uplinkBds_spec (bits : Bits) (h32 : 32 ≤ bits.length) :
    uplinkBds bits =
      if isRollCall (ufB bits) = true ∧ 15 < bin2int (slice 8 13 bits) then
        some (hexDigitStr (bin2int (slice 8 13 bits) - 16) ++
          hexDigitStr (if bin2int (slice 13 16 bits) = 7 then bin2int (slice 20 24 bits)
            else if bin2int (slice 13 16 bits) = 3 then bin2int (slice 23 27 bits) else 0))
      else none := by
  simp only [uplinkBds]
  rw [Uplink.di_eq_field bits (by omega), Uplink.rr_eq_field bits (by omega),
    Uplink.rrs7_eq_field bits h32, Uplink.rrs3_eq_field bits h32]
  by_cases hr : isRollCall (ufB bits) = true
  · by_cases h : 15 < bin2int (slice 8 13 bits)
    · simp [hr, h]
    · simp [hr, h]
  · simp [hr]

/-- `lockout()`: for UF 4/5/20/21, DI ∈ {1, 7} → LOS (bit 25); DI = 3 → LSS (bit 22); other DI →
    `False`; `None` for the other formats -/
theorem uplinkLockout_spec (bits : Bits) (h32 : 32 ≤ bits.length) :
    uplinkLockout bits =
      if isRollCall (ufB bits) = true then
        some (if bin2int (slice 13 16 bits) = 1 ∨ bin2int (slice 13 16 bits) = 7 then bits.getD 25 false
          else if bin2int (slice 13 16 bits) = 3 then bits.getD 22 false else false)
      else none := by
  simp only [uplinkLockout]
  rw [Uplink.di_eq_field bits (by omega), Uplink.los_decide bits h32, Uplink.lss_decide bits h32]
  by_cases hr : isRollCall (ufB bits) = true
  · by_cases h1 : bin2int (slice 13 16 bits) = 1 ∨ bin2int (slice 13 16 bits) = 7
    · simp [hr, h1]
    · by_cases h3 : bin2int (slice 13 16 bits) = 3
      · simp [hr, h3]
      · simp [hr, h1, h3]
  · simp [hr]

/-- the record of `uplink_fields()` on a roll-call interrogation (UF 4/5/20/21), field by field in
    terms of the bit fields -/
theorem uplinkFields_spec_rollcall (bits : Bits) (h32 : 32 ≤ bits.length)
    (hr : isRollCall (ufB bits) = true) :
    uplinkFields bits =
      { di := some (bin2int (slice 13 16 bits))
        ic := if bin2int (slice 13 16 bits) = 0 ∨ bin2int (slice 13 16 bits) = 1 ∨
                bin2int (slice 13 16 bits) = 7 then "II" ++ toString (bin2int (slice 16 20 bits))
              else if bin2int (slice 13 16 bits) = 3 then "SI" ++ toString (bin2int (slice 16 22 bits))
              else ""
        los := if bin2int (slice 13 16 bits) = 1 ∨ bin2int (slice 13 16 bits) = 7 then bits.getD 25 false
               else if bin2int (slice 13 16 bits) = 3 then bits.getD 22 false else false
        pr := none
        rr := some (bin2int (slice 8 13 bits))
        rrs := if bin2int (slice 13 16 bits) = 7 then some (bin2int (slice 20 24 bits))
               else if bin2int (slice 13 16 bits) = 3 then some (bin2int (slice 23 27 bits)) else none
        bds := if 15 < bin2int (slice 8 13 bits) then
                 hexDigitStr (bin2int (slice 8 13 bits) - 16) ++
                 hexDigitStr (if bin2int (slice 13 16 bits) = 7 then bin2int (slice 20 24 bits)
                   else if bin2int (slice 13 16 bits) = 3 then bin2int (slice 23 27 bits) else 0)
               else "" } := by
  simp only [uplinkFields, hr, rollCall_ne_11 hr, if_true, if_false]
  rw [Uplink.di_eq_field bits (by omega), Uplink.rr_eq_field bits (by omega),
    Uplink.rrs7_eq_field bits h32, Uplink.rrs3_eq_field bits h32, Uplink.iis_eq_field bits h32,
    Uplink.sis_eq_field bits h32, Uplink.los_decide bits h32, Uplink.lss_decide bits h32]
  generalize bin2int (slice 13 16 bits) = di
  have hc : di = 0 ∨ di = 1 ∨ di = 7 ∨ di = 3 ∨ (di ≠ 0 ∧ di ≠ 1 ∧ di ≠ 7 ∧ di ≠ 3) := by omega
  rcases hc with h | h | h | h | ⟨h0, h1, h7, h3⟩
  · subst h; simp
  · subst h; simp
  · subst h; simp
  · subst h; simp
  · simp [h0, h1, h7, h3]

/-- **`uplink_fields()` reports the same values as the single-field functions** on every roll-call
    interrogation (UF 4/5/20/21) of at least 32 bits: DI and RR are the bit fields; the lockout
    flag is `lockout()`; the interrogator code is `ic()` (which is `None` exactly for
    DI ∉ {0, 1, 3, 7}, where the record keeps the empty string); the register is `bds()` (`None`
    exactly for RR ≤ 15, where the record keeps the empty string); PR is `pr()` = `None`; RRS is the
    sub-field selected by DI. -/
theorem uplink_fields_agrees_rollcall (bits : Bits) (h32 : 32 ≤ bits.length)
    (hr : isRollCall (ufB bits) = true) :
    (uplinkFields bits).di = some (bin2int (slice 13 16 bits)) ∧
    (uplinkFields bits).rr = some (bin2int (slice 8 13 bits)) ∧
    uplinkLockout bits = some (uplinkFields bits).los ∧
    (uplinkFields bits).ic = (uplinkIc bits).getD "" ∧
    (uplinkIc bits = none ↔ ¬ (bin2int (slice 13 16 bits) = 0 ∨ bin2int (slice 13 16 bits) = 1 ∨
      bin2int (slice 13 16 bits) = 3 ∨ bin2int (slice 13 16 bits) = 7)) ∧
    (uplinkFields bits).bds = (uplinkBds bits).getD "" ∧
    (uplinkBds bits = none ↔ bin2int (slice 8 13 bits) ≤ 15) ∧
    (uplinkFields bits).pr = uplinkPr bits ∧ uplinkPr bits = none ∧
    (uplinkFields bits).rrs =
      (if bin2int (slice 13 16 bits) = 7 then some (bin2int (slice 20 24 bits))
       else if bin2int (slice 13 16 bits) = 3 then some (bin2int (slice 23 27 bits)) else none) := by
  rw [uplinkFields_spec_rollcall bits h32 hr, uplinkLockout_spec bits h32,
    uplinkIc_spec_rollcall bits h32 hr, uplinkBds_spec bits h32, uplinkPr_spec bits (by omega)]
  have e1 : (isRollCall (ufB bits) = true) = True := by simp [hr]
  have e2 : (ufB bits = 11) = False := by simp [rollCall_ne_11 hr]
  simp only [e1, e2, if_true, if_false, true_and]
  generalize bin2int (slice 13 16 bits) = di
  have hc : di = 0 ∨ di = 1 ∨ di = 7 ∨ di = 3 ∨ (di ≠ 0 ∧ di ≠ 1 ∧ di ≠ 7 ∧ di ≠ 3) := by omega
  refine ⟨?_, ?_, ?_, ?_, ?_⟩
  · rcases hc with h | h | h | h | ⟨h0, h1, h7, h3⟩
    · subst h; simp
    · subst h; simp
    · subst h; simp
    · subst h; simp
    · simp [h0, h1, h7, h3]
  · rcases hc with h | h | h | h | ⟨h0, h1, h7, h3⟩
    · subst h; simp
    · subst h; simp
    · subst h; simp
    · subst h; simp
    · simp [h0, h1, h7, h3]
  · by_cases h : 15 < bin2int (slice 8 13 bits) <;> simp [h]
  · by_cases h : 15 < bin2int (slice 8 13 bits)
    · simp [h]
    · simp [h]; omega
  · trivial

/-- formats other than UF 4/5/11/20/21: the record of `uplink_fields()` is empty -/
theorem uplink_fields_other_uf (bits : Bits) (h11 : ufB bits ≠ 11) (hr : isRollCall (ufB bits) = false) :
    uplinkFields bits = ⟨none, "", false, none, none, none, ""⟩ := by
  unfold uplinkFields
  simp [h11, hr]

/-! ### encoder round trip: an interrogation header built from its fields decodes to those fields

  Annex 10 vol IV 3.1.2.6.1 (UF 4/5/20/21): `UF:5 PC:3 RR:5 DI:3 SD:16`, followed by anything
  (`rest`: MA and/or AP). -/

/-- For every roll-call format, every PC, RR, DI and every 16-bit SD value, whatever follows the
    header: `uf()` is the placed UF, `uplink_fields()` reports the placed RR and DI, `bds()` is the
    register `RR − 16` / RRS for RR > 15, and `ic()` / `lockout()` / RRS read the sub-fields of SD
    selected by DI (IIS = SD bits 1–4, RRS = SD bits 5–8 and LOS = SD bit 10 for DI = 7; SIS = SD
    bits 1–6, LSS = SD bit 7 and RRS = SD bits 8–11 for DI = 3). -/
theorem uplink_header_roundtrip (uf pc rr di sd : Nat) (huf : uf = 4 ∨ uf = 5 ∨ uf = 20 ∨ uf = 21)
    (hpc : pc < 8) (hrr : rr < 32) (hdi : di < 8) (hsd : sd < 65536) (rest : Bits) :
    let bits := build [(5, uf), (3, pc), (5, rr), (3, di), (16, sd)] ++ rest
    ufB bits = uf ∧
    (uplinkFields bits).rr = some rr ∧ (uplinkFields bits).di = some di ∧
    uplinkBds bits =
      (if 15 < rr then some (hexDigitStr (rr - 16) ++
          hexDigitStr (if di = 7 then sd / 256 % 16 else if di = 3 then sd / 32 % 16 else 0))
       else none) ∧
    (uplinkFields bits).rrs =
      (if di = 7 then some (sd / 256 % 16) else if di = 3 then some (sd / 32 % 16) else none) ∧
    uplinkIc bits =
      (if di = 0 ∨ di = 1 ∨ di = 7 then some ("II" ++ toString (sd / 4096))
       else if di = 3 then some ("SI" ++ toString (sd / 1024)) else none) ∧
    uplinkLockout bits =
      some (if di = 1 ∨ di = 7 then decide (sd / 64 % 2 = 1)
        else if di = 3 then decide (sd / 512 % 2 = 1) else false) ∧
    uplinkPr bits = none := by
  intro bits
  have h32 : 32 ≤ bits.length := by simp [bits, build_length]
  have S : ∀ a b, a ≤ b → b ≤ 32 → bin2int (slice a b bits) =
      ((((uf * 8 + pc) * 32 + rr) * 8 + di) * 65536 + sd) / 2 ^ (32 - b) % 2 ^ (b - a) :=
    fun a b hab hb => Uplink.header_slice uf pc rr di sd (by omega) hpc hrr hdi hsd rest a b hab hb
  have s_uf : bin2int (slice 0 5 bits) = uf := by rw [S 0 5 (by omega) (by omega)]; omega
  have s_rr : bin2int (slice 8 13 bits) = rr := by rw [S 8 13 (by omega) (by omega)]; omega
  have s_di : bin2int (slice 13 16 bits) = di := by rw [S 13 16 (by omega) (by omega)]; omega
  have s_iis : bin2int (slice 16 20 bits) = sd / 4096 := by rw [S 16 20 (by omega) (by omega)]; omega
  have s_sis : bin2int (slice 16 22 bits) = sd / 1024 := by rw [S 16 22 (by omega) (by omega)]; omega
  have s_rrs7 : bin2int (slice 20 24 bits) = sd / 256 % 16 := by rw [S 20 24 (by omega) (by omega)]; omega
  have s_rrs3 : bin2int (slice 23 27 bits) = sd / 32 % 16 := by rw [S 23 27 (by omega) (by omega)]; omega
  have s_los : bin2int (slice 25 26 bits) = sd / 64 % 2 := by rw [S 25 26 (by omega) (by omega)]; omega
  have s_lss : bin2int (slice 22 23 bits) = sd / 512 % 2 := by rw [S 22 23 (by omega) (by omega)]; omega
  have hu : ufB bits = uf := by rw [ufB_spec, s_uf]; omega
  have hr : isRollCall (ufB bits) = true := by
    rw [hu]; rcases huf with h | h | h | h <;> subst h <;> decide
  have hF := uplink_fields_agrees_rollcall bits h32 hr
  refine ⟨hu, ?_, ?_, ?_, ?_, ?_, ?_, hF.2.2.2.2.2.2.2.2.1⟩
  · rw [hF.2.1, s_rr]
  · rw [hF.1, s_di]
  · rw [uplinkBds_spec bits h32, s_rr, s_di, s_rrs7, s_rrs3]; simp [hr]
  · rw [hF.2.2.2.2.2.2.2.2.2, s_di, s_rrs7, s_rrs3]
  · rw [uplinkIc_spec_rollcall bits h32 hr, s_di, s_iis, s_sis]
  · rw [uplinkLockout_spec bits h32, Uplink.getD_eq_decide bits 25 (by omega),
      Uplink.getD_eq_decide bits 22 (by omega), s_di, s_los, s_lss]; simp [hr]

/-- the same with the sub-fields of SD placed explicitly, DI = 7 (Annex 10 vol IV 3.1.2.6.1.4.1 f:
    `IIS:4 RRS:4 spare:1 LOS:1 spare:2 TMS:4`): `ic()` = `II` + IIS, `lockout()` = LOS,
    `bds()` = register (RR − 16, RRS) -/
theorem uplink_roundtrip_di7 (uf pc rr iis rrs s1 los s2 tms : Nat)
    (huf : uf = 4 ∨ uf = 5 ∨ uf = 20 ∨ uf = 21) (hpc : pc < 8) (hrr : rr < 32) (hiis : iis < 16)
    (hrrs : rrs < 16) (hs1 : s1 < 2) (hlos : los < 2) (hs2 : s2 < 4) (htms : tms < 16) (rest : Bits) :
    let bits := build [(5, uf), (3, pc), (5, rr), (3, 7), (4, iis), (4, rrs), (1, s1), (1, los),
      (2, s2), (4, tms)] ++ rest
    ufB bits = uf ∧
    uplinkFields bits = ⟨some 7, "II" ++ toString iis, decide (los = 1), none, some rr, some rrs,
      if 15 < rr then hexDigitStr (rr - 16) ++ hexDigitStr rrs else ""⟩ ∧
    uplinkBds bits = (if 15 < rr then some (hexDigitStr (rr - 16) ++ hexDigitStr rrs) else none) ∧
    uplinkIc bits = some ("II" ++ toString iis) ∧
    uplinkLockout bits = some (decide (los = 1)) ∧ uplinkPr bits = none := by
  intro bits
  have hl : (build [(5, uf), (3, pc), (5, rr), (3, 7), (4, iis), (4, rrs), (1, s1), (1, los),
      (2, s2), (4, tms)]).length = 32 := by simp [build_length]
  have h32 : 32 ≤ bits.length := by simp [bits, build_length]
  have hv : bin2int (build [(5, uf), (3, pc), (5, rr), (3, 7), (4, iis), (4, rrs), (1, s1), (1, los),
      (2, s2), (4, tms)]) =
      ((((((((uf * 8 + pc) * 32 + rr) * 8 + 7) * 16 + iis) * 16 + rrs) * 2 + s1) * 2 + los) * 4 + s2) * 16
        + tms := by
    simp only [build, Uplink.bin2int_app, List.append_nil, List.length_append, natToBits_length,
      bin2int_natToBits_of_lt (show uf < 2 ^ 5 by omega), bin2int_natToBits_of_lt (show pc < 2 ^ 3 by omega),
      bin2int_natToBits_of_lt (show rr < 2 ^ 5 by omega), bin2int_natToBits_of_lt (show 7 < 2 ^ 3 by omega),
      bin2int_natToBits_of_lt (show iis < 2 ^ 4 by omega), bin2int_natToBits_of_lt (show rrs < 2 ^ 4 by omega),
      bin2int_natToBits_of_lt (show s1 < 2 ^ 1 by omega), bin2int_natToBits_of_lt (show los < 2 ^ 1 by omega),
      bin2int_natToBits_of_lt (show s2 < 2 ^ 2 by omega), bin2int_natToBits_of_lt (show tms < 2 ^ 4 by omega)]
    omega
  have S : ∀ a b, a ≤ b → b ≤ 32 → bin2int (slice a b bits) =
      (((((((((uf * 8 + pc) * 32 + rr) * 8 + 7) * 16 + iis) * 16 + rrs) * 2 + s1) * 2 + los) * 4 + s2) * 16
        + tms) / 2 ^ (32 - b) % 2 ^ (b - a) := by
    intro a b hab hb
    rw [Uplink.build_slice _ rest a b hab (by omega), hl, hv]
  have s_uf : bin2int (slice 0 5 bits) = uf := by rw [S 0 5 (by omega) (by omega)]; omega
  have s_rr : bin2int (slice 8 13 bits) = rr := by rw [S 8 13 (by omega) (by omega)]; omega
  have s_di : bin2int (slice 13 16 bits) = 7 := by rw [S 13 16 (by omega) (by omega)]; omega
  have s_iis : bin2int (slice 16 20 bits) = iis := by rw [S 16 20 (by omega) (by omega)]; omega
  have s_rrs7 : bin2int (slice 20 24 bits) = rrs := by rw [S 20 24 (by omega) (by omega)]; omega
  have s_los : bin2int (slice 25 26 bits) = los := by rw [S 25 26 (by omega) (by omega)]; omega
  have hu : ufB bits = uf := by rw [ufB_spec, s_uf]; omega
  have hr : isRollCall (ufB bits) = true := by
    rw [hu]; rcases huf with h | h | h | h <;> subst h <;> decide
  refine ⟨hu, ?_, ?_, ?_, ?_, (uplink_fields_agrees_rollcall bits h32 hr).2.2.2.2.2.2.2.2.1⟩
  · rw [uplinkFields_spec_rollcall bits h32 hr, Uplink.getD_eq_decide bits 25 (by omega),
      s_di, s_rr, s_iis, s_rrs7, s_los]; simp
  · rw [uplinkBds_spec bits h32, s_rr, s_di, s_rrs7]; simp [hr]
  · rw [uplinkIc_spec_rollcall bits h32 hr, s_di, s_iis]; simp
  · rw [uplinkLockout_spec bits h32, Uplink.getD_eq_decide bits 25 (by omega), s_di, s_los]; simp [hr]

/-- the same for DI = 3 (Annex 10 vol IV 3.1.2.6.1.4.1 g: `SIS:6 LSS:1 RRS:4 spare:5`):
    `ic()` = `SI` + SIS, `lockout()` = LSS, `bds()` = register (RR − 16, RRS) -/
theorem uplink_roundtrip_di3 (uf pc rr sis lss rrs sp : Nat)
    (huf : uf = 4 ∨ uf = 5 ∨ uf = 20 ∨ uf = 21) (hpc : pc < 8) (hrr : rr < 32) (hsis : sis < 64)
    (hlss : lss < 2) (hrrs : rrs < 16) (hsp : sp < 32) (rest : Bits) :
    let bits := build [(5, uf), (3, pc), (5, rr), (3, 3), (6, sis), (1, lss), (4, rrs), (5, sp)] ++ rest
    ufB bits = uf ∧
    uplinkFields bits = ⟨some 3, "SI" ++ toString sis, decide (lss = 1), none, some rr, some rrs,
      if 15 < rr then hexDigitStr (rr - 16) ++ hexDigitStr rrs else ""⟩ ∧
    uplinkBds bits = (if 15 < rr then some (hexDigitStr (rr - 16) ++ hexDigitStr rrs) else none) ∧
    uplinkIc bits = some ("SI" ++ toString sis) ∧
    uplinkLockout bits = some (decide (lss = 1)) ∧ uplinkPr bits = none := by
  intro bits
  have hl : (build [(5, uf), (3, pc), (5, rr), (3, 3), (6, sis), (1, lss), (4, rrs), (5, sp)]).length = 32 := by
    simp [build_length]
  have h32 : 32 ≤ bits.length := by simp [bits, build_length]
  have hv : bin2int (build [(5, uf), (3, pc), (5, rr), (3, 3), (6, sis), (1, lss), (4, rrs), (5, sp)]) =
      ((((((uf * 8 + pc) * 32 + rr) * 8 + 3) * 64 + sis) * 2 + lss) * 16 + rrs) * 32 + sp := by
    simp only [build, Uplink.bin2int_app, List.append_nil, List.length_append, natToBits_length,
      bin2int_natToBits_of_lt (show uf < 2 ^ 5 by omega), bin2int_natToBits_of_lt (show pc < 2 ^ 3 by omega),
      bin2int_natToBits_of_lt (show rr < 2 ^ 5 by omega), bin2int_natToBits_of_lt (show 3 < 2 ^ 3 by omega),
      bin2int_natToBits_of_lt (show sis < 2 ^ 6 by omega), bin2int_natToBits_of_lt (show lss < 2 ^ 1 by omega),
      bin2int_natToBits_of_lt (show rrs < 2 ^ 4 by omega), bin2int_natToBits_of_lt (show sp < 2 ^ 5 by omega)]
    omega
  have S : ∀ a b, a ≤ b → b ≤ 32 → bin2int (slice a b bits) =
      (((((((uf * 8 + pc) * 32 + rr) * 8 + 3) * 64 + sis) * 2 + lss) * 16 + rrs) * 32 + sp)
        / 2 ^ (32 - b) % 2 ^ (b - a) := by
    intro a b hab hb
    rw [Uplink.build_slice _ rest a b hab (by omega), hl, hv]
  have s_uf : bin2int (slice 0 5 bits) = uf := by rw [S 0 5 (by omega) (by omega)]; omega
  have s_rr : bin2int (slice 8 13 bits) = rr := by rw [S 8 13 (by omega) (by omega)]; omega
  have s_di : bin2int (slice 13 16 bits) = 3 := by rw [S 13 16 (by omega) (by omega)]; omega
  have s_sis : bin2int (slice 16 22 bits) = sis := by rw [S 16 22 (by omega) (by omega)]; omega
  have s_rrs3 : bin2int (slice 23 27 bits) = rrs := by rw [S 23 27 (by omega) (by omega)]; omega
  have s_lss : bin2int (slice 22 23 bits) = lss := by rw [S 22 23 (by omega) (by omega)]; omega
  have hu : ufB bits = uf := by rw [ufB_spec, s_uf]; omega
  have hr : isRollCall (ufB bits) = true := by
    rw [hu]; rcases huf with h | h | h | h <;> subst h <;> decide
  refine ⟨hu, ?_, ?_, ?_, ?_, (uplink_fields_agrees_rollcall bits h32 hr).2.2.2.2.2.2.2.2.1⟩
  · rw [uplinkFields_spec_rollcall bits h32 hr, Uplink.getD_eq_decide bits 22 (by omega),
      s_di, s_rr, s_sis, s_rrs3, s_lss]; simp
  · rw [uplinkBds_spec bits h32, s_rr, s_di, s_rrs3]; simp [hr]
  · rw [uplinkIc_spec_rollcall bits h32 hr, s_di, s_sis]; simp
  · rw [uplinkLockout_spec bits h32, Uplink.getD_eq_decide bits 22 (by omega), s_di, s_lss]; simp [hr]

/-- UF 11 (Annex 10 vol IV 3.1.2.5.2: `UF:5 PR:4 IC:4 CL:3`, then 16 spare bits and AP): `pr()`,
    `ic()` and `uplink_fields()` return the placed PR and the interrogator code selected by CL -/
theorem uplink_roundtrip_uf11 (pr ic cl : Nat) (hprr : pr < 16) (hic : ic < 16) (hcl : cl < 8) (rest : Bits) :
    let bits := build [(5, 11), (4, pr), (4, ic), (3, cl)] ++ rest
    ufB bits = 11 ∧ uplinkPr bits = some pr ∧
    uplinkIc bits = some (if cl = 0 then "II" ++ toString ic
      else if cl ≤ 4 then "SI" ++ toString (ic + 16 * (cl - 1)) else "") ∧
    (uplinkFields bits).pr = some pr ∧ some (uplinkFields bits).ic = uplinkIc bits ∧
    uplinkBds bits = none ∧ uplinkLockout bits = none := by
  intro bits
  have hl : (build [(5, 11), (4, pr), (4, ic), (3, cl)]).length = 16 := by simp [build_length]
  have h16 : 16 ≤ bits.length := by simp [bits, build_length]
  have hv : bin2int (build [(5, 11), (4, pr), (4, ic), (3, cl)]) = ((11 * 16 + pr) * 16 + ic) * 8 + cl := by
    simp only [build, Uplink.bin2int_app, List.append_nil, List.length_append, natToBits_length,
      bin2int_natToBits_of_lt (show 11 < 2 ^ 5 by omega), bin2int_natToBits_of_lt (show pr < 2 ^ 4 by omega),
      bin2int_natToBits_of_lt (show ic < 2 ^ 4 by omega), bin2int_natToBits_of_lt (show cl < 2 ^ 3 by omega)]
    omega
  have S : ∀ a b, a ≤ b → b ≤ 16 → bin2int (slice a b bits) =
      (((11 * 16 + pr) * 16 + ic) * 8 + cl) / 2 ^ (16 - b) % 2 ^ (b - a) := by
    intro a b hab hb
    rw [Uplink.build_slice _ rest a b hab (by omega), hl, hv]
  have s_uf : bin2int (slice 0 5 bits) = 11 := by rw [S 0 5 (by omega) (by omega)]; omega
  have s_pr : bin2int (slice 5 9 bits) = pr := by rw [S 5 9 (by omega) (by omega)]; omega
  have s_ic : bin2int (slice 9 13 bits) = ic := by rw [S 9 13 (by omega) (by omega)]; omega
  have s_cl : bin2int (slice 13 16 bits) = cl := by rw [S 13 16 (by omega) (by omega)]; omega
  have hu : ufB bits = 11 := by rw [ufB_spec, s_uf]; rfl
  have hP : uplinkPr bits = some pr := by rw [uplinkPr_spec bits h16, s_pr]; simp [hu]
  have hA := uplink_fields_agrees_uf11 bits hu
  refine ⟨hu, hP, ?_, hA.1.trans hP, hA.2, ?_, ?_⟩
  · rw [uplinkIc_spec_uf11 bits h16 hu, s_cl, s_ic]
  · simp [uplinkBds, hu, isRollCall]
  · simp [uplinkLockout, hu, isRollCall]

/-- concrete interrogations; the same four frames were given to the real `uplink.py`
    (`20AF3040ABCDEF`: UF 4, RR 21, DI 7, IIS 3, RRS 0, LOS 1 → BDS `50`, `II3`, locked out;
     `28AB03E0ABCDEF`: UF 5, RR 21, DI 3, SIS 0, LSS 1, RRS 15 → `5F`, `SI0`;
     `5F2A0000ABCDEF`: UF 11, PR 14, IC 5, CL 2 → `SI21`;
     a 112-bit UF 20 with RRS 12 → `5C`) -/
example :
    (let b := hex2bin "20AF3040ABCDEF"
     ufB b = 4 ∧ uplinkBds b = some "50" ∧ uplinkPr b = none ∧ uplinkIc b = some "II3" ∧
     uplinkLockout b = some true ∧
     uplinkFields b = ⟨some 7, "II3", true, none, some 21, some 0, "50"⟩) ∧
    (let b := hex2bin "28AB03E0ABCDEF"
     ufB b = 5 ∧ uplinkBds b = some "5F" ∧ uplinkIc b = some "SI0" ∧ uplinkLockout b = some true ∧
     uplinkFields b = ⟨some 3, "SI0", true, none, some 21, some 15, "5F"⟩) ∧
    (let b := hex2bin "5F2A0000ABCDEF"
     ufB b = 11 ∧ uplinkBds b = none ∧ uplinkPr b = some 14 ∧ uplinkIc b = some "SI21" ∧
     uplinkLockout b = none ∧ uplinkFields b = ⟨none, "SI21", false, some 14, none, none, ""⟩) ∧
    (let b := hex2bin "A0AF3C40000000000000000ABCDE"
     ufB b = 20 ∧ uplinkBds b = some "5C" ∧ uplinkIc b = some "II3" ∧ uplinkLockout b = some true) := by
  decide +kernel

/-- the example asked for: UF = 4, RR = 21 (BDS1 = 5), DI = 7, RRS = 0 gives `bds() = "50"`; the
    built header is the frame `20AF3040…` above, and the hypotheses of the theorems are met -/
example : build [(5, 4), (3, 0), (5, 21), (3, 7), (4, 3), (4, 0), (1, 0), (1, 1), (2, 0), (4, 0)]
      ++ natToBits 24 0xABCDEF = hex2bin "20AF3040ABCDEF" ∧
    uplinkBds (build [(5, 4), (3, 0), (5, 21), (3, 7), (4, 3), (4, 0), (1, 0), (1, 1), (2, 0), (4, 0)]
      ++ natToBits 24 0xABCDEF) = some "50" ∧
    build [(5, 4), (3, 0), (5, 21), (3, 7), (16, 0x3040)] ++ natToBits 24 0xABCDEF
      = hex2bin "20AF3040ABCDEF" ∧
    32 ≤ (hex2bin "20AF3040ABCDEF").length ∧ isRollCall (ufB (hex2bin "20AF3040ABCDEF")) = true ∧
    hexDigitStr (21 - 16) ++ hexDigitStr 0 = "50" := by
  decide +kernel

end PyModeS.C18
