/-
  C18 — Uplink interrogation decoding.
-/
import PyModeS.Proofs.Bits
import PyModeS.Model.Misc
namespace PyModeS.C18

/-- `uplink_fields` reports the same PR and interrogator code as `pr` / `ic` for UF 11, for every frame. -/
theorem uplink_fields_agrees_uf11 (bits : Bits) (h : ufB bits = 11) :
    (uplinkFields bits).pr = uplinkPr bits ∧ some (uplinkFields bits).ic = uplinkIc bits := by
  unfold uplinkFields uplinkPr uplinkIc
  simp [h, isRollCall]

/-- other uplink formats carry none of the decoded fields -/
theorem uplink_other_uf (bits : Bits) (h11 : ufB bits ≠ 11) (hr : isRollCall (ufB bits) = false) :
    uplinkBds bits = none ∧ uplinkPr bits = none ∧ uplinkIc bits = none ∧ uplinkLockout bits = none := by
  unfold uplinkBds uplinkPr uplinkIc uplinkLockout
  simp [h11, hr]

end PyModeS.C18
