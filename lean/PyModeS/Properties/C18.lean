/-
  C18 — Uplink interrogation decoding.
-/
import PyModeS.Proofs.Bits
import PyModeS.Model.Misc
import PyModeS.Proofs.Uplink.Loop
namespace PyModeS.C18

/-- `uplink_fields` reports the same PR and interrogator code as `pr` / `ic` for UF 11, for every frame. -/
theorem uplink_fields_agrees_uf11 (bits : Bits) (h : ufB bits = 11) :
    (uplinkFields bits).pr = uplinkPr bits ∧ some (uplinkFields bits).ic = uplinkIc bits := by
  unfold uplinkFields uplinkPr uplinkIc
  simp [h, isRollCall]

/-- other uplink formats carry none of the decoded fields -/
theorem uplink_other_uf (bits : Bits) (h11 : ufB bits ≠ 11) (hr : isRollCall (ufB bits) = false) :
    uplinkBds bits = none ∧ uplinkPr bits = none ∧ uplinkIc bits = none ∧ uplinkLockout bits = none := by
  unfold uplinkBds uplinkPr uplinkIc uplinkLockout
  simp [h11, hr]

/-! ### uplink address recovery (`uplink_icao`) inverts the Annex 10 uplink AP encoder

  Uplink AP (Annex 10 vol IV 3.1.2.3.3.2): `AP = parity(data) xor a'` where `a'` is the top
  24 coefficients of `A(x)·G(x)`.  The definitions live in `Proofs/Uplink/Encoder.lean`
  (they are needed by the proofs); they are restated here by `rfl`. -/

/-- carry-less multiplication: xor of `b` shifted to every set bit of `a` -/
theorem clmul_def (a b : Nat) :
    Uplink.clmul a b = (List.range (a.log2 + 1)).foldl
      (fun acc i => if a.testBit i then acc ^^^ (b <<< i) else acc) 0 := rfl

theorem uplinkAP_def (d : Bits) (A : Nat) :
    Uplink.uplinkAP d A =
      Spec.remH (d ++ List.replicate 24 false) ^^^ (Uplink.clmul A Spec.G >>> 24) := rfl

theorem uplinkFrame_def (d : Bits) (A : Nat) :
    Uplink.uplinkFrame d A = CRC.hexOfBits (d ++ natToBits 24 (Uplink.uplinkAP d A)) := rfl

open Polynomial in
/-- `clmul` is multiplication in `(ZMod 2)[X]` (coefficients = binary digits) -/
theorem clmul_is_poly_mul (a b : Nat) :
    CRC.natPoly (Uplink.clmul a b) = CRC.natPoly a * CRC.natPoly b :=
  Uplink.natPoly_clmul a b

/-- the encoded interrogation is a hex string carrying exactly `data ‖ AP`, and AP fits 24 bits -/
theorem uplinkFrame_bits (d : Bits) (A : Nat) (hA : A < 2 ^ 24) (h4 : d.length % 4 = 0) :
    hex2binM (Uplink.uplinkFrame d A) = d ++ natToBits 24 (Uplink.uplinkAP d A) ∧
    (∀ c ∈ Uplink.uplinkFrame d A, (hexVal? c).isSome) ∧
    (Uplink.uplinkFrame d A).length * 4 = d.length + 24 ∧ Uplink.uplinkAP d A < 2 ^ 24 :=
  ⟨CRC.hex2binM_hexOfBits _ (by simp; omega), CRC.hexOfBits_isHex _,
    (Uplink.hexFrame_spec d _ (Uplink.uplinkAP_lt d hA) h4).1, Uplink.uplinkAP_lt d hA⟩

/-- **Round trip**: for every payload `d` of `n − 24` bits (`n` a multiple of 4, `n ≥ 56`: the
    56- and 112-bit interrogations and every other length the code accepts) and every address
    `A < 2^24`, `uplink_icao` applied to the encoded interrogation returns `"%06X" % A`. -/
theorem uplink_icao_roundtrip (d : Bits) (A : Nat) (hA : A < 2 ^ 24) (h4 : d.length % 4 = 0)
    (hd : 32 ≤ d.length) : uplinkIcao (Uplink.uplinkFrame d A) = hex6 A :=
  Uplink.uplinkIcao_roundtrip d A hA h4 hd

/-- the loop itself, on numbers: started on `(int(data), AP, 0)` with the generator aligned at the
    top of the `(n−24)`-bit register, it leaves `A` in `ad >> 2` -/
theorem uplink_loop_address (d : Bits) (A : Nat) (hA : A < 2 ^ 24) (hd : 32 ≤ d.length) :
    (uplinkLoop (d.length + 24) (Spec.G <<< (d.length + 24 - 49)) (d.length + 24)
      (bin2int d, Uplink.uplinkAP d A, 0)).2.2 >>> 2 = A :=
  Uplink.uplinkLoop_address d A hA hd

/-- 56-, 112- and 72-bit interrogations (the three frames were also fed to the real
    `uplink_icao`, which returns ABCDEF, 400940, 00A0FF) -/
example : Uplink.uplinkFrame (hex2bin "5D484FDE") 0xABCDEF = "5D484FDE6F3A97".toList ∧
    uplinkIcao "5D484FDE6F3A97".toList = "ABCDEF".toList ∧
    Uplink.uplinkFrame (hex2bin "A0001839CA380031580000") 0x400940
      = "A0001839CA3800315800004BB2E4".toList ∧
    uplinkIcao "A0001839CA3800315800004BB2E4".toList = "400940".toList ∧
    uplinkIcao (Uplink.uplinkFrame (hex2bin "20000F1F0123") 0x00A0FF) = "00A0FF".toList := by
  decide +kernel
example : (hex2bin "5D484FDE").length % 4 = 0 ∧ 32 ≤ (hex2bin "5D484FDE").length ∧
    (0xABCDEF : Nat) < 2 ^ 24 ∧ Uplink.clmul 0xABCDEF Spec.G = 225891465055895 := by decide +kernel

end PyModeS.C18
