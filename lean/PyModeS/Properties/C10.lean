/-
  C10 — Aircraft identification: callsign / cs20 / category round-trip.
-/
import PyModeS.Proofs.Enum
import PyModeS.Proofs.Hex
import PyModeS.Model.Commb
import PyModeS.Spec.Fields
namespace PyModeS.C10
open Spec

/-- The regenerated `chars` tables of bds08.callsign and bds20.cs20 agree with Annex 10 Table 3-9 on
    every legal code, never map a legal code to `#`, and have 64 entries (so no code can raise). -/
theorem chars_table_spec :
    (List.range 64).all (fun c =>
      match idChar c with
      | some ch => Tables.callsignChars[c]? == some ch && Tables.cs20Chars[c]? == some ch && ch != '#'
      | none => Tables.callsignChars[c]? == some '#' && Tables.cs20Chars[c]? == some '#') = true
    ∧ Tables.callsignChars.length = 64 ∧ Tables.cs20Chars.length = 64 := by
  decide +kernel

def eight (c0 c1 c2 c3 c4 c5 c6 c7 : Nat) : List (Nat × Nat) :=
  [(6, c0), (6, c1), (6, c2), (6, c3), (6, c4), (6, c5), (6, c6), (6, c7)]

/-- reading eight 6-bit codes back out of their concatenation -/
theorem chars8_build (chars : List Char) (hc : chars.length = 64) (c0 c1 c2 c3 c4 c5 c6 c7 : Nat)
    (h0 : c0 < 64) (h1 : c1 < 64) (h2 : c2 < 64) (h3 : c3 < 64) (h4 : c4 < 64) (h5 : c5 < 64)
    (h6 : c6 < 64) (h7 : c7 < 64) :
    chars8 chars (build (eight c0 c1 c2 c3 c4 c5 c6 c7)) =
      .val ([c0, c1, c2, c3, c4, c5, c6, c7].map (fun c => chars.getD c '#')) := by
  have s : ∀ i (hi : i < 8), slice (6 * i) (6 * i + 6) (build (eight c0 c1 c2 c3 c4 c5 c6 c7)) =
      natToBits 6 ((eight c0 c1 c2 c3 c4 c5 c6 c7)[i]'(by simpa [eight] using hi)).2 := by
    intro i hi
    have := slice_build (eight c0 c1 c2 c3 c4 c5 c6 c7) i (by simpa [eight] using hi)
    have ho : offset (eight c0 c1 c2 c3 c4 c5 c6 c7) i = 6 * i := by
      match i, hi with
      | 0, _ | 1, _ | 2, _ | 3, _ | 4, _ | 5, _ | 6, _ | 7, _ => rfl
    have hw : ((eight c0 c1 c2 c3 c4 c5 c6 c7)[i]'(by simpa [eight] using hi)).1 = 6 := by
      match i, hi with
      | 0, _ | 1, _ | 2, _ | 3, _ | 4, _ | 5, _ | 6, _ | 7, _ => rfl
    rw [ho, hw] at this
    exact this
  have g : ∀ c, c < 64 → (bin2intR (natToBits 6 c) >>= fun v => idxR chars v) = .val (chars.getD c '#') := by
    intro c hlt
    rw [bin2intR_of_length (by simp), bin2int_natToBits_of_lt (by simpa using hlt)]
    have : c < chars.length := by omega
    simp [idxR, List.getD, this]
  have g2 : ∀ i (hi : i < 8), (bin2intR (slice (6 * i) (6 * i + 6) (build (eight c0 c1 c2 c3 c4 c5 c6 c7))) >>=
      fun v => idxR chars v) = .val (chars.getD ((eight c0 c1 c2 c3 c4 c5 c6 c7)[i]'(by simpa [eight] using hi)).2 '#') := by
    intro i hi
    rw [s i hi]
    apply g
    match i, hi with
    | 0, _ | 1, _ | 2, _ | 3, _ | 4, _ | 5, _ | 6, _ | 7, _ => simpa [eight]
  unfold chars8
  simp only [List.range, List.range.loop, Res.mapM]
  rw [g2 0 (by omega), g2 1 (by omega), g2 2 (by omega), g2 3 (by omega), g2 4 (by omega), g2 5 (by omega),
    g2 6 (by omega), g2 7 (by omega)]
  rfl

/-- Prefix lemma (the hypothesis `slice 40 96 bits = …` equates a slice that is 56 bits long on a full frame with a
    48-bit `build`, so it can only be met when `bits.length = 88` — see `callsign_roundtrip_hyp_length`; the statement
    about real 112-bit frames is `callsign_roundtrip_frame` below, which is derived from this one through `bits.take 88`):
    the eight characters of an ADS-B identification message (TC 1–4, ME bits 9–56): any eight legal
    codes come back as the eight characters (`_` for space), whatever the other bits are. -/
theorem callsign_roundtrip_prefix88 (bits : Bits) (tc : Nat) (htc : tcB bits = some tc) (h14 : 1 ≤ tc ∧ tc ≤ 4)
    (c0 c1 c2 c3 c4 c5 c6 c7 : Nat)
    (hl : ∀ c ∈ [c0, c1, c2, c3, c4, c5, c6, c7], (idChar c).isSome)
    (hf : slice 40 96 bits = build (eight c0 c1 c2 c3 c4 c5 c6 c7)) :
    callsign bits = .val ([c0, c1, c2, c3, c4, c5, c6, c7].map (fun c => (idChar c).getD '#')) := by
  have tbl := chars_table_spec
  have hall := all_range_imp tbl.1
  have key : ∀ c, (idChar c).isSome → c < 64 ∧ Tables.callsignChars.getD c '#' = (idChar c).getD '#' ∧
      (idChar c).getD '#' ≠ '#' := by
    intro c hc
    have hlt : c < 64 := by
      unfold idChar at hc
      split at hc
      · omega
      · split at hc
        · omega
        · split at hc
          · omega
          · simp at hc
    have := hall c hlt
    cases hi : idChar c with
    | none => rw [hi] at hc; simp at hc
    | some ch =>
      rw [hi] at this
      simp only [Bool.and_eq_true, beq_iff_eq, bne_iff_ne] at this
      refine ⟨hlt, ?_, ?_⟩
      · simp [List.getD, this.1.1]
      · simpa using this.2
  unfold callsign
  rw [htc]
  have hg : ¬ (tc < 1 ∨ tc > 4) := by omega
  simp only [hg, if_false]
  rw [hf, chars8_build _ tbl.2.1 c0 c1 c2 c3 c4 c5 c6 c7
    (key c0 (hl c0 (by simp))).1 (key c1 (hl c1 (by simp))).1 (key c2 (hl c2 (by simp))).1
    (key c3 (hl c3 (by simp))).1 (key c4 (hl c4 (by simp))).1 (key c5 (hl c5 (by simp))).1
    (key c6 (hl c6 (by simp))).1 (key c7 (hl c7 (by simp))).1]
  simp only [Res.bind_val, Res.pure_eq, List.map_cons, List.map_nil]
  rw [(key c0 (hl c0 (by simp))).2.1, (key c1 (hl c1 (by simp))).2.1, (key c2 (hl c2 (by simp))).2.1,
    (key c3 (hl c3 (by simp))).2.1, (key c4 (hl c4 (by simp))).2.1, (key c5 (hl c5 (by simp))).2.1,
    (key c6 (hl c6 (by simp))).2.1, (key c7 (hl c7 (by simp))).2.1]
  simp [List.filter, (key c0 (hl c0 (by simp))).2.2, (key c1 (hl c1 (by simp))).2.2, (key c2 (hl c2 (by simp))).2.2,
    (key c3 (hl c3 (by simp))).2.2, (key c4 (hl c4 (by simp))).2.2, (key c5 (hl c5 (by simp))).2.2,
    (key c6 (hl c6 (by simp))).2.2, (key c7 (hl c7 (by simp))).2.2]

/-- `category` is ME bits 6–8 for TC 1–4, RuntimeError otherwise. -/
theorem category_spec (bits : Bits) (h : bits.length = 112) :
    category bits = match tcB bits with
      | some tc => if 1 ≤ tc ∧ tc ≤ 4 then .val (bin2int (slice 37 40 bits)) else .rte
      | none => .rte := by
  unfold category
  cases htc : tcB bits with
  | none => rfl
  | some tc =>
    simp only
    have e : slice 5 8 (slice 32 87 bits) = slice 37 40 bits := by
      simp only [slice, List.drop_take, List.drop_drop, List.take_take]
      congr 1
    have l : 0 < (slice 37 40 bits).length := by rw [slice_length_of_le (by omega)]; omega
    rw [e, bin2intR_of_length l]
    by_cases c : tc < 1 ∨ tc > 4
    · have : ¬ (1 ≤ tc ∧ tc ≤ 4) := by omega
      simp [this]; omega
    · have : 1 ≤ tc ∧ tc ≤ 4 := by omega
      simp [this]; omega

/-- BDS 2,0: `cs20` returns the eight characters of MB bits 9–56 for any eight codes `< 64`
    (`#` for codes outside the alphabet), each output position depending on its own code only. -/
theorem cs20_roundtrip (bits : Bits) (d : Bits) (hd : dataR bits = .val d)
    (c0 c1 c2 c3 c4 c5 c6 c7 : Nat)
    (h0 : c0 < 64) (h1 : c1 < 64) (h2 : c2 < 64) (h3 : c3 < 64) (h4 : c4 < 64) (h5 : c5 < 64)
    (h6 : c6 < 64) (h7 : c7 < 64)
    (hf : slice 8 56 d = build (eight c0 c1 c2 c3 c4 c5 c6 c7)) :
    cs20 bits = .val ([c0, c1, c2, c3, c4, c5, c6, c7].map (fun c => Tables.cs20Chars.getD c '#')) := by
  unfold cs20
  rw [hd]
  simp only [Res.bind_val]
  rw [hf]
  exact chars8_build _ chars_table_spec.2.2 c0 c1 c2 c3 c4 c5 c6 c7 h0 h1 h2 h3 h4 h5 h6 h7

/-- non-vacuity: the hypotheses are met by a real frame from tests/ ("EZY85MH_") -/
example : callsign (hex2bin "8D406B902015A678D4D220AA4BDA") = .val "EZY85MH_".toList := by decide +kernel

/-! ### the round trip on real (112-bit) frames

  `callsign` hands `slice 40 96 bits` (56 bits on a 112-bit frame) to the character reader, which
  looks at its first 48 bits only.  The hypothesis `slice 40 96 bits = build (eight …)` of
  `callsign_roundtrip_prefix88` above therefore forces `bits.length = 88`; the form below states the
  hypothesis on ME bits 9–56 (`slice 40 88 bits`) and applies to frames of every length ≥ 88,
  in particular to 112-bit frames, whatever the other bits are. -/

theorem slice_take_of_le {α} (a b n : Nat) (l : List α) (hb : b ≤ n) :
    slice a b (l.take n) = slice a b l := by
  simp only [slice, List.drop_take, List.take_take]
  congr 1
  omega

/-- the character reader looks at the first 48 bits only -/
theorem chars8_take (chars : List Char) (cs : Bits) : chars8 chars (cs.take 48) = chars8 chars cs := by
  have e : ∀ i, i < 8 → slice (6 * i) (6 * i + 6) (cs.take 48) = slice (6 * i) (6 * i + 6) cs :=
    fun i hi => slice_take_of_le _ _ 48 cs (by omega)
  unfold chars8
  simp only [List.range, List.range.loop, Res.mapM]
  rw [e 0 (by omega), e 1 (by omega), e 2 (by omega), e 3 (by omega), e 4 (by omega), e 5 (by omega),
    e 6 (by omega), e 7 (by omega)]

/-- `callsign` does not look past bit 88 -/
theorem callsign_take88 (bits : Bits) : callsign (bits.take 88) = callsign bits := by
  have htc : tcB (bits.take 88) = tcB bits := by
    unfold tcB dfB
    rw [slice_take_of_le 0 5 88 bits (by omega), slice_take_of_le 32 37 88 bits (by omega)]
  have h1 : (slice 40 96 (bits.take 88)).take 48 = (slice 40 96 bits).take 48 := by
    simp only [slice, List.drop_take, List.take_take]
    congr 1
  unfold callsign
  rw [htc, ← chars8_take _ (slice 40 96 (bits.take 88)), h1, chars8_take]

/-- **Round trip on frames of any length ≥ 88 (in particular 112 bits)**: any eight legal codes
    placed in ME bits 9–56 come back as the eight characters (`_` for space), whatever the other
    bits are. -/
theorem callsign_roundtrip_frame (bits : Bits) (tc : Nat) (htc : tcB bits = some tc) (h14 : 1 ≤ tc ∧ tc ≤ 4)
    (c0 c1 c2 c3 c4 c5 c6 c7 : Nat)
    (hl : ∀ c ∈ [c0, c1, c2, c3, c4, c5, c6, c7], (idChar c).isSome)
    (hf : slice 40 88 bits = build (eight c0 c1 c2 c3 c4 c5 c6 c7)) :
    callsign bits = .val ([c0, c1, c2, c3, c4, c5, c6, c7].map (fun c => (idChar c).getD '#')) := by
  have htc' : tcB (bits.take 88) = some tc := by
    rw [← htc]
    unfold tcB dfB
    rw [slice_take_of_le 0 5 88 bits (by omega), slice_take_of_le 32 37 88 bits (by omega)]
  have hf' : slice 40 96 (bits.take 88) = build (eight c0 c1 c2 c3 c4 c5 c6 c7) := by
    rw [← hf]
    simp only [slice, List.drop_take, List.take_take]
    congr 1
  rw [← callsign_take88]
  exact callsign_roundtrip_prefix88 (bits.take 88) tc htc' h14 c0 c1 c2 c3 c4 c5 c6 c7 hl hf'

/-- the hypothesis of `callsign_roundtrip_prefix88` can only be met by an 88-bit string (so that theorem says
    nothing about 112-bit frames; `callsign_roundtrip_frame` does) -/
theorem callsign_roundtrip_hyp_length (bits : Bits) (c0 c1 c2 c3 c4 c5 c6 c7 : Nat)
    (hf : slice 40 96 bits = build (eight c0 c1 c2 c3 c4 c5 c6 c7)) : bits.length = 88 := by
  have h := congrArg List.length hf
  simp [slice_length, build_length, eight] at h
  omega

/-- non-vacuity of `callsign_roundtrip_frame` on a real 112-bit frame -/
example : (hex2bin "8D406B902015A678D4D220AA4BDA").length = 112 ∧
    tcB (hex2bin "8D406B902015A678D4D220AA4BDA") = some 4 ∧
    slice 40 88 (hex2bin "8D406B902015A678D4D220AA4BDA") = build (eight 5 26 25 56 53 13 8 32) ∧
    slice 40 96 (hex2bin "8D406B902015A678D4D220AA4BDA") ≠ build (eight 5 26 25 56 53 13 8 32) := by
  decide +kernel

/-! ### independence: changing one character code changes only that output position -/

/-- Two identification messages built as in `callsign_roundtrip_frame` whose eight codes differ only in
    code `k` (`[d0,…,d7] = [c0,…,c7].set k c'`): both decode to eight characters, output position
    `j` is the Annex 10 character of code `j` of the respective frame, hence the two callsigns agree
    at every position `j ≠ k`, and position `k` holds the character of `c_k` resp. `c'`. -/
theorem callsign_char_independent (bits bits' : Bits) (tc tc' : Nat)
    (htc : tcB bits = some tc) (h14 : 1 ≤ tc ∧ tc ≤ 4)
    (htc' : tcB bits' = some tc') (h14' : 1 ≤ tc' ∧ tc' ≤ 4)
    (c0 c1 c2 c3 c4 c5 c6 c7 d0 d1 d2 d3 d4 d5 d6 d7 : Nat)
    (hl : ∀ c ∈ [c0, c1, c2, c3, c4, c5, c6, c7], (idChar c).isSome)
    (hf : slice 40 88 bits = build (eight c0 c1 c2 c3 c4 c5 c6 c7))
    (hf' : slice 40 88 bits' = build (eight d0 d1 d2 d3 d4 d5 d6 d7))
    (k c' : Nat) (hc' : (idChar c').isSome)
    (hd : [d0, d1, d2, d3, d4, d5, d6, d7] = [c0, c1, c2, c3, c4, c5, c6, c7].set k c') :
    ∃ s s' : List Char, callsign bits = .val s ∧ callsign bits' = .val s' ∧
      s.length = 8 ∧ s'.length = 8 ∧
      (∀ j : Nat, s[j]? = ([c0, c1, c2, c3, c4, c5, c6, c7][j]?).map (fun c => (idChar c).getD '#')) ∧
      (∀ j : Nat, s'[j]? = ([d0, d1, d2, d3, d4, d5, d6, d7][j]?).map (fun c => (idChar c).getD '#')) ∧
      s' = s.set k ((idChar c').getD '#') ∧
      (∀ j : Nat, j ≠ k → s[j]? = s'[j]?) ∧
      (k < 8 → s[k]? = ([c0, c1, c2, c3, c4, c5, c6, c7][k]?).map (fun c => (idChar c).getD '#') ∧
        s'[k]? = some ((idChar c').getD '#')) := by
  have hl' : ∀ d ∈ [d0, d1, d2, d3, d4, d5, d6, d7], (idChar d).isSome := by
    intro d hm
    rw [hd] at hm
    rcases List.mem_or_eq_of_mem_set hm with h | h
    · exact hl d h
    · rw [h]; exact hc'
  have r := callsign_roundtrip_frame bits tc htc h14 c0 c1 c2 c3 c4 c5 c6 c7 hl hf
  have r' := callsign_roundtrip_frame bits' tc' htc' h14' d0 d1 d2 d3 d4 d5 d6 d7 hl' hf'
  have hs : [d0, d1, d2, d3, d4, d5, d6, d7].map (fun c => (idChar c).getD '#') =
      ([c0, c1, c2, c3, c4, c5, c6, c7].map (fun c => (idChar c).getD '#')).set k ((idChar c').getD '#') := by
    rw [hd, List.map_set]
  refine ⟨_, _, r, r', by simp, by simp, fun j => by rw [List.getElem?_map],
    fun j => by rw [List.getElem?_map], hs, ?_, ?_⟩
  · intro j hj
    rw [hs, List.getElem?_set_ne (Ne.symm hj)]
  · intro hk
    refine ⟨by rw [List.getElem?_map], ?_⟩
    rw [hs, List.getElem?_set_self (by simpa using hk)]

/-- BDS 2,0: the same for `cs20` (any codes `< 64`; the looked-up character is
    `Tables.cs20Chars[c]`, which is the Annex 10 character by `chars_table_spec`). -/
theorem cs20_char_independent (bits bits' : Bits) (d d' : Bits)
    (hdt : dataR bits = .val d) (hdt' : dataR bits' = .val d')
    (c0 c1 c2 c3 c4 c5 c6 c7 d0 d1 d2 d3 d4 d5 d6 d7 : Nat)
    (hl : ∀ c ∈ [c0, c1, c2, c3, c4, c5, c6, c7], c < 64)
    (hf : slice 8 56 d = build (eight c0 c1 c2 c3 c4 c5 c6 c7))
    (hf' : slice 8 56 d' = build (eight d0 d1 d2 d3 d4 d5 d6 d7))
    (k c' : Nat) (hc' : c' < 64)
    (hd : [d0, d1, d2, d3, d4, d5, d6, d7] = [c0, c1, c2, c3, c4, c5, c6, c7].set k c') :
    ∃ s s' : List Char, cs20 bits = .val s ∧ cs20 bits' = .val s' ∧
      s.length = 8 ∧ s'.length = 8 ∧
      (∀ j : Nat, s[j]? = ([c0, c1, c2, c3, c4, c5, c6, c7][j]?).map (fun c => Tables.cs20Chars.getD c '#')) ∧
      (∀ j : Nat, s'[j]? = ([d0, d1, d2, d3, d4, d5, d6, d7][j]?).map (fun c => Tables.cs20Chars.getD c '#')) ∧
      s' = s.set k (Tables.cs20Chars.getD c' '#') ∧
      (∀ j : Nat, j ≠ k → s[j]? = s'[j]?) ∧
      (k < 8 → s[k]? = ([c0, c1, c2, c3, c4, c5, c6, c7][k]?).map (fun c => Tables.cs20Chars.getD c '#') ∧
        s'[k]? = some (Tables.cs20Chars.getD c' '#')) := by
  have hl' : ∀ x ∈ [d0, d1, d2, d3, d4, d5, d6, d7], x < 64 := by
    intro x hm
    rw [hd] at hm
    rcases List.mem_or_eq_of_mem_set hm with h | h
    · exact hl x h
    · rw [h]; exact hc'
  have r := cs20_roundtrip bits d hdt c0 c1 c2 c3 c4 c5 c6 c7 (hl c0 (by simp)) (hl c1 (by simp))
    (hl c2 (by simp)) (hl c3 (by simp)) (hl c4 (by simp)) (hl c5 (by simp)) (hl c6 (by simp))
    (hl c7 (by simp)) hf
  have r' := cs20_roundtrip bits' d' hdt' d0 d1 d2 d3 d4 d5 d6 d7 (hl' d0 (by simp)) (hl' d1 (by simp))
    (hl' d2 (by simp)) (hl' d3 (by simp)) (hl' d4 (by simp)) (hl' d5 (by simp)) (hl' d6 (by simp))
    (hl' d7 (by simp)) hf'
  have hs : [d0, d1, d2, d3, d4, d5, d6, d7].map (fun c => Tables.cs20Chars.getD c '#') =
      ([c0, c1, c2, c3, c4, c5, c6, c7].map (fun c => Tables.cs20Chars.getD c '#')).set k
        (Tables.cs20Chars.getD c' '#') := by
    rw [hd, List.map_set]
  refine ⟨_, _, r, r', by simp, by simp, fun j => by rw [List.getElem?_map],
    fun j => by rw [List.getElem?_map], hs, ?_, ?_⟩
  · intro j hj
    rw [hs, List.getElem?_set_ne (Ne.symm hj)]
  · intro hk
    refine ⟨by rw [List.getElem?_map], ?_⟩
    rw [hs, List.getElem?_set_self (by simpa using hk)]

/-- non-vacuity: the frame from tests/ ("EZY85MH_", codes 5 26 25 56 53 13 8 32) and the same frame
    with code 2 changed from 25 (`Y`) to 1 (`A`) meet the hypotheses of `callsign_char_independent`
    (k = 2, c' = 1); the real decoder returns `EZY85MH_` and `EZA85MH_`.  Likewise for `cs20` with
    `KLM1017_` / `KLM1017S` (k = 7, c' = 19). -/
example :
    tcB (hex2bin "8D406B902015A678D4D220AA4BDA") = some 4 ∧
    tcB (hex2bin "8D406B902015A078D4D220AA4BDA") = some 4 ∧
    slice 40 88 (hex2bin "8D406B902015A678D4D220AA4BDA") = build (eight 5 26 25 56 53 13 8 32) ∧
    slice 40 88 (hex2bin "8D406B902015A078D4D220AA4BDA") = build (eight 5 26 1 56 53 13 8 32) ∧
    [5, 26, 1, 56, 53, 13, 8, 32] = [5, 26, 25, 56, 53, 13, 8, 32].set 2 1 ∧
    (∀ c ∈ [5, 26, 25, 56, 53, 13, 8, 32, 1], (idChar c).isSome) ∧
    callsign (hex2bin "8D406B902015A678D4D220AA4BDA") = .val "EZY85MH_".toList ∧
    callsign (hex2bin "8D406B902015A078D4D220AA4BDA") = .val "EZA85MH_".toList := by
  decide +kernel

example :
    (∃ d, dataR (hex2bin "A000083E202CC371C31DE0AA1CCF") = .val d ∧
      slice 8 56 d = build (eight 11 12 13 49 48 49 55 32)) ∧
    (∃ d, dataR (hex2bin "A000083E202CC371C31DD3AA1CCF") = .val d ∧
      slice 8 56 d = build (eight 11 12 13 49 48 49 55 19)) ∧
    [11, 12, 13, 49, 48, 49, 55, 19] = [11, 12, 13, 49, 48, 49, 55, 32].set 7 19 ∧
    cs20 (hex2bin "A000083E202CC371C31DE0AA1CCF") = .val "KLM1017_".toList ∧
    cs20 (hex2bin "A000083E202CC371C31DD3AA1CCF") = .val "KLM1017S".toList := by
  refine ⟨⟨_, rfl, ?_⟩, ⟨_, rfl, ?_⟩, ?_, ?_, ?_⟩ <;> decide +kernel

end PyModeS.C10
