/-
  C10 — Aircraft identification: callsign / cs20 / category round-trip.
-/
import PyModeS.Proofs.Enum
import PyModeS.Proofs.Hex
import PyModeS.Model.Commb
import PyModeS.Spec.Fields
namespace PyModeS.C10
open Spec

/-- The regenerated `chars` tables of bds08.callsign and bds20.cs20 agree with Annex 10 Table 3-9 on
    every legal code, never map a legal code to `#`, and have 64 entries (so no code can raise). -/
theorem chars_table_spec :
    (List.range 64).all (fun c =>
      match idChar c with
      | some ch => Tables.callsignChars[c]? == some ch && Tables.cs20Chars[c]? == some ch && ch != '#'
      | none => Tables.callsignChars[c]? == some '#' && Tables.cs20Chars[c]? == some '#') = true
    ∧ Tables.callsignChars.length = 64 ∧ Tables.cs20Chars.length = 64 := by
  decide +kernel

def eight (c0 c1 c2 c3 c4 c5 c6 c7 : Nat) : List (Nat × Nat) :=
  [(6, c0), (6, c1), (6, c2), (6, c3), (6, c4), (6, c5), (6, c6), (6, c7)]

/-- reading eight 6-bit codes back out of their concatenation -/
theorem chars8_build (chars : List Char) (hc : chars.length = 64) (c0 c1 c2 c3 c4 c5 c6 c7 : Nat)
    (h0 : c0 < 64) (h1 : c1 < 64) (h2 : c2 < 64) (h3 : c3 < 64) (h4 : c4 < 64) (h5 : c5 < 64)
    (h6 : c6 < 64) (h7 : c7 < 64) :
    chars8 chars (build (eight c0 c1 c2 c3 c4 c5 c6 c7)) =
      .val ([c0, c1, c2, c3, c4, c5, c6, c7].map (fun c => chars.getD c '#')) := by
  have s : ∀ i (hi : i < 8), slice (6 * i) (6 * i + 6) (build (eight c0 c1 c2 c3 c4 c5 c6 c7)) =
      natToBits 6 ((eight c0 c1 c2 c3 c4 c5 c6 c7)[i]'(by simpa [eight] using hi)).2 := by
    intro i hi
    have := slice_build (eight c0 c1 c2 c3 c4 c5 c6 c7) i (by simpa [eight] using hi)
    have ho : offset (eight c0 c1 c2 c3 c4 c5 c6 c7) i = 6 * i := by
      match i, hi with
      | 0, _ | 1, _ | 2, _ | 3, _ | 4, _ | 5, _ | 6, _ | 7, _ => rfl
    have hw : ((eight c0 c1 c2 c3 c4 c5 c6 c7)[i]'(by simpa [eight] using hi)).1 = 6 := by
      match i, hi with
      | 0, _ | 1, _ | 2, _ | 3, _ | 4, _ | 5, _ | 6, _ | 7, _ => rfl
    rw [ho, hw] at this
    exact this
  have g : ∀ c, c < 64 → (bin2intR (natToBits 6 c) >>= fun v => idxR chars v) = .val (chars.getD c '#') := by
    intro c hlt
    rw [bin2intR_of_length (by simp), bin2int_natToBits_of_lt (by simpa using hlt)]
    have : c < chars.length := by omega
    simp [idxR, List.getD, this]
  have g2 : ∀ i (hi : i < 8), (bin2intR (slice (6 * i) (6 * i + 6) (build (eight c0 c1 c2 c3 c4 c5 c6 c7))) >>=
      fun v => idxR chars v) = .val (chars.getD ((eight c0 c1 c2 c3 c4 c5 c6 c7)[i]'(by simpa [eight] using hi)).2 '#') := by
    intro i hi
    rw [s i hi]
    apply g
    match i, hi with
    | 0, _ | 1, _ | 2, _ | 3, _ | 4, _ | 5, _ | 6, _ | 7, _ => simpa [eight]
  unfold chars8
  simp only [List.range, List.range.loop, Res.mapM]
  rw [g2 0 (by omega), g2 1 (by omega), g2 2 (by omega), g2 3 (by omega), g2 4 (by omega), g2 5 (by omega),
    g2 6 (by omega), g2 7 (by omega)]
  rfl

/-- The eight characters of an ADS-B identification message (TC 1–4, ME bits 9–56): any eight legal
    codes come back as the eight characters (`_` for space), whatever the other bits are. -/
theorem callsign_roundtrip (bits : Bits) (tc : Nat) (htc : tcB bits = some tc) (h14 : 1 ≤ tc ∧ tc ≤ 4)
    (c0 c1 c2 c3 c4 c5 c6 c7 : Nat)
    (hl : ∀ c ∈ [c0, c1, c2, c3, c4, c5, c6, c7], (idChar c).isSome)
    (hf : slice 40 96 bits = build (eight c0 c1 c2 c3 c4 c5 c6 c7)) :
    callsign bits = .val ([c0, c1, c2, c3, c4, c5, c6, c7].map (fun c => (idChar c).getD '#')) := by
  have tbl := chars_table_spec
  have hall := all_range_imp tbl.1
  have key : ∀ c, (idChar c).isSome → c < 64 ∧ Tables.callsignChars.getD c '#' = (idChar c).getD '#' ∧
      (idChar c).getD '#' ≠ '#' := by
    intro c hc
    have hlt : c < 64 := by
      unfold idChar at hc
      split at hc
      · omega
      · split at hc
        · omega
        · split at hc
          · omega
          · simp at hc
    have := hall c hlt
    cases hi : idChar c with
    | none => rw [hi] at hc; simp at hc
    | some ch =>
      rw [hi] at this
      simp only [Bool.and_eq_true, beq_iff_eq, bne_iff_ne] at this
      refine ⟨hlt, ?_, ?_⟩
      · simp [List.getD, this.1.1]
      · simpa using this.2
  unfold callsign
  rw [htc]
  have hg : ¬ (tc < 1 ∨ tc > 4) := by omega
  simp only [hg, if_false]
  rw [hf, chars8_build _ tbl.2.1 c0 c1 c2 c3 c4 c5 c6 c7
    (key c0 (hl c0 (by simp))).1 (key c1 (hl c1 (by simp))).1 (key c2 (hl c2 (by simp))).1
    (key c3 (hl c3 (by simp))).1 (key c4 (hl c4 (by simp))).1 (key c5 (hl c5 (by simp))).1
    (key c6 (hl c6 (by simp))).1 (key c7 (hl c7 (by simp))).1]
  simp only [Res.bind_val, Res.pure_eq, List.map_cons, List.map_nil]
  rw [(key c0 (hl c0 (by simp))).2.1, (key c1 (hl c1 (by simp))).2.1, (key c2 (hl c2 (by simp))).2.1,
    (key c3 (hl c3 (by simp))).2.1, (key c4 (hl c4 (by simp))).2.1, (key c5 (hl c5 (by simp))).2.1,
    (key c6 (hl c6 (by simp))).2.1, (key c7 (hl c7 (by simp))).2.1]
  simp [List.filter, (key c0 (hl c0 (by simp))).2.2, (key c1 (hl c1 (by simp))).2.2, (key c2 (hl c2 (by simp))).2.2,
    (key c3 (hl c3 (by simp))).2.2, (key c4 (hl c4 (by simp))).2.2, (key c5 (hl c5 (by simp))).2.2,
    (key c6 (hl c6 (by simp))).2.2, (key c7 (hl c7 (by simp))).2.2]

/-- `category` is ME bits 6–8 for TC 1–4, RuntimeError otherwise. -/
theorem category_spec (bits : Bits) (h : bits.length = 112) :
    category bits = match tcB bits with
      | some tc => if 1 ≤ tc ∧ tc ≤ 4 then .val (bin2int (slice 37 40 bits)) else .rte
      | none => .rte := by
  unfold category
  cases htc : tcB bits with
  | none => rfl
  | some tc =>
    simp only
    have e : slice 5 8 (slice 32 87 bits) = slice 37 40 bits := by
      simp only [slice, List.drop_take, List.drop_drop, List.take_take]
      congr 1
    have l : 0 < (slice 37 40 bits).length := by rw [slice_length_of_le (by omega)]; omega
    rw [e, bin2intR_of_length l]
    by_cases c : tc < 1 ∨ tc > 4
    · have : ¬ (1 ≤ tc ∧ tc ≤ 4) := by omega
      simp [this]; omega
    · have : 1 ≤ tc ∧ tc ≤ 4 := by omega
      simp [this]; omega

/-- BDS 2,0: `cs20` returns the eight characters of MB bits 9–56 for any eight codes `< 64`
    (`#` for codes outside the alphabet), each output position depending on its own code only. -/
theorem cs20_roundtrip (bits : Bits) (d : Bits) (hd : dataR bits = .val d)
    (c0 c1 c2 c3 c4 c5 c6 c7 : Nat)
    (h0 : c0 < 64) (h1 : c1 < 64) (h2 : c2 < 64) (h3 : c3 < 64) (h4 : c4 < 64) (h5 : c5 < 64)
    (h6 : c6 < 64) (h7 : c7 < 64)
    (hf : slice 8 56 d = build (eight c0 c1 c2 c3 c4 c5 c6 c7)) :
    cs20 bits = .val ([c0, c1, c2, c3, c4, c5, c6, c7].map (fun c => Tables.cs20Chars.getD c '#')) := by
  unfold cs20
  rw [hd]
  simp only [Res.bind_val]
  rw [hf]
  exact chars8_build _ chars_table_spec.2.2 c0 c1 c2 c3 c4 c5 c6 c7 h0 h1 h2 h3 h4 h5 h6 h7

/-- non-vacuity: the hypotheses are met by a real frame from tests/ ("EZY85MH_") -/
example : callsign (hex2bin "8D406B902015A678D4D220AA4BDA") = .val "EZY85MH_".toList := by decide +kernel

end PyModeS.C10
