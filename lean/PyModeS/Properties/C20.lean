/-
  C20 — Standard-atmosphere and airspeed conversions are consistent (extra/aero.py).
-/
import PyModeS.Model.Aero
namespace PyModeS.C20
open Aero

/-- `mach2cas` and `cas2mach` are by definition the compositions through TAS, for every numeric instance -/
theorem mach2cas_def {α : Type} [Add α] [Sub α] [Mul α] [Div α] [Neg α] [OfScientific α] [OfNat α 0] [OfNat α 1] [Max α]
    [LT α] [DecidableLT α] [AeroOps α] (m H : α) :
    mach2cas m H = tas2cas (mach2tas m H) H ∧ cas2mach m H = tas2mach (cas2tas m H) H := ⟨rfl, rfl⟩

end PyModeS.C20
