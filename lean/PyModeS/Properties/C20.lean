/-
  C20 — Standard-atmosphere and airspeed conversions are consistent (extra/aero.py).

  The model `PyModeS.Aero` (Model/Aero.lean) is written once over a numeric class; here it is taken at
  `ℝ` (instance `Aero.instAeroOpsReal` in Proofs/Aero/Real.lean: `sqrt = Real.sqrt`, `exp = Real.exp`,
  `pow = Real.rpow`, `sin/cos = Real.sin/Real.cos`, `acos = Real.arccos`, `pi = Real.pi`,
  `atan2 y x = Complex.arg ⟨x, y⟩`, `mod360 x = x - 360 * ⌊x / 360⌋`) and the laws are proved there.
  `H` is the altitude in metres; unless a hypothesis says otherwise the statements hold for EVERY real
  `H` (in particular on the property's range −500 ≤ H ≤ 20000).  The ordering statements of §4 need
  `0 ≤ H` (below sea level the ISA density exceeds `rho0` and the orderings reverse).
-/
import PyModeS.Model.Aero
import PyModeS.Proofs.Aero.Real
import PyModeS.Proofs.Aero.Atmos
import PyModeS.Proofs.Aero.Speeds
import PyModeS.Proofs.Aero.Geo
namespace PyModeS.C20
open Aero

/-- `mach2cas` and `cas2mach` are by definition the compositions through TAS, for every numeric instance -/
theorem mach2cas_def {α : Type} [Add α] [Sub α] [Mul α] [Div α] [Neg α] [OfScientific α] [OfNat α 0] [OfNat α 1] [Max α]
    [LT α] [DecidableLT α] [AeroOps α] (m H : α) :
    mach2cas m H = tas2cas (mach2tas m H) H ∧ cas2mach m H = tas2mach (cas2tas m H) H := ⟨rfl, rfl⟩

/-! ## 1. Positivity (every real `H`) -/

theorem temperature_pos (H : ℝ) : 0 < temperature H := Aero.temperature_pos H
theorem density_pos (H : ℝ) : 0 < density H := Aero.density_pos H
theorem pressure_pos (H : ℝ) : 0 < pressure H := Aero.pressure_pos H
theorem vsound_pos (H : ℝ) : 0 < vsound H := Aero.vsound_pos H
/-- the stratosphere floor: the temperature never drops below 216.65 K -/
theorem temperature_ge (H : ℝ) : (216.65 : ℝ) ≤ temperature H := Aero.T_ge H

example : 0 < density (5000 : ℝ) ∧ 0 < pressure (-500 : ℝ) ∧ 0 < vsound (20000 : ℝ) :=
  ⟨density_pos _, pressure_pos _, vsound_pos _⟩

/-! ## 2. Inverse pairs
  The CAS pair needs `0 ≤ V` (the result of a conversion is a square root, hence non-negative, so
  the round trip of a negative speed returns `|V|`); the EAS and Mach pairs hold for every real. -/

theorem cas2tas_tas2cas {V : ℝ} (hV : 0 ≤ V) (H : ℝ) : cas2tas (tas2cas V H) H = V :=
  Aero.cas2tas_tas2cas hV H
theorem tas2cas_cas2tas {V : ℝ} (hV : 0 ≤ V) (H : ℝ) : tas2cas (cas2tas V H) H = V :=
  Aero.tas2cas_cas2tas hV H
theorem eas2tas_tas2eas (V H : ℝ) : eas2tas (tas2eas V H) H = V := Aero.eas2tas_tas2eas V H
theorem tas2eas_eas2tas (V H : ℝ) : tas2eas (eas2tas V H) H = V := Aero.tas2eas_eas2tas V H
theorem mach2tas_tas2mach (V H : ℝ) : mach2tas (tas2mach V H) H = V := Aero.mach2tas_tas2mach V H
theorem tas2mach_mach2tas (M H : ℝ) : tas2mach (mach2tas M H) H = M := Aero.tas2mach_mach2tas M H
theorem cas2mach_mach2cas {M : ℝ} (hM : 0 ≤ M) (H : ℝ) : cas2mach (mach2cas M H) H = M :=
  Aero.cas2mach_mach2cas hM H
theorem mach2cas_cas2mach {V : ℝ} (hV : 0 ≤ V) (H : ℝ) : mach2cas (cas2mach V H) H = V :=
  Aero.mach2cas_cas2mach hV H

example : cas2tas (tas2cas (200 : ℝ) 5000) 5000 = 200 := cas2tas_tas2cas (by norm_num) 5000
example : tas2cas (cas2tas (150 : ℝ) 11000) 11000 = 150 := tas2cas_cas2tas (by norm_num) 11000
example : cas2mach (mach2cas (0.78 : ℝ) 10668) 10668 = 0.78 := cas2mach_mach2cas (by norm_num) 10668
example : mach2cas (cas2mach (140 : ℝ) (-500)) (-500) = 140 := mach2cas_cas2mach (by norm_num) (-500)

/-! ## 3. Strict monotonicity in speed
  (the linear conversions are strictly monotone on all of ℝ, which is stronger than on `[0, ∞)`) -/

theorem tas2cas_strictMonoOn (H : ℝ) : StrictMonoOn (fun V : ℝ => tas2cas V H) (Set.Ici 0) :=
  Aero.tas2cas_strictMonoOn H
theorem cas2tas_strictMonoOn (H : ℝ) : StrictMonoOn (fun V : ℝ => cas2tas V H) (Set.Ici 0) :=
  Aero.cas2tas_strictMonoOn H
theorem mach2cas_strictMonoOn (H : ℝ) : StrictMonoOn (fun M : ℝ => mach2cas M H) (Set.Ici 0) :=
  Aero.mach2cas_strictMonoOn H
theorem cas2mach_strictMonoOn (H : ℝ) : StrictMonoOn (fun V : ℝ => cas2mach V H) (Set.Ici 0) :=
  Aero.cas2mach_strictMonoOn H
theorem tas2eas_strictMono (H : ℝ) : StrictMono (fun V : ℝ => tas2eas V H) := Aero.tas2eas_strictMono H
theorem eas2tas_strictMono (H : ℝ) : StrictMono (fun V : ℝ => eas2tas V H) := Aero.eas2tas_strictMono H
theorem tas2mach_strictMono (H : ℝ) : StrictMono (fun V : ℝ => tas2mach V H) := Aero.tas2mach_strictMono H
theorem mach2tas_strictMono (H : ℝ) : StrictMono (fun M : ℝ => mach2tas M H) := Aero.mach2tas_strictMono H
theorem tas2eas_strictMonoOn (H : ℝ) : StrictMonoOn (fun V : ℝ => tas2eas V H) (Set.Ici 0) :=
  (tas2eas_strictMono H).strictMonoOn _
theorem eas2tas_strictMonoOn (H : ℝ) : StrictMonoOn (fun V : ℝ => eas2tas V H) (Set.Ici 0) :=
  (eas2tas_strictMono H).strictMonoOn _
theorem tas2mach_strictMonoOn (H : ℝ) : StrictMonoOn (fun V : ℝ => tas2mach V H) (Set.Ici 0) :=
  (tas2mach_strictMono H).strictMonoOn _
theorem mach2tas_strictMonoOn (H : ℝ) : StrictMonoOn (fun M : ℝ => mach2tas M H) (Set.Ici 0) :=
  (mach2tas_strictMono H).strictMonoOn _

example : tas2cas (200 : ℝ) 5000 < tas2cas (201 : ℝ) 5000 :=
  tas2cas_strictMonoOn 5000 (by norm_num) (by norm_num) (by norm_num)
example : cas2mach (120 : ℝ) 9000 < cas2mach (130 : ℝ) 9000 :=
  cas2mach_strictMonoOn 9000 (by norm_num) (by norm_num) (by norm_num)

/-! ## 4. Orderings at altitude -/

/-- temperature, density and pressure are non-increasing in altitude, on all of ℝ -/
theorem temperature_antitone : Antitone (fun H : ℝ => temperature H) := Aero.temperature_antitone
theorem density_antitone : Antitone (fun H : ℝ => density H) := Aero.density_antitone
theorem pressure_antitone : Antitone (fun H : ℝ => pressure H) := Aero.pressure_antitone

theorem density_le_rho0 {H : ℝ} (hH : 0 ≤ H) : density H ≤ rho0 := Aero.density_le_rho0 hH
theorem pressure_le_p0 {H : ℝ} (hH : 0 ≤ H) : pressure H ≤ p0 := Aero.pressure_le_p0 hH
/-- below sea level the ordering is the other way round -/
theorem rho0_le_density {H : ℝ} (hH : H ≤ 0) : rho0 ≤ density H := by
  rw [← Aero.density_zero']; exact density_antitone hH

/-- EAS ≤ TAS -/
theorem tas2eas_le_self {V H : ℝ} (hV : 0 ≤ V) (hρ : density H ≤ rho0) : tas2eas V H ≤ V :=
  Aero.tas2eas_le_self hV hρ
theorem tas2eas_le_self_of_nonneg {V H : ℝ} (hV : 0 ≤ V) (hH : 0 ≤ H) : tas2eas V H ≤ V :=
  tas2eas_le_self hV (density_le_rho0 hH)

/-- EAS ≤ CAS (Jensen's inequality for the convex `x ↦ x ^ 3.5`) -/
theorem tas2eas_le_tas2cas {V H : ℝ} (hV : 0 ≤ V) (hp : pressure H ≤ p0) : tas2eas V H ≤ tas2cas V H :=
  Aero.tas2eas_le_tas2cas hV hp
theorem tas2eas_le_tas2cas_of_nonneg {V H : ℝ} (hV : 0 ≤ V) (hH : 0 ≤ H) : tas2eas V H ≤ tas2cas V H :=
  tas2eas_le_tas2cas hV (pressure_le_p0 hH)

/-- the companion upper bound: CAS² ≤ (p0 / p) · EAS² -/
theorem tas2cas_sq_le {V H : ℝ} (hp : pressure H ≤ p0) :
    tas2cas V H * tas2cas V H ≤ p0 / pressure H * (tas2eas V H * tas2eas V H) := by
  have := Aero.tas2cas_mul_self_le (V := V) hp
  rwa [Aero.p0_eq, Aero.pressure_eq]

example : tas2eas (200 : ℝ) 5000 ≤ 200 := tas2eas_le_self_of_nonneg (by norm_num) (by norm_num)
example : tas2eas (200 : ℝ) 5000 ≤ tas2cas (200 : ℝ) 5000 :=
  tas2eas_le_tas2cas_of_nonneg (by norm_num) (by norm_num)

/-! ## 5. Sea level -/

theorem temperature_zero : temperature (0 : ℝ) = 288.15 := Aero.temperature_zero
theorem density_zero : density (0 : ℝ) = 1.225 := Aero.density_zero
theorem tas2eas_zero (V : ℝ) : tas2eas V 0 = V := Aero.tas2eas_zero V
theorem eas2tas_zero (V : ℝ) : eas2tas V 0 = V := Aero.eas2tas_zero V
/-- `pressure 0 = rho0 · R · T0 = 101324.9984988625…`, which is NOT `p0 = 101325` -/
theorem pressure_zero : pressure (0 : ℝ) = 1.225 * 287.05287 * 288.15 := Aero.pressure_zero
theorem pressure_zero_ne_p0 : pressure (0 : ℝ) ≠ p0 := by
  rw [pressure_zero, Aero.p0_eq]; norm_num
theorem pressure_zero_near_p0 : |pressure (0 : ℝ) - p0| ≤ 0.0016 := Aero.pressure_zero_near_p0
/-- hence `tas2cas · 0` is the identity only up to 2e-8 relative (true value ≈ 0.74e-8), for every
    `V ≥ 0` (not only `V ≤ 450`), and it never under-reads -/
theorem tas2cas_zero_near {V : ℝ} (hV : 0 ≤ V) : |tas2cas V 0 - V| ≤ 2e-8 * V := Aero.tas2cas_zero_near hV
theorem self_le_tas2cas_zero {V : ℝ} (hV : 0 ≤ V) : V ≤ tas2cas V 0 := Aero.self_le_tas2cas_zero hV

example : |tas2cas (450 : ℝ) 0 - 450| ≤ 2e-8 * 450 := tas2cas_zero_near (by norm_num)

/-! ## 6. Continuity in altitude (no jump at the tropopause) -/

theorem temperature_continuous : Continuous (fun H : ℝ => temperature H) := Aero.temperature_continuous
theorem density_continuous : Continuous (fun H : ℝ => density H) := Aero.density_continuous
theorem pressure_continuous : Continuous (fun H : ℝ => pressure H) := Aero.pressure_continuous
theorem vsound_continuous : Continuous (fun H : ℝ => vsound H) := Aero.vsound_continuous
theorem temperature_tropopause : temperature (11000 : ℝ) = 216.65 := Aero.T_tropopause

example : ContinuousAt (fun H : ℝ => density H) 11000 := density_continuous.continuousAt

/-! ## 7. Geometry -/

theorem distance_comm (lat1 lon1 lat2 lon2 H : ℝ) :
    distance lat1 lon1 lat2 lon2 H = distance lat2 lon2 lat1 lon1 H := Aero.distance_comm _ _ _ _ _

theorem bearing_mem (lat1 lon1 lat2 lon2 : ℝ) :
    0 ≤ bearing lat1 lon1 lat2 lon2 ∧ bearing lat1 lon1 lat2 lon2 < 360 := Aero.bearing_mem _ _ _ _

/-- more precisely: the bearing is the `atan2` angle in degrees, plus one turn when it is negative -/
theorem bearing_cases (lat1 lon1 lat2 lon2 : ℝ) :
    let θ := Complex.arg ⟨Real.cos (radians lat1) * Real.sin (radians lat2)
        - Real.sin (radians lat1) * Real.cos (radians lat2) * Real.cos (radians lon2 - radians lon1),
        Real.sin (radians lon2 - radians lon1) * Real.cos (radians lat2)⟩
    bearing lat1 lon1 lat2 lon2 = if 0 ≤ θ then degrees θ else degrees θ + 360 :=
  Aero.bearing_cases _ _ _ _

/-- the law-of-cosines value that `distance` clamps and feeds to `acos` equals the haversine expression -/
theorem cosArc_haversine (lat1 lon1 lat2 lon2 : ℝ) : cosArc lat1 lon1 lat2 lon2 =
    1 - 2 * (Real.sin ((radians (90 - lat1) - radians (90 - lat2)) / 2) ^ 2
      + Real.sin (radians (90 - lat1)) * Real.sin (radians (90 - lat2))
        * Real.sin ((radians lon1 - radians lon2) / 2) ^ 2) := Aero.cosArc_haversine _ _ _ _

/-- over ℝ the clamp never fires: `distance = arccos (cosArc) · (r_earth + H)` -/
theorem distance_eq_arccos (lat1 lon1 lat2 lon2 H : ℝ) :
    distance lat1 lon1 lat2 lon2 H = Real.arccos (cosArc lat1 lon1 lat2 lon2) * (6371000 + H) :=
  Aero.distance_eq_arccos _ _ _ _ _

theorem distance_nonneg (lat1 lon1 lat2 lon2 : ℝ) {H : ℝ} (hH : -6371000 ≤ H) :
    0 ≤ distance lat1 lon1 lat2 lon2 H := Aero.distance_nonneg _ _ _ _ hH
/-- at most half the circumference -/
theorem distance_le (lat1 lon1 lat2 lon2 : ℝ) {H : ℝ} (hH : -6371000 ≤ H) :
    distance lat1 lon1 lat2 lon2 H ≤ Real.pi * (6371000 + H) := Aero.distance_le _ _ _ _ hH
theorem distance_self (lat lon H : ℝ) : distance lat lon lat lon H = 0 := Aero.distance_self _ _ _

example : distance (52 : ℝ) 4 48.85 2.35 0 = distance (48.85 : ℝ) 2.35 52 4 0 := distance_comm _ _ _ _ _
example : 0 ≤ distance (52 : ℝ) 4 48.85 2.35 10000 := distance_nonneg _ _ _ _ (by norm_num)
example : bearing (52 : ℝ) 4 48.85 2.35 < 360 := (bearing_mem _ _ _ _).2

end PyModeS.C20
