/-
  C15 — The Cython common module is observationally equivalent to the Python one.

  `PyModeS.C.*` (Model/CCommon.lean) is the C-semantics twin of src/pyModeS/c_common.pyx: `long` is
  64-bit two's complement, `int` 32-bit, `unsigned char` 8-bit, integer sentinels instead of `None`.
  `PyModeS.*` (Model/Common.lean) is py_common.py.  Well-formed input = hex strings (`IsHex`: every
  character is one of 0-9 a-f A-F); most statements are proved on the larger class of ASCII strings
  (`IsAscii`, one byte per character under `str.encode()`), where a non-hex character counts as 0 in
  both modules.  `RuntimeError` is `Res.rte`; the C results of `altitude`/`altcode` are compared
  through the documented sentinel map `C.altOfSentinel` (−999999, −1 ↦ `None`), the C type code
  through `C.tcOfSentinel` (−1 ↦ `None`).

  Proofs: PyModeS/Proofs/CCommon/Basic.lean, Alt.lean (structural, no enumeration of the 8192 codes).
-/
import PyModeS.Proofs.CCommon.Basic
import PyModeS.Proofs.CCommon.Alt
import PyModeS.Properties.C07
namespace PyModeS.C15
open PyModeS PyModeS.CRC PyModeS.CC

/-- kept from the first version: a legal 100-ft altitude is never a sentinel -/
theorem sentinel_is_not_an_altitude : ∀ k : Nat, k < 1280 → ((k : Int) * 100 - 1200 ≠ -1 ∧ (k : Int) * 100 - 1200 ≠ -999999) := by
  intro k hk; omega

/-- a concrete DF17 frame, a DF4 and a DF5 reply used in the examples below -/
def exAdsb : Msg := "8D406B902015A678D4D220AA4BDA".toList
def exDf4 : Msg := "2000171806A983".toList
def exDf5 : Msg := "2A00516D492B80".toList
def exDf20 : Msg := "A0001838CA3E51F0A8000047A36A".toList

theorem exAdsb_hex : IsHex exAdsb := by unfold IsHex exAdsb; decide
theorem exDf4_hex : IsHex exDf4 := by unfold IsHex exDf4; decide
theorem exDf5_hex : IsHex exDf5 := by unfold IsHex exDf5; decide
theorem exDf20_hex : IsHex exDf20 := by unfold IsHex exDf20; decide

/-! ## 1. characters and `hex2bin` -/

/-- `char_to_int(c) = int(c, 16)` on hex digits -/
theorem charToInt_eq_hexVal : ∀ c, (hexVal? c).isSome → C.charToInt c = hexVal c := CC.charToInt_eq_hexVal

/-- …and on every one-byte character (0 on a non-hex one, in both modules) -/
theorem charToInt_eq_of_byte : ∀ c : Char, c.toNat < 256 → C.charToInt c = hexVal c := CC.charToInt_eq_of_lt

theorem charToInt_nonhex : ∀ c : Char, c.toNat < 128 → hexVal? c = none → C.charToInt c = 0 ∧ hexVal c = 0 :=
  CC.charToInt_nonhex

/-- `hex2bin`: the same bit string for every hex string -/
theorem c_hex2bin_eq (m : Msg) (h : IsHex m) : C.hex2bin m = hex2binM m := CC.c_hex2bin_eq m h

/-- …and for every ASCII string -/
theorem c_hex2bin_eq_of_ascii (m : Msg) (h : IsAscii m) : C.hex2bin m = hex2binM m := CC.c_hex2bin_eq_of_ascii m h

/-- NOT for all strings: the model reduces a code point mod 256 (`unsigned char`), so U+0131 reads as '1' -/
theorem c_hex2bin_not_for_all : ∃ m : Msg, C.hex2bin m ≠ hex2binM m := ⟨_, CC.c_hex2bin_ne_example⟩

example : C.hex2bin exAdsb = hex2binM exAdsb := c_hex2bin_eq _ exAdsb_hex
example : (C.hex2bin exAdsb).length = 112 := by decide

/-! ## 2. `bin2int`, `hex2int` -/

/-- general statement: the C `long` is the Python integer reduced to signed 64 bits -/
theorem c_bin2int_wrap (b : Bits) : C.bin2int b = C.wrap64 (bin2int b : Int) := CC.c_bin2int_wrap b

/-- no 64-bit wrap below 63 bits (as requested) … -/
theorem c_bin2int_eq (b : Bits) (h : b.length ≤ 62) : C.bin2int b = (bin2int b : Int) := CC.c_bin2int_eq b h

/-- … in fact up to and including 63 bits; 64 ones already give −1 (`c_bin2int_wraps_example`) -/
theorem c_bin2int_eq_63 (b : Bits) (h : b.length ≤ 63) : C.bin2int b = (bin2int b : Int) := CC.c_bin2int_eq' b h

theorem c_bin2int_wraps_at_64 :
    C.bin2int (List.replicate 64 true) = -1 ∧ bin2int (List.replicate 64 true) = 18446744073709551615 :=
  CC.c_bin2int_wraps_example

theorem c_hex2int_wrap (m : Msg) (h : IsHex m) : C.hex2int m = C.wrap64 (hexToNatM m : Int) :=
  CC.c_hex2int_wrap m (isAscii_of_isHex h)

/-- `hex2int`: exact up to 15 hex digits -/
theorem c_hex2int_eq (m : Msg) (h : IsHex m) (hl : m.length ≤ 15) : C.hex2int m = (hexToNatM m : Int) :=
  CC.c_hex2int_eq m h hl

example : C.bin2int (natToBits 56 0xA5A5A5A5A5A5A5) = (0xA5A5A5A5A5A5A5 : Int) := by decide +kernel
example : C.hex2int "4BDA01".toList = (hexToNatM "4BDA01".toList : Int) :=
  c_hex2int_eq _ (by unfold IsHex; decide) (by decide)

/-! ## 3. `df`, `typecode` -/

theorem c_df_eq (m : Msg) (h : IsHex m) : C.df m = df m := CC.c_df_eq m h
theorem c_df_eq_of_ascii (m : Msg) (h : IsAscii m) : C.df m = df m := CC.c_df_eq_of_ascii m h

/-- the C type code read through the sentinel map is the Python type code -/
theorem c_typecode_eq (m : Msg) (h : IsHex m) : C.tcOfSentinel (C.typecode m) = typecode m := CC.c_typecode_eq m h

/-- −1 exactly where Python returns `None` -/
theorem c_typecode_none_iff (m : Msg) (h : IsHex m) : C.typecode m = -1 ↔ typecode m = none :=
  CC.c_typecode_none_iff m h

/-- and the same number otherwise -/
theorem c_typecode_val (m : Msg) (h : IsHex m) :
    C.typecode m = match typecode m with | some t => (t : Int) | none => -1 :=
  CC.c_typecode_val m (isAscii_of_isHex h)

example : C.df exAdsb = 17 ∧ df exAdsb = 17 := by decide
example : C.typecode exAdsb = 4 ∧ typecode exAdsb = some 4 := by decide
example : C.typecode exDf4 = -1 ∧ typecode exDf4 = none := by decide

/-! ## 4. `crc`, `icao` -/

/-- same CRC remainder (both `encode` values) on whole-byte hex strings; `6 ≤ m.length` is not used -/
theorem c_crc_eq (m : Msg) (e : Bool) (h : IsHex m) (h2 : m.length % 2 = 0) (h6 : 6 ≤ m.length) :
    C.crc m e = (crc m e : Int) := CC.c_crc_eq m e h h2 h6

theorem c_crc_eq' (m : Msg) (e : Bool) (h : IsAscii m) (h2 : m.length % 2 = 0) :
    C.crc m e = (crc m e : Int) := CC.c_crc_eq_of_ascii m e h h2

theorem c_icao_eq (m : Msg) (h : IsHex m) (h2 : m.length % 2 = 0) (h6 : 6 ≤ m.length) : C.icao m = icao m :=
  CC.c_icao_eq m h h2 h6

example : C.crc exAdsb false = (crc exAdsb false : Int) := c_crc_eq _ _ exAdsb_hex (by decide) (by decide)
example : C.icao exDf4 = icao exDf4 := c_icao_eq _ exDf4_hex (by decide) (by decide)

/-! ## 5. `squawk` -/

/-- for every bit string: the same four digits, `RuntimeError` unless it has 13 bits -/
theorem c_squawk_eq (b : Bits) : C.squawk b = squawk b := CC.c_squawk_eq b

theorem c_squawk_rte (b : Bits) (h : b.length ≠ 13) : C.squawk b = .rte ∧ squawk b = .rte := by
  have : squawk b = .rte := by
    unfold squawk
    split
    · simp at h
    · rfl
  exact ⟨by rw [c_squawk_eq, this], this⟩

example : C.squawk (natToBits 13 0x1ABC) = .val [7, 3, 1, 3] := by decide

/-! ## 6. `gray2alt`, `altitude` -/

theorem c_gray2int_eq (b : Bits) (h : b.length ≤ 31) : C.gray2int b = (gray2int b : Int) := CC.c_gray2int_eq b h

/-- `gray2alt` (11-bit Gillham strings, and anything up to 39 bits): −1 ↔ `None`, same value otherwise -/
theorem c_gray2alt_eq (b : Bits) (h : b.length ≤ 39) :
    C.gray2alt b = match gray2alt b with | some a => a | none => -1 := CC.c_gray2alt_eq b h

theorem c_gray2alt_sentinel (b : Bits) (h : b.length ≤ 39) : C.altOfSentinel (C.gray2alt b) = gray2alt b :=
  CC.c_gray2alt_sentinel b h

/-- no decoded Gillham altitude equals a sentinel -/
theorem gray2alt_ne_sentinel (g : Bits) (a : Int) (h : gray2alt g = some a) : a ≠ -1 ∧ a ≠ -999999 :=
  CC.gray2alt_ne_sentinel g a h

/-- `altitude`, for EVERY bit string, as `Res` values: `RuntimeError` on the same inputs, and the sentinel
    map turns the C integer into the Python result -/
theorem c_altitude_eq (b : Bits) : C.altOfSentinel <$> C.altitude b = altitude13 b := CC.c_altitude_eq b

theorem c_altitude_rte_iff (b : Bits) : C.altitude b = .rte ↔ altitude13 b = .rte := CC.c_altitude_rte_iff b

/-- hence the C altitude meets the Annex 10 specification of C07 through the sentinel map -/
theorem c_altitude_spec (b : Bits) (h : b.length = 13) :
    C.altOfSentinel <$> C.altitude b = .val (Spec.alt13 (bin2int b)) := by
  rw [c_altitude_eq, C07.altitude13_spec b h]

/-- the sentinels are reached: the zero code and an illegal Gillham code -/
example : C.altitude (natToBits 13 0) = .val (-999999) ∧ altitude13 (natToBits 13 0) = .val none := by decide
example : C.altitude (natToBits 13 0b0000000000100) = .val (-1) ∧ altitude13 (natToBits 13 0b0000000000100) = .val none := by
  decide
example : C.altitude (natToBits 13 0b1100010010011) = .val 38275 := by decide
example : C.altitude (natToBits 12 5) = .rte := by decide

/-! ## 7. `altcode`, `idcode` on frames -/

theorem c_altcode_eq (m : Msg) (h : IsHex m) : C.altOfSentinel <$> C.altcode m = altcode m := CC.c_altcode_eq m h

theorem c_idcode_eq (m : Msg) (h : IsHex m) : C.idcode m = idcode m := CC.c_idcode_eq m h

example : C.altcode exDf20 = .val 38000 ∧ altcode exDf20 = .val (some 38000) := by decide
example : C.idcode exDf5 = idcode exDf5 := c_idcode_eq _ exDf5_hex
example : C.idcode exDf4 = .rte ∧ idcode exDf4 = .rte := by decide

end PyModeS.C15
