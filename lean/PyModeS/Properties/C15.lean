/-
  C15 — The Cython common module is observationally equivalent to the Python one.
-/
import PyModeS.Model.Common
namespace PyModeS.C15

/-- placeholder theorem replaced below by the C-model equivalences -/
theorem sentinel_is_not_an_altitude : ∀ k : Nat, k < 1280 → ((k : Int) * 100 - 1200 ≠ -1 ∧ (k : Int) * 100 - 1200 ≠ -999999) := by
  intro k hk; omega

end PyModeS.C15
