/-
  C02 — ICAO address recovery is exact and canonical for every downlink format.
-/
import PyModeS.Proofs.Hex
import PyModeS.Proofs.CRC.Icao
namespace PyModeS.C02

/-- DF 11/17/18: the address is characters 3–8 of the frame (the AA field), in upper case. -/
theorem icao_AA (m : Msg) (h : df m = 11 ∨ df m = 17 ∨ df m = 18) :
    icao m = some ((slice 2 8 m).map Char.toUpper) := by
  unfold icao; simp [h]

/-- every other format than 0/4/5/11/16/17/18/20/21 yields `None` -/
theorem icao_none_otherwise (m : Msg)
    (h : df m ≠ 11 ∧ df m ≠ 17 ∧ df m ≠ 18 ∧ df m ≠ 0 ∧ df m ≠ 4 ∧ df m ≠ 5 ∧ df m ≠ 16 ∧ df m ≠ 20 ∧ df m ≠ 21) :
    icao m = none := by
  unfold icao; simp [h]

/-- DF values above 24 are reported as 24 -/
theorem df_clamp (m : Msg) : df m ≤ 24 := by
  unfold df; exact Nat.min_le_right _ _

/-! ### AP formats (DF 0/4/5/16/20/21): the address is recovered exactly -/

/-- A1.  If the last 24 bits of the frame are `parity(data) XOR A` (Annex 10 address/parity
    overlay), `icao` returns exactly the canonical rendering of `A`.  Any even length ≥ 6 hex
    digits (so 14 and 28 in particular).  No hex well-formedness is needed by the proof: the
    model reads a non-hex character as 0 where Python raises, so the statement is meaningful on
    hex strings only.  The hypothesis forces `A < 2^24`. -/
theorem icao_AP (m : Msg) (A : Nat) (hlen : 6 ≤ m.length) (heven : m.length % 2 = 0)
    (hdf : df m = 0 ∨ df m = 4 ∨ df m = 5 ∨ df m = 16 ∨ df m = 20 ∨ df m = 21)
    (hap : hexToNatM (takeLast 6 m) =
      Spec.remH (hex2binM (dropLast 6 m) ++ List.replicate 24 false) ^^^ A) :
    icao m = some (hex6 A) :=
  CRC.icao_AP_of m A hlen heven hdf hap

/-- `int(s, 16)` is `int(hex2bin(s), 2)` (used to read the hypothesis of `icao_AP` on bits) -/
theorem hexToNatM_eq_bin2int (m : Msg) : hexToNatM m = bin2int (hex2binM m) :=
  CRC.hexToNatM_eq_bin2int m

/-- the downlink encoder: `data ++ (parity(data) xor A)` rendered as upper-case hex -/
theorem encodeAP_def (d : Bits) (A : Nat) :
    CRC.encodeAP d A =
      CRC.hexOfBits (d ++ natToBits 24 (Spec.remH (d ++ List.replicate 24 false) ^^^ A)) := rfl

/-- the encoder produces the bit string it should, and a hex string -/
theorem encodeAP_bits (d : Bits) (A : Nat) (h4 : d.length % 4 = 0) :
    hex2binM (CRC.encodeAP d A) = d ++ natToBits 24 (Spec.remH (d ++ List.replicate 24 false) ^^^ A) ∧
    (∀ c ∈ CRC.encodeAP d A, (hexVal? c).isSome) :=
  ⟨CRC.hex2binM_encodeAP d A h4, CRC.hexOfBits_isHex _⟩

/-- A1, encoder form: the hypothesis of `icao_AP` is satisfied by the encoded frame for every
    address, payload and length … -/
theorem icao_AP_hyp_satisfiable (d : Bits) (A : Nat) (hA : A < 2 ^ 24) (h4 : d.length % 4 = 0) :
    hexToNatM (takeLast 6 (CRC.encodeAP d A)) =
      Spec.remH (hex2binM (dropLast 6 (CRC.encodeAP d A)) ++ List.replicate 24 false) ^^^ A :=
  (CRC.encodeAP_spec d A hA h4).2

/-- … hence decoding inverts encoding: any whole number ≥ 1 of data bytes, any address. -/
theorem icao_AP_encoder (d : Bits) (A : Nat) (hA : A < 2 ^ 24) (h8 : d.length % 8 = 0)
    (hd : 8 ≤ d.length)
    (hdf : dfB d = 0 ∨ dfB d = 4 ∨ dfB d = 5 ∨ dfB d = 16 ∨ dfB d = 20 ∨ dfB d = 21) :
    icao (CRC.encodeAP d A) = some (hex6 A) :=
  CRC.icao_encodeAP d A hA h8 hd hdf

/-- real DF20 frame from the tests: hypotheses of `icao_AP` hold with A = 0x400940 -/
example : let m := "A0001839CA3800315800007448D9".toList
    6 ≤ m.length ∧ m.length % 2 = 0 ∧ df m = 20 ∧
    hexToNatM (takeLast 6 m) =
      Spec.remH (hex2binM (dropLast 6 m) ++ List.replicate 24 false) ^^^ 0x400940 ∧
    icao m = some "400940".toList := by decide +kernel
/-- the encoder reproduces that frame from its 88 data bits; a short (56-bit) DF4 frame too -/
example : CRC.encodeAP (hex2bin "A0001839CA380031580000") 0x400940
      = "A0001839CA3800315800007448D9".toList ∧
    CRC.encodeAP (hex2bin "20000F1F") 0xABCDEF = "20000F1F8EA7A0".toList ∧
    icao "20000F1F8EA7A0".toList = some "ABCDEF".toList := by decide +kernel

/-! ### canonical form of the result -/

/-- A2.  `"%06X" % A` for `A < 2^24`: exactly six characters, all in 0-9A-F, whose value is `A`
    (so the map `A ↦ hex6 A` is injective and never yields lower case). -/
theorem hex6_spec (A : Nat) (hA : A < 2 ^ 24) :
    (hex6 A).length = 6 ∧ hexToNatM (hex6 A) = A ∧
    (∀ c ∈ hex6 A, c ∈ "0123456789ABCDEF".toList) := by
  rw [CRC.hex6_eq_hexN hA]
  refine ⟨CRC.hexN_length 6 A, ?_, CRC.hexN_upper 6 A⟩
  rw [CRC.hexToNatM_hexN]
  exact Nat.mod_eq_of_lt (by simpa using hA)

theorem hex6_injective (A B : Nat) (hA : A < 2 ^ 24) (hB : B < 2 ^ 24) (h : hex6 A = hex6 B) :
    A = B := by
  rw [← (hex6_spec A hA).2.1, ← (hex6_spec B hB).2.1, h]

example : hex6 0x00A0FF = "00A0FF".toList ∧ hex6 0 = "000000".toList := by decide +kernel

/-- A3.  `icao` does not depend on the letter case of a hex string, for any DF. -/
theorem icao_case_insensitive (m : Msg) (hm : ∀ c ∈ m, (hexVal? c).isSome) :
    icao (m.map Char.toLower) = icao m ∧ icao (m.map Char.toUpper) = icao m :=
  ⟨CRC.icao_toLower m hm, CRC.icao_toUpper m hm⟩

example : (∀ c ∈ "8d406B902015a678D4d220aa4bDA".toList, (hexVal? c).isSome) ∧
    icao "8d406b902015a678d4d220aa4bda".toList = some "406B90".toList ∧
    icao "a0001839ca3800315800007448d9".toList = some "400940".toList := by decide +kernel

/-- DF 11/17/18: the returned string is the canonical rendering of the value of the AA field. -/
theorem icao_AA_canonical (m : Msg) (hm : ∀ c ∈ m, (hexVal? c).isSome) (h8 : 8 ≤ m.length)
    (hdf : df m = 11 ∨ df m = 17 ∨ df m = 18) :
    icao m = some (hex6 (hexToNatM (slice 2 8 m))) :=
  (CRC.icao_AA_canonical m hm h8 hdf).1

/-- `icao_canonical`: a squitter (AA field = A) and an AP-format reply (parity overlaid with A)
    from the same transponder give the same string `hex6 A`, whatever the letter case of
    either input. -/
theorem icao_canonical (m₁ m₂ : Msg) (A : Nat)
    (hm₁ : ∀ c ∈ m₁, (hexVal? c).isSome) (hm₂ : ∀ c ∈ m₂, (hexVal? c).isSome)
    (h8 : 8 ≤ m₁.length) (hdf₁ : df m₁ = 11 ∨ df m₁ = 17 ∨ df m₁ = 18)
    (hAA : hexToNatM (slice 2 8 m₁) = A)
    (hlen : 6 ≤ m₂.length) (heven : m₂.length % 2 = 0)
    (hdf₂ : df m₂ = 0 ∨ df m₂ = 4 ∨ df m₂ = 5 ∨ df m₂ = 16 ∨ df m₂ = 20 ∨ df m₂ = 21)
    (hap : hexToNatM (takeLast 6 m₂) =
      Spec.remH (hex2binM (dropLast 6 m₂) ++ List.replicate 24 false) ^^^ A) :
    icao m₁ = some (hex6 A) ∧ icao m₂ = some (hex6 A) ∧
    icao (m₁.map Char.toLower) = some (hex6 A) ∧ icao (m₁.map Char.toUpper) = some (hex6 A) ∧
    icao (m₂.map Char.toLower) = some (hex6 A) ∧ icao (m₂.map Char.toUpper) = some (hex6 A) := by
  have e1 : icao m₁ = some (hex6 A) := by rw [icao_AA_canonical m₁ hm₁ h8 hdf₁, hAA]
  have e2 : icao m₂ = some (hex6 A) := icao_AP m₂ A hlen heven hdf₂ hap
  have c1 := icao_case_insensitive m₁ hm₁
  have c2 := icao_case_insensitive m₂ hm₂
  exact ⟨e1, e2, c1.1.trans e1, c1.2.trans e1, c2.1.trans e2, c2.2.trans e2⟩

/-- two real frames of different formats, mixed case, same result type -/
example : icao "8D400940000000000000000C0F7E".toList = icao "a0001839CA3800315800007448d9".toList := by
  decide +kernel

end PyModeS.C02
