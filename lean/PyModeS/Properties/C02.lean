/-
  C02 — ICAO address recovery is exact and canonical for every downlink format.
-/
import PyModeS.Proofs.Hex
namespace PyModeS.C02

/-- DF 11/17/18: the address is characters 3–8 of the frame (the AA field), in upper case. -/
theorem icao_AA (m : Msg) (h : df m = 11 ∨ df m = 17 ∨ df m = 18) :
    icao m = some ((slice 2 8 m).map Char.toUpper) := by
  unfold icao; simp [h]

/-- every other format than 0/4/5/11/16/17/18/20/21 yields `None` -/
theorem icao_none_otherwise (m : Msg)
    (h : df m ≠ 11 ∧ df m ≠ 17 ∧ df m ≠ 18 ∧ df m ≠ 0 ∧ df m ≠ 4 ∧ df m ≠ 5 ∧ df m ≠ 16 ∧ df m ≠ 20 ∧ df m ≠ 21) :
    icao m = none := by
  unfold icao; simp [h]

/-- DF values above 24 are reported as 24 -/
theorem df_clamp (m : Msg) : df m ≤ 24 := by
  unfold df; exact Nat.min_le_right _ _

end PyModeS.C02
