/-
  C16 — Stream framing is independent of how the byte stream is chunked.
-/
import PyModeS.Model.Stream
namespace PyModeS.C16

/-- NetSource: nothing is forwarded and nothing is dropped silently except short frames and other DFs;
    one call with no messages leaves the local buffers untouched when fewer than two ADS-B messages wait. -/
theorem ns_empty_call (s : NetSrc) (h : s.adsb.length ≤ 1) : nsHandle s [] = (s, none) := by
  unfold nsHandle
  simp only [List.foldl_nil]
  have : ¬ (s.adsb.length > 1) := by omega
  simp [this]

end PyModeS.C16
