/-
  C16 — Stream framing is independent of how the byte stream is chunked; NetSource conservation.

  Summary of what is proved here (helper lemmas: PyModeS/Proofs/Stream/*.lean):

  * `feed_chunk_invariant_beast`, `feed_chunk_invariant_skysense`: for ARBITRARY byte content and
    arbitrary chunking, `feedAll fmt cs [] [] = readFmt fmt cs.flatten`.
  * `feed_chunk_invariant_raw`: the same for AVR raw under `rawWF false cs.flatten` (every `;`
    closes a message opened by a `*`).  Without that hypothesis the statement is FALSE
    (`raw_counterexample_1/2/3` below, confirmed on the real `read_raw_buffer`).
  * `feed_chunk_invariant`: the three packed in one statement.
  * `feed_resume_*`: the generalisation to a client that has already consumed a stream `s0`.
  * `beast_frames_scan`, `raw_frames_read`: semantic corollaries for well-formed streams.
  * `netsource_conservation`, `netsource_sends_iff`, `netsource_call`, `netsource_pending_le_one`.
-/
import PyModeS.Model.Stream
import PyModeS.Proofs.Stream.Feed
import PyModeS.Proofs.Stream.Beast
import PyModeS.Proofs.Stream.Raw
import PyModeS.Proofs.Stream.Sky
import PyModeS.Proofs.Stream.Net
namespace PyModeS.C16

open PyModeS.Stream

/-- NetSource: nothing is forwarded and nothing is dropped silently except short frames and other DFs;
    one call with no messages leaves the local buffers untouched when fewer than two ADS-B messages wait. -/
theorem ns_empty_call (s : NetSrc) (h : s.adsb.length ≤ 1) : nsHandle s [] = (s, none) := by
  unfold nsHandle
  simp only [List.foldl_nil]
  have : ¬ (s.adsb.length > 1) := by omega
  simp [this]

/-! ## 1. Chunk invariance -/

/-! ### two-chunk lemmas (one read of `a ++ b` = read `a`, then read (retained buffer ++ `b`)) -/

theorem beast_two_chunk (a b : List Byte) :
    readFmt .beast (a ++ b)
      = ((readFmt .beast a).1 ++ (readFmt .beast ((readFmt .beast a).2 ++ b)).1,
         (readFmt .beast ((readFmt .beast a).2 ++ b)).2) :=
  readBeast_append a b

theorem skysense_two_chunk (a b : List Byte) :
    readFmt .skysense (a ++ b)
      = ((readFmt .skysense a).1 ++ (readFmt .skysense ((readFmt .skysense a).2 ++ b)).1,
         (readFmt .skysense ((readFmt .skysense a).2 ++ b)).2) :=
  readSky_append a b

/-- `rawWF false s` (defined in Proofs/Stream/Raw.lean): every `;` (59) of `s` closes a message
    opened by a `*` (42), i.e. there is a `*` before the first `;` and between any two `;`.
    Anything else (line ends, garbage, hex digits outside frames, several `*` in a row, an
    unterminated last frame) is allowed. -/
theorem raw_two_chunk (a b : List Byte) (hwf : rawWF false (a ++ b) = true) :
    readFmt .raw (a ++ b)
      = ((readFmt .raw a).1 ++ (readFmt .raw ((readFmt .raw a).2 ++ b)).1,
         (readFmt .raw ((readFmt .raw a).2 ++ b)).2) :=
  readRaw_append a b hwf

/-! ### Beast: arbitrary bytes -/

/-- Generalised form: a client that has consumed `s0` and is then fed the chunks `cs`. -/
theorem feed_resume_beast (cs : List (List Byte)) (s0 : List Byte) :
    feedAll .beast cs (readFmt .beast s0).2 (readFmt .beast s0).1 = readFmt .beast (s0 ++ cs.flatten) :=
  feedAll_resume .beast (fun _ => True) (fun _ _ _ => trivial)
    (fun a b _ => beast_two_chunk a b) cs s0 trivial

/-- **Chunk invariance, Beast, arbitrary byte content.**  The messages handed on over all reads,
    concatenated, and the final buffer, are those of ONE read of the whole stream. -/
theorem feed_chunk_invariant_beast (cs : List (List Byte)) :
    feedAll .beast cs [] [] = readFmt .beast cs.flatten :=
  feedAll_of_twoChunk .beast (fun _ => True) (fun _ _ _ => trivial)
    (fun a b _ => beast_two_chunk a b) readBeast_nil cs trivial


/-! Example: two Beast frames — a long DF17 frame whose timestamp contains `0x1A` (escaped) and a
    short DF11 frame whose signal byte is `0x1A` (escaped) — followed by the start `1A 33` of a third.
    Cuts: inside the first escape pair, inside the second escape pair, right after the last divider
    (lone trailing `0x1A`), plus an empty chunk. -/
def exBeast : List (List Byte) :=
  [ [0x1A, 0x33, 0x00, 0x1A],
    [0x1A, 0x02, 0x03, 0x04, 0x05, 0x50, 0x8D, 0x48, 0x40, 0xD6, 0x20, 0x2C, 0xC3, 0x71, 0xC3, 0x2C,
      0xE0, 0x57, 0x60, 0x98, 0x1A, 0x32, 0x01, 0x02, 0x03, 0x04, 0x05, 0x06, 0x1A],
    [0x1A, 0x5D, 0x48, 0x4B, 0xA8, 0x98, 0xF8, 0xC6, 0x1A],
    [],
    [0x33] ]

example : feedAll .beast exBeast [] [] = readFmt .beast exBeast.flatten :=
  feed_chunk_invariant_beast exBeast

example : feedAll .beast exBeast [] []
    = (["8D4840D6202CC371C32CE0576098".toList, "5D484BA898F8C6".toList], [0x1A, 0x33]) := by decide

example : readFmt .beast exBeast.flatten
    = (["8D4840D6202CC371C32CE0576098".toList, "5D484BA898F8C6".toList], [0x1A, 0x33]) := by decide

/-- every byte delivered separately -/
example : feedAll .beast (exBeast.flatten.map fun b => [b]) [] []
    = (["8D4840D6202CC371C32CE0576098".toList, "5D484BA898F8C6".toList], [0x1A, 0x33]) := by decide

/-- garbage (a stray byte before the first divider, escape pairs and dividers in odd places, an
    unknown frame type, a trailing run of three `0x1A`): still chunk-independent -/
example : feedAll .beast [[7, 0x1A], [0x1A, 9, 0x1A], [0x31, 1, 0x1A], [0x1A, 0x1A]] [] []
    = readFmt .beast [7, 0x1A, 0x1A, 9, 0x1A, 0x31, 1, 0x1A, 0x1A, 0x1A] :=
  feed_chunk_invariant_beast _
/-! ### Skysense: arbitrary bytes -/

theorem feed_resume_skysense (cs : List (List Byte)) (s0 : List Byte) :
    feedAll .skysense cs (readFmt .skysense s0).2 (readFmt .skysense s0).1
      = readFmt .skysense (s0 ++ cs.flatten) :=
  feedAll_resume .skysense (fun _ => True) (fun _ _ _ => trivial)
    (fun a b _ => skysense_two_chunk a b) cs s0 trivial

/-- **Chunk invariance, Skysense, arbitrary byte content.** -/
theorem feed_chunk_invariant_skysense (cs : List (List Byte)) :
    feedAll .skysense cs [] [] = readFmt .skysense cs.flatten :=
  feedAll_of_twoChunk .skysense (fun _ => True) (fun _ _ _ => trivial)
    (fun a b _ => skysense_two_chunk a b) readSky_nil cs trivial

/-! Example: one garbage byte, a long frame, a short frame, and the `$` of a third frame; cut inside
    the frames and delivered partly byte by byte. -/
def exSky : List (List Byte) :=
  [ [0xFF, 0x24, 0x8D], [0x48], [0x40, 0xD6, 0x20, 0x2C, 0xC3, 0x71, 0xC3, 0x2C, 0xE0, 0x57, 0x60, 0x98,
      0x80, 0, 0, 0, 0, 1, 1, 2], [3], [0x24], [],
    [0x5D, 0x48, 0x4B, 0xA8, 0x98, 0xF8, 0xC6, 0, 0, 0, 0, 0, 0, 0, 0x80, 0, 0, 0, 0, 2, 4, 5, 6],
    [0x24] ]

example : feedAll .skysense exSky [] [] = readFmt .skysense exSky.flatten :=
  feed_chunk_invariant_skysense exSky

example : feedAll .skysense exSky [] []
    = (["8D4840D6202CC371C32CE0576098".toList, "5D484BA898F8C6".toList], [0x24]) := by decide

example : readFmt .skysense exSky.flatten
    = (["8D4840D6202CC371C32CE0576098".toList, "5D484BA898F8C6".toList], [0x24]) := by decide

/-! ### AVR raw

  GENERAL STATEMENT (FALSE):
    `∀ cs, feedAll .raw cs [] [] = readFmt .raw cs.flatten`.
  Counter-examples (model below; the real `TcpClient.read_raw_buffer` behaves identically:
  `(['41'], [])` vs `(['1'], [])`, `(['41','41'], [])` vs `(['41',''], [])`,
  `(['41','41'], [])` vs `(['41','A'], [])`):
   1. hex digits before any `*`, then `;`, cut inside the digits: `41;` → one read gives "41",
      reads of `4` then `1;` give "1" (the text collected before a `*` is not retained);
   2. a second `;` with no `*` in between: `*41;;` → one read emits "41" twice (stale
      `current_msg`), reads of `*41;` then `;` give "41" then "";
   3. same with hex garbage after the first `;`: `*41;A;` gives "41","41" vs "41","A".
  All of them have a `;` that does not close a `*`‑opened message; `rawWF false` excludes exactly that.
-/

theorem raw_counterexample_1 :
    readFmt .raw [52, 49, 59] = ([['4', '1']], []) ∧
    feedAll .raw [[52], [49, 59]] [] [] = ([['1']], []) := by decide

theorem raw_counterexample_2 :
    readFmt .raw [42, 52, 49, 59, 59] = ([['4', '1'], ['4', '1']], []) ∧
    feedAll .raw [[42, 52, 49, 59], [59]] [] [] = ([['4', '1'], []], []) := by decide

theorem raw_counterexample_3 :
    readFmt .raw [42, 52, 49, 59, 65, 59] = ([['4', '1'], ['4', '1']], []) ∧
    feedAll .raw [[42, 52, 49, 59], [65, 59]] [] [] = ([['4', '1'], ['A']], []) := by decide

/-- the general statement is refuted -/
theorem feed_chunk_invariant_raw_general_false :
    ¬ ∀ cs : List (List Byte), feedAll .raw cs [] [] = readFmt .raw cs.flatten := by
  intro h
  have := h [[52], [49, 59]]
  revert this
  decide

theorem feed_resume_raw (cs : List (List Byte)) (s0 : List Byte)
    (hwf : rawWF false (s0 ++ cs.flatten) = true) :
    feedAll .raw cs (readFmt .raw s0).2 (readFmt .raw s0).1 = readFmt .raw (s0 ++ cs.flatten) :=
  feedAll_resume .raw (fun s => rawWF false s = true) (fun a b h => rawWF_prefix a b false h)
    (fun a b h => raw_two_chunk a b h) cs s0 hwf

/-- **Chunk invariance, AVR raw**, for every stream in which each `;` closes a `*`
    (arbitrary garbage otherwise, arbitrary chunking). -/
theorem feed_chunk_invariant_raw (cs : List (List Byte)) (hwf : rawWF false cs.flatten = true) :
    feedAll .raw cs [] [] = readFmt .raw cs.flatten :=
  feedAll_of_twoChunk .raw (fun s => rawWF false s = true) (fun a b h => rawWF_prefix a b false h)
    (fun a b h => raw_two_chunk a b h) readRaw_nil cs hwf

/-! Example: `*5D48;\n*A0b1;*5` (second frame lower/upper case mixed, third one unterminated) cut
    inside the frames, with an empty chunk. -/
def exRaw : List (List Byte) :=
  [ [42, 53], [68, 52, 56, 59, 10, 42], [65], [], [48, 98, 49, 59, 42], [53] ]

example : feedAll .raw exRaw [] [] = readFmt .raw exRaw.flatten :=
  feed_chunk_invariant_raw exRaw (by decide)

example : feedAll .raw exRaw [] [] = (["5D48".toList, "A0b1".toList], [42, 53]) := by decide

example : readFmt .raw exRaw.flatten = (["5D48".toList, "A0b1".toList], [42, 53]) := by decide

/-- **Chunk invariance, all three formats** (the hypothesis is only needed for raw). -/
theorem feed_chunk_invariant (fmt : Fmt) (cs : List (List Byte))
    (hraw : fmt = .raw → rawWF false cs.flatten = true) :
    feedAll fmt cs [] [] = readFmt fmt cs.flatten := by
  cases fmt with
  | beast => exact feed_chunk_invariant_beast cs
  | raw => exact feed_chunk_invariant_raw cs (hraw rfl)
  | skysense => exact feed_chunk_invariant_skysense cs

/-- the same, in the "(msgs, buf)" form of the specification -/
theorem feed_chunk_invariant' (fmt : Fmt) (cs : List (List Byte))
    (hraw : fmt = .raw → rawWF false cs.flatten = true) (msgs : List Msg) (buf : List Byte)
    (h : readFmt fmt cs.flatten = (msgs, buf)) :
    feedAll fmt cs [] [] = (msgs, buf) := by
  rw [feed_chunk_invariant fmt cs hraw, h]

/-! ## 2. Semantic corollaries for well-formed streams -/

/-- Beast escaping of one byte -/
def beastEsc (b : Byte) : List Byte := if b = 0x1A then [0x1A, 0x1A] else [b]

/-- spec serialiser of one Beast frame: divider, then the body with every `0x1A` doubled -/
def beastFrame (body : List Byte) : List Byte := 0x1A :: body.flatMap beastEsc

/-- a frame body: non-empty, type byte is not `0x1A` -/
def BeastBody (body : List Byte) : Prop := ∃ ty tl, body = ty :: tl ∧ ty ≠ 0x1A

theorem beastScan_body (body : List Byte) : ∀ (y msg : List Byte) (out : List (List Byte)) (st : List Byte),
    beastScan (body.flatMap beastEsc ++ y) msg out st = beastScan y (msg ++ body) out st := by
  induction body with
  | nil => intro y msg out st; simp
  | cons b tl ih =>
    intro y msg out st
    by_cases hb : b = 0x1A
    · subst hb
      simp only [List.flatMap_cons, beastEsc, if_true, List.cons_append, List.nil_append]
      rw [beastScan_esc, ih]; simp
    · simp only [List.flatMap_cons, beastEsc, hb, if_false, List.cons_append, List.nil_append]
      rw [beastScan_ord' b _ msg out st hb, ih]; simp

/-- general form (any scan state) of `beast_frames_scan` -/
theorem beast_frames_scan_gen (t : Byte) (ht : t ≠ 0x1A) (frames : List (List Byte)) :
    (∀ body ∈ frames, BeastBody body) →
    ∀ (msg : List Byte) (out : List (List Byte)) (st : List Byte),
    beastScan (frames.flatMap beastFrame ++ [0x1A, t]) msg out st
      = ((if msg.isEmpty then out else msg :: out).reverse ++ frames, [0x1A, t]) := by
  induction frames with
  | nil =>
    intro _ msg out st
    simp only [List.flatMap_nil, List.nil_append]
    rw [beastScan_div t [] msg out st ht, beastScan_ord' t [] [] _ _ ht, beastScan_nil]
    simp
  | cons body fs ih =>
    intro hb msg out st
    obtain ⟨ty, tl, rfl, hty⟩ := hb body (List.mem_cons_self)
    have hfs : ∀ b ∈ fs, BeastBody b := fun b hb' => hb b (List.mem_cons_of_mem _ hb')
    have e : beastEsc ty = [ty] := by simp [beastEsc, hty]
    simp only [List.flatMap_cons, beastFrame, List.cons_append, List.append_assoc]
    rw [e]
    simp only [List.cons_append, List.nil_append]
    rw [beastScan_div ty _ msg out st hty, beastScan_ord' ty _ [] _ _ hty, beastScan_body,
      ih hfs]
    by_cases hm : msg.isEmpty <;> simp [hm]

/-- **Beast, well-formed stream**: exactly the frames that are followed by the next frame start come
    out, un-escaped, in order, each once; the next (incomplete) frame start is retained. -/
theorem beast_frames_scan (frames : List (List Byte)) (t : Byte) (st : List Byte)
    (hframes : ∀ body ∈ frames, BeastBody body) (ht : t ≠ 0x1A) :
    beastScan (frames.flatMap beastFrame ++ [0x1A, t]) [] [] st = (frames, [0x1A, t]) := by
  rw [beast_frames_scan_gen t ht frames hframes]; simp

/-- the reader on a well-formed stream, however it is chunked -/
theorem beast_frames_feed (frames : List (List Byte)) (t : Byte)
    (hframes : ∀ body ∈ frames, BeastBody body) (ht : t ≠ 0x1A)
    (cs : List (List Byte)) (hcs : cs.flatten = frames.flatMap beastFrame ++ [0x1A, t]) :
    feedAll .beast cs [] [] = (frames.filterMap beastExtract, [0x1A, t]) := by
  rw [feed_chunk_invariant_beast, hcs]
  show readBeast _ = _
  simp only [readBeast]
  rw [beast_frames_scan frames t _ hframes ht]

/-- the frames of `exBeast` above: `exBeast.flatten` is their serialisation followed by `1A 33` -/
def exBeastFrames : List (List Byte) :=
  [ [0x33, 0x00, 0x1A, 0x02, 0x03, 0x04, 0x05, 0x50, 0x8D, 0x48, 0x40, 0xD6, 0x20, 0x2C, 0xC3, 0x71,
      0xC3, 0x2C, 0xE0, 0x57, 0x60, 0x98],
    [0x32, 0x01, 0x02, 0x03, 0x04, 0x05, 0x06, 0x1A, 0x5D, 0x48, 0x4B, 0xA8, 0x98, 0xF8, 0xC6] ]

example : feedAll .beast exBeast [] [] = (exBeastFrames.filterMap beastExtract, [0x1A, 0x33]) :=
  beast_frames_feed exBeastFrames 0x33
    (by intro b hb
        simp only [exBeastFrames, List.mem_cons, List.not_mem_nil, or_false] at hb
        rcases hb with rfl | rfl <;> exact ⟨_, _, rfl, by decide⟩)
    (by decide) exBeast (by decide)

/-- spec serialiser of one AVR raw frame: `*`, hex digits, `;`, separator (e.g. `\n` or `\r\n`) -/
def rawFrame (f : List Byte × List Byte) : List Byte := 42 :: f.1 ++ 59 :: f.2

/-- hex digits only in the text, no `*`/`;` in the separator -/
def RawFrameOK (f : List Byte × List Byte) : Prop :=
  (∀ b ∈ f.1, isHexByte b = true) ∧ (∀ b ∈ f.2, b ≠ 59 ∧ b ≠ 42)

theorem isHexByte_ne (b : Nat) (h : isHexByte b = true) : b ≠ 59 ∧ b ≠ 42 := by
  simp [isHexByte] at h
  constructor
  · intro hh; subst hh; simp at h
  · intro hh; subst hh; simp at h

theorem rawScan_hex (h : List Byte) : (∀ b ∈ h, isHexByte b = true) →
    ∀ (y : List Byte) (cur : List Char) (out : List Msg) (st : Option (List Byte)),
    rawScan (h ++ y) cur false out st = rawScan y (cur ++ h.map Char.ofNat) false out st := by
  induction h with
  | nil => intro _ y cur out st; simp
  | cons b tl ih =>
    intro hh y cur out st
    have hb := hh b List.mem_cons_self
    obtain ⟨h59, h42⟩ := isHexByte_ne b hb
    simp only [List.cons_append]
    rw [rawScan_other b _ cur false out st h59 h42, ih (fun c hc => hh c (List.mem_cons_of_mem _ hc))]
    simp [hb]

theorem rawScan_sep (sep : List Byte) : (∀ b ∈ sep, b ≠ 59 ∧ b ≠ 42) →
    ∀ (y : List Byte) (cur : List Char) (out : List Msg) (st : Option (List Byte)),
    rawScan (sep ++ y) cur true out st = rawScan y cur true out st := by
  induction sep with
  | nil => intro _ y cur out st; simp
  | cons b tl ih =>
    intro hh y cur out st
    obtain ⟨h59, h42⟩ := hh b List.mem_cons_self
    simp only [List.cons_append]
    rw [rawScan_other b _ cur true out st h59 h42, ih (fun c hc => hh c (List.mem_cons_of_mem _ hc))]
    simp

theorem raw_frames_scan_gen (frames : List (List Byte × List Byte)) :
    (∀ f ∈ frames, RawFrameOK f) →
    ∀ (cur : List Char) (stop : Bool) (out : List Msg),
    rawScan (frames.flatMap rawFrame) cur stop out none
      = (out.reverse ++ frames.map (fun f => f.1.map Char.ofNat), []) := by
  induction frames with
  | nil => intro _ cur stop out; simp [rawScan_nil]
  | cons f fs ih =>
    intro hf cur stop out
    obtain ⟨hhex, hsep⟩ := hf f List.mem_cons_self
    simp only [List.flatMap_cons, rawFrame, List.cons_append, List.append_assoc]
    rw [rawScan_star, rawScan_hex f.1 hhex, rawScan_semi, rawScan_sep f.2 hsep,
      ih (fun g hg => hf g (List.mem_cons_of_mem _ hg))]
    simp

/-- **AVR raw, well-formed stream**: `*hex;sep` sequences give the hex strings, in order, each once,
    and nothing is retained. -/
theorem raw_frames_read (frames : List (List Byte × List Byte)) (hf : ∀ f ∈ frames, RawFrameOK f) :
    readFmt .raw (frames.flatMap rawFrame) = (frames.map (fun f => f.1.map Char.ofNat), []) := by
  show rawScan _ [] false [] none = _
  rw [raw_frames_scan_gen frames hf]; simp

/-- such streams satisfy the hypothesis of `feed_chunk_invariant_raw` … -/
theorem raw_frames_wf (frames : List (List Byte × List Byte)) (hf : ∀ f ∈ frames, RawFrameOK f) :
    rawWF false (frames.flatMap rawFrame) = true := by
  have hex : ∀ (h : List Byte), (∀ b ∈ h, isHexByte b = true) → ∀ y op,
      rawWF op (h ++ y) = rawWF op y := by
    intro h
    induction h with
    | nil => intro _ y op; rfl
    | cons b tl ih =>
      intro hh y op
      obtain ⟨h59, h42⟩ := isHexByte_ne b (hh b List.mem_cons_self)
      simp only [List.cons_append, rawWF, h59, h42, if_false]
      exact ih (fun c hc => hh c (List.mem_cons_of_mem _ hc)) y op
  have sep : ∀ (s : List Byte), (∀ b ∈ s, b ≠ 59 ∧ b ≠ 42) → ∀ y op,
      rawWF op (s ++ y) = rawWF op y := by
    intro s
    induction s with
    | nil => intro _ y op; rfl
    | cons b tl ih =>
      intro hh y op
      obtain ⟨h59, h42⟩ := hh b List.mem_cons_self
      simp only [List.cons_append, rawWF, h59, h42, if_false]
      exact ih (fun c hc => hh c (List.mem_cons_of_mem _ hc)) y op
  induction frames with
  | nil => rfl
  | cons f fs ih =>
    obtain ⟨hhex, hsep⟩ := hf f List.mem_cons_self
    simp only [List.flatMap_cons, rawFrame, List.cons_append, List.append_assoc]
    have h1 : rawWF false (42 :: (f.1 ++ 59 :: (f.2 ++ fs.flatMap rawFrame)))
        = rawWF true (f.1 ++ 59 :: (f.2 ++ fs.flatMap rawFrame)) := by
      simp [rawWF]
    rw [h1, hex f.1 hhex]
    have h2 : rawWF true (59 :: (f.2 ++ fs.flatMap rawFrame))
        = rawWF false (f.2 ++ fs.flatMap rawFrame) := by
      simp [rawWF]
    rw [h2, sep f.2 hsep]
    exact ih (fun g hg => hf g (List.mem_cons_of_mem _ hg))

/-- … hence, however chunked, the client hands on exactly the hex strings. -/
theorem raw_frames_feed (frames : List (List Byte × List Byte)) (hf : ∀ f ∈ frames, RawFrameOK f)
    (cs : List (List Byte)) (hcs : cs.flatten = frames.flatMap rawFrame) :
    feedAll .raw cs [] [] = (frames.map (fun f => f.1.map Char.ofNat), []) := by
  rw [feed_chunk_invariant_raw cs (by rw [hcs]; exact raw_frames_wf frames hf), hcs,
    raw_frames_read frames hf]

/-- `*5D48;\n*A0b1;\r\n` -/
def exRawFrames : List (List Byte × List Byte) := [([53, 68, 52, 56], [10]), ([65, 48, 98, 49], [13, 10])]

example : feedAll .raw [[42, 53], [68, 52, 56, 59, 10, 42], [65], [], [48, 98, 49, 59, 13], [10]] [] []
    = (["5D48".toList, "A0b1".toList], []) :=
  raw_frames_feed exRawFrames
    (by intro f hf
        simp only [exRawFrames, List.mem_cons, List.not_mem_nil, or_false] at hf
        rcases hf with rfl | rfl <;> exact ⟨by decide, by decide⟩)
    _ (by decide)

/-! ## 3. NetSource -/

/-- iterate `handle_messages` over successive calls: final local buffers and, per call, what was
    put on the pipe (`none`: nothing sent) -/
def nsRun : NetSrc → List (List Msg) → NetSrc × List (Option (List Msg × List Msg))
  | s, [] => (s, [])
  | s, c :: cs => ((nsRun (nsHandle s c).1 cs).1, (nsHandle s c).2 :: (nsRun (nsHandle s c).1 cs).2)

/-- all ADS-B messages put on the pipe, in order -/
def sentAdsb (os : List (Option (List Msg × List Msg))) : List Msg :=
  os.flatMap (fun o => match o with | none => [] | some (a, _) => a)

/-- all Comm-B messages put on the pipe, in order -/
def sentCommb (os : List (Option (List Msg × List Msg))) : List Msg :=
  os.flatMap (fun o => match o with | none => [] | some (_, c) => c)

/-- one call, closed form: all waiting messages are sent and the buffers reset iff at least two
    ADS-B messages are waiting; otherwise everything is kept. -/
theorem netsource_call (s : NetSrc) (msgs : List Msg) :
    nsHandle s msgs =
      if (s.adsb ++ msgs.filter isAdsb).length ≥ 2 then
        (⟨[], []⟩, some (s.adsb ++ msgs.filter isAdsb, s.commb ++ msgs.filter isCommb))
      else (⟨s.adsb ++ msgs.filter isAdsb, s.commb ++ msgs.filter isCommb⟩, none) :=
  nsHandle_eq s msgs

/-- a batch is sent by a call iff at least two ADS-B messages are waiting after it -/
theorem netsource_sends_iff (s : NetSrc) (msgs : List Msg) :
    (nsHandle s msgs).2.isSome = true ↔ (s.adsb ++ msgs.filter isAdsb).length ≥ 2 := by
  rw [netsource_call]
  by_cases h : (s.adsb ++ msgs.filter isAdsb).length ≥ 2
  · rw [if_pos h]; simp only [Option.isSome_some, true_iff]; exact h
  · rw [if_neg h]; simp only [Option.isSome_none, Bool.false_eq_true, false_iff]; exact h

theorem nsRun_conservation (calls : List (List Msg)) : ∀ s : NetSrc,
    sentAdsb (nsRun s calls).2 ++ (nsRun s calls).1.adsb = s.adsb ++ calls.flatten.filter isAdsb ∧
    sentCommb (nsRun s calls).2 ++ (nsRun s calls).1.commb = s.commb ++ calls.flatten.filter isCommb := by
  induction calls with
  | nil => intro s; simp [nsRun, sentAdsb, sentCommb]
  | cons c cs ih =>
    intro s
    have h := ih (nsHandle s c).1
    simp only [nsRun, List.flatten_cons, List.filter_append]
    rw [netsource_call] at h ⊢
    by_cases hl : (s.adsb ++ c.filter isAdsb).length ≥ 2
    · simp only [hl, if_true] at h ⊢
      simp only [sentAdsb, sentCommb, List.flatMap_cons, List.append_assoc] at h ⊢
      simp only [List.nil_append] at h
      exact ⟨by rw [h.1], by rw [h.2]⟩
    · simp only [hl, if_false] at h ⊢
      simp only [sentAdsb, sentCommb, List.flatMap_cons, List.nil_append, List.append_assoc] at h ⊢
      exact h

/-- **NetSource conservation**: over any sequence of calls, what was sent followed by what is still
    pending is exactly the long DF17/18 (resp. DF20/21) messages of the input, in order, each once. -/
theorem netsource_conservation (calls : List (List Msg)) :
    sentAdsb (nsRun ⟨[], []⟩ calls).2 ++ (nsRun ⟨[], []⟩ calls).1.adsb
      = calls.flatten.filter (fun m => decide (m.length ≥ 28 ∧ (df m = 17 ∨ df m = 18))) ∧
    sentCommb (nsRun ⟨[], []⟩ calls).2 ++ (nsRun ⟨[], []⟩ calls).1.commb
      = calls.flatten.filter (fun m => decide (m.length ≥ 28 ∧ (df m = 20 ∨ df m = 21))) := by
  have h := nsRun_conservation calls ⟨[], []⟩
  simp only [List.nil_append] at h
  exact h

/-- one pipe entry per call -/
theorem nsRun_length (calls : List (List Msg)) : ∀ s : NetSrc, (nsRun s calls).2.length = calls.length := by
  induction calls with
  | nil => intro s; rfl
  | cons c cs ih => intro s; simp [nsRun, ih]

/-- after every call at most one ADS-B message is pending -/
theorem netsource_pending_le_one (calls : List (List Msg)) : ∀ s : NetSrc, s.adsb.length ≤ 1 →
    (nsRun s calls).1.adsb.length ≤ 1 := by
  induction calls with
  | nil => intro s h; exact h
  | cons c cs ih =>
    intro s _
    simp only [nsRun]
    apply ih
    rw [netsource_call]
    by_cases hl : (s.adsb ++ c.filter isAdsb).length ≥ 2
    · rw [if_pos hl]; simp
    · rw [if_neg hl]; show (s.adsb ++ c.filter isAdsb).length ≤ 1; omega

/-! Example: five calls — (DF17, short DF11), (DF20), (DF17, DF21, DF18), (), (DF4 long-looking junk, DF18).
    The third call is the only one after which two ADS-B messages wait: it sends
    `([a17, a17, a18], [b20, b21])`; at the end one DF18 is pending. -/
def a17 : Msg := "8D4840D6202CC371C32CE0576098".toList
def a18 : Msg := "904840D6202CC371C32CE0576098".toList
def b20 : Msg := "A0001838CA3E51F0A8000047A36A".toList
def b21 : Msg := "A8001EBCFFFB23286004A73F6A5B".toList
def s11 : Msg := "5D484BA898F8C6".toList
def exCalls : List (List Msg) := [[a17, s11], [b20], [a17, b21, a18], [], ["20001838CA3E51F0A8000047A36A".toList, a18]]

example : nsRun ⟨[], []⟩ exCalls
    = (⟨[a18], []⟩, [none, none, some ([a17, a17, a18], [b20, b21]), none, none]) := by decide

example : sentAdsb (nsRun ⟨[], []⟩ exCalls).2 ++ (nsRun ⟨[], []⟩ exCalls).1.adsb = [a17, a17, a18, a18] := by
  rw [(netsource_conservation exCalls).1]; decide

example : sentCommb (nsRun ⟨[], []⟩ exCalls).2 ++ (nsRun ⟨[], []⟩ exCalls).1.commb = [b20, b21] := by
  rw [(netsource_conservation exCalls).2]; decide

end PyModeS.C16
