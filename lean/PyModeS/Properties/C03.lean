/-
  C03 — Airborne CPR global decode recovers the encoded position.
-/
import PyModeS.Model.Adsb
namespace PyModeS.C03

/-- two frames of the same parity are rejected with RuntimeError, whatever the NL function -/
theorem same_parity_runtimeError (nl : Rat → Nat) (f0 f1 : CprFrame) (t0 t1 : Rat) (h : f0.oe = f1.oe) :
    airbornePositionCore nl f0 f1 t0 t1 = .rte := by
  unfold airbornePositionCore
  cases h0 : f0.oe <;> cases h1 : f1.oe <;> simp_all

end PyModeS.C03
