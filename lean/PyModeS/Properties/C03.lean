/-
  C03 — Airborne CPR global decode recovers the encoded position.

  `e0 = Spec.cprEncode nl 360 0 lat0 lon0` (even) and `e1 = Spec.cprEncode nl 360 1 lat1 lon1`
  (odd) are DO-260B encodings of two (possibly different) positions; `e.rlat`, `e.rlon` is the
  position carried by a frame, `e.yz`, `e.xz` the transmitted fields.  Everything holds for an
  arbitrary NL function `nl`.  Hypotheses on the carried latitudes: `-90 ≤ e.rlat ≤ 90`, which
  follows from `-90 ≤ lat ≤ 90` on the encoder's input (`rlat_in_range`).
  Proofs: `PyModeS/Proofs/CPR/Floor.lean`, `Local.lean`, `Global.lean` (DESIGN.md 11.1).
-/
import PyModeS.Model.Adsb
import PyModeS.Proofs.CPR.Global
namespace PyModeS.C03

/-- two frames of the same parity are rejected with RuntimeError, whatever the NL function -/
theorem same_parity_runtimeError (nl : Rat → Nat) (f0 f1 : CprFrame) (t0 t1 : Rat) (h : f0.oe = f1.oe) :
    airbornePositionCore nl f0 f1 t0 t1 = .rte := by
  unfold airbornePositionCore
  cases h0 : f0.oe <;> cases h1 : f1.oe <;> simp_all

/-- **arg_order_irrelevant.** Passing (odd, even) instead of (even, odd) gives the same result. -/
theorem arg_order_irrelevant (nl : ℚ → ℕ) (f0 f1 : CprFrame) (t0 t1 : ℚ)
    (h0 : f0.oe = false) (h1 : f1.oe = true) :
    airbornePositionCore nl f1 f0 t1 t0 = airbornePositionCore nl f0 f1 t0 t1 := by
  unfold airbornePositionCore
  simp [h0, h1]

/-- the encoder's carried latitude stays in `[-90, 90]` when the input latitude does -/
theorem rlat_in_range (nl : ℚ → ℕ) (i : ℕ) (hi : i = 0 ∨ i = 1) (lat lon : ℚ)
    (h : -90 ≤ lat ∧ lat ≤ 90) :
    -90 ≤ (Spec.cprEncode nl 360 i lat lon).rlat ∧ (Spec.cprEncode nl 360 i lat lon).rlat ≤ 90 :=
  CPR.enc_rlat_bounds nl i hi lat lon h

/-- The decoder in terms of its intermediate values: `CPR.latEven f0 f1` / `CPR.latOdd f0 f1` are
    the code's `lat_even` / `lat_odd` after the `≥ 270 → −360` wrap (functions of the two YZ fields
    only), `CPR.lonRaw 360 n i …` its longitude before the `> 180 → −360` wrap (`CPR.wrap180`). -/
theorem decode_unfold (nl : ℚ → ℕ) (f0 f1 : CprFrame) (t0 t1 : ℚ)
    (h0 : f0.oe = false) (h1 : f1.oe = true) :
    airbornePositionCore nl f0 f1 t0 t1 =
      if nl (CPR.latEven f0 f1) ≠ nl (CPR.latOdd f0 f1) then .val none
      else .val (some (
        if t0 > t1 then
          (CPR.latEven f0 f1,
            CPR.wrap180 (CPR.lonRaw 360 (nl (CPR.latEven f0 f1)) 0 f0.lon f1.lon f0.lon))
        else
          (CPR.latOdd f0 f1,
            CPR.wrap180 (CPR.lonRaw 360 (nl (CPR.latOdd f0 f1)) 1 f0.lon f1.lon f1.lon)))) :=
  CPR.airborne_eq nl f0 f1 t0 t1 h0 h1

/-- **global_lat.** If the two carried latitudes differ by less than 3/59° (half an even/odd zone
    offset) the decoder's `lat_even` and `lat_odd` are exactly the carried latitudes — southern
    latitudes come out as `x + 360` and are restored by the `≥ 270` wrap. -/
theorem global_lat (nl : ℚ → ℕ) (lat0 lon0 lat1 lon1 : ℚ) (e0 e1 : Spec.Enc)
    (he0 : e0 = Spec.cprEncode nl 360 0 lat0 lon0) (he1 : e1 = Spec.cprEncode nl 360 1 lat1 lon1)
    (hr0 : -90 ≤ e0.rlat ∧ e0.rlat ≤ 90) (hr1 : -90 ≤ e1.rlat ∧ e1.rlat ≤ 90)
    (hclose : |e0.rlat - e1.rlat| < 3 / 59) :
    CPR.latEven ⟨false, e0.yz, e0.xz⟩ ⟨true, e1.yz, e1.xz⟩ = e0.rlat ∧
    CPR.latOdd ⟨false, e0.yz, e0.xz⟩ ⟨true, e1.yz, e1.xz⟩ = e1.rlat := by
  subst he0 he1
  exact CPR.glat_airborne nl lat0 lon0 lat1 lon1 hr0 hr1 hclose

/-- **none_iff_NL_differs.** Under the hypotheses of `global_lat` the decoder returns `None`
    exactly when the two carried latitudes lie in different NL zones. -/
theorem none_iff_NL_differs (nl : ℚ → ℕ) (lat0 lon0 lat1 lon1 t0 t1 : ℚ) (e0 e1 : Spec.Enc)
    (he0 : e0 = Spec.cprEncode nl 360 0 lat0 lon0) (he1 : e1 = Spec.cprEncode nl 360 1 lat1 lon1)
    (hr0 : -90 ≤ e0.rlat ∧ e0.rlat ≤ 90) (hr1 : -90 ≤ e1.rlat ∧ e1.rlat ≤ 90)
    (hclose : |e0.rlat - e1.rlat| < 3 / 59) :
    airbornePositionCore nl ⟨false, e0.yz, e0.xz⟩ ⟨true, e1.yz, e1.xz⟩ t0 t1 = .val none
      ↔ nl e0.rlat ≠ nl e1.rlat := by
  obtain ⟨hE, hO⟩ := global_lat nl lat0 lon0 lat1 lon1 e0 e1 he0 he1 hr0 hr1 hclose
  rw [decode_unfold nl _ _ t0 t1 rfl rfl, hE, hO]
  by_cases h : nl e0.rlat = nl e1.rlat
  · simp [h]
  · simp [h]

/-- **global_decode.** Under the hypotheses of `global_lat`, if both carried latitudes have the
    same `n = nl rlat` and — when `n ≥ 2` — the carried longitudes differ, modulo 360, by less than
    half of the even/odd zone offset `360/(n(n−1))`, the decoder returns the position carried by
    the *newer* frame (`t0 > t1`: the even one, else the odd one): the latitude exactly, the
    longitude as its representative modulo 360 in `(-180, 180]`. -/
theorem global_decode (nl : ℚ → ℕ) (lat0 lon0 lat1 lon1 t0 t1 : ℚ) (e0 e1 : Spec.Enc)
    (he0 : e0 = Spec.cprEncode nl 360 0 lat0 lon0) (he1 : e1 = Spec.cprEncode nl 360 1 lat1 lon1)
    (hr0 : -90 ≤ e0.rlat ∧ e0.rlat ≤ 90) (hr1 : -90 ≤ e1.rlat ∧ e1.rlat ≤ 90)
    (hclose : |e0.rlat - e1.rlat| < 3 / 59)
    (hnl : nl e0.rlat = nl e1.rlat)
    (hlon : 2 ≤ nl e0.rlat → ∃ s : ℤ,
      |e0.rlon - e1.rlon - 360 * s| < 180 / ((nl e0.rlat : ℚ) * ((nl e0.rlat : ℚ) - 1))) :
    ∃ lon : ℚ,
      airbornePositionCore nl ⟨false, e0.yz, e0.xz⟩ ⟨true, e1.yz, e1.xz⟩ t0 t1
        = .val (some (if t0 > t1 then e0.rlat else e1.rlat, lon)) ∧
      (∃ z : ℤ, lon = (if t0 > t1 then e0.rlon else e1.rlon) + 360 * z) ∧
      -180 < lon ∧ lon ≤ 180 := by
  obtain ⟨hE, hO⟩ := global_lat nl lat0 lon0 lat1 lon1 e0 e1 he0 he1 hr0 hr1 hclose
  rw [decode_unfold nl _ _ t0 t1 rfl rfl, hE, hO, if_neg (not_not.mpr hnl)]
  subst he0 he1
  have hlon' : 2 ≤ nl (Spec.cprEncode nl 360 0 lat0 lon0).rlat → ∃ s : ℤ,
      |(Spec.cprEncode nl 360 0 lat0 lon0).rlon - (Spec.cprEncode nl 360 1 lat1 lon1).rlon - 360 * s|
        < 360 / 2 / ((nl (Spec.cprEncode nl 360 0 lat0 lon0).rlat : ℚ)
            * ((nl (Spec.cprEncode nl 360 0 lat0 lon0).rlat : ℚ) - 1)) := by
    intro h2
    obtain ⟨s, hs⟩ := hlon h2
    exact ⟨s, by norm_num at hs ⊢; exact hs⟩
  obtain ⟨⟨z0, hz0⟩, ⟨z1, hz1⟩⟩ := CPR.glon_raw nl 360 (by norm_num) lat0 lon0 lat1 lon1
    (nl (Spec.cprEncode nl 360 0 lat0 lon0).rlat) rfl hnl.symm hlon'
  by_cases ht : t0 > t1
  · simp only [ht, if_true]
    obtain ⟨⟨z, hz⟩, hlo, hhi⟩ := CPR.wrap180_spec _
      (CPR.lonRaw_range 360 (by norm_num) (nl (Spec.cprEncode nl 360 0 lat0 lon0).rlat) 0
        (Spec.cprEncode nl 360 0 lat0 lon0).xz (Spec.cprEncode nl 360 1 lat1 lon1).xz
        (Spec.cprEncode nl 360 0 lat0 lon0).xz (CPR.enc_xz_range nl 360 0 lat0 lon0))
    refine ⟨_, rfl, ⟨z0 + z, ?_⟩, hlo, hhi⟩
    rw [hz, hz0]; push_cast; ring
  · simp only [ht, if_false]
    rw [← hnl]
    obtain ⟨⟨z, hz⟩, hlo, hhi⟩ := CPR.wrap180_spec _
      (CPR.lonRaw_range 360 (by norm_num) (nl (Spec.cprEncode nl 360 0 lat0 lon0).rlat) 1
        (Spec.cprEncode nl 360 0 lat0 lon0).xz (Spec.cprEncode nl 360 1 lat1 lon1).xz
        (Spec.cprEncode nl 360 1 lat1 lon1).xz (CPR.enc_xz_range nl 360 1 lat1 lon1))
    refine ⟨_, rfl, ⟨z1 + z, ?_⟩, hlo, hhi⟩
    rw [hz, hz1]; push_cast; ring

/-! ### the hypotheses are satisfiable (`nl = cprNL`)

  Even frame at (52.2572, 3.91937) — fields 93000 / 51372 as in the pyModeS test vector
  `8D40621D58C382D690C8AC2863A7` — and an odd frame a little further at (52.2580, 3.91900). -/

example :
    let e0 := Spec.cprEncode cprNL 360 0 (522572 / 10000) (391937 / 100000)
    let e1 := Spec.cprEncode cprNL 360 1 (522580 / 10000) (391900 / 100000)
    (e0.yz, e0.xz, e1.yz, e1.xz) = (93000, 51372, 73991, 49940) ∧
    (-90 ≤ e0.rlat ∧ e0.rlat ≤ 90) ∧ (-90 ≤ e1.rlat ∧ e1.rlat ≤ 90) ∧
    |e0.rlat - e1.rlat| < 3 / 59 ∧ cprNL e0.rlat = 36 ∧ cprNL e1.rlat = 36 ∧
    |e0.rlon - e1.rlon - 360 * (0 : ℤ)| < 180 / ((cprNL e0.rlat : ℚ) * ((cprNL e0.rlat : ℚ) - 1)) ∧
    airbornePositionCore cprNL ⟨false, e0.yz, e0.xz⟩ ⟨true, e1.yz, e1.xz⟩ 1 0
      = .val (some (e0.rlat, e0.rlon)) ∧
    airbornePositionCore cprNL ⟨false, e0.yz, e0.xz⟩ ⟨true, e1.yz, e1.xz⟩ 0 1
      = .val (some (e1.rlat, e1.rlon)) := by
  decide +kernel

/-- southern hemisphere (the `≥ 270` wrap) and longitude 200° (returned as `rlon − 360`) -/
example :
    let e0 := Spec.cprEncode cprNL 360 0 (-339461 / 10000) 200
    let e1 := Spec.cprEncode cprNL 360 1 (-339470 / 10000) (2000010 / 10000)
    (-90 ≤ e0.rlat ∧ e0.rlat ≤ 90) ∧ (-90 ≤ e1.rlat ∧ e1.rlat ≤ 90) ∧
    |e0.rlat - e1.rlat| < 3 / 59 ∧ cprNL e0.rlat = 49 ∧ cprNL e1.rlat = 49 ∧
    |e0.rlon - e1.rlon - 360 * (0 : ℤ)| < 180 / ((cprNL e0.rlat : ℚ) * ((cprNL e0.rlat : ℚ) - 1)) ∧
    airbornePositionCore cprNL ⟨false, e0.yz, e0.xz⟩ ⟨true, e1.yz, e1.xz⟩ 1 0
      = .val (some (e0.rlat, e0.rlon + 360 * (-1 : ℤ))) ∧
    airbornePositionCore cprNL ⟨false, e0.yz, e0.xz⟩ ⟨true, e1.yz, e1.xz⟩ 0 1
      = .val (some (e1.rlat, e1.rlon + 360 * (-1 : ℤ))) := by
  decide +kernel

end PyModeS.C03
