/-
  C08 — Identity code and surveillance / all-call reply fields.
-/
import PyModeS.Proofs.Enum
import PyModeS.Proofs.Hex
import PyModeS.Spec.Fields
import PyModeS.Proofs.CRC.Icao
namespace PyModeS.C08
open Spec

theorem squawk_enum : (List.range 4096).all (fun n =>
    let a := n / 512; let b := n / 64 % 8; let c := n / 8 % 8; let d := n % 8
    decide (squawk (id13 a b c d false) = .val [a, b, c, d] ∧ squawk (id13 a b c d true) = .val [a, b, c, d])) = true := by
  decide +kernel

/-- All 8192 identity patterns: the four octal digits come back exactly, whatever the X bit. -/
theorem squawk_spec (a b c d : Nat) (x : Bool) (ha : a < 8) (hb : b < 8) (hc : c < 8) (hd : d < 8) :
    squawk (id13 a b c d x) = .val [a, b, c, d] := by
  have h := all_range_imp squawk_enum (a * 512 + b * 64 + c * 8 + d) (by omega)
  have e1 : (a * 512 + b * 64 + c * 8 + d) / 512 = a := by omega
  have e2 : (a * 512 + b * 64 + c * 8 + d) / 64 % 8 = b := by omega
  have e3 : (a * 512 + b * 64 + c * 8 + d) / 8 % 8 = c := by omega
  have e4 : (a * 512 + b * 64 + c * 8 + d) % 8 = d := by omega
  simp only [e1, e2, e3, e4, decide_eq_true_eq] at h
  cases x
  · exact h.1
  · exact h.2

/-- `squawk` rejects any other length with RuntimeError. -/
theorem squawk_bad_length (b : Bits) (h : b.length ≠ 13) : squawk b = .rte := by
  unfold squawk
  split
  · simp at h
  · rfl

/-- DF5 / DF21 (`common.idcode`, and `surv.identity` for DF5): the result is `squawk` of bits 20–32,
    a function of the DF and the ID field only; every other DF is rejected. -/
theorem idcode_frame (bits : Bits) :
    idcodeB bits = if dfB bits = 5 ∨ dfB bits = 21 then squawk (slice 19 32 bits) else .rte := by
  unfold idcodeB
  by_cases h5 : dfB bits = 5 <;> by_cases h21 : dfB bits = 21 <;> simp [h5, h21]

theorem idcode_msg (m : Msg) : idcode m = idcodeB (hex2binM m) := idcode_eq m

theorem surv_identity_frame (bits : Bits) :
    survIdentity bits = if dfB bits = 5 then squawk (slice 19 32 bits) else .rte := by
  unfold survIdentity survGuard
  rw [idcode_frame]
  by_cases h5 : dfB bits = 5
  · simp [h5]
  · by_cases h4 : dfB bits = 4
    · simp [h4]
    · simp [h4, h5]

/-- TC 28: the emergency squawk is `squawk` of ME bits 12–24. -/
theorem emergency_squawk_frame (bits : Bits) :
    emergencySquawk bits = if tcB bits = some 28 then squawk (slice 43 56 bits) else .rte := by
  unfold emergencySquawk
  by_cases h : tcB bits = some 28 <;> simp [h]

/-- FS, DR, IIS, IDS of a DF4/5 reply of at least 19 bits are bits 6–8, 9–13, 14–17, 18–19,
    independent of every other bit; other DFs are rejected. -/
theorem surv_fields (bits : Bits) (h : 19 ≤ bits.length) :
    survFs bits = (if dfB bits = 4 ∨ dfB bits = 5 then .val (bin2int (slice 5 8 bits)) else .rte) ∧
    survDr bits = (if dfB bits = 4 ∨ dfB bits = 5 then .val (bin2int (slice 8 13 bits)) else .rte) ∧
    survUm bits = (if dfB bits = 4 ∨ dfB bits = 5
      then .val (bin2int (slice 13 17 bits), bin2int (slice 17 19 bits)) else .rte) := by
  have l1 : 0 < (slice 5 8 bits).length := by rw [slice_length_of_le (by omega)]; omega
  have l2 : 0 < (slice 8 13 bits).length := by rw [slice_length_of_le (by omega)]; omega
  have l3 : 0 < (slice 13 17 bits).length := by rw [slice_length_of_le (by omega)]; omega
  have l4 : 0 < (slice 17 19 bits).length := by rw [slice_length_of_le (by omega)]; omega
  unfold survFs survDr survUm survGuard
  rw [bin2intR_of_length l1, bin2intR_of_length l2, bin2intR_of_length l3, bin2intR_of_length l4]
  by_cases h4 : dfB bits = 4 <;> by_cases h5 : dfB bits = 5 <;> simp [h4, h5]

/-- CA of a DF11 reply is bits 6–8. -/
theorem capability_frame (bits : Bits) (h : 8 ≤ bits.length) :
    capability bits = if dfB bits = 11 then .val (bin2int (slice 5 8 bits)) else .rte := by
  have l1 : 0 < (slice 5 8 bits).length := by rw [slice_length_of_le (by omega)]; omega
  unfold capability allcallGuard
  rw [bin2intR_of_length l1]
  by_cases h : dfB bits = 11 <;> simp [h]

/-- non-vacuity: frames from tests/ -/
example : idcodeB (hex2bin "2A00516D492B80") = .val [0, 3, 5, 6] := by decide +kernel

/-! ### DF11 interrogator code (`allcall.interrogator`) -/

/-- the label printed for a 7-bit CL‖IC code -/
def icLabel (code : Nat) : String :=
  if code > 79 then "corrupt IC" else if code < 16 then "II" ++ toString code
  else "SI" ++ toString (code - 16)

/-- If the last 24 bits of an all-call reply are `parity(data) XOR code` (PI field, Annex 10
    3.1.2.3.3.2: the interrogator code overlaid on the parity), `interrogator` returns the label
    of exactly that code; every other DF is rejected with RuntimeError.  Holds for any whole number
    ≥ 3 of bytes (a DF11 frame has 7); `code < 128` is not needed (the hypothesis forces
    `code < 2^24`, and everything above 79 is reported as corrupt). -/
theorem interrogator_spec (bits : Bits) (code : Nat) (h8 : bits.length % 8 = 0)
    (h24 : 24 ≤ bits.length)
    (hpi : bin2int (takeLast 24 bits) =
      Spec.remH (dropLast 24 bits ++ List.replicate 24 false) ^^^ code) :
    interrogator bits = if dfB bits = 11 then .val (icLabel code) else .rte := by
  unfold interrogator allcallGuard
  rw [CRC.crcBitsPy_code bits code h8 h24 hpi]
  unfold icLabel
  by_cases h : dfB bits = 11
  · simp only [h, ne_eq, not_true_eq_false, if_false, if_true]
    split
    · rfl
    · split <;> rfl
  · simp [h]

/-- the hypothesis is satisfiable for every payload and every code: the encoded frame
    `data ++ (parity(data) xor code)` has the PI property -/
theorem interrogator_encoder (d : Bits) (code : Nat) (hc : code < 2 ^ 24)
    (h8 : d.length % 8 = 0) (h5 : 5 ≤ d.length) :
    interrogator (d ++ natToBits 24 (Spec.remH (d ++ List.replicate 24 false) ^^^ code)) =
      if dfB d = 11 then .val (icLabel code) else .rte := by
  have hs := CRC.frame_field_spec d code hc
  simp only at hs
  rw [interrogator_spec _ code (by simp; omega) (by simp) hs.2, CRC.dfB_append d _ h5]

/-- real DF11 reply: PI = parity xor 22 (CL=1, IC=6), i.e. "SI6"; its DF bits are 01011 -/
example : let bits := hex2bin "5D484FDEA248F5"
    bits.length % 8 = 0 ∧ 24 ≤ bits.length ∧ dfB bits = 11 ∧
    bin2int (takeLast 24 bits) = Spec.remH (dropLast 24 bits ++ List.replicate 24 false) ^^^ 22 ∧
    icLabel 22 = "SI6" ∧ interrogator bits = .val "SI6" := by decide +kernel
example : icLabel 0 = "II0" ∧ icLabel 15 = "II15" ∧ icLabel 16 = "SI0" ∧ icLabel 79 = "SI63" ∧
    icLabel 80 = "corrupt IC" ∧ interrogator (hex2bin "8D406B902015A678D4D220AA4BDA") = .rte := by
  decide +kernel

end PyModeS.C08
