/-
  Basic vocabulary of the pyModeS model: bit strings, Python-like results,
  Python slicing, `int(s, 2)`, hex conversion.  No Mathlib; everything here is
  executable and also compiled into the native driver.
-/
namespace PyModeS

/-- A bit string, most significant bit first (Python `'0'/'1'` strings). -/
abbrev Bits := List Bool

/-- Outcome of calling a Python function: a value, `RuntimeError`, or any
    other exception type (`ValueError`, `IndexError`, `KeyError`, `TypeError`…). -/
inductive Res (α : Type) where
  | val : α → Res α
  | rte : Res α
  | exc : Res α
deriving Repr, DecidableEq

namespace Res
@[inline] def bind {α β} : Res α → (α → Res β) → Res β
  | val a, f => f a
  | rte, _ => rte
  | exc, _ => exc
instance : Monad Res where
  pure := val
  bind := Res.bind
@[simp] theorem bind_val {α β} (a : α) (f : α → Res β) : (val a >>= f) = f a := rfl
@[simp] theorem bind_rte {α β} (f : α → Res β) : ((rte : Res α) >>= f) = rte := rfl
@[simp] theorem bind_exc {α β} (f : α → Res β) : ((exc : Res α) >>= f) = exc := rfl
@[simp] theorem pure_eq {α} (a : α) : (pure a : Res α) = val a := rfl
@[simp] theorem map_val {α β} (f : α → β) (a : α) : (f <$> (val a : Res α)) = val (f a) := rfl
/-- `[f(x) for x in l]` with the first exception propagating -/
def mapM {α β} (f : α → Res β) : List α → Res (List β)
  | [] => val []
  | a :: as =>
    match f a with
    | val b => (match mapM f as with
      | val bs => val (b :: bs)
      | rte => rte
      | exc => exc)
    | rte => rte
    | exc => exc
instance : LawfulMonad Res := LawfulMonad.mk'
  (id_map := fun x => by cases x <;> rfl)
  (pure_bind := fun _ _ => rfl)
  (bind_assoc := fun x _ _ => by cases x <;> rfl)
def isVal {α} : Res α → Bool
  | val _ => true
  | _ => false
def isExc {α} : Res α → Bool
  | exc => true
  | _ => false
end Res

/-- Python slice `l[a:b]` for `0 ≤ a`, `0 ≤ b` (clamping semantics). -/
def slice {α} (a b : Nat) (l : List α) : List α := (l.drop a).take (b - a)

/-- Python `int(s, 2)` on a non-empty bit string. -/
def bin2int (l : Bits) : Nat := l.foldl (fun n b => 2 * n + b.toNat) 0

/-- Python `int(s, 2)`: `ValueError` on the empty string. -/
def bin2intR (l : Bits) : Res Nat := if l.isEmpty then .exc else .val (bin2int l)

/-- Python `s[i]` (non-negative index): `IndexError` out of range. -/
def idxR {α} (l : List α) (i : Nat) : Res α :=
  match l[i]? with
  | some b => .val b
  | none => .exc

/-- `w`-bit big-endian representation of `v` (low `w` bits). -/
def natToBitsA : Nat → Nat → Bits → Bits
  | 0, _, acc => acc
  | w + 1, v, acc => natToBitsA w (v / 2) ((v % 2 == 1) :: acc)

/-- (accumulator form: an order of magnitude faster under kernel evaluation than `++ [b]`) -/
def natToBits (w v : Nat) : Bits := natToBitsA w v []

/-- Concatenate fixed-width fields `(width, value)`. -/
def build : List (Nat × Nat) → Bits
  | [] => []
  | (w, v) :: fs => natToBits w v ++ build fs

/-- Bit offset of field `i` in a layout. -/
def offset : List (Nat × Nat) → Nat → Nat
  | [], _ => 0
  | _ :: _, 0 => 0
  | (w, _) :: fs, i + 1 => w + offset fs i

def xorBits : Bits → Bits → Bits
  | a :: as, b :: bs => (a != b) :: xorBits as bs
  | as, [] => as
  | [], bs => bs

/-! ### hexadecimal -/

/-- value of a hex digit, either case (`int(c, 16)`), `none` for a non-hex char -/
def hexVal? (c : Char) : Option Nat :=
  if '0' ≤ c ∧ c ≤ '9' then some (c.toNat - 48)
  else if 'a' ≤ c ∧ c ≤ 'f' then some (c.toNat - 87)
  else if 'A' ≤ c ∧ c ≤ 'F' then some (c.toNat - 55)
  else none

def hexVal (c : Char) : Nat := (hexVal? c).getD 0

/-- `hex2bin`: 4 bits per hex digit (the harness only sends hex strings) -/
def hex2bin (s : String) : Bits := s.toList.flatMap (fun c => natToBits 4 (hexVal c))

def hexDigitU (n : Nat) : Char :=
  if n < 10 then Char.ofNat (48 + n) else Char.ofNat (55 + n)

/-- upper-case hex of `n` with at least `w` digits (`"%0wX" % n`) -/
def toHexU (w n : Nat) : String :=
  let ds := (Nat.toDigits 16 n).map Char.toUpper
  String.ofList (List.replicate (w - ds.length) '0' ++ ds)

def bitsToHexU (b : Bits) : String := toHexU (b.length / 4) (bin2int b)

def hexToNat (s : String) : Nat := s.toList.foldl (fun n c => 16 * n + hexVal c) 0

def Bool.toDigit (b : Bool) : Char := if b then '1' else '0'
def bitsToString (b : Bits) : String := String.ofList (b.map Bool.toDigit)
def bitsOfString (s : String) : Bits := s.toList.map (· == '1')

end PyModeS
