/-
  Annex 10 vol IV field layouts used by the specs: identity code, 6-bit character set.
-/
import PyModeS.Basic
namespace PyModeS.Spec

/-- Identity (Mode A) code field, Annex 10 3.1.2.6.7.1: `C1 A1 C2 A2 C4 A4 X B1 D1 B2 D2 B4 D4`
    for octal digits A B C D (each `< 8`) and the X bit. -/
def id13 (a b c d : Nat) (x : Bool) : Bits :=
  let bit := fun (n k : Nat) => (n / k) % 2 == 1
  [bit c 1, bit a 1, bit c 2, bit a 2, bit c 4, bit a 4, x, bit b 1, bit d 1, bit b 2, bit d 2, bit b 4, bit d 4]

/-- Annex 10 Table 3-9 six-bit character set restricted to the characters an identification may
    contain: 1–26 ↦ A–Z, 32 ↦ space (reported as `_`), 48–57 ↦ 0–9. -/
def idChar (c : Nat) : Option Char :=
  if 1 ≤ c ∧ c ≤ 26 then some (Char.ofNat (64 + c))
  else if c = 32 then some '_'
  else if 48 ≤ c ∧ c ≤ 57 then some (Char.ofNat c)
  else none

def legalCodes : List Nat := (List.range 64).filter (fun c => (idChar c).isSome)

/-- eight 6-bit codes, most significant character first -/
def encodeChars (cs : List Nat) : Bits := cs.flatMap (natToBits 6)

end PyModeS.Spec
