/- DO-260B 2.2.3.2.4.2: surface movement field -> ground speed (kt), lower edge of each bin. -/
import PyModeS.Basic
namespace PyModeS.Spec

def movementSpeed (mov : Nat) : Option Rat :=
  if mov = 0 ∨ mov > 124 then none
  else if mov = 1 then some 0
  else if mov ≤ 8 then some ((1 : Rat) / 8 + ((mov - 2 : Nat) : Rat) / 8)
  else if mov ≤ 12 then some (1 + ((mov - 9 : Nat) : Rat) / 4)
  else if mov ≤ 38 then some (2 + ((mov - 13 : Nat) : Rat) / 2)
  else if mov ≤ 93 then some (15 + ((mov - 39 : Nat) : Rat))
  else if mov ≤ 108 then some (70 + ((mov - 94 : Nat) : Rat) * 2)
  else if mov ≤ 123 then some (100 + ((mov - 109 : Nat) : Rat) * 5)
  else some 175

end PyModeS.Spec
