/-
  DO-260B A.1.7.3 Compact Position Reporting *encoder* over exact rationals, and the position
  "carried" by a frame (the quantised point the receiver is supposed to recover).
  `base` = 360 for airborne messages, 90 for surface messages (19-bit encoding truncated to the
  17 transmitted bits is the same as encoding with zones a quarter the size).
  `i` = 0 even / 1 odd format.  `nl` is the NL function (kept abstract: the decode theorems hold
  for every `nl`, only its range matters).
-/
import PyModeS.Basic
namespace PyModeS.Spec

structure Enc where
  yz : Nat      -- transmitted 17-bit latitude field
  xz : Nat      -- transmitted 17-bit longitude field
  rlat : Rat    -- latitude carried by the frame
  rlon : Rat    -- longitude carried by the frame (same 360-degree sheet as the input longitude)
  dlat : Rat    -- latitude zone size
  dlon : Rat    -- longitude zone size used by the encoder

def two17 : Rat := 131072

def cprEncode (nl : Rat → Nat) (base : Rat) (i : Nat) (lat lon : Rat) : Enc :=
  let dlat : Rat := base / (60 - (i : Rat))
  let k : Int := (lat / dlat).floor
  let frac : Rat := lat / dlat - k
  let yzFull : Int := (two17 * frac + 1 / 2).floor          -- 0 … 2^17
  let rlat : Rat := dlat * ((k : Rat) + (yzFull : Rat) / two17)
  let n : Nat := nl rlat
  let ni : Nat := max (n - i) 1
  let dlon : Rat := base / (ni : Rat)
  let m : Int := (lon / dlon).floor
  let fr : Rat := lon / dlon - m
  let xzFull : Int := (two17 * fr + 1 / 2).floor
  let rlon : Rat := dlon * ((m : Rat) + (xzFull : Rat) / two17)
  { yz := (yzFull % 131072).toNat, xz := (xzFull % 131072).toNat, rlat := rlat, rlon := rlon, dlat := dlat, dlon := dlon }

end PyModeS.Spec
