/-
  Annex 10 vol IV 3.1.2.6.5.4 altitude code, written from the standard:
  the *encoder* (reflected Gray code for 500-ft increments, five-cycle code for
  100-ft increments) and the altitude assigned to every 13-bit AC field.
-/
import PyModeS.Basic
namespace PyModeS.Spec

/-- reflected binary Gray code -/
def gray (n : Nat) : Nat := n ^^^ (n >>> 1)

/-- Gillham encoding of altitude `-1200 + 100*k` ft, `k < 1280`:
    (Gray code of the 500-ft count on D2 D4 A1 A2 A4 B1 B2 B4, 100-ft code on C1 C2 C4). -/
def gillhamFields (k : Nat) : Nat × Nat :=
  let n500 := k / 5
  let n100 := k % 5 + 1
  let n100 := if n500 % 2 = 1 then 6 - n100 else n100
  let c := match n100 with
    | 1 => 0b001 | 2 => 0b011 | 3 => 0b010 | 4 => 0b110 | _ => 0b100
  (gray n500, c)

/-- place the Gillham fields in the 13-bit AC field
    `C1 A1 C2 A2 C4 A4 M B1 Q B2 D2 B4 D4` with M = Q = 0 -/
def ac13OfGillham (g8 c3 : Nat) : Bits :=
  let g := natToBits 8 g8
  let c := natToBits 3 c3
  let D2 := g.getD 0 false; let D4 := g.getD 1 false; let A1 := g.getD 2 false; let A2 := g.getD 3 false
  let A4 := g.getD 4 false; let B1 := g.getD 5 false; let B2 := g.getD 6 false; let B4 := g.getD 7 false
  let C1 := c.getD 0 false; let C2 := c.getD 1 false; let C4 := c.getD 2 false
  [C1, A1, C2, A2, C4, A4, false, B1, false, B2, D2, B4, D4]

/-- the AC field transmitted for altitude `-1200 + 100*k` ft -/
def ac13OfAlt (k : Nat) : Bits := let f := gillhamFields k; ac13OfGillham f.1 f.2

/-- AC field for a 25-ft altitude `N*25 - 1000` (M = 0, Q = 1), `N < 2048`:
    the 11 bits of N around the M and Q bits -/
def ac13OfN25 (n : Nat) : Bits :=
  let b := natToBits 11 n
  b.take 6 ++ [false] ++ (b.drop 6).take 1 ++ [true] ++ b.drop 7

/-- AC field for a metric altitude (M = 1): the 12 bits of N around the M bit -/
def ac13OfMetric (n : Nat) : Bits :=
  let b := natToBits 12 n
  b.take 6 ++ [true] ++ b.drop 6

/-- inverse of `gillhamFields` on legal patterns (used to *state* totality; tied to the
    encoder by `kOf_gillhamFields` / `gillhamFields_kOf`) -/
def ungrayBits : Bool → Bits → Bits
  | _, [] => []
  | acc, g :: gs => let b := (acc != g); b :: ungrayBits b gs

/-- Gray to binary: each binary bit is the XOR of the Gray bits down to it -/
def ungray8 (g : Nat) : Nat := bin2int (ungrayBits false (natToBits 8 g))

def legalC (c3 : Nat) : Bool := c3 == 1 || c3 == 3 || c3 == 2 || c3 == 6 || c3 == 4

def kOf (g8 c3 : Nat) : Nat :=
  let n500 := ungray8 g8
  let n100 := match c3 with
    | 1 => 1 | 3 => 2 | 2 => 3 | 6 => 4 | _ => 5
  let n100 := if n500 % 2 = 1 then 6 - n100 else n100
  n500 * 5 + (n100 - 1)

/-- The altitude Annex 10 assigns to a 13-bit AC field value (`none`: no / invalid altitude).
    Field order: C1 A1 C2 A2 C4 A4 M B1 Q B2 D2 B4 D4. -/
def alt13 (code : Nat) : Option Int :=
  if code = 0 then none else
  match natToBits 13 code with
  | [C1, A1, C2, A2, C4, A4, M, B1, Q, B2, D2, B4, D4] =>
    if M then
      -- metric: the 12 remaining bits, metres -> feet
      some (((bin2int [C1, A1, C2, A2, C4, A4, B1, Q, B2, D2, B4, D4] * 328084 / 100000 : Nat) : Int))
    else if Q then
      some (((bin2int [C1, A1, C2, A2, C4, A4, B1, B2, D2, B4, D4] * 25 : Nat) : Int) - 1000)
    else
      let g8 := bin2int [D2, D4, A1, A2, A4, B1, B2, B4]
      let c3 := bin2int [C1, C2, C4]
      if legalC c3 then some ((kOf g8 c3 : Int) * 100 - 1200) else none
  | _ => none

end PyModeS.Spec
