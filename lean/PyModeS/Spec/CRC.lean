/-
  Mode S parity (Annex 10 vol IV 3.1.2.3.3): the 24-bit remainder of the frame polynomial
  modulo G(x) = 0x1FFF409, as the textbook Horner / LFSR recursion over GF(2).
  `Proofs/CRCPoly.lean` shows this is `%ₘ` in `(ZMod 2)[X]`.
-/
import PyModeS.Basic
namespace PyModeS.Spec

/-- the Mode S generator polynomial, bit i = coefficient of x^i (degree 24) -/
def G : Nat := 0x1FFF409

/-- one Horner step: `s·x + b` reduced modulo G (s < 2^24) -/
def stepH (s : Nat) (b : Bool) : Nat :=
  let t := 2 * s + b.toNat
  if t.testBit 24 then t ^^^ G else t

/-- remainder of the polynomial whose coefficients are `bits` (highest degree first) modulo G -/
def remH (bits : Bits) : Nat := bits.foldl stepH 0

/-- number of set bits -/
def weight (bits : Bits) : Nat := (bits.filter id).length

end PyModeS.Spec
