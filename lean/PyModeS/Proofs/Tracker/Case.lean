/-
  Letter-case insensitivity of the tracker steps: a hex message enters `adsbStep`/`commbStep`
  only through `hex2binM`, `icao` and `typecode`, none of which sees the letter case.
-/
import PyModeS.Proofs.Tracker.Process
import PyModeS.Proofs.CRC.Icao
namespace PyModeS.Tracker
open PyModeS PyModeS.CRC

theorem typecode_map (f : Char → Char) (m : Msg) (hf : ∀ c ∈ m, hexVal (f c) = hexVal c) :
    typecode (m.map f) = typecode m := by
  rw [typecode_eq, typecode_eq, hex2binM_map f m hf]

/-- any re-spelling of the characters that keeps digit values and upper-case forms -/
theorem adsbStep_map (f : Char → Char) (tr : Tracker) (t : Rat) (m : Msg)
    (hf : ∀ c ∈ m, hexVal (f c) = hexVal c ∧ (f c).toUpper = c.toUpper) :
    adsbStep tr t (m.map f) = adsbStep tr t m := by
  have hv : ∀ c ∈ m, hexVal (f c) = hexVal c := fun c hc => (hf c hc).1
  unfold adsbStep
  rw [hex2binM_map f m hv, icao_map f m hf, typecode_map f m hv]

theorem commbStep_map (ias : Rat → Int → Rat) (f : Char → Char) (tr : Tracker) (t : Rat) (m : Msg)
    (hf : ∀ c ∈ m, hexVal (f c) = hexVal c ∧ (f c).toUpper = c.toUpper) :
    commbStep ias tr t (m.map f) = commbStep ias tr t m := by
  have hv : ∀ c ∈ m, hexVal (f c) = hexVal c := fun c hc => (hf c hc).1
  unfold commbStep
  rw [hex2binM_map f m hv, icao_map f m hf]

theorem toLower_ok (m : Msg) (h : IsHex m) :
    ∀ c ∈ m, hexVal c.toLower = hexVal c ∧ c.toLower.toUpper = c.toUpper :=
  fun c hc => ⟨(hexFacts c (h c hc)).2.1, (hexFacts c (h c hc)).2.2.2.2.2.1⟩

theorem toUpper_ok (m : Msg) (h : IsHex m) :
    ∀ c ∈ m, hexVal c.toUpper = hexVal c ∧ c.toUpper.toUpper = c.toUpper :=
  fun c hc => ⟨(hexFacts c (h c hc)).2.2.1, (hexFacts c (h c hc)).2.2.2.2.2.2.1⟩

theorem foldRes_map {α β γ} (f : α → β → Res α) (g : γ → β) (l : List γ) :
    ∀ a, foldRes f a (l.map g) = foldRes (fun a c => f a (g c)) a l := by
  induction l with
  | nil => intro a; rfl
  | cons c cs ih =>
    intro a
    rw [List.map_cons, foldRes_cons, foldRes_cons]
    congr 1
    funext a'
    exact ih a'

theorem foldRes_congr {α β} (f g : α → β → Res α) (l : List β) (h : ∀ a, ∀ b ∈ l, f a b = g a b) :
    ∀ a, foldRes f a l = foldRes g a l := by
  induction l with
  | nil => intro a; rfl
  | cons b bs ih =>
    intro a
    rw [foldRes_cons, foldRes_cons, h a b (by simp)]
    congr 1
    funext a'
    exact ih (fun a b hb => h a b (List.mem_cons_of_mem _ hb)) a'

/-- re-spelling every message of both batches (e.g. lower-casing) does not change `process_raw` -/
theorem processRaw_map (ias : Rat → Int → Rat) (f : Char → Char) (tr : Tracker)
    (adsb commb : List (Rat × Msg)) (tnow : Rat)
    (hf : ∀ p ∈ adsb ++ commb, ∀ c ∈ p.2, hexVal (f c) = hexVal c ∧ (f c).toUpper = c.toUpper) :
    processRaw ias tr (adsb.map (fun p => (p.1, p.2.map f))) (commb.map (fun p => (p.1, p.2.map f))) tnow =
      processRaw ias tr adsb commb tnow := by
  have hA : ∀ a, foldRes (fun tr p => adsbStep tr p.1 p.2) a (adsb.map (fun p => (p.1, p.2.map f))) =
      foldRes (fun tr p => adsbStep tr p.1 p.2) a adsb := by
    intro a
    rw [foldRes_map]
    apply foldRes_congr
    intro a b hb
    exact adsbStep_map f a b.1 b.2 (hf b (List.mem_append_left _ hb))
  have hB : ∀ a, foldRes (fun tr p => commbStep ias tr p.1 p.2) a (commb.map (fun p => (p.1, p.2.map f))) =
      foldRes (fun tr p => commbStep ias tr p.1 p.2) a commb := by
    intro a
    rw [foldRes_map]
    apply foldRes_congr
    intro a b hb
    exact commbStep_map ias f a b.1 b.2 (hf b (List.mem_append_right _ hb))
  unfold processRaw
  rw [hA]
  congr 1
  funext tr1
  rw [hB]

end PyModeS.Tracker
