/-
  `processRaw` = ADS-B fold, Comm-B fold, purge: key set, `live` stamps, who is listed afterwards.
-/
import PyModeS.Proofs.Tracker.Steps
namespace PyModeS.Tracker
open PyModeS

/-- table obligation: `cache_timeout = 60` seconds -/
theorem cacheTimeout_eq : Tables.cacheTimeout = 60 := by decide

/-- the ADS-B loop of `process_raw` -/
def adsbFold (tr : Tracker) (adsb : List (Rat × Msg)) : Res Tracker :=
  foldRes (fun tr p => adsbStep tr p.1 p.2) tr adsb
/-- the Comm-B loop of `process_raw` -/
def commbFold (ias : Rat → Int → Rat) (tr : Tracker) (commb : List (Rat × Msg)) : Res Tracker :=
  foldRes (fun tr p => commbStep ias tr p.1 p.2) tr commb
/-- the purge test: an entry survives iff `not (tnow - live > cache_timeout)` -/
def keep (tnow : Rat) (p : Msg × Ac) : Bool :=
  !decide (tnow - (p.2.live : Rat) > (Tables.cacheTimeout : Rat))

theorem processRaw_val {ias : Rat → Int → Rat} {tr tr' : Tracker} {adsb commb : List (Rat × Msg)} {tnow : Rat}
    (h : processRaw ias tr adsb commb tnow = .val tr') :
    ∃ tr1 tr2, adsbFold tr adsb = .val tr1 ∧ commbFold ias tr1 commb = .val tr2 ∧
      tr' = { tr2 with acs := tr2.acs.filter (keep tnow) } := by
  unfold processRaw at h
  obtain ⟨tr1, h1, h⟩ := bind_eq_val h
  obtain ⟨tr2, h2, h⟩ := bind_eq_val h
  simp only [Res.pure_eq, Res.val.injEq] at h
  exact ⟨tr1, tr2, h1, h2, h.symm⟩

theorem processRaw_of_folds {ias : Rat → Int → Rat} {tr tr1 tr2 : Tracker} {adsb commb : List (Rat × Msg)}
    (tnow : Rat) (h1 : adsbFold tr adsb = .val tr1) (h2 : commbFold ias tr1 commb = .val tr2) :
    processRaw ias tr adsb commb tnow = .val { tr2 with acs := tr2.acs.filter (keep tnow) } := by
  unfold processRaw
  unfold adsbFold at h1
  unfold commbFold at h2
  rw [h1, Res.bind_val, h2, Res.bind_val]
  rfl

/-! ### keys -/

theorem adsbFold_keys {tr tr1 : Tracker} {adsb : List (Rat × Msg)} (h : adsbFold tr adsb = .val tr1) :
    (∀ k ∈ keys tr1.acs, k ∈ keys tr.acs ∨ ∃ p ∈ adsb, k = keyOf p.2) ∧
    (∀ k ∈ keys tr.acs, k ∈ keys tr1.acs) ∧ (∀ p ∈ adsb, keyOf p.2 ∈ keys tr1.acs) := by
  unfold adsbFold at h
  induction adsb generalizing tr with
  | nil =>
    simp only [foldRes, Res.val.injEq] at h
    subst h
    exact ⟨fun k hk => Or.inl hk, fun k hk => hk, fun p hp => by simp at hp⟩
  | cons q qs ih =>
    rw [foldRes_cons] at h
    obtain ⟨tr0, h0, h⟩ := bind_eq_val h
    obtain ⟨i1, i2, i3⟩ := ih h
    obtain ⟨s1, s2, s3⟩ := adsbStep_keys h0
    refine ⟨?_, fun k hk => i2 k (s2 k hk), ?_⟩
    · intro k hk
      rcases i1 k hk with hk0 | ⟨p, hp, e⟩
      · rcases s1 k hk0 with hk1 | e
        · exact Or.inl hk1
        · exact Or.inr ⟨q, by simp, e⟩
      · exact Or.inr ⟨p, List.mem_cons_of_mem _ hp, e⟩
    · intro p hp
      rcases List.mem_cons.mp hp with e | hp
      · subst e; exact i2 _ s3
      · exact i3 p hp

theorem commbFold_keys {ias : Rat → Int → Rat} {tr tr2 : Tracker} {commb : List (Rat × Msg)}
    (h : commbFold ias tr commb = .val tr2) : keys tr2.acs = keys tr.acs := by
  have step : ∀ (a : Tracker) (b : Rat × Msg) (a' : Tracker), b ∈ commb → keys a.acs = keys tr.acs →
      commbStep ias a b.1 b.2 = .val a' → keys a'.acs = keys tr.acs :=
    fun a b a' _ hP hs => (commbStep_keys hs).trans hP
  exact foldRes_induct _ (fun x => keys x.acs = keys tr.acs) commb step tr tr2 rfl h

theorem filter_keys_subset (acs : List (Msg × Ac)) (q : Msg × Ac → Bool) :
    ∀ k ∈ keys (acs.filter q), k ∈ keys acs := by
  intro k hk
  simp only [keys, List.mem_map, List.mem_filter] at hk ⊢
  obtain ⟨p, ⟨hp, _⟩, e⟩ := hk
  exact ⟨p, hp, e⟩

/-! ### lower bounds on `live` (who stays listed) -/

/-- "key `k` is present with a `live` stamp of at least `L`" -/
def LiveGe (k : Msg) (L : Int) (tr : Tracker) : Prop := ∃ a, acsGet tr.acs k = some a ∧ L ≤ a.live

theorem adsbStep_liveGe {tr tr' : Tracker} {t : Rat} {m : Msg} (h : adsbStep tr t m = .val tr')
    (k : Msg) (L : Int) (hP : LiveGe k L tr) (hm : keyOf m = k → L ≤ pyInt t) : LiveGe k L tr' := by
  by_cases hk : k = keyOf m
  · obtain ⟨a', hg, hl⟩ := adsbStep_live h
    exact ⟨a', hk ▸ hg, by rw [hl]; exact hm hk.symm⟩
  · obtain ⟨a, hg, hl⟩ := hP
    exact ⟨a, by rw [(adsbStep_other h k hk).1]; exact hg, hl⟩

theorem adsbFold_liveGe {tr tr1 : Tracker} {adsb : List (Rat × Msg)} (h : adsbFold tr adsb = .val tr1)
    (k : Msg) (L : Int) (hP : LiveGe k L tr) (hm : ∀ p ∈ adsb, keyOf p.2 = k → L ≤ pyInt p.1) :
    LiveGe k L tr1 := by
  have step : ∀ (a : Tracker) (b : Rat × Msg) (a' : Tracker), b ∈ adsb → LiveGe k L a →
      adsbStep a b.1 b.2 = .val a' → LiveGe k L a' :=
    fun a b a' hb hPa hs => adsbStep_liveGe hs k L hPa (hm b hb)
  exact foldRes_induct _ (LiveGe k L) adsb step tr tr1 hP h

/-- the message `(t, m)` of the batch is followed only by messages that, if they are from the same
    address, carry a time stamp with `int(t') ≥ int(t)`: then the address ends the ADS-B loop with
    `live ≥ int(t)` -/
theorem adsbFold_heard {tr tr1 : Tracker} {pre post : List (Rat × Msg)} {t : Rat} {m : Msg}
    (h : adsbFold tr (pre ++ (t, m) :: post) = .val tr1)
    (hpost : ∀ p ∈ post, keyOf p.2 = keyOf m → pyInt t ≤ pyInt p.1) :
    LiveGe (keyOf m) (pyInt t) tr1 := by
  unfold adsbFold at h
  rw [foldRes_append] at h
  obtain ⟨tra, _, h⟩ := bind_eq_val h
  rw [foldRes_cons] at h
  obtain ⟨trb, hb, h⟩ := bind_eq_val h
  obtain ⟨a', hg, hl⟩ := adsbStep_live hb
  exact adsbFold_liveGe (adsb := post) h (keyOf m) (pyInt t) ⟨a', hg, by rw [hl]; exact Int.le_refl _⟩ hpost

/-- with non-decreasing time stamps every message of the batch qualifies -/
theorem adsbFold_heard_sorted {tr tr1 : Tracker} {adsb : List (Rat × Msg)} {t : Rat} {m : Msg}
    (h : adsbFold tr adsb = .val tr1) (hs : adsb.Pairwise (fun p q => p.1 ≤ q.1)) (hm : (t, m) ∈ adsb) :
    LiveGe (keyOf m) (pyInt t) tr1 := by
  obtain ⟨pre, post, e⟩ := List.append_of_mem hm
  subst e
  apply adsbFold_heard h
  intro p hp _
  rw [List.pairwise_append] at hs
  have := (List.pairwise_cons.mp hs.2.1).1 p hp
  exact pyInt_mono this

theorem commbStep_liveGe {ias : Rat → Int → Rat} {tr tr' : Tracker} {t : Rat} {m : Msg}
    (h : commbStep ias tr t m = .val tr') (k : Msg) (L : Int) (hP : LiveGe k L tr) : LiveGe k L tr' := by
  obtain ⟨a, hg, hl⟩ := hP
  obtain ⟨a', hg', hle, _, _⟩ := commbStep_live h k a hg
  exact ⟨a', hg', Int.le_trans hl hle⟩

theorem commbFold_liveGe {ias : Rat → Int → Rat} {tr tr2 : Tracker} {commb : List (Rat × Msg)}
    (h : commbFold ias tr commb = .val tr2) (k : Msg) (L : Int) (hP : LiveGe k L tr) : LiveGe k L tr2 := by
  have step : ∀ (a : Tracker) (b : Rat × Msg) (a' : Tracker), b ∈ commb → LiveGe k L a →
      commbStep ias a b.1 b.2 = .val a' → LiveGe k L a' :=
    fun a b a' _ hPa hs => commbStep_liveGe hs k L hPa
  exact foldRes_induct _ (LiveGe k L) commb step tr tr2 hP h

/-- a Comm-B reply at `t` from an address that is in the table raises its `live` to at least `int(t)` -/
theorem commbFold_heard {ias : Rat → Int → Rat} {tr tr2 : Tracker} {commb : List (Rat × Msg)} {t : Rat} {m : Msg}
    (h : commbFold ias tr commb = .val tr2) (hm : (t, m) ∈ commb) (hk : keyOf m ∈ keys tr.acs) :
    LiveGe (keyOf m) (pyInt t) tr2 := by
  obtain ⟨pre, post, e⟩ := List.append_of_mem hm
  subst e
  unfold commbFold at h
  rw [foldRes_append] at h
  obtain ⟨tra, ha, h⟩ := bind_eq_val h
  rw [foldRes_cons] at h
  obtain ⟨trb, hb, h⟩ := bind_eq_val h
  have hka : keyOf m ∈ keys tra.acs := by
    have := commbFold_keys (ias := ias) (tr := tr) (commb := pre) ha
    rw [this]; exact hk
  obtain ⟨a, hga⟩ : ∃ a, acsGet tra.acs (keyOf m) = some a := by
    have := (acsGet_isSome_iff tra.acs (keyOf m)).mpr hka
    cases hg : acsGet tra.acs (keyOf m) with
    | none => rw [hg] at this; simp at this
    | some a => exact ⟨a, rfl⟩
  obtain ⟨a', hg', _, hmax, _⟩ := commbStep_live hb (keyOf m) a hga
  have : LiveGe (keyOf m) (pyInt t) trb := ⟨a', hg', by rw [hmax rfl]; exact Int.le_max_right _ _⟩
  exact commbFold_liveGe (commb := post) h _ _ this

theorem acsGet_filter {acs : List (Msg × Ac)} {k : Msg} {a : Ac} (q : Msg × Ac → Bool)
    (hg : acsGet acs k = some a) (hq : q (k, a) = true) : acsGet (acs.filter q) k = some a := by
  unfold acsGet at hg ⊢
  induction acs with
  | nil => simp at hg
  | cons p acs ih =>
    rw [List.find?_cons] at hg
    by_cases hp : p.1 = k
    · simp only [hp, decide_true, Option.map_some, Option.some.injEq] at hg
      have e : p = (k, a) := by rw [← hp, ← hg]
      rw [List.filter_cons, e, hq]
      simp
    · simp only [hp, decide_false] at hg
      rw [List.filter_cons]
      split
      · rw [List.find?_cons]; simp only [hp, decide_false]; exact ih hg
      · exact ih hg

/-- a `live` stamp within 60 s of `tnow` survives the purge -/
theorem liveGe_survives {tr2 : Tracker} {k : Msg} {L : Int} {tnow : Rat} (hP : LiveGe k L tr2)
    (hL : tnow - (L : Rat) ≤ 60) :
    LiveGe k L { tr2 with acs := tr2.acs.filter (keep tnow) } := by
  obtain ⟨a, hg, hl⟩ := hP
  refine ⟨a, acsGet_filter _ hg ?_, hl⟩
  unfold keep
  rw [cacheTimeout_eq]
  have : ((L : Int) : Rat) ≤ (a.live : Rat) := by exact_mod_cast hl
  simp only [Bool.not_eq_true', decide_eq_false_iff_not]
  have e : ((60 : Int) : Rat) = 60 := by norm_cast
  rw [e]
  grind

/-! ### upper bounds on `live` (who is purged) -/

/-- "every record under key `k` has a `live` stamp of at most `L`" -/
def LiveLe (k : Msg) (L : Int) (tr : Tracker) : Prop := ∀ p ∈ tr.acs, p.1 = k → p.2.live ≤ L

theorem adsbFold_liveLe {tr tr1 : Tracker} {adsb : List (Rat × Msg)} (h : adsbFold tr adsb = .val tr1)
    (k : Msg) (L : Int) (hP : LiveLe k L tr) (hm : ∀ p ∈ adsb, keyOf p.2 = k → pyInt p.1 ≤ L) :
    LiveLe k L tr1 := by
  have step : ∀ (a : Tracker) (b : Rat × Msg) (a' : Tracker), b ∈ adsb → LiveLe k L a →
      adsbStep a b.1 b.2 = .val a' → LiveLe k L a' :=
    fun a b a' hb hPa hs => adsbStep_live_le hs k L hPa (hm b hb)
  exact foldRes_induct _ (LiveLe k L) adsb step tr tr1 hP h

theorem commbFold_liveLe {ias : Rat → Int → Rat} {tr tr2 : Tracker} {commb : List (Rat × Msg)}
    (h : commbFold ias tr commb = .val tr2)
    (k : Msg) (L : Int) (hP : LiveLe k L tr) (hm : ∀ p ∈ commb, keyOf p.2 = k → pyInt p.1 ≤ L) :
    LiveLe k L tr2 := by
  have step : ∀ (a : Tracker) (b : Rat × Msg) (a' : Tracker), b ∈ commb → LiveLe k L a →
      commbStep ias a b.1 b.2 = .val a' → LiveLe k L a' :=
    fun a b a' hb hPa hs => commbStep_live_le hs k L hPa (hm b hb)
  exact foldRes_induct _ (LiveLe k L) commb step tr tr2 hP h

/-- all records of `k` older than 60 s: the purge removes the key -/
theorem liveLe_purged {tr2 : Tracker} {k : Msg} {L : Int} {tnow : Rat} (hP : LiveLe k L tr2)
    (hL : tnow - (L : Rat) > 60) : k ∉ keys (tr2.acs.filter (keep tnow)) := by
  intro hk
  simp only [keys, List.mem_map, List.mem_filter] at hk
  obtain ⟨p, ⟨hp, hkeep⟩, e⟩ := hk
  have hl := hP p hp e
  unfold keep at hkeep
  rw [cacheTimeout_eq] at hkeep
  have : ((p.2.live : Int) : Rat) ≤ (L : Rat) := by exact_mod_cast hl
  simp only [Bool.not_eq_true', decide_eq_false_iff_not] at hkeep
  have e : ((60 : Int) : Rat) = 60 := by norm_cast
  rw [e] at hkeep
  grind

/-! ### the table stays a dict: no key twice -/

theorem acsSet_nodup (acs : List (Msg × Ac)) (k : Msg) (a : Ac) (h : (keys acs).Nodup) :
    (keys (acsSet acs k a)).Nodup := by
  by_cases hk : k ∈ keys acs
  · rw [acsSet_keys_of_mem acs k a hk]; exact h
  · rw [acsSet_keys_of_not_mem acs k a hk]
    rw [List.nodup_append]
    refine ⟨h, by simp, ?_⟩
    intro x hx y hy
    simp only [List.mem_singleton] at hy
    subst hy
    intro e; subst e; exact hk hx

theorem processRaw_nodup {ias : Rat → Int → Rat} {tr tr' : Tracker} {adsb commb : List (Rat × Msg)} {tnow : Rat}
    (h : processRaw ias tr adsb commb tnow = .val tr') (hn : (keys tr.acs).Nodup) : (keys tr'.acs).Nodup := by
  obtain ⟨tr1, tr2, h1, h2, rfl⟩ := processRaw_val h
  have stepA : ∀ (a : Tracker) (b : Rat × Msg) (a' : Tracker), b ∈ adsb → (keys a.acs).Nodup →
      adsbStep a b.1 b.2 = .val a' → (keys a'.acs).Nodup := by
    intro a b a' _ hP hs
    obtain ⟨ac', rfl, _⟩ := adsbStep_val hs
    exact acsSet_nodup _ _ _ hP
  have n1 : (keys tr1.acs).Nodup := foldRes_induct _ (fun x => (keys x.acs).Nodup) adsb stepA tr tr1 hn h1
  have n2 : (keys tr2.acs).Nodup := by rw [commbFold_keys h2]; exact n1
  exact List.Nodup.sublist (List.Sublist.map _ List.filter_sublist) n2

end PyModeS.Tracker
